// Package refpol is the reference policy evaluator used as the oracle for every dataplane
// (iptables/nftables rendering, BPF programs, Windows HNS rules, app-policy). It is written from
// the PROPERTY STATEMENTS in /verif/properties.jsonl (C08, C09, C11, C12, C29, C30), not from any
// renderer, and it is deliberately boring.
//
// Where the statements are silent the evaluator does not guess: it answers Unspecified and the
// caller must accept whatever the implementation does (and should count the case).
//
// API
//
//	type Packet                               the abstract packet (addresses, protocol, ports / ICMP, set tags)
//	RuleMatches(rule *proto.Rule, p *Packet) Tri      does one proto.Rule match the packet?
//	type Endpoint{Tiers []Tier; Profiles []Profile}   what applies to one endpoint in ONE direction
//	EndpointVerdict(ep *Endpoint, p *Packet, o Options) Verdict   tiered verdict
//	ProtoRules([]*proto.Rule) []Rule                   adapter from proto rules to abstract rules
//
// It is overlaid into the calico module as github.com/projectcalico/calico/zzverif/refpol.
package refpol

import (
	"fmt"
	"net/netip"
	"strings"

	"github.com/projectcalico/calico/felix/proto"
)

// Tri is a three-valued answer.
type Tri int

const (
	No          Tri = iota // definitely does not match
	Yes                    // definitely matches
	Unspecified            // the property statements do not say; accept the implementation's behaviour
)

func (t Tri) String() string { return [...]string{"no", "yes", "unspecified"}[t] }

// and3: No dominates, then Unspecified.
func and3(a, b Tri) Tri {
	if a == No || b == No {
		return No
	}
	if a == Unspecified || b == Unspecified {
		return Unspecified
	}
	return Yes
}

func fromBool(b bool) Tri {
	if b {
		return Yes
	}
	return No
}

// Protocol numbers.
const (
	ProtoICMP    = 1
	ProtoTCP     = 6
	ProtoUDP     = 17
	ProtoICMPv6  = 58
	ProtoSCTP    = 132
	ProtoUDPLite = 136
)

// Packet is the abstract packet the reference is asked about.
//
// IP-set membership is given as tags keyed by the IP set ID used in the proto.Rule (not by any
// dataplane name): checks that materialise IP sets compute the tags from the real contents first.
type Packet struct {
	IPVersion int // 4 or 6
	Src, Dst  netip.Addr
	Proto     int // IANA protocol number
	SrcPort   int // meaningful iff HasPorts(Proto)
	DstPort   int
	ICMPType  int // meaningful iff Proto is ICMP (IPv4) / ICMPv6 (IPv6)
	ICMPCode  int
	// SrcIPSets[id] / DstIPSets[id]: the source / destination ADDRESS is a member of IP set id.
	SrcIPSets map[string]bool
	DstIPSets map[string]bool
	// SrcIPPortSets[id] / DstIPPortSets[id]: (address, protocol, port) of the source / destination is a
	// member of the named-port / service IP set id.
	SrcIPPortSets map[string]bool
	DstIPPortSets map[string]bool
}

// HasPorts reports whether packets of this protocol carry source/destination ports.
func HasPorts(proto int) bool {
	return proto == ProtoTCP || proto == ProtoUDP || proto == ProtoSCTP || proto == ProtoUDPLite
}

// ProtocolNumber resolves a proto.Protocol (name or number) to its number; ok=false for unknown names.
func ProtocolNumber(p *proto.Protocol) (int, bool) {
	switch v := p.GetNumberOrName().(type) {
	case *proto.Protocol_Number:
		return int(v.Number), true
	case *proto.Protocol_Name:
		switch strings.ToLower(v.Name) {
		case "tcp":
			return ProtoTCP, true
		case "udp":
			return ProtoUDP, true
		case "icmp":
			return ProtoICMP, true
		case "icmpv6":
			return ProtoICMPv6, true
		case "sctp":
			return ProtoSCTP, true
		case "udplite":
			return ProtoUDPLite, true
		}
	}
	return 0, false
}

// ErrUnsupported is returned (wrapped) by CheckSupported for rule features outside this reference.
var ErrUnsupported = fmt.Errorf("refpol: unsupported rule feature")

// CheckSupported reports rule features the reference does not model (L7 matches, malformed nets).
func CheckSupported(r *proto.Rule) error {
	if r.HttpMatch != nil || r.SrcServiceAccountMatch != nil || r.DstServiceAccountMatch != nil {
		return fmt.Errorf("%w: HTTP / service-account match", ErrUnsupported)
	}
	for _, l := range [][]string{r.SrcNet, r.DstNet, r.NotSrcNet, r.NotDstNet} {
		for _, c := range l {
			if _, err := netip.ParsePrefix(c); err != nil {
				return fmt.Errorf("%w: bad CIDR %q", ErrUnsupported, c)
			}
		}
	}
	for _, p := range []*proto.Protocol{r.Protocol, r.NotProtocol} {
		if p != nil {
			if _, ok := ProtocolNumber(p); !ok {
				return fmt.Errorf("%w: unknown protocol %v", ErrUnsupported, p)
			}
		}
	}
	switch r.Action {
	case "", "allow", "deny", "pass", "next-tier", "log":
	default:
		return fmt.Errorf("%w: action %q", ErrUnsupported, r.Action)
	}
	return nil
}

// netsOfVersion returns the CIDRs of the packet's IP version.
func netsOfVersion(cidrs []string, v int) []netip.Prefix {
	var out []netip.Prefix
	for _, c := range cidrs {
		p, err := netip.ParsePrefix(c)
		if err != nil {
			continue
		}
		if p.Addr().Is4() == (v == 4) {
			out = append(out, p.Masked())
		}
	}
	return out
}

func inAny(nets []netip.Prefix, a netip.Addr) bool {
	for _, n := range nets {
		if n.Contains(a) {
			return true
		}
	}
	return false
}

func inPorts(prs []*proto.PortRange, port int) bool {
	for _, r := range prs {
		if int32(port) >= r.First && int32(port) <= r.Last {
			return true
		}
	}
	return false
}

// RuleMatches decides whether the match criteria of rule (its action is ignored) hold for p.
//
// Meaning of the fields, as the rule model states them (all present clauses are AND-ed):
//
//	IpVersion            rule only applies to packets of that IP version
//	Protocol/NotProtocol packet protocol equals / differs
//	SrcNet/DstNet        address is inside AT LEAST ONE of the CIDRs (a CIDR of the other IP version never contains it)
//	NotSrcNet/NotDstNet  address is inside NONE of the CIDRs
//	SrcPorts + SrcNamedPortIpSetIds    (together one clause) port is in one of the ranges OR (addr,proto,port) is in one
//	                                   of the named-port sets; likewise Dst
//	NotSrcPorts, NotSrcNamedPortIpSetIds   port in none of the ranges; member of none of the sets; likewise Dst
//	SrcIpSetIds/DstIpSetIds            address is a member of EVERY listed set
//	NotSrcIpSetIds/NotDstIpSetIds      address is a member of NONE of the listed sets
//	DstIpPortSetIds                    (dst addr, proto, dst port) is a member of EVERY listed set
//	Icmp type / type+code              packet is ICMP (v4) / ICMPv6 (v6) with that type (and code)
//	NotIcmp type / type+code           NOT (type matches (and code matches))
//
// Unspecified is returned where the statements are silent:
//   - a negated CIDR list that holds no CIDR of the packet's IP version (is the rule "for the other
//     IP version", or is the negation trivially true?);
//   - a positive CIDR list mixing both IP versions next to another field that holds only the other version
//     is NOT special-cased: plain set semantics apply (a v4 address is in no v6 CIDR);
//   - NotIcmp on a packet that is not ICMP when the rule does not also pin the protocol;
//   - port clauses on a packet whose protocol has no ports when the rule does not also pin the protocol.
func RuleMatches(rule *proto.Rule, p *Packet) Tri {
	res := Yes
	if rule.IpVersion != proto.IPVersion_ANY && int(rule.IpVersion) != p.IPVersion {
		return No
	}
	if rule.Protocol != nil {
		n, _ := ProtocolNumber(rule.Protocol)
		res = and3(res, fromBool(p.Proto == n))
	}
	if rule.NotProtocol != nil {
		n, _ := ProtocolNumber(rule.NotProtocol)
		res = and3(res, fromBool(p.Proto != n))
	}
	if res == No {
		return No
	}
	// --- nets
	if len(rule.SrcNet) > 0 {
		res = and3(res, fromBool(inAny(netsOfVersion(rule.SrcNet, p.IPVersion), p.Src)))
	}
	if len(rule.DstNet) > 0 {
		res = and3(res, fromBool(inAny(netsOfVersion(rule.DstNet, p.IPVersion), p.Dst)))
	}
	negNets := func(cidrs []string, a netip.Addr) Tri {
		if len(cidrs) == 0 {
			return Yes
		}
		same := netsOfVersion(cidrs, p.IPVersion)
		if len(same) == 0 {
			return Unspecified
		}
		return fromBool(!inAny(same, a))
	}
	res = and3(res, negNets(rule.NotSrcNet, p.Src))
	res = and3(res, negNets(rule.NotDstNet, p.Dst))
	// --- ports
	ports := HasPorts(p.Proto)
	portClause := func(numeric []*proto.PortRange, named []string, port int, tags map[string]bool) Tri {
		if len(numeric) == 0 && len(named) == 0 {
			return Yes
		}
		for _, id := range named {
			if tags[id] {
				return Yes
			}
		}
		if len(numeric) > 0 {
			if !ports {
				if rule.Protocol == nil {
					return Unspecified
				}
				return No
			}
			return fromBool(inPorts(numeric, port))
		}
		return No
	}
	res = and3(res, portClause(rule.SrcPorts, rule.SrcNamedPortIpSetIds, p.SrcPort, p.SrcIPPortSets))
	res = and3(res, portClause(rule.DstPorts, rule.DstNamedPortIpSetIds, p.DstPort, p.DstIPPortSets))
	notPorts := func(numeric []*proto.PortRange, port int) Tri {
		if len(numeric) == 0 {
			return Yes
		}
		if !ports {
			if rule.Protocol == nil {
				return Unspecified
			}
			// the statements do not say what "port not in X" means for a port-less packet; with the
			// protocol pinned to a port protocol this is already No, otherwise we do not guess
			return Unspecified
		}
		return fromBool(!inPorts(numeric, port))
	}
	res = and3(res, notPorts(rule.NotSrcPorts, p.SrcPort))
	res = and3(res, notPorts(rule.NotDstPorts, p.DstPort))
	for _, id := range rule.NotSrcNamedPortIpSetIds {
		res = and3(res, fromBool(!p.SrcIPPortSets[id]))
	}
	for _, id := range rule.NotDstNamedPortIpSetIds {
		res = and3(res, fromBool(!p.DstIPPortSets[id]))
	}
	// --- IP sets
	for _, id := range rule.SrcIpSetIds {
		res = and3(res, fromBool(p.SrcIPSets[id]))
	}
	for _, id := range rule.DstIpSetIds {
		res = and3(res, fromBool(p.DstIPSets[id]))
	}
	for _, id := range rule.NotSrcIpSetIds {
		res = and3(res, fromBool(!p.SrcIPSets[id]))
	}
	for _, id := range rule.NotDstIpSetIds {
		res = and3(res, fromBool(!p.DstIPSets[id]))
	}
	for _, id := range rule.DstIpPortSetIds {
		res = and3(res, fromBool(p.DstIPPortSets[id]))
	}
	// --- ICMP
	isICMP := (p.IPVersion == 4 && p.Proto == ProtoICMP) || (p.IPVersion == 6 && p.Proto == ProtoICMPv6)
	switch ic := rule.Icmp.(type) {
	case *proto.Rule_IcmpType:
		res = and3(res, fromBool(isICMP && p.ICMPType == int(ic.IcmpType)))
	case *proto.Rule_IcmpTypeCode:
		res = and3(res, fromBool(isICMP && p.ICMPType == int(ic.IcmpTypeCode.Type) && p.ICMPCode == int(ic.IcmpTypeCode.Code)))
	}
	negICMP := func(m bool) Tri {
		if !isICMP {
			return Unspecified
		}
		return fromBool(!m)
	}
	switch ic := rule.NotIcmp.(type) {
	case *proto.Rule_NotIcmpType:
		res = and3(res, negICMP(p.ICMPType == int(ic.NotIcmpType)))
	case *proto.Rule_NotIcmpTypeCode:
		res = and3(res, negICMP(p.ICMPType == int(ic.NotIcmpTypeCode.Type) && p.ICMPCode == int(ic.NotIcmpTypeCode.Code)))
	}
	return res
}

// ---------------------------------------------------------------------------------------------
// tiered verdict

// Action of an abstract rule.
type Action int

const (
	Allow Action = iota
	Deny
	Pass // "pass" / "next-tier"
	Log  // no decision, evaluation continues with the next rule
)

func (a Action) String() string { return [...]string{"allow", "deny", "pass", "log"}[a] }

// ParseAction maps a proto.Rule action string.
func ParseAction(s string) (Action, bool) {
	switch s {
	case "", "allow":
		return Allow, true
	case "deny":
		return Deny, true
	case "pass", "next-tier":
		return Pass, true
	case "log":
		return Log, true
	}
	return 0, false
}

// Rule is an abstract rule: an action and a match predicate.
type Rule struct {
	Action  Action
	Matches func(p *Packet) Tri
}

// ProtoRules adapts proto rules (of one direction of a policy or profile).
func ProtoRules(rules []*proto.Rule) []Rule {
	out := make([]Rule, 0, len(rules))
	for _, r := range rules {
		r := r
		a, ok := ParseAction(r.Action)
		if !ok {
			panic("refpol: unknown action " + r.Action)
		}
		out = append(out, Rule{Action: a, Matches: func(p *Packet) Tri { return RuleMatches(r, p) }})
	}
	return out
}

// Policy is one policy as it applies to the endpoint in the direction under evaluation.
type Policy struct {
	Name   string
	Staged bool // staged policies never affect the verdict
	Rules  []Rule
}

// Tier is an ordered list of the policies of one tier that apply to the endpoint in this direction.
type Tier struct {
	Name string
	// DefaultAction: "Pass" makes an unmatched tier fall through to the next one; anything else
	// ("", "Deny") denies when an enforced policy applied and nothing matched.
	DefaultAction string
	Policies      []Policy
}

// Profile is an ordered rule list evaluated after the tiers.
type Profile struct {
	Name  string
	Rules []Rule
}

// Endpoint is everything that applies to one endpoint in ONE direction (ingress or egress).
type Endpoint struct {
	Tiers    []Tier
	Profiles []Profile
}

// Decision is the outcome for the packet.
type Decision int

const (
	Denied Decision = iota
	Allowed
	Undecided // the statements do not determine the outcome (an Unspecified match or option was hit)
)

func (d Decision) String() string { return [...]string{"deny", "allow", "undecided"}[d] }

// Reason says which clause of the statement produced the decision.
type Reason int

const (
	ByPolicyRule     Reason = iota // first matching allow/deny rule of an enforced policy
	ByEndOfTier                    // tier with an enforced policy, nothing matched, default action not Pass
	ByProfileRule                  // first matching allow/deny rule of a profile
	ByNoProfileMatch               // fell off the end: "anything not allowed is denied"
	ByUnspecified                  // see Decision Undecided
)

func (r Reason) String() string {
	return [...]string{"policy-rule", "end-of-tier", "profile-rule", "no-profile-match", "unspecified"}[r]
}

// Verdict is the reference answer with its provenance.
type Verdict struct {
	Decision Decision
	Reason   Reason
	// Tier / Policy / Profile / Rule index of the deciding element (-1 where not applicable).
	Tier, Policy, Profile, Rule int
	// EndOfTierSeen: some earlier tier ended with "no match" and default action Pass (for checks of chain
	// types where only rule-decided verdicts are comparable).
	PassedTiers int
	// Note explains Undecided.
	Note string
}

// ProfilePassMode says how a matching "pass" rule inside a PROFILE is treated. The statements are silent
// (dataplanes differ: H12), so the default is to answer Undecided.
type ProfilePassMode int

const (
	ProfilePassUnspecified ProfilePassMode = iota
	ProfilePassNextProfile                 // stop this profile, continue with the next one
	ProfilePassDeny                        // treat as end of evaluation: deny
)

// Options tune the clauses the statements leave open.
type Options struct {
	ProfilePass ProfilePassMode
}

// EndpointVerdict evaluates the tiered policy of the statement of C09:
//
//	tiers in order; inside a tier the policies in order, inside a policy the rules in order;
//	staged policies are skipped entirely;
//	the first matching allow or deny decides; a matching pass ends the tier and moves to the next tier;
//	log rules never decide;
//	a tier that holds at least one enforced (non-staged) policy and matched nothing denies, unless its
//	default action is Pass (then the next tier is evaluated);
//	after the tiers the profiles are evaluated in order, first matching allow/deny decides;
//	anything not allowed is denied.
func EndpointVerdict(ep *Endpoint, p *Packet, o Options) Verdict {
	v := Verdict{Tier: -1, Policy: -1, Profile: -1, Rule: -1}
	undecided := func(note string) Verdict {
		v.Decision, v.Reason, v.Note = Undecided, ByUnspecified, note
		return v
	}
	for ti, t := range ep.Tiers {
		enforced := false
		passed := false
	tier:
		for pi, pol := range t.Policies {
			if pol.Staged {
				continue
			}
			enforced = true
			for ri, r := range pol.Rules {
				m := r.Matches(p)
				if m == No {
					continue
				}
				if m == Unspecified {
					return undecided(fmt.Sprintf("match of tier %d policy %d rule %d is unspecified", ti, pi, ri))
				}
				switch r.Action {
				case Log:
					continue
				case Allow, Deny:
					v.Tier, v.Policy, v.Rule = ti, pi, ri
					v.Reason = ByPolicyRule
					v.Decision = Denied
					if r.Action == Allow {
						v.Decision = Allowed
					}
					return v
				case Pass:
					passed = true
					break tier
				}
			}
		}
		if passed {
			continue
		}
		if enforced {
			if t.DefaultAction == "Pass" {
				v.PassedTiers++
				continue
			}
			v.Tier = ti
			v.Decision, v.Reason = Denied, ByEndOfTier
			return v
		}
	}
	for pi, prof := range ep.Profiles {
	profile:
		for ri, r := range prof.Rules {
			m := r.Matches(p)
			if m == No {
				continue
			}
			if m == Unspecified {
				return undecided(fmt.Sprintf("match of profile %d rule %d is unspecified", pi, ri))
			}
			switch r.Action {
			case Log:
				continue
			case Allow, Deny:
				v.Profile, v.Rule = pi, ri
				v.Reason = ByProfileRule
				v.Decision = Denied
				if r.Action == Allow {
					v.Decision = Allowed
				}
				return v
			case Pass:
				switch o.ProfilePass {
				case ProfilePassNextProfile:
					break profile
				case ProfilePassDeny:
					v.Profile, v.Rule = pi, ri
					v.Decision, v.Reason = Denied, ByProfileRule
					return v
				default:
					return undecided(fmt.Sprintf("pass rule matched in profile %d (rule %d): not covered by the statements", pi, ri))
				}
			}
		}
	}
	v.Decision, v.Reason = Denied, ByNoProfileMatch
	return v
}

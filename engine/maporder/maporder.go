// Package maporder turns the unspecified iteration order of a Go map into an explicit choice point
// that an explorer controls.
//
// Code under exploration that says `for k := range m { ... }` is rewritten (textual substitution at
// check time, never in /repo) into `for _, k := range maporder.Keys(m) { ... }`. Any permutation of
// the keys is a legal behaviour of the original loop, so a search that tries every permutation
// covers every behaviour of the original (and more than one run of the Go runtime would show).
//
// The choice is routed through the *calling goroutine*: an explorer thread binds a Chooser before it
// calls into the code under exploration (Bind/Unbind). A goroutine without a binding gets the
// natural (runtime-random) order, i.e. the rewritten code then behaves exactly like the original.
//
// Overlaid into the calico module as github.com/projectcalico/calico/zzverif/maporder. No calico
// imports (it is imported by rewritten calico packages).
package maporder

import (
	"runtime"
	"sort"
	"sync"
	"sync/atomic"
)

// Chooser receives the keys in sorted order and returns them in the order the loop must visit them
// (it must return a permutation of its argument).
type Chooser func(sorted []string) []string

var (
	byGoroutine sync.Map // goid -> Chooser
	calls       atomic.Int64
)

func goid() uint64 {
	var buf [40]byte
	n := runtime.Stack(buf[:], false)
	// "goroutine 123 [running]:..."
	var id uint64
	for i := len("goroutine "); i < n; i++ {
		ch := buf[i]
		if ch < '0' || ch > '9' {
			break
		}
		id = id*10 + uint64(ch-'0')
	}
	return id
}

// Bind makes c decide every map order asked for by the calling goroutine.
func Bind(c Chooser) { byGoroutine.Store(goid(), c) }

// Unbind removes the calling goroutine's binding.
func Unbind() { byGoroutine.Delete(goid()) }

// Calls is the number of times Keys has been called in this process (lets a harness verify that the
// source rewrite is in place).
func Calls() int64 { return calls.Load() }

// Keys returns the keys of m in the order the rewritten loop must visit them.
func Keys[V any](m map[string]V) []string {
	calls.Add(1)
	keys := make([]string, 0, len(m))
	for k := range m {
		keys = append(keys, k)
	}
	if len(keys) < 2 {
		return keys
	}
	c, ok := byGoroutine.Load(goid())
	if !ok {
		return keys // natural order: identical to the original loop
	}
	sort.Strings(keys)
	out := c.(Chooser)(append([]string(nil), keys...))
	if len(out) != len(keys) {
		panic("maporder: chooser did not return a permutation")
	}
	return out
}

// NumPerms is n! (n <= 12).
func NumPerms(n int) int {
	f := 1
	for i := 2; i <= n; i++ {
		f *= i
	}
	return f
}

// Perm returns the idx-th permutation (0 = identity, lexicographic order) of keys.
func Perm(keys []string, idx int) []string {
	pool := append([]string(nil), keys...)
	out := make([]string, 0, len(keys))
	for n := len(pool); n > 0; n-- {
		f := NumPerms(n - 1)
		i := (idx / f) % n
		idx %= f
		out = append(out, pool[i])
		pool = append(pool[:i], pool[i+1:]...)
	}
	return out
}

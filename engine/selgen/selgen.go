// Package selgen is a bounded-exhaustive generator for the calico selector grammar: it enumerates
// abstract syntax trees up to a number of leaves, renders every tree in several surface styles
// (quote style, spacing, "not in"/"notin", redundant parentheses, "!!"/"!(!" for double negation),
// produces single-token edits of a rendered string (near-miss inputs) and evaluates a tree against a
// label map with an evaluator written from the selector documentation (independent of the calico
// parser/AST).  It imports nothing from calico.
//
// It is overlaid into the calico module as github.com/projectcalico/calico/zzverif/selgen.
package selgen

import (
	"sort"
	"strings"
)

type Kind int

const (
	Eq Kind = iota
	Ne
	Contains
	StartsWith
	EndsWith
	In
	NotIn
	Has
	All
	Global
	Not
	And
	Or
)

var kindNames = [...]string{"eq", "ne", "contains", "starts", "ends", "in", "notin", "has", "all", "global", "not", "and", "or"}

func (k Kind) String() string { return kindNames[k] }

// Node is a generator-side AST node.
type Node struct {
	Kind  Kind
	Label string
	Value string
	Set   []string // In / NotIn, in source order (may contain duplicates)
	Kids  []*Node  // Not: 1, And/Or: >= 2
}

// Eval is the reference semantics, written from the documented meaning of each operator.
func (n *Node) Eval(l map[string]string) bool {
	v, ok := l[n.Label]
	switch n.Kind {
	case Eq:
		return ok && v == n.Value
	case Ne:
		return !ok || v != n.Value
	case Contains:
		return ok && strings.Contains(v, n.Value)
	case StartsWith:
		return ok && strings.HasPrefix(v, n.Value)
	case EndsWith:
		return ok && strings.HasSuffix(v, n.Value)
	case In:
		if !ok {
			return false
		}
		for _, s := range n.Set {
			if s == v {
				return true
			}
		}
		return false
	case NotIn:
		if !ok {
			return true
		}
		for _, s := range n.Set {
			if s == v {
				return false
			}
		}
		return true
	case Has:
		return ok
	case All, Global:
		return true
	case Not:
		return !n.Kids[0].Eval(l)
	case And:
		for _, k := range n.Kids {
			if !k.Eval(l) {
				return false
			}
		}
		return true
	case Or:
		for _, k := range n.Kids {
			if k.Eval(l) {
				return true
			}
		}
		return false
	}
	panic("selgen: bad kind")
}

// Leaves counts the leaves of the tree.
func (n *Node) Leaves() int {
	if len(n.Kids) == 0 {
		return 1
	}
	c := 0
	for _, k := range n.Kids {
		c += k.Leaves()
	}
	return c
}

// Labels returns the sorted distinct label names used.
func (n *Node) Labels() []string {
	m := map[string]bool{}
	var walk func(*Node)
	walk = func(x *Node) {
		if len(x.Kids) == 0 {
			if x.Kind != All && x.Kind != Global {
				m[x.Label] = true
			}
			return
		}
		for _, k := range x.Kids {
			walk(k)
		}
	}
	walk(n)
	out := make([]string, 0, len(m))
	for k := range m {
		out = append(out, k)
	}
	sort.Strings(out)
	return out
}

func valClass(v string) string {
	switch {
	case v == "":
		return "e"
	case strings.Contains(v, `"`):
		return "dq"
	case strings.Contains(v, `'`):
		return "sq"
	}
	return "p"
}

// Shape abstracts the tree to operator kinds, keyword-like labels and value quote classes; used as
// a coverage signature (bounded number of distinct shapes).
func (n *Node) Shape() string {
	var b strings.Builder
	var walk func(*Node)
	walk = func(x *Node) {
		b.WriteString(x.Kind.String())
		switch x.Kind {
		case Eq, Ne, Contains, StartsWith, EndsWith:
			b.WriteString("[" + x.Label + ":" + valClass(x.Value) + "]")
		case In, NotIn:
			b.WriteString("[" + x.Label)
			for _, s := range x.Set {
				b.WriteString(":" + valClass(s))
			}
			b.WriteString("]")
		case Has:
			b.WriteString("[" + x.Label + "]")
		}
		if len(x.Kids) > 0 {
			b.WriteString("(")
			for i, k := range x.Kids {
				if i > 0 {
					b.WriteString(",")
				}
				walk(k)
			}
			b.WriteString(")")
		}
	}
	walk(n)
	return b.String()
}

// KindShape abstracts the tree to operator kinds only.
func (n *Node) KindShape() string {
	if len(n.Kids) == 0 {
		return n.Kind.String()
	}
	parts := make([]string, len(n.Kids))
	for i, k := range n.Kids {
		parts[i] = k.KindShape()
	}
	return n.Kind.String() + "(" + strings.Join(parts, ",") + ")"
}

// MakeLeaves builds every leaf form over the given labels, values and set literals.
func MakeLeaves(labels, values []string, sets [][]string) []*Node {
	var out []*Node
	for _, l := range labels {
		for _, k := range []Kind{Eq, Ne, Contains, StartsWith, EndsWith} {
			for _, v := range values {
				out = append(out, &Node{Kind: k, Label: l, Value: v})
			}
		}
		for _, k := range []Kind{In, NotIn} {
			for _, s := range sets {
				out = append(out, &Node{Kind: k, Label: l, Set: s})
			}
		}
		out = append(out, &Node{Kind: Has, Label: l})
	}
	out = append(out, &Node{Kind: All}, &Node{Kind: Global})
	return out
}

// SetsUpTo returns every ordered tuple (with repetition) of size 0..max over values.
func SetsUpTo(values []string, max int) [][]string {
	out := [][]string{{}}
	prev := [][]string{{}}
	for n := 1; n <= max; n++ {
		var cur [][]string
		for _, p := range prev {
			for _, v := range values {
				t := append(append([]string{}, p...), v)
				cur = append(cur, t)
			}
		}
		out = append(out, cur...)
		prev = cur
	}
	return out
}

func negs(xs []*Node) []*Node {
	out := make([]*Node, 0, 2*len(xs))
	for _, x := range xs {
		out = append(out, x, &Node{Kind: Not, Kids: []*Node{x}})
	}
	return out
}

// Groups2 returns every And/Or group of two operands, each operand a possibly negated leaf.
func Groups2(leaves []*Node) []*Node {
	u := negs(leaves)
	out := make([]*Node, 0, 2*len(u)*len(u))
	for _, k := range []Kind{And, Or} {
		for _, a := range u {
			for _, b := range u {
				out = append(out, &Node{Kind: k, Kids: []*Node{a, b}})
			}
		}
	}
	return out
}

// Groups3For yields every And/Or group with exactly three leaves whose FIRST leaf-level choice is
// fixed by (kind, first): flat triples first∘b∘c, left-nested (first∘b)∘'c, right-nested
// first∘'(b∘c); inner groups and operands possibly negated. Partitioned this way so that callers can
// parallelise over (kind, first).
func Groups3For(kind Kind, first *Node, leaves []*Node, yield func(*Node) bool) bool {
	u := negs(leaves)
	// flat
	for _, b := range u {
		for _, c := range u {
			if !yield(&Node{Kind: kind, Kids: []*Node{first, b, c}}) {
				return false
			}
		}
	}
	for _, ik := range []Kind{And, Or} {
		for _, b := range u {
			// left-nested: (first ik b) kind c, inner possibly negated
			inner := &Node{Kind: ik, Kids: []*Node{first, b}}
			for _, in := range []*Node{inner, {Kind: Not, Kids: []*Node{inner}}} {
				for _, c := range u {
					if !yield(&Node{Kind: kind, Kids: []*Node{in, c}}) {
						return false
					}
				}
			}
			// right-nested: first kind (b ik c)
			for _, c := range u {
				inner := &Node{Kind: ik, Kids: []*Node{b, c}}
				for _, in := range []*Node{inner, {Kind: Not, Kids: []*Node{inner}}} {
					if !yield(&Node{Kind: kind, Kids: []*Node{first, in}}) {
						return false
					}
				}
			}
		}
	}
	return true
}

// Tops wraps a tree in the top-level forms: t, !t, !!t.
func Tops(t *Node) []*Node {
	n1 := &Node{Kind: Not, Kids: []*Node{t}}
	return []*Node{t, n1, {Kind: Not, Kids: []*Node{n1}}}
}

// ---------------------------------------------------------------------------------------------
// Rendering

type TokType int

const (
	TSym    TokType = iota // ( ) { } , ! && || == !=
	TLabel                 // identifier
	TWordOp                // in, not in, contains, starts with, ends with
	TStr                   // quoted string
	TFunc                  // has(x) all() global()
)

type Tok struct {
	T TokType
	S string
}

// Style selects one surface form.
type Style struct {
	Quote      int  // 0: prefer ", 1: prefer '
	Space      int  // 0: single spaces everywhere, 1: only mandatory spaces, 2: tabs + double spaces
	NotIn      int  // 0: "not in", 1: "notin", 2: "not  in"; likewise starts/ends with
	Parens     int  // 0: every nested group parenthesised, 1: also leaves and whole expr in redundant parens, 2: minimal (precedence-based)
	NestedNot  bool // double negation rendered "!(!x)" instead of "!!x"
	FuncSpaces bool // "has( a )", "all( )"
}

func (s Style) String() string {
	b := []byte{'q', byte('0' + s.Quote), 's', byte('0' + s.Space), 'n', byte('0' + s.NotIn), 'p', byte('0' + s.Parens)}
	if s.NestedNot {
		b = append(b, 'N')
	}
	if s.FuncSpaces {
		b = append(b, 'F')
	}
	return string(b)
}

// Canonicalish is the plain style (single spaces, double quotes, full parentheses).
var Canonicalish = Style{}

// Styles is the list of surface styles used for every tree.
func Styles() []Style {
	return []Style{
		{},
		{Quote: 1, Space: 1, NotIn: 1, Parens: 2},
		{Quote: 0, Space: 2, NotIn: 2, Parens: 1, NestedNot: true, FuncSpaces: true},
		{Quote: 1, Space: 0, NotIn: 0, Parens: 2, NestedNot: true},
	}
}

// AllStyles is the full cross product (used for small trees).
func AllStyles() []Style {
	var out []Style
	for q := 0; q < 2; q++ {
		for sp := 0; sp < 3; sp++ {
			for ni := 0; ni < 3; ni++ {
				for p := 0; p < 3; p++ {
					for _, nn := range []bool{false, true} {
						for _, fs := range []bool{false, true} {
							out = append(out, Style{q, sp, ni, p, nn, fs})
						}
					}
				}
			}
		}
	}
	return out
}

func quote(v string, pref int) string {
	hasD, hasS := strings.Contains(v, `"`), strings.Contains(v, `'`)
	switch {
	case hasD && hasS:
		panic("selgen: value with both quote kinds cannot be written")
	case hasD:
		return `'` + v + `'`
	case hasS:
		return `"` + v + `"`
	case pref == 1:
		return `'` + v + `'`
	}
	return `"` + v + `"`
}

func wordOp(k Kind, st Style) string {
	two := func(a, b string) string {
		switch st.NotIn {
		case 1:
			return a + b
		case 2:
			return a + "  " + b
		}
		return a + " " + b
	}
	switch k {
	case Contains:
		return "contains"
	case StartsWith:
		return two("starts", "with")
	case EndsWith:
		return two("ends", "with")
	case In:
		return "in"
	case NotIn:
		return two("not", "in")
	}
	panic("selgen: not a word op")
}

// Tokens renders the tree as a token list in the given style.
func (n *Node) Tokens(st Style) []Tok {
	var out []Tok
	sym := func(s string) { out = append(out, Tok{TSym, s}) }
	var emit func(x *Node, ctx Kind, top bool)
	emit = func(x *Node, ctx Kind, top bool) {
		switch x.Kind {
		case Eq, Ne:
			wrap := st.Parens == 1
			if wrap {
				sym("(")
			}
			out = append(out, Tok{TLabel, x.Label})
			if x.Kind == Eq {
				sym("==")
			} else {
				sym("!=")
			}
			out = append(out, Tok{TStr, quote(x.Value, st.Quote)})
			if wrap {
				sym(")")
			}
		case Contains, StartsWith, EndsWith:
			out = append(out, Tok{TLabel, x.Label}, Tok{TWordOp, wordOp(x.Kind, st)}, Tok{TStr, quote(x.Value, st.Quote)})
		case In, NotIn:
			out = append(out, Tok{TLabel, x.Label}, Tok{TWordOp, wordOp(x.Kind, st)})
			sym("{")
			for i, v := range x.Set {
				if i > 0 {
					sym(",")
				}
				out = append(out, Tok{TStr, quote(v, st.Quote)})
			}
			sym("}")
		case Has:
			if st.FuncSpaces {
				out = append(out, Tok{TFunc, "has( " + x.Label + "\t)"})
			} else {
				out = append(out, Tok{TFunc, "has(" + x.Label + ")"})
			}
		case All:
			if st.FuncSpaces {
				out = append(out, Tok{TFunc, "all( )"})
			} else {
				out = append(out, Tok{TFunc, "all()"})
			}
		case Global:
			if st.FuncSpaces {
				out = append(out, Tok{TFunc, "global(\t)"})
			} else {
				out = append(out, Tok{TFunc, "global()"})
			}
		case Not:
			sym("!")
			k := x.Kids[0]
			if k.Kind == Not && st.NestedNot {
				sym("(")
				emit(k, Not, false)
				sym(")")
			} else {
				emit(k, Not, false)
			}
		case And, Or:
			// parentheses are REQUIRED when the group is the operand of "!" or an Or inside an And;
			// everything else is optional.
			need := ctx == Not || (x.Kind == Or && ctx == And)
			paren := need
			switch st.Parens {
			case 0:
				paren = paren || !top
			case 1:
				paren = true
			case 2:
				// minimal: same-kind nesting and And-inside-Or lose their parentheses only when that
				// does not change the tree the parser builds semantically (flattening is fine for the
				// reference evaluator: both operators are associative).
			}
			if paren {
				sym("(")
			}
			for i, k := range x.Kids {
				if i > 0 {
					if x.Kind == And {
						sym("&&")
					} else {
						sym("||")
					}
				}
				emit(k, x.Kind, false)
			}
			if paren {
				sym(")")
			}
		}
	}
	emit(n, -1, true)
	return out
}

// Join turns tokens into text. Mandatory spaces (label before a word operator) are always kept.
func Join(toks []Tok, space int) string {
	var b strings.Builder
	for i, t := range toks {
		if i > 0 {
			prev := toks[i-1]
			mandatory := (prev.T == TLabel && t.T == TWordOp)
			switch {
			case space == 0:
				b.WriteString(" ")
			case space == 1:
				if mandatory {
					b.WriteString(" ")
				}
			default:
				if i%2 == 0 {
					b.WriteString("\t ")
				} else {
					b.WriteString("  ")
				}
			}
		}
		b.WriteString(t.S)
	}
	return b.String()
}

// Render = Tokens + Join.
func (n *Node) Render(st Style) string { return Join(n.Tokens(st), st.Space) }

// EditVocab is the token vocabulary used for insertions and substitutions.
var EditVocab = []string{
	"(", ")", "{", "}", ",", "!", "&&", "||", "==", "!=", "=", "&", "|",
	"in", "not in", "not", "contains", "starts with", "ends", "with",
	`"x"`, `'`, `"`, "a", "has(a)", "has(", "all()", "global()", "all(",
}

// Edits yields every single-token deletion, insertion and substitution of toks (rendered with
// single spaces), plus dropping the first / last character of the text.
func Edits(toks []Tok, yield func(kind, s string) bool) bool {
	strs := make([]string, len(toks))
	for i, t := range toks {
		strs[i] = t.S
	}
	join := func(parts []string) string { return strings.Join(parts, " ") }
	buf := make([]string, 0, len(strs)+1)
	for i := range strs {
		buf = append(append(buf[:0], strs[:i]...), strs[i+1:]...)
		if !yield("del", join(buf)) {
			return false
		}
		for _, v := range EditVocab {
			if v == strs[i] {
				continue
			}
			buf = append(append(append(buf[:0], strs[:i]...), v), strs[i+1:]...)
			if !yield("sub", join(buf)) {
				return false
			}
		}
	}
	for i := 0; i <= len(strs); i++ {
		for _, v := range EditVocab {
			buf = append(append(append(buf[:0], strs[:i]...), v), strs[i:]...)
			if !yield("ins", join(buf)) {
				return false
			}
		}
	}
	full := join(strs)
	if len(full) > 0 {
		if !yield("chop", full[1:]) || !yield("chop", full[:len(full)-1]) {
			return false
		}
	}
	return true
}

// LabelMaps returns every map from the given label names to the value domain (absent included;
// `absent` is signalled by the sentinel "\x00").
func LabelMaps(labels []string, domain []string) []map[string]string {
	out := []map[string]string{{}}
	for _, l := range labels {
		var next []map[string]string
		for _, m := range out {
			for _, v := range domain {
				c := map[string]string{}
				for k, x := range m {
					c[k] = x
				}
				if v != Absent {
					c[l] = v
				}
				next = append(next, c)
			}
		}
		out = next
	}
	return out
}

// Absent is the sentinel used in value domains for "label not present".
const Absent = "\x00"

package ebpf

import (
	"encoding/binary"
	"fmt"
	"strings"
)

// A tiny assembler for hand-written self-test programs.

// Asm builds byte code.
type Asm struct{ b []byte }

func (a *Asm) I(op uint8, dst, src uint8, off int16, imm int32) *Asm {
	var s [8]byte
	s[0] = op
	s[1] = src<<4 | dst&0xf
	binary.LittleEndian.PutUint16(s[2:], uint16(off))
	binary.LittleEndian.PutUint32(s[4:], uint32(imm))
	a.b = append(a.b, s[:]...)
	return a
}
func (a *Asm) MovImm(dst uint8, imm int32) *Asm   { return a.I(0xb7, dst, 0, 0, imm) }
func (a *Asm) Mov(dst, src uint8) *Asm            { return a.I(0xbf, dst, src, 0, 0) }
func (a *Asm) Mov32Imm(dst uint8, imm int32) *Asm { return a.I(0xb4, dst, 0, 0, imm) }
func (a *Asm) AddImm(dst uint8, imm int32) *Asm   { return a.I(0x07, dst, 0, 0, imm) }
func (a *Asm) Exit() *Asm                         { return a.I(0x95, 0, 0, 0, 0) }
func (a *Asm) Call(id int32) *Asm                 { return a.I(0x85, 0, 0, 0, id) }
func (a *Asm) LdImm64(dst uint8, v uint64) *Asm {
	a.I(0x18, dst, 0, 0, int32(uint32(v)))
	return a.I(0, 0, 0, 0, int32(uint32(v>>32)))
}
func (a *Asm) LdMapFD(dst uint8, fd int32) *Asm {
	a.I(0x18, dst, 1, 0, fd)
	return a.I(0, 0, 0, 0, 0)
}
func (a *Asm) Prog(name string) *Program {
	p, err := FromBytes(name, a.b)
	if err != nil {
		panic(err)
	}
	return p
}

type stCase struct {
	name  string
	build func(a *Asm)
	setup func(vm *VM)
	ctx   []byte
	want  uint64
	fault string // substring expected in the fault ("" = must succeed)
	after func(vm *VM, ctx []byte) error
}

// SelfTest runs the interpreter on hand-written programs with known results. A non-nil error means
// the interpreter itself is broken (harnesses must report it as a tool error, never as a verdict).
func SelfTest() error {
	hash := func() *HashMap { return NewHashMap("h", 4, 8, 4) }
	cases := []stCase{
		{name: "alu64-basic", want: 0xfffffffffffffff6, build: func(a *Asm) {
			a.MovImm(0, 10).I(0x27, 0, 0, 0, -1).Exit() // r0 = 10 * (s64)-1
		}},
		{name: "alu32-wrap", want: 0xfffffff6, build: func(a *Asm) {
			a.Mov32Imm(0, 10).I(0x24, 0, 0, 0, -1).Exit() // w0 = 10 * -1 -> zero-extended
		}},
		{name: "alu32-add-zext", want: 0, build: func(a *Asm) {
			a.LdImm64(0, 0xffffffffffffffff).I(0x04, 0, 0, 0, 1).Exit() // w0 += 1 -> 0
		}},
		{name: "mov-imm-sext", want: 0xffffffff80000000, build: func(a *Asm) {
			a.MovImm(0, -0x80000000).Exit()
		}},
		{name: "mov32-imm-zext", want: 0x80000000, build: func(a *Asm) {
			a.Mov32Imm(0, -0x80000000).Exit()
		}},
		{name: "div-by-zero", want: 0, build: func(a *Asm) {
			a.MovImm(0, 7).MovImm(1, 0).I(0x3f, 0, 1, 0, 0).Exit()
		}},
		{name: "mod-by-zero", want: 7, build: func(a *Asm) {
			a.MovImm(0, 7).MovImm(1, 0).I(0x9f, 0, 1, 0, 0).Exit()
		}},
		{name: "shifts", want: 0x00ffffffffffffff ^ 0x0f, build: func(a *Asm) {
			// r0 = -1 >> 8 (logical) ; r1 = (s64)(-16 arsh 60 = -1)>>60(logical)=0xf ; r0 ^= r1
			a.MovImm(0, -1).I(0x77, 0, 0, 0, 8).MovImm(1, -16).I(0xc7, 1, 0, 0, 60).I(0x77, 1, 0, 0, 60).I(0xaf, 0, 1, 0, 0).Exit()
		}},
		{name: "arsh32", want: 0xffffffff, build: func(a *Asm) {
			a.Mov32Imm(0, -2).I(0xc4, 0, 0, 0, 1).Exit()
		}},
		{name: "neg", want: 0xfffffffffffffffb, build: func(a *Asm) { a.MovImm(0, 5).I(0x87, 0, 0, 0, 0).Exit() }},
		{name: "endian-be16", want: 0x3412, build: func(a *Asm) { a.MovImm(0, 0x551234).I(0xdc, 0, 0, 0, 16).Exit() }},
		{name: "endian-be32", want: 0x78563412, build: func(a *Asm) { a.MovImm(0, 0x12345678).I(0xdc, 0, 0, 0, 32).Exit() }},
		{name: "endian-be64", want: 0x0807060504030201, build: func(a *Asm) { a.LdImm64(0, 0x0102030405060708).I(0xdc, 0, 0, 0, 64).Exit() }},
		{name: "endian-le16-trunc", want: 0x1234, build: func(a *Asm) { a.MovImm(0, 0x551234).I(0xd4, 0, 0, 0, 16).Exit() }},
		{name: "jmp-unsigned-vs-signed", want: 3, build: func(a *Asm) {
			// r1 = -1; if r1 > 1 (unsigned) r0 |= 1 ; if r1 s< 1 r0 |= 2
			a.MovImm(0, 0).MovImm(1, -1).
				I(0x25, 1, 0, 1, 1).I(0x05, 0, 0, 1, 0).I(0x47, 0, 0, 0, 1).
				I(0xc5, 1, 0, 1, 1).I(0x05, 0, 0, 1, 0).I(0x47, 0, 0, 0, 2).Exit()
		}},
		{name: "jmp32-ignores-high-bits", want: 1, build: func(a *Asm) {
			a.MovImm(0, 0).LdImm64(1, 0x1_0000_0005).I(0x16, 1, 0, 1, 5).Exit().MovImm(0, 1).Exit()
		}},
		{name: "jmp64-sees-high-bits", want: 0, build: func(a *Asm) {
			a.MovImm(0, 0).LdImm64(1, 0x1_0000_0005).I(0x15, 1, 0, 1, 5).Exit().MovImm(0, 1).Exit()
		}},
		{name: "jset", want: 1, build: func(a *Asm) {
			a.MovImm(0, 0).MovImm(1, 0x0c).I(0x45, 1, 0, 1, 0x04).Exit().MovImm(0, 1).Exit()
		}},
		{name: "jle-jlt-jge", want: 7, build: func(a *Asm) {
			a.MovImm(0, 0).MovImm(1, 5).
				I(0xb5, 1, 0, 1, 5).I(0x05, 0, 0, 1, 0).I(0x47, 0, 0, 0, 1). // 5<=5
				I(0xa5, 1, 0, 1, 5).I(0x47, 0, 0, 0, 2).                     // !(5<5) -> falls to or 2
				I(0x35, 1, 0, 1, 5).I(0x05, 0, 0, 1, 0).I(0x47, 0, 0, 0, 4). // 5>=5
				Exit()
		}},
		{name: "stack-all-sizes", want: 0x1122334455667788 ^ 0x55667788 ^ 0x7788 ^ 0x88, build: func(a *Asm) {
			a.LdImm64(1, 0x1122334455667788).I(0x7b, 10, 1, -8, 0).
				I(0x79, 0, 10, -8, 0).I(0x61, 2, 10, -8, 0).I(0xaf, 0, 2, 0, 0).
				I(0x69, 2, 10, -8, 0).I(0xaf, 0, 2, 0, 0).I(0x71, 2, 10, -8, 0).I(0xaf, 0, 2, 0, 0).Exit()
		}},
		{name: "st-imm-sext", want: 0xffffffffffffffff, build: func(a *Asm) {
			a.I(0x7a, 10, 0, -8, -1).I(0x79, 0, 10, -8, 0).Exit()
		}},
		{name: "stack-misaligned", fault: "misaligned stack", build: func(a *Asm) {
			a.MovImm(1, 0).I(0x63, 10, 1, -6, 0).MovImm(0, 0).Exit()
		}},
		{name: "stack-uninit-read", fault: "uninitialised stack", build: func(a *Asm) {
			a.I(0x61, 0, 10, -8, 0).Exit()
		}},
		{name: "stack-oob-below", fault: "out-of-bounds", build: func(a *Asm) {
			a.MovImm(1, 0).I(0x7b, 10, 1, -520, 0).MovImm(0, 0).Exit()
		}},
		{name: "stack-oob-above", fault: "out-of-bounds", build: func(a *Asm) {
			a.MovImm(1, 0).I(0x7b, 10, 1, 0, 0).MovImm(0, 0).Exit()
		}},
		{name: "uninit-reg", fault: "uninitialised register r6", build: func(a *Asm) { a.Mov(0, 6).Exit() }},
		{name: "exit-without-r0", fault: "uninitialised register r0", build: func(a *Asm) { a.Exit() }},
		{name: "null-deref", fault: "NULL/scalar pointer", build: func(a *Asm) { a.MovImm(1, 0).I(0x61, 0, 1, 0, 0).Exit() }},
		{name: "ctx-rw", ctx: []byte{1, 2, 3, 4, 5, 6, 7, 8}, want: 0x04030201, build: func(a *Asm) {
			a.I(0x61, 0, 1, 0, 0).MovImm(2, 0x99).I(0x73, 1, 2, 7, 0).Exit()
		}, after: func(vm *VM, ctx []byte) error {
			if ctx[7] != 0x99 {
				return fmt.Errorf("ctx write not visible")
			}
			return nil
		}},
		{name: "ctx-oob", ctx: make([]byte, 8), fault: "out-of-bounds", build: func(a *Asm) { a.I(0x61, 0, 1, 6, 0).Exit() }},
		{name: "fall-off-end", fault: "pc out of range", build: func(a *Asm) { a.MovImm(0, 0) }},
		{name: "infinite-loop", fault: "budget", build: func(a *Asm) { a.MovImm(0, 0).I(0x05, 0, 0, -1, 0) }},
		{name: "map-hit-write-through", want: 0x1111, setup: func(vm *VM) {
			h := hash()
			h.Update([]byte{7, 0, 0, 0}, []byte{0x11, 0x11, 0, 0, 0, 0, 0, 0}, 0)
			vm.BindFD(5, h)
		}, build: func(a *Asm) {
			a.MovImm(1, 7).I(0x63, 10, 1, -4, 0).Mov(2, 10).AddImm(2, -4).LdMapFD(1, 5).Call(FnMapLookupElem).
				I(0x15, 0, 0, 4, 0). // miss -> exit(0) path below
				Mov(6, 0).I(0x79, 0, 6, 0, 0).MovImm(1, 0x2222).I(0x7b, 6, 1, 0, 0).Exit().
				MovImm(0, 0).Exit()
		}, after: func(vm *VM, _ []byte) error {
			v, _ := vm.mapsByFD[5].Lookup([]byte{7, 0, 0, 0})
			if binary.LittleEndian.Uint64(v) != 0x2222 {
				return fmt.Errorf("write through map value pointer lost: %x", v)
			}
			return nil
		}},
		{name: "map-miss", want: 0, setup: func(vm *VM) { vm.BindFD(5, hash()) }, build: func(a *Asm) {
			a.MovImm(1, 7).I(0x63, 10, 1, -4, 0).Mov(2, 10).AddImm(2, -4).LdMapFD(1, 5).Call(FnMapLookupElem).Exit()
		}},
		{name: "map-value-oob", fault: "out-of-bounds", setup: func(vm *VM) {
			h := hash()
			h.Update([]byte{7, 0, 0, 0}, make([]byte, 8), 0)
			vm.BindFD(5, h)
		}, build: func(a *Asm) {
			a.MovImm(1, 7).I(0x63, 10, 1, -4, 0).Mov(2, 10).AddImm(2, -4).LdMapFD(1, 5).Call(FnMapLookupElem).
				I(0x79, 0, 0, 4, 0).Exit()
		}},
		{name: "map-key-uninit", fault: "uninitialised stack", setup: func(vm *VM) { vm.BindFD(5, hash()) }, build: func(a *Asm) {
			a.Mov(2, 10).AddImm(2, -4).LdMapFD(1, 5).Call(FnMapLookupElem).Exit()
		}},
		{name: "caller-saved-clobbered", fault: "uninitialised register r2", setup: func(vm *VM) { vm.BindFD(5, hash()) }, build: func(a *Asm) {
			a.MovImm(1, 7).I(0x63, 10, 1, -4, 0).Mov(2, 10).AddImm(2, -4).LdMapFD(1, 5).Call(FnMapLookupElem).Mov(0, 2).Exit()
		}},
		{name: "map-update-delete", want: 0xfffffffffffffffe, setup: func(vm *VM) { vm.BindFD(5, hash()) }, build: func(a *Asm) {
			// update(k=1,v=9) ; delete(k=1) ; delete(k=1) -> -ENOENT
			a.MovImm(1, 1).I(0x63, 10, 1, -4, 0).MovImm(1, 9).I(0x7b, 10, 1, -16, 0).
				LdMapFD(1, 5).Mov(2, 10).AddImm(2, -4).Mov(3, 10).AddImm(3, -16).MovImm(4, 0).Call(FnMapUpdateElem).
				LdMapFD(1, 5).Mov(2, 10).AddImm(2, -4).Call(FnMapDeleteElem).
				LdMapFD(1, 5).Mov(2, 10).AddImm(2, -4).Call(FnMapDeleteElem).Exit()
		}},
		{name: "unbound-map", fault: "not bound", build: func(a *Asm) { a.LdMapFD(1, 77).MovImm(0, 0).Exit() }},
		{name: "unknown-helper", fault: "unknown helper", build: func(a *Asm) { a.Call(9999).Exit() }},
		{name: "atomic-fetch-or32", want: 0x0f, build: func(a *Asm) {
			a.MovImm(1, 0x0f).I(0x63, 10, 1, -4, 0).MovImm(2, 0xf0).I(0xc3, 10, 2, -4, 0x41).
				I(0x61, 3, 10, -4, 0).I(0x15, 3, 0, 1, 0xff).MovImm(2, 0x7777).Mov(0, 2).Exit()
		}},
		{name: "atomic-add64", want: 12, build: func(a *Asm) {
			a.MovImm(1, 5).I(0x7b, 10, 1, -8, 0).MovImm(2, 7).I(0xdb, 10, 2, -8, 0).I(0x79, 0, 10, -8, 0).Exit()
		}},
		{name: "ktime", want: 424242, setup: func(vm *VM) { vm.Now = func() uint64 { return 424242 } }, build: func(a *Asm) {
			a.Call(FnKtimeGetNs).Exit()
		}},
		{name: "tail-call-taken", want: 1234, ctx: make([]byte, 8), setup: func(vm *VM) {
			pa := NewProgArray("jumps", 4)
			pa.Set(2, NativeProgram("sentinel", func(vm *VM, ctx uint64) (uint64, error) { return 1234, nil }))
			vm.BindFD(9, pa)
		}, build: func(a *Asm) {
			a.LdMapFD(2, 9).MovImm(3, 2).Call(FnTailCall).MovImm(0, 1).Exit()
		}},
		{name: "tail-call-bytecode-target", want: 55, ctx: []byte{55, 0, 0, 0}, setup: func(vm *VM) {
			pa := NewProgArray("jumps", 4)
			pa.Set(1, (&Asm{}).I(0x61, 0, 1, 0, 0).Exit().Prog("target"))
			vm.BindFD(9, pa)
		}, build: func(a *Asm) {
			a.MovImm(6, 99).LdMapFD(2, 9).MovImm(3, 1).Call(FnTailCall).MovImm(0, 1).Exit()
		}},
		{name: "tail-call-empty-slot", want: 1, ctx: make([]byte, 8), setup: func(vm *VM) { vm.BindFD(9, NewProgArray("jumps", 4)) }, build: func(a *Asm) {
			a.LdMapFD(2, 9).MovImm(3, 2).Call(FnTailCall).MovImm(0, 1).Exit()
		}},
		{name: "tail-call-index-out-of-range", want: 1, ctx: make([]byte, 8), setup: func(vm *VM) {
			pa := NewProgArray("jumps", 4)
			pa.Set(7, NativeProgram("never", func(vm *VM, ctx uint64) (uint64, error) { return 5, nil }))
			vm.BindFD(9, pa)
		}, build: func(a *Asm) {
			a.LdMapFD(2, 9).MovImm(3, 7).Call(FnTailCall).MovImm(0, 1).Exit()
		}},
		{name: "bpf2bpf-call", want: 30, build: func(a *Asm) {
			// main: r6=10; r1=20; call +2; r0+=r6; exit ; sub: r0=r1; r6=1000(clobber attempt); exit
			a.MovImm(6, 10).MovImm(1, 20).I(0x85, 0, 1, 0, 2).I(0x0f, 0, 6, 0, 0).Exit().
				Mov(0, 1).MovImm(6, 1000).Exit()
		}},
	}
	for _, c := range cases {
		vm := NewVM()
		vm.MaxInsns = 10000
		if c.setup != nil {
			c.setup(vm)
		}
		a := &Asm{}
		c.build(a)
		ctx := c.ctx
		if ctx == nil {
			ctx = make([]byte, 16)
		} else {
			ctx = append([]byte(nil), ctx...)
		}
		r0, err := vm.Run(a.Prog(c.name), ctx)
		if c.fault != "" {
			if err == nil {
				return fmt.Errorf("selftest %s: expected fault %q, got r0=%#x", c.name, c.fault, r0)
			}
			if !strings.Contains(err.Error(), c.fault) {
				return fmt.Errorf("selftest %s: expected fault %q, got %v", c.name, c.fault, err)
			}
			continue
		}
		if err != nil {
			return fmt.Errorf("selftest %s: unexpected error %v", c.name, err)
		}
		if r0 != c.want {
			return fmt.Errorf("selftest %s: r0=%#x want %#x", c.name, r0, c.want)
		}
		if c.after != nil {
			if err := c.after(vm, ctx); err != nil {
				return fmt.Errorf("selftest %s: %v", c.name, err)
			}
		}
	}
	return selfTestLPM()
}

func selfTestLPM() error {
	t := NewLPMTrie("t", 4+8, 4)
	k := func(plen uint32, data ...byte) []byte {
		b := make([]byte, 12)
		binary.LittleEndian.PutUint32(b, plen)
		copy(b[4:], data)
		return b
	}
	t.Update(k(8, 10), []byte{1, 0, 0, 0}, 0)
	t.Update(k(16, 10, 1), []byte{2, 0, 0, 0}, 0)
	t.Update(k(64, 10, 1, 2, 3, 4, 5, 6, 7), []byte{3, 0, 0, 0}, 0)
	t.Update(k(12, 0xc0, 0xa0), []byte{4, 0, 0, 0}, 0)
	t.Update(k(0), []byte{9, 0, 0, 0}, 0)
	type q struct {
		key  []byte
		want byte
		miss bool
	}
	for i, c := range []q{
		{key: k(64, 10, 9, 9, 9, 9, 9, 9, 9), want: 1},
		{key: k(64, 10, 1, 9, 9, 9, 9, 9, 9), want: 2},
		{key: k(64, 10, 1, 2, 3, 4, 5, 6, 7), want: 3},
		{key: k(64, 10, 1, 2, 3, 4, 5, 6, 8), want: 2},
		{key: k(64, 0xc0, 0xaf), want: 4},
		{key: k(64, 0xc0, 0xb0), want: 9},
		{key: k(8, 10, 1), want: 1}, // key prefix shorter than the /16 entry
		{key: k(64, 11), want: 9},
		{key: k(200, 10), miss: true}, // prefixlen larger than key data
	} {
		v, ok := t.Lookup(c.key)
		if c.miss {
			if ok {
				return fmt.Errorf("selftest lpm #%d: expected miss", i)
			}
			continue
		}
		if !ok || v[0] != c.want {
			return fmt.Errorf("selftest lpm #%d: got %v,%v want %d", i, v, ok, c.want)
		}
	}
	if t.Delete(k(0)) != 0 {
		return fmt.Errorf("selftest lpm: delete failed")
	}
	if _, ok := t.Lookup(k(64, 11)); ok {
		return fmt.Errorf("selftest lpm: hit after deleting the default entry")
	}
	// same prefix bits, different trailing garbage = same node
	t.Update(k(8, 10, 0xff), []byte{7, 0, 0, 0}, 0)
	if v, _ := t.Lookup(k(64, 10, 9)); v[0] != 7 {
		return fmt.Errorf("selftest lpm: canonicalisation failed")
	}
	return nil
}

// SelfTestELF loads cstubs/selftest.c as compiled by tools/build_bpf.sh and checks the known result:
// exercises section concatenation, map relocations, helper relocations by name, the memcmp libcall,
// a callback pointer into .text (bpf_for_each_map_elem), .rodata access, 32-bit atomic fetch-or and
// the skb load/store helpers.
func SelfTestELF(path string) error {
	p, err := LoadELF(path)
	if err != nil {
		return fmt.Errorf("selftest elf: %v", err)
	}
	main, err := p.WithEntry("st_main")
	if err != nil {
		return fmt.Errorf("selftest elf: %v", err)
	}
	for _, same := range []bool{true, false} {
		vm := NewVM()
		m := NewHashMap("st_map", 4, 16, 8)
		val := func(a uint64) []byte {
			b := make([]byte, 16)
			binary.LittleEndian.PutUint64(b, a)
			return b
		}
		m.Update([]byte{1, 0, 0, 0}, val(5), 0)
		m.Update([]byte{2, 0, 0, 0}, val(6), 0)
		vm.BindName("st_map", m)
		var order []uint32
		vm.ForEachPick = func(mm Map, rem [][]byte) int {
			order = append(order, binary.LittleEndian.Uint32(rem[len(rem)-1]))
			return len(rem) - 1 // reverse order
		}
		vm.Packet = []byte{1, 2, 3, 4, 5, 6, 7, 8, 1, 2, 3, 4, 5, 6, 7, 8}
		want := uint64(1000 + 234 + 1*5 + 2*6 + 3*7 + 3*10000 + 100)
		if !same {
			vm.Packet[15] = 9
			want -= 100
		}
		r0, err := vm.Run(main, make([]byte, 192))
		if err != nil {
			return fmt.Errorf("selftest elf: %v", err)
		}
		if uint32(r0) != uint32(want) {
			return fmt.Errorf("selftest elf: r0=%d want %d", uint32(r0), want)
		}
		if got := binary.LittleEndian.Uint64(vm.Packet[0:8]); got != want {
			return fmt.Errorf("selftest elf: result stored in packet = %d want %d", got, want)
		}
		if got := binary.LittleEndian.Uint64(vm.Packet[8:16]); got != 3 {
			return fmt.Errorf("selftest elf: callback count = %d want 3", got)
		}
		if fmt.Sprint(order) != "[3 2 1]" {
			return fmt.Errorf("selftest elf: for_each visiting order %v want [3 2 1]", order)
		}
		for _, k := range m.Keys() {
			v, _ := m.Lookup(k)
			if binary.LittleEndian.Uint32(v[12:]) != 0x10 {
				return fmt.Errorf("selftest elf: atomic fetch-or in callback not applied to key %v: %x", k, v)
			}
		}
		if v, ok := m.Lookup([]byte{3, 0, 0, 0}); !ok || binary.LittleEndian.Uint64(v) != 7 || binary.LittleEndian.Uint32(v[8:]) != 1 {
			return fmt.Errorf("selftest elf: map_update_elem result wrong: %x", v)
		}
	}
	return nil
}

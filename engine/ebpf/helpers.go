package ebpf

import (
	"bytes"
	"encoding/binary"
	"fmt"
)

// Helper ids (subset of the kernel's enum bpf_func_id).
const (
	FnMapLookupElem  = 1
	FnMapUpdateElem  = 2
	FnMapDeleteElem  = 3
	FnKtimeGetNs     = 5
	FnTracePrintk    = 6
	FnGetPrandomU32  = 7
	FnSkbStoreBytes  = 9
	FnTailCall       = 12
	FnSkbLoadBytes   = 26
	FnSpinLock       = 93
	FnSpinUnlock     = 94
	FnForEachMapElem = 164
)

func negErrno(e int) uint64 { return uint64(int64(-e)) }

func (vm *VM) needArgs(name string, n int) error {
	for i := 1; i <= n; i++ {
		if !vm.regInit[i] {
			return fmt.Errorf("%s: argument r%d is uninitialised", name, i)
		}
	}
	return nil
}

func (vm *VM) installStdHelpers() {
	vm.SetHelper(FnMapLookupElem, "bpf_map_lookup_elem", func(vm *VM, a [5]uint64) (uint64, error) {
		if err := vm.needArgs("map_lookup_elem", 2); err != nil {
			return 0, err
		}
		m, err := vm.MapFromHandle(a[0])
		if err != nil {
			return 0, err
		}
		if m.Type() == ProgArray {
			return 0, fmt.Errorf("map_lookup_elem on prog array %s", m.Name())
		}
		key, err := vm.Mem(a[1], m.KeySize(), false, true)
		if err != nil {
			return 0, fmt.Errorf("map_lookup_elem(%s) key: %v", m.Name(), err)
		}
		if vm.OnMapOp != nil {
			vm.OnMapOp("lookup", m, key)
		}
		v, ok := m.Lookup(key)
		if !ok {
			return 0, nil
		}
		return vm.PtrToMapValue(m, v), nil
	})
	vm.SetHelper(FnMapUpdateElem, "bpf_map_update_elem", func(vm *VM, a [5]uint64) (uint64, error) {
		if err := vm.needArgs("map_update_elem", 4); err != nil {
			return 0, err
		}
		m, err := vm.MapFromHandle(a[0])
		if err != nil {
			return 0, err
		}
		key, err := vm.Mem(a[1], m.KeySize(), false, true)
		if err != nil {
			return 0, fmt.Errorf("map_update_elem(%s) key: %v", m.Name(), err)
		}
		val, err := vm.Mem(a[2], m.ValueSize(), false, true)
		if err != nil {
			return 0, fmt.Errorf("map_update_elem(%s) value: %v", m.Name(), err)
		}
		if vm.OnMapOp != nil {
			vm.OnMapOp("update", m, key)
		}
		return negErrno(m.Update(key, val, a[3])), nil
	})
	vm.SetHelper(FnMapDeleteElem, "bpf_map_delete_elem", func(vm *VM, a [5]uint64) (uint64, error) {
		if err := vm.needArgs("map_delete_elem", 2); err != nil {
			return 0, err
		}
		m, err := vm.MapFromHandle(a[0])
		if err != nil {
			return 0, err
		}
		key, err := vm.Mem(a[1], m.KeySize(), false, true)
		if err != nil {
			return 0, fmt.Errorf("map_delete_elem(%s) key: %v", m.Name(), err)
		}
		// the hook sees the key before it disappears
		k := append([]byte(nil), key...)
		if vm.OnMapOp != nil {
			vm.OnMapOp("delete", m, k)
		}
		return negErrno(m.Delete(k)), nil
	})
	vm.SetHelper(FnKtimeGetNs, "bpf_ktime_get_ns", func(vm *VM, a [5]uint64) (uint64, error) {
		if vm.Now == nil {
			return 0, fmt.Errorf("ktime_get_ns: no clock installed")
		}
		return vm.Now(), nil
	})
	vm.SetHelper(FnTracePrintk, "bpf_trace_printk", func(vm *VM, a [5]uint64) (uint64, error) { return 0, nil })
	vm.SetHelper(FnSpinLock, "bpf_spin_lock", func(vm *VM, a [5]uint64) (uint64, error) {
		if _, err := vm.Mem(a[0], 4, true, false); err != nil {
			return 0, fmt.Errorf("spin_lock: %v", err)
		}
		return 0, nil
	})
	vm.SetHelper(FnSpinUnlock, "bpf_spin_unlock", func(vm *VM, a [5]uint64) (uint64, error) {
		if _, err := vm.Mem(a[0], 4, true, false); err != nil {
			return 0, fmt.Errorf("spin_unlock: %v", err)
		}
		return 0, nil
	})
	vm.SetHelper(FnTailCall, "bpf_tail_call", func(vm *VM, a [5]uint64) (uint64, error) {
		if err := vm.needArgs("tail_call", 3); err != nil {
			return 0, err
		}
		m, err := vm.MapFromHandle(a[1])
		if err != nil {
			return 0, err
		}
		pa, ok := m.(*ProgArrayMap)
		if !ok {
			return 0, fmt.Errorf("tail_call on non prog-array map %s", m.Name())
		}
		if r, _, e := vm.lookupRegion(a[0]); e != nil || r.kind != KindCtx {
			return 0, fmt.Errorf("tail_call: r1 is not the context pointer")
		}
		idx := uint32(a[2])
		tc := TailCall{Map: m.Name(), Index: idx}
		prog := pa.Progs[idx]
		if idx >= pa.Max || prog == nil || vm.tailCalls >= vm.MaxTailCalls {
			vm.TailCallTrace = append(vm.TailCallTrace, tc)
			return 0xbad7a11ca11, nil // falls through; r0 is not meaningful
		}
		vm.tailCalls++
		tc.Taken = true
		vm.TailCallTrace = append(vm.TailCallTrace, tc)
		return 0, &tailCallTaken{prog: prog}
	})
	// libcall emitted by clang for __builtin_memcmp of non-constant-foldable size
	vm.SetHelper(0, "memcmp", func(vm *VM, a [5]uint64) (uint64, error) {
		if err := vm.needArgs("memcmp", 3); err != nil {
			return 0, err
		}
		n := int(a[2])
		x, err := vm.Mem(a[0], n, false, true)
		if err != nil {
			return 0, fmt.Errorf("memcmp: %v", err)
		}
		y, err := vm.Mem(a[1], n, false, true)
		if err != nil {
			return 0, fmt.Errorf("memcmp: %v", err)
		}
		return uint64(int64(bytes.Compare(x, y))), nil
	})
	vm.SetHelper(FnSkbLoadBytes, "bpf_skb_load_bytes", func(vm *VM, a [5]uint64) (uint64, error) {
		if err := vm.needArgs("skb_load_bytes", 4); err != nil {
			return 0, err
		}
		r, _, e := vm.lookupRegion(a[0])
		if e != nil || r.kind != KindCtx {
			return 0, fmt.Errorf("skb_load_bytes: r1 is not the context")
		}
		// The "packet" is modelled as the context bytes themselves (used by BPF_PROG_RUN style programs
		// that receive their input in the packet buffer): vm.Packet if set.
		pkt := vm.Packet
		off, n := int(uint32(a[1])), int(uint32(a[3]))
		dst, err := vm.Mem(a[2], n, true, false)
		if err != nil {
			return 0, fmt.Errorf("skb_load_bytes dst: %v", err)
		}
		if off+n > len(pkt) {
			return negErrno(14), nil // EFAULT
		}
		copy(dst, pkt[off:off+n])
		return 0, nil
	})
	vm.SetHelper(FnSkbStoreBytes, "bpf_skb_store_bytes", func(vm *VM, a [5]uint64) (uint64, error) {
		if err := vm.needArgs("skb_store_bytes", 5); err != nil {
			return 0, err
		}
		off, n := int(uint32(a[1])), int(uint32(a[3]))
		src, err := vm.Mem(a[2], n, false, true)
		if err != nil {
			return 0, fmt.Errorf("skb_store_bytes src: %v", err)
		}
		if off+n > len(vm.Packet) {
			return negErrno(14), nil
		}
		copy(vm.Packet[off:off+n], src)
		return 0, nil
	})
	vm.SetHelper(FnForEachMapElem, "bpf_for_each_map_elem", func(vm *VM, a [5]uint64) (uint64, error) {
		if err := vm.needArgs("for_each_map_elem", 4); err != nil {
			return 0, err
		}
		m, err := vm.MapFromHandle(a[0])
		if err != nil {
			return 0, err
		}
		slot, err := vm.CodeSlot(a[1])
		if err != nil {
			return 0, fmt.Errorf("for_each_map_elem callback: %v", err)
		}
		keys := m.Keys()
		prog := vm.cur
		n := uint64(0)
		for len(keys) > 0 {
			idx := 0
			if vm.ForEachPick != nil {
				// scheduling point + choice of the element visited next (hash order is arbitrary)
				idx = vm.ForEachPick(m, keys)
				if idx < 0 || idx >= len(keys) {
					break
				}
			}
			k := keys[idx]
			keys = append(append([][]byte(nil), keys[:idx]...), keys[idx+1:]...)
			v, ok := m.Lookup(k)
			if !ok {
				continue // deleted meanwhile
			}
			n++
			kp := vm.NewScratch("foreach-key", append([]byte(nil), k...))
			vp := vm.PtrToMapValue(m, v)
			r0, err := vm.callNested(prog, slot, [5]uint64{a[0], kp, vp, a[2]}, 4)
			if err != nil {
				return 0, err
			}
			if r0 != 0 {
				break
			}
		}
		return n, nil
	})
}

// callNested runs a callback inside a helper, preserving the caller's registers.
func (vm *VM) callNested(p *Program, slot int, args [5]uint64, nargs int) (uint64, error) {
	savedRegs, savedInit, savedCur := vm.regs, vm.regInit, vm.cur
	r0, err := vm.exec(p, slot, args, nargs)
	vm.regs, vm.regInit, vm.cur = savedRegs, savedInit, savedCur
	return r0, err
}

// PutU64 / PutU32 are small helpers for building contexts.
func PutU32(b []byte, off int, v uint32) { binary.LittleEndian.PutUint32(b[off:], v) }
func PutU64(b []byte, off int, v uint64) { binary.LittleEndian.PutUint64(b[off:], v) }
func U32(b []byte, off int) uint32       { return binary.LittleEndian.Uint32(b[off:]) }
func U64(b []byte, off int) uint64       { return binary.LittleEndian.Uint64(b[off:]) }

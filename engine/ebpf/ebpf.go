// Package ebpf is a small eBPF interpreter used by the verification harnesses to EXECUTE the
// artefacts calico produces: (a) the asm.Insns byte code assembled by felix/bpf/polprog and (b)
// ELF objects compiled by clang from felix/bpf-gpl (helper calls and maps resolved through ELF
// relocations by symbol name).
//
// Memory is a set of typed regions (stack, context, map values, read-only data). A pointer is
// regionID<<32 | offset. Every access is bounds checked; an out-of-region access, a misaligned
// stack access, a read of a never-written stack byte or of a never-written register is a *Fault
// (this doubles as a light verifier). Helper calls clobber r1-r5 like the kernel verifier assumes.
//
// It is overlaid into the calico module as github.com/projectcalico/calico/zzverif/ebpf.
package ebpf

import (
	"bytes"
	"encoding/binary"
	"fmt"
	"sort"
)

// ---------------------------------------------------------------------------------------------
// Instructions

// Insn is one decoded 8-byte instruction slot. LD_IMM64 occupies two slots (the second has Op 0).
type Insn struct {
	Op  uint8
	Dst uint8
	Src uint8
	Off int16
	Imm int32
	// Sym is the relocation symbol attached to this slot by the ELF loader ("" otherwise).
	Sym string
	// SymKind classifies Sym: relocMap, relocHelper, relocText (address of/ call to code in .text),
	// relocData (address inside a loaded data section).
	SymKind int
	// SymOff is the addend for relocText/relocData (byte offset within the section).
	SymOff int64
	// SymSec is the data section name for relocData.
	SymSec string
}

const (
	relocNone = iota
	relocMap
	relocHelper
	relocText
	relocData
)

// Decode turns raw byte code (little endian) into instruction slots.
func Decode(b []byte) ([]Insn, error) {
	if len(b)%8 != 0 {
		return nil, fmt.Errorf("byte code length %d is not a multiple of 8", len(b))
	}
	out := make([]Insn, len(b)/8)
	for i := range out {
		s := b[i*8 : i*8+8]
		out[i] = Insn{
			Op:  s[0],
			Dst: s[1] & 0xf,
			Src: s[1] >> 4,
			Off: int16(binary.LittleEndian.Uint16(s[2:4])),
			Imm: int32(binary.LittleEndian.Uint32(s[4:8])),
		}
	}
	return out, nil
}

// Program is a loaded program: one instruction array plus (for ELF objects) named entry points.
type Program struct {
	Name  string
	Insns []Insn
	// Native, if set, replaces the byte code: used for sentinel programs in prog arrays.
	Native func(vm *VM, ctx uint64) (uint64, error)
	// Entry is the slot where execution starts for Run().
	Entry int
	// Funcs maps function symbol names to slots (ELF only).
	Funcs map[string]int
	// data sections (ELF only): name -> bytes (read-only inside the VM).
	Data map[string][]byte
	// textBase is the slot index where the ".text" section was placed (ELF only).
	textBase int
	hasText  bool
}

// FromBytes makes a program out of raw byte code (e.g. asm.Insns.AsBytes()).
func FromBytes(name string, code []byte) (*Program, error) {
	ins, err := Decode(code)
	if err != nil {
		return nil, err
	}
	return &Program{Name: name, Insns: ins}, nil
}

// NativeProgram wraps a Go function as a program (tail-call target sentinel).
func NativeProgram(name string, f func(vm *VM, ctx uint64) (uint64, error)) *Program {
	return &Program{Name: name, Native: f}
}

// ---------------------------------------------------------------------------------------------
// Faults

// Fault is an execution failure: memory-safety violation, bad instruction, budget exhausted...
type Fault struct {
	Prog string
	PC   int
	Msg  string
}

func (f *Fault) Error() string {
	return fmt.Sprintf("ebpf fault in %s at pc=%d: %s", f.Prog, f.PC, f.Msg)
}

// ---------------------------------------------------------------------------------------------
// Memory

type regionKind int

const (
	KindStack regionKind = iota
	KindCtx
	KindMapValue
	KindData
	KindMapHandle
	KindCode
	KindScratch
)

type region struct {
	kind     regionKind
	name     string
	data     []byte
	readOnly bool
	init     []bool // stack only: byte has been written
	m        Map    // KindMapHandle
}

const (
	// StackSize is the per-frame stack size.
	StackSize = 512
	maxFrames = 8
	// MaxTailCalls is the kernel's tail call limit.
	MaxTailCalls = 33
)

// HelperFn implements a helper. It receives r1..r5.
type HelperFn func(vm *VM, a [5]uint64) (uint64, error)

// VM holds maps, helpers and the per-run memory.
type VM struct {
	// Now supplies bpf_ktime_get_ns.
	Now func() uint64
	// MaxInsns bounds one Run (default 1<<20).
	MaxInsns int
	// Trace, if set, is called before every instruction.
	Trace func(p *Program, pc int, in Insn, regs *[11]uint64)
	// Packet is the packet buffer seen by bpf_skb_load_bytes / bpf_skb_store_bytes.
	Packet []byte
	// ForEachPick, if set, is called by bpf_for_each_map_elem before every element with the keys not
	// yet visited (sorted) and returns the index of the one to visit next (default 0). It is a
	// scheduling point for harnesses: other actors may run inside it.
	ForEachPick func(m Map, remaining [][]byte) int
	// MaxTailCalls bounds chained tail calls (default: the kernel's 33).
	MaxTailCalls int
	// OnMapOp, if set, observes helper-level map operations: op is "lookup", "update", "delete".
	OnMapOp func(op string, m Map, key []byte)

	mapsByFD   map[int32]Map
	mapsByName map[string]Map
	helpers    map[int32]HelperFn
	named      map[string]HelperFn

	// per run
	regions   []*region
	handleOf  map[Map]uint32
	regs      [11]uint64
	regInit   [11]bool
	steps     int
	tailCalls int
	cur       *Program
	dataReg   map[string]uint32
	// pcForHelper is the pc of the call being executed (for helper faults).
	pcForHelper int
	// Steps executed by the last Run.
	LastSteps int
	// TailCallTrace lists (map name, index, taken) of the last Run.
	TailCallTrace []TailCall
	// Ctx region contents after the run are visible through the slice passed to Run.
}

// TailCall records one bpf_tail_call.
type TailCall struct {
	Map   string
	Index uint32
	Taken bool
}

// NewVM returns a VM with the standard helper set.
func NewVM() *VM {
	vm := &VM{
		mapsByFD:     map[int32]Map{},
		mapsByName:   map[string]Map{},
		helpers:      map[int32]HelperFn{},
		named:        map[string]HelperFn{},
		MaxInsns:     1 << 20,
		MaxTailCalls: MaxTailCalls,
	}
	vm.installStdHelpers()
	return vm
}

// BindFD makes map m reachable through LD_IMM64 pseudo map-fd loads with this fd.
func (vm *VM) BindFD(fd int32, m Map) { vm.mapsByFD[fd] = m }

// BindName makes map m reachable through ELF relocations against the map symbol name.
func (vm *VM) BindName(sym string, m Map) { vm.mapsByName[sym] = m }

// SetHelper installs/overrides a helper by id and by name.
func (vm *VM) SetHelper(id int32, name string, f HelperFn) {
	if id > 0 {
		vm.helpers[id] = f
	}
	if name != "" {
		vm.named[name] = f
	}
}

func (vm *VM) fault(pc int, format string, a ...any) *Fault {
	n := "?"
	if vm.cur != nil {
		n = vm.cur.Name
	}
	return &Fault{Prog: n, PC: pc, Msg: fmt.Sprintf(format, a...)}
}

func (vm *VM) newRegion(r *region) uint64 {
	vm.regions = append(vm.regions, r)
	return uint64(len(vm.regions)) << 32 // ids start at 1; 0 is NULL
}

// NewScratch allocates a read/write region for the duration of the current run and returns its
// pointer (helpers use it to hand memory to callbacks).
func (vm *VM) NewScratch(name string, data []byte) uint64 {
	return vm.newRegion(&region{kind: KindScratch, name: name, data: data})
}

// PtrToMapValue returns a pointer to a map value slice (aliasing it).
func (vm *VM) PtrToMapValue(m Map, val []byte) uint64 {
	return vm.newRegion(&region{kind: KindMapValue, name: m.Name(), data: val})
}

func (vm *VM) mapHandle(m Map) uint64 {
	if id, ok := vm.handleOf[m]; ok {
		return uint64(id) << 32
	}
	p := vm.newRegion(&region{kind: KindMapHandle, name: m.Name(), m: m})
	vm.handleOf[m] = uint32(p >> 32)
	return p
}

// MapFromHandle resolves a map-handle pointer (as passed to helpers in r1).
func (vm *VM) MapFromHandle(p uint64) (Map, error) {
	r, off, err := vm.lookupRegion(p)
	if err != nil {
		return nil, err
	}
	if r.kind != KindMapHandle || off != 0 {
		return nil, fmt.Errorf("argument %#x is not a map handle", p)
	}
	return r.m, nil
}

func (vm *VM) lookupRegion(p uint64) (*region, uint32, error) {
	id := uint32(p >> 32)
	if id == 0 {
		return nil, 0, fmt.Errorf("NULL/scalar pointer dereference (%#x)", p)
	}
	if int(id) > len(vm.regions) {
		return nil, 0, fmt.Errorf("wild pointer %#x", p)
	}
	return vm.regions[id-1], uint32(p), nil
}

// Mem returns the n bytes at pointer p after bounds checking. write selects the access mode;
// checkInit additionally demands that stack bytes were written before (for reads).
func (vm *VM) Mem(p uint64, n int, write bool, checkInit bool) ([]byte, error) {
	r, off, err := vm.lookupRegion(p)
	if err != nil {
		return nil, err
	}
	switch r.kind {
	case KindMapHandle:
		return nil, fmt.Errorf("dereference of map handle %s", r.name)
	case KindCode:
		return nil, fmt.Errorf("dereference of code pointer")
	}
	if n < 0 || uint64(off)+uint64(n) > uint64(len(r.data)) {
		return nil, fmt.Errorf("out-of-bounds access: region %s(%d bytes) offset %d size %d", r.name, len(r.data), int32(off), n)
	}
	if write && r.readOnly {
		return nil, fmt.Errorf("write to read-only region %s", r.name)
	}
	if r.kind == KindStack {
		if write {
			for i := 0; i < n; i++ {
				r.init[int(off)+i] = true
			}
		} else if checkInit {
			for i := 0; i < n; i++ {
				if !r.init[int(off)+i] {
					return nil, fmt.Errorf("read of uninitialised stack byte at fp%+d", int(off)+i-StackSize)
				}
			}
		}
	}
	return r.data[off : int(off)+n], nil
}

func (vm *VM) isStack(p uint64) bool {
	id := uint32(p >> 32)
	return id != 0 && int(id) <= len(vm.regions) && vm.regions[id-1].kind == KindStack
}

// ---------------------------------------------------------------------------------------------
// Execution

// Run executes program p from its Entry with r1 = pointer to a fresh context region wrapping ctx
// (modified in place). It returns r0.
func (vm *VM) Run(p *Program, ctx []byte) (uint64, error) {
	vm.reset()
	ctxPtr := vm.newRegion(&region{kind: KindCtx, name: "ctx", data: ctx})
	return vm.exec(p, p.Entry, [5]uint64{ctxPtr}, 1)
}

// Call executes the function at slot entry of p with up to five arguments. Use Arg* helpers to
// build pointer arguments after calling Begin.
func (vm *VM) Call(p *Program, entry int, args [5]uint64, nargs int) (uint64, error) {
	return vm.exec(p, entry, args, nargs)
}

// Begin resets the per-run memory; needed before building pointer arguments for Call.
func (vm *VM) Begin() { vm.reset() }

func (vm *VM) reset() {
	vm.regions = vm.regions[:0]
	vm.handleOf = map[Map]uint32{}
	vm.dataReg = map[string]uint32{}
	vm.steps = 0
	vm.tailCalls = 0
	vm.TailCallTrace = nil
}

type frame struct {
	retPC  int
	saved  [4]uint64 // r6-r9
	savedI [4]bool
	fp     uint64
	prog   *Program
}

func newStack(depth int) *region {
	d := make([]byte, StackSize)
	for i := range d {
		d[i] = 0xA5 // poison: programs must not rely on zeroed stack
	}
	return &region{kind: KindStack, name: fmt.Sprintf("stack#%d", depth), data: d, init: make([]bool, StackSize)}
}

func (vm *VM) exec(p *Program, entry int, args [5]uint64, nargs int) (r0 uint64, err error) {
	defer func() { vm.LastSteps = vm.steps }()
	vm.cur = p
	if p.Native != nil {
		return p.Native(vm, args[0])
	}
	var frames []frame
	fp := vm.newRegion(newStack(0)) + StackSize
	for i := range vm.regs {
		vm.regs[i] = 0xdead0000dead0000 + uint64(i)
		vm.regInit[i] = false
	}
	for i := 0; i < nargs; i++ {
		vm.regs[1+i] = args[i]
		vm.regInit[1+i] = true
	}
	vm.regs[10] = fp
	vm.regInit[10] = true
	pc := entry
	rd := func(r uint8, at int) (uint64, error) {
		if r > 10 {
			return 0, vm.fault(at, "bad register r%d", r)
		}
		if !vm.regInit[r] {
			return 0, vm.fault(at, "read of uninitialised register r%d", r)
		}
		return vm.regs[r], nil
	}
	wr := func(r uint8, v uint64, at int) error {
		if r >= 10 {
			return vm.fault(at, "write to r%d", r)
		}
		vm.regs[r] = v
		vm.regInit[r] = true
		return nil
	}
	for {
		if pc < 0 || pc >= len(p.Insns) {
			return 0, vm.fault(pc, "pc out of range (program has %d slots)", len(p.Insns))
		}
		vm.steps++
		if vm.steps > vm.MaxInsns {
			return 0, vm.fault(pc, "instruction budget (%d) exhausted", vm.MaxInsns)
		}
		in := p.Insns[pc]
		if vm.Trace != nil {
			vm.Trace(p, pc, in, &vm.regs)
		}
		cls := in.Op & 0x07
		switch cls {
		case 0x07, 0x04: // ALU64, ALU32
			is64 := cls == 0x07
			op := in.Op & 0xf0
			var src uint64
			if op == 0xd0 { // END: no source operand
			} else if op == 0x80 { // NEG
			} else if in.Op&0x08 != 0 {
				v, e := rd(in.Src, pc)
				if e != nil {
					return 0, e
				}
				src = v
			} else {
				src = uint64(int64(in.Imm)) // sign-extended for 64-bit ops
			}
			var dst uint64
			if op != 0xb0 { // MOV does not read dst
				v, e := rd(in.Dst, pc)
				if e != nil {
					return 0, e
				}
				dst = v
			}
			if !is64 {
				dst &= 0xffffffff
				src &= 0xffffffff
			}
			var res uint64
			switch op {
			case 0x00:
				res = dst + src
			case 0x10:
				res = dst - src
			case 0x20:
				res = dst * src
			case 0x30:
				if in.Off != 0 {
					return 0, vm.fault(pc, "signed div not supported")
				}
				if src == 0 {
					res = 0
				} else {
					res = dst / src
				}
			case 0x40:
				res = dst | src
			case 0x50:
				res = dst & src
			case 0x60:
				if is64 {
					res = dst << (src & 63)
				} else {
					res = uint64(uint32(dst) << (src & 31))
				}
			case 0x70:
				if is64 {
					res = dst >> (src & 63)
				} else {
					res = uint64(uint32(dst) >> (src & 31))
				}
			case 0x80:
				res = -dst
			case 0x90:
				if in.Off != 0 {
					return 0, vm.fault(pc, "signed mod not supported")
				}
				if src == 0 {
					res = dst
				} else {
					res = dst % src
				}
			case 0xa0:
				res = dst ^ src
			case 0xb0:
				if in.Off != 0 {
					return 0, vm.fault(pc, "movsx not supported")
				}
				res = src
			case 0xc0:
				if is64 {
					res = uint64(int64(dst) >> (src & 63))
				} else {
					res = uint64(uint32(int32(uint32(dst)) >> (src & 31)))
				}
			case 0xd0:
				// byte swap: ALU32 class = to-LE (src bit 0) / to-BE (src bit 1); ALU64 class = bswap
				toBE := in.Op&0x08 != 0 || is64
				switch in.Imm {
				case 16:
					v := uint16(dst)
					if toBE {
						v = v<<8 | v>>8
					}
					res = uint64(v)
				case 32:
					v := uint32(dst)
					if toBE {
						v = bswap32(v)
					}
					res = uint64(v)
				case 64:
					// note: dst was truncated above for the 32-bit class; re-read the full register
					full := vm.regs[in.Dst]
					if toBE {
						full = bswap64(full)
					}
					res = full
				default:
					return 0, vm.fault(pc, "bad endian width %d", in.Imm)
				}
				if e := wr(in.Dst, res, pc); e != nil {
					return 0, e
				}
				pc++
				continue
			default:
				return 0, vm.fault(pc, "unknown ALU op %#x", in.Op)
			}
			if !is64 {
				res &= 0xffffffff
			}
			if e := wr(in.Dst, res, pc); e != nil {
				return 0, e
			}
			pc++

		case 0x05, 0x06: // JMP, JMP32
			op := in.Op & 0xf0
			if cls == 0x05 {
				switch op {
				case 0x00: // JA
					pc += 1 + int(in.Off)
					continue
				case 0x90: // EXIT
					v, e := rd(0, pc)
					if e != nil {
						return 0, e
					}
					if len(frames) == 0 {
						return v, nil
					}
					f := frames[len(frames)-1]
					frames = frames[:len(frames)-1]
					for i := 0; i < 4; i++ {
						vm.regs[6+i] = f.saved[i]
						vm.regInit[6+i] = f.savedI[i]
					}
					for i := 1; i <= 5; i++ {
						vm.regInit[i] = false
					}
					vm.regs[10] = f.fp
					pc = f.retPC
					continue
				case 0x80: // CALL
					npc, e := vm.doCall(p, pc, in, &frames)
					if e != nil {
						return 0, e
					}
					if npc == -2 { // tail call taken: vm.cur / regs replaced
						p = vm.cur
						if p.Native != nil {
							return p.Native(vm, vm.regs[1])
						}
						frames = frames[:0]
						pc = p.Entry
						continue
					}
					pc = npc
					continue
				}
			}
			var src uint64
			if in.Op&0x08 != 0 {
				v, e := rd(in.Src, pc)
				if e != nil {
					return 0, e
				}
				src = v
			} else {
				src = uint64(int64(in.Imm))
			}
			dst, e := rd(in.Dst, pc)
			if e != nil {
				return 0, e
			}
			var sd, ss int64
			if cls == 0x06 {
				dst &= 0xffffffff
				src &= 0xffffffff
				sd, ss = int64(int32(uint32(dst))), int64(int32(uint32(src)))
			} else {
				sd, ss = int64(dst), int64(src)
			}
			var take bool
			switch op {
			case 0x10:
				take = dst == src
			case 0x20:
				take = dst > src
			case 0x30:
				take = dst >= src
			case 0x40:
				take = dst&src != 0
			case 0x50:
				take = dst != src
			case 0x60:
				take = sd > ss
			case 0x70:
				take = sd >= ss
			case 0xa0:
				take = dst < src
			case 0xb0:
				take = dst <= src
			case 0xc0:
				take = sd < ss
			case 0xd0:
				take = sd <= ss
			default:
				return 0, vm.fault(pc, "unknown jump op %#x", in.Op)
			}
			if take {
				pc += 1 + int(in.Off)
			} else {
				pc++
			}

		case 0x00: // LD
			if in.Op != 0x18 {
				return 0, vm.fault(pc, "unsupported LD opcode %#x", in.Op)
			}
			if pc+1 >= len(p.Insns) || p.Insns[pc+1].Op != 0 {
				return 0, vm.fault(pc, "truncated LD_IMM64")
			}
			hi := p.Insns[pc+1].Imm
			var v uint64
			switch {
			case in.SymKind == relocMap:
				m, ok := vm.mapsByName[in.Sym]
				if !ok {
					return 0, vm.fault(pc, "map symbol %q is not bound", in.Sym)
				}
				v = vm.mapHandle(m)
			case in.SymKind == relocText:
				// address of a function in .text (callback pointer)
				slot := p.textBase + int(in.SymOff/8) + int(int64(uint64(uint32(in.Imm))|uint64(uint32(hi))<<32)/8)
				v = vm.codePtr(slot)
			case in.SymKind == relocData:
				base, e := vm.dataPtr(p, in.SymSec)
				if e != nil {
					return 0, vm.fault(pc, "%v", e)
				}
				v = base + uint64(in.SymOff) + (uint64(uint32(in.Imm)) | uint64(uint32(hi))<<32)
			case in.Src == 1: // BPF_PSEUDO_MAP_FD
				m, ok := vm.mapsByFD[in.Imm]
				if !ok {
					return 0, vm.fault(pc, "map fd %d is not bound", in.Imm)
				}
				v = vm.mapHandle(m)
			case in.Src == 0:
				v = uint64(uint32(in.Imm)) | uint64(uint32(hi))<<32
			default:
				return 0, vm.fault(pc, "unsupported LD_IMM64 pseudo src %d", in.Src)
			}
			if e := wr(in.Dst, v, pc); e != nil {
				return 0, e
			}
			pc += 2

		case 0x01: // LDX
			if in.Op&0xe0 != 0x60 {
				return 0, vm.fault(pc, "unsupported LDX mode %#x", in.Op)
			}
			base, e := rd(in.Src, pc)
			if e != nil {
				return 0, e
			}
			n := sizeOf(in.Op)
			addr := base + uint64(int64(in.Off))
			if vm.isStack(addr) && uint32(addr)%uint32(n) != 0 {
				return 0, vm.fault(pc, "misaligned stack access off=%d size=%d", int32(uint32(addr))-StackSize, n)
			}
			mem, me := vm.Mem(addr, n, false, true)
			if me != nil {
				return 0, vm.fault(pc, "load: %v", me)
			}
			if e := wr(in.Dst, loadLE(mem), pc); e != nil {
				return 0, e
			}
			pc++

		case 0x02, 0x03: // ST, STX
			base, e := rd(in.Dst, pc)
			if e != nil {
				return 0, e
			}
			n := sizeOf(in.Op)
			addr := base + uint64(int64(in.Off))
			if vm.isStack(addr) && uint32(addr)%uint32(n) != 0 {
				return 0, vm.fault(pc, "misaligned stack access off=%d size=%d", int32(uint32(addr))-StackSize, n)
			}
			mode := in.Op & 0xe0
			if cls == 0x02 {
				if mode != 0x60 {
					return 0, vm.fault(pc, "unsupported ST mode %#x", in.Op)
				}
				mem, me := vm.Mem(addr, n, true, false)
				if me != nil {
					return 0, vm.fault(pc, "store: %v", me)
				}
				storeLE(mem, uint64(int64(in.Imm)))
				pc++
				continue
			}
			val, e := rd(in.Src, pc)
			if e != nil {
				return 0, e
			}
			switch mode {
			case 0x60:
				mem, me := vm.Mem(addr, n, true, false)
				if me != nil {
					return 0, vm.fault(pc, "store: %v", me)
				}
				storeLE(mem, val)
			case 0xc0: // ATOMIC
				if n != 4 && n != 8 {
					return 0, vm.fault(pc, "atomic op of size %d", n)
				}
				if _, me := vm.Mem(addr, n, false, true); me != nil {
					return 0, vm.fault(pc, "atomic: %v", me)
				}
				mem, me := vm.Mem(addr, n, true, false)
				if me != nil {
					return 0, vm.fault(pc, "atomic: %v", me)
				}
				old := loadLE(mem)
				mask := ^uint64(0)
				if n == 4 {
					mask = 0xffffffff
				}
				fetch := in.Imm&0x01 != 0
				switch in.Imm &^ 0x01 {
				case 0x00:
					storeLE(mem, (old+val)&mask)
				case 0x40:
					storeLE(mem, (old|val)&mask)
				case 0x50:
					storeLE(mem, (old&val)&mask)
				case 0xa0:
					storeLE(mem, (old^val)&mask)
				case 0xe0: // XCHG
					storeLE(mem, val&mask)
					fetch = true
				case 0xf0: // CMPXCHG: compares with r0, result in r0
					r0v, e := rd(0, pc)
					if e != nil {
						return 0, e
					}
					if old == r0v&mask {
						storeLE(mem, val&mask)
					}
					if e := wr(0, old, pc); e != nil {
						return 0, e
					}
					fetch = false
				default:
					return 0, vm.fault(pc, "unknown atomic op %#x", in.Imm)
				}
				if fetch {
					if e := wr(in.Src, old, pc); e != nil {
						return 0, e
					}
				}
			default:
				return 0, vm.fault(pc, "unsupported STX mode %#x", in.Op)
			}
			pc++
		}
	}
}

func (vm *VM) codePtr(slot int) uint64 {
	return vm.newRegion(&region{kind: KindCode, name: "code"}) | uint64(uint32(slot))
}

// CodeSlot decodes a code pointer produced by an LD_IMM64 with a .text relocation.
func (vm *VM) CodeSlot(p uint64) (int, error) {
	r, off, err := vm.lookupRegion(p)
	if err != nil {
		return 0, err
	}
	if r.kind != KindCode {
		return 0, fmt.Errorf("%#x is not a code pointer", p)
	}
	return int(off), nil
}

func (vm *VM) dataPtr(p *Program, sec string) (uint64, error) {
	if id, ok := vm.dataReg[sec]; ok {
		return uint64(id) << 32, nil
	}
	d, ok := p.Data[sec]
	if !ok {
		return 0, fmt.Errorf("data section %q not loaded", sec)
	}
	ptr := vm.newRegion(&region{kind: KindData, name: sec, data: d, readOnly: true})
	vm.dataReg[sec] = uint32(ptr >> 32)
	return ptr, nil
}

// doCall handles helper calls, bpf-to-bpf calls and tail calls. It returns the next pc, or -2
// when a tail call was taken (vm.cur and the registers are already set up).
func (vm *VM) doCall(p *Program, pc int, in Insn, frames *[]frame) (int, error) {
	// bpf-to-bpf call
	if in.SymKind != relocHelper && (in.Src == 1 || in.SymKind == relocText) {
		var target int
		if in.SymKind == relocText {
			target = p.textBase + int(in.SymOff/8) + int(in.Imm) + 1
		} else {
			target = pc + 1 + int(in.Imm)
		}
		if len(*frames)+1 >= maxFrames {
			return 0, vm.fault(pc, "call depth exceeded")
		}
		f := frame{retPC: pc + 1, fp: vm.regs[10], prog: p}
		for i := 0; i < 4; i++ {
			f.saved[i] = vm.regs[6+i]
			f.savedI[i] = vm.regInit[6+i]
			vm.regInit[6+i] = false
		}
		*frames = append(*frames, f)
		vm.regs[10] = vm.newRegion(newStack(len(*frames))) + StackSize
		vm.regInit[0] = false
		return target, nil
	}
	var h HelperFn
	var hname string
	if in.SymKind == relocHelper {
		h = vm.named[in.Sym]
		hname = in.Sym
	} else {
		h = vm.helpers[in.Imm]
		hname = fmt.Sprintf("#%d", in.Imm)
	}
	if h == nil {
		return 0, vm.fault(pc, "call to unknown helper %s", hname)
	}
	var a [5]uint64
	for i := 0; i < 5; i++ {
		a[i] = vm.regs[1+i] // helpers validate the arguments they use via vm.argInit
	}
	vm.pcForHelper = pc
	r0, err := h(vm, a)
	if err != nil {
		if tc, ok := err.(*tailCallTaken); ok {
			vm.cur = tc.prog
			ctx := vm.regs[1]
			for i := range vm.regs {
				vm.regs[i] = 0xdead0000dead0000 + uint64(i)
				vm.regInit[i] = false
			}
			vm.regs[1] = ctx
			vm.regInit[1] = true
			vm.regs[10] = vm.newRegion(newStack(0)) + StackSize
			vm.regInit[10] = true
			return -2, nil
		}
		if f, ok := err.(*Fault); ok {
			return 0, f
		}
		return 0, vm.fault(pc, "helper %s: %v", hname, err)
	}
	vm.regs[0] = r0
	vm.regInit[0] = true
	for i := 1; i <= 5; i++ {
		vm.regs[i] = 0xc10bbe2ed0000000 + uint64(i)
		vm.regInit[i] = false
	}
	return pc + 1, nil
}

type tailCallTaken struct{ prog *Program }

func (*tailCallTaken) Error() string { return "tail call" }

// ArgInit reports whether helper argument i (1-based register number) was initialised.
func (vm *VM) ArgInit(r int) bool { return vm.regInit[r] }

func sizeOf(op uint8) int {
	switch op & 0x18 {
	case 0x00:
		return 4
	case 0x08:
		return 2
	case 0x10:
		return 1
	default:
		return 8
	}
}

func loadLE(b []byte) uint64 {
	switch len(b) {
	case 1:
		return uint64(b[0])
	case 2:
		return uint64(binary.LittleEndian.Uint16(b))
	case 4:
		return uint64(binary.LittleEndian.Uint32(b))
	default:
		return binary.LittleEndian.Uint64(b)
	}
}

func storeLE(b []byte, v uint64) {
	switch len(b) {
	case 1:
		b[0] = byte(v)
	case 2:
		binary.LittleEndian.PutUint16(b, uint16(v))
	case 4:
		binary.LittleEndian.PutUint32(b, uint32(v))
	default:
		binary.LittleEndian.PutUint64(b, v)
	}
}

func bswap32(v uint32) uint32 {
	return v<<24 | (v&0xff00)<<8 | (v>>8)&0xff00 | v>>24
}

func bswap64(v uint64) uint64 {
	return uint64(bswap32(uint32(v)))<<32 | uint64(bswap32(uint32(v>>32)))
}

// ---------------------------------------------------------------------------------------------
// Maps

// MapType enumerates the supported map kinds.
type MapType int

const (
	Hash MapType = iota
	Array
	ProgArray
	LPMTrie
)

// Errno values returned (negated) by the map helpers.
const (
	ENOENT = 2
	E2BIG  = 7
	EEXIST = 17
	EINVAL = 22
)

// Update flags.
const (
	BPF_ANY     = 0
	BPF_NOEXIST = 1
	BPF_EXIST   = 2
)

// Map is a BPF map as seen by programs. Lookup returns the live backing slice of the value.
type Map interface {
	Name() string
	Type() MapType
	KeySize() int
	ValueSize() int
	Lookup(key []byte) ([]byte, bool)
	Update(key, value []byte, flags uint64) int // 0 or errno
	Delete(key []byte) int                      // 0 or errno
	// Keys returns the keys in a deterministic (sorted) order.
	Keys() [][]byte
}

// HashMap is a hash (or LRU hash without eviction) map.
type HashMap struct {
	name       string
	ks, vs     int
	MaxEntries int
	m          map[string][]byte
}

func NewHashMap(name string, keySize, valueSize, maxEntries int) *HashMap {
	return &HashMap{name: name, ks: keySize, vs: valueSize, MaxEntries: maxEntries, m: map[string][]byte{}}
}

func (h *HashMap) Name() string   { return h.name }
func (h *HashMap) Type() MapType  { return Hash }
func (h *HashMap) KeySize() int   { return h.ks }
func (h *HashMap) ValueSize() int { return h.vs }
func (h *HashMap) Len() int       { return len(h.m) }

func (h *HashMap) Lookup(key []byte) ([]byte, bool) {
	v, ok := h.m[string(key)]
	return v, ok
}

func (h *HashMap) Update(key, value []byte, flags uint64) int {
	if len(key) != h.ks || len(value) != h.vs {
		return EINVAL
	}
	old, ok := h.m[string(key)]
	switch flags {
	case BPF_NOEXIST:
		if ok {
			return EEXIST
		}
	case BPF_EXIST:
		if !ok {
			return ENOENT
		}
	case BPF_ANY:
	default:
		return EINVAL
	}
	if ok {
		copy(old, value) // in-place like the kernel's preallocated hash (pointers stay valid)
		return 0
	}
	if h.MaxEntries > 0 && len(h.m) >= h.MaxEntries {
		return E2BIG
	}
	h.m[string(key)] = append([]byte(nil), value...)
	return 0
}

func (h *HashMap) Delete(key []byte) int {
	if _, ok := h.m[string(key)]; !ok {
		return ENOENT
	}
	delete(h.m, string(key))
	return 0
}

func (h *HashMap) Keys() [][]byte {
	ks := make([]string, 0, len(h.m))
	for k := range h.m {
		ks = append(ks, k)
	}
	sort.Strings(ks)
	out := make([][]byte, len(ks))
	for i, k := range ks {
		out[i] = []byte(k)
	}
	return out
}

// ArrayMap is a fixed-size array map with u32 index keys.
type ArrayMap struct {
	name string
	vs   int
	vals [][]byte
}

func NewArrayMap(name string, valueSize, entries int) *ArrayMap {
	a := &ArrayMap{name: name, vs: valueSize, vals: make([][]byte, entries)}
	for i := range a.vals {
		a.vals[i] = make([]byte, valueSize)
	}
	return a
}

func (a *ArrayMap) Name() string   { return a.name }
func (a *ArrayMap) Type() MapType  { return Array }
func (a *ArrayMap) KeySize() int   { return 4 }
func (a *ArrayMap) ValueSize() int { return a.vs }

func (a *ArrayMap) Lookup(key []byte) ([]byte, bool) {
	if len(key) != 4 {
		return nil, false
	}
	i := binary.LittleEndian.Uint32(key)
	if int(i) >= len(a.vals) {
		return nil, false
	}
	return a.vals[i], true
}

func (a *ArrayMap) Update(key, value []byte, flags uint64) int {
	v, ok := a.Lookup(key)
	if !ok {
		return E2BIG
	}
	if flags == BPF_NOEXIST {
		return EEXIST
	}
	if len(value) != a.vs {
		return EINVAL
	}
	copy(v, value)
	return 0
}

func (a *ArrayMap) Delete(key []byte) int { return EINVAL }

func (a *ArrayMap) Keys() [][]byte {
	out := make([][]byte, len(a.vals))
	for i := range out {
		out[i] = binary.LittleEndian.AppendUint32(nil, uint32(i))
	}
	return out
}

// ProgArrayMap is a BPF_MAP_TYPE_PROG_ARRAY.
type ProgArrayMap struct {
	name  string
	Progs map[uint32]*Program
	Max   uint32
}

func NewProgArray(name string, max uint32) *ProgArrayMap {
	return &ProgArrayMap{name: name, Progs: map[uint32]*Program{}, Max: max}
}

func (a *ProgArrayMap) Name() string                               { return a.name }
func (a *ProgArrayMap) Type() MapType                              { return ProgArray }
func (a *ProgArrayMap) KeySize() int                               { return 4 }
func (a *ProgArrayMap) ValueSize() int                             { return 4 }
func (a *ProgArrayMap) Lookup(key []byte) ([]byte, bool)           { return nil, false }
func (a *ProgArrayMap) Update(key, value []byte, flags uint64) int { return EINVAL }
func (a *ProgArrayMap) Delete(key []byte) int                      { return EINVAL }
func (a *ProgArrayMap) Keys() [][]byte                             { return nil }
func (a *ProgArrayMap) Set(i uint32, p *Program)                   { a.Progs[i] = p }

// LPMTrieMap is a BPF_MAP_TYPE_LPM_TRIE: keys are {u32 prefixlen (host endian); data[]}.
type LPMTrieMap struct {
	name   string
	ks, vs int
	m      map[string][]byte
}

func NewLPMTrie(name string, keySize, valueSize int) *LPMTrieMap {
	return &LPMTrieMap{name: name, ks: keySize, vs: valueSize, m: map[string][]byte{}}
}

func (t *LPMTrieMap) Name() string   { return t.name }
func (t *LPMTrieMap) Type() MapType  { return LPMTrie }
func (t *LPMTrieMap) KeySize() int   { return t.ks }
func (t *LPMTrieMap) ValueSize() int { return t.vs }
func (t *LPMTrieMap) Len() int       { return len(t.m) }

func prefixMatch(a, b []byte, bits uint32) bool {
	full := int(bits / 8)
	if full > len(a) || full > len(b) {
		return false
	}
	if !bytes.Equal(a[:full], b[:full]) {
		return false
	}
	rem := bits % 8
	if rem == 0 {
		return true
	}
	if full >= len(a) || full >= len(b) {
		return false
	}
	mask := byte(0xff) << (8 - rem)
	return a[full]&mask == b[full]&mask
}

func (t *LPMTrieMap) Lookup(key []byte) ([]byte, bool) {
	if len(key) != t.ks {
		return nil, false
	}
	klen := binary.LittleEndian.Uint32(key[:4])
	if klen > uint32(t.ks-4)*8 {
		return nil, false
	}
	var best []byte
	bestLen := int64(-1)
	for ek, ev := range t.m {
		e := []byte(ek)
		plen := binary.LittleEndian.Uint32(e[:4])
		if plen > klen {
			continue
		}
		if int64(plen) > bestLen && prefixMatch(e[4:], key[4:], plen) {
			best, bestLen = ev, int64(plen)
		}
	}
	return best, bestLen >= 0
}

// canonical form of a trie key: bits beyond the prefix are ignored by the kernel when matching, but
// stored keys with the same prefix bits are the same node.
func (t *LPMTrieMap) canon(key []byte) (string, bool) {
	if len(key) != t.ks {
		return "", false
	}
	plen := binary.LittleEndian.Uint32(key[:4])
	if plen > uint32(t.ks-4)*8 {
		return "", false
	}
	c := append([]byte(nil), key...)
	full := int(plen / 8)
	rem := plen % 8
	for i := 4 + full; i < len(c); i++ {
		if i == 4+full && rem != 0 {
			c[i] &= byte(0xff) << (8 - rem)
			continue
		}
		c[i] = 0
	}
	return string(c), true
}

func (t *LPMTrieMap) Update(key, value []byte, flags uint64) int {
	c, ok := t.canon(key)
	if !ok || len(value) != t.vs {
		return EINVAL
	}
	_, exists := t.m[c]
	if flags == BPF_NOEXIST && exists {
		return EEXIST
	}
	if flags == BPF_EXIST && !exists {
		return ENOENT
	}
	t.m[c] = append([]byte(nil), value...)
	return 0
}

func (t *LPMTrieMap) Delete(key []byte) int {
	c, ok := t.canon(key)
	if !ok {
		return EINVAL
	}
	if _, exists := t.m[c]; !exists {
		return ENOENT
	}
	delete(t.m, c)
	return 0
}

func (t *LPMTrieMap) Keys() [][]byte {
	ks := make([]string, 0, len(t.m))
	for k := range t.m {
		ks = append(ks, k)
	}
	sort.Strings(ks)
	out := make([][]byte, len(ks))
	for i, k := range ks {
		out[i] = []byte(k)
	}
	return out
}

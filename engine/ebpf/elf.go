package ebpf

import (
	"debug/elf"
	"encoding/binary"
	"fmt"
	"sort"
	"strings"
)

// ELF relocation types of the BPF target (llvm).
const (
	rBPF6464 = 1  // LD_IMM64
	rBPF6432 = 10 // call
)

// LoadELF loads every executable section of a clang-compiled BPF object into ONE Program (sections
// are concatenated; Funcs gives the slot of every function symbol, e.g. "process_ccq_entry" or
// "conntrack_cleanup"). Relocations are attached to the instruction slots and resolved at run time:
// map symbols through VM.BindName, undefined function symbols through the named helper table,
// .text symbols as bpf-to-bpf calls / callback pointers, .rodata/.data symbols as read-only data.
func LoadELF(path string) (*Program, error) {
	f, err := elf.Open(path)
	if err != nil {
		return nil, err
	}
	defer f.Close()
	if f.Machine != elf.EM_BPF {
		return nil, fmt.Errorf("%s: not a BPF object (machine %v)", path, f.Machine)
	}
	syms, err := f.Symbols()
	if err != nil {
		return nil, fmt.Errorf("%s: symbols: %v", path, err)
	}
	p := &Program{Name: path, Funcs: map[string]int{}, Data: map[string][]byte{}}
	secBase := map[int]int{} // section index -> first slot
	// executable sections in file order
	for i, s := range f.Sections {
		if s.Type != elf.SHT_PROGBITS || s.Flags&elf.SHF_EXECINSTR == 0 || s.Size == 0 {
			continue
		}
		data, err := s.Data()
		if err != nil {
			return nil, err
		}
		ins, err := Decode(data)
		if err != nil {
			return nil, fmt.Errorf("%s: section %s: %v", path, s.Name, err)
		}
		secBase[i] = len(p.Insns)
		if s.Name == ".text" {
			p.textBase = len(p.Insns)
			p.hasText = true
		}
		p.Insns = append(p.Insns, ins...)
	}
	// data sections
	for _, s := range f.Sections {
		if s.Type == elf.SHT_PROGBITS && s.Flags&elf.SHF_EXECINSTR == 0 && s.Flags&elf.SHF_ALLOC != 0 && s.Size > 0 &&
			(strings.HasPrefix(s.Name, ".rodata") || strings.HasPrefix(s.Name, ".data")) {
			d, err := s.Data()
			if err != nil {
				return nil, err
			}
			p.Data[s.Name] = d
		}
		if s.Type == elf.SHT_NOBITS && s.Flags&elf.SHF_ALLOC != 0 && s.Size > 0 {
			p.Data[s.Name] = make([]byte, s.Size)
		}
	}
	for _, sym := range syms {
		if elf.ST_TYPE(sym.Info) == elf.STT_FUNC && int(sym.Section) < len(f.Sections) {
			if base, ok := secBase[int(sym.Section)]; ok {
				p.Funcs[sym.Name] = base + int(sym.Value/8)
			}
		}
	}
	// relocations
	for _, rs := range f.Sections {
		if rs.Type != elf.SHT_REL {
			continue
		}
		target := int(rs.Info)
		base, ok := secBase[target]
		if !ok {
			continue // relocations of non-code sections (.BTF etc.)
		}
		data, err := rs.Data()
		if err != nil {
			return nil, err
		}
		for off := 0; off+16 <= len(data); off += 16 {
			rOff := binary.LittleEndian.Uint64(data[off:])
			info := binary.LittleEndian.Uint64(data[off+8:])
			symIdx := int(info >> 32)
			typ := uint32(info)
			if symIdx == 0 || symIdx > len(syms) {
				return nil, fmt.Errorf("%s: bad relocation symbol index %d", path, symIdx)
			}
			sym := syms[symIdx-1]
			slot := base + int(rOff/8)
			if slot >= len(p.Insns) {
				return nil, fmt.Errorf("%s: relocation beyond section", path)
			}
			in := &p.Insns[slot]
			secName := ""
			if sym.Section != elf.SHN_UNDEF && int(sym.Section) < len(f.Sections) {
				secName = f.Sections[sym.Section].Name
			}
			switch {
			case secName == ".maps" || secName == "maps":
				in.Sym, in.SymKind = sym.Name, relocMap
			case sym.Section == elf.SHN_UNDEF:
				if typ != rBPF6432 {
					return nil, fmt.Errorf("%s: undefined symbol %s in non-call relocation", path, sym.Name)
				}
				in.Sym, in.SymKind = sym.Name, relocHelper
			case secName == ".text":
				in.Sym, in.SymKind, in.SymOff = sym.Name, relocText, int64(sym.Value)
				if elf.ST_TYPE(sym.Info) == elf.STT_SECTION {
					in.SymOff = 0
				}
			default:
				if _, ok := p.Data[secName]; !ok {
					return nil, fmt.Errorf("%s: relocation against unsupported section %q (symbol %s)", path, secName, sym.Name)
				}
				in.Sym, in.SymKind, in.SymSec, in.SymOff = sym.Name, relocData, secName, int64(sym.Value)
				if elf.ST_TYPE(sym.Info) == elf.STT_SECTION {
					in.SymOff = 0
				}
			}
		}
	}
	return p, nil
}

// WithEntry returns a shallow copy of p whose Run() starts at function fn.
func (p *Program) WithEntry(fn string) (*Program, error) {
	slot, ok := p.Funcs[fn]
	if !ok {
		var names []string
		for n := range p.Funcs {
			names = append(names, n)
		}
		sort.Strings(names)
		return nil, fmt.Errorf("function %q not found in %s (have %v)", fn, p.Name, names)
	}
	q := *p
	q.Entry = slot
	q.Name = p.Name + ":" + fn
	return &q, nil
}

// MapSymbols lists the map symbols referenced by the program's relocations (sorted).
func (p *Program) MapSymbols() []string {
	seen := map[string]bool{}
	for _, in := range p.Insns {
		if in.SymKind == relocMap {
			seen[in.Sym] = true
		}
	}
	var out []string
	for s := range seen {
		out = append(out, s)
	}
	sort.Strings(out)
	return out
}

// HelperSymbols lists helper symbols referenced by name (sorted).
func (p *Program) HelperSymbols() []string {
	seen := map[string]bool{}
	for _, in := range p.Insns {
		if in.SymKind == relocHelper {
			seen[in.Sym] = true
		}
	}
	var out []string
	for s := range seen {
		out = append(out, s)
	}
	sort.Strings(out)
	return out
}

// Layout is the content of a layout-probe object.
type Layout struct {
	// Vals: name -> value for every `layout_<name>` 8-byte constant in section "layout".
	Vals map[string]uint64
	// Blobs: name -> bytes for every `layoutblob_<name>` object in section "layoutblob".
	Blobs map[string][]byte
}

// Get returns a value or an error naming the missing symbol.
func (l *Layout) Get(name string) (uint64, error) {
	v, ok := l.Vals[name]
	if !ok {
		return 0, fmt.Errorf("layout probe has no symbol %q", name)
	}
	return v, nil
}

// Must is Get that panics (harness start-up).
func (l *Layout) Must(name string) uint64 {
	v, err := l.Get(name)
	if err != nil {
		panic(err)
	}
	return v
}

// ReadLayout reads a layout-probe object produced by tools/build_bpf.sh.
func ReadLayout(path string) (*Layout, error) {
	f, err := elf.Open(path)
	if err != nil {
		return nil, err
	}
	defer f.Close()
	syms, err := f.Symbols()
	if err != nil {
		return nil, err
	}
	out := &Layout{Vals: map[string]uint64{}, Blobs: map[string][]byte{}}
	secData := map[string][]byte{}
	for _, name := range []string{"layout", "layoutblob"} {
		if sec := f.Section(name); sec != nil {
			d, err := sec.Data()
			if err != nil {
				return nil, err
			}
			secData[name] = d
		}
	}
	if secData["layout"] == nil {
		return nil, fmt.Errorf("%s: no section \"layout\"", path)
	}
	for _, s := range syms {
		if int(s.Section) >= len(f.Sections) || elf.ST_TYPE(s.Info) != elf.STT_OBJECT {
			continue
		}
		sn := f.Sections[s.Section].Name
		d, ok := secData[sn]
		if !ok {
			continue
		}
		if s.Value+s.Size > uint64(len(d)) {
			return nil, fmt.Errorf("%s: symbol %s outside its section", path, s.Name)
		}
		switch {
		case sn == "layout" && strings.HasPrefix(s.Name, "layout_"):
			if s.Size != 8 {
				return nil, fmt.Errorf("%s: layout symbol %s has size %d", path, s.Name, s.Size)
			}
			out.Vals[strings.TrimPrefix(s.Name, "layout_")] = binary.LittleEndian.Uint64(d[s.Value:])
		case sn == "layoutblob" && strings.HasPrefix(s.Name, "layoutblob_"):
			out.Blobs[strings.TrimPrefix(s.Name, "layoutblob_")] = append([]byte(nil), d[s.Value:s.Value+s.Size]...)
		}
	}
	if len(out.Vals) == 0 {
		return nil, fmt.Errorf("%s: section layout has no symbols", path)
	}
	return out, nil
}

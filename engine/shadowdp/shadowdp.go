// Package shadowdp is a boring reference dataplane for Felix's calc-graph output stream: it
// replays proto.* messages into plain maps/sets and, on EVERY message, checks the referential
// rules that the stream promises (an object is present before anything that references it, nothing
// is removed while still referenced, IP-set deltas are exact, removals name existing objects, VXLAN
// ordering inside one flush batch).
//
// It is our own code (felix/dataplane/mock reports through gomega and does not check that IP sets
// referenced by rules exist). It depends only on felix/proto.
//
// Overlaid into the calico module as github.com/projectcalico/calico/zzverif/shadowdp.
package shadowdp

import (
	"encoding/json"
	"fmt"
	"reflect"
	"sort"
	"strings"

	"google.golang.org/protobuf/encoding/protojson"
	googleproto "google.golang.org/protobuf/proto"

	"github.com/projectcalico/calico/felix/proto"
)

// Fail is one broken referential rule. Class is a short, stable name of the rule.
type Fail struct {
	Class string
	Msg   string
}

type ipSet struct {
	Type    proto.IPSetUpdate_IPSetType
	Members map[string]struct{}
}

type batchRec struct {
	kind string // "route-upd" "route-rem" "vtep-upd" "vtep-rem"
	node string // VTEP node (for routes: the node the route goes through, "" if it needs no VTEP)
	id   string
}

// DP is the shadow dataplane state.
type DP struct {
	IPSets   map[string]*ipSet
	Policies map[string]*proto.Policy
	Profiles map[string]*proto.Profile
	WEPs     map[string]*proto.WorkloadEndpoint
	HEPs     map[string]*proto.HostEndpoint
	Routes   map[string]*proto.RouteUpdate
	VTEPs    map[string]*proto.VXLANTunnelEndpointUpdate
	// Keyed "section" -> id -> canonical payload, for the passthrough objects (hosts, pools,
	// service accounts, namespaces, wireguard, services).
	Other map[string]map[string]string
	// Singletons: encapsulation, global BGP config, config.
	Single map[string]string

	InSync   bool
	Fails    []Fail
	Messages int
	// Log holds one entry per message ("Type id") with "--" separating flush batches.
	Log []string

	inBatch bool
	batch   []batchRec
}

func New() *DP {
	return &DP{
		IPSets:   map[string]*ipSet{},
		Policies: map[string]*proto.Policy{},
		Profiles: map[string]*proto.Profile{},
		WEPs:     map[string]*proto.WorkloadEndpoint{},
		HEPs:     map[string]*proto.HostEndpoint{},
		Routes:   map[string]*proto.RouteUpdate{},
		VTEPs:    map[string]*proto.VXLANTunnelEndpointUpdate{},
		Other:    map[string]map[string]string{},
		Single:   map[string]string{},
	}
}

func (d *DP) fail(class, f string, a ...any) {
	d.Fails = append(d.Fails, Fail{Class: class, Msg: fmt.Sprintf(f, a...)})
}

// PolID renders a policy ID.
func PolID(id *proto.PolicyID) string {
	if id == nil {
		return "<nil>"
	}
	return id.Kind + "/" + id.Namespace + "/" + id.Name
}

func wepID(id *proto.WorkloadEndpointID) string {
	if id == nil {
		return "<nil>"
	}
	return id.OrchestratorId + "/" + id.WorkloadId + "/" + id.EndpointId
}

var jsonOpts = protojson.MarshalOptions{}

// J renders a proto message canonically (stable within one process; map keys sorted).
func J(m googleproto.Message) string {
	if m == nil || reflect.ValueOf(m).IsNil() {
		return "null"
	}
	b, err := jsonOpts.Marshal(m)
	if err != nil {
		return "ERR:" + err.Error()
	}
	return string(b)
}

// RuleIPSets lists every IP set ID a rule refers to.
func RuleIPSets(r *proto.Rule) []string {
	var out []string
	out = append(out, r.SrcIpSetIds...)
	out = append(out, r.DstIpSetIds...)
	out = append(out, r.NotSrcIpSetIds...)
	out = append(out, r.NotDstIpSetIds...)
	out = append(out, r.SrcNamedPortIpSetIds...)
	out = append(out, r.DstNamedPortIpSetIds...)
	out = append(out, r.NotSrcNamedPortIpSetIds...)
	out = append(out, r.NotDstNamedPortIpSetIds...)
	out = append(out, r.DstIpPortSetIds...)
	return out
}

func rulesIPSets(in, out []*proto.Rule) []string {
	var ids []string
	for _, r := range in {
		ids = append(ids, RuleIPSets(r)...)
	}
	for _, r := range out {
		ids = append(ids, RuleIPSets(r)...)
	}
	return ids
}

func (d *DP) checkRuleRefs(what string, in, out []*proto.Rule) {
	for _, id := range rulesIPSets(in, out) {
		if _, ok := d.IPSets[id]; !ok {
			d.fail("rules-reference-missing-ipset", "%s references IP set %s which the dataplane does not have", what, id)
		}
	}
}

// TierPolicies returns every policy ID referenced by a tier list.
func TierPolicies(tiers ...[]*proto.TierInfo) []string {
	var out []string
	for _, tl := range tiers {
		for _, t := range tl {
			for _, p := range t.IngressPolicies {
				out = append(out, PolID(p))
			}
			for _, p := range t.EgressPolicies {
				out = append(out, PolID(p))
			}
		}
	}
	return out
}

func (d *DP) epPolicies() map[string][]string {
	m := map[string][]string{}
	for id, w := range d.WEPs {
		m["wep "+id] = TierPolicies(w.Tiers)
	}
	for id, h := range d.HEPs {
		m["hep "+id] = TierPolicies(h.Tiers, h.UntrackedTiers, h.PreDnatTiers, h.ForwardTiers)
	}
	return m
}

func (d *DP) epProfiles() map[string][]string {
	m := map[string][]string{}
	for id, w := range d.WEPs {
		m["wep "+id] = w.ProfileIds
	}
	for id, h := range d.HEPs {
		m["hep "+id] = h.ProfileIds
	}
	return m
}

// routeNeedsVTEP returns the node whose VTEP a route needs ("" if none): a remote-workload route
// in a VXLAN pool goes through the VTEP of its destination node.
func routeNeedsVTEP(r *proto.RouteUpdate) string {
	if r == nil {
		return ""
	}
	if r.IpPoolType == proto.IPPoolType_VXLAN && r.Types&proto.RouteType_REMOTE_WORKLOAD != 0 {
		return r.DstNodeName
	}
	return ""
}

func (d *DP) other(section string) map[string]string {
	m := d.Other[section]
	if m == nil {
		m = map[string]string{}
		d.Other[section] = m
	}
	return m
}

func (d *DP) otherRemove(section, id string) {
	m := d.other(section)
	if _, ok := m[id]; !ok {
		d.fail("remove-of-unknown-object", "%s remove for %q which the dataplane does not have", section, id)
	}
	delete(m, id)
}

// BeginBatch marks the start of one flush.
func (d *DP) BeginBatch() {
	d.inBatch = true
	d.batch = d.batch[:0]
	d.Log = append(d.Log, "--")
}

// EndBatch marks the end of one flush and checks the intra-batch VXLAN ordering.
func (d *DP) EndBatch() {
	d.inBatch = false
	for i, r := range d.batch {
		switch r.kind {
		case "route-upd":
			if r.node == "" {
				continue
			}
			for _, l := range d.batch[i+1:] {
				if l.kind == "vtep-upd" && l.node == r.node {
					d.fail("vxlan-route-before-vtep", "RouteUpdate %s (via node %s) was sent before the VXLANTunnelEndpointUpdate for %s in the same flush", r.id, r.node, r.node)
				}
			}
		case "vtep-rem":
			for _, l := range d.batch[i+1:] {
				if l.kind == "route-rem" && l.node == r.node {
					d.fail("vxlan-vtep-removed-before-route", "VXLANTunnelEndpointRemove %s was sent before the RouteRemove of %s (which went via that node) in the same flush", r.node, l.id)
				}
			}
		}
	}
	d.batch = d.batch[:0]
}

func (d *DP) log(typ, id string) {
	d.Log = append(d.Log, typ+" "+id)
}

// OnEvent consumes one message of the calc graph's output stream.
func (d *DP) OnEvent(event any) {
	d.Messages++
	switch m := event.(type) {
	case *proto.InSync:
		d.log("InSync", "")
		d.InSync = true
	case *proto.IPSetUpdate:
		d.log("IPSetUpdate", m.Id)
		s := &ipSet{Type: m.Type, Members: map[string]struct{}{}}
		for _, mem := range m.Members {
			s.Members[mem] = struct{}{}
		}
		d.IPSets[m.Id] = s
	case *proto.IPSetDeltaUpdate:
		d.log("IPSetDeltaUpdate", m.Id)
		s, ok := d.IPSets[m.Id]
		if !ok {
			d.fail("ipset-delta-for-missing-set", "IPSetDeltaUpdate for IP set %s which the dataplane does not have (+%v -%v)", m.Id, m.AddedMembers, m.RemovedMembers)
			return
		}
		// removals first or adds first? a member named in both lists would be ambiguous; the
		// statement only says adds are absent and removes are present, judged against the set
		// as it was before this message.
		for _, mem := range m.AddedMembers {
			if _, dup := s.Members[mem]; dup {
				d.fail("ipset-delta-adds-present-member", "IPSetDeltaUpdate %s adds %s which is already a member", m.Id, mem)
			}
		}
		for _, mem := range m.RemovedMembers {
			if _, present := s.Members[mem]; !present {
				d.fail("ipset-delta-removes-absent-member", "IPSetDeltaUpdate %s removes %s which is not a member", m.Id, mem)
			}
		}
		for _, mem := range m.RemovedMembers {
			delete(s.Members, mem)
		}
		for _, mem := range m.AddedMembers {
			s.Members[mem] = struct{}{}
		}
	case *proto.IPSetRemove:
		d.log("IPSetRemove", m.Id)
		if _, ok := d.IPSets[m.Id]; !ok {
			d.fail("remove-of-unknown-object", "IPSetRemove for %s which the dataplane does not have", m.Id)
		}
		for id, p := range d.Policies {
			for _, ref := range rulesIPSets(p.InboundRules, p.OutboundRules) {
				if ref == m.Id {
					d.fail("ipset-removed-while-referenced", "IPSetRemove %s while policy %s still references it", m.Id, id)
				}
			}
		}
		for id, p := range d.Profiles {
			for _, ref := range rulesIPSets(p.InboundRules, p.OutboundRules) {
				if ref == m.Id {
					d.fail("ipset-removed-while-referenced", "IPSetRemove %s while profile %s still references it", m.Id, id)
				}
			}
		}
		delete(d.IPSets, m.Id)
	case *proto.ActivePolicyUpdate:
		id := PolID(m.Id)
		d.log("ActivePolicyUpdate", id)
		if m.Policy == nil {
			d.fail("malformed-message", "ActivePolicyUpdate %s without a policy", id)
			return
		}
		d.checkRuleRefs("policy "+id, m.Policy.InboundRules, m.Policy.OutboundRules)
		d.Policies[id] = m.Policy
	case *proto.ActivePolicyRemove:
		id := PolID(m.Id)
		d.log("ActivePolicyRemove", id)
		if _, ok := d.Policies[id]; !ok {
			d.fail("remove-of-unknown-object", "ActivePolicyRemove for %s which the dataplane does not have", id)
		}
		for ep, pols := range d.epPolicies() {
			for _, p := range pols {
				if p == id {
					d.fail("policy-removed-while-referenced", "ActivePolicyRemove %s while %s still lists it", id, ep)
				}
			}
		}
		delete(d.Policies, id)
	case *proto.ActiveProfileUpdate:
		id := m.Id.GetName()
		d.log("ActiveProfileUpdate", id)
		if m.Profile == nil {
			d.fail("malformed-message", "ActiveProfileUpdate %s without a profile", id)
			return
		}
		d.checkRuleRefs("profile "+id, m.Profile.InboundRules, m.Profile.OutboundRules)
		d.Profiles[id] = m.Profile
	case *proto.ActiveProfileRemove:
		id := m.Id.GetName()
		d.log("ActiveProfileRemove", id)
		if _, ok := d.Profiles[id]; !ok {
			d.fail("remove-of-unknown-object", "ActiveProfileRemove for %s which the dataplane does not have", id)
		}
		for ep, profs := range d.epProfiles() {
			for _, p := range profs {
				if p == id {
					d.fail("profile-removed-while-referenced", "ActiveProfileRemove %s while %s still names it", id, ep)
				}
			}
		}
		delete(d.Profiles, id)
	case *proto.WorkloadEndpointUpdate:
		id := wepID(m.Id)
		d.log("WorkloadEndpointUpdate", id)
		if m.Endpoint == nil {
			d.fail("malformed-message", "WorkloadEndpointUpdate %s without an endpoint", id)
			return
		}
		for _, p := range TierPolicies(m.Endpoint.Tiers) {
			if _, ok := d.Policies[p]; !ok {
				d.fail("endpoint-references-missing-policy", "WorkloadEndpointUpdate %s lists policy %s which the dataplane does not have", id, p)
			}
		}
		for _, p := range m.Endpoint.ProfileIds {
			if _, ok := d.Profiles[p]; !ok {
				d.fail("endpoint-references-missing-profile", "WorkloadEndpointUpdate %s names profile %s which the dataplane does not have", id, p)
			}
		}
		d.WEPs[id] = m.Endpoint
	case *proto.WorkloadEndpointRemove:
		id := wepID(m.Id)
		d.log("WorkloadEndpointRemove", id)
		if _, ok := d.WEPs[id]; !ok {
			d.fail("remove-of-unknown-object", "WorkloadEndpointRemove for %s which the dataplane does not have", id)
		}
		delete(d.WEPs, id)
	case *proto.HostEndpointUpdate:
		id := m.Id.GetEndpointId()
		d.log("HostEndpointUpdate", id)
		if m.Endpoint == nil {
			d.fail("malformed-message", "HostEndpointUpdate %s without an endpoint", id)
			return
		}
		for _, p := range TierPolicies(m.Endpoint.Tiers, m.Endpoint.UntrackedTiers, m.Endpoint.PreDnatTiers, m.Endpoint.ForwardTiers) {
			if _, ok := d.Policies[p]; !ok {
				d.fail("endpoint-references-missing-policy", "HostEndpointUpdate %s lists policy %s which the dataplane does not have", id, p)
			}
		}
		for _, p := range m.Endpoint.ProfileIds {
			if _, ok := d.Profiles[p]; !ok {
				d.fail("endpoint-references-missing-profile", "HostEndpointUpdate %s names profile %s which the dataplane does not have", id, p)
			}
		}
		d.HEPs[id] = m.Endpoint
	case *proto.HostEndpointRemove:
		id := m.Id.GetEndpointId()
		d.log("HostEndpointRemove", id)
		if _, ok := d.HEPs[id]; !ok {
			d.fail("remove-of-unknown-object", "HostEndpointRemove for %s which the dataplane does not have", id)
		}
		delete(d.HEPs, id)
	case *proto.RouteUpdate:
		d.log("RouteUpdate", m.Dst)
		if d.inBatch {
			d.batch = append(d.batch, batchRec{kind: "route-upd", node: routeNeedsVTEP(m), id: m.Dst})
		}
		d.Routes[m.Dst] = m
	case *proto.RouteRemove:
		d.log("RouteRemove", m.Dst)
		old, ok := d.Routes[m.Dst]
		if !ok {
			d.fail("remove-of-unknown-object", "RouteRemove for %s which the dataplane does not have", m.Dst)
		}
		if d.inBatch {
			d.batch = append(d.batch, batchRec{kind: "route-rem", node: routeNeedsVTEP(old), id: m.Dst})
		}
		delete(d.Routes, m.Dst)
	case *proto.VXLANTunnelEndpointUpdate:
		d.log("VXLANTunnelEndpointUpdate", m.Node)
		if d.inBatch {
			d.batch = append(d.batch, batchRec{kind: "vtep-upd", node: m.Node, id: m.Node})
		}
		d.VTEPs[m.Node] = m
	case *proto.VXLANTunnelEndpointRemove:
		d.log("VXLANTunnelEndpointRemove", m.Node)
		if _, ok := d.VTEPs[m.Node]; !ok {
			d.fail("remove-of-unknown-object", "VXLANTunnelEndpointRemove for %s which the dataplane does not have", m.Node)
		}
		if d.inBatch {
			d.batch = append(d.batch, batchRec{kind: "vtep-rem", node: m.Node, id: m.Node})
		}
		delete(d.VTEPs, m.Node)
	case *proto.HostMetadataUpdate:
		d.log("HostMetadataUpdate", m.Hostname)
		d.other("hosts")[m.Hostname] = J(m)
	case *proto.HostMetadataRemove:
		d.log("HostMetadataRemove", m.Hostname)
		d.otherRemove("hosts", m.Hostname)
	case *proto.IPAMPoolUpdate:
		d.log("IPAMPoolUpdate", m.Id)
		d.other("pools")[m.Id] = J(m)
	case *proto.IPAMPoolRemove:
		d.log("IPAMPoolRemove", m.Id)
		d.otherRemove("pools", m.Id)
	case *proto.ServiceAccountUpdate:
		id := m.Id.GetNamespace() + "/" + m.Id.GetName()
		d.log("ServiceAccountUpdate", id)
		d.other("serviceaccounts")[id] = J(m)
	case *proto.ServiceAccountRemove:
		id := m.Id.GetNamespace() + "/" + m.Id.GetName()
		d.log("ServiceAccountRemove", id)
		d.otherRemove("serviceaccounts", id)
	case *proto.NamespaceUpdate:
		d.log("NamespaceUpdate", m.Id.GetName())
		d.other("namespaces")[m.Id.GetName()] = J(m)
	case *proto.NamespaceRemove:
		d.log("NamespaceRemove", m.Id.GetName())
		d.otherRemove("namespaces", m.Id.GetName())
	case *proto.WireguardEndpointUpdate:
		d.log("WireguardEndpointUpdate", m.Hostname)
		d.other("wireguard")[m.Hostname] = J(m)
	case *proto.WireguardEndpointRemove:
		d.log("WireguardEndpointRemove", m.Hostname)
		d.otherRemove("wireguard", m.Hostname)
	case *proto.WireguardEndpointV6Update:
		d.log("WireguardEndpointV6Update", m.Hostname)
		d.other("wireguard6")[m.Hostname] = J(m)
	case *proto.WireguardEndpointV6Remove:
		d.log("WireguardEndpointV6Remove", m.Hostname)
		d.otherRemove("wireguard6", m.Hostname)
	case *proto.ServiceUpdate:
		id := m.Namespace + "/" + m.Name
		d.log("ServiceUpdate", id)
		d.other("services")[id] = J(m)
	case *proto.ServiceRemove:
		id := m.Namespace + "/" + m.Name
		d.log("ServiceRemove", id)
		d.otherRemove("services", id)
	case *proto.Encapsulation:
		d.log("Encapsulation", "")
		d.Single["encapsulation"] = J(m)
	case *proto.GlobalBGPConfigUpdate:
		d.log("GlobalBGPConfigUpdate", "")
		d.Single["globalbgp"] = J(m)
	case *proto.ConfigUpdate:
		d.log("ConfigUpdate", "")
		d.Single["config"] = J(m)
	default:
		// e.g. *calc.DatastoreNotReady (not a proto message): remember the last one by type.
		t := fmt.Sprintf("%T", event)
		d.log(t, "")
		if pm, ok := event.(googleproto.Message); ok {
			d.Single["other:"+t] = J(pm)
		} else {
			d.Single["other:"+t] = "seen"
		}
	}
}

func sortedKeys[V any](m map[string]V) []string {
	ks := make([]string, 0, len(m))
	for k := range m {
		ks = append(ks, k)
	}
	sort.Strings(ks)
	return ks
}

// Objects is the canonical rendering of the dataplane state: section -> object id -> canonical
// JSON. Order-insensitive where the stream is (set members, object maps), order-preserving where
// order means something (rules, tier lists).
func (d *DP) Objects() map[string]map[string]string {
	out := map[string]map[string]string{}
	sec := func(name string) map[string]string {
		m := out[name]
		if m == nil {
			m = map[string]string{}
			out[name] = m
		}
		return m
	}
	for id, s := range d.IPSets {
		b, _ := json.Marshal(map[string]any{"type": s.Type.String(), "members": sortedKeys(s.Members)})
		sec("ipsets")[id] = string(b)
	}
	for id, p := range d.Policies {
		sec("policies")[id] = J(p)
	}
	for id, p := range d.Profiles {
		sec("profiles")[id] = J(p)
	}
	for id, w := range d.WEPs {
		sec("endpoints")["wep "+id] = J(w)
	}
	for id, h := range d.HEPs {
		sec("endpoints")["hep "+id] = J(h)
	}
	for id, r := range d.Routes {
		sec("routes")[id] = J(r)
	}
	for id, v := range d.VTEPs {
		sec("vteps")[id] = J(v)
	}
	for name, m := range d.Other {
		for id, v := range m {
			sec(name)[id] = v
		}
	}
	for k, v := range d.Single {
		sec("singletons")[k] = v
	}
	return out
}

// Canon renders Objects() into one string.
func (d *DP) Canon() string {
	return CanonOf(d.Objects())
}

// CanonOf renders an Objects() result into one string.
func CanonOf(objs map[string]map[string]string) string {
	var b strings.Builder
	for _, sec := range sortedKeys(objs) {
		m := objs[sec]
		if len(m) == 0 {
			continue
		}
		fmt.Fprintf(&b, "[%s]", sec)
		for _, id := range sortedKeys(m) {
			fmt.Fprintf(&b, "%s=%s;", id, m[id])
		}
		b.WriteByte('\n')
	}
	return b.String()
}

// Diff is one object on which two dataplane states disagree.
type Diff struct {
	Section string
	ID      string
	// Paths names the differing fields (array indices dropped), or is ["<missing>"] / ["<extra>"]
	// when the object exists on one side only (missing = absent from a, extra = absent from b).
	Paths []string
	A, B  string
}

// Class is a stable name for the shape of the difference: section + differing field names.
func (d Diff) Class() string {
	p := d.Paths
	if len(p) > 3 {
		p = append(append([]string{}, p[:3]...), "…")
	}
	return d.Section + ":" + strings.Join(p, "+")
}

// DiffObjects compares two Objects() results.
func DiffObjects(a, b map[string]map[string]string) []Diff {
	var out []Diff
	secs := map[string]bool{}
	for s := range a {
		secs[s] = true
	}
	for s := range b {
		secs[s] = true
	}
	for _, sec := range sortedKeys(secs) {
		ids := map[string]bool{}
		for id := range a[sec] {
			ids[id] = true
		}
		for id := range b[sec] {
			ids[id] = true
		}
		for _, id := range sortedKeys(ids) {
			av, aok := a[sec][id]
			bv, bok := b[sec][id]
			switch {
			case aok && bok && av == bv:
			case !aok:
				out = append(out, Diff{Section: sec, ID: id, Paths: []string{"<missing>"}, B: bv})
			case !bok:
				out = append(out, Diff{Section: sec, ID: id, Paths: []string{"<extra>"}, A: av})
			default:
				var ja, jb any
				ea := json.Unmarshal([]byte(av), &ja)
				eb := json.Unmarshal([]byte(bv), &jb)
				paths := map[string]bool{}
				if ea != nil || eb != nil {
					paths["<value>"] = true
				} else {
					diffJSON("", ja, jb, paths)
				}
				out = append(out, Diff{Section: sec, ID: id, Paths: sortedKeys(paths), A: av, B: bv})
			}
		}
	}
	return out
}

func diffJSON(path string, a, b any, out map[string]bool) {
	if reflect.DeepEqual(a, b) {
		return
	}
	name := path
	if name == "" {
		name = "<value>"
	}
	switch av := a.(type) {
	case map[string]any:
		bv, ok := b.(map[string]any)
		if !ok {
			out[name] = true
			return
		}
		keys := map[string]bool{}
		for k := range av {
			keys[k] = true
		}
		for k := range bv {
			keys[k] = true
		}
		for k := range keys {
			p := k
			if path != "" {
				p = path + "." + k
			}
			diffJSON(p, av[k], bv[k], out)
		}
	case []any:
		bv, ok := b.([]any)
		if !ok || len(av) != len(bv) {
			out[name] = true
			return
		}
		for i := range av {
			diffJSON(path, av[i], bv[i], out)
		}
	default:
		out[name] = true
	}
}

// BatchClasses returns, per flush batch, the sorted multiset of "Type id" entries.
func (d *DP) BatchClasses() [][]string {
	var out [][]string
	var cur []string
	started := false
	for _, l := range d.Log {
		if l == "--" {
			if started {
				sort.Strings(cur)
				out = append(out, cur)
			}
			cur = nil
			started = true
			continue
		}
		cur = append(cur, l)
	}
	if started || len(cur) > 0 {
		sort.Strings(cur)
		out = append(out, cur)
	}
	return out
}

// Package vk is the common run-time kit for the verification harnesses: tier/seed/deadline
// handling, violation + known-finding bookkeeping, replay artefacts and evidence files.
//
// It is overlaid into the calico module as github.com/projectcalico/calico/zzverif/vk.
package vk

import (
	"crypto/sha256"
	"encoding/hex"
	"encoding/json"
	"fmt"
	"os"
	"path/filepath"
	"runtime/debug"
	"sort"
	"strconv"
	"strings"
	"sync"
	"testing"
	"time"
)

// Ctx is handed to the body of a check.
type Ctx struct {
	Prop  string
	tier  string
	seed  int64
	start time.Time
	dl    time.Time

	mu         sync.Mutex
	counters   map[string]int64
	samples    []any
	rule       string
	exhaustive bool
	exhSet     bool
	caps       []string
	assume     []string
	extra      map[string]any
	viol       map[string]*violation // by key
	violOrder  []string
	distinct   map[string]struct{}
	outcomes   map[string]int64
	known      []finding
	replayDir  string
	evPath     string
	replayFile string
	level      string
	toolErr    []string
}

type violation struct {
	Key    string `json:"key"`
	Count  int    `json:"count"`
	Detail any    `json:"detail"`
	Replay string `json:"replay"`
}

type finding struct {
	Property string `json:"property"`
	Status   string `json:"status"` // "known" or "fixed"
	Key      string `json:"key"`
	What     string `json:"what"`
	Commit   string `json:"commit,omitempty"`
}

func env(k, def string) string {
	if v := os.Getenv(k); v != "" {
		return v
	}
	return def
}

// Run executes body as the check for property prop and turns its results into the contract:
// evidence file, VIOLATION / KNOWN-FINDING lines, test failure iff an unlisted violation exists.
func Run(t *testing.T, prop string, body func(c *Ctx)) {
	verif := env("VERIF_DIR", "/verif")
	c := &Ctx{
		Prop:       prop,
		tier:       env("VERIF_TIER", "quick"),
		start:      time.Now(),
		counters:   map[string]int64{},
		extra:      map[string]any{},
		viol:       map[string]*violation{},
		distinct:   map[string]struct{}{},
		outcomes:   map[string]int64{},
		replayDir:  env("VERIF_REPLAY_DIR", filepath.Join(verif, "replays", prop)),
		evPath:     env("VERIF_EVIDENCE", filepath.Join(verif, "evidence", prop+".json")),
		replayFile: os.Getenv("VERIF_REPLAY"),
		level:      "model_checking",
		exhaustive: true,
	}
	if c.tier != "quick" && c.tier != "thorough" {
		c.tier = "quick"
	}
	c.seed, _ = strconv.ParseInt(env("VERIF_SEED", "1"), 10, 64)
	budget := 150 * time.Second
	if c.tier == "thorough" {
		budget = 25 * time.Minute
	}
	if v := os.Getenv("VERIF_BUDGET_S"); v != "" {
		if n, err := strconv.Atoi(v); err == nil {
			budget = time.Duration(n) * time.Second
		}
	}
	c.dl = c.start.Add(budget)
	if b, err := os.ReadFile(filepath.Join(verif, "known_findings.json")); err == nil {
		var all []finding
		if err := json.Unmarshal(b, &all); err != nil {
			t.Fatalf("TOOL-ERROR: known_findings.json unreadable: %v", err)
		}
		for _, f := range all {
			if f.Property == prop {
				c.known = append(c.known, f)
			}
		}
	}
	func() {
		defer func() {
			if r := recover(); r != nil {
				c.ToolError(fmt.Sprintf("harness panic: %v\n%s", r, debug.Stack()))
			}
		}()
		body(c)
	}()
	c.finish(t)
}

func (c *Ctx) Tier() string     { return c.tier }
func (c *Ctx) Quick() bool      { return c.tier == "quick" }
func (c *Ctx) Thorough() bool   { return c.tier == "thorough" }
func (c *Ctx) Seed() int64      { return c.seed }
func (c *Ctx) ReplayFile() string { return c.replayFile }

// Pick returns q in the quick tier and t in the thorough tier.
func (c *Ctx) Pick(q, t int) int {
	if c.Quick() {
		return q
	}
	return t
}

// Expired reports whether the internal deadline has passed. A check that stops because of it must
// call Capped (which clears "exhaustive").
func (c *Ctx) Expired() bool { return time.Now().After(c.dl) }

// Remaining time before the internal deadline.
func (c *Ctx) Remaining() time.Duration { return time.Until(c.dl) }

// Capped records that some bound/deadline cut the exploration short.
func (c *Ctx) Capped(what string) {
	c.mu.Lock()
	defer c.mu.Unlock()
	c.exhaustive = false
	for _, x := range c.caps {
		if x == what {
			return
		}
	}
	c.caps = append(c.caps, what)
}

// NotExhaustive marks the run as (partly) sampled for the stated reason.
func (c *Ctx) NotExhaustive(why string) { c.Capped(why) }

func (c *Ctx) Add(name string, n int64) {
	c.mu.Lock()
	c.counters[name] += n
	c.mu.Unlock()
}

func (c *Ctx) Get(name string) int64 {
	c.mu.Lock()
	defer c.mu.Unlock()
	return c.counters[name]
}

// Max keeps the maximum of a counter.
func (c *Ctx) Max(name string, n int64) {
	c.mu.Lock()
	if n > c.counters[name] {
		c.counters[name] = n
	}
	c.mu.Unlock()
}

// Nontrivial records one distinct non-trivial case by its signature.
func (c *Ctx) Nontrivial(sig string) {
	h := sha256.Sum256([]byte(sig))
	k := string(h[:12])
	c.mu.Lock()
	c.distinct[k] = struct{}{}
	c.mu.Unlock()
}

// Outcome records an observed outcome class (to expose vacuous exploration).
func (c *Ctx) Outcome(sig string) {
	c.mu.Lock()
	if len(c.outcomes) < 4096 || c.outcomes[sig] > 0 {
		c.outcomes[sig]++
	}
	c.mu.Unlock()
}

func (c *Ctx) Rule(s string)          { c.rule = s }
func (c *Ctx) Assume(s string)        { c.mu.Lock(); c.assume = append(c.assume, s); c.mu.Unlock() }
func (c *Ctx) Extra(k string, v any)  { c.mu.Lock(); c.extra[k] = v; c.mu.Unlock() }
func (c *Ctx) Level(l string)         { c.level = l }

// Sample keeps up to 8 written-out cases.
func (c *Ctx) Sample(x any) {
	c.mu.Lock()
	if len(c.samples) < 8 {
		c.samples = append(c.samples, x)
	}
	c.mu.Unlock()
}

// ToolError records a failure of the machinery itself (never a verdict on the property).
func (c *Ctx) ToolError(msg string) {
	c.mu.Lock()
	c.toolErr = append(c.toolErr, msg)
	c.mu.Unlock()
}

// Violation records a property violation. key identifies the failing shape (input class, call
// site or history) and is what known_findings.json entries are matched against; detail must be
// enough to replay it.
func (c *Ctx) Violation(key string, detail any) {
	c.mu.Lock()
	defer c.mu.Unlock()
	v := c.viol[key]
	if v == nil {
		v = &violation{Key: key, Detail: detail}
		c.viol[key] = v
		c.violOrder = append(c.violOrder, key)
	}
	v.Count++
}

// ViolationCount returns the number of distinct violation keys so far.
func (c *Ctx) ViolationCount() int {
	c.mu.Lock()
	defer c.mu.Unlock()
	return len(c.viol)
}

func (c *Ctx) isKnown(key string) (finding, bool) {
	for _, f := range c.known {
		if f.Status != "known" {
			continue
		}
		if f.Key == key || (strings.HasSuffix(f.Key, "*") && strings.HasPrefix(key, strings.TrimSuffix(f.Key, "*"))) {
			return f, true
		}
	}
	return finding{}, false
}

func (c *Ctx) finish(t *testing.T) {
	wall := time.Since(c.start).Seconds()
	sort.Strings(c.violOrder)
	unlisted := 0
	var vlist []violation
	knownSeen := map[string]bool{}
	if len(c.violOrder) > 0 {
		_ = os.MkdirAll(c.replayDir, 0o755)
	}
	for _, k := range c.violOrder {
		v := c.viol[k]
		h := sha256.Sum256([]byte(k))
		v.Replay = filepath.Join(c.replayDir, hex.EncodeToString(h[:6])+".json")
		b, _ := json.MarshalIndent(map[string]any{
			"property": c.Prop, "key": v.Key, "count": v.Count, "tier": c.tier, "seed": c.seed, "detail": v.Detail,
		}, "", " ")
		_ = os.WriteFile(v.Replay, b, 0o644)
		if f, ok := c.isKnown(k); ok {
			if !knownSeen[f.Key] {
				knownSeen[f.Key] = true
				fmt.Printf("KNOWN-FINDING: property=%s %s [%s]\n", c.Prop, f.What, f.Key)
			}
		} else {
			unlisted++
			if unlisted <= 20 {
				fmt.Printf("VIOLATION property=%s replay=%s key=%q\n", c.Prop, v.Replay, v.Key)
			}
		}
		if len(vlist) < 20 {
			vlist = append(vlist, *v)
		}
	}
	cov := map[string]any{}
	for k, v := range c.counters {
		cov[k] = v
	}
	for k, v := range c.extra {
		cov[k] = v
	}
	// level keys: states / transitions / traces_validated_against_impl default from evaluations.
	if _, ok := cov["evaluations"]; !ok {
		cov["evaluations"] = c.counters["transitions"]
	}
	if _, ok := cov["traces_validated_against_impl"]; !ok {
		// every explored execution runs the real implementation
		cov["traces_validated_against_impl"] = cov["evaluations"]
	}
	cov["distinct_nontrivial"] = len(c.distinct)
	cov["distinct_outcomes"] = len(c.outcomes)
	cov["rule"] = c.rule
	if len(c.samples) == 0 {
		c.samples = []any{}
	}
	cov["samples"] = c.samples
	cov["exhaustive"] = c.exhaustive && len(c.toolErr) == 0
	if len(c.caps) > 0 {
		cov["caps_hit"] = c.caps
	}
	if len(vlist) > 0 {
		cov["violations_found"] = vlist
	}
	if len(c.toolErr) > 0 {
		cov["tool_errors"] = c.toolErr
	}
	ev := map[string]any{
		"property_id": c.Prop,
		"tier":        c.tier,
		"seed":        c.seed,
		"level":       c.level,
		"coverage":    cov,
		"assumptions": c.assume,
		"wall_s":      wall,
		"violations":  unlisted,
	}
	if c.assume == nil {
		ev["assumptions"] = []string{}
	}
	b, err := json.MarshalIndent(ev, "", " ")
	if err != nil {
		t.Fatalf("TOOL-ERROR: evidence not serialisable: %v", err)
	}
	_ = os.MkdirAll(filepath.Dir(c.evPath), 0o755)
	if c.replayFile == "" {
		if err := os.WriteFile(c.evPath, b, 0o644); err != nil {
			t.Fatalf("TOOL-ERROR: cannot write evidence: %v", err)
		}
	}
	fmt.Printf("SUMMARY property=%s tier=%s states=%v transitions=%v evaluations=%v nontrivial=%d outcomes=%d exhaustive=%v violations=%d known=%d wall=%.1fs\n",
		c.Prop, c.tier, cov["states"], cov["transitions"], cov["evaluations"], len(c.distinct), len(c.outcomes), cov["exhaustive"], unlisted, len(knownSeen), wall)
	if len(c.toolErr) > 0 {
		for _, e := range c.toolErr {
			fmt.Printf("TOOL-ERROR: %s\n", e)
		}
		t.Fatalf("tool error")
	}
	if unlisted > 0 {
		t.Fatalf("%d unlisted violation(s)", unlisted)
	}
}

// Catch runs f and converts a panic into an error carrying the stack.
func Catch(f func() error) (err error) {
	defer func() {
		if r := recover(); r != nil {
			st := string(debug.Stack())
			if len(st) > 3000 {
				st = st[:3000]
			}
			err = &PanicError{Val: fmt.Sprint(r), Stack: st}
		}
	}()
	return f()
}

// PanicError is a recovered panic.
type PanicError struct {
	Val   string
	Stack string
}

func (p *PanicError) Error() string { return "panic: " + p.Val }

// JSON renders v compactly for keys and samples.
func JSON(v any) string {
	b, err := json.Marshal(v)
	if err != nil {
		return fmt.Sprintf("%+v", v)
	}
	return string(b)
}

// LoadReplay reads a replay file's detail into out.
func LoadReplay(path string, out any) error {
	b, err := os.ReadFile(path)
	if err != nil {
		return err
	}
	var w struct {
		Detail json.RawMessage `json:"detail"`
	}
	if err := json.Unmarshal(b, &w); err != nil {
		return err
	}
	return json.Unmarshal(w.Detail, out)
}

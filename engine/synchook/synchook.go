// Package synchook is (a) a drop-in replacement for the parts of package sync that a source file
// rewritten by vcheck (`"sync"` -> `sync ".../zzverif/synchook"`) may use, and (b) a small cooperative
// scheduler that enumerates EVERY interleaving of a few threads at the lock operations of those
// rewritten files (stateless DFS over schedules, optional preemption bound).
//
// Outside an exploration the types behave exactly like their sync counterparts. Inside one
// (Explore running) exactly one thread runs at a time; Mutex/RWMutex operations are scheduling points:
// a thread yields BEFORE acquiring and AFTER releasing a lock, so code that reads shared state after
// releasing the lock that guards it is exposed deterministically.
package synchook

import (
	"fmt"
	"runtime"
	"strings"
	"sync"
	"sync/atomic"
)

type (
	Once      = sync.Once
	WaitGroup = sync.WaitGroup
	Pool      = sync.Pool
	Map       = sync.Map
	Locker    = sync.Locker
	Cond      = sync.Cond
)

func NewCond(l Locker) *Cond                                { return sync.NewCond(l) }
func OnceFunc(f func()) func()                              { return sync.OnceFunc(f) }
func OnceValue[T any](f func() T) func() T                  { return sync.OnceValue(f) }
func OnceValues[T1, T2 any](f func() (T1, T2)) func() (T1, T2) { return sync.OnceValues(f) }

var active atomic.Pointer[Exec]

// LockOps counts hooked lock operations seen inside explorations (evidence: 0 means the rewritten
// files contain no lock, so every thread body is one atomic block).
var LockOps atomic.Int64

// Mutex is sync.Mutex with scheduling points.
type Mutex struct {
	real sync.Mutex
	held bool
}

func (m *Mutex) Lock() {
	if x := active.Load(); x != nil {
		LockOps.Add(1)
		x.point("lock")
		for m.held {
			x.block(func() bool { return !m.held })
		}
		m.held = true
		return
	}
	m.real.Lock()
}

func (m *Mutex) TryLock() bool {
	if x := active.Load(); x != nil {
		LockOps.Add(1)
		x.point("trylock")
		if m.held {
			return false
		}
		m.held = true
		return true
	}
	return m.real.TryLock()
}

func (m *Mutex) Unlock() {
	if x := active.Load(); x != nil {
		LockOps.Add(1)
		if !m.held {
			panic("synchook: unlock of unlocked mutex")
		}
		m.held = false
		x.point("unlock")
		return
	}
	if m.held { // taken inside an exploration that has been torn down
		m.held = false
		return
	}
	m.real.Unlock()
}

// RWMutex is sync.RWMutex with scheduling points.
type RWMutex struct {
	real    sync.RWMutex
	writer  bool
	readers int
}

func (m *RWMutex) Lock() {
	if x := active.Load(); x != nil {
		LockOps.Add(1)
		x.point("lock")
		for m.writer || m.readers > 0 {
			x.block(func() bool { return !m.writer && m.readers == 0 })
		}
		m.writer = true
		return
	}
	m.real.Lock()
}

func (m *RWMutex) Unlock() {
	if x := active.Load(); x != nil {
		LockOps.Add(1)
		m.writer = false
		x.point("unlock")
		return
	}
	m.real.Unlock()
}

func (m *RWMutex) RLock() {
	if x := active.Load(); x != nil {
		LockOps.Add(1)
		x.point("rlock")
		for m.writer {
			x.block(func() bool { return !m.writer })
		}
		m.readers++
		return
	}
	m.real.RLock()
}

func (m *RWMutex) RUnlock() {
	if x := active.Load(); x != nil {
		LockOps.Add(1)
		m.readers--
		x.point("runlock")
		return
	}
	m.real.RUnlock()
}

type rlocker RWMutex

func (r *rlocker) Lock()   { (*RWMutex)(r).RLock() }
func (r *rlocker) Unlock() { (*RWMutex)(r).RUnlock() }

func (m *RWMutex) RLocker() Locker { return (*rlocker)(m) }

// ---- scheduler ----

type evKind uint8

const (
	evPoint evKind = iota
	evDone
	evPanic
)

type event struct {
	tid  int
	kind evKind
	msg  string
}

// Exec is one controlled execution.
type Exec struct {
	resume  []chan struct{}
	evt     chan event
	kill    chan struct{}
	running int
	waiting []func() bool // non-nil: thread is blocked until it returns true
	done    []bool
	Trace   []string
}

func (x *Exec) point(label string) {
	tid := x.running
	select {
	case x.evt <- event{tid: tid, kind: evPoint, msg: label}:
	case <-x.kill:
		runtime.Goexit()
	}
	select {
	case <-x.resume[tid]:
	case <-x.kill:
		runtime.Goexit()
	}
}

func (x *Exec) block(can func() bool) {
	x.waiting[x.running] = can
	x.point("blocked")
}

// Result of one execution.
type Result struct {
	Choices     []int   // index into the enabled list at every scheduling decision
	Enabled     [][]int // enabled thread ids at every decision (canonical order)
	Deadlock    bool
	Panic       string
	Preemptions int
	Trace       []string
}

// run executes bodies under the schedule prefix (then choice 0 everywhere).
func run(bodies []func(), prefix []int) (res Result, err error) {
	n := len(bodies)
	x := &Exec{resume: make([]chan struct{}, n), evt: make(chan event), kill: make(chan struct{}), waiting: make([]func() bool, n), done: make([]bool, n), running: -1}
	for i := range x.resume {
		x.resume[i] = make(chan struct{})
	}
	if !active.CompareAndSwap(nil, x) {
		return res, fmt.Errorf("synchook: an exploration is already running")
	}
	defer active.Store(nil)
	defer close(x.kill)
	for i := range bodies {
		go func(tid int) {
			select {
			case <-x.resume[tid]:
			case <-x.kill:
				return
			}
			defer func() {
				if r := recover(); r != nil {
					x.evt <- event{tid: tid, kind: evPanic, msg: fmt.Sprint(r)}
					return
				}
			}()
			bodies[tid]()
			x.evt <- event{tid: tid, kind: evDone}
		}(i)
	}
	last := -1
	for {
		var en []int
		lastEnabled := false
		for t := 0; t < n; t++ {
			if x.done[t] {
				continue
			}
			if w := x.waiting[t]; w != nil && !w() {
				continue
			}
			if t == last {
				lastEnabled = true
				continue
			}
			en = append(en, t)
		}
		if lastEnabled {
			en = append([]int{last}, en...)
		}
		if len(en) == 0 {
			for t := 0; t < n; t++ {
				if !x.done[t] {
					res.Deadlock = true
				}
			}
			res.Trace = x.Trace
			return res, nil
		}
		pos := len(res.Choices)
		ch := 0
		if pos < len(prefix) {
			ch = prefix[pos]
			if ch < 0 || ch >= len(en) {
				return res, fmt.Errorf("synchook: replay diverged at decision %d: choice %d of %v", pos, ch, en)
			}
		}
		if lastEnabled && ch != 0 {
			res.Preemptions++
		}
		res.Choices = append(res.Choices, ch)
		res.Enabled = append(res.Enabled, en)
		tid := en[ch]
		x.waiting[tid] = nil
		x.running = tid
		last = tid
		x.resume[tid] <- struct{}{}
		ev := <-x.evt
		switch ev.kind {
		case evPoint:
			x.Trace = append(x.Trace, fmt.Sprintf("t%d:%s", tid, ev.msg))
		case evDone:
			x.done[tid] = true
			x.Trace = append(x.Trace, fmt.Sprintf("t%d:done", tid))
		case evPanic:
			x.done[tid] = true
			res.Panic = ev.msg
			res.Trace = x.Trace
			return res, nil
		}
	}
}

// Stats of one exploration.
type Stats struct {
	Executions int64
	Decisions  int64
	Capped     bool
}

// Explore enumerates every schedule of the threads built by mk (called afresh for every execution;
// it returns the thread bodies and a check run after the execution). bound < 0: no preemption bound.
// onFail receives (schedule, trace, message) for every failing execution.
func Explore(mk func() (bodies []func(), check func(r Result) string), bound int, maxExec int64, onFail func(choices []int, trace []string, msg string)) (Stats, error) {
	var st Stats
	var rec func(prefix []int) error
	rec = func(prefix []int) error {
		if maxExec > 0 && st.Executions >= maxExec {
			st.Capped = true
			return nil
		}
		bodies, check := mk()
		r, err := run(bodies, prefix)
		if err != nil {
			return err
		}
		st.Executions++
		st.Decisions += int64(len(r.Choices))
		msg := ""
		switch {
		case r.Panic != "":
			msg = "panic: " + strings.SplitN(r.Panic, "\n", 2)[0]
		case r.Deadlock:
			msg = "deadlock"
		default:
			msg = check(r)
		}
		if msg != "" {
			onFail(append([]int(nil), r.Choices...), r.Trace, msg)
		}
		pre := 0
		for i := 0; i < len(r.Choices); i++ {
			runningFirst := false
			if i > 0 {
				prev := r.Enabled[i-1][r.Choices[i-1]]
				runningFirst = len(r.Enabled[i]) > 0 && r.Enabled[i][0] == prev
			}
			if i >= len(prefix) {
				for alt := 1; alt < len(r.Enabled[i]); alt++ {
					cost := pre
					if runningFirst {
						cost++
					}
					if bound >= 0 && cost > bound {
						continue
					}
					np := append(append([]int(nil), r.Choices[:i]...), alt)
					if err := rec(np); err != nil {
						return err
					}
				}
			}
			if runningFirst && r.Choices[i] != 0 {
				pre++
			}
		}
		return nil
	}
	err := rec(nil)
	return st, err
}

// Replay runs one schedule and returns its result.
func Replay(mk func() (bodies []func(), check func(r Result) string), choices []int) (Result, string, error) {
	bodies, check := mk()
	r, err := run(bodies, choices)
	if err != nil {
		return r, "", err
	}
	if r.Panic != "" {
		return r, "panic: " + r.Panic, nil
	}
	if r.Deadlock {
		return r, "deadlock", nil
	}
	return r, check(r), nil
}

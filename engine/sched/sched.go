// Package sched is a controlled cooperative scheduler plus a preemption-bounded depth-first search
// over schedules ("stateless model checking" of real code).
//
// Logical threads are goroutines. A thread runs until it reaches a hooked operation (any call
// into the shared medium, e.g. a casstore datastore call): the hook calls Exec.Yield, which parks
// the thread. When every live thread is parked (or finished) the scheduler releases exactly one,
// chosen from the enabled set in canonical order (the thread that ran last comes first if it is
// still enabled, then ascending ids; for each thread "no fault" first, then the fault variants).
// Only one logical thread ever runs between hooks, so the explored code sees no real concurrency.
//
// An execution is identified by its choice sequence. The search runs the empty prefix with default
// choices (index 0 = keep running the current thread, no fault), and for every step at or beyond
// the end of its prefix pushes one child prefix per alternative. Switching away from a thread that
// is still enabled costs one preemption; the search is complete for preemption bound 0, then 1,
// then 2 ... (work is bucketed by preemptions used, each execution is run once). Fault choices at
// write hooks — conflict, crash-before, crash-after — are additional alternatives limited by a
// per-execution fault budget. Re-running a prefix must reproduce the same enabled sets, labels and
// results (checked with a running fingerprint): a divergence is a hard tool error, never a verdict.
//
// A per-thread hook budget guards against livelock (retry loops spun by an adversarial schedule):
// executions that exceed it are counted as capped, never as passes. Optional state-key pruning
// cuts an execution when it reaches a global state (store contents + per-thread digest of the
// results it has observed + scheduler bookkeeping) that was already reached with no more
// preemptions used.
//
// Overlaid into the calico module as github.com/projectcalico/calico/zzverif/sched.
package sched

import (
	"context"
	"crypto/sha256"
	"fmt"
	"hash/fnv"
	"runtime"
	"runtime/debug"
	"sort"
	"strings"
	"sync"
	"sync/atomic"
	"time"

	"github.com/projectcalico/calico/zzverif/vclock"
	"github.com/projectcalico/calico/zzverif/vk"
)

// Fault is a fault variant chosen for a hooked write.
type Fault uint8

const (
	NoFault Fault = iota
	// FaultConflict: the environment rewrites the object first, so the thread's compare-and-swap
	// genuinely fails.
	FaultConflict
	// FaultCrashBefore: the thread is killed instead of performing the write.
	FaultCrashBefore
	// FaultCrashAfter: the write is applied, then the thread is killed before seeing the reply.
	FaultCrashAfter
	faultDie // internal: execution is being torn down
)

func (f Fault) String() string {
	switch f {
	case NoFault:
		return ""
	case FaultConflict:
		return "conflict"
	case FaultCrashBefore:
		return "crash-before"
	case FaultCrashAfter:
		return "crash-after"
	}
	return "die"
}

// Point describes the hooked operation a thread is parked at.
type Point struct {
	Label string
	Write bool
	// CanConflict is evaluated by the scheduler while every thread is parked; it says whether a
	// FaultConflict alternative makes sense for this operation right now. nil = never.
	CanConflict func() bool
}

// Thread is one logical thread of a scenario.
type Thread struct {
	Name string
	Run  func(ctx context.Context)
	// Clock is the thread's logical clock (nil: a fresh clock offset by 7µs × (id+1)).
	Clock *vclock.Clock
}

// Fail is one oracle failure; Key identifies the failing shape for known-finding matching.
type Fail struct {
	Key string
	Msg string
}

// Instance is a fresh world for one execution.
type Instance struct {
	Threads []Thread
	// Check is the oracle: called in every reachable state (whenever all live threads are parked,
	// i.e. after every hooked operation) and once more with final=true when every thread has
	// finished or been killed.
	Check func(x *Exec, final bool) []Fail
	// StateKey renders the shared state canonically (required for pruning and for the distinct
	// states count; may be nil).
	StateKey func() string
	// Outcome classifies a completed execution (may be nil).
	Outcome func(x *Exec) string
	// Close releases the world (may be nil).
	Close func()
}

// Scenario builds worlds.
type Scenario struct {
	Name string
	New  func(x *Exec) *Instance
}

// Options bound the search.
type Options struct {
	MaxPreempt int     // preemption bound (inclusive)
	MaxFaults  int     // fault budget per execution
	Faults     []Fault // fault kinds offered at write hooks
	HookBudget int     // per-thread number of hooked operations before the execution is capped (default 400)
	Workers    int     // parallel executions (default 4)
	Prune      bool    // state-key pruning
	// DetCheckEvery re-runs every n-th execution and requires an identical trace (0 = off).
	DetCheckEvery int
	// MaxExecutions stops the search early (0 = none); the run is then reported as capped.
	MaxExecutions int64
	// Budget is a wall-clock allowance for this exploration (0 = only the reporter's deadline);
	// running out of it stops the search and marks the run capped, never failed.
	Budget time.Duration
	Quiet  bool
}

// ---------------------------------------------------------------------------------------------

type tstate uint8

const (
	tsNew tstate = iota
	tsRunning
	tsParked
	tsDone
	tsDead
)

type thread struct {
	id       int
	name     string
	state    tstate
	point    Point
	grant    chan Fault
	hooks    int
	obs      uint64 // running digest of (label, fault, result) observed
	curFault Fault
	clock    *vclock.Clock
	panicVal string
	crashed  bool // killed by an injected crash (not by teardown)
}

type evKind uint8

const (
	evParked evKind = iota
	evDone
	evDead
	evToolError
)

type event struct {
	tid  int
	kind evKind
	msg  string
}

// Step is one scheduling step of an execution.
type Step struct {
	Thread int
	Name   string
	Label  string
	Fault  Fault
	Result uint64
}

func (s Step) String() string {
	f := ""
	if s.Fault != NoFault {
		f = " [" + s.Fault.String() + "]"
	}
	return fmt.Sprintf("%s: %s%s", s.Name, s.Label, f)
}

type opt struct {
	thread int
	fault  Fault
}

// Exec is one controlled execution.
type Exec struct {
	opts    *Options
	mu      sync.Mutex
	threads []*thread
	events  chan event
	trace   []Step
	fp      uint64
	// World is free for the scenario (set in Scenario.New).
	World any

	preUsed, faultsUsed int
	last                int
	conflicts, crashes  int
}

type tctxKey struct{}
type tctx struct {
	x   *Exec
	tid int
}

// FromContext returns the execution and logical thread id carried by ctx.
func FromContext(ctx context.Context) (*Exec, int, bool) {
	if ctx == nil {
		return nil, 0, false
	}
	tc, ok := ctx.Value(tctxKey{}).(*tctx)
	if !ok {
		return nil, 0, false
	}
	return tc.x, tc.tid, true
}

// Trace returns the steps executed so far.
func (x *Exec) Trace() []Step { return x.trace }

// Crashed reports whether thread tid was killed by an injected crash.
func (x *Exec) Crashed(tid int) bool { return x.threads[tid].crashed }

// Finished reports whether thread tid returned from its body.
func (x *Exec) Finished(tid int) bool {
	x.mu.Lock()
	defer x.mu.Unlock()
	return x.threads[tid].state == tsDone
}

// FaultsUsed is the number of faults injected so far in this execution.
func (x *Exec) FaultsUsed() int { return x.faultsUsed }

// ConflictsInjected is the number of conflict faults injected so far.
func (x *Exec) ConflictsInjected() int { return x.conflicts }

// Preemptions used so far.
func (x *Exec) Preemptions() int { return x.preUsed }

func mix(h uint64, parts ...string) uint64 {
	f := fnv.New64a()
	var b [8]byte
	for i := 0; i < 8; i++ {
		b[i] = byte(h >> (8 * i))
	}
	f.Write(b[:])
	for _, p := range parts {
		f.Write([]byte(p))
		f.Write([]byte{0})
	}
	return f.Sum64()
}

// Yield parks the calling logical thread at a hooked operation until the scheduler releases it and
// returns the fault chosen for the operation (NoFault, FaultConflict or FaultCrashAfter — for the
// latter the caller must apply the operation and then call Observe, which kills the thread).
// With FaultCrashBefore, or when the thread is already dead, Yield does not return
// (runtime.Goexit).
func (x *Exec) Yield(tid int, p Point) Fault {
	t := x.threads[tid]
	x.mu.Lock()
	switch t.state {
	case tsDead:
		x.mu.Unlock()
		runtime.Goexit()
	case tsRunning:
	default:
		x.mu.Unlock()
		x.events <- event{tid, evToolError, fmt.Sprintf("thread %s reached hook %q while in state %d: two goroutines of one logical thread run concurrently (release addresses of one block per call, or run with GOMAXPROCS=1)", t.name, p.Label, t.state)}
		runtime.Goexit()
	}
	t.state = tsParked
	t.point = p
	x.mu.Unlock()
	x.events <- event{tid: tid, kind: evParked}
	f := <-t.grant
	switch f {
	case faultDie:
		x.mu.Lock()
		t.state = tsDead
		x.mu.Unlock()
		runtime.Goexit()
	case FaultCrashBefore:
		x.mu.Lock()
		t.state = tsDead
		t.crashed = true
		x.mu.Unlock()
		x.events <- event{tid: tid, kind: evDead}
		runtime.Goexit()
	}
	t.curFault = f
	return f
}

// Observe records what the thread saw as the result of the operation it was released for. If the
// operation was released with FaultCrashAfter the thread is killed here (Observe does not return).
func (x *Exec) Observe(tid int, result string) {
	t := x.threads[tid]
	h := mix(0, result)
	if n := len(x.trace); n > 0 && x.trace[n-1].Thread == tid {
		x.trace[n-1].Result = h
	}
	t.obs = mix(t.obs, t.point.Label, t.curFault.String(), result)
	x.fp = mix(x.fp, "R", result)
	if t.curFault == FaultCrashAfter {
		x.mu.Lock()
		t.state = tsDead
		t.crashed = true
		x.mu.Unlock()
		x.events <- event{tid: tid, kind: evDead}
		runtime.Goexit()
	}
}

func (x *Exec) start(t *thread, body func(ctx context.Context)) {
	ctx := context.WithValue(context.Background(), tctxKey{}, &tctx{x, t.id})
	ctx = vclock.WithClock(ctx, t.clock)
	x.mu.Lock()
	t.state = tsRunning
	x.mu.Unlock()
	go func() {
		defer func() {
			r := recover()
			vclock.Unbind()
			x.mu.Lock()
			if t.state == tsDead {
				x.mu.Unlock()
				return
			}
			if r != nil {
				st := string(debug.Stack())
				if len(st) > 2500 {
					st = st[:2500]
				}
				t.panicVal = fmt.Sprintf("%v\n%s", r, st)
			}
			t.state = tsDone
			x.mu.Unlock()
			x.events <- event{tid: t.id, kind: evDone}
		}()
		vclock.Bind(t.clock)
		body(ctx)
	}()
}

var errWatchdog = fmt.Errorf("watchdog")

func (x *Exec) wait() (event, error) {
	select {
	case ev := <-x.events:
		return ev, nil
	case <-time.After(120 * time.Second):
		return event{}, errWatchdog
	}
}

// teardown kills every parked thread.
func (x *Exec) teardown() {
	x.mu.Lock()
	var parked []*thread
	for _, t := range x.threads {
		if t.state == tsParked {
			parked = append(parked, t)
		}
	}
	x.mu.Unlock()
	for _, t := range parked {
		t.grant <- faultDie
	}
	for _, t := range x.threads {
		t.clock.Release()
	}
}

// ---------------------------------------------------------------------------------------------

type item struct {
	prefix   []uint8
	pre, flt int
	expectFP uint64
}

type runResult struct {
	choices   []uint8
	optsAt    [][]opt // per step: canonical option list
	costP     [][]uint8
	preBefore []int
	fltBefore []int
	fpAt      []uint64
	trace     []Step
	fails     []Fail
	failStep  int
	capped    bool
	pruned    bool
	toolErr   string
	outcome   string
	finalKey  string
	conflicts int
	crashes   int
	pre       int
	steps     int
	traceFP   uint64
}

type explorer struct {
	sc   *Scenario
	o    Options
	c    Reporter
	mu   sync.Mutex
	seen map[[16]byte]uint8 // pruning: state -> min preemptions used
	dist map[[16]byte]struct{}

	execs, steps, capped, pruned, conflicts, crashes, detChecked int64
	maxDepth                                                    int64
	faultExecs, failExecs                                       int64
}

func sha16(s string) (k [16]byte) {
	h := sha256.Sum256([]byte(s))
	copy(k[:], h[:16])
	return
}

func hasFault(fs []Fault, f Fault) bool {
	for _, x := range fs {
		if x == f {
			return true
		}
	}
	return false
}

// options builds the canonical option list for the current parked set.
func (e *explorer) options(x *Exec) ([]opt, []uint8) {
	var order []int
	lastEnabled := false
	if x.last >= 0 && x.threads[x.last].state == tsParked {
		lastEnabled = true
		order = append(order, x.last)
	}
	for _, t := range x.threads {
		if t.state == tsParked && !(lastEnabled && t.id == x.last) {
			order = append(order, t.id)
		}
	}
	var os []opt
	var cp []uint8
	for _, tid := range order {
		t := x.threads[tid]
		c := uint8(0)
		if lastEnabled && tid != x.last {
			c = 1
		}
		os = append(os, opt{tid, NoFault})
		cp = append(cp, c)
		if t.point.Write && e.o.MaxFaults > 0 {
			if hasFault(e.o.Faults, FaultConflict) && t.point.CanConflict != nil && t.point.CanConflict() {
				os = append(os, opt{tid, FaultConflict})
				cp = append(cp, c)
			}
			if hasFault(e.o.Faults, FaultCrashBefore) {
				os = append(os, opt{tid, FaultCrashBefore})
				cp = append(cp, c)
			}
			if hasFault(e.o.Faults, FaultCrashAfter) {
				os = append(os, opt{tid, FaultCrashAfter})
				cp = append(cp, c)
			}
		}
	}
	return os, cp
}

func (e *explorer) stateKey(x *Exec, inst *Instance) string {
	var b strings.Builder
	if inst.StateKey != nil {
		b.WriteString(inst.StateKey())
	}
	for _, t := range x.threads {
		fmt.Fprintf(&b, "|%d:%d:%x", t.id, t.state, t.obs)
	}
	fmt.Fprintf(&b, "|L%d|F%d", x.last, x.faultsUsed)
	return b.String()
}

// runOne performs one execution: replay prefix, then default choices.
func (e *explorer) runOne(it item, prune bool) *runResult {
	r := &runResult{failStep: -1}
	x := &Exec{opts: &e.o, events: make(chan event, 16), last: -1}
	inst := e.sc.New(x)
	for i, th := range inst.Threads {
		clk := th.Clock
		if clk == nil {
			clk = vclock.New(time.Duration(i+1)*7*time.Microsecond, 0)
		}
		x.threads = append(x.threads, &thread{id: i, name: th.Name, grant: make(chan Fault), clock: clk})
	}
	defer func() {
		x.teardown()
		if inst.Close != nil {
			inst.Close()
		}
	}()
	handle := func(ev event, err error) bool {
		if err != nil {
			r.toolErr = fmt.Sprintf("%s: no thread reached a hook or finished within 120s (deadlock outside the hooked medium?) after %v", e.sc.Name, renderTrace(x.trace))
			return false
		}
		if ev.kind == evToolError {
			r.toolErr = ev.msg
			return false
		}
		return true
	}
	// launch threads one at a time, each runs to its first hook
	for i, th := range inst.Threads {
		x.start(x.threads[i], th.Run)
		if !handle(x.wait()) {
			return r
		}
	}
	check := func(final bool) bool {
		for _, t := range x.threads {
			if t.panicVal != "" {
				first := t.panicVal
				if j := strings.IndexByte(first, '\n'); j >= 0 {
					first = first[:j]
				}
				if len(first) > 120 {
					first = first[:120]
				}
				r.fails = append(r.fails, Fail{Key: e.sc.Name + ":panic:" + first, Msg: t.panicVal})
				t.panicVal = ""
			}
		}
		if inst.Check != nil {
			var fs []Fail
			if err := vk.Catch(func() error { fs = inst.Check(x, final); return nil }); err != nil {
				pe := err.(*vk.PanicError)
				r.toolErr = "oracle panicked: " + pe.Val + "\n" + pe.Stack
				return false
			}
			r.fails = append(r.fails, fs...)
		}
		if len(r.fails) > 0 {
			r.failStep = len(x.trace)
			return false
		}
		return true
	}
	note := func() {
		if inst.StateKey != nil {
			k := sha16(inst.StateKey())
			e.mu.Lock()
			e.dist[k] = struct{}{}
			e.mu.Unlock()
		}
	}
	if !check(false) {
		r.trace = x.trace
		return r
	}
	note()
	for step := 0; ; step++ {
		os, cp := e.options(x)
		if len(os) == 0 {
			break
		}
		// fingerprint of the enabled set
		var parts []string
		for _, t := range x.threads {
			if t.state == tsParked {
				parts = append(parts, fmt.Sprintf("%d", t.id), t.point.Label)
			}
		}
		parts = append(parts, fmt.Sprintf("n%d", len(os)))
		x.fp = mix(x.fp, parts...)
		choice := 0
		if step < len(it.prefix) {
			choice = int(it.prefix[step])
			if choice >= len(os) {
				r.toolErr = fmt.Sprintf("%s: replay diverged at step %d: choice %d of %d options; prefix %v; trace %v", e.sc.Name, step, choice, len(os), it.prefix, renderTrace(x.trace))
				return r
			}
			if step == len(it.prefix)-1 && it.expectFP != 0 && it.expectFP != x.fp {
				r.toolErr = fmt.Sprintf("%s: replay diverged at step %d (fingerprint mismatch): prefix %v; trace %v", e.sc.Name, step, it.prefix, renderTrace(x.trace))
				return r
			}
		}
		r.choices = append(r.choices, uint8(choice))
		r.optsAt = append(r.optsAt, os)
		r.costP = append(r.costP, cp)
		r.preBefore = append(r.preBefore, x.preUsed)
		r.fltBefore = append(r.fltBefore, x.faultsUsed)
		r.fpAt = append(r.fpAt, x.fp)
		o := os[choice]
		t := x.threads[o.thread]
		x.preUsed += int(cp[choice])
		if o.fault != NoFault {
			x.faultsUsed++
			if o.fault == FaultConflict {
				x.conflicts++
			} else {
				x.crashes++
			}
		}
		x.fp = mix(x.fp, fmt.Sprintf("c%d", choice))
		t.hooks++
		if t.hooks > e.o.HookBudget {
			r.capped = true
			break
		}
		x.trace = append(x.trace, Step{Thread: t.id, Name: t.name, Label: t.point.Label, Fault: o.fault})
		x.last = t.id
		x.mu.Lock()
		t.state = tsRunning
		x.mu.Unlock()
		t.grant <- o.fault
		if !handle(x.wait()) {
			r.trace = x.trace
			return r
		}
		if !check(false) {
			break
		}
		note()
		if prune && step >= len(it.prefix)-1 {
			k := sha16(e.stateKey(x, inst))
			e.mu.Lock()
			prev, ok := e.seen[k]
			if ok && int(prev) <= x.preUsed {
				e.mu.Unlock()
				r.pruned = true
				break
			}
			e.seen[k] = uint8(x.preUsed)
			e.mu.Unlock()
		}
	}
	r.trace = x.trace
	r.steps = len(x.trace)
	if len(r.choices) < len(it.prefix) && r.failStep < 0 && !r.capped && r.toolErr == "" {
		r.toolErr = fmt.Sprintf("%s: replay diverged: execution ended after %d steps but the recorded prefix has %d; prefix %v; trace %v", e.sc.Name, len(r.choices), len(it.prefix), it.prefix, renderTrace(x.trace))
		return r
	}
	r.conflicts, r.crashes, r.pre = x.conflicts, x.crashes, x.preUsed
	r.traceFP = x.fp
	if r.failStep < 0 && !r.capped && !r.pruned && r.toolErr == "" {
		if check(true) {
			if inst.Outcome != nil {
				r.outcome = inst.Outcome(x)
			}
		}
		if inst.StateKey != nil {
			r.finalKey = inst.StateKey()
			r.traceFP = mix(r.traceFP, r.finalKey)
		}
	}
	return r
}

func renderTrace(tr []Step) []string {
	out := make([]string, len(tr))
	for i, s := range tr {
		out[i] = s.String()
	}
	return out
}

// Stats summarises an exploration.
type Stats struct {
	Executions      int64
	PerBound        []int64 // executions with exactly b preemptions
	BoundsCompleted int     // highest preemption bound fully explored (-1: none)
	Steps           int64   // hooked operations executed (incl. prefix replays)
	Capped          int64
	Pruned          int64
	Conflicts       int64
	Crashes         int64
	FaultExecs      int64
	DistinctStates  int64
	MaxDepth        int64
	Complete        bool
	Violations      int
}

// Violation detail written to replay files.
type Detail struct {
	Scenario string   `json:"scenario"`
	Choices  []int    `json:"choices"`
	Trace    []string `json:"trace"`
	Msg      string   `json:"msg"`
	Preempt  int      `json:"preemptions"`
	Faults   int      `json:"faults"`
}

func toInts(b []uint8) []int {
	out := make([]int, len(b))
	for i, v := range b {
		out[i] = int(v)
	}
	return out
}

func failKeys(fs []Fail) string {
	ks := make([]string, len(fs))
	for i, f := range fs {
		ks[i] = f.Key
	}
	sort.Strings(ks)
	return strings.Join(ks, ",")
}

// Reporter is the part of *vk.Ctx the explorer uses (so that self-tests can run without one).
type Reporter interface {
	Expired() bool
	Capped(string)
	ToolError(string)
	Violation(string, any)
	Outcome(string)
	Nontrivial(string)
	Add(string, int64)
	Max(string, int64)
	Extra(string, any)
}

var _ Reporter = (*vk.Ctx)(nil)

// Explore runs the bounded search and records counters/violations into c.
func Explore(c Reporter, sc *Scenario, o Options) Stats {
	if o.HookBudget <= 0 {
		o.HookBudget = 400
	}
	if o.Workers <= 0 {
		o.Workers = 4
	}
	e := &explorer{sc: sc, o: o, c: c, seen: map[[16]byte]uint8{}, dist: map[[16]byte]struct{}{}}
	st := Stats{PerBound: make([]int64, o.MaxPreempt+1), BoundsCompleted: -1, Complete: true}
	buckets := make([][]item, o.MaxPreempt+1)
	buckets[0] = []item{{}}
	reported := map[string]bool{}
	var stop atomic.Bool
	var toolErr atomic.Bool
	t0 := time.Now()
	for b := 0; b <= o.MaxPreempt && !stop.Load(); b++ {
		var mu sync.Mutex
		cond := sync.NewCond(&mu)
		inflight := 0
		var wg sync.WaitGroup
		for w := 0; w < o.Workers; w++ {
			wg.Add(1)
			go func() {
				defer wg.Done()
				for {
					mu.Lock()
					for len(buckets[b]) == 0 && inflight > 0 && !stop.Load() {
						cond.Wait()
					}
					if stop.Load() || len(buckets[b]) == 0 {
						mu.Unlock()
						cond.Broadcast()
						return
					}
					n := len(buckets[b])
					it := buckets[b][n-1]
					buckets[b] = buckets[b][:n-1]
					inflight++
					mu.Unlock()

					if c.Expired() || (o.Budget > 0 && time.Since(t0) > o.Budget) {
						stop.Store(true)
						c.Capped(fmt.Sprintf("%s: deadline during preemption bound %d (bound %d complete)", sc.Name, b, b-1))
						mu.Lock()
						inflight--
						mu.Unlock()
						cond.Broadcast()
						return
					}
					r := e.runOne(it, o.Prune)
					n64 := atomic.AddInt64(&e.execs, 1)
					atomic.AddInt64(&e.steps, int64(len(r.trace)))
					if r.toolErr != "" {
						c.ToolError(r.toolErr)
						toolErr.Store(true)
						stop.Store(true)
					}
					if o.DetCheckEvery > 0 && n64%int64(o.DetCheckEvery) == 0 && r.toolErr == "" && !r.pruned {
						r2 := e.runOne(item{prefix: r.choices, pre: it.pre, flt: it.flt}, false)
						atomic.AddInt64(&e.detChecked, 1)
						if r2.traceFP != r.traceFP || failKeys(r2.fails) != failKeys(r.fails) {
							c.ToolError(fmt.Sprintf("%s: non-deterministic execution: choices %v gave different traces on re-run:\n%v\n%v", sc.Name, r.choices, renderTrace(r.trace), renderTrace(r2.trace)))
							stop.Store(true)
						}
					}
					var kids [][]item
					if r.toolErr == "" {
						kids = make([][]item, o.MaxPreempt+1)
						for i := len(it.prefix); i < len(r.choices); i++ {
							for j := 1; j < len(r.optsAt[i]); j++ {
								p := r.preBefore[i] + int(r.costP[i][j])
								f := r.fltBefore[i]
								if r.optsAt[i][j].fault != NoFault {
									f++
								}
								if p > o.MaxPreempt || f > o.MaxFaults {
									continue
								}
								pf := make([]uint8, i+1)
								copy(pf, r.choices[:i])
								pf[i] = uint8(j)
								kids[p] = append(kids[p], item{prefix: pf, pre: p, flt: f, expectFP: r.fpAt[i]})
							}
						}
					}
					mu.Lock()
					if r.pre <= o.MaxPreempt {
						st.PerBound[r.pre]++
					}
					if r.capped {
						e.capped++
					}
					if r.pruned {
						e.pruned++
					}
					e.conflicts += int64(r.conflicts)
					e.crashes += int64(r.crashes)
					if r.conflicts+r.crashes > 0 {
						e.faultExecs++
					}
					if int64(r.steps) > e.maxDepth {
						e.maxDepth = int64(r.steps)
					}
					if r.outcome != "" {
						c.Outcome(r.outcome)
					}
					if r.conflicts+r.crashes > 0 || r.pre > 0 {
						c.Nontrivial(fmt.Sprint(r.choices))
					}
					var newFails []Fail
					for _, f := range r.fails {
						if !reported[f.Key] {
							reported[f.Key] = true
							newFails = append(newFails, f)
						}
						e.failExecs++
					}
					for p := range kids {
						// reverse so that the canonical-first alternative is popped first
						for k := len(kids[p]) - 1; k >= 0; k-- {
							buckets[p] = append(buckets[p], kids[p][k])
						}
					}
					inflight--
					if o.MaxExecutions > 0 && e.execs >= o.MaxExecutions && !stop.Load() {
						stop.Store(true)
						c.Capped(fmt.Sprintf("%s: execution cap %d reached during preemption bound %d", sc.Name, o.MaxExecutions, b))
					}
					mu.Unlock()
					cond.Broadcast()
					// confirm new violations by re-running 5 times
					for _, f := range newFails {
						okAll := true
						for k := 0; k < 5; k++ {
							r2 := e.runOne(item{prefix: r.choices}, false)
							found := false
							for _, f2 := range r2.fails {
								if f2.Key == f.Key {
									found = true
								}
							}
							if !found {
								okAll = false
								break
							}
						}
						if !okAll {
							c.ToolError(fmt.Sprintf("%s: violation %q did not reproduce on re-run of choices %v", sc.Name, f.Key, r.choices))
							continue
						}
						c.Violation(f.Key, Detail{Scenario: sc.Name, Choices: toInts(r.choices), Trace: renderTrace(r.trace), Msg: f.Msg, Preempt: r.pre, Faults: r.conflicts + r.crashes})
						st.Violations++
					}
				}
			}()
		}
		wg.Wait()
		if !stop.Load() {
			st.BoundsCompleted = b
		}
		if !o.Quiet {
			var cum int64
			for i := 0; i <= b; i++ {
				cum += st.PerBound[i]
			}
			fmt.Printf("sched %-26s preemption-bound=%d schedules(exactly %d)=%d cumulative=%d faults<=%d conflicts=%d crashes=%d capped=%d pruned=%d complete=%v\n",
				sc.Name, b, b, st.PerBound[b], cum, o.MaxFaults, e.conflicts, e.crashes, e.capped, e.pruned, !stop.Load())
		}
	}
	st.Executions = e.execs
	st.Steps = e.steps
	st.Capped, st.Pruned, st.Conflicts, st.Crashes, st.FaultExecs = e.capped, e.pruned, e.conflicts, e.crashes, e.faultExecs
	st.DistinctStates = int64(len(e.dist))
	st.MaxDepth = e.maxDepth
	st.Complete = !stop.Load()
	if e.capped > 0 {
		c.Capped(fmt.Sprintf("%s: %d executions exceeded the per-thread hook budget %d (livelock guard); they are not counted as passes", sc.Name, e.capped, o.HookBudget))
	}
	if st.DistinctStates > 0 {
		c.Add("states", st.DistinctStates)
	} else {
		c.Add("states", st.Executions)
	}
	c.Add("transitions", st.Steps)
	c.Add("schedules", st.Executions)
	c.Add("conflicts_injected", st.Conflicts)
	c.Add("crashes_injected", st.Crashes)
	c.Add("executions_with_faults", st.FaultExecs)
	c.Add("determinism_rechecks", e.detChecked)
	c.Max("max_depth", st.MaxDepth)
	c.Extra("sched:"+sc.Name, map[string]any{
		"threads_bound_preemptions": o.MaxPreempt, "fault_budget": o.MaxFaults, "schedules_per_exact_preemptions": st.PerBound,
		"bounds_completed": st.BoundsCompleted, "executions": st.Executions, "hooked_ops": st.Steps, "capped": st.Capped,
		"pruned": st.Pruned, "conflicts": st.Conflicts, "crashes": st.Crashes, "distinct_store_states": st.DistinctStates,
		"max_depth": st.MaxDepth, "complete": st.Complete, "determinism_rechecks": e.detChecked, "prune": o.Prune, "failing_executions": e.failExecs,
	})
	return st
}

// Replay re-executes one recorded choice sequence and returns its trace and oracle failures.
func Replay(sc *Scenario, o Options, choices []int) (trace []string, fails []Fail, err error) {
	if o.HookBudget <= 0 {
		o.HookBudget = 400
	}
	e := &explorer{sc: sc, o: o, seen: map[[16]byte]uint8{}, dist: map[[16]byte]struct{}{}}
	pf := make([]uint8, len(choices))
	for i, v := range choices {
		pf[i] = uint8(v)
	}
	r := e.runOne(item{prefix: pf}, false)
	if r.toolErr != "" {
		return renderTrace(r.trace), nil, fmt.Errorf("%s", r.toolErr)
	}
	return renderTrace(r.trace), r.fails, nil
}

// RunDefault executes the scenario once with default choices (no preemption, no fault) and returns
// the trace: handy for sanity checks and samples.
func RunDefault(sc *Scenario, o Options) ([]string, []Fail, error) { return Replay(sc, o, nil) }

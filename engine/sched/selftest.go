package sched

import (
	"context"
	"fmt"
	"sync"
)

// toy shared medium for the self-test: one integer cell with a version, every access hooked.
type toyCell struct {
	mu       sync.Mutex
	val, ver int
}

func (c *toyCell) hook(ctx context.Context, label string, write bool, canConflict func() bool) Fault {
	x, tid, ok := FromContext(ctx)
	if !ok {
		return NoFault
	}
	return x.Yield(tid, Point{Label: label, Write: write, CanConflict: canConflict})
}

func (c *toyCell) observe(ctx context.Context, res string) {
	if x, tid, ok := FromContext(ctx); ok {
		x.Observe(tid, res)
	}
}

func (c *toyCell) get(ctx context.Context) (int, int) {
	c.hook(ctx, "get", false, nil)
	c.mu.Lock()
	v, r := c.val, c.ver
	c.mu.Unlock()
	c.observe(ctx, fmt.Sprintf("%d@%d", v, r))
	return v, r
}

// put writes unconditionally when ver<0, else compare-and-swap on the version.
func (c *toyCell) put(ctx context.Context, v, ver int) bool {
	f := c.hook(ctx, fmt.Sprintf("put %d @%d", v, ver), true, func() bool {
		c.mu.Lock()
		defer c.mu.Unlock()
		return ver >= 0 && ver == c.ver
	})
	c.mu.Lock()
	if f == FaultConflict {
		c.ver++
	}
	ok := ver < 0 || ver == c.ver
	if ok {
		c.val = v
		c.ver++
	}
	c.mu.Unlock()
	c.observe(ctx, fmt.Sprint(ok))
	return ok
}

type stubReporter struct {
	mu    sync.Mutex
	viol  map[string]any
	terr  []string
	caps  []string
	count map[string]int64
}

func (s *stubReporter) Expired() bool { return false }
func (s *stubReporter) Capped(w string) {
	s.mu.Lock()
	s.caps = append(s.caps, w)
	s.mu.Unlock()
}
func (s *stubReporter) ToolError(m string) {
	s.mu.Lock()
	s.terr = append(s.terr, m)
	s.mu.Unlock()
}
func (s *stubReporter) Violation(k string, d any) {
	s.mu.Lock()
	if _, ok := s.viol[k]; !ok {
		s.viol[k] = d
	}
	s.mu.Unlock()
}
func (s *stubReporter) Outcome(string)    {}
func (s *stubReporter) Nontrivial(string) {}
func (s *stubReporter) Add(k string, n int64) {
	s.mu.Lock()
	s.count[k] += n
	s.mu.Unlock()
}
func (s *stubReporter) Max(string, int64) {}
func (s *stubReporter) Extra(string, any) {}

func toyScenario(name string, cas bool, nthreads int) *Scenario {
	return &Scenario{Name: name, New: func(x *Exec) *Instance {
		cell := &toyCell{}
		done := make([]bool, nthreads)
		inst := &Instance{}
		for i := 0; i < nthreads; i++ {
			i := i
			inst.Threads = append(inst.Threads, Thread{Name: fmt.Sprintf("t%d", i), Run: func(ctx context.Context) {
				for try := 0; try < 50; try++ {
					v, ver := cell.get(ctx)
					if !cas {
						ver = -1
					}
					if cell.put(ctx, v+1, ver) {
						done[i] = true
						return
					}
				}
			}})
		}
		inst.StateKey = func() string { return fmt.Sprintf("%d@%d", cell.val, cell.ver) }
		inst.Check = func(x *Exec, final bool) []Fail {
			if !final {
				return nil
			}
			want := 0
			for i := range done {
				// a thread killed after its write took effect has incremented too
				if done[i] || lastFaultApplied(x, i) {
					want++
				}
			}
			if cell.val != want {
				return []Fail{{Key: name + ":lost-update", Msg: fmt.Sprintf("counter=%d after %d successful increments", cell.val, want)}}
			}
			return nil
		}
		return inst
	}}
}

// lastFaultApplied: thread i's last step was a write released with crash-after.
func lastFaultApplied(x *Exec, tid int) bool {
	tr := x.Trace()
	for k := len(tr) - 1; k >= 0; k-- {
		if tr[k].Thread == tid {
			return tr[k].Fault == FaultCrashAfter && tr[k].Result != mix(0, "false")
		}
	}
	return false
}

// SelfTest checks the scheduler on a seeded lost-update toy: the unsynchronised read-modify-write
// must pass at preemption bound 0, fail at bound 1 with a replayable schedule, every execution must
// be identical under double replay, and the compare-and-swap variant must pass at bound 2 with
// conflict and crash faults injected. It returns a one-line summary.
func SelfTest() (string, error) {
	// 1. bound 0: no violation
	r0 := &stubReporter{viol: map[string]any{}, count: map[string]int64{}}
	s0 := Explore(r0, toyScenario("toy-racy", false, 2), Options{MaxPreempt: 0, Workers: 2, DetCheckEvery: 1, Quiet: true})
	if len(r0.terr) > 0 {
		return "", fmt.Errorf("sched self-test: tool error at bound 0: %v", r0.terr)
	}
	if len(r0.viol) != 0 || s0.Executions != 2 {
		return "", fmt.Errorf("sched self-test: bound 0 expected 2 executions and no violation, got %d executions, violations %v", s0.Executions, r0.viol)
	}
	// 2. bound 1: lost update found, deterministic
	r1 := &stubReporter{viol: map[string]any{}, count: map[string]int64{}}
	s1 := Explore(r1, toyScenario("toy-racy", false, 2), Options{MaxPreempt: 1, Workers: 2, DetCheckEvery: 1, Quiet: true})
	if len(r1.terr) > 0 {
		return "", fmt.Errorf("sched self-test: tool error at bound 1: %v", r1.terr)
	}
	d, ok := r1.viol["toy-racy:lost-update"].(Detail)
	if !ok {
		return "", fmt.Errorf("sched self-test: seeded lost update NOT found at preemption bound 1 (%d executions)", s1.Executions)
	}
	if d.Preempt != 1 {
		return "", fmt.Errorf("sched self-test: lost update reported with %d preemptions, want 1", d.Preempt)
	}
	// replay the recorded schedule twice: identical trace, same failure
	var first []string
	for k := 0; k < 2; k++ {
		tr, fails, err := Replay(toyScenario("toy-racy", false, 2), Options{MaxPreempt: 1}, d.Choices)
		if err != nil {
			return "", fmt.Errorf("sched self-test: replay error: %v", err)
		}
		if len(fails) != 1 || fails[0].Key != "toy-racy:lost-update" {
			return "", fmt.Errorf("sched self-test: replay %d did not reproduce the lost update: %v", k, fails)
		}
		if k == 0 {
			first = tr
		} else if fmt.Sprint(first) != fmt.Sprint(tr) {
			return "", fmt.Errorf("sched self-test: replays differ:\n%v\n%v", first, tr)
		}
	}
	// a diverging prefix must be a tool error
	for _, impossible := range [][]int{{0, 0, 0, 0, 7}, {0, 7}} {
		if _, _, err := Replay(toyScenario("toy-racy", false, 2), Options{MaxPreempt: 1}, impossible); err == nil {
			return "", fmt.Errorf("sched self-test: the impossible choice sequence %v was not rejected", impossible)
		}
	}
	// 3. CAS variant, 3 threads, bound 2, faults: must pass, with faults really injected
	r2 := &stubReporter{viol: map[string]any{}, count: map[string]int64{}}
	s2 := Explore(r2, toyScenario("toy-cas", true, 3), Options{MaxPreempt: 2, MaxFaults: 1, Faults: []Fault{FaultConflict, FaultCrashBefore, FaultCrashAfter}, Workers: 4, DetCheckEvery: 3, Quiet: true})
	if len(r2.terr) > 0 {
		return "", fmt.Errorf("sched self-test: tool error on CAS toy: %v", r2.terr)
	}
	if len(r2.viol) != 0 {
		return "", fmt.Errorf("sched self-test: false alarm on the CAS toy: %v", r2.viol)
	}
	if s2.Conflicts == 0 || s2.Crashes == 0 || s2.BoundsCompleted != 2 {
		return "", fmt.Errorf("sched self-test: CAS toy explored without faults or incompletely: %+v", s2)
	}
	// 4. pruning must not lose the bug
	r3 := &stubReporter{viol: map[string]any{}, count: map[string]int64{}}
	s3 := Explore(r3, toyScenario("toy-racy", false, 3), Options{MaxPreempt: 2, Workers: 1, Prune: true, Quiet: true})
	if _, ok := r3.viol["toy-racy:lost-update"]; !ok || len(r3.terr) > 0 {
		return "", fmt.Errorf("sched self-test: pruned search lost the seeded bug (%v)", r3.terr)
	}
	return fmt.Sprintf("sched self-test ok: racy toy bound0=%d schedules clean, bound1 finds lost update (schedule %v, %d schedules), replay x2 identical; CAS toy 3 threads bound 2: %d schedules, %d conflicts, %d crashes injected, clean; pruned search %d schedules (%d pruned) still finds the bug",
		s0.Executions, d.Choices, s1.Executions, s2.Executions, s2.Conflicts, s2.Crashes, s3.Executions, s3.Pruned), nil
}

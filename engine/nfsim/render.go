package nfsim

import (
	"context"
	"fmt"
	"sort"
	"time"

	"github.com/projectcalico/calico/felix/environment"
	"github.com/projectcalico/calico/felix/generictables"
	"github.com/projectcalico/calico/felix/iptables"
	"github.com/projectcalico/calico/felix/nftables"
)

// DefaultFeatures is what the renderers are given.
var DefaultFeatures = &environment.Features{NFLogSize: true, SNATFullyRandom: true, MASQFullyRandom: true}

// Builder collects chains exactly as Felix's table layer would receive them and turns them into a
// Ruleset by running the REAL text renderers:
//
//	iptables: iptables.NewIptablesRenderer("cali:").RenderAppend(&rule, chain, "", features)
//	nftables: chains (and verdict maps) go through the real nftables.NewTableLayer(layer, recorder), which
//	          namespaces chain names, jump/goto targets, vmap names and map elements, then
//	          nftables.NewNFTRenderer("cali:", ipv).Render(chain, "", rule, features).Rule
type Builder struct {
	Kind  Kind
	IPV   uint8
	Layer string // nft layer ("filter", "raw", "mangle"); ignored for iptables
	// Lenient is copied to Ruleset.Lenient.
	Lenient bool
	rec     *recorder
	table   generictables.Table
	maps    nftables.MapsDataplane
}

// NewBuilder creates a builder for one table (iptables) or one layer of the nft table.
func NewBuilder(kind Kind, ipv uint8, layer string) *Builder {
	b := &Builder{Kind: kind, IPV: ipv, Layer: layer, rec: &recorder{ipv: ipv, chains: map[string]*generictables.Chain{}, maps: map[string]map[string][]string{}}}
	if kind == Nft {
		tl := nftables.NewTableLayer(layer, b.rec)
		b.table = tl
		b.maps = tl.(nftables.MapsDataplane)
	} else {
		b.table = b.rec
	}
	return b
}

// Table is the generictables.Table to hand chains to (UpdateChain / UpdateChains).
func (b *Builder) Table() generictables.Table { return b.table }

// Maps is the verdict-map dataplane (nft only; nil for iptables).
func (b *Builder) Maps() nftables.MapsDataplane { return b.maps }

// ChainName maps a Felix chain name to the name it has in the resulting Ruleset.
func (b *Builder) ChainName(name string) string {
	if b.Kind == Nft {
		return b.Layer + "-" + name
	}
	return name
}

// Lines returns the rendered text, "chain: rule" per line (for replay files / eyeballing), sorted by chain.
func (b *Builder) Lines() []string {
	var out []string
	names := make([]string, 0, len(b.rec.chains))
	for n := range b.rec.chains {
		names = append(names, n)
	}
	sort.Strings(names)
	for _, n := range names {
		c := b.rec.chains[n]
		for i := range c.Rules {
			out = append(out, b.renderRule(c, i))
		}
	}
	mnames := make([]string, 0, len(b.rec.maps))
	for n := range b.rec.maps {
		mnames = append(mnames, n)
	}
	sort.Strings(mnames)
	for _, n := range mnames {
		keys := make([]string, 0, len(b.rec.maps[n]))
		for k := range b.rec.maps[n] {
			keys = append(keys, k)
		}
		sort.Strings(keys)
		for _, k := range keys {
			out = append(out, fmt.Sprintf("map %s: %s : %v", n, k, b.rec.maps[n][k]))
		}
	}
	return out
}

func (b *Builder) renderRule(c *generictables.Chain, i int) string {
	if b.Kind == Nft {
		r := nftables.NewNFTRenderer("cali:", b.IPV).Render(c.Name, "", c.Rules[i], DefaultFeatures)
		return r.Chain + ": " + r.Rule
	}
	return iptables.NewIptablesRenderer("cali:").RenderAppend(&c.Rules[i], c.Name, "", DefaultFeatures)
}

// Ruleset renders everything recorded so far and parses it.
func (b *Builder) Ruleset() (*Ruleset, error) {
	rs := New(b.Kind)
	rs.Family = int(b.IPV)
	rs.Lenient = b.Lenient
	names := make([]string, 0, len(b.rec.chains))
	for n := range b.rec.chains {
		names = append(names, n)
	}
	sort.Strings(names)
	if b.Kind == Nft {
		rend := nftables.NewNFTRenderer("cali:", b.IPV)
		for _, n := range names {
			c := b.rec.chains[n]
			rs.EnsureChain(c.Name)
			for i := range c.Rules {
				kr := rend.Render(c.Name, "", c.Rules[i], DefaultFeatures)
				if err := rs.AddNftRule(kr.Chain, kr.Rule); err != nil {
					return nil, err
				}
			}
		}
		for n, m := range b.rec.maps {
			if err := rs.AddNftMap(n, m); err != nil {
				return nil, err
			}
		}
		return rs, nil
	}
	rend := iptables.NewIptablesRenderer("cali:")
	for _, n := range names {
		c := b.rec.chains[n]
		rs.EnsureChain(c.Name)
		for i := range c.Rules {
			if err := rs.AddIptablesLine(rend.RenderAppend(&c.Rules[i], c.Name, "", DefaultFeatures)); err != nil {
				return nil, err
			}
		}
	}
	return rs, nil
}

// recorder is the bottom generictables.Table + nftables.MapsDataplane: it just remembers what it is given.
type recorder struct {
	ipv    uint8
	chains map[string]*generictables.Chain
	maps   map[string]map[string][]string
}

var _ generictables.Table = (*recorder)(nil)
var _ nftables.MapsDataplane = (*recorder)(nil)

func (r *recorder) Name() string     { return "recorder" }
func (r *recorder) IPVersion() uint8 { return r.ipv }
func (r *recorder) InsertOrAppendRules(chainName string, rules []generictables.Rule) {
	c := r.chains[chainName]
	if c == nil {
		c = &generictables.Chain{Name: chainName}
		r.chains[chainName] = c
	}
	c.Rules = append(append([]generictables.Rule{}, rules...), c.Rules...)
}
func (r *recorder) AppendRules(chainName string, rules []generictables.Rule) {
	c := r.chains[chainName]
	if c == nil {
		c = &generictables.Chain{Name: chainName}
		r.chains[chainName] = c
	}
	c.Rules = append(c.Rules, rules...)
}
func (r *recorder) UpdateChain(chain *generictables.Chain) {
	cp := *chain
	cp.Rules = append([]generictables.Rule{}, chain.Rules...)
	r.chains[chain.Name] = &cp
}
func (r *recorder) UpdateChains(cs []*generictables.Chain) {
	for _, c := range cs {
		r.UpdateChain(c)
	}
}
func (r *recorder) RemoveChains(cs []*generictables.Chain) {
	for _, c := range cs {
		delete(r.chains, c.Name)
	}
}
func (r *recorder) RemoveChainByName(name string)          { delete(r.chains, name) }
func (r *recorder) InvalidateDataplaneCache(reason string) {}
func (r *recorder) Apply() time.Duration                   { return 0 }
func (r *recorder) InsertRulesNow(chainName string, rules []generictables.Rule) error {
	r.InsertOrAppendRules(chainName, rules)
	return nil
}
func (r *recorder) CheckRulesPresent(chain string, rules []generictables.Rule) []generictables.Rule {
	return nil
}
func (r *recorder) AddOrReplaceMap(meta nftables.MapMetadata, members map[string][]string) {
	m := map[string][]string{}
	for k, v := range members {
		m[k] = append([]string{}, v...)
	}
	r.maps[meta.Name] = m
}
func (r *recorder) RemoveMap(id string)                                          { delete(r.maps, id) }
func (r *recorder) MapUpdates() *nftables.MapUpdates                             { return nil }
func (r *recorder) FinishMapUpdates(updates *nftables.MapUpdates)                {}
func (r *recorder) LoadDataplaneState(ctx context.Context, names []string) error { return nil }
func (r *recorder) InvalidateMapsCache()                                         {}

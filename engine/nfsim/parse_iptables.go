package nfsim

import (
	"strconv"
	"strings"
)

// Supported iptables vocabulary (everything felix/iptables/match_builder.go emits, plus the targets of
// felix/iptables/actions.go except NAT/DSCP/connlimit):
//
//	matches:  -m comment --comment S | -m mark [!] --mark V[/M] | [!] -p|--protocol P |
//	          [!] -s|--source N | [!] -d|--destination N | [!] -i|--in-interface I | [!] -o|--out-interface I |
//	          -m set [!] --match-set NAME src|dst|src,src|dst,dst |
//	          -m multiport [!] --source-ports|--sports|--destination-ports|--dports LIST |
//	          [!] --sport P | [!] --dport P (after -p tcp|udp|sctp|udplite) |
//	          -m conntrack [!] --ctstate L | [!] --ctstatus L |
//	          -m addrtype [!] --src-type T | [!] --dst-type T | --limit-iface-in | --limit-iface-out |
//	          -m icmp [!] --icmp-type T[/C] | -m icmp6 [!] --icmpv6-type T[/C] |
//	          -m rpfilter [--invert] [--validmark] | -m ipvs [!] --ipvs | -m limit --limit R [--limit-burst N]
//	targets:  -j|--jump ACCEPT|DROP|RETURN|NOTRACK|<chain> | -g|--goto <chain> |
//	          REJECT [--reject-with T] | MARK --set-mark|--set-xmark V[/M] | --and-mark|--or-mark|--xor-mark V |
//	          NFLOG --nflog-group N --nflog-prefix S [--nflog-size|--nflog-range|--nflog-threshold N] |
//	          LOG --log-prefix S --log-level L | CONNMARK --save-mark|--restore-mark [--mask M] | --set-mark V[/M]
//
// Load errors asserted (each probed with `iptables-restore --test`, iptables v1.8.9):
//
//	multiple-p-flags      "-p tcp ! -p udp"          -> "multiple -p flags not allowed"
//	multiple-s-flags / multiple-d-flags / multiple-i-flags / multiple-o-flags likewise
//	multiport-too-many    more than 15 port slots (a range uses 2)   -> "too many ports specified"
//	multiport-needs-proto --sports/--dports before -p tcp|udp|udplite|sctp|dccp -> "multiport needs `-p tcp', ..."
//	port-needs-proto      --dport/--sport without such a -p
//	icmp-match-needs-icmp-proto   "-m icmp --icmp-type" in a rule without a positive "-p icmp" ("-m icmp6" / "-p icmpv6"):
//	                      passes --test but the real load fails in the kernel (probed in a private netns, Linux 6.18,
//	                      nf_tables backend: "RULE_APPEND failed (Invalid argument)"; x_tables has the same check)
func parseIptables(line string, t []tok) (*rule, error) {
	r := &rule{text: line}
	vocab := func(tk, why string) error { return &VocabError{Kind: Iptables, Rule: line, Token: tk, Why: why} }
	load := func(class, why string) error { return &LoadError{Kind: Iptables, Class: class, Rule: line, Why: why} }

	loaded := map[string]bool{}
	seen := map[string]bool{}
	proto, protoNeg, protoSet := 0, false, false
	portProto := func() bool {
		return protoSet && !protoNeg && (HasPorts(proto) || proto == 33 /* dccp */)
	}
	neg := false
	takeNeg := func() bool { n := neg; neg = false; return n }
	i := 0
	arg := func(flag string) (string, error) {
		if i >= len(t) {
			return "", vocab(flag, "missing argument")
		}
		s := t[i].s
		i++
		return s, nil
	}
	need := func(flag, mod string) error {
		if !loaded[mod] {
			return vocab(flag, "option used without -m "+mod)
		}
		return nil
	}
	once := func(flag, class string) error {
		if seen[class] {
			return load("multiple-"+class+"-flags", "multiple -"+class+" flags not allowed")
		}
		seen[class] = true
		return nil
	}
	add := func(m matchFn) { r.matches = append(r.matches, m) }
	rpfInvert := false
	rpfIdx := -1
	needICMP, needICMP6 := false, false

	for i < len(t) {
		s := t[i].s
		if t[i].quoted {
			return nil, vocab(s, "unexpected quoted string")
		}
		i++
		switch s {
		case "!":
			if neg {
				return nil, vocab(s, "double negation")
			}
			neg = true
			continue
		case "-m", "--match":
			if neg {
				return nil, vocab(s, "negated -m")
			}
			mod, err := arg(s)
			if err != nil {
				return nil, err
			}
			switch mod {
			case "comment", "mark", "set", "multiport", "conntrack", "addrtype", "icmp", "icmp6", "ipvs", "limit":
			case "rpfilter":
				// matches when the reverse path check passes; --invert flips it
				rpfIdx = len(r.matches)
				add(nil)
			default:
				return nil, vocab(mod, "unsupported match module")
			}
			loaded[mod] = true
		case "--comment":
			if err := need(s, "comment"); err != nil {
				return nil, err
			}
			if _, err := arg(s); err != nil {
				return nil, err
			}
		case "--mark":
			if err := need(s, "mark"); err != nil {
				return nil, err
			}
			a, err := arg(s)
			if err != nil {
				return nil, err
			}
			v, m, ok := parseMarkMask(a)
			if !ok {
				return nil, vocab(a, "bad mark/mask")
			}
			n := takeNeg()
			add(func(p *Packet, mark, _ uint32) bool { return ((mark & m) == v) != n })
		case "-p", "--protocol":
			a, err := arg(s)
			if err != nil {
				return nil, err
			}
			if err := once(s, "p"); err != nil {
				return nil, err
			}
			pn, ok := parseProto(a)
			if !ok {
				return nil, vocab(a, "unknown protocol")
			}
			n := takeNeg()
			proto, protoNeg, protoSet = pn, n, true
			add(func(p *Packet, _, _ uint32) bool { return (p.Proto == pn) != n })
		case "-s", "--source", "--src", "-d", "--destination", "--dst":
			a, err := arg(s)
			if err != nil {
				return nil, err
			}
			isSrc := s == "-s" || s == "--source" || s == "--src"
			cl := "d"
			if isSrc {
				cl = "s"
			}
			if err := once(s, cl); err != nil {
				return nil, err
			}
			pfx, ok := parsePrefix(a, false)
			if !ok {
				return nil, vocab(a, "bad address/CIDR")
			}
			n := takeNeg()
			add(func(p *Packet, _, _ uint32) bool {
				ad := p.Dst
				if isSrc {
					ad = p.Src
				}
				if ad.Is4() != pfx.Addr().Is4() {
					// a v4 CIDR in an ip6tables rule (or vice versa) would not load; the
					// renderer helper checks families, here we just never match.
					return false
				}
				return pfx.Contains(ad) != n
			})
			r.addrFamilies = append(r.addrFamilies, pfx.Addr().Is4())
		case "-i", "--in-interface", "-o", "--out-interface":
			a, err := arg(s)
			if err != nil {
				return nil, err
			}
			in := s == "-i" || s == "--in-interface"
			cl := "o"
			if in {
				cl = "i"
			}
			if err := once(s, cl); err != nil {
				return nil, err
			}
			if a == "" {
				return nil, vocab(a, "empty interface name")
			}
			mf := ifaceMatcher(a, '+')
			n := takeNeg()
			add(func(p *Packet, _, _ uint32) bool {
				if in {
					return mf(p.InIface) != n
				}
				return mf(p.OutIface) != n
			})
		case "--match-set":
			if err := need(s, "set"); err != nil {
				return nil, err
			}
			name, err := arg(s)
			if err != nil {
				return nil, err
			}
			dims, err := arg(s)
			if err != nil {
				return nil, err
			}
			switch dims {
			case "src", "dst", "src,src", "dst,dst":
			default:
				return nil, vocab(dims, "unsupported ipset dimension list")
			}
			key := SetKey(name, dims)
			n := takeNeg()
			add(func(p *Packet, _, _ uint32) bool { return p.Sets[key] != n })
		case "--source-ports", "--sports", "--destination-ports", "--dports":
			if err := need(s, "multiport"); err != nil {
				return nil, err
			}
			a, err := arg(s)
			if err != nil {
				return nil, err
			}
			if !portProto() {
				return nil, load("multiport-needs-proto", "multiport needs `-p tcp', `-p udp', `-p udplite', `-p sctp' or `-p dccp' before it")
			}
			var prs []portRange
			slots := 0
			for _, f := range strings.Split(a, ",") {
				lo, hi, isRange := strings.Cut(f, ":")
				l, ok := parsePort(lo)
				if !ok {
					return nil, vocab(f, "bad port")
				}
				h := l
				slots++
				if isRange {
					if h, ok = parsePort(hi); !ok || h < l {
						return nil, vocab(f, "bad port range")
					}
					slots++
				}
				prs = append(prs, portRange{l, h})
			}
			if slots > 15 {
				return nil, load("multiport-too-many", "too many ports specified ("+strconv.Itoa(slots)+" slots, limit 15)")
			}
			isSrc := s == "--source-ports" || s == "--sports"
			n := takeNeg()
			add(func(p *Packet, _, _ uint32) bool {
				// xt_multiport is only reached when the -p match (same rule) holds, so the packet has ports
				if !HasPorts(p.Proto) {
					return false
				}
				pt := p.DPort
				if isSrc {
					pt = p.SPort
				}
				return inRanges(prs, pt) != n
			})
		case "--sport", "--source-port", "--dport", "--destination-port":
			a, err := arg(s)
			if err != nil {
				return nil, err
			}
			if !portProto() {
				return nil, load("port-needs-proto", s+" needs -p tcp|udp|udplite|sctp before it")
			}
			lo, hi, isRange := strings.Cut(a, ":")
			l, ok := parsePort(lo)
			if !ok {
				return nil, vocab(a, "bad port")
			}
			h := l
			if isRange {
				if h, ok = parsePort(hi); !ok || h < l {
					return nil, vocab(a, "bad port range")
				}
			}
			isSrc := strings.HasPrefix(s, "--s")
			n := takeNeg()
			add(func(p *Packet, _, _ uint32) bool {
				if !HasPorts(p.Proto) {
					return false
				}
				pt := p.DPort
				if isSrc {
					pt = p.SPort
				}
				return (pt >= l && pt <= h) != n
			})
		case "--ctstate":
			if err := need(s, "conntrack"); err != nil {
				return nil, err
			}
			a, err := arg(s)
			if err != nil {
				return nil, err
			}
			// ctStateList (vocab_ctstate_nat.go) additionally accepts xt_conntrack's virtual states DNAT / SNAT;
			// for a list without them it is exactly listMatcher(a, ctStates) and virt is empty.
			set, virt, ok := ctStateList(a)
			if !ok {
				return nil, vocab(a, "unknown conntrack state")
			}
			n := takeNeg()
			add(func(p *Packet, _, _ uint32) bool { return (set[ctState(p)] || natStateHas(p, virt)) != n })
		case "--ctstatus":
			if err := need(s, "conntrack"); err != nil {
				return nil, err
			}
			a, err := arg(s)
			if err != nil {
				return nil, err
			}
			set, ok := listMatcher(a, ctStatuses)
			if !ok {
				return nil, vocab(a, "unknown conntrack status")
			}
			n := takeNeg()
			add(func(p *Packet, _, _ uint32) bool { return statusHas(p, set) != n })
		case "--src-type", "--dst-type":
			if err := need(s, "addrtype"); err != nil {
				return nil, err
			}
			a, err := arg(s)
			if err != nil {
				return nil, err
			}
			ty := strings.ToUpper(a)
			if !addrTypes[ty] {
				return nil, vocab(a, "unknown address type")
			}
			isSrc := s == "--src-type"
			n := takeNeg()
			add(func(p *Packet, _, _ uint32) bool {
				if isSrc {
					return (addrType(p.SrcType) == ty) != n
				}
				return (addrType(p.DstType) == ty) != n
			})
		case "--limit-iface-in", "--limit-iface-out":
			if err := need(s, "addrtype"); err != nil {
				return nil, err
			}
			// abstracted: Packet.SrcType/DstType are given relative to the relevant interface
		case "--icmp-type", "--icmpv6-type":
			mod, want := "icmp", ProtoICMP
			if s == "--icmpv6-type" {
				mod, want = "icmp6", ProtoICMPv6
			}
			if err := need(s, mod); err != nil {
				return nil, err
			}
			a, err := arg(s)
			if err != nil {
				return nil, err
			}
			// checked once the whole rule is read: the kernel only accepts this match in a rule whose
			// protocol is (positively) icmp / icmpv6
			if want == ProtoICMP {
				needICMP = true
			} else {
				needICMP6 = true
			}
			ts, cs, hasCode := strings.Cut(a, "/")
			ty, err1 := strconv.Atoi(ts)
			if err1 != nil || ty < 0 || ty > 255 {
				return nil, vocab(a, "only numeric icmp types are supported")
			}
			code := -1
			if hasCode {
				c, err2 := strconv.Atoi(cs)
				if err2 != nil || c < 0 || c > 255 {
					return nil, vocab(a, "bad icmp code")
				}
				code = c
			}
			n := takeNeg()
			add(func(p *Packet, _, _ uint32) bool {
				if p.Proto != want {
					return false
				}
				// kernel: (type == t && code in [min,max]) ^ invert
				m := p.ICMPType == ty && (code < 0 || p.ICMPCode == code)
				return m != n
			})
		case "--invert":
			if err := need(s, "rpfilter"); err != nil {
				return nil, err
			}
			rpfInvert = true
		case "--validmark", "--loose", "--accept-local":
			if err := need(s, "rpfilter"); err != nil {
				return nil, err
			}
		case "--ipvs":
			if err := need(s, "ipvs"); err != nil {
				return nil, err
			}
			n := takeNeg()
			add(func(p *Packet, _, _ uint32) bool { return p.IPVS != n })
		case "--limit":
			if err := need(s, "limit"); err != nil {
				return nil, err
			}
			if _, err := arg(s); err != nil {
				return nil, err
			}
			add(func(p *Packet, _, _ uint32) bool { return !p.LimitExceeded })
		case "--limit-burst":
			if err := need(s, "limit"); err != nil {
				return nil, err
			}
			if _, err := arg(s); err != nil {
				return nil, err
			}
		case "-j", "--jump", "-g", "--goto":
			if neg {
				return nil, vocab(s, "negated target")
			}
			tg, err := arg(s)
			if err != nil {
				return nil, err
			}
			if s == "-g" || s == "--goto" {
				r.act, r.target = actGoto, tg
				if i < len(t) {
					return nil, vocab(t[i].s, "tokens after --goto target")
				}
				break
			}
			if err := parseIptTarget(r, tg, t[i:], vocab); err != nil {
				return nil, err
			}
			i = len(t)
		default:
			return nil, vocab(s, "unknown option")
		}
		if neg {
			return nil, vocab(s, "'!' not supported before this option")
		}
	}
	if neg {
		return nil, vocab("!", "dangling negation")
	}
	if needICMP && !(protoSet && !protoNeg && proto == ProtoICMP) {
		return nil, load("icmp-match-needs-icmp-proto", "-m icmp is only accepted in a rule with -p icmp (kernel: RULE_APPEND failed (Invalid argument))")
	}
	if needICMP6 && !(protoSet && !protoNeg && proto == ProtoICMPv6) {
		return nil, load("icmp-match-needs-icmp-proto", "-m icmp6 is only accepted in a rule with -p icmpv6 (kernel: RULE_APPEND failed (Invalid argument))")
	}
	if rpfIdx >= 0 {
		inv := rpfInvert
		r.matches[rpfIdx] = func(p *Packet, _, _ uint32) bool { return (!p.RPFFail) != inv }
	}
	return r, nil
}

func parseIptTarget(r *rule, tg string, rest []tok, vocab func(string, string) error) error {
	opts := map[string]string{}
	for i := 0; i < len(rest); i++ {
		k := rest[i].s
		if !strings.HasPrefix(k, "--") || rest[i].quoted {
			return vocab(k, "unexpected token after target "+tg)
		}
		switch k {
		case "--save-mark", "--restore-mark":
			opts[k] = ""
		default:
			if i+1 >= len(rest) {
				return vocab(k, "missing argument")
			}
			opts[k] = rest[i+1].s
			i++
		}
	}
	allow := func(keys ...string) error {
		ok := map[string]bool{}
		for _, k := range keys {
			ok[k] = true
		}
		for k := range opts {
			if !ok[k] {
				return vocab(k, "option not supported for target "+tg)
			}
		}
		return nil
	}
	switch tg {
	case "ACCEPT":
		r.act = actAccept
		return allow()
	case "DROP":
		r.act = actDrop
		return allow()
	case "RETURN":
		r.act = actReturn
		return allow()
	case "NOTRACK":
		r.act = actNoTrack
		return allow()
	case "REJECT":
		r.act = actReject
		return allow("--reject-with")
	case "MARK":
		if len(opts) != 1 {
			return vocab(tg, "MARK needs exactly one of --set-mark/--set-xmark/--and-mark/--or-mark/--xor-mark")
		}
		r.act = actMark
		for k, a := range opts {
			v, m, ok := parseMarkMask(a)
			if !ok {
				return vocab(a, "bad mark value")
			}
			switch k {
			case "--set-mark": // zero the mask bits, then OR the value
				r.and, r.xor = ^(m | v), v
			case "--set-xmark": // zero the mask bits, then XOR the value
				r.and, r.xor = ^m, v
			case "--and-mark":
				r.and, r.xor = v, 0
			case "--or-mark":
				r.and, r.xor = ^v, v
			case "--xor-mark":
				r.and, r.xor = 0xffffffff, v
			default:
				return vocab(k, "option not supported for target MARK")
			}
		}
		return nil
	case "NFLOG":
		r.act = actLog
		r.target = "NFLOG:" + opts["--nflog-group"] + ":" + opts["--nflog-prefix"]
		if _, ok := opts["--nflog-group"]; !ok {
			return vocab(tg, "NFLOG without --nflog-group")
		}
		return allow("--nflog-group", "--nflog-prefix", "--nflog-size", "--nflog-range", "--nflog-threshold")
	case "LOG":
		r.act = actLog
		r.target = "LOG:" + opts["--log-prefix"]
		return allow("--log-prefix", "--log-level")
	case "CONNMARK":
		mask := uint32(0xffffffff)
		if a, ok := opts["--mask"]; ok {
			v, ok2 := parseU32(a)
			if !ok2 {
				return vocab(a, "bad mask")
			}
			mask = v
		}
		switch {
		case has(opts, "--save-mark"):
			r.act, r.and = actCTMarkSave, mask
			return allow("--save-mark", "--mask")
		case has(opts, "--restore-mark"):
			r.act, r.and = actCTMarkRestore, mask
			return allow("--restore-mark", "--mask")
		case has(opts, "--set-mark"):
			v, m, ok := parseMarkMask(opts["--set-mark"])
			if !ok {
				return vocab(opts["--set-mark"], "bad mark value")
			}
			// ctmark = (ctmark & ~m) ^ v
			r.act, r.and, r.xor = actCTMarkSet, ^m, v
			return allow("--set-mark")
		}
		return vocab(tg, "CONNMARK without a supported operation")
	}
	if tg == strings.ToUpper(tg) && !strings.ContainsAny(tg, "-_0123456789") {
		// an all-capitals word is a target extension we do not model (DNAT, SNAT, MASQUERADE, DSCP, ...)
		return vocab(tg, "unsupported target")
	}
	r.act, r.target = actJump, tg
	return allow()
}

func has(m map[string]string, k string) bool { _, ok := m[k]; return ok }

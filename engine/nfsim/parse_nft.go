package nfsim

import (
	"net/netip"
	"strconv"
	"strings"
)

// Supported nftables vocabulary (everything felix/nftables/match_builder.go emits, plus the statements of
// felix/nftables/actions.go except NAT/DSCP/flow offload/ct count/limit-over):
//
//	matches:    meta mark & M ==|!= V | meta l4proto [!=] P |
//	            ip|ip6 saddr|daddr [!=] CIDR | ip|ip6 saddr|daddr [!=] @SET |
//	            ip|ip6 saddr . meta l4proto . th sport [!=] @SET   (and daddr ... th dport) |
//	            tcp|udp|sctp|udplite sport|dport [!=] N | A-B | { N, A-B, ... } |
//	            icmp|icmpv6 type|code [!=] N | icmp|icmpv6 type . icmp|icmpv6 code [!=] { T . C, ... } |
//	            iifname|oifname [!=] NAME[*] | ct state|status [!=] a,b |
//	            fib saddr type [!=] T | fib saddr . oif type [!=] T | fib daddr type [!=] T |
//	            fib saddr . mark . iif oif 0 | limit rate R [burst N packets] | counter
//	statements: accept | drop | return | continue | reject [with tcp reset] | jump C | goto C | notrack |
//	            meta mark set mark or V | meta mark set mark & A [^ B] | meta mark set ct mark [& M] |
//	            ct mark set mark [& M] | ct mark set V | ct mark set ct mark & A ^ B |
//	            log prefix S [snaplen N] [group N] [level L] | iifname|oifname vmap @MAP
//
// Load errors asserted (probed with `nft -c -f`, nftables v1.0.6):
//
//	nft-bare-header-field   "icmp type 8 code 0" / "icmp type != 8 code != 0" (a header field without its
//	                        protocol keyword) -> "Error: No symbol type information"; the loadable spelling is
//	                        "icmp type 8 icmp code 0"
//	wrong-family            "ip saddr" in an ip6 table / "ip6 saddr" in an ip table
//	nft-conflicting-protocols  "meta l4proto tcp icmp type != 3", "meta l4proto 58 icmp type 128", "meta l4proto udp tcp dport 80":
//	                        a header expression after a positive "meta l4proto" of another protocol ->
//	                        "Error: conflicting protocols specified: tcp vs. icmp" (also with a real load in a netns);
//	                        "meta l4proto != tcp icmp type != 3" and "icmp type != 3 meta l4proto tcp" do load
func parseNft(body string, lenient bool) (*rule, error) {
	r := &rule{text: body}
	vocab := func(tk, why string) error { return &VocabError{Kind: Nft, Rule: body, Token: tk, Why: why} }
	load := func(class, why string) error { return &LoadError{Kind: Nft, Class: class, Rule: body, Why: why} }
	raw, err := splitQuoted(body)
	if err != nil {
		return nil, vocab(body, err.Error())
	}
	// fold "{ a, b }" groups into one token
	var t []tok
	for i := 0; i < len(raw); i++ {
		if raw[i].s == "{" && !raw[i].quoted {
			j := i + 1
			var parts []string
			for j < len(raw) && raw[j].s != "}" {
				parts = append(parts, raw[j].s)
				j++
			}
			if j >= len(raw) {
				return nil, vocab("{", "unterminated set")
			}
			t = append(t, tok{"{" + strings.Join(parts, " ") + "}", false})
			i = j
			continue
		}
		t = append(t, raw[i])
	}
	i := 0
	peek := func(k int) string {
		if i+k < len(t) && !t[i+k].quoted {
			return t[i+k].s
		}
		return "\x00"
	}
	next := func(what string) (string, error) {
		if i >= len(t) {
			return "", vocab(what, "unexpected end of rule")
		}
		s := t[i].s
		i++
		return s, nil
	}
	optNeg := func() bool {
		if peek(0) == "!=" {
			i++
			return true
		}
		if peek(0) == "==" {
			i++
		}
		return false
	}
	add := func(m matchFn) { r.matches = append(r.matches, m) }
	setAct := func(a actKind) error {
		if r.act != actNone {
			return vocab(t[i-1].s, "more than one statement with an effect in a rule is not supported")
		}
		r.act = a
		return nil
	}
	terminalSeen := false
	// protocol context established by a preceding positive "meta l4proto X" (nft refuses a later header
	// expression of another protocol: "conflicting protocols specified")
	ctxProto := -1
	conflict := func(implied int, kw string) error {
		if ctxProto >= 0 && ctxProto != implied {
			return load("nft-conflicting-protocols", "header expression '"+kw+"' after 'meta l4proto "+strconv.Itoa(ctxProto)+"' (nft: conflicting protocols specified)")
		}
		return nil
	}

	for i < len(t) {
		if terminalSeen {
			return nil, vocab(t[i].s, "tokens after a verdict")
		}
		if t[i].quoted {
			return nil, vocab(t[i].s, "unexpected quoted string")
		}
		s := t[i].s
		i++
		switch s {
		case "counter":
		case "continue":
			if err := setAct(actContinue); err != nil {
				return nil, err
			}
			terminalSeen = true
		case "accept", "drop", "return":
			a := map[string]actKind{"accept": actAccept, "drop": actDrop, "return": actReturn}[s]
			if err := setAct(a); err != nil {
				return nil, err
			}
			terminalSeen = true
		case "reject":
			if err := setAct(actReject); err != nil {
				return nil, err
			}
			if peek(0) == "with" {
				if peek(1) == "tcp" && peek(2) == "reset" {
					i += 3
				} else {
					return nil, vocab(peek(1), "unsupported reject type")
				}
			}
			terminalSeen = true
		case "jump", "goto":
			tg, err := next(s)
			if err != nil {
				return nil, err
			}
			a := actJump
			if s == "goto" {
				a = actGoto
			}
			if err := setAct(a); err != nil {
				return nil, err
			}
			r.target = tg
			terminalSeen = true
		case "notrack":
			if err := setAct(actNoTrack); err != nil {
				return nil, err
			}
		case "log":
			if err := setAct(actLog); err != nil {
				return nil, err
			}
			var pfx, grp string
			for i < len(t) {
				k := peek(0)
				if k != "prefix" && k != "snaplen" && k != "group" && k != "level" {
					break
				}
				i++
				v, err := next(k)
				if err != nil {
					return nil, err
				}
				switch k {
				case "prefix":
					pfx = v
				case "group":
					grp = v
				}
			}
			r.target = "log:" + grp + ":" + pfx
		case "limit":
			if peek(0) != "rate" {
				return nil, vocab(peek(0), "expected 'rate'")
			}
			i++
			if peek(0) == "over" {
				return nil, vocab("over", "limit rate over ... is not supported")
			}
			if _, err := next("rate"); err != nil {
				return nil, err
			}
			if peek(0) == "burst" {
				i += 2
				if peek(0) != "packets" {
					return nil, vocab(peek(0), "expected 'packets'")
				}
				i++
			}
			add(func(p *Packet, _, _ uint32) bool { return !p.LimitExceeded })
		case "meta":
			f, err := next("meta")
			if err != nil {
				return nil, err
			}
			switch f {
			case "l4proto":
				n := optNeg()
				a, err := next("l4proto")
				if err != nil {
					return nil, err
				}
				pn, ok := parseProto(a)
				if !ok {
					return nil, vocab(a, "unknown protocol")
				}
				if !n && ctxProto < 0 {
					ctxProto = pn
				}
				add(func(p *Packet, _, _ uint32) bool { return (p.Proto == pn) != n })
			case "mark":
				switch peek(0) {
				case "&":
					i++
					ms, err := next("&")
					if err != nil {
						return nil, err
					}
					m, ok := parseU32(ms)
					if !ok {
						return nil, vocab(ms, "bad mask")
					}
					op := peek(0)
					if op != "==" && op != "!=" {
						return nil, vocab(op, "expected == or !=")
					}
					i++
					vs, err := next(op)
					if err != nil {
						return nil, err
					}
					v, ok := parseU32(vs)
					if !ok {
						return nil, vocab(vs, "bad mark value")
					}
					n := op == "!="
					add(func(p *Packet, mark, _ uint32) bool { return ((mark & m) == v) != n })
				case "set":
					i++
					if err := parseNftMarkSet(r, t, &i, vocab, setAct); err != nil {
						return nil, err
					}
				default:
					return nil, vocab(peek(0), "unsupported meta mark expression")
				}
			default:
				return nil, vocab(f, "unsupported meta key")
			}
		case "ip", "ip6":
			v6 := s == "ip6"
			r.nftFamilies = append(r.nftFamilies, !v6)
			f, err := next(s)
			if err != nil {
				return nil, err
			}
			if f != "saddr" && f != "daddr" {
				return nil, vocab(f, "unsupported "+s+" header field")
			}
			isSrc := f == "saddr"
			if peek(0) == "." {
				// <ipv> saddr . meta l4proto . th sport @set
				want := []string{".", "meta", "l4proto", ".", "th"}
				for _, w := range want {
					if peek(0) != w {
						return nil, vocab(peek(0), "unsupported concatenation (expected "+w+")")
					}
					i++
				}
				pf, err := next("th")
				if err != nil {
					return nil, err
				}
				if (isSrc && pf != "sport") || (!isSrc && pf != "dport") {
					return nil, vocab(pf, "address/port direction mismatch in concatenation")
				}
				n := optNeg()
				a, err := next("@set")
				if err != nil {
					return nil, err
				}
				if !strings.HasPrefix(a, "@") {
					return nil, vocab(a, "expected @set")
				}
				dims := "dst,dst"
				if isSrc {
					dims = "src,src"
				}
				key := SetKey(a[1:], dims)
				add(func(p *Packet, _, _ uint32) bool {
					if (p.IPVersion == 6) != v6 {
						return false
					}
					return p.Sets[key] != n
				})
				break
			}
			n := optNeg()
			a, err := next(f)
			if err != nil {
				return nil, err
			}
			if strings.HasPrefix(a, "@") {
				dims := "dst"
				if isSrc {
					dims = "src"
				}
				key := SetKey(a[1:], dims)
				add(func(p *Packet, _, _ uint32) bool {
					if (p.IPVersion == 6) != v6 {
						return false
					}
					return p.Sets[key] != n
				})
				break
			}
			pfx, ok := parsePrefix(a, v6)
			if !ok {
				return nil, vocab(a, "bad address/CIDR")
			}
			if pfx.Addr().Is4() == v6 {
				return nil, load("wrong-family", "address "+a+" does not belong to family "+s)
			}
			add(func(p *Packet, _, _ uint32) bool {
				if (p.IPVersion == 6) != v6 {
					return false
				}
				ad := p.Dst
				if isSrc {
					ad = p.Src
				}
				return pfx.Contains(ad) != n
			})
		case "tcp", "udp", "sctp", "udplite":
			pn := protoNames[s]
			f, err := next(s)
			if err != nil {
				return nil, err
			}
			if f != "sport" && f != "dport" {
				return nil, vocab(f, "unsupported "+s+" header field")
			}
			isSrc := f == "sport"
			n := optNeg()
			a, err := next(f)
			if err != nil {
				return nil, err
			}
			var prs []portRange
			items := []string{a}
			if strings.HasPrefix(a, "{") {
				items = strings.Split(strings.Trim(a, "{}"), ",")
			}
			for _, it := range items {
				it = strings.TrimSpace(it)
				lo, hi, isRange := strings.Cut(it, "-")
				l, ok := parsePort(lo)
				if !ok {
					return nil, vocab(it, "bad port")
				}
				h := l
				if isRange {
					if h, ok = parsePort(hi); !ok || h < l {
						return nil, vocab(it, "bad port range")
					}
				}
				prs = append(prs, portRange{l, h})
			}
			if peek(0) == "sport" || peek(0) == "dport" {
				return nil, load("nft-bare-header-field", "header field '"+peek(0)+"' without its protocol keyword")
			}
			if err := conflict(pn, s); err != nil {
				return nil, err
			}
			add(func(p *Packet, _, _ uint32) bool {
				// implicit dependency: meta l4proto <proto>
				if p.Proto != pn {
					return false
				}
				pt := p.DPort
				if isSrc {
					pt = p.SPort
				}
				return inRanges(prs, pt) != n
			})
		case "icmp", "icmpv6":
			want := ProtoICMP
			v6 := s == "icmpv6"
			if v6 {
				want = ProtoICMPv6
			}
			f, err := next(s)
			if err != nil {
				return nil, err
			}
			if f != "type" && f != "code" {
				return nil, vocab(f, "unsupported "+s+" header field")
			}
			if peek(0) == "." {
				// icmp type . icmp code [!=] { T . C, ... }
				if !(f == "type" && peek(1) == s && peek(2) == "code") {
					return nil, vocab(peek(1), "unsupported icmp concatenation")
				}
				i += 3
				n := optNeg()
				a, err := next("set")
				if err != nil {
					return nil, err
				}
				if !strings.HasPrefix(a, "{") {
					return nil, vocab(a, "expected { type . code }")
				}
				if err := conflict(want, s); err != nil {
					return nil, err
				}
				type tc struct{ t, c int }
				var pairs []tc
				for _, it := range strings.Split(strings.Trim(a, "{}"), ",") {
					ts, cs, ok := strings.Cut(strings.TrimSpace(it), ".")
					tv, e1 := strconv.Atoi(strings.TrimSpace(ts))
					cv, e2 := strconv.Atoi(strings.TrimSpace(cs))
					if !ok || e1 != nil || e2 != nil {
						return nil, vocab(it, "bad type . code element")
					}
					pairs = append(pairs, tc{tv, cv})
				}
				add(func(p *Packet, _, _ uint32) bool {
					if p.Proto != want || (p.IPVersion == 6) != v6 {
						return false
					}
					in := false
					for _, x := range pairs {
						if p.ICMPType == x.t && p.ICMPCode == x.c {
							in = true
						}
					}
					return in != n
				})
				break
			}
			n := optNeg()
			a, err := next(f)
			if err != nil {
				return nil, err
			}
			v, e := strconv.Atoi(a)
			if e != nil || v < 0 || v > 255 {
				return nil, vocab(a, "only numeric icmp "+f+" values are supported")
			}
			if pk := peek(0); (pk == "code" || pk == "type") && lenient {
				// read it the way the author meant it: "<proto> code N"
				t = append(t[:i], append([]tok{{s, false}}, t[i:]...)...)
			} else if pk == "code" || pk == "type" {
				// nft v1.0.6: `icmp type 8 code 0` -> "Error: No symbol type information"
				return nil, load("nft-bare-header-field", "header field '"+pk+"' without its protocol keyword ('"+s+" "+pk+"' is the loadable spelling)")
			}
			if err := conflict(want, s); err != nil {
				return nil, err
			}
			isType := f == "type"
			add(func(p *Packet, _, _ uint32) bool {
				// implicit dependency: meta l4proto icmp / icmpv6 (and the matching nfproto)
				if p.Proto != want || (p.IPVersion == 6) != v6 {
					return false
				}
				if isType {
					return (p.ICMPType == v) != n
				}
				return (p.ICMPCode == v) != n
			})
		case "iifname", "oifname":
			in := s == "iifname"
			if peek(0) == "vmap" {
				i++
				a, err := next("vmap")
				if err != nil {
					return nil, err
				}
				if !strings.HasPrefix(a, "@") {
					return nil, vocab(a, "expected @map")
				}
				if err := setAct(actVmap); err != nil {
					return nil, err
				}
				r.target, r.vmapIn = a[1:], in
				terminalSeen = true
				break
			}
			n := optNeg()
			if i >= len(t) {
				return nil, vocab(s, "missing interface name")
			}
			a := t[i].s
			i++
			if a == "" {
				return nil, vocab(a, "empty interface name")
			}
			mf := ifaceMatcher(a, '*')
			add(func(p *Packet, _, _ uint32) bool {
				if in {
					return mf(p.InIface) != n
				}
				return mf(p.OutIface) != n
			})
		case "ct":
			f, err := next("ct")
			if err != nil {
				return nil, err
			}
			switch f {
			case "state", "status":
				n := optNeg()
				a, err := next(f)
				if err != nil {
					return nil, err
				}
				valid := ctStates
				if f == "status" {
					valid = ctStatuses
				}
				set, ok := listMatcher(a, valid)
				if !ok {
					return nil, vocab(a, "unknown conntrack "+f)
				}
				if f == "state" {
					add(func(p *Packet, _, _ uint32) bool { return set[ctState(p)] != n })
				} else {
					add(func(p *Packet, _, _ uint32) bool { return statusHas(p, set) != n })
				}
			case "mark":
				if peek(0) != "set" {
					return nil, vocab(peek(0), "unsupported ct mark expression")
				}
				i++
				if err := parseNftCTMarkSet(r, t, &i, vocab, setAct); err != nil {
					return nil, err
				}
			default:
				return nil, vocab(f, "unsupported ct key")
			}
		case "fib":
			// fib saddr type [!=] T | fib saddr . oif type [!=] T | fib daddr type [!=] T | fib saddr . mark . iif oif 0
			f, err := next("fib")
			if err != nil {
				return nil, err
			}
			if f != "saddr" && f != "daddr" {
				return nil, vocab(f, "unsupported fib selector")
			}
			isSrc := f == "saddr"
			if isSrc && peek(0) == "." && peek(1) == "mark" && peek(2) == "." && peek(3) == "iif" && peek(4) == "oif" && peek(5) == "0" {
				i += 6
				add(func(p *Packet, _, _ uint32) bool { return p.RPFFail })
				break
			}
			if isSrc && peek(0) == "." && peek(1) == "oif" {
				i += 2
			}
			if peek(0) != "type" {
				return nil, vocab(peek(0), "unsupported fib expression")
			}
			i++
			n := optNeg()
			a, err := next("type")
			if err != nil {
				return nil, err
			}
			ty := strings.ToUpper(a)
			if !addrTypes[ty] {
				return nil, vocab(a, "unknown address type")
			}
			add(func(p *Packet, _, _ uint32) bool {
				if isSrc {
					return (addrType(p.SrcType) == ty) != n
				}
				return (addrType(p.DstType) == ty) != n
			})
		default:
			return nil, vocab(s, "unknown statement")
		}
	}
	return r, nil
}

// after "meta mark set"
func parseNftMarkSet(r *rule, t []tok, ip *int, vocab func(string, string) error, setAct func(actKind) error) error {
	i := *ip
	get := func() string {
		if i < len(t) {
			s := t[i].s
			i++
			return s
		}
		return "\x00"
	}
	defer func() { *ip = i }()
	switch src := get(); src {
	case "mark":
		op := get()
		vs := get()
		v, ok := parseU32(vs)
		if !ok {
			return vocab(vs, "bad mark operand")
		}
		if err := setAct(actMark); err != nil {
			return err
		}
		switch op {
		case "or", "|":
			r.and, r.xor = ^v, v
		case "&", "and":
			r.and, r.xor = v, 0
			if i < len(t) && (t[i].s == "^" || t[i].s == "xor") {
				i++
				xs := get()
				x, ok := parseU32(xs)
				if !ok {
					return vocab(xs, "bad xor operand")
				}
				r.xor = x
			}
		case "^", "xor":
			r.and, r.xor = 0xffffffff, v
		default:
			return vocab(op, "unsupported mark operator")
		}
		return nil
	case "ct":
		if get() != "mark" {
			return vocab("ct", "expected ct mark")
		}
		if err := setAct(actMarkFromCT); err != nil {
			return err
		}
		r.and = 0xffffffff
		if i < len(t) && t[i].s == "&" {
			i++
			ms := get()
			m, ok := parseU32(ms)
			if !ok {
				return vocab(ms, "bad mask")
			}
			r.and = m
		}
		return nil
	default:
		v, ok := parseU32(src)
		if !ok {
			return vocab(src, "unsupported meta mark set source")
		}
		if err := setAct(actMark); err != nil {
			return err
		}
		r.and, r.xor = 0, v
		return nil
	}
}

// after "ct mark set"
func parseNftCTMarkSet(r *rule, t []tok, ip *int, vocab func(string, string) error, setAct func(actKind) error) error {
	i := *ip
	get := func() string {
		if i < len(t) {
			s := t[i].s
			i++
			return s
		}
		return "\x00"
	}
	defer func() { *ip = i }()
	switch src := get(); src {
	case "mark": // ct mark set mark [& M]
		if err := setAct(actCTFromMark); err != nil {
			return err
		}
		r.and = 0xffffffff
		if i < len(t) && t[i].s == "&" {
			i++
			ms := get()
			m, ok := parseU32(ms)
			if !ok {
				return vocab(ms, "bad mask")
			}
			r.and = m
		}
		return nil
	case "ct": // ct mark set ct mark & A ^ B
		if get() != "mark" || get() != "&" {
			return vocab("ct", "expected ct mark & A ^ B")
		}
		as := get()
		a, ok := parseU32(as)
		if !ok {
			return vocab(as, "bad mask")
		}
		if err := setAct(actCTMarkSet); err != nil {
			return err
		}
		r.and, r.xor = a, 0
		if i < len(t) && t[i].s == "^" {
			i++
			xs := get()
			x, ok := parseU32(xs)
			if !ok {
				return vocab(xs, "bad xor operand")
			}
			r.xor = x
		}
		return nil
	default:
		v, ok := parseU32(src)
		if !ok {
			return vocab(src, "unsupported ct mark set source")
		}
		if err := setAct(actCTMarkSet); err != nil {
			return err
		}
		r.and, r.xor = 0, v
		return nil
	}
}

var _ = netip.Addr{}

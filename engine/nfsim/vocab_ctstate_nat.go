package nfsim

import (
	"fmt"
	"net/netip"
	"strings"
)

// Vocabulary addition (needed by C40: felix/rules/static.go renders `-m conntrack [!] --ctstate DNAT` in
// filter cali-OUTPUT and mangle cali-POSTROUTING): xt_conntrack's VIRTUAL states DNAT and SNAT.
//
// Kernel semantics (net/netfilter/xt_conntrack.c, conntrack_mt):
//
//	statebit = bit of the packet's conntrack state (or UNTRACKED / INVALID when there is no entry)
//	if there is a conntrack entry:
//	    if IPS_SRC_NAT is set in ct->status: statebit |= XT_CONNTRACK_STATE_SNAT
//	    if IPS_DST_NAT is set in ct->status: statebit |= XT_CONNTRACK_STATE_DNAT
//	match = ((state_mask & statebit) != 0) XOR invert
//
// i.e. "--ctstate A,B,DNAT" holds when the state is A or B, OR the connection is DNATed. The DNAT / SNAT
// bits are read from Packet.CTStatus (the same attribute `--ctstatus` / nft `ct status` read). A packet
// without a conntrack entry (CTState UNTRACKED or INVALID) never has them.
//
// Probed with iptables v1.8.9: `iptables-restore --test` accepts
// "-A c -m conntrack ! --ctstate DNAT -j ACCEPT" and "-A c -m conntrack --ctstate NEW,DNAT -j ACCEPT".
var ctVirtualStates = map[string]bool{"DNAT": true, "SNAT": true}

// ctStateList splits a --ctstate list into real states and virtual NAT states. ok=false: a name outside
// both vocabularies (or an empty list).
func ctStateList(list string) (real map[string]bool, virt map[string]bool, ok bool) {
	real, virt = map[string]bool{}, map[string]bool{}
	for _, s := range strings.Split(list, ",") {
		s = strings.ToUpper(strings.TrimSpace(s))
		switch {
		case ctStates[s]:
			real[s] = true
		case ctVirtualStates[s]:
			virt[s] = true
		default:
			return nil, nil, false
		}
	}
	return real, virt, len(real)+len(virt) > 0
}

// natStateHas: the packet has a conntrack entry whose status carries one of the wanted NAT bits.
func natStateHas(p *Packet, virt map[string]bool) bool {
	if len(virt) == 0 {
		return false
	}
	switch ctState(p) {
	case "UNTRACKED", "INVALID":
		return false // no conntrack entry
	}
	return statusHas(p, virt)
}

// SelfTestNATState checks the virtual-state vocabulary (harnesses that rely on it call it next to SelfTest).
func SelfTestNATState() []string {
	var bad []string
	rs := New(Iptables)
	rs.Family = 4
	for _, l := range []string{
		`-A e -m conntrack ! --ctstate DNAT --jump notdnat`,
		`-A e -m conntrack --ctstate DNAT --jump dnat`,
		`-A f -m conntrack --ctstate ESTABLISHED,DNAT --jump hit`,
		`-A f --jump DROP`,
	} {
		if err := rs.AddIptablesLine(l); err != nil {
			bad = append(bad, fmt.Sprintf("natstate parse: %v", err))
		}
	}
	for _, leaf := range []string{"notdnat", "dnat", "hit"} {
		rs.Leaves[leaf] = true
	}
	a := netip.MustParseAddr("10.0.0.1")
	type tc struct {
		entry, state, status, want string
	}
	for _, c := range []tc{
		{"e", "NEW", "", "CHAIN:notdnat"},
		{"e", "NEW", "DNAT", "CHAIN:dnat"},
		{"e", "ESTABLISHED", "SNAT,DNAT", "CHAIN:dnat"},
		{"e", "ESTABLISHED", "SNAT", "CHAIN:notdnat"},
		{"e", "UNTRACKED", "DNAT", "CHAIN:notdnat"}, // no entry => no NAT bits
		{"f", "NEW", "", "DROP"},
		{"f", "NEW", "DNAT", "CHAIN:hit"},
		{"f", "ESTABLISHED", "", "CHAIN:hit"},
		{"f", "INVALID", "DNAT", "DROP"},
	} {
		res, err := rs.Eval(c.entry, Packet{IPVersion: 4, Src: a, Dst: a, Proto: ProtoTCP, CTState: c.state, CTStatus: c.status}, false)
		if err != nil || res.Verdict != c.want {
			bad = append(bad, fmt.Sprintf("natstate %s state=%s status=%q: got %s (%v), want %s", c.entry, c.state, c.status, res.Verdict, err, c.want))
		}
	}
	if err := rs.AddIptablesLine(`-A e -m conntrack --ctstate BOGUS --jump DROP`); err == nil {
		bad = append(bad, "natstate: --ctstate BOGUS accepted")
	}
	return bad
}

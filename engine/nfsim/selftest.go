package nfsim

import (
	"errors"
	"fmt"
	"net/netip"
)

// SelfTest runs the interpreter on hand-written chains with known verdicts (both syntaxes) and checks
// that tokens outside the vocabulary and unloadable rules are rejected. It returns the list of
// failures (empty = pass). Harnesses call it at start-up and turn a failure into a tool error.
func SelfTest() []string {
	var bad []string
	fail := func(f string, a ...any) { bad = append(bad, fmt.Sprintf(f, a...)) }
	ip := netip.MustParseAddr

	// ---------------- iptables
	ipt := New(Iptables)
	ipt.Family = 4
	lines := []string{
		// entry: jump to sub (returns), then goto g (never comes back here)
		`-A entry -m comment --comment "cali:abc" -m comment --comment "hello world" --jump MARK --set-mark 0/0x18`,
		`-A entry -p tcp -m multiport --destination-ports 80,8080:8090 --jump sub`,
		`-A entry -m mark --mark 0x8/0x8 --jump ACCEPT`,
		`-A entry --in-interface cali+ --goto g`,
		`-A entry -m mark ! --mark 0/0x10 --jump REJECT --reject-with tcp-reset`,
		`-A entry --jump NFLOG --nflog-group 1 --nflog-prefix DPI|x --nflog-size 80`,
		`-A entry --jump DROP`,
		`-A sub ! --source 10.0.0.0/24 --jump RETURN`,
		`-A sub -m set --match-set cali40s:abc src --jump MARK --set-mark 0x8/0x8`,
		`-A sub -m set ! --match-set cali40s:abc src --jump MARK --set-mark 0x10/0x10`,
		`-A g --in-interface cali1 --jump leafA`,
		`-A g -p icmp -m icmp ! --icmp-type 8/0 --jump MARK --set-mark 0x100/0xff00`,
		`-A g -m conntrack --ctstate RELATED,ESTABLISHED --jump ACCEPT`,
		`-A g --jump RETURN`,
		`-A g --jump DROP`,
	}
	for _, l := range lines {
		if err := ipt.AddIptablesLine(l); err != nil {
			fail("ipt parse: %v", err)
		}
	}
	ipt.Leaves["leafA"] = true
	type tc struct {
		name    string
		p       Packet
		verdict string
		mark    uint32
		nlogs   int
	}
	base := Packet{IPVersion: 4, Src: ip("10.0.0.5"), Dst: ip("10.1.0.1"), Proto: ProtoTCP, SPort: 1000, DPort: 8085, InIface: "eth0", Mark: 0x18}
	with := func(f func(p *Packet)) Packet { p := base; p.Sets = map[string]bool{}; f(&p); return p }
	iptCases := []tc{
		{"jump+return+accept on mark", with(func(p *Packet) { p.Sets[SetKey("cali40s:abc", "src")] = true }), "ACCEPT", 0x8, 0},
		{"set miss sets pass, reject on mark", with(func(p *Packet) {}), "REJECT", 0x10, 0},
		{"multiport miss (port 8091) falls to nflog+drop", with(func(p *Packet) { p.DPort = 8091 }), "DROP", 0, 1},
		{"multiport range low edge", with(func(p *Packet) { p.DPort = 8080; p.Sets[SetKey("cali40s:abc", "src")] = true }), "ACCEPT", 0x8, 0},
		{"negated source returns early from sub", with(func(p *Packet) { p.Src = ip("10.0.1.0") }), "DROP", 0, 1},
		{"goto: leaf reached", with(func(p *Packet) { p.Proto = ProtoUDP; p.InIface = "cali1" }), "CHAIN:leafA", 0, 0},
		{"goto: RETURN in goto'd chain returns from entry (no push)", with(func(p *Packet) { p.Proto = ProtoUDP; p.InIface = "cali2" }), "RETURN", 0, 0},
		{"goto: negated icmp type/code (8/1 is not 8/0) sets mark", with(func(p *Packet) { p.Proto = ProtoICMP; p.ICMPType = 8; p.ICMPCode = 1; p.InIface = "cali2" }), "RETURN", 0x100, 0},
		{"goto: icmp 8/0 does not fire the negated match", with(func(p *Packet) { p.Proto = ProtoICMP; p.ICMPType = 8; p.ICMPCode = 0; p.InIface = "cali2" }), "RETURN", 0, 0},
		{"goto: established accepted", with(func(p *Packet) { p.Proto = ProtoUDP; p.InIface = "calixyz"; p.CTState = "ESTABLISHED" }), "ACCEPT", 0, 0},
		{"iface 'cal' does not match cali+", with(func(p *Packet) { p.Proto = ProtoUDP; p.InIface = "cal" }), "DROP", 0, 1},
	}
	for _, c := range iptCases {
		res, err := ipt.Eval("entry", c.p, false)
		if err != nil {
			fail("ipt %s: %v", c.name, err)
			continue
		}
		if res.Verdict != c.verdict || res.Mark != c.mark || len(res.Logs) != c.nlogs {
			fail("ipt %s: got %s mark=%#x logs=%d, want %s mark=%#x logs=%d", c.name, res.Verdict, res.Mark, len(res.Logs), c.verdict, c.mark, c.nlogs)
		}
	}

	// ---------------- nftables (same logic spelled in nft)
	nft := New(Nft)
	nft.Family = 4
	type nr struct{ c, r string }
	nrules := []nr{
		{"entry", `counter meta mark set mark & 0xffffffe7`},
		{"entry", `meta l4proto tcp tcp dport { 80, 8080-8090 } counter jump sub`},
		{"entry", `meta mark & 0x8 == 0x8 counter accept`},
		{"entry", `iifname vmap @filter-m`},
		{"entry", `iifname cali* counter goto g`},
		{"entry", `meta mark & 0x10 != 0 counter reject with tcp reset`},
		{"entry", `counter log prefix "DPI|x" snaplen 80 group 1`},
		{"entry", `counter drop`},
		{"sub", `ip saddr != 10.0.0.0/24 counter return`},
		{"sub", `ip saddr @cali40s-abc counter meta mark set mark or 0x8`},
		{"sub", `ip saddr != @cali40s-abc counter meta mark set mark or 0x10`},
		{"g", `meta l4proto icmp icmp type . icmp code != { 8 . 0 } counter meta mark set mark & 0xffff00ff ^ 0x100`},
		{"g", `ct state related,established counter accept`},
		{"g", `counter return`},
		{"g", `counter drop`},
		{"empty", `continue`},
	}
	for _, x := range nrules {
		if err := nft.AddNftRule(x.c, x.r); err != nil {
			fail("nft parse: %v", err)
		}
	}
	if err := nft.AddNftMap("filter-m", map[string][]string{"cali1": {"goto leafA"}}); err != nil {
		fail("nft map: %v", err)
	}
	nft.Leaves["leafA"] = true
	for _, c := range iptCases {
		res, err := nft.Eval("entry", c.p, false)
		if err != nil {
			fail("nft %s: %v", c.name, err)
			continue
		}
		if res.Verdict != c.verdict || res.Mark != c.mark || len(res.Logs) != c.nlogs {
			fail("nft %s: got %s mark=%#x logs=%d, want %s mark=%#x logs=%d", c.name, res.Verdict, res.Mark, len(res.Logs), c.verdict, c.mark, c.nlogs)
		}
	}
	// nft conjunction of two negated icmp matches is NOT the negation of the pair
	n2 := New(Nft)
	_ = n2.AddNftRule("e", `meta l4proto icmp icmp type != 8 icmp code != 0 counter drop`)
	if res, _ := n2.Eval("e", Packet{IPVersion: 4, Proto: ProtoICMP, ICMPType: 8, ICMPCode: 1}, false); res.Verdict != "RETURN" {
		fail("nft: 'icmp type != 8 icmp code != 0' must not match type 8 code 1 (got %s)", res.Verdict)
	}
	if res, _ := n2.Eval("e", Packet{IPVersion: 4, Proto: ProtoICMP, ICMPType: 9, ICMPCode: 1}, false); res.Verdict != "DROP" {
		fail("nft: 'icmp type != 8 icmp code != 0' must match type 9 code 1 (got %s)", res.Verdict)
	}
	// implicit protocol dependency of "tcp sport"
	n3 := New(Nft)
	_ = n3.AddNftRule("e", `tcp sport != { 1, 2 } counter drop`)
	if res, _ := n3.Eval("e", Packet{IPVersion: 4, Proto: ProtoUDP, SPort: 5}, false); res.Verdict != "RETURN" {
		fail("nft: 'tcp sport != {..}' must not match a UDP packet (got %s)", res.Verdict)
	}

	// ---------------- strict vocabulary: every one of these must be refused as VocabError
	for _, l := range []string{
		`-A c -m u32 --u32 0x0 --jump DROP`,
		`-A c --frobnicate --jump DROP`,
		`-A c -p tcp -m tcp --tcp-flags SYN SYN --jump DROP`,
		`-A c --jump DNAT --to-destination 1.2.3.4`,
		`-A c -m set --match-set foo src,dst --jump DROP`,
		`-A c ! --jump DROP`,
		`-I c --jump DROP`,
	} {
		var ve *VocabError
		if err := New(Iptables).AddIptablesLine(l); !errors.As(err, &ve) {
			fail("ipt vocabulary: %q was not refused as VocabError (err=%v)", l, err)
		}
	}
	for _, l := range []string{
		`ip saddr 10.0.0.1 dnat to 1.2.3.4`,
		`tcp flags syn counter drop`,
		`meta nfproto ipv4 counter drop`,
		`ip dscp set 10`,
		`counter accept counter`,
		`limit rate over 10/second burst 5 packets drop`,
		`ct count over 5 reject with tcp reset`,
		`flow offload @ft`,
	} {
		var ve *VocabError
		if err := New(Nft).AddNftRule("c", l); !errors.As(err, &ve) {
			fail("nft vocabulary: %q was not refused as VocabError (err=%v)", l, err)
		}
	}
	// ---------------- load errors
	for l, class := range map[string]string{
		`-A c -p tcp ! -p udp --jump DROP`:                                                       "multiple-p-flags",
		`-A c --source 10.0.0.0/8 ! --source 10.1.0.0/16 --jump DROP`:                            "multiple-s-flags",
		`-A c -p tcp -m multiport --source-ports 1,2,3,4,5,6,7,8,9,10,11,12,13,14,15,16 -j DROP`: "multiport-too-many",
		`-A c -p tcp -m multiport --source-ports 1:2,3:4,5:6,7:8,9:10,11:12,13:14,15:16 -j DROP`: "multiport-too-many",
		`-A c -m multiport --source-ports 1,2 -j DROP`:                                           "multiport-needs-proto",
		`-A c -p icmp -m multiport --source-ports 1,2 -j DROP`:                                   "multiport-needs-proto",
	} {
		var le *LoadError
		if err := New(Iptables).AddIptablesLine(l); !errors.As(err, &le) || le.Class != class {
			fail("ipt load check: %q should be LoadError[%s], got %v", l, class, err)
		}
	}
	for l, class := range map[string]string{
		`meta l4proto icmp icmp type 8 code 0 counter drop`:       "nft-bare-header-field",
		`meta l4proto icmp icmp type != 8 code != 0 counter drop`: "nft-bare-header-field",
		`meta l4proto tcp icmp type != 3 counter drop`:            "nft-conflicting-protocols",
		`meta l4proto 58 icmp type 128 counter drop`:              "nft-conflicting-protocols",
		`meta l4proto udp tcp dport 80 counter drop`:              "nft-conflicting-protocols",
	} {
		var le *LoadError
		if err := New(Nft).AddNftRule("c", l); !errors.As(err, &le) || le.Class != class {
			fail("nft load check: %q should be LoadError[%s], got %v", l, class, err)
		}
	}
	n6 := New(Nft)
	n6.Family = 6
	var le *LoadError
	if err := n6.AddNftRule("c", `ip saddr 10.0.0.0/8 counter drop`); !errors.As(err, &le) {
		fail("nft load check: ip saddr in an ip6 table should be a LoadError, got %v", err)
	}
	for _, l := range []string{`meta l4proto != tcp icmp type != 3 counter drop`, `icmp type != 3 meta l4proto tcp counter drop`, `meta l4proto 6 tcp dport 80 counter drop`, `meta l4proto 1 icmp type != 3 counter drop`} {
		if err := New(Nft).AddNftRule("c", l); err != nil {
			fail("nft: %q must load: %v", l, err)
		}
	}
	// 15 slots exactly is fine
	if err := New(Iptables).AddIptablesLine(`-A c -p udp -m multiport --dports 1,2,3,4,5,6,7,8,9,10,11,12,13,14:15 -j DROP`); err != nil {
		fail("ipt: 15 multiport slots must load: %v", err)
	}
	// undefined chain reference is an evaluation error, not a silent no-op
	u := New(Iptables)
	_ = u.AddIptablesLine(`-A c --jump nowhere`)
	if _, err := u.Eval("c", Packet{IPVersion: 4}, false); err == nil {
		fail("jump to an undefined chain must be an error")
	}
	return bad
}

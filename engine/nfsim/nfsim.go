// Package nfsim is a small interpreter for the iptables-restore lines and nftables rule bodies that
// Felix renders (felix/iptables, felix/nftables). It tokenises every rule into matches + target and
// evaluates an abstract packet through the chains with netfilter traversal semantics:
//
//   - rules in a chain are tried in order; a rule fires when ALL its matches hold;
//   - jump pushes the return position, goto does not; RETURN (or falling off the end) pops, and in
//     the entry chain yields the verdict "RETURN";
//   - ACCEPT / DROP / REJECT are terminal;
//   - MARK / meta mark set, NFLOG / LOG / log, NOTRACK / notrack, CONNMARK / ct mark set are
//     non-terminal (their effect is recorded in the Result);
//   - nft verdict maps ("iifname vmap @m"): lookup hit => the element's verdict, miss => the rule
//     does not match and traversal continues.
//
// STRICT VOCABULARY: any token that is not listed in the parser below makes Parse fail with a
// *VocabError (the harnesses turn that into a tool error, exit 2). Nothing is ever silently
// treated as "matches".
//
// WELL-FORMEDNESS: things that would make the real load fail are reported as *LoadError (this is
// a property of the rendered text, not of the tool). Each one is backed by a probe of the real
// userspace tools on the build machine (iptables v1.8.9 `iptables-restore --test`, nft v1.0.6
// `nft -c -f`), quoted next to the check.
//
// It is overlaid into the calico module as github.com/projectcalico/calico/zzverif/nfsim.
package nfsim

import (
	"fmt"
	"net/netip"
	"strconv"
	"strings"
)

// Kind selects the rule syntax.
type Kind int

const (
	Iptables Kind = iota
	Nft
)

func (k Kind) String() string {
	if k == Nft {
		return "nft"
	}
	return "ipt"
}

// Well-known protocol numbers.
const (
	ProtoICMP    = 1
	ProtoIPIP    = 4
	ProtoTCP     = 6
	ProtoUDP     = 17
	ProtoICMPv6  = 58
	ProtoSCTP    = 132
	ProtoUDPLite = 136
)

// Packet is the abstract packet. Zero values are meaningful defaults except IPVersion (4 or 6).
type Packet struct {
	IPVersion int
	InIface   string
	OutIface  string
	Src, Dst  netip.Addr
	Proto     int // IANA protocol number
	SPort     int // valid when Proto has ports (tcp/udp/sctp/udplite)
	DPort     int
	ICMPType  int // valid when Proto is icmp (v4) / icmpv6 (v6)
	ICMPCode  int
	CTState   string // NEW (default when ""), ESTABLISHED, RELATED, INVALID, UNTRACKED
	CTStatus  string // comma separated conntrack status bits that are set, e.g. "DNAT"
	Mark      uint32
	CTMark    uint32
	SrcType   string // addrtype of the source address (default UNICAST)
	DstType   string // addrtype of the destination address (default UNICAST)
	// Sets holds the boolean "member of ipset" tags: key = SetKey(name, dims), dims one of
	// "src", "dst", "src,src", "dst,dst". Absent = not a member.
	Sets map[string]bool
	// RPFFail: the reverse-path check fails for this packet. IPVS: packet belongs to an IPVS connection.
	RPFFail bool
	IPVS    bool
	// LimitExceeded: rate-limit matches ("-m limit", "limit rate") do NOT match when true.
	LimitExceeded bool
}

// SetKey builds the key used in Packet.Sets. Set names are canonicalised the way
// nftables.LegalizeSetName does (":" -> "-") so that one tag serves both renderers.
func SetKey(name, dims string) string {
	return strings.ReplaceAll(name, ":", "-") + " " + dims
}

// HasPorts reports whether the protocol carries ports in the place tcp/udp/sctp do.
func HasPorts(proto int) bool {
	return proto == ProtoTCP || proto == ProtoUDP || proto == ProtoSCTP || proto == ProtoUDPLite
}

// VocabError: a token outside the supported vocabulary (=> tool error, never a verdict).
type VocabError struct {
	Kind  Kind
	Rule  string
	Token string
	Why   string
}

func (e *VocabError) Error() string {
	return fmt.Sprintf("nfsim(%s): unsupported token %q (%s) in rule: %s", e.Kind, e.Token, e.Why, e.Rule)
}

// LoadError: the rule text is inside the vocabulary but the real loader would reject it.
type LoadError struct {
	Kind  Kind
	Class string // stable short class, e.g. "multiple-p-flags"
	Rule  string
	Why   string
}

func (e *LoadError) Error() string {
	return fmt.Sprintf("nfsim(%s): rule would not load [%s]: %s: %s", e.Kind, e.Class, e.Why, e.Rule)
}

// UndefinedChainError: a rule that fired jumps to a chain that is neither defined nor declared a leaf (the
// real loader would have refused the rule set).
type UndefinedChainError struct{ Chain string }

func (e *UndefinedChainError) Error() string {
	return fmt.Sprintf("nfsim: reference to undefined chain %q (the real loader would reject this)", e.Chain)
}

type actKind int

const (
	actNone actKind = iota // rule without target / verdict: counts only
	actAccept
	actDrop
	actReject
	actReturn
	actJump
	actGoto
	actMark // mark = (mark & and) ^ xor
	actLog  // NFLOG / LOG / log
	actNoTrack
	actCTMarkSet     // ctmark = (ctmark & and) ^ xor
	actCTMarkSave    // ctmark = (ctmark &^ m) | (mark & m)
	actCTMarkRestore // mark = (mark &^ m) | (ctmark & m)
	actVmap
	actContinue
	actMarkFromCT // mark = ctmark & and          (nft: meta mark set ct mark [& M])
	actCTFromMark // ctmark = mark & and          (nft: ct mark set mark [& M])
)

type matchFn func(p *Packet, mark uint32, ctmark uint32) bool

type rule struct {
	text    string
	matches []matchFn
	act     actKind
	target  string // chain for jump/goto, prefix for log, map name for vmap
	and     uint32
	xor     uint32
	vmapIn  bool // vmap keyed on iifname (else oifname)
	// address families mentioned by the rule (true = IPv4), for the family well-formedness check
	addrFamilies []bool
	nftFamilies  []bool
}

// Chain is a parsed chain.
type Chain struct {
	Name  string
	rules []rule
}

// Len returns the number of rules.
func (c *Chain) Len() int { return len(c.rules) }

// RuleText returns the original text of rule i.
func (c *Chain) RuleText(i int) string { return c.rules[i].text }

// Ruleset is a set of chains (one table / one nft layer) plus nft verdict maps.
type Ruleset struct {
	Kind Kind
	// Family: 4 or 6 when the rule set belongs to an ip/ip6 table (then addresses of the other family are a
	// load error); 0 = not checked.
	Family int
	// Lenient (nft only): read a header field that lacks its protocol keyword ("icmp type 8 code 0") the way
	// the author evidently meant it instead of reporting the load error. Used to keep exploring the
	// SEMANTICS of text that the real nft would refuse.
	Lenient bool
	Chains  map[string]*Chain
	// Maps: nft verdict maps, name -> interface name -> verdict text ("goto X", "jump X", "accept", "drop", "return").
	Maps map[string]map[string]string
	// Leaves are chain names that are deliberately not rendered: reaching one (jump or goto) ends the
	// evaluation with verdict "CHAIN:<name>". Any other reference to an undefined chain is an error.
	Leaves map[string]bool
}

// New returns an empty rule set.
func New(kind Kind) *Ruleset {
	return &Ruleset{Kind: kind, Chains: map[string]*Chain{}, Maps: map[string]map[string]string{}, Leaves: map[string]bool{}}
}

// EnsureChain declares a (possibly empty) chain.
func (rs *Ruleset) EnsureChain(name string) *Chain {
	c := rs.Chains[name]
	if c == nil {
		c = &Chain{Name: name}
		rs.Chains[name] = c
	}
	return c
}

// AddIptablesLine parses one iptables-restore "-A <chain> ..." line.
func (rs *Ruleset) AddIptablesLine(line string) error {
	if rs.Kind != Iptables {
		return fmt.Errorf("nfsim: AddIptablesLine on %s ruleset", rs.Kind)
	}
	toks, err := splitQuoted(line)
	if err != nil {
		return &VocabError{Kind: Iptables, Rule: line, Token: line, Why: err.Error()}
	}
	if len(toks) < 2 || toks[0].s != "-A" {
		return &VocabError{Kind: Iptables, Rule: line, Token: first(toks), Why: "only -A <chain> lines are supported"}
	}
	r, err := parseIptables(line, toks[2:])
	if err != nil {
		return err
	}
	for _, is4 := range r.addrFamilies {
		if rs.Family != 0 && is4 != (rs.Family == 4) {
			return &LoadError{Kind: Iptables, Class: "wrong-family", Rule: line, Why: "address of the other IP family"}
		}
	}
	c := rs.EnsureChain(toks[1].s)
	c.rules = append(c.rules, *r)
	return nil
}

// AddNftRule parses one nftables rule body (what knftables.Rule.Rule holds) into chain.
func (rs *Ruleset) AddNftRule(chain, body string) error {
	if rs.Kind != Nft {
		return fmt.Errorf("nfsim: AddNftRule on %s ruleset", rs.Kind)
	}
	r, err := parseNft(body, rs.Lenient)
	if err != nil {
		return err
	}
	for _, is4 := range r.nftFamilies {
		if rs.Family != 0 && is4 != (rs.Family == 4) {
			return &LoadError{Kind: Nft, Class: "wrong-family", Rule: body, Why: "ip/ip6 header match of the other IP family"}
		}
	}
	c := rs.EnsureChain(chain)
	c.rules = append(c.rules, *r)
	return nil
}

// AddNftMap installs a verdict map (members as handed to nftables.MapsDataplane.AddOrReplaceMap).
func (rs *Ruleset) AddNftMap(name string, members map[string][]string) error {
	m := map[string]string{}
	for k, v := range members {
		if len(v) != 1 {
			return &VocabError{Kind: Nft, Rule: "map " + name, Token: fmt.Sprint(v), Why: "verdict map element must have exactly one value"}
		}
		f := strings.Fields(v[0])
		switch {
		case len(f) == 2 && (f[0] == "goto" || f[0] == "jump"):
		case len(f) == 1 && (f[0] == "accept" || f[0] == "drop" || f[0] == "return" || f[0] == "continue"):
		default:
			return &VocabError{Kind: Nft, Rule: "map " + name, Token: v[0], Why: "unsupported verdict in map element"}
		}
		m[k] = strings.Join(f, " ")
	}
	rs.Maps[name] = m
	return nil
}

// Result of one evaluation.
type Result struct {
	// Verdict: ACCEPT, DROP, REJECT, RETURN (returned from / fell off the entry chain) or CHAIN:<leaf>.
	Verdict string
	Mark    uint32
	CTMark  uint32
	NoTrack bool
	// Logs: prefixes of the NFLOG/LOG/log rules that fired, in order.
	Logs []string
	// Steps: number of rules whose matches were evaluated.
	Steps int
	// Trace (only with Eval's trace=true): "chain[i] text" of every rule that fired.
	Trace []string
}

type frame struct {
	c *Chain
	i int
}

// Eval runs packet p (by value: the mark in p is the initial mark) from chain entry.
func (rs *Ruleset) Eval(entry string, p Packet, trace bool) (Result, error) {
	var res Result
	c := rs.Chains[entry]
	if c == nil {
		return res, fmt.Errorf("nfsim: entry chain %q is not defined", entry)
	}
	if p.IPVersion != 4 && p.IPVersion != 6 {
		return res, fmt.Errorf("nfsim: packet IPVersion must be 4 or 6")
	}
	mark, ctmark := p.Mark, p.CTMark
	var stack []frame
	i := 0
	finish := func(v string) (Result, error) {
		res.Verdict, res.Mark, res.CTMark = v, mark, ctmark
		return res, nil
	}
	enter := func(name string, push bool) (bool, string, error) {
		if rs.Leaves[name] {
			return true, "CHAIN:" + name, nil
		}
		t := rs.Chains[name]
		if t == nil {
			return false, "", &UndefinedChainError{Chain: name}
		}
		if push {
			if len(stack) > 64 {
				return false, "", fmt.Errorf("nfsim: jump stack deeper than 64 (loop?)")
			}
			stack = append(stack, frame{c, i + 1})
		}
		c, i = t, 0
		return false, "", nil
	}
	for {
		if res.Steps > 100000 {
			return res, fmt.Errorf("nfsim: more than 100000 steps (loop?)")
		}
		if i >= len(c.rules) {
			// implicit return
			if len(stack) == 0 {
				return finish("RETURN")
			}
			f := stack[len(stack)-1]
			stack = stack[:len(stack)-1]
			c, i = f.c, f.i
			continue
		}
		r := &c.rules[i]
		res.Steps++
		ok := true
		for _, m := range r.matches {
			if !m(&p, mark, ctmark) {
				ok = false
				break
			}
		}
		act, target := r.act, r.target
		if ok && act == actVmap {
			key := p.OutIface
			if r.vmapIn {
				key = p.InIface
			}
			mp, present := rs.Maps[r.target]
			if !present {
				return res, fmt.Errorf("nfsim: rule references undefined map %q", r.target)
			}
			v, hit := mp[key]
			if !hit {
				ok = false
			} else {
				f := strings.Fields(v)
				switch f[0] {
				case "goto":
					act, target = actGoto, f[1]
				case "jump":
					act, target = actJump, f[1]
				case "accept":
					act = actAccept
				case "drop":
					act = actDrop
				case "return":
					act = actReturn
				case "continue":
					act = actContinue
				}
			}
		}
		if !ok {
			i++
			continue
		}
		if trace {
			res.Trace = append(res.Trace, fmt.Sprintf("%s[%d] %s", c.Name, i, r.text))
		}
		switch act {
		case actNone, actContinue:
			i++
		case actAccept:
			return finish("ACCEPT")
		case actDrop:
			return finish("DROP")
		case actReject:
			return finish("REJECT")
		case actReturn:
			if len(stack) == 0 {
				return finish("RETURN")
			}
			f := stack[len(stack)-1]
			stack = stack[:len(stack)-1]
			c, i = f.c, f.i
		case actJump, actGoto:
			done, v, err := enter(target, act == actJump)
			if err != nil {
				return res, err
			}
			if done {
				return finish(v)
			}
		case actMark:
			mark = (mark & r.and) ^ r.xor
			i++
		case actLog:
			res.Logs = append(res.Logs, r.target)
			i++
		case actNoTrack:
			res.NoTrack = true
			i++
		case actCTMarkSet:
			ctmark = (ctmark & r.and) ^ r.xor
			i++
		case actCTMarkSave:
			ctmark = (ctmark &^ r.and) | (mark & r.and)
			i++
		case actCTMarkRestore:
			mark = (mark &^ r.and) | (ctmark & r.and)
			i++
		case actMarkFromCT:
			mark = ctmark & r.and
			i++
		case actCTFromMark:
			ctmark = mark & r.and
			i++
		default:
			return res, fmt.Errorf("nfsim: internal: unknown action %d", act)
		}
	}
}

// ---------------------------------------------------------------------------------------------
// shared helpers

type tok struct {
	s      string
	quoted bool
}

func first(t []tok) string {
	if len(t) == 0 {
		return ""
	}
	return t[0].s
}

// splitQuoted splits on blanks, keeping "double quoted" strings as one token (quotes removed).
func splitQuoted(s string) ([]tok, error) {
	var out []tok
	i := 0
	for i < len(s) {
		if s[i] == ' ' || s[i] == '\t' {
			i++
			continue
		}
		if s[i] == '"' {
			j := strings.IndexByte(s[i+1:], '"')
			if j < 0 {
				return nil, fmt.Errorf("unterminated quote")
			}
			out = append(out, tok{s[i+1 : i+1+j], true})
			i += j + 2
			continue
		}
		j := i
		for j < len(s) && s[j] != ' ' && s[j] != '\t' {
			j++
		}
		out = append(out, tok{s[i:j], false})
		i = j
	}
	return out, nil
}

func parseU32(s string) (uint32, bool) {
	v, err := strconv.ParseUint(s, 0, 32)
	return uint32(v), err == nil
}

func parseMarkMask(s string) (val, mask uint32, ok bool) {
	a, b, has := strings.Cut(s, "/")
	val, ok = parseU32(a)
	if !ok {
		return
	}
	mask = 0xffffffff
	if has {
		mask, ok = parseU32(b)
	}
	return
}

var protoNames = map[string]int{
	"icmp": ProtoICMP, "ipip": ProtoIPIP, "ipencap": ProtoIPIP, "tcp": ProtoTCP, "udp": ProtoUDP, "icmpv6": ProtoICMPv6, "ipv6-icmp": ProtoICMPv6,
	"sctp": ProtoSCTP, "udplite": ProtoUDPLite,
}

func parseProto(s string) (int, bool) {
	if n, err := strconv.Atoi(s); err == nil && n >= 0 && n <= 255 {
		return n, true
	}
	n, ok := protoNames[strings.ToLower(s)]
	return n, ok
}

func parsePrefix(s string, wantV6 bool) (netip.Prefix, bool) {
	var pfx netip.Prefix
	if strings.Contains(s, "/") {
		p, err := netip.ParsePrefix(s)
		if err != nil {
			return pfx, false
		}
		pfx = p.Masked()
		if pfx != p {
			// netfilter masks the address itself, keep that behaviour
			pfx = p.Masked()
		}
	} else {
		a, err := netip.ParseAddr(s)
		if err != nil {
			return pfx, false
		}
		pfx = netip.PrefixFrom(a, a.BitLen())
	}
	return pfx, true
}

type portRange struct{ lo, hi int }

func parsePort(s string) (int, bool) {
	n, err := strconv.Atoi(s)
	if err != nil || n < 0 || n > 65535 {
		return 0, false
	}
	return n, true
}

func inRanges(rs []portRange, p int) bool {
	for _, r := range rs {
		if p >= r.lo && p <= r.hi {
			return true
		}
	}
	return false
}

func ifaceMatcher(pattern string, wildcard byte) func(string) bool {
	if n := len(pattern); n > 0 && pattern[n-1] == wildcard {
		pfx := pattern[:n-1]
		return func(s string) bool { return strings.HasPrefix(s, pfx) }
	}
	return func(s string) bool { return s == pattern }
}

func ctState(p *Packet) string {
	if p.CTState == "" {
		return "NEW"
	}
	return strings.ToUpper(p.CTState)
}

var ctStates = map[string]bool{"NEW": true, "ESTABLISHED": true, "RELATED": true, "INVALID": true, "UNTRACKED": true}
var ctStatuses = map[string]bool{"DNAT": true, "SNAT": true, "ASSURED": true, "CONFIRMED": true, "SEEN_REPLY": true, "EXPECTED": true}
var addrTypes = map[string]bool{"LOCAL": true, "UNICAST": true, "BROADCAST": true, "MULTICAST": true, "ANYCAST": true, "UNSPEC": true, "BLACKHOLE": true, "UNREACHABLE": true, "PROHIBIT": true}

func listMatcher(list string, valid map[string]bool) (map[string]bool, bool) {
	m := map[string]bool{}
	for _, s := range strings.Split(list, ",") {
		s = strings.ToUpper(strings.TrimSpace(s))
		if !valid[s] {
			return nil, false
		}
		m[s] = true
	}
	return m, len(m) > 0
}

func addrType(s string) string {
	if s == "" {
		return "UNICAST"
	}
	return strings.ToUpper(s)
}

func statusHas(p *Packet, want map[string]bool) bool {
	if p.CTStatus == "" {
		return false
	}
	for _, s := range strings.Split(p.CTStatus, ",") {
		if want[strings.ToUpper(strings.TrimSpace(s))] {
			return true
		}
	}
	return false
}

package casstore

import (
	"github.com/projectcalico/calico/zzverif/sched"
)

// AttachSched makes every non-static operation performed with a context that carries a sched
// logical thread a scheduling point of that thread's execution:
//
//   - before the operation the thread parks in sched.Exec.Yield until the scheduler releases it;
//   - the fault chosen by the scheduler is applied: conflict → the store bumps the object's
//     revision first (casstore.Conflict); crash-before → the thread never returns from the hook;
//     crash-after → the operation is applied and the thread is killed in the after-hook;
//   - after the operation the result digest is recorded as the thread's observation.
//
// Operations whose context carries no logical thread (world set-up, oracles) run unhooked.
func (s *Store) AttachSched() {
	s.SetHooks(func(op *Op) Decision {
		x, tid, ok := sched.FromContext(op.Ctx)
		if !ok || op.Static {
			return Decision{}
		}
		f := x.Yield(tid, sched.Point{
			Label:       op.String(),
			Write:       op.Write,
			CanConflict: func() bool { return s.CanConflict(op) },
		})
		if f == sched.FaultConflict {
			return Decision{Action: Conflict}
		}
		return Decision{}
	}, func(op *Op, res *Result) {
		x, tid, ok := sched.FromContext(op.Ctx)
		if !ok || op.Static {
			return
		}
		x.Observe(tid, res.Digest())
	})
}

// Package casstore is an in-memory implementation of libcalico-go's backend api.Client with the
// compare-and-swap semantics of the etcdv3 / Kubernetes backends:
//
//   - Create fails with ErrorResourceAlreadyExists if the key exists;
//   - Update of a missing key fails with ErrorResourceDoesNotExist; Update/Delete/DeleteKVP that
//     carry a revision fail with ErrorResourceUpdateConflict unless it is the current revision
//     (an empty revision means "unconditional", as with the Kubernetes backend);
//   - Apply creates or overwrites unconditionally;
//   - Get/List return ErrorResourceDoesNotExist / an empty list; List takes any
//     model.ListInterface and behaves like the etcd backend (prefix scan from the list options'
//     default path root, filtered through KeyFromDefaultPath), which covers BlockListOptions,
//     BlockAffinityListOptions, IPAMHandleListOptions, ResourceListOptions (IPPool, Node,
//     IPReservation, IPAMConfiguration ...), incl. label selectors;
//   - values cross every boundary by value: they are stored as the JSON bytes the real backends
//     store (model.SerializeValue / model.ParseValue), so callers never share memory with the store
//     or with each other and time stamps are truncated to seconds exactly as in a real datastore;
//     the KVPair passed to a write is NOT modified (Kubernetes-backend behaviour);
//   - revisions increase monotonically (one global counter, etcd mod-revision style; optionally one
//     counter per key that survives deletion, see PerKeyRevisions).
//
// Every operation first calls a pluggable Hook (before anything is read or written, no lock held)
// so that a scheduler can park the calling logical thread and inject faults, and an AfterHook once
// the operation has been applied (so a scheduler can record what the thread observed, or kill the
// thread after its write took effect).
//
// Overlaid into the calico module as github.com/projectcalico/calico/zzverif/casstore.
package casstore

import (
	"context"
	"errors"
	"fmt"
	"sort"
	"strconv"
	"strings"
	"sync"

	metav1 "k8s.io/apimachinery/pkg/apis/meta/v1"
	"k8s.io/apimachinery/pkg/labels"

	bapi "github.com/projectcalico/calico/libcalico-go/lib/backend/api"
	"github.com/projectcalico/calico/libcalico-go/lib/backend/model"
	cerrors "github.com/projectcalico/calico/libcalico-go/lib/errors"
	"github.com/projectcalico/calico/zzverif/vclock"
)

// Kind of a datastore operation.
type Kind int

const (
	OpGet Kind = iota
	OpList
	OpCreate
	OpUpdate
	OpApply
	OpDelete // Delete and DeleteKVP
)

func (k Kind) String() string {
	return [...]string{"Get", "List", "Create", "Update", "Apply", "Delete"}[k]
}

// Op describes one datastore operation at the moment it is about to be performed.
type Op struct {
	Ctx   context.Context
	Kind  Kind
	Path  string              // default path of the key, or the list root for List
	Key   model.Key           // nil for List
	List  model.ListInterface // only for List
	Rev   string              // revision supplied by the caller ("" = unconditional)
	Write bool
	// Static is true when Path lies under a prefix declared immutable with SetStatic (the
	// operation cannot interact with any other logical thread).
	Static bool
	// Tag is free for the hook owner (e.g. to carry a decision from Hook to AfterHook).
	Tag any
}

func (o *Op) String() string {
	if o.Rev != "" {
		return o.Kind.String() + " " + o.Path + " @" + o.Rev
	}
	return o.Kind.String() + " " + o.Path
}

// Action is what the hook tells the store to do with an operation.
type Action int

const (
	// Proceed performs the operation normally.
	Proceed Action = iota
	// Conflict makes the environment touch the object first (its revision is bumped, contents
	// unchanged — as if another client had just rewritten it), then performs the operation: a
	// revision-carrying Update/Delete then genuinely fails its compare-and-swap.
	Conflict
	// FailBefore returns Decision.Err without touching the store.
	FailBefore
	// FailAfter performs the operation and then returns Decision.Err instead of the result
	// (a lost reply).
	FailAfter
)

// Decision is the hook's verdict on an operation.
type Decision struct {
	Action Action
	Err    error
}

// Hook is called first thing in every operation; it may block for as long as it likes.
type Hook func(op *Op) Decision

// Result is what an operation produced; passed to the AfterHook.
type Result struct {
	KVP  *model.KVPair
	List *model.KVPairList
	Err  error
}

// Digest is a compact canonical rendering of the result (what the caller observed).
func (r *Result) Digest() string {
	var b strings.Builder
	if r.Err != nil {
		fmt.Fprintf(&b, "E:%T", r.Err)
	}
	if r.KVP != nil {
		d, _ := model.SerializeValue(r.KVP)
		fmt.Fprintf(&b, "|%s@%s", d, r.KVP.Revision)
	}
	if r.List != nil {
		for _, kv := range r.List.KVPairs {
			d, _ := model.SerializeValue(kv)
			p, _ := model.KeyToDefaultPath(kv.Key)
			fmt.Fprintf(&b, "|%s=%s@%s", p, d, kv.Revision)
		}
	}
	return b.String()
}

// AfterHook is called after the operation has been applied (or has failed), before it returns.
type AfterHook func(op *Op, res *Result)

type entry struct {
	key  model.Key
	data []byte
	rev  int64
}

// Stats are cumulative operation counts.
type Stats struct {
	Ops, Writes, CASConflicts, InjectedConflicts int64
}

// Store is the datastore. The zero value is not usable; call New.
type Store struct {
	mu     sync.Mutex
	objs   map[string]*entry
	perKey map[string]int64
	rev    int64
	// PerKeyRevisions makes revisions per-key counters (that survive delete/re-create) instead of
	// one global counter. CAS behaviour is identical; store contents then do not depend on the
	// order in which writes to different keys were interleaved (useful for state-key pruning).
	PerKeyRevisions bool
	before          Hook
	after           AfterHook
	static          []string
	stats           Stats
}

var _ bapi.Client = (*Store)(nil)

// New returns an empty store.
func New() *Store {
	return &Store{objs: map[string]*entry{}, perKey: map[string]int64{}}
}

// SetHooks installs the hooks (either may be nil).
func (s *Store) SetHooks(before Hook, after AfterHook) { s.before, s.after = before, after }

// SetStatic declares key-path prefixes that are never written while hooks are active; operations on
// them carry Op.Static so that a scheduler may skip them as scheduling points (they commute with
// everything). A hooked write to a static path panics.
func (s *Store) SetStatic(prefixes ...string) { s.static = prefixes }

func (s *Store) isStatic(path string) bool {
	for _, p := range s.static {
		if strings.HasPrefix(path, p) {
			return true
		}
	}
	return false
}

// Stats returns the cumulative counters.
func (s *Store) Stats() Stats {
	s.mu.Lock()
	defer s.mu.Unlock()
	return s.stats
}

func (s *Store) nextRev(path string) int64 {
	s.rev++
	if s.PerKeyRevisions {
		s.perKey[path]++
		return s.perKey[path]
	}
	return s.rev
}

func revStr(r int64) string { return strconv.FormatInt(r, 10) }

func (s *Store) pre(op *Op) Decision {
	vclock.BindCtx(op.Ctx)
	op.Static = s.isStatic(op.Path)
	if op.Static && op.Write && s.before != nil {
		panic("casstore: write to a path declared static: " + op.Path)
	}
	if s.before == nil {
		return Decision{}
	}
	return s.before(op)
}

func (s *Store) post(op *Op, res *Result) {
	if s.after != nil {
		s.after(op, res)
	}
}

func (e *entry) kvp(key model.Key) (*model.KVPair, error) {
	v, err := model.ParseValue(key, e.data)
	if err != nil {
		return nil, cerrors.ErrorDatastoreError{Err: err, Identifier: key}
	}
	return &model.KVPair{Key: key, Value: v}, nil
}

// CanConflict reports whether injecting Conflict before op would turn a compare-and-swap that is
// about to succeed into a failure (the object exists and the caller holds its current revision).
// Only meaningful while no other operation is in flight.
func (s *Store) CanConflict(op *Op) bool {
	if op.Kind != OpUpdate && op.Kind != OpDelete {
		return false
	}
	if op.Rev == "" {
		return false
	}
	s.mu.Lock()
	defer s.mu.Unlock()
	e := s.objs[op.Path]
	return e != nil && revStr(e.rev) == op.Rev
}

// bump rewrites the object with a new revision (environment write with unchanged contents).
func (s *Store) bumpLocked(path string) {
	if e := s.objs[path]; e != nil {
		e.rev = s.nextRev(path)
		s.stats.InjectedConflicts++
	}
}

func (s *Store) finish(op *Op, dec Decision, kvp *model.KVPair, err error) (*model.KVPair, error) {
	if dec.Action == FailAfter {
		kvp, err = nil, dec.Err
	}
	res := &Result{KVP: kvp, Err: err}
	s.post(op, res)
	return kvp, err
}

func keyPath(k model.Key) (string, error) {
	p, err := model.KeyToDefaultPath(k)
	if err != nil {
		return "", cerrors.ErrorDatastoreError{Err: err, Identifier: k}
	}
	return p, nil
}

func (s *Store) write(ctx context.Context, kind Kind, d *model.KVPair) (*model.KVPair, error) {
	path, err := keyPath(d.Key)
	if err != nil {
		return nil, err
	}
	data, err := model.SerializeValue(d)
	if err != nil {
		return nil, cerrors.ErrorDatastoreError{Err: err, Identifier: d.Key}
	}
	op := &Op{Ctx: ctx, Kind: kind, Path: path, Key: d.Key, Rev: d.Revision, Write: true}
	if kind != OpUpdate {
		op.Rev = ""
	}
	dec := s.pre(op)
	if dec.Action == FailBefore {
		return s.finish(op, Decision{}, nil, dec.Err)
	}
	s.mu.Lock()
	s.stats.Ops++
	s.stats.Writes++
	if dec.Action == Conflict {
		s.bumpLocked(path)
	}
	cur := s.objs[path]
	var out *model.KVPair
	switch kind {
	case OpCreate:
		if cur != nil {
			out, _ = cur.kvp(d.Key)
			if out != nil {
				out.Revision = revStr(cur.rev)
			}
			err = cerrors.ErrorResourceAlreadyExists{Identifier: d.Key}
		}
	case OpUpdate:
		if cur == nil {
			err = cerrors.ErrorResourceDoesNotExist{Identifier: d.Key}
		} else if d.Revision != "" && d.Revision != revStr(cur.rev) {
			s.stats.CASConflicts++
			out, _ = cur.kvp(d.Key)
			if out != nil {
				out.Revision = revStr(cur.rev)
			}
			err = cerrors.ErrorResourceUpdateConflict{Identifier: d.Key}
		}
	case OpApply:
	}
	if err == nil {
		e := &entry{key: d.Key, data: data, rev: s.nextRev(path)}
		s.objs[path] = e
		out, err = e.kvp(d.Key)
		if out != nil {
			out.Revision = revStr(e.rev)
			out.UID = d.UID
		}
	}
	s.mu.Unlock()
	return s.finish(op, dec, out, err)
}

// Create implements api.Client.
func (s *Store) Create(ctx context.Context, d *model.KVPair) (*model.KVPair, error) {
	return s.write(ctx, OpCreate, d)
}

// Update implements api.Client.
func (s *Store) Update(ctx context.Context, d *model.KVPair) (*model.KVPair, error) {
	return s.write(ctx, OpUpdate, d)
}

// Apply implements api.Client.
func (s *Store) Apply(ctx context.Context, d *model.KVPair) (*model.KVPair, error) {
	return s.write(ctx, OpApply, d)
}

// DeleteKVP implements api.Client.
func (s *Store) DeleteKVP(ctx context.Context, d *model.KVPair) (*model.KVPair, error) {
	return s.Delete(ctx, d.Key, d.Revision)
}

// Delete implements api.Client (exact-key delete, optional compare on revision).
func (s *Store) Delete(ctx context.Context, k model.Key, revision string) (*model.KVPair, error) {
	path, err := model.KeyToDefaultDeletePath(k)
	if err != nil {
		return nil, cerrors.ErrorDatastoreError{Err: err, Identifier: k}
	}
	op := &Op{Ctx: ctx, Kind: OpDelete, Path: path, Key: k, Rev: revision, Write: true}
	dec := s.pre(op)
	if dec.Action == FailBefore {
		return s.finish(op, Decision{}, nil, dec.Err)
	}
	s.mu.Lock()
	s.stats.Ops++
	s.stats.Writes++
	if dec.Action == Conflict {
		s.bumpLocked(path)
	}
	cur := s.objs[path]
	var out *model.KVPair
	switch {
	case cur == nil:
		err = cerrors.ErrorResourceDoesNotExist{Identifier: k}
	case revision != "" && revision != revStr(cur.rev):
		s.stats.CASConflicts++
		out, _ = cur.kvp(k)
		if out != nil {
			out.Revision = revStr(cur.rev)
		}
		err = cerrors.ErrorResourceUpdateConflict{Identifier: k}
	default:
		out, _ = cur.kvp(k)
		if out != nil {
			out.Revision = revStr(cur.rev)
		}
		delete(s.objs, path)
		s.rev++
	}
	s.mu.Unlock()
	return s.finish(op, dec, out, err)
}

// Get implements api.Client. A non-empty revision is ignored (no history is kept).
func (s *Store) Get(ctx context.Context, k model.Key, revision string) (*model.KVPair, error) {
	path, err := keyPath(k)
	if err != nil {
		return nil, err
	}
	op := &Op{Ctx: ctx, Kind: OpGet, Path: path, Key: k}
	dec := s.pre(op)
	if dec.Action == FailBefore {
		return s.finish(op, Decision{}, nil, dec.Err)
	}
	s.mu.Lock()
	s.stats.Ops++
	var out *model.KVPair
	if cur := s.objs[path]; cur == nil {
		err = cerrors.ErrorResourceDoesNotExist{Identifier: k}
	} else {
		out, err = cur.kvp(k)
		if out != nil {
			out.Revision = revStr(cur.rev)
		}
	}
	s.mu.Unlock()
	return s.finish(op, dec, out, err)
}

// List implements api.Client with the etcd backend's prefix-scan semantics.
func (s *Store) List(ctx context.Context, l model.ListInterface, revision string) (*model.KVPairList, error) {
	root := model.ListOptionsToDefaultPathRoot(l)
	op := &Op{Ctx: ctx, Kind: OpList, Path: root, List: l}
	dec := s.pre(op)
	if dec.Action == FailBefore || dec.Action == FailAfter {
		res := &Result{Err: dec.Err}
		s.post(op, res)
		return nil, dec.Err
	}
	exact := false
	prefix := root
	if model.IsListOptionsLastSegmentPrefix(l) {
		// name prefix: scan without adding a delimiter
	} else if model.ListOptionsIsFullyQualified(l) {
		exact = true
	} else if !strings.HasSuffix(prefix, "/") {
		prefix += "/"
	}
	s.mu.Lock()
	s.stats.Ops++
	var paths []string
	for p := range s.objs {
		if (exact && p == prefix) || (!exact && strings.HasPrefix(p, prefix)) {
			paths = append(paths, p)
		}
	}
	sort.Strings(paths)
	out := &model.KVPairList{KVPairs: []*model.KVPair{}, Revision: revStr(s.rev)}
	var err error
	for _, p := range paths {
		k := l.KeyFromDefaultPath(p)
		if k == nil {
			continue
		}
		e := s.objs[p]
		v, perr := model.ParseValue(k, e.data)
		if perr != nil {
			continue
		}
		out.KVPairs = append(out.KVPairs, &model.KVPair{Key: k, Value: v, Revision: revStr(e.rev)})
	}
	s.mu.Unlock()
	if ls, ok := l.(model.LabelSelectingListInterface); ok {
		if sel := ls.GetLabelSelector(); sel != nil {
			kept := out.KVPairs[:0]
			for _, kv := range out.KVPairs {
				if o, ok := kv.Value.(metav1.Object); ok && !sel.Matches(labels.Set(o.GetLabels())) {
					continue
				}
				kept = append(kept, kv)
			}
			out.KVPairs = kept
		}
	}
	res := &Result{List: out, Err: err}
	s.post(op, res)
	return out, err
}

// Watch is not supported.
func (s *Store) Watch(ctx context.Context, l model.ListInterface, o bapi.WatchOptions) (bapi.WatchInterface, error) {
	return nil, cerrors.ErrorOperationNotSupported{Operation: "Watch", Identifier: l}
}

// EnsureInitialized implements api.Client.
func (s *Store) EnsureInitialized() error { return nil }

// Clean removes everything.
func (s *Store) Clean() error {
	s.mu.Lock()
	s.objs = map[string]*entry{}
	s.rev++
	s.mu.Unlock()
	return nil
}

// Close implements api.Client.
func (s *Store) Close() error { return nil }

// ---- un-hooked access for harnesses -------------------------------------------------------

// Item is one stored object as seen by a harness.
type Item struct {
	Path     string
	Key      model.Key
	Value    any // freshly parsed; safe to mutate
	Data     string
	Revision string
}

// Snapshot returns every object whose path starts with prefix, sorted by path, bypassing hooks.
func (s *Store) Snapshot(prefix string) []Item {
	s.mu.Lock()
	defer s.mu.Unlock()
	var paths []string
	for p := range s.objs {
		if strings.HasPrefix(p, prefix) {
			paths = append(paths, p)
		}
	}
	sort.Strings(paths)
	out := make([]Item, 0, len(paths))
	for _, p := range paths {
		e := s.objs[p]
		v, _ := model.ParseValue(e.key, e.data)
		out = append(out, Item{Path: p, Key: e.key, Value: v, Data: string(e.data), Revision: revStr(e.rev)})
	}
	return out
}

// Dump renders the store contents canonically (sorted "path=json[@rev]" lines).
func (s *Store) Dump(withRevisions bool) string {
	s.mu.Lock()
	defer s.mu.Unlock()
	paths := make([]string, 0, len(s.objs))
	for p := range s.objs {
		paths = append(paths, p)
	}
	sort.Strings(paths)
	var b strings.Builder
	for _, p := range paths {
		e := s.objs[p]
		b.WriteString(p)
		b.WriteByte('=')
		b.Write(e.data)
		if withRevisions {
			b.WriteByte('@')
			b.WriteString(revStr(e.rev))
		}
		b.WriteByte('\n')
	}
	return b.String()
}

// Put writes an object unconditionally, bypassing hooks (world set-up).
func (s *Store) Put(d *model.KVPair) {
	path, err := keyPath(d.Key)
	if err != nil {
		panic(err)
	}
	data, err := model.SerializeValue(d)
	if err != nil {
		panic(err)
	}
	s.mu.Lock()
	s.objs[path] = &entry{key: d.Key, data: data, rev: s.nextRev(path)}
	s.mu.Unlock()
}

// Remove deletes an object unconditionally, bypassing hooks; reports whether it existed.
func (s *Store) Remove(k model.Key) bool {
	path, err := keyPath(k)
	if err != nil {
		panic(err)
	}
	s.mu.Lock()
	defer s.mu.Unlock()
	_, ok := s.objs[path]
	delete(s.objs, path)
	s.rev++
	return ok
}

// Len is the number of stored objects.
func (s *Store) Len() int {
	s.mu.Lock()
	defer s.mu.Unlock()
	return len(s.objs)
}

// ErrInjected is a ready-made error for FailBefore/FailAfter decisions.
var ErrInjected = cerrors.ErrorDatastoreError{Err: errors.New("casstore: injected datastore failure")}

// Package hbfs is an explicit-state breadth-first explorer over the REAL transition function of a
// component: a state is identified with the event history that reaches it; a successor is computed
// by replaying the history on a fresh instance and applying one more event. States are
// de-duplicated by a canonical key (graph mode) or not at all (tree mode, Key == nil).
package hbfs

import (
	"crypto/sha256"
	"fmt"
	"runtime"
	"sync"
	"sync/atomic"

	"github.com/projectcalico/calico/zzverif/vk"
)

// Fail is one oracle failure. Key identifies the failing shape for known-finding matching.
type Fail struct {
	Key string
	Msg string
}

// Spec closes a component into a transition system.
type Spec[S any, E any] struct {
	Name string
	// New builds a fresh instance of the real component plus its reference model.
	New func() S
	// Apply performs one event on the real component (and the reference). A panic is a violation.
	Apply func(s S, e E)
	// Enabled is the event menu in state s (deterministic order).
	Enabled func(s S, depth int) []E
	// Key is the canonical state key; nil selects tree mode (no merging).
	Key func(s S) string
	// Check is evaluated in every state reached (after every Apply).
	Check func(s S, hist []E) []Fail
	// Close releases an instance (may be nil).
	Close func(s S)
	// Show renders an event for replay files (default %v).
	Show func(e E) string
	// Nontrivial, if set, says whether the state reached is non-trivial (for evidence counts).
	Nontrivial func(s S) bool
	// Outcome, if set, classifies the state for the distinct-outcomes count.
	Outcome  func(s S) string
	MaxDepth int
	Workers  int
	// PanicKey maps a panic to a violation key (default "panic:"+first line).
	PanicKey func(val string, hist []E) string
	// CountPrefix prefixes the counters (states/transitions) so several explorations can add up.
	Quiet bool
}

type node[E any] struct {
	parent *node[E]
	ev     E
	depth  int
}

func (n *node[E]) hist() []E {
	if n == nil {
		return nil
	}
	h := make([]E, n.depth)
	for x := n; x != nil && x.depth > 0; x = x.parent {
		h[x.depth-1] = x.ev
	}
	return h
}

// Stats of one exploration.
type Stats struct {
	States      int64
	Transitions int64
	Depth       int
	Complete    bool
	Violations  int64
}

func (sp *Spec[S, E]) show(e E) string {
	if sp.Show != nil {
		return sp.Show(e)
	}
	return fmt.Sprintf("%v", e)
}

func (sp *Spec[S, E]) showHist(h []E) []string {
	out := make([]string, len(h))
	for i, e := range h {
		out[i] = sp.show(e)
	}
	return out
}

type succ struct {
	key  [16]byte
	evIx int
	ok   bool // expand further
}

// build replays hist on a fresh instance; on panic returns the failure.
func (sp *Spec[S, E]) build(hist []E) (s S, perr *vk.PanicError) {
	err := vk.Catch(func() error {
		s = sp.New()
		for _, e := range hist {
			sp.Apply(s, e)
		}
		return nil
	})
	if err != nil {
		perr = err.(*vk.PanicError)
	}
	return
}

// Explore runs the search and records states/transitions/violations into c.
func Explore[S any, E any](c *vk.Ctx, sp *Spec[S, E]) Stats {
	workers := sp.Workers
	if workers <= 0 {
		workers = runtime.NumCPU()
	}
	var st Stats
	seen := map[[16]byte]struct{}{}
	root := &node[E]{}
	frontier := []*node[E]{root}
	// initial state
	s0, perr := sp.build(nil)
	if perr != nil {
		c.Violation(sp.Name+":panic-in-initial-state", map[string]any{"panic": perr.Val, "stack": perr.Stack})
		return st
	}
	if sp.Key != nil {
		seen[sha(sp.Key(s0))] = struct{}{}
	}
	if sp.Check != nil {
		for _, f := range sp.Check(s0, nil) {
			c.Violation(f.Key, map[string]any{"spec": sp.Name, "history": []string{}, "msg": f.Msg})
		}
	}
	if sp.Close != nil {
		sp.Close(s0)
	}
	st.States = 1
	st.Complete = true
	var trans, viol int64
	for depth := 0; depth < sp.MaxDepth && len(frontier) > 0; depth++ {
		results := make([][]succ, len(frontier))
		menus := make([][]E, len(frontier))
		var next int64 = -1
		var stopped int32
		var wg sync.WaitGroup
		for w := 0; w < workers; w++ {
			wg.Add(1)
			go func() {
				defer wg.Done()
				for {
					i := int(atomic.AddInt64(&next, 1))
					if i >= len(frontier) {
						return
					}
					if c.Expired() {
						atomic.StoreInt32(&stopped, 1)
						return
					}
					n := frontier[i]
					h := n.hist()
					s, perr := sp.build(h)
					if perr != nil {
						// cannot happen: this history was applied successfully before
						c.ToolError(fmt.Sprintf("%s: non-deterministic replay of %v: %s", sp.Name, sp.showHist(h), perr.Val))
						return
					}
					menu := sp.Enabled(s, depth)
					menus[i] = menu
					res := make([]succ, len(menu))
					for j, ev := range menu {
						var cur S
						if j == 0 {
							cur = s
						} else {
							var pe *vk.PanicError
							cur, pe = sp.build(h)
							if pe != nil {
								c.ToolError(fmt.Sprintf("%s: non-deterministic replay of %v: %s", sp.Name, sp.showHist(h), pe.Val))
								return
							}
						}
						hh := append(append(make([]E, 0, len(h)+1), h...), ev)
						var fails []Fail
						var key string
						err := vk.Catch(func() error {
							sp.Apply(cur, ev)
							if sp.Check != nil {
								fails = sp.Check(cur, hh)
							}
							if sp.Key != nil {
								key = sp.Key(cur)
							}
							if sp.Nontrivial != nil && sp.Nontrivial(cur) {
								if sp.Key != nil {
									c.Nontrivial(sp.Name + "|" + key)
								} else {
									c.Nontrivial(sp.Name + "|" + fmt.Sprint(sp.showHist(hh)))
								}
							}
							if sp.Outcome != nil {
								c.Outcome(sp.Outcome(cur))
							}
							return nil
						})
						atomic.AddInt64(&trans, 1)
						if err != nil {
							pe := err.(*vk.PanicError)
							k := sp.Name + ":panic:" + firstLine(pe.Val)
							if sp.PanicKey != nil {
								k = sp.PanicKey(pe.Val, hh)
							}
							c.Violation(k, map[string]any{"spec": sp.Name, "history": sp.showHist(hh), "panic": pe.Val, "stack": pe.Stack})
							atomic.AddInt64(&viol, 1)
							continue // instance is poisoned; do not Close, do not expand
						}
						for _, f := range fails {
							c.Violation(f.Key, map[string]any{"spec": sp.Name, "history": sp.showHist(hh), "msg": f.Msg})
							atomic.AddInt64(&viol, 1)
						}
						if sp.Close != nil {
							sp.Close(cur)
						}
						res[j] = succ{evIx: j, ok: len(fails) == 0}
						if sp.Key != nil {
							res[j].key = sha(key)
						}
					}
					if len(menu) == 0 && sp.Close != nil {
						sp.Close(s)
					}
					results[i] = res
				}
			}()
		}
		wg.Wait()
		if atomic.LoadInt32(&stopped) == 1 {
			c.Capped(fmt.Sprintf("%s: deadline during depth %d (depth %d complete)", sp.Name, depth+1, depth))
			st.Complete = false
			break
		}
		// deterministic merge
		var nf []*node[E]
		for i, res := range results {
			for _, r := range res {
				if !r.ok {
					continue
				}
				if sp.Key != nil {
					if _, dup := seen[r.key]; dup {
						continue
					}
					seen[r.key] = struct{}{}
				}
				st.States++
				if depth+1 < sp.MaxDepth {
					nf = append(nf, &node[E]{parent: frontier[i], ev: menus[i][r.evIx], depth: depth + 1})
				}
			}
		}
		frontier = nf
		st.Depth = depth + 1
	}
	st.Transitions = trans
	st.Violations = viol
	c.Add("states", st.States)
	c.Add("transitions", st.Transitions)
	c.Max("max_depth", int64(st.Depth))
	mode := "graph"
	if sp.Key == nil {
		mode = "tree"
	}
	c.Extra("explore:"+sp.Name, map[string]any{"mode": mode, "depth": st.Depth, "states": st.States, "transitions": st.Transitions, "complete": st.Complete})
	if !sp.Quiet {
		fmt.Printf("hbfs %-28s mode=%s depth=%d states=%d transitions=%d complete=%v violations=%d\n", sp.Name, mode, st.Depth, st.States, st.Transitions, st.Complete, viol)
	}
	return st
}

// Replay re-executes a recorded history (by rendered event) and returns the failures found.
func Replay[S any, E any](sp *Spec[S, E], hist []string) (fails []Fail, err error) {
	var s S
	if e := vk.Catch(func() error { s = sp.New(); return nil }); e != nil {
		return []Fail{{Key: sp.Name + ":panic-in-initial-state", Msg: e.Error()}}, nil
	}
	var hh []E
	for i, want := range hist {
		menu := sp.Enabled(s, i)
		found := false
		for _, ev := range menu {
			if sp.show(ev) == want {
				hh = append(hh, ev)
				var fs []Fail
				e := vk.Catch(func() error {
					sp.Apply(s, ev)
					if sp.Check != nil {
						fs = sp.Check(s, hh)
					}
					return nil
				})
				if e != nil {
					pe := e.(*vk.PanicError)
					k := sp.Name + ":panic:" + firstLine(pe.Val)
					if sp.PanicKey != nil {
						k = sp.PanicKey(pe.Val, hh)
					}
					return []Fail{{Key: k, Msg: pe.Val + "\n" + pe.Stack}}, nil
				}
				fails = append(fails, fs...)
				found = true
				break
			}
		}
		if !found {
			return fails, fmt.Errorf("replay diverged at step %d: event %q not enabled", i, want)
		}
	}
	return fails, nil
}

func sha(s string) (k [16]byte) {
	h := sha256.Sum256([]byte(s))
	copy(k[:], h[:16])
	return
}

func firstLine(s string) string {
	for i, ch := range s {
		if ch == '\n' {
			return s[:i]
		}
	}
	if len(s) > 160 {
		return s[:160]
	}
	return s
}

//go:build vclockasm

package vclock

import (
	"sync"
	"unsafe"

	vgoid "github.com/projectcalico/calico/design/ipam"
)

// Fast goroutine id: read the goid field of the runtime's g through its address (asm/goid_amd64.s, overlaid as package design/ipam).
// The field offset is not hard-coded: it is calibrated at start-up against the portable
// runtime.Stack-based id in several fresh goroutines (the one word offset at which every
// goroutine's g holds its id); if calibration is not unambiguous the portable path is used.

func getg() uintptr { return vgoid.Getg() }

var goidOffset = calibrate()

func calibrate() uintptr {
	const span = 512
	cand := map[uintptr]int{}
	var mu sync.Mutex
	var wg sync.WaitGroup
	const n = 12
	for i := 0; i < n; i++ {
		wg.Add(1)
		go func() {
			defer wg.Done()
			id := slowGoid()
			g := getg()
			mu.Lock()
			for off := uintptr(0); off < span; off += 8 {
				if *(*uint64)(unsafe.Pointer(g + off)) == id {
					cand[off]++
				}
			}
			mu.Unlock()
		}()
	}
	wg.Wait()
	var found []uintptr
	for off, c := range cand {
		if c == n {
			found = append(found, off)
		}
	}
	if len(found) == 1 {
		return found[0]
	}
	return 0
}

func goid() uint64 {
	if goidOffset == 0 {
		return slowGoid()
	}
	return *(*uint64)(unsafe.Pointer(getg() + goidOffset))
}

// FastGoid reports whether the calibrated fast path is in use.
func FastGoid() bool { return goidOffset != 0 }

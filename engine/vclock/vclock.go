// Package vclock provides logical clocks that replace the wall clock inside code under exploration.
//
// The rewritten source calls the package-level Now()/Since() (no context available at those call
// sites), so a clock is located through the *calling goroutine*: a goroutine is bound to a Clock
// with Bind (thread bodies) or BindCtx (the datastore stand-in binds whichever goroutine performs an
// operation to the clock carried in the operation's context, which catches helper goroutines the
// code under test spawns itself). Every logical thread gets its own clock (like unsynchronised
// hosts): the values a thread observes are then a function of that thread's own history only,
// which keeps executions deterministic whatever the interleaving and however many worlds run in
// parallel in one process.
//
// A Clock ticks on every read (default 1 ms per read: a realistic lower bound for one datastore
// round trip), so successive reads are strictly increasing and a "now"-derived identifier is never
// repeated by the same clock.
//
// Overlaid into the calico module as github.com/projectcalico/calico/zzverif/vclock. No calico
// imports (it is imported by rewritten calico packages).
package vclock

import (
	"context"
	"runtime"
	"sync"
	"sync/atomic"
	"time"
)

// Base is the default origin of logical time. The fractional half second is deliberate: stored
// timestamps are truncated to whole seconds by the (JSON) datastore encoding, exactly as with
// etcd/Kubernetes, so "released at T" reads back as strictly before "now" on the next read.
var Base = time.Date(2030, 1, 1, 12, 0, 0, 500_000_000, time.UTC)

// Clock is one logical clock.
type Clock struct {
	mu    sync.Mutex
	now   time.Time
	tick  time.Duration
	reads int64
	goids []uint64
}

// New returns a clock starting at Base+offset that advances by tick on every read (tick<=0: 1ms).
func New(offset, tick time.Duration) *Clock {
	if tick <= 0 {
		tick = time.Millisecond
	}
	return &Clock{now: Base.Add(offset), tick: tick}
}

// Now returns the current logical time and advances the clock by one tick.
func (c *Clock) Now() time.Time {
	c.mu.Lock()
	t := c.now
	c.now = c.now.Add(c.tick)
	c.reads++
	c.mu.Unlock()
	return t
}

// Peek returns the current logical time without advancing.
func (c *Clock) Peek() time.Time {
	c.mu.Lock()
	defer c.mu.Unlock()
	return c.now
}

// Advance moves the clock forward by d.
func (c *Clock) Advance(d time.Duration) {
	c.mu.Lock()
	c.now = c.now.Add(d)
	c.mu.Unlock()
}

// Reads returns how many times the clock was read.
func (c *Clock) Reads() int64 {
	c.mu.Lock()
	defer c.mu.Unlock()
	return c.reads
}

var (
	byGoroutine sync.Map // goid -> *Clock
	fallback    = New(0, 0)
	unbound     atomic.Int64
)

func slowGoid() uint64 {
	var buf [40]byte
	n := runtime.Stack(buf[:], false)
	// "goroutine 123 [running]:..."
	var id uint64
	for i := len("goroutine "); i < n; i++ {
		ch := buf[i]
		if ch < '0' || ch > '9' {
			break
		}
		id = id*10 + uint64(ch-'0')
	}
	return id
}

// Bind binds the calling goroutine to c (replacing an earlier binding).
func Bind(c *Clock) {
	g := goid()
	if old, ok := byGoroutine.Load(g); ok && old.(*Clock) == c {
		return
	}
	byGoroutine.Store(g, c)
	c.mu.Lock()
	c.goids = append(c.goids, g)
	c.mu.Unlock()
}

// Unbind removes the calling goroutine's binding.
func Unbind() { byGoroutine.Delete(goid()) }

// Release drops every goroutine binding that points at c (call when a world is discarded).
func (c *Clock) Release() {
	c.mu.Lock()
	gs := c.goids
	c.goids = nil
	c.mu.Unlock()
	for _, g := range gs {
		if cur, ok := byGoroutine.Load(g); ok && cur.(*Clock) == c {
			byGoroutine.Delete(g)
		}
	}
}

type ctxKey struct{}

// WithClock returns a context carrying c.
func WithClock(ctx context.Context, c *Clock) context.Context {
	return context.WithValue(ctx, ctxKey{}, c)
}

// FromCtx returns the clock carried by ctx, or nil.
func FromCtx(ctx context.Context) *Clock {
	if ctx == nil {
		return nil
	}
	c, _ := ctx.Value(ctxKey{}).(*Clock)
	return c
}

// BindCtx binds the calling goroutine to the clock carried by ctx (no-op without one).
func BindCtx(ctx context.Context) {
	if c := FromCtx(ctx); c != nil {
		Bind(c)
	}
}

// Current returns the clock bound to the calling goroutine, or nil.
func Current() *Clock {
	if c, ok := byGoroutine.Load(goid()); ok {
		return c.(*Clock)
	}
	return nil
}

// Now is the replacement for time.Now() in rewritten sources.
func Now() time.Time {
	if c := Current(); c != nil {
		return c.Now()
	}
	unbound.Add(1)
	return fallback.Now()
}

// Since is the replacement for time.Since().
func Since(t time.Time) time.Duration { return Now().Sub(t) }

// Until is the replacement for time.Until().
func Until(t time.Time) time.Duration { return t.Sub(Now()) }

// UnboundReads reports how many Now() calls came from goroutines without a clock. A harness that
// relies on determinism should treat a non-zero value as a tool error.
func UnboundReads() int64 { return unbound.Load() }

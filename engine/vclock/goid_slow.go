//go:build !vclockasm

package vclock

func goid() uint64 { return slowGoid() }

// FastGoid reports whether the calibrated fast path is in use.
func FastGoid() bool { return false }

#include "textflag.h"

// func Getg() uintptr — the address of the running goroutine's g (thread-local on linux/amd64).
TEXT ·Getg(SB),NOSPLIT,$0-8
	MOVQ (TLS), AX
	MOVQ AX, ret+0(FP)
	RET

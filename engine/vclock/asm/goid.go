// Package vgoid exposes the address of the running goroutine's g. It is overlaid (by harnesses that
// opt in with the build tag "vclockasm", see their target.json "extra_files") into an EXISTING
// directory of the repo that holds no Go code, because the assembler must be able to chdir into the
// package directory, which rules out the purely virtual zzverif/ directories. Used only by
// zzverif/vclock as a fast path for goroutine identity.
package vgoid

// Getg returns the address of the current g.
func Getg() uintptr

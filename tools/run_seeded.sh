#!/bin/bash
# usage: tools/run_seeded.sh <patch.diff> <Cxx> [tier]   — runs check Cxx against a scratch worktree of /repo with the patch applied.
# exit code = the check's exit code (1 = detected). The scratch worktree is always removed.
patch=$(realpath "$1"); prop=$2; tier=${3:-quick}
wt=$(mktemp -d /tmp/vwt-XXXXXX); rmdir "$wt"
git -C /repo worktree add -q --detach "$wt" HEAD || exit 3
alt=/verif/build/alt_$(python3 -c "import hashlib,os,sys;print(hashlib.sha1(os.path.realpath(sys.argv[1]).encode()).hexdigest()[:8])" "$wt")
trap 'git -C /repo worktree remove --force "$wt" >/dev/null 2>&1; rm -rf "$alt"' EXIT
if ! git -C "$wt" apply "$patch"; then echo "patch does not apply"; exit 3; fi
cd /verif && VERIF_REPO="$wt" ./vcheck "$prop" --tier "$tier"

#!/usr/bin/env python3
"""Regenerates /verif/MANIFEST.json from harness/*/target.json (+ properties.jsonl for the
not_applicable list) and validates it against the schema."""
import json, os, glob, sys
V = os.path.dirname(os.path.dirname(os.path.abspath(__file__)))
props = [json.loads(l) for l in open(os.path.join(V, "properties.jsonl"))]
hooks_commits = []
hc = os.path.join(V, "hooks_commits.txt")
if os.path.exists(hc):
    hooks_commits = [l.split()[0] for l in open(hc) if l.strip()]
checks, na = [], []
engines = {}
for p in props:
    pid = p["id"]
    tf = os.path.join(V, "harness", pid, "target.json")
    if not os.path.exists(tf):
        na.append({"property_id": pid, "reason": "no check built yet for this property in this session; nothing is claimed (planned design: DESIGN.md section 2)"})
        continue
    t = json.load(open(tf))
    m = t.get("manifest", {})
    if m.get("not_applicable"):
        na.append({"property_id": pid, "reason": m["not_applicable"]})
        continue
    for e in m.get("engines", ["hbfs"]):
        engines.setdefault(e, []).append(pid)
    c = {
        "property_id": pid,
        "quick_cmd": f"./vcheck {pid} --tier quick",
        "thorough_cmd": f"./vcheck {pid} --tier thorough",
        "evidence_file": f"/verif/evidence/{pid}.json",
        "replay_cmd_template": f"./vcheck {pid} --replay {{path}}",
        "engine": "+".join(m.get("engines", ["hbfs"])),
        "level_claimed": {
            "category": m.get("category", "model_checking"),
            "text": m.get("text", ""),
            "design_ref": m.get("design_ref", "DESIGN.md section 2, " + pid),
        },
        "level_note": m.get("note", ""),
        "technique": m.get("technique", "explicit-state model checking of the real implementation (history BFS with replay on fresh instances)"),
    }
    checks.append(c)
kinds = {
    "vk": "run-time kit: tiers, deadlines, violations, known findings, replay files, evidence",
    "hbfs": "explicit-state breadth-first search over the real transition function (history replay on fresh instances, canonical-key de-duplication or tree mode)",
    "sched": "controlled cooperative scheduler + preemption-bounded DFS over hooked operations, with fault/crash choices",
    "enum": "bounded-exhaustive input/configuration enumeration",
    "nfsim": "interpreter for rendered iptables/nftables rule text (netfilter chain traversal semantics)",
    "ebpf": "eBPF interpreter for generated policy programs and clang-compiled kernel objects",
    "refpol": "reference policy evaluator written from the property statements",
    "casstore": "in-memory CAS datastore (bapi.Client) used as hook surface for IPAM exploration",
}
man = {
    "version": 1,
    "setup_cmd": "./setup.sh",
    "hooks": {
        "guard": "verif",
        "enable": "go test -tags verif -overlay /verif/build/overlay_<id>.json (harness + engine files are overlaid into the module; /repo is never written by a check)",
        "baseline_off_cmd": "cd /repo && for m in . api lib/datastructures lib/httpmachinery lib/kind lib/logrusr lib/std; do (cd /repo/$m && GOFLAGS=-mod=mod GOPROXY=off go test -json -vet=off -count=1 -timeout 25m ./...); done",
        "source_commits": hooks_commits,
        "add_only": True,
    },
    "engines": [{"name": k, "path": f"/verif/engine/{k}", "serves_properties": sorted(v), "kind_free_text": kinds.get(k, "")} for k, v in sorted(engines.items())],
    "checks": checks,
    "notes": "All checks are exhaustive bounded explorations of the real code (DESIGN.md). exit 2 from a check = tool error (e.g. harness no longer compiles against the tree), never a verdict.",
    "not_applicable": na,
}
json.dump(man, open(os.path.join(V, "MANIFEST.json"), "w"), indent=1)
try:
    import jsonschema
    jsonschema.validate(man, json.load(open("/root/.vp/MANIFEST.schema.json")))
    print("MANIFEST.json valid:", len(checks), "checks,", len(na), "not_applicable")
except ImportError:
    print("jsonschema missing; not validated")

#!/bin/bash
# runs every check (quick tier by default), 3 at a time; prints one line per check
cd "$(dirname "$0")/.."
tier=${1:-quick}; shift
ids=${@:-$(ls harness | grep '^C[0-9]' | sort)}
mkdir -p build/runall
printf '%s\n' $ids | xargs -P 3 -I{} sh -c 's=$(date +%s); ./vcheck {} --tier '$tier' > build/runall/{}.log 2>&1; rc=$?; e=$(date +%s); echo "{} exit=$rc wall=$((e-s))s $(grep -c ^VIOLATION build/runall/{}.log) viol $(grep -c ^KNOWN-FINDING build/runall/{}.log) known | $(grep ^SUMMARY build/runall/{}.log | cut -c1-200)"'

#!/bin/bash
# usage: tools/run_mutants.sh Cxx [tier]   — applies each /verif/mutants/Cxx/*.diff in a scratch worktree and runs vcheck
P=$1; TIER=${2:-quick}; WT=/tmp/wt-$P-mut
cd /verif
for d in mutants/$P/*.diff; do
  git -C /repo worktree remove --force $WT >/dev/null 2>&1
  git -C /repo worktree add --detach $WT HEAD >/dev/null 2>&1 || { echo "worktree failed"; exit 2; }
  git -C $WT apply /verif/$d || { echo "$d: APPLY FAILED"; continue; }
  s=$(date +%s)
  VERIF_REPO=$WT ./vcheck $P --tier $TIER > /tmp/mut-$P-$(basename $d .diff).log 2>&1; rc=$?
  e=$(date +%s)
  echo "$(basename $d) rc=$rc $((e-s))s $(grep -c '^VIOLATION' /tmp/mut-$P-$(basename $d .diff).log) violation keys: $(grep '^VIOLATION' /tmp/mut-$P-$(basename $d .diff).log | sed 's/.*key=//' | tr '\n' ' ' | cut -c1-300)"
done
git -C /repo worktree remove --force $WT >/dev/null 2>&1

#!/usr/bin/env python3
"""seed_recheck.py <seeded-dir-name> [check ...]  — re-runs our check(s) against an already confirmed seed
(/verif/seeded/<name>/patch.diff) and updates meta.json (keeps the first result under 'first_evaluation')."""
import json, os, subprocess, sys, tempfile, re, shutil, hashlib
name = sys.argv[1]; d = f"/verif/seeded/{name}"
m = json.load(open(f"{d}/meta.json"))
checks = sys.argv[2:] or list(m.get("checks", {}).keys()) or [m["property"]]
env = dict(os.environ, GOFLAGS="-mod=mod", GOPROXY="off", CGO_ENABLED="0", GOWORK="off")
wt = tempfile.mkdtemp(prefix="vrechk-", dir="/tmp"); os.rmdir(wt)
subprocess.run(f"git -C /repo worktree add -q --detach {wt} HEAD", shell=True, check=True)
try:
    r = subprocess.run(f"git apply {d}/patch.diff", shell=True, cwd=wt, capture_output=True, text=True)
    if r.returncode != 0:
        print(json.dumps({"seed": name, "error": "patch no longer applies at HEAD: " + r.stderr[:200]})); sys.exit(0)
    head = subprocess.run("git -C /repo rev-parse --short HEAD", shell=True, stdout=subprocess.PIPE, text=True).stdout.strip()
    keys = lambda out: sorted(set(re.findall(r'^VIOLATION .*key="([^"]*)"', out, re.M)))
    if "first_evaluation" not in m:
        m["first_evaluation"] = {"detected_by": m.get("detected_by"), "checks": m.get("checks")}
    m["checks"] = {}
    for ck in checks:
        bf = f"/verif/build/baseline_{ck}_{head}.json"
        if os.path.exists(bf): base = json.load(open(bf))
        else:
            rb = subprocess.run(f"./vcheck {ck} --tier quick", shell=True, cwd="/verif", env=env, stdout=subprocess.PIPE, stderr=subprocess.STDOUT, text=True)
            base = {"exit": rb.returncode, "keys": keys(rb.stdout)}; json.dump(base, open(bf, "w"))
        rr = subprocess.run(f"./vcheck {ck} --tier quick", shell=True, cwd="/verif", env=dict(env, VERIF_REPO=wt), stdout=subprocess.PIPE, stderr=subprocess.STDOUT, text=True)
        m["checks"][ck] = {"exit": rr.returncode, "baseline_exit": base["exit"], "new_keys": [k for k in keys(rr.stdout) if k not in base["keys"]][:12],
                           "summary": [l for l in rr.stdout.splitlines() if l.startswith("SUMMARY")]}
    m["detected_by"] = [k for k, v in m["checks"].items() if v["exit"] == 1 and v["new_keys"]]
    m["rechecked_at_repo_head"] = head
    json.dump(m, open(f"{d}/meta.json", "w"), indent=1)
    print(json.dumps({"seed": name, "detected_by": m["detected_by"], "first": m["first_evaluation"]["detected_by"]}))
finally:
    subprocess.run(f"git -C /repo worktree remove --force {wt}", shell=True, stdout=subprocess.DEVNULL, stderr=subprocess.DEVNULL)
    shutil.rmtree("/verif/build/alt_" + hashlib.sha1(os.path.realpath(wt).encode()).hexdigest()[:8], ignore_errors=True)

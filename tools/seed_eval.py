#!/usr/bin/env python3
"""seed_eval.py <Cxx> <variant-dir> [check-id ...]
Confirms a seeded change (patch.diff + demo_test.go + meta.json written by a blind sub-agent) in a
scratch worktree: demo passes on the clean tree, fails with the patch, the touched packages' own
tests still pass, then runs our check(s) against the patched tree. Writes /verif/seeded/<Cxx>-<v>/."""
import json, os, subprocess, sys, shutil, tempfile, re
prop, vdir = sys.argv[1], os.path.abspath(sys.argv[2])
checks = sys.argv[3:] or [prop]
meta = json.load(open(os.path.join(vdir, "meta.json")))
variant = meta.get("variant", os.path.basename(vdir))
env = dict(os.environ, GOFLAGS="-mod=mod", GOPROXY="off", CGO_ENABLED="0", GOWORK="off")
env.pop("GOSUMDB", None); env.pop("GOTOOLCHAIN", None)
wt = tempfile.mkdtemp(prefix="vseed-", dir="/tmp"); os.rmdir(wt)
def sh(cmd, cwd=None, timeout=3600):
    r = subprocess.run(cmd, shell=True, cwd=cwd, env=env, stdout=subprocess.PIPE, stderr=subprocess.STDOUT, text=True, timeout=timeout)
    return r.returncode, r.stdout
res = {"property": prop, "variant": variant, "summary": meta.get("summary"), "needs_to_manifest": meta.get("needs_to_manifest"),
       "why_breaks_property": meta.get("why_breaks_property")}
try:
    rc, out = sh(f"git -C /repo worktree add -q --detach {wt} HEAD"); assert rc == 0, out
    patch = os.path.join(vdir, "patch.diff")
    demo_dir = meta["demo_dir"].strip("/")
    # module root for the demo (lib/* are separate modules)
    demo_abs = os.path.join(wt, demo_dir)
    demos = [f for f in os.listdir(vdir) if f.endswith("_test.go")]
    for f in demos:
        dst = f if f.startswith("zz_") else "zz_seed_" + f
        shutil.copy(os.path.join(vdir, f), os.path.join(demo_abs, dst))
    demo_cmd = meta["demo_cmd"]
    m = re.search(r"(go test.*)", demo_cmd); demo_cmd = m.group(1) if m else demo_cmd
    demo_cmd = demo_cmd.replace("/tmp/seed/" + prop, wt)
    if "-vet=off" not in demo_cmd: demo_cmd = demo_cmd.replace("go test", "go test -vet=off", 1)
    cwd = demo_abs if ("./" not in demo_cmd or demo_cmd.strip().endswith(" .")) else wt
    # run from the module containing demo_dir
    def modroot(d):
        while d != wt and not os.path.exists(os.path.join(d, "go.mod")): d = os.path.dirname(d)
        return d
    mr = modroot(demo_abs)
    rel = os.path.relpath(demo_abs, mr)
    run_m = re.search(r"-run[ =]+(\S+)", demo_cmd)
    runpat = run_m.group(1).strip("'\"") if run_m else "Seed"
    fm = re.search(r"-ginkgo\.focus[ =]+('[^']*'|\"[^\"]*\"|\S+)", demo_cmd)
    focus = (" -ginkgo.focus " + fm.group(1)) if fm else ""
    racef = " -race" if re.search(r"(^|\s)-race(\s|$)", demo_cmd) else ""
    if racef: env["CGO_ENABLED"] = "1"
    dcmd = f"go test{racef} -vet=off -count=1 -run '{runpat}' ./{rel}{focus}"
    rc0, out0 = sh(dcmd, cwd=mr)
    res["demo_cmd"] = dcmd
    res["demo_clean_pass"] = (rc0 == 0)
    rc, out = sh(f"git apply {patch}", cwd=wt); assert rc == 0, "patch does not apply: " + out
    rc1, out1 = sh(dcmd, cwd=mr)
    res["demo_patched_fail"] = (rc1 != 0 and "FAIL" in out1)
    # existing tests of touched packages (demo removed)
    for f in demos:
        dst = f if f.startswith("zz_") else "zz_seed_" + f
        os.remove(os.path.join(demo_abs, dst))
    touched = sorted({os.path.dirname(l[6:].strip()) for l in open(patch) if l.startswith("+++ b/")})
    ok = True; ran = []
    for d in touched:
        mr2 = modroot(os.path.join(wt, d)); rel2 = os.path.relpath(os.path.join(wt, d), mr2)
        rc2, out2 = sh(f"go test -vet=off -count=1 ./{rel2}", cwd=mr2)
        ran.append({"pkg": d, "rc": rc2})
        if rc2 != 0:
            # same failure on the clean tree?
            sh(f"git apply -R {patch}", cwd=wt)
            rc3, out3 = sh(f"go test -vet=off -count=1 ./{rel2}", cwd=mr2)
            sh(f"git apply {patch}", cwd=wt)
            fails = lambda o: sorted(set(re.findall(r"--- FAIL: (\S+)", o)))
            if rc3 == 0 or fails(out2) != fails(out3):
                ok = False
                ran[-1]["new_failures"] = fails(out2)
            else:
                ran[-1]["same_failures_on_clean_tree"] = fails(out3)
    res["existing_tests_pass"] = ok; res["existing_tests"] = ran
    res["checks"] = {}
    head = subprocess.run("git -C /repo rev-parse --short HEAD", shell=True, stdout=subprocess.PIPE, text=True).stdout.strip()
    def keys(out): return sorted(set(re.findall(r'^VIOLATION .*key="([^"]*)"', out, re.M)))
    for ck in checks:
        # violation keys on the unpatched tree (cached per repo HEAD): only NEW keys count as detection
        bf = f"/verif/build/baseline_{ck}_{head}.json"
        if os.path.exists(bf):
            base = json.load(open(bf))
        else:
            rb = subprocess.run(f"./vcheck {ck} --tier quick", shell=True, cwd="/verif", env=env, stdout=subprocess.PIPE, stderr=subprocess.STDOUT, text=True)
            base = {"exit": rb.returncode, "keys": keys(rb.stdout)}
            json.dump(base, open(bf, "w"))
        e2 = dict(env, VERIF_REPO=wt)
        r = subprocess.run(f"./vcheck {ck} --tier quick", shell=True, cwd="/verif", env=e2, stdout=subprocess.PIPE, stderr=subprocess.STDOUT, text=True)
        res["checks"][ck] = {"exit": r.returncode, "baseline_exit": base["exit"], "new_keys": [k for k in keys(r.stdout) if k not in base["keys"]],
                             "violations": [l for l in r.stdout.splitlines() if l.startswith("VIOLATION")][:5],
                             "summary": [l for l in r.stdout.splitlines() if l.startswith("SUMMARY")]}
    res["confirmed"] = bool(res["demo_clean_pass"] and res["demo_patched_fail"] and ok)
    res["detected_by"] = [k for k, v in res["checks"].items() if v["exit"] == 1 and v["new_keys"]]
finally:
    subprocess.run(f"git -C /repo worktree remove --force {wt}", shell=True, stdout=subprocess.DEVNULL, stderr=subprocess.DEVNULL)
    shutil.rmtree(wt, ignore_errors=True)
    import hashlib as _h
    shutil.rmtree("/verif/build/alt_" + _h.sha1(os.path.realpath(wt).encode()).hexdigest()[:8], ignore_errors=True)
out = f"/verif/seeded/{prop}-{variant}"
os.makedirs(out, exist_ok=True)
shutil.copy(os.path.join(vdir, "patch.diff"), out)
for f in os.listdir(vdir):
    if f.endswith("_test.go"): shutil.copy(os.path.join(vdir, f), os.path.join(out, f + ".txt"))
res["agent_meta"] = meta
json.dump(res, open(os.path.join(out, "meta.json"), "w"), indent=1)
print(json.dumps({k: res[k] for k in ("property", "variant", "confirmed", "demo_clean_pass", "demo_patched_fail", "existing_tests_pass", "detected_by")}))

#!/usr/bin/env python3
import json, sys, glob, jsonschema
s = json.load(open("/root/.vp/EVIDENCE.schema.json"))
bad = 0
for f in sorted(glob.glob("/verif/evidence/*.json")):
    try:
        jsonschema.validate(json.load(open(f)), s)
    except Exception as e:
        bad += 1
        print("INVALID", f, str(e)[:300])
print("evidence files checked:", len(glob.glob('/verif/evidence/*.json')), "invalid:", bad)
sys.exit(1 if bad else 0)

#!/bin/bash
# Builds every harness once against /repo's current tree (warms the Go build cache) — offline.
cd "$(dirname "$0")"
export GOFLAGS=-mod=mod GOPROXY=off
mkdir -p build/bin evidence replays
ids=$(ls harness | grep '^C[0-9]' | sort)
fail=0
# 4 builds at a time: each `go build` is itself parallel
printf '%s\n' $ids | xargs -P 4 -I{} sh -c './vcheck {} --build-only >build/setup_{}.log 2>&1 || echo "setup: build of {} failed (see build/setup_{}.log)"'
[ -x tools/post_setup.sh ] && tools/post_setup.sh
echo "setup done"
exit 0

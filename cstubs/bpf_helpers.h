/* Minimal stand-in for libbpf's bpf_helpers.h (libbpf is not installed in the sandbox).
 * Helpers are plain externs: calls become named relocations that the ebpf interpreter resolves. */
#ifndef __VERIF_BPF_HELPERS_H__
#define __VERIF_BPF_HELPERS_H__
#include <linux/types.h>
#define SEC(x) __attribute__((section(x), used))
#define __uint(name, val) int (*name)[val]
#define __type(name, val) typeof(val) *name
#define __array(name, val) typeof(val) *name[]
#ifndef __always_inline
#define __always_inline inline __attribute__((always_inline))
#endif
#ifndef __noinline
#define __noinline __attribute__((noinline))
#endif
#ifndef __weak
#define __weak __attribute__((weak))
#endif
#define __kconfig
#define __ksym
void *bpf_map_lookup_elem(void *map, const void *key);
long  bpf_map_update_elem(void *map, const void *key, const void *value, __u64 flags);
long  bpf_map_delete_elem(void *map, const void *key);
__u64 bpf_ktime_get_ns(void);
long  bpf_trace_printk(const char *fmt, __u32 fmt_size, ...);
#endif

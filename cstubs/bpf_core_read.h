#ifndef __VERIF_BPF_CORE_READ_H__
#define __VERIF_BPF_CORE_READ_H__
#define bpf_core_field_exists(x) 0
#define bpf_core_type_exists(x) 0
#define bpf_core_enum_value_exists(t, v) 0
#define bpf_core_enum_value(t, v) 0
#define BPF_CORE_READ(s, f) ((s)->f)
#endif

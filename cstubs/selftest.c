/* Interpreter ELF self-test: known results, exercises map relocations, helper relocations by name,
 * a libcall (memcmp), a callback pointer into .text (bpf_for_each_map_elem), .rodata access,
 * 32-bit atomics (-mcpu=v3) and bpf_skb_load/store_bytes. Not calico code. */
#include <linux/types.h>
#include <linux/bpf.h>
#include "bpf_helpers.h"

struct st_val { __u64 a; __u32 b; __u32 flags; };

struct { __uint(type, BPF_MAP_TYPE_HASH); __type(key, __u32); __type(value, struct st_val); __uint(max_entries, 8); } st_map SEC(".maps");

const volatile struct { __u32 x; __u32 y; } st_ro = { 1000, 234 };

struct st_ctx { __u64 sum; __u64 n; };

static long st_cb(void *map, __u32 *key, struct st_val *val, void *ctx)
{
	struct st_ctx *c = ctx;
	c->sum += val->a * (*key);
	c->n++;
	__sync_fetch_and_or(&val->flags, 0x10);
	return 0;
}

/* returns st_ro.x + st_ro.y + sum(key*a) over st_map + (memcmp result mapped to 0/100) */
SEC("tc") int st_main(struct __sk_buff *skb)
{
	struct st_ctx c = {};
	char in[16];
	if (bpf_skb_load_bytes(skb, 0, in, sizeof(in)))
		return -1;
	__u32 k = 3;
	struct st_val nv = { .a = 7, .b = 1 };
	bpf_map_update_elem(&st_map, &k, &nv, 0);
	bpf_for_each_map_elem(&st_map, st_cb, &c, 0);
	int r = st_ro.x + st_ro.y + c.sum + c.n * 10000;
	if (__builtin_memcmp(in, in + 8, 8) == 0)
		r += 100;
	c.sum = r;
	bpf_skb_store_bytes(skb, 0, &c, sizeof(c), 0);
	return r;
}

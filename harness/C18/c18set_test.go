package deltatracker

import (
	"errors"
	"fmt"
	"sort"

	"github.com/projectcalico/calico/zzverif/hbfs"
	"github.com/projectcalico/calico/zzverif/vk"
)

// SetDeltaTracker: the same exploration over the set façade.

type c18sEv struct {
	Op   string
	K    string
	Ks   []string
	ErrN int
	Act  map[string]string
}

func (e c18sEv) String() string { return vk.JSON(e) }

type c18sState struct {
	dt   *SetDeltaTracker[string]
	d, p map[string]bool
	bad  []string
}

func c18sSet(m map[string]bool) string {
	var ks []string
	for k := range m {
		ks = append(ks, k)
	}
	sort.Strings(ks)
	return fmt.Sprint(ks)
}

func c18Set(c *vk.Ctx) {
	var evs []c18sEv
	for _, k := range c18Keys {
		evs = append(evs, c18sEv{Op: "dadd", K: k}, c18sEv{Op: "ddel", K: k}, c18sEv{Op: "padd", K: k}, c18sEv{Op: "pdel", K: k})
	}
	evs = append(evs, c18sEv{Op: "ddelall"}, c18sEv{Op: "pdelall"})
	for _, ks := range [][]string{{}, {"a"}, {"b"}, {"a", "b"}, {"b", "a", "b"}} {
		evs = append(evs, c18sEv{Op: "prepl", Ks: ks, ErrN: -1})
	}
	evs = append(evs, c18sEv{Op: "prepl", Ks: []string{"a", "b"}, ErrN: 1}, c18sEv{Op: "prepl", Ks: []string{"b"}, ErrN: 0})
	acts := []string{"noop", "update", "stop"}
	for _, op := range []string{"puiter", "pditer"} {
		for _, aa := range acts {
			for _, ab := range acts {
				evs = append(evs, c18sEv{Op: op, Act: map[string]string{"a": aa, "b": ab}})
			}
		}
	}
	apply := func(s *c18sState, e c18sEv) {
		dt := s.dt
		switch e.Op {
		case "dadd":
			dt.Desired().Add(e.K)
			s.d[e.K] = true
		case "ddel":
			dt.Desired().Delete(e.K)
			delete(s.d, e.K)
		case "ddelall":
			dt.Desired().DeleteAll()
			s.d = map[string]bool{}
		case "padd":
			dt.Dataplane().Add(e.K)
			s.p[e.K] = true
		case "pdel":
			dt.Dataplane().Delete(e.K)
			delete(s.p, e.K)
		case "pdelall":
			dt.Dataplane().DeleteAll()
			s.p = map[string]bool{}
		case "prepl":
			seen := map[string]bool{}
			err := dt.Dataplane().ReplaceFromIter(func(f func(k string)) error {
				for i, k := range e.Ks {
					if i == e.ErrN {
						return errors.New("boom")
					}
					f(k)
					seen[k] = true
				}
				return nil
			})
			if e.ErrN >= 0 {
				if err == nil {
					s.bad = append(s.bad, "ReplaceFromIter swallowed error")
				}
				for k := range seen {
					s.p[k] = true
				}
			} else {
				if err != nil {
					s.bad = append(s.bad, "ReplaceFromIter invented error")
				}
				s.p = seen
			}
		case "puiter":
			dt.PendingUpdates().Iter(func(k string) IterAction {
				if !s.d[k] || s.p[k] {
					s.bad = append(s.bad, "PendingUpdates.Iter visited non-pending "+k)
				}
				switch e.Act[k] {
				case "update":
					s.p[k] = true
					return IterActionUpdateDataplane
				case "stop":
					return IterActionNoOpStopIteration
				}
				return IterActionNoOp
			})
		case "pditer":
			dt.PendingDeletions().Iter(func(k string) IterAction {
				if s.d[k] || !s.p[k] {
					s.bad = append(s.bad, "PendingDeletions.Iter visited non-pending "+k)
				}
				switch e.Act[k] {
				case "update":
					delete(s.p, k)
					return IterActionUpdateDataplane
				case "stop":
					return IterActionNoOpStopIteration
				}
				return IterActionNoOp
			})
		}
	}
	check := func(s *c18sState, hist []c18sEv) []hbfs.Fail {
		var fails []hbfs.Fail
		add := func(key, f string, a ...any) {
			fails = append(fails, hbfs.Fail{Key: "C18:set:" + key, Msg: fmt.Sprintf(f, a...)})
		}
		for _, b := range s.bad {
			add("callback", "%s", b)
		}
		pu, pd := map[string]bool{}, map[string]bool{}
		for k := range s.d {
			if !s.p[k] {
				pu[k] = true
			}
		}
		for k := range s.p {
			if !s.d[k] {
				pd[k] = true
			}
		}
		got := map[string]bool{}
		s.dt.Desired().Iter(func(k string) { got[k] = true })
		if c18sSet(got) != c18sSet(s.d) {
			add("desired", "Desired=%s want %s", c18sSet(got), c18sSet(s.d))
		}
		got = map[string]bool{}
		s.dt.Dataplane().Iter(func(k string) { got[k] = true })
		if c18sSet(got) != c18sSet(s.p) {
			add("dataplane", "Dataplane=%s want %s", c18sSet(got), c18sSet(s.p))
		}
		got = map[string]bool{}
		s.dt.PendingUpdates().Iter(func(k string) IterAction { got[k] = true; return IterActionNoOp })
		if c18sSet(got) != c18sSet(pu) || s.dt.PendingUpdates().Len() != len(pu) {
			add("pending-updates", "PendingUpdates=%s want %s", c18sSet(got), c18sSet(pu))
		}
		got = map[string]bool{}
		s.dt.PendingDeletions().Iter(func(k string) IterAction { got[k] = true; return IterActionNoOp })
		if c18sSet(got) != c18sSet(pd) || s.dt.PendingDeletions().Len() != len(pd) {
			add("pending-deletions", "PendingDeletions=%s want %s", c18sSet(got), c18sSet(pd))
		}
		for _, k := range c18Keys {
			if s.dt.Desired().Contains(k) != s.d[k] || s.dt.Dataplane().Contains(k) != s.p[k] ||
				s.dt.PendingUpdates().Contains(k) != pu[k] || s.dt.PendingDeletions().Contains(k) != pd[k] {
				add("contains", "Contains(%s) disagrees with reference d=%s p=%s", k, c18sSet(s.d), c18sSet(s.p))
			}
		}
		if s.dt.InSync() != (len(pu)+len(pd) == 0) {
			add("insync", "InSync=%v", s.dt.InSync())
		}
		return fails
	}
	mk := func(depth int, tree bool) *hbfs.Spec[*c18sState, c18sEv] {
		sp := &hbfs.Spec[*c18sState, c18sEv]{
			Name:    fmt.Sprintf("setdeltatracker-%v-d%d", map[bool]string{true: "tree", false: "graph"}[tree], depth),
			New:     func() *c18sState { return &c18sState{dt: NewSetDeltaTracker[string](), d: map[string]bool{}, p: map[string]bool{}} },
			Apply:   apply,
			Enabled: func(s *c18sState, d int) []c18sEv { return evs },
			Check:   check,
			Key: func(s *c18sState) string {
				m := s.dt.asMapTracker()
				k := func(x map[string]struct{}) string {
					var ks []string
					for a := range x {
						ks = append(ks, a)
					}
					sort.Strings(ks)
					return fmt.Sprint(ks)
				}
				return k(m.inDataplaneAndDesired) + k(m.inDataplaneNotDesired) + k(m.desiredUpdates) + fmt.Sprint(m.desiredLen, len(s.bad)) + c18sSet(s.d) + c18sSet(s.p)
			},
			MaxDepth: depth,
		}
		if tree {
			sp.Key = nil
		}
		return sp
	}
	hbfs.Explore(c, mk(c.Pick(10, 30), false))
	hbfs.Explore(c, mk(c.Pick(3, 4), true))
}

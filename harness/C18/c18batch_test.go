package deltatracker

import (
	"errors"
	"fmt"

	"github.com/projectcalico/calico/zzverif/vk"
)

// Large-batch enumeration: IterBatched has a separate code path for FULL batches (128 items) that
// the two-key universe cannot reach. Enumerate totals around the batch boundaries x every script
// of per-call outcomes (all applied / error after k items) for the first three calls.

type c18Outcome struct {
	Kind string // "ok" | "fail"
	At   int    // fail: number applied before the failing item (clamped to len-1)
}

func c18BatchScripts() [][]c18Outcome {
	menu := []c18Outcome{{Kind: "ok"}, {Kind: "fail", At: 0}, {Kind: "fail", At: 1}, {Kind: "fail", At: 64}, {Kind: "fail", At: 126}, {Kind: "fail", At: 127}}
	var out [][]c18Outcome
	for _, a := range menu {
		for _, b := range menu {
			for _, d := range menu {
				out = append(out, []c18Outcome{a, b, d})
			}
		}
	}
	return out
}

func c18Batch(c *vk.Ctx) {
	totals := []int{1, 2, 127, 128, 129, 130, 255, 256, 257, 300}
	scripts := c18BatchScripts()
	var runs int64
	for _, total := range totals {
		for si, script := range scripts {
			for _, mode := range []string{"updates", "deletions"} {
				if c.Expired() {
					c.Capped("deadline in large-batch enumeration")
					return
				}
				runs++
				dt := New[int, int]()
				d, p := map[int]int{}, map[int]int{}
				// a few in-sync and unrelated keys so that the other partitions are non-empty
				for i := 1000; i < 1003; i++ {
					dt.Desired().Set(i, 7)
					dt.Dataplane().Set(i, 7)
					d[i], p[i] = 7, 7
				}
				for i := 0; i < total; i++ {
					if mode == "updates" {
						dt.Desired().Set(i, 1)
						d[i] = 1
						if i%3 == 0 { // wrong value in dataplane
							dt.Dataplane().Set(i, 2)
							p[i] = 2
						}
					} else {
						dt.Dataplane().Set(i, 1)
						p[i] = 1
					}
				}
				var bad []string
				call := 0
				offered := map[int]int{}
				decide := func(n int) (int, error) {
					o := c18Outcome{Kind: "ok"}
					if call < len(script) {
						o = script[call]
					}
					call++
					if call > 10000 {
						panic("IterBatched does not terminate")
					}
					if o.Kind == "ok" || n == 0 {
						return n, nil
					}
					at := o.At
					if at > n-1 {
						at = n - 1
					}
					return at, errors.New("boom")
				}
				err := vk.Catch(func() error {
					if mode == "updates" {
						dt.PendingUpdates().IterBatched(func(ks []int, vs []int) (int, error) {
							if len(ks) != len(vs) || len(ks) == 0 || len(ks) > 128 {
								bad = append(bad, fmt.Sprintf("batch of %d keys / %d values", len(ks), len(vs)))
							}
							for i, k := range ks {
								offered[k]++
								if want, ok := d[k]; !ok || want != vs[i] || p[k] == want {
									bad = append(bad, fmt.Sprintf("offered (%d,%d) which is not a pending update", k, vs[i]))
								}
							}
							n, err := decide(len(ks))
							for i := 0; i < n; i++ {
								p[ks[i]] = vs[i]
							}
							return n, err
						})
					} else {
						dt.PendingDeletions().IterBatched(func(ks []int) (int, error) {
							if len(ks) == 0 || len(ks) > 128 {
								bad = append(bad, fmt.Sprintf("batch of %d keys", len(ks)))
							}
							for _, k := range ks {
								offered[k]++
								if _, inP := p[k]; !inP {
									bad = append(bad, fmt.Sprintf("offered %d which is not a pending deletion", k))
								}
								if _, inD := d[k]; inD {
									bad = append(bad, fmt.Sprintf("offered desired key %d for deletion", k))
								}
							}
							n, err := decide(len(ks))
							for i := 0; i < n; i++ {
								delete(p, ks[i])
							}
							return n, err
						})
					}
					return nil
				})
				detail := map[string]any{"total": total, "script": script, "mode": mode}
				if err != nil {
					c.Violation("C18:batch:panic", map[string]any{"case": detail, "panic": err.Error()})
					continue
				}
				for _, b := range bad {
					c.Violation("C18:batch:bad-offer", map[string]any{"case": detail, "msg": b})
				}
				// compare the four views with the reference
				gotD, gotP, gotU, gotX := map[int]int{}, map[int]int{}, map[int]int{}, map[int]int{}
				dt.Desired().Iter(func(k, v int) { gotD[k] = v })
				dt.Dataplane().Iter(func(k, v int) { gotP[k] = v })
				dt.PendingUpdates().Iter(func(k, v int) IterAction { gotU[k] = v; return IterActionNoOp })
				dt.PendingDeletions().Iter(func(k int) IterAction { gotX[k], _ = dt.PendingDeletions().Get(k); return IterActionNoOp })
				wantU, wantX := map[int]int{}, map[int]int{}
				for k, v := range d {
					if pv, ok := p[k]; !ok || pv != v {
						wantU[k] = v
					}
				}
				for k, v := range p {
					if _, ok := d[k]; !ok {
						wantX[k] = v
					}
				}
				cmp := func(name string, got, want map[int]int) {
					if len(got) != len(want) {
						c.Violation("C18:batch:"+name, map[string]any{"case": detail, "msg": fmt.Sprintf("%s has %d entries, reference %d", name, len(got), len(want))})
						return
					}
					for k, v := range want {
						if gv, ok := got[k]; !ok || gv != v {
							c.Violation("C18:batch:"+name, map[string]any{"case": detail, "msg": fmt.Sprintf("%s[%d]=%d,%v reference %d", name, k, gv, ok, v)})
							return
						}
					}
				}
				cmp("desired", gotD, d)
				cmp("dataplane", gotP, p)
				cmp("pending-updates", gotU, wantU)
				cmp("pending-deletions", gotX, wantX)
				if dt.Desired().Len() != len(d) || dt.Dataplane().Len() != len(p) || dt.PendingUpdates().Len() != len(wantU) || dt.PendingDeletions().Len() != len(wantX) {
					c.Violation("C18:batch:len", map[string]any{"case": detail})
				}
				if total >= 128 && call >= 2 {
					c.Nontrivial(fmt.Sprintf("batch|%d|%d|%s", total, si, mode))
				}
				c.Outcome(fmt.Sprintf("batch:%s:left=%d", mode, len(wantU)+len(wantX)))
			}
		}
	}
	c.Add("states", runs)
	c.Add("transitions", runs)
	c.Extra("large_batch_runs", runs)
	fmt.Printf("enum deltatracker-large-batch runs=%d\n", runs)
}

package deltatracker

// C18 — desired-vs-dataplane tracking reports the exact difference after ANY operation sequence.
// Shape H: explicit-state BFS over the real DeltaTracker (and SetDeltaTracker) with a plain pair of
// maps as the reference model. In-package so that the state key can be the tracker's *internal*
// representation (three maps + desiredLen): graph mode then enumerates every reachable internal
// state of the universe, not just every (desired, dataplane) pair.

import (
	"errors"
	"fmt"
	"sort"
	"testing"

	"github.com/sirupsen/logrus"

	"github.com/projectcalico/calico/zzverif/hbfs"
	"github.com/projectcalico/calico/zzverif/vk"
)

type c18Ev struct {
	Op   string // dset ddel ddelall pset pdel pdelall prepl prepliter puiter pditer pubatch pdbatch
	K    string
	V    int
	M    [][2]any // for replace: sequence of (k,v)
	ErrN int      // for prepliter: error after N items (-1 none)
	Act  map[string]string
	N    int // batch: number applied
	Err  bool
}

func (e c18Ev) String() string { return vk.JSON(e) }

type c18State struct {
	dt   *DeltaTracker[string, int]
	d, p map[string]int
	bad  []string
}

var c18Keys = []string{"a", "b"}
var c18Vals = []int{1, 2}

func c18Events() []c18Ev {
	var evs []c18Ev
	for _, k := range c18Keys {
		for _, v := range c18Vals {
			evs = append(evs, c18Ev{Op: "dset", K: k, V: v})
			evs = append(evs, c18Ev{Op: "pset", K: k, V: v})
		}
		evs = append(evs, c18Ev{Op: "ddel", K: k}, c18Ev{Op: "pdel", K: k})
	}
	evs = append(evs, c18Ev{Op: "ddelall"}, c18Ev{Op: "pdelall"})
	// full replacements: all maps over {a,b} x {absent,1,2}
	for _, va := range []int{0, 1, 2} {
		for _, vb := range []int{0, 1, 2} {
			var m [][2]any
			if va != 0 {
				m = append(m, [2]any{"a", va})
			}
			if vb != 0 {
				m = append(m, [2]any{"b", vb})
			}
			evs = append(evs, c18Ev{Op: "prepl", M: m, ErrN: -1})
		}
	}
	// iterator replacements: duplicates, both orders, failing part-way
	evs = append(evs,
		c18Ev{Op: "prepliter", M: [][2]any{{"a", 1}, {"a", 2}}, ErrN: -1},
		c18Ev{Op: "prepliter", M: [][2]any{{"b", 2}, {"a", 1}}, ErrN: -1},
		c18Ev{Op: "prepliter", M: [][2]any{{"a", 1}, {"b", 2}}, ErrN: 1},
		c18Ev{Op: "prepliter", M: [][2]any{{"a", 2}, {"b", 1}}, ErrN: 1},
		c18Ev{Op: "prepliter", M: [][2]any{{"b", 1}}, ErrN: 0},
		c18Ev{Op: "prepliter", M: [][2]any{{"b", 2}, {"a", 2}}, ErrN: 2},
	)
	// per-key callback behaviours during pending iteration
	puActs := []string{"noop", "update", "stop", "noop+ddel-other", "update+dset-other2", "noop+pset-self", "noop+ddel-self", "update+pdel-other"}
	for _, aa := range puActs {
		for _, ab := range puActs {
			evs = append(evs, c18Ev{Op: "puiter", Act: map[string]string{"a": aa, "b": ab}})
		}
	}
	pdActs := []string{"noop", "update", "stop", "noop+dset-self1", "update+dset-other1", "noop+pdel-self"}
	for _, aa := range pdActs {
		for _, ab := range pdActs {
			evs = append(evs, c18Ev{Op: "pditer", Act: map[string]string{"a": aa, "b": ab}})
		}
	}
	for _, op := range []string{"pubatch", "pdbatch"} {
		evs = append(evs, c18Ev{Op: op, N: -1}, c18Ev{Op: op, N: 0, Err: true}, c18Ev{Op: op, N: 1, Err: true})
	}
	return evs
}

func (s *c18State) fail(f string, a ...any) { s.bad = append(s.bad, fmt.Sprintf(f, a...)) }

func (s *c18State) pendingUpd() map[string]int {
	m := map[string]int{}
	for k, v := range s.d {
		if pv, ok := s.p[k]; !ok || pv != v {
			m[k] = v
		}
	}
	return m
}

func (s *c18State) pendingDel() map[string]int {
	m := map[string]int{}
	for k, v := range s.p {
		if _, ok := s.d[k]; !ok {
			m[k] = v
		}
	}
	return m
}

func other(k string) string {
	if k == "a" {
		return "b"
	}
	return "a"
}

func c18Apply(s *c18State, e c18Ev) {
	dt := s.dt
	switch e.Op {
	case "dset":
		dt.Desired().Set(e.K, e.V)
		s.d[e.K] = e.V
	case "ddel":
		dt.Desired().Delete(e.K)
		delete(s.d, e.K)
	case "ddelall":
		dt.Desired().DeleteAll()
		s.d = map[string]int{}
	case "pset":
		dt.Dataplane().Set(e.K, e.V)
		s.p[e.K] = e.V
	case "pdel":
		dt.Dataplane().Delete(e.K)
		delete(s.p, e.K)
	case "pdelall":
		dt.Dataplane().DeleteAll()
		s.p = map[string]int{}
	case "prepl":
		m := map[string]int{}
		for _, kv := range e.M {
			m[kv[0].(string)] = kv[1].(int)
		}
		dt.Dataplane().ReplaceAllMap(m)
		// the input map must be neither modified nor retained
		if len(m) != len(e.M) {
			s.fail("ReplaceAllMap modified its input")
		}
		s.p = map[string]int{}
		for k, v := range m {
			s.p[k] = v
		}
		for k := range m {
			m[k] = 99 // poison: must not be retained
		}
	case "prepliter":
		boom := errors.New("boom")
		seen := map[string]int{}
		err := dt.Dataplane().ReplaceAllIter(func(f func(k string, v int)) error {
			for i, kv := range e.M {
				if i == e.ErrN {
					return boom
				}
				f(kv[0].(string), kv[1].(int))
				seen[kv[0].(string)] = kv[1].(int)
			}
			if e.ErrN == len(e.M) {
				return boom
			}
			return nil
		})
		if e.ErrN >= 0 {
			if err == nil {
				s.fail("ReplaceAllIter swallowed the iterator error")
			}
			// documented: partially updated with the keys already seen
			for k, v := range seen {
				s.p[k] = v
			}
		} else {
			if err != nil {
				s.fail("ReplaceAllIter invented an error: %v", err)
			}
			s.p = seen
		}
	case "puiter":
		visited := map[string]int{}
		dt.PendingUpdates().Iter(func(k string, v int) IterAction {
			visited[k]++
			want, ok := s.pendingUpd()[k]
			if !ok || want != v {
				s.fail("PendingUpdates.Iter visited (%s,%d) but reference pending updates are %v", k, v, s.pendingUpd())
			}
			act := e.Act[k]
			switch act {
			case "noop":
				return IterActionNoOp
			case "update":
				s.p[k] = v
				return IterActionUpdateDataplane
			case "stop":
				return IterActionNoOpStopIteration
			case "noop+ddel-other":
				dt.Desired().Delete(other(k))
				delete(s.d, other(k))
				return IterActionNoOp
			case "update+dset-other2":
				dt.Desired().Set(other(k), 2)
				s.d[other(k)] = 2
				s.p[k] = v
				return IterActionUpdateDataplane
			case "noop+pset-self":
				dt.Dataplane().Set(k, v)
				s.p[k] = v
				return IterActionNoOp
			case "noop+ddel-self":
				dt.Desired().Delete(k)
				delete(s.d, k)
				return IterActionNoOp
			case "update+pdel-other":
				dt.Dataplane().Delete(other(k))
				delete(s.p, other(k))
				s.p[k] = v
				return IterActionUpdateDataplane
			}
			panic("bad act " + act)
		})
		for k, n := range visited {
			if n > 1 {
				s.fail("PendingUpdates.Iter visited %s %d times", k, n)
			}
		}
	case "pditer":
		visited := map[string]int{}
		dt.PendingDeletions().Iter(func(k string) IterAction {
			visited[k]++
			if _, ok := s.pendingDel()[k]; !ok {
				s.fail("PendingDeletions.Iter visited %s but reference pending deletions are %v", k, s.pendingDel())
			}
			act := e.Act[k]
			switch act {
			case "noop":
				return IterActionNoOp
			case "update":
				delete(s.p, k)
				return IterActionUpdateDataplane
			case "stop":
				return IterActionNoOpStopIteration
			case "noop+dset-self1":
				dt.Desired().Set(k, 1)
				s.d[k] = 1
				return IterActionNoOp
			case "update+dset-other1":
				dt.Desired().Set(other(k), 1)
				s.d[other(k)] = 1
				delete(s.p, k)
				return IterActionUpdateDataplane
			case "noop+pdel-self":
				dt.Dataplane().Delete(k)
				delete(s.p, k)
				return IterActionNoOp
			}
			panic("bad act " + act)
		})
		for k, n := range visited {
			if n > 1 {
				s.fail("PendingDeletions.Iter visited %s %d times", k, n)
			}
		}
	case "pubatch":
		calls := 0
		dt.PendingUpdates().IterBatched(func(ks []string, vs []int) (int, error) {
			calls++
			if calls > 10 {
				panic("IterBatched does not terminate")
			}
			if len(ks) != len(vs) {
				s.fail("IterBatched: len(ks)!=len(vs)")
			}
			for i, k := range ks {
				if want, ok := s.pendingUpd()[k]; !ok || want != vs[i] {
					s.fail("PendingUpdates.IterBatched offered (%s,%d); reference pending %v", k, vs[i], s.pendingUpd())
				}
			}
			n := e.N
			if n < 0 || n > len(ks) {
				n = len(ks)
			}
			var err error
			if e.Err && n < len(ks) {
				err = errors.New("boom")
			}
			for i := 0; i < n; i++ {
				s.p[ks[i]] = vs[i]
			}
			return n, err
		})
	case "pdbatch":
		calls := 0
		dt.PendingDeletions().IterBatched(func(ks []string) (int, error) {
			calls++
			if calls > 10 {
				panic("IterBatched does not terminate")
			}
			for _, k := range ks {
				if _, ok := s.pendingDel()[k]; !ok {
					s.fail("PendingDeletions.IterBatched offered %s; reference pending %v", k, s.pendingDel())
				}
			}
			n := e.N
			if n < 0 || n > len(ks) {
				n = len(ks)
			}
			var err error
			if e.Err && n < len(ks) {
				err = errors.New("boom")
			}
			for i := 0; i < n; i++ {
				delete(s.p, ks[i])
			}
			return n, err
		})
	default:
		panic("bad op " + e.Op)
	}
}

func c18Map(m map[string]int) string {
	ks := make([]string, 0, len(m))
	for k := range m {
		ks = append(ks, k)
	}
	sort.Strings(ks)
	out := ""
	for _, k := range ks {
		out += fmt.Sprintf("%s=%d,", k, m[k])
	}
	return "{" + out + "}"
}

func c18Eq(a, b map[string]int) bool { return c18Map(a) == c18Map(b) }

func c18Check(s *c18State, hist []c18Ev) []hbfs.Fail {
	var fails []hbfs.Fail
	add := func(key, f string, a ...any) {
		fails = append(fails, hbfs.Fail{Key: "C18:" + key, Msg: fmt.Sprintf(f, a...)})
	}
	for _, b := range s.bad {
		add("callback", "%s", b)
	}
	dt := s.dt
	// desired view
	got := map[string]int{}
	n := 0
	dt.Desired().Iter(func(k string, v int) { got[k] = v; n++ })
	if !c18Eq(got, s.d) || n != len(s.d) {
		add("desired-iter", "Desired().Iter=%s (%d calls) want %s", c18Map(got), n, c18Map(s.d))
	}
	if dt.Desired().Len() != len(s.d) {
		add("desired-len", "Desired().Len=%d want %d", dt.Desired().Len(), len(s.d))
	}
	// dataplane view
	got = map[string]int{}
	n = 0
	dt.Dataplane().Iter(func(k string, v int) { got[k] = v; n++ })
	if !c18Eq(got, s.p) || n != len(s.p) {
		add("dataplane-iter", "Dataplane().Iter=%s (%d calls) want %s", c18Map(got), n, c18Map(s.p))
	}
	if dt.Dataplane().Len() != len(s.p) {
		add("dataplane-len", "Dataplane().Len=%d want %d", dt.Dataplane().Len(), len(s.p))
	}
	pu, pd := s.pendingUpd(), s.pendingDel()
	got = map[string]int{}
	n = 0
	dt.PendingUpdates().Iter(func(k string, v int) IterAction { got[k] = v; n++; return IterActionNoOp })
	if !c18Eq(got, pu) || n != len(pu) {
		add("pending-updates", "PendingUpdates=%s want %s (desired %s dataplane %s)", c18Map(got), c18Map(pu), c18Map(s.d), c18Map(s.p))
	}
	if dt.PendingUpdates().Len() != len(pu) {
		add("pending-updates-len", "PendingUpdates().Len=%d want %d", dt.PendingUpdates().Len(), len(pu))
	}
	gotd := map[string]int{}
	n = 0
	dt.PendingDeletions().Iter(func(k string) IterAction { gotd[k], _ = dt.PendingDeletions().Get(k); n++; return IterActionNoOp })
	if !c18Eq(gotd, pd) || n != len(pd) {
		add("pending-deletions", "PendingDeletions=%s want %s (desired %s dataplane %s)", c18Map(gotd), c18Map(pd), c18Map(s.d), c18Map(s.p))
	}
	if dt.PendingDeletions().Len() != len(pd) {
		add("pending-deletions-len", "PendingDeletions().Len=%d want %d", dt.PendingDeletions().Len(), len(pd))
	}
	if dt.InSync() != (len(pu) == 0 && len(pd) == 0) {
		add("insync", "InSync=%v but pending %s / %s", dt.InSync(), c18Map(pu), c18Map(pd))
	}
	for _, k := range c18Keys {
		v, ok := dt.Desired().Get(k)
		if wv, wok := s.d[k]; ok != wok || (ok && v != wv) {
			add("desired-get", "Desired().Get(%s)=%d,%v want %d,%v", k, v, ok, wv, wok)
		}
		v, ok = dt.Dataplane().Get(k)
		if wv, wok := s.p[k]; ok != wok || (ok && v != wv) {
			add("dataplane-get", "Dataplane().Get(%s)=%d,%v want %d,%v", k, v, ok, wv, wok)
		}
		v, ok = dt.PendingUpdates().Get(k)
		if wv, wok := pu[k]; ok != wok || (ok && v != wv) {
			add("pending-updates-get", "PendingUpdates().Get(%s)=%d,%v want %d,%v", k, v, ok, wv, wok)
		}
		v, ok = dt.PendingDeletions().Get(k)
		if wv, wok := pd[k]; ok != wok || (ok && v != wv) {
			add("pending-deletions-get", "PendingDeletions().Get(%s)=%d,%v want %d,%v", k, v, ok, wv, wok)
		}
	}
	return fails
}

func c18Key(s *c18State) string {
	return c18Map(s.dt.inDataplaneAndDesired) + c18Map(s.dt.inDataplaneNotDesired) + c18Map(s.dt.desiredUpdates) +
		fmt.Sprint(s.dt.desiredLen) + "|" + c18Map(s.d) + c18Map(s.p) + fmt.Sprint(len(s.bad))
}

func c18Spec(events []c18Ev, depth int, tree bool) *hbfs.Spec[*c18State, c18Ev] {
	sp := &hbfs.Spec[*c18State, c18Ev]{
		Name: fmt.Sprintf("deltatracker-%s-d%d", map[bool]string{true: "tree", false: "graph"}[tree], depth),
		New: func() *c18State {
			return &c18State{dt: New[string, int](), d: map[string]int{}, p: map[string]int{}}
		},
		Apply:      c18Apply,
		Enabled:    func(s *c18State, d int) []c18Ev { return events },
		Check:      c18Check,
		Key:        c18Key,
		MaxDepth:   depth,
		Nontrivial: func(s *c18State) bool { return len(s.pendingUpd())+len(s.pendingDel()) > 0 },
		Outcome: func(s *c18State) string {
			return c18Map(s.d) + c18Map(s.p)
		},
	}
	if tree {
		sp.Key = nil
	}
	return sp
}

func TestVerif_C18(t *testing.T) {
	logrus.SetLevel(logrus.PanicLevel)
	vk.Run(t, "C18", func(c *vk.Ctx) {
		c.Rule("states = reachable internal representations (three partition maps + desiredLen) of DeltaTracker[string,int] over keys {a,b} values {1,2}; " +
			"transitions = one real API call (incl. callbacks mutating the tracker during iteration, failing iterators, partial batches) replayed on a fresh tracker; " +
			"non-trivial = state with a non-empty pending set; SetDeltaTracker explored likewise")
		c.Assume("Go map iteration order inside one Iter/IterBatched call is not controlled; oracle follows the observed callback order, so it is sound for every order, and the visited orders are whatever the runtime produced")
		evs := c18Events()
		if rf := c.ReplayFile(); rf != "" {
			var d struct{ History []string }
			if err := vk.LoadReplay(rf, &d); err != nil {
				c.ToolError(err.Error())
				return
			}
			fails, err := hbfs.Replay(c18Spec(evs, 99, false), d.History)
			if err != nil {
				c.ToolError(err.Error())
			}
			for _, f := range fails {
				c.Violation(f.Key, map[string]any{"history": d.History, "msg": f.Msg})
			}
			c.Add("states", 1)
			c.Add("transitions", int64(len(d.History)))
			return
		}
		c.Sample(map[string]any{"history": []string{evs[0].String(), evs[30].String(), evs[len(evs)-1].String()}})
		c.Extra("alphabet_size", len(evs))
		// graph mode to fixpoint (depth bound high enough that the frontier empties)
		st := hbfs.Explore(c, c18Spec(evs, c.Pick(12, 40), false))
		c.Extra("graph_fixpoint_reached", st.Complete && st.Depth < c.Pick(12, 40))
		// tree mode: every history, no merging
		hbfs.Explore(c, c18Spec(evs, c.Pick(3, 4), true))
		c18Set(c)
		c18Batch(c)
	})
}

package hipam

// C22 — each block has at most one confirmed owner.
// Shape S: schedule DFS (engine sched) over the REAL ipamClient's two-phase block claim
// (pending affinity -> block create -> confirm), release and reclaim paths on casstore, with CAS
// conflicts and client crashes injected at every write (so also between the claim phases).

import (
	"fmt"
	"testing"
	"time"

	"github.com/projectcalico/calico/libcalico-go/lib/backend/model"
	"github.com/projectcalico/calico/zzverif/sched"
	"github.com/projectcalico/calico/zzverif/vk"
)

var c22Hosts = []string{"n1", "n2", "n3", "n4", "n5", "n6", "n7", "n8"}

func c22Cfg(cidr string) worldCfg {
	nodes := map[string]map[string]string{}
	for _, h := range c22Hosts {
		nodes[h] = nil
	}
	return worldCfg{
		Pools:  []vPool{{Name: "p1", CIDR: cidr, BlockSize: 30}},
		Nodes:  nodes,
		Config: &model.IPAMConfig{StrictAffinity: true, AutoAllocateBlocks: true},
	}
}

// contenders returns two hosts whose (hostname-seeded) block search starts at the same block of the
// two-block pool, so that their claims really collide.
func contenders(cfg worldCfg) (string, string) {
	first := map[string]string{}
	for _, h := range c22Hosts {
		b := firstBlockFor(cfg, h)
		if o, ok := first[b]; ok {
			return o, h
		}
		first[b] = h
	}
	return "n1", "n2"
}

func c22Scenarios(thorough bool) []*schedScenario {
	auto := func(host, h string) vOp { return vOp{Kind: "auto", Host: host, Handle: h} }
	one := c22Cfg("10.0.0.0/30") // a single block: every claim collides
	two := c22Cfg("10.0.0.0/29") // two blocks
	a, b := contenders(two)
	scs := []*schedScenario{
		// two hosts claim the only block of an empty pool
		{Name: "claim-race-one-block", Cfg: one, Threads: [][]vOp{{auto("n1", "h1")}, {auto("n2", "h2")}}},
		// the owner releases its (empty) block "if empty" while another client of the same host assigns from it
		{Name: "release-if-empty-vs-assign", Cfg: one, Setup: []vOp{auto("n1", "h0"), {Kind: "rbh", Handle: "h0"}},
			Threads: [][]vOp{{{Kind: "relhostaff", Host: "n1", MustBeEmpty: true}}, {auto("n1", "h1")}}},
		// another host reclaims an old empty block while its owner assigns from it
		{Name: "reclaim-vs-owner-assign", Cfg: one, Setup: []vOp{auto("n1", "h0"), {Kind: "rbh", Handle: "h0"}}, Advance: 2 * time.Minute,
			Threads: [][]vOp{{auto("n2", "h2")}, {auto("n1", "h1")}}},
		// explicit ClaimAffinity racing an auto-assign claim of the same block
		{Name: "claimaffinity-vs-auto", Cfg: one, Threads: [][]vOp{{{Kind: "claimaff", Host: "n1", CIDR: "10.0.0.0/30"}}, {auto("n2", "h2")}}},
		// owner releases a non-empty block's affinity (not "if empty") while another host wants a block
		{Name: "release-nonempty-vs-claim", Cfg: one, Setup: []vOp{auto("n1", "h0")},
			Threads: [][]vOp{{{Kind: "relaff", Host: "n1", CIDR: "10.0.0.0/30"}}, {auto("n2", "h2")}}},
		// an ORPHANED block: it holds an address, its owner released the affinity unconditionally, so it
		// lives on with no affinity at all; nobody may be confirmed as its owner without the block
		// recording it. Two later claimants, a claimant racing an auto-assign, and a claimant racing
		// the release itself.
		{Name: "orphan-block-two-claimaffinity", Cfg: one, Setup: []vOp{auto("n1", "h0"), {Kind: "relaff", Host: "n1", CIDR: "10.0.0.0/30"}},
			Threads: [][]vOp{{{Kind: "claimaff", Host: "n2", CIDR: "10.0.0.0/30"}}, {{Kind: "claimaff", Host: "n3", CIDR: "10.0.0.0/30"}}}},
		{Name: "orphan-block-claimaffinity-vs-auto", Cfg: one, Setup: []vOp{auto("n1", "h0"), {Kind: "relaff", Host: "n1", CIDR: "10.0.0.0/30"}},
			Threads: [][]vOp{{{Kind: "claimaff", Host: "n2", CIDR: "10.0.0.0/30"}}, {auto("n3", "h3")}}},
		{Name: "release-nonempty-vs-claimaffinity", Cfg: one, Setup: []vOp{auto("n1", "h0")},
			Threads: [][]vOp{{{Kind: "relaff", Host: "n1", CIDR: "10.0.0.0/30"}}, {{Kind: "claimaff", Host: "n2", CIDR: "10.0.0.0/30"}}}},
		// (most expensive last: it inherits whatever wall budget the others left)
		// two hosts whose search starts at the same block; the loser must move on to the other block
		{Name: "claim-race-two-blocks", Cfg: two, Threads: [][]vOp{{auto(a, "h1")}, {auto(b, "h2")}}},
	}
	if thorough {
		scs = append(scs,
			&schedScenario{Name: "three-claimers", Cfg: two, Threads: [][]vOp{{auto(a, "h1")}, {auto(b, "h2")}, {auto("n1", "h3")}}},
			&schedScenario{Name: "claim-release-claim", Cfg: one, Setup: []vOp{auto("n1", "h0"), {Kind: "rbh", Handle: "h0"}}, Advance: 2 * time.Minute,
				Threads: [][]vOp{{{Kind: "relhostaff", Host: "n1", MustBeEmpty: true}}, {auto("n1", "h1")}, {auto("n2", "h2")}}},
		)
	}
	return scs
}

type c22Track struct {
	seen map[string]bool // allocation (ip|handle|seq) already accounted for
	prev map[string]c22Blk
}

type c22Blk struct {
	aff  string
	live int
}

// c22Oracle — per the statement, in every reachable datastore state:
//
//	(a) a block has at most one CONFIRMED affinity;
//	(b) a confirmed affinity (host h, block b) implies block b exists and records affinity host:h;
//	(c) with strict affinity, an allocation that appears in block b on behalf of host h appears only
//	    while b records affinity host:h (a pending claim is never used as ownership);
//	(d) a release "only if empty" never removes the affinity of (or deletes) a block that holds a
//	    live allocation, and no block holding a live allocation is ever deleted by a claim/reclaim;
//
// plus the C19 allocation oracle (an address handed out stays recorded for its holder), because a
// wrongly released or doubly owned block shows up as lost or duplicated addresses.
func c22Oracle(sw *schedWorld, x *sched.Exec, final bool) []sched.Fail {
	var fails []sched.Fail
	bad := func(class, msg string) {
		fails = append(fails, sched.Fail{Key: "C22:" + class, Msg: sw.sc.Name + ": " + msg})
	}
	tr, _ := sw.user.(*c22Track)
	if tr == nil {
		tr = &c22Track{seen: map[string]bool{}, prev: map[string]c22Blk{}}
		sw.user = tr
	}
	strict := sw.cfg.Config != nil && sw.cfg.Config.StrictAffinity
	blocks := map[string]*model.AllocationBlock{}
	cur := map[string]c22Blk{}
	for _, vb := range sw.blocks() {
		blocks[vb.CIDR] = vb.B
		cb := c22Blk{}
		if vb.B.Affinity != nil {
			cb.aff = *vb.B.Affinity
		}
		for _, al := range blockAllocs(vb.B) {
			if al.Cooling {
				continue
			}
			cb.live++
			k := fmt.Sprintf("%s|%s|%d", al.IP, al.Handle, al.Seq)
			if !tr.seen[k] {
				tr.seen[k] = true
				// allocations made by the set-up (seen in the initial state, before any thread step) were
				// made under whatever affinity the block had then; clause (c) is about allocations that
				// APPEAR during the explored execution
				if strict && len(x.Trace()) > 0 && al.Node != "" && cb.aff != "host:"+al.Node {
					bad("allocation-from-unowned-block", fmt.Sprintf("strict affinity: %s was allocated for host %s from block %s whose recorded affinity is %q", al.IP, al.Node, vb.CIDR, cb.aff))
				}
			}
		}
		cur[vb.CIDR] = cb
	}
	confirmed := map[string][]string{}
	for _, af := range sw.affinities() {
		if af.State != model.StateConfirmed {
			continue
		}
		confirmed[af.CIDR] = append(confirmed[af.CIDR], af.Host)
		b := blocks[af.CIDR]
		switch {
		case b == nil:
			bad("confirmed-affinity-without-block", fmt.Sprintf("host %s holds a confirmed affinity for %s but the block does not exist", af.Host, af.CIDR))
		case b.Affinity == nil || *b.Affinity != af.Type+":"+af.Host:
			got := "<none>"
			if b.Affinity != nil {
				got = *b.Affinity
			}
			bad("confirmed-affinity-mismatch", fmt.Sprintf("host %s holds a confirmed affinity for %s but the block records affinity %s", af.Host, af.CIDR, got))
		}
	}
	for cidr, hs := range confirmed {
		if len(hs) > 1 {
			bad("two-confirmed-owners", fmt.Sprintf("block %s is confirmed as affine to %v", cidr, hs))
		}
	}
	// (d): what did the last step do to blocks that held live allocations?
	if steps := x.Trace(); len(steps) > 0 {
		actor := steps[len(steps)-1].Thread
		var running *vOp
		for oi := range sw.sc.Threads[actor] {
			if r := sw.res[actor][oi]; r.Started && !r.Done {
				running = &sw.sc.Threads[actor][oi]
			}
		}
		for cidr, p := range tr.prev {
			if p.live == 0 {
				continue
			}
			n, exists := cur[cidr]
			isRelease := running != nil && (running.Kind == "rbh" || running.Kind == "release")
			if !exists && !isRelease {
				bad("nonempty-block-deleted", fmt.Sprintf("block %s held %d live allocation(s) and was deleted by T%d", cidr, p.live, actor))
			} else if exists && running != nil && running.MustBeEmpty && p.aff != "" && n.aff != p.aff {
				bad("release-if-empty-released-nonempty-block", fmt.Sprintf("T%d (%s) removed affinity %s from block %s which held %d live allocation(s)", actor, running.String(), p.aff, cidr, p.live))
			}
		}
	}
	tr.prev = cur
	fails = append(fails, allocCheck("C22", sw, x, final)...)
	return fails
}

func TestVerif_C22(t *testing.T) {
	vk.Run(t, "C22", func(c *vk.Ctx) {
		runSchedCheck(c, c22Scenarios(c.Thorough()), c22Scenarios(true), c22Oracle)
	})
}

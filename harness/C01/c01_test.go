package calc

// C01 — Felix's computed dataplane state depends only on current datastore state.
//
// Oracle (differential fresh-start, no hand-written expected values): in EVERY reached state the
// probe "in-sync (if not yet) + flush" is applied to the instance that lived through the history, and
// the resulting shadow dataplane (everything ever emitted, replayed) must equal, section by section,
// the shadow of a FRESH graph fed only the latest datastore content (in key order and in reversed key
// order), then in-sync, then flush. A panic anywhere in the graph is a violation as well.

import (
	"fmt"
	"testing"

	"github.com/projectcalico/calico/zzverif/hbfs"
	"github.com/projectcalico/calico/zzverif/shadowdp"
)

func c01Check(x *vcRun, s *vcState, hist []vcEv) []hbfs.Fail {
	var fails []hbfs.Fail
	fr := x.fresh.get(s)
	got := s.g.dp.Objects()
	seen := map[string]bool{}
	for _, d := range shadowdp.DiffObjects(got, fr.fwd) {
		k := "C01:history-dependent:" + d.Class()
		if seen[k] {
			continue
		}
		seen[k] = true
		fails = append(fails, hbfs.Fail{Key: k,
			Msg: fmt.Sprintf("datastore {%s}: %s %q after the history = %s ; fresh start = %s", s.dsString(), d.Section, d.ID, vcShort(d.A, 1500), vcShort(d.B, 1500))})
	}
	for _, d := range shadowdp.DiffObjects(fr.fwd, fr.rev) {
		k := "C01:delivery-order-dependent:" + d.Class()
		if seen[k] {
			continue
		}
		seen[k] = true
		fails = append(fails, hbfs.Fail{Key: k,
			Msg: fmt.Sprintf("datastore {%s}: %s %q from a fresh start fed in key order = %s ; fed in reverse key order = %s", s.dsString(), d.Section, d.ID, vcShort(d.A, 1500), vcShort(d.B, 1500))})
	}
	for _, d := range shadowdp.DiffObjects(fr.fwd, fr.snap) {
		k := "C01:batch-delivery-dependent:" + d.Class()
		if seen[k] {
			continue
		}
		seen[k] = true
		fails = append(fails, hbfs.Fail{Key: k,
			Msg: fmt.Sprintf("datastore {%s}: %s %q from a fresh start fed one KV per OnUpdates call = %s ; fed the same content as ONE batch = %s", s.dsString(), d.Section, d.ID, vcShort(d.A, 1500), vcShort(d.B, 1500))})
	}
	return fails
}

func TestVerif_C01(t *testing.T) {
	vcMain(t, &vcProp{ID: "C01", Check: c01Check, Universes: []string{"pol", "set", "route", "route6", "dup"}, QuickBatchBases: map[string][]string{"pol": {"full"}}},
		"states = (datastore content, in-sync flag, shadow dataplane content, EventSequencer pending-object digest) reached by histories of "+
			"set(key,variant)/del(key)/flush/insync over five universes (pol: tiers, policies, profile labels+rules, WEP, HEP; set: rule selectors, named ports, "+
			"shared IPs, remote WEP, network set; route: nodes, VXLAN host config, IP pool, IPAM block, WEP address; route6: the IPv6 twin of route with in-place IPv6 underlay/subnet changes; dup: profile lists naming a profile twice), "+
			"each explored from an empty graph and from a fully populated, in-sync, flushed graph; re-delivering the current value (duplicate), deleting an absent key "+
			"(spurious delete), reverting and coalescing are ordinary events of the alphabet; transitions = one event replayed on a fresh real graph "+
			"(ValidationFilter->CalcGraph->EventSequencer); in every state: probe (in-sync + flush) then compare with a fresh graph fed only the latest content "+
			"(forward and reverse key order, and as one single batch); non-trivial = the probed dataplane holds at least one endpoint, route, IP set or VTEP",
		"the fresh-start reference is computed once per distinct datastore content (it is a function of the content only)")
}

package polprog

// C11 — BPF policy programs reach the same verdict as the policy semantics.
//
// Every configuration of a bounded space is handed to the REAL builder
// (NewBuilder(...).Instructions(rules)), the assembled byte code is EXECUTED by the ebpf interpreter
// on every probe packet, and the outcome (allow / deny tail call + pol_rc, or XDP pass) is compared
// with a reference evaluation of polprog.Rules: rule matching = refpol.RuleMatches (written from the
// rule model), section composition = the semantics documented on polprog.Rules / Instructions.

import (
	"fmt"
	"net/netip"
	"runtime"
	"sort"
	"strings"
	"sync"
	"sync/atomic"
	"testing"

	"github.com/sirupsen/logrus"

	"github.com/projectcalico/calico/felix/bpf/state"
	"github.com/projectcalico/calico/felix/proto"
	"github.com/projectcalico/calico/zzverif/ebpf"
	"github.com/projectcalico/calico/zzverif/refpol"
	"github.com/projectcalico/calico/zzverif/vk"
)

// ---------------------------------------------------------------------------------------------
// domain

type c11Shape struct {
	Name string
	Rule *proto.Rule // action filled in later
}

func pname(n string) *proto.Protocol {
	return &proto.Protocol{NumberOrName: &proto.Protocol_Name{Name: n}}
}
func pnum(n int32) *proto.Protocol {
	return &proto.Protocol{NumberOrName: &proto.Protocol_Number{Number: n}}
}
func pr(a, b int32) *proto.PortRange { return &proto.PortRange{First: a, Last: b} }

type c11Dom struct {
	ver                                                                                   int
	in8, in24, host, other, zero, multiA                                                  string // CIDRs
	otherVer                                                                              string
	srcBase, srcIn24Edge, srcOut24, srcIn8Edge, srcOut8Hi, srcOut8Lo, srcOther, srcOther2 string
	postBase, post2, post3, preBase                                                       string
	icmpName                                                                              string
	icmpNum                                                                               int
	wide                                                                                  []string // v6: prefixes around the 64-bit boundary
}

func c11Domain(ver int) c11Dom {
	if ver == 4 {
		return c11Dom{ver: 4, in8: "10.0.0.0/8", in24: "10.0.0.0/24", host: "10.0.0.2/32", other: "192.168.1.5/32", zero: "0.0.0.0/0", otherVer: "fe80::/10",
			srcBase: "10.0.0.1", srcIn24Edge: "10.0.0.255", srcOut24: "10.0.1.0", srcIn8Edge: "10.255.255.255", srcOut8Hi: "11.0.0.0", srcOut8Lo: "9.255.255.255", srcOther: "192.168.1.5", srcOther2: "192.168.1.6",
			postBase: "10.0.0.2", post2: "10.0.0.3", post3: "172.16.0.1", preBase: "20.0.0.9", icmpName: "icmp", icmpNum: 1}
	}
	return c11Dom{ver: 6, in8: "2001:db8::/32", in24: "2001:db8:0:1::/64", host: "2001:db8:0:1::2/128", other: "fd00:1:2:3:4:5:6:5/128", zero: "::/0", otherVer: "169.254.0.0/16",
		srcBase: "2001:db8:0:1::1", srcIn24Edge: "2001:db8:0:1:ffff:ffff:ffff:ffff", srcOut24: "2001:db8:0:2::", srcIn8Edge: "2001:db8:ffff:ffff:ffff:ffff:ffff:ffff", srcOut8Hi: "2001:db9::", srcOut8Lo: "2001:db7:ffff:ffff:ffff:ffff:ffff:ffff", srcOther: "fd00:1:2:3:4:5:6:5", srcOther2: "fd00:1:2:3:4:5:6:6",
		postBase: "2001:db8:0:1::2", post2: "2001:db8:0:1::3", post3: "2001:db8:5::1", preBase: "fd99::9", icmpName: "icmpv6", icmpNum: 58,
		wide: []string{"2001:db8:0:1::/96", "2001:db8:0:1:8000::/65", "2000::/3", "2001:db8:0:1::1/127"}}
}

func (d c11Dom) sets() map[string]c11SetDef {
	return map[string]c11SetDef{
		"s1":  {id: 0x0102030405060708, members: []string{d.in24, d.other}},
		"s2":  {id: 0x1112131415161718, members: []string{d.srcBase, d.postBase + "/" + map[int]string{4: "31", 6: "127"}[d.ver]}},
		"np1": {id: 0x2122232425262728, members: []string{d.postBase + ",tcp:8080", d.postBase + ",udp:53", d.srcBase + ",tcp:1000"}},
		"np2": {id: 0x3132333435363738, members: []string{d.post2 + ",tcp:80", d.preBase + ",tcp:80"}},
		"e0":  {id: 0x4142434445464748, members: nil},
	}
}

// shapes: every match feature the builder implements, alone and in a few combinations, restricted to
// forms the calculation graph can emit (ports only with a port protocol, ICMP only with the ICMP
// protocol of the IP version, at most one positive DstIpSetIds).
func (d c11Dom) hostNet(a string) string {
	if d.ver == 4 {
		return a + "/32"
	}
	return a + "/128"
}

func (d c11Dom) shapes(full bool) []c11Shape {
	// the ICMP protocol of this IP version BY NUMBER (the name form is covered by the pname-* shapes)
	icmp := pnum(int32(d.icmpNum))
	s := []c11Shape{
		{"match-all", &proto.Rule{}},
		{"proto-tcp-name", &proto.Rule{Protocol: pname("tcp")}},
		{"proto-udp-num", &proto.Rule{Protocol: pnum(17)}},
		{"not-proto-tcp", &proto.Rule{NotProtocol: pname("tcp")}},
		{"src-net", &proto.Rule{SrcNet: []string{d.in8}}},
		{"dst-net-host", &proto.Rule{DstNet: []string{d.host}}},
		{"tcp-dports-8080", &proto.Rule{Protocol: pname("tcp"), DstPorts: []*proto.PortRange{pr(8080, 8080)}}},
		{"dst-ipset", &proto.Rule{DstIpSetIds: []string{"s2"}}},
		{"icmp-type", &proto.Rule{Protocol: icmp, Icmp: &proto.Rule_IcmpType{IcmpType: 8}}},
	}
	if !full {
		return s
	}
	s = append(s, []c11Shape{
		{"proto-sctp-name", &proto.Rule{Protocol: pname("sctp")}},
		{"proto-udp-name-upper", &proto.Rule{Protocol: pname("UDP")}},
		{"proto-num-47", &proto.Rule{Protocol: pnum(47)}},
		{"proto-icmp-num", &proto.Rule{Protocol: icmp}},
		{"proto-udplite-num", &proto.Rule{Protocol: pnum(136)}},
		// protocol given by NAME (the calculation graph passes API names through, lower-cased)
		// (calc's ipVersionToProtoIPVersion pins the IP version for the names icmp / icmpv6)
		{"pname-icmp", &proto.Rule{IpVersion: proto.IPVersion_IPV4, Protocol: pname("icmp")}},
		{"pname-udplite", &proto.Rule{Protocol: pname("udplite")}},
		{"pname-udplite-negated", &proto.Rule{NotProtocol: pname("udplite")}},
		{"pname-icmpv6", &proto.Rule{IpVersion: proto.IPVersion_IPV6, Protocol: pname("icmpv6")}},
		{"pname-icmpv6-negated", &proto.Rule{NotProtocol: pname("icmpv6")}},
		{"pname-icmpv6+icmp-type", &proto.Rule{IpVersion: proto.IPVersion_IPV6, Protocol: pname("icmpv6"), Icmp: &proto.Rule_IcmpType{IcmpType: 8}}},
		{"not-proto-udp-num", &proto.Rule{NotProtocol: pnum(17)}},
		{"proto-tcp-not-proto-udp", &proto.Rule{Protocol: pname("tcp"), NotProtocol: pname("udp")}},
		{"icmp-type-code", &proto.Rule{Protocol: icmp, Icmp: &proto.Rule_IcmpTypeCode{IcmpTypeCode: &proto.IcmpTypeAndCode{Type: 8, Code: 1}}}},
		{"icmp-type-0", &proto.Rule{Protocol: icmp, Icmp: &proto.Rule_IcmpType{IcmpType: 0}}},
		{"not-icmp-type", &proto.Rule{Protocol: icmp, NotIcmp: &proto.Rule_NotIcmpType{NotIcmpType: 8}}},
		{"not-icmp-type-code", &proto.Rule{Protocol: icmp, NotIcmp: &proto.Rule_NotIcmpTypeCode{NotIcmpTypeCode: &proto.IcmpTypeAndCode{Type: 8, Code: 1}}}},
		{"src-net-24", &proto.Rule{SrcNet: []string{d.in24}}},
		{"src-net-multi", &proto.Rule{SrcNet: []string{d.other, d.in24}}},
		{"src-net-zero", &proto.Rule{SrcNet: []string{d.zero}}},
		{"src-net-host", &proto.Rule{SrcNet: []string{d.hostNet(d.srcBase)}}},
		{"not-src-net", &proto.Rule{NotSrcNet: []string{d.in8}}},
		{"not-src-net-multi", &proto.Rule{NotSrcNet: []string{d.other, d.in24}}},
		{"src-net-and-not-src-net", &proto.Rule{SrcNet: []string{d.in8}, NotSrcNet: []string{d.in24}}},
		{"dst-net-multi", &proto.Rule{DstNet: []string{d.hostNet(d.preBase), d.hostNet(d.post2)}}},
		{"not-dst-net", &proto.Rule{NotDstNet: []string{d.in24}}},
		{"src-net-mixed-versions", &proto.Rule{SrcNet: []string{d.otherVer, d.in8}}},
		{"src-net-other-version-only", &proto.Rule{SrcNet: []string{d.otherVer}}},
		{"not-dst-net-mixed-versions", &proto.Rule{NotDstNet: []string{d.otherVer, d.in24}}},
		{"ipversion-this", &proto.Rule{IpVersion: proto.IPVersion(d.ver), SrcNet: []string{d.in8}}},
		{"ipversion-other", &proto.Rule{IpVersion: proto.IPVersion(10 - d.ver)}},
		{"tcp-sports-80", &proto.Rule{Protocol: pname("tcp"), SrcPorts: []*proto.PortRange{pr(80, 80)}}},
		{"tcp-sports-range", &proto.Rule{Protocol: pname("tcp"), SrcPorts: []*proto.PortRange{pr(1000, 2000)}}},
		{"tcp-sports-from-0", &proto.Rule{Protocol: pname("tcp"), SrcPorts: []*proto.PortRange{pr(0, 100)}}},
		{"tcp-sports-multi", &proto.Rule{Protocol: pname("tcp"), SrcPorts: []*proto.PortRange{pr(80, 80), pr(1000, 2000), pr(65535, 65535)}}},
		{"tcp-not-sports", &proto.Rule{Protocol: pname("tcp"), NotSrcPorts: []*proto.PortRange{pr(80, 80), pr(1000, 2000)}}},
		{"udp-dports-53", &proto.Rule{Protocol: pnum(17), DstPorts: []*proto.PortRange{pr(53, 53)}}},
		{"tcp-dports-range-to-max", &proto.Rule{Protocol: pname("tcp"), DstPorts: []*proto.PortRange{pr(8080, 65535)}}},
		{"tcp-dports-80-81", &proto.Rule{Protocol: pname("tcp"), DstPorts: []*proto.PortRange{pr(80, 81)}}},
		{"tcp-not-dports", &proto.Rule{Protocol: pname("tcp"), NotDstPorts: []*proto.PortRange{pr(8080, 8080), pr(0, 79)}}},
		{"sctp-dports", &proto.Rule{Protocol: pname("sctp"), DstPorts: []*proto.PortRange{pr(8080, 8080)}}},
		{"src-ipset", &proto.Rule{SrcIpSetIds: []string{"s1"}}},
		{"src-ipset-and", &proto.Rule{SrcIpSetIds: []string{"s1", "s2"}}},
		{"src-ipset-empty", &proto.Rule{SrcIpSetIds: []string{"e0"}}},
		{"not-src-ipset", &proto.Rule{NotSrcIpSetIds: []string{"s1"}}},
		{"not-src-ipset-two", &proto.Rule{NotSrcIpSetIds: []string{"s2", "s1"}}},
		{"dst-ipset-s1", &proto.Rule{DstIpSetIds: []string{"s1"}}},
		{"not-dst-ipset", &proto.Rule{NotDstIpSetIds: []string{"s2"}}},
		{"src-ipset-not-src-ipset", &proto.Rule{SrcIpSetIds: []string{"s1"}, NotSrcIpSetIds: []string{"s2"}}},
		{"dst-ipportset", &proto.Rule{DstIpPortSetIds: []string{"np1"}}},
		{"tcp-dst-named-port", &proto.Rule{Protocol: pname("tcp"), DstNamedPortIpSetIds: []string{"np1"}}},
		{"tcp-dst-ports-or-named", &proto.Rule{Protocol: pname("tcp"), DstPorts: []*proto.PortRange{pr(81, 81)}, DstNamedPortIpSetIds: []string{"np1", "np2"}}},
		{"tcp-src-named-port", &proto.Rule{Protocol: pname("tcp"), SrcNamedPortIpSetIds: []string{"np1"}}},
		{"tcp-not-dst-named-port", &proto.Rule{Protocol: pname("tcp"), NotDstNamedPortIpSetIds: []string{"np1"}}},
		{"tcp-not-dst-ports-and-named", &proto.Rule{Protocol: pname("tcp"), NotDstPorts: []*proto.PortRange{pr(81, 81)}, NotDstNamedPortIpSetIds: []string{"np2"}}},
		{"tcp-not-src-named-port", &proto.Rule{Protocol: pname("tcp"), NotSrcNamedPortIpSetIds: []string{"np1"}}},
		{"combo-tcp-src-dst-port", &proto.Rule{Protocol: pname("tcp"), SrcNet: []string{d.in8}, DstNet: []string{d.host}, DstPorts: []*proto.PortRange{pr(8080, 8080)}}},
		{"combo-all-negated", &proto.Rule{NotProtocol: pnum(17), NotSrcNet: []string{d.other}, NotDstNet: []string{d.hostNet(d.post3)}, NotSrcIpSetIds: []string{"e0"}, NotDstIpSetIds: []string{"s1"}}},
	}...)
	for i, w := range d.wide {
		s = append(s, c11Shape{fmt.Sprintf("src-net-wide-%d", i), &proto.Rule{SrcNet: []string{w}}})
		s = append(s, c11Shape{fmt.Sprintf("not-dst-net-wide-%d", i), &proto.Rule{NotDstNet: []string{w}}})
	}
	return s
}

func mustAddr(s string) netip.Addr { return netip.MustParseAddr(s) }

func (d c11Dom) packets(full bool) []*c11Pkt {
	base := c11Pkt{Name: "base", Src: mustAddr(d.srcBase), Pre: mustAddr(d.preBase), Post: mustAddr(d.postBase), Proto: 6, SPort: 1000, PreDPort: 80, PostDPort: 8080}
	var out []*c11Pkt
	add := func(name string, f func(p *c11Pkt)) {
		p := base
		p.Name = name
		f(&p)
		out = append(out, &p)
	}
	add("base", func(p *c11Pkt) {})
	add("to-host", func(p *c11Pkt) { p.DestIsHost = true })
	add("from-host", func(p *c11Pkt) { p.SrcIsHost = true })
	add("udp", func(p *c11Pkt) { p.Proto = 17; p.PostDPort = 53; p.PreDPort = 53 })
	add("no-nat", func(p *c11Pkt) { p.Pre = p.Post; p.PreDPort = p.PostDPort })
	add("icmp-8-0", func(p *c11Pkt) { p.Proto = d.icmpNum; p.ICMPType = 8 })
	add("udp-to-host", func(p *c11Pkt) { p.Proto = 17; p.DestIsHost = true })
	add("src-out8", func(p *c11Pkt) { p.Src = mustAddr(d.srcOut8Hi) })
	if !full {
		return out
	}
	add("to-and-from-host", func(p *c11Pkt) { p.DestIsHost, p.SrcIsHost = true, true })
	for _, s := range []string{d.srcIn24Edge, d.srcOut24, d.srcIn8Edge, d.srcOut8Lo, d.srcOther, d.srcOther2} {
		s := s
		add("src-"+s, func(p *c11Pkt) { p.Src = mustAddr(s) })
	}
	for _, s := range []string{d.post2, d.post3, d.preBase, d.srcOther} {
		s := s
		add("post-"+s, func(p *c11Pkt) { p.Post = mustAddr(s) })
		add("pre-"+s, func(p *c11Pkt) { p.Pre = mustAddr(s) })
	}
	add("pre-post-swapped", func(p *c11Pkt) { p.Pre, p.Post = p.Post, p.Pre; p.PreDPort, p.PostDPort = p.PostDPort, p.PreDPort })
	for _, sp := range []int{0, 1, 79, 80, 81, 100, 101, 999, 2000, 2001, 65535, 256 * 80} {
		sp := sp
		add(fmt.Sprintf("sport-%d", sp), func(p *c11Pkt) { p.SPort = sp })
	}
	for _, dp := range []int{0, 79, 80, 81, 82, 8079, 8081, 65535, 53, 0x901f} {
		dp := dp
		add(fmt.Sprintf("post-dport-%d", dp), func(p *c11Pkt) { p.PostDPort = dp })
		add(fmt.Sprintf("pre-dport-%d", dp), func(p *c11Pkt) { p.PreDPort = dp })
	}
	for _, pn := range []int{17, 132, 136, 47, 1, 58, 0, 255} {
		pn := pn
		add(fmt.Sprintf("proto-%d", pn), func(p *c11Pkt) {
			p.Proto = pn
			if pn == 1 || pn == 58 {
				p.ICMPType, p.ICMPCd = 8, 1
			}
		})
	}
	for _, tc := range [][2]int{{0, 0}, {8, 2}, {3, 1}, {9, 1}, {136, 0}} {
		tc := tc
		add(fmt.Sprintf("icmp-%d-%d", tc[0], tc[1]), func(p *c11Pkt) { p.Proto = d.icmpNum; p.ICMPType, p.ICMPCd = tc[0], tc[1] })
	}
	add("udp-53-to-np1", func(p *c11Pkt) { p.Proto = 17; p.PostDPort = 53 })
	add("tcp-80-to-post2", func(p *c11Pkt) { p.Post = mustAddr(d.post2); p.PostDPort = 80 })
	add("udp-8080", func(p *c11Pkt) { p.Proto = 17 })
	add("sctp-8080", func(p *c11Pkt) { p.Proto = 132 })
	return out
}

// ---------------------------------------------------------------------------------------------
// reference

type refRes int

const (
	refNone refRes = iota
	refAllow
	refDeny
	refUnspec
)

type c11Ref struct {
	sets  map[string]c11SetDef
	ver   int
	cache map[*c11Pkt]*[2]*refpol.Packet
}

func (r *c11Ref) packet(p *c11Pkt, preNAT bool) *refpol.Packet {
	if r.cache == nil {
		r.cache = map[*c11Pkt]*[2]*refpol.Packet{}
	}
	e := r.cache[p]
	if e == nil {
		e = &[2]*refpol.Packet{r.packet0(p, false), r.packet0(p, true)}
		r.cache[p] = e
	}
	if preNAT {
		return e[1]
	}
	return e[0]
}

func (r *c11Ref) packet0(p *c11Pkt, preNAT bool) *refpol.Packet {
	dst, dport := p.Post, p.PostDPort
	if preNAT {
		dst, dport = p.Pre, p.PreDPort
	}
	rp := &refpol.Packet{IPVersion: r.ver, Src: p.Src, Dst: dst, Proto: p.Proto, SrcPort: p.SPort, DstPort: dport, ICMPType: p.ICMPType, ICMPCode: p.ICMPCd,
		SrcIPSets: map[string]bool{}, DstIPSets: map[string]bool{}, SrcIPPortSets: map[string]bool{}, DstIPPortSets: map[string]bool{}}
	for n, def := range r.sets {
		rp.SrcIPSets[n] = c11InSet(def, p.Src, 0, 0, false)
		rp.DstIPSets[n] = c11InSet(def, dst, 0, 0, false)
		rp.SrcIPPortSets[n] = c11InSet(def, p.Src, p.Proto, p.SPort, true)
		rp.DstIPPortSets[n] = c11InSet(def, dst, p.Proto, dport, true)
	}
	return rp
}

func actionOf(r *proto.Rule) string { return strings.ToLower(r.Action) }

func (r *c11Ref) rules(rules []Rule, rp *refpol.Packet, profile bool) (res refRes, pass bool) {
	for _, ru := range rules {
		m := refpol.RuleMatches(ru.Rule, rp)
		if m == refpol.Unspecified {
			return refUnspec, false
		}
		if m == refpol.No {
			continue
		}
		switch actionOf(ru.Rule) {
		case "allow":
			return refAllow, false
		case "deny":
			return refDeny, false
		case "log":
			continue
		case "pass", "next-tier":
			if profile {
				return refUnspec, false // the statements are silent about pass inside a profile
			}
			return refNone, true
		default:
			return refUnspec, false
		}
	}
	return refNone, false
}

func (r *c11Ref) tiers(tiers []Tier, rp *refpol.Packet) refRes {
	for _, t := range tiers {
		passed := false
		for _, pol := range t.Policies {
			res, pass := r.rules(pol.Rules, rp, false)
			if res != refNone {
				return res
			}
			if pass {
				passed = true
				break
			}
		}
		if passed {
			continue
		}
		if t.EndAction != TierEndPass {
			return refDeny // deny, or unset = deny
		}
	}
	return refNone
}

func (r *c11Ref) profiles(profs []Profile, rp *refpol.Packet) refRes {
	for _, p := range profs {
		res, _ := r.rules(p.Rules, rp, true)
		if res != refNone {
			return res
		}
	}
	return refDeny // anything not allowed is denied
}

// verdict: the documented composition (comments on polprog.Rules and in Instructions):
//   - XDP: untracked policy (HostNormalTiers); explicit allow/deny decide, otherwise the packet continues.
//   - pre-DNAT tiers against the pre-NAT destination: deny decides, allow skips the rest of host policy,
//     no decision continues.
//   - traffic to/from the host: normal host tiers then host profiles (unless suppressed);
//     forwarded traffic: apply-on-forward tiers, no decision continues.
//   - host interface: allowed; workload interface: workload tiers then profiles, default deny.
func (r *c11Ref) verdict(rules *Rules, p *c11Pkt) string {
	name := func(x refRes) string {
		return map[refRes]string{refAllow: "allow", refDeny: "deny", refUnspec: "unspecified"}[x]
	}
	post, pre := r.packet(p, false), r.packet(p, true)
	if rules.ForXDP {
		switch res := r.tiers(rules.HostNormalTiers, pre); res {
		case refNone:
			return "xdp-pass"
		case refAllow:
			if rules.ForHostInterface {
				return "allow"
			}
			return "unspecified"
		default:
			return name(res)
		}
	}
	hostDone := false
	switch res := r.tiers(rules.HostPreDnatTiers, pre); res {
	case refDeny, refUnspec:
		return name(res)
	case refAllow:
		hostDone = true
	}
	if !hostDone {
		if p.DestIsHost || p.SrcIsHost {
			if !rules.SuppressNormalHostPolicy {
				res := r.tiers(rules.HostNormalTiers, post)
				if res == refNone {
					res = r.profiles(rules.HostProfiles, post)
				}
				if res != refAllow {
					return name(res)
				}
			}
		} else {
			if res := r.tiers(rules.HostForwardTiers, post); res == refDeny || res == refUnspec {
				return name(res)
			}
		}
	}
	if rules.ForHostInterface {
		return "allow"
	}
	res := r.tiers(rules.Tiers, post)
	if res == refNone {
		res = r.profiles(rules.Profiles, post)
	}
	return name(res)
}

// ---------------------------------------------------------------------------------------------
// config construction helpers

func withAction(s c11Shape, action string, id uint64) Rule {
	r := *s.Rule // shallow copy of the message struct is fine: only Action differs and slices are shared read-only
	rc := &proto.Rule{}
	*rc = proto.Rule{Action: action, IpVersion: r.IpVersion, Protocol: r.Protocol, SrcNet: r.SrcNet, SrcPorts: r.SrcPorts, SrcNamedPortIpSetIds: r.SrcNamedPortIpSetIds,
		DstNet: r.DstNet, DstPorts: r.DstPorts, DstNamedPortIpSetIds: r.DstNamedPortIpSetIds, Icmp: r.Icmp, SrcIpSetIds: r.SrcIpSetIds, DstIpSetIds: r.DstIpSetIds,
		DstIpPortSetIds: r.DstIpPortSetIds, NotProtocol: r.NotProtocol, NotSrcNet: r.NotSrcNet, NotSrcPorts: r.NotSrcPorts, NotDstNet: r.NotDstNet, NotDstPorts: r.NotDstPorts,
		NotIcmp: r.NotIcmp, NotSrcIpSetIds: r.NotSrcIpSetIds, NotDstIpSetIds: r.NotDstIpSetIds, NotSrcNamedPortIpSetIds: r.NotSrcNamedPortIpSetIds, NotDstNamedPortIpSetIds: r.NotDstNamedPortIpSetIds,
		RuleId: s.Name + "/" + action}
	return Rule{Rule: rc, MatchID: id}
}

type c11Opts struct {
	Ver      int
	XDP      bool
	UseJumps bool
	FlowLogs bool
	Debug    bool
	MaxJumps int  // 0 = default
	TrampStr int  // 0 = default
	NoSplit  bool // do not pass the policy map index/stride (splitting impossible)
}

func (o c11Opts) String() string {
	return fmt.Sprintf("v%d xdp=%v jumps=%v flowlogs=%v debug=%v maxJumps=%d tramp=%d nosplit=%v", o.Ver, o.XDP, o.UseJumps, o.FlowLogs, o.Debug, o.MaxJumps, o.TrampStr, o.NoSplit)
}

type c11Case struct {
	Level string
	Desc  string
	Class string // stable class for violation keys
	Rules Rules
	Opts  c11Opts
}

func describeRules(r *Rules) string {
	var b strings.Builder
	tier := func(label string, ts []Tier) {
		for i, t := range ts {
			fmt.Fprintf(&b, "%s[%d](end=%q){", label, i, t.EndAction)
			for _, p := range t.Policies {
				b.WriteString("[")
				for _, ru := range p.Rules {
					b.WriteString(ru.Rule.RuleId + " ")
				}
				b.WriteString("]")
			}
			b.WriteString("} ")
		}
	}
	prof := func(label string, ps []Profile) {
		for i, p := range ps {
			fmt.Fprintf(&b, "%s[%d]{", label, i)
			for _, ru := range p.Rules {
				b.WriteString(ru.Rule.RuleId + " ")
			}
			b.WriteString("} ")
		}
	}
	fmt.Fprintf(&b, "forHost=%v suppressNormal=%v xdp=%v ", r.ForHostInterface, r.SuppressNormalHostPolicy, r.ForXDP)
	tier("preDNAT", r.HostPreDnatTiers)
	tier("forward", r.HostForwardTiers)
	tier("hostNormal", r.HostNormalTiers)
	prof("hostProfile", r.HostProfiles)
	tier("tier", r.Tiers)
	prof("profile", r.Profiles)
	return b.String()
}

// build compiles one configuration with the real builder.
func c11Build(env *c11Env, cs *c11Case) (progs []*ebpf.Program, jumps []int, err error) {
	var opts []Option
	o := cs.Opts
	if o.UseJumps {
		opts = append(opts, WithAllowDenyJumps(c11AllowIdx, c11DenyIdx))
	}
	if !o.NoSplit {
		opts = append(opts, WithPolicyMapIndexAndStride(c11PolIdx, c11Stride))
	}
	if o.Ver == 6 {
		opts = append(opts, WithIPv6())
	}
	if o.FlowLogs {
		opts = append(opts, WithFlowLogs())
	}
	if o.Debug {
		opts = append(opts, WithPolicyDebugEnabled())
	}
	if o.TrampStr > 0 {
		opts = append(opts, WithTrampolineStride(o.TrampStr))
	}
	b := NewBuilder(env.ids, c11FDIPSets, c11FDState, c11FDStatic, c11FDPolJmp, opts...)
	if o.MaxJumps > 0 {
		b.maxJumpsPerProgram = o.MaxJumps // in-package: lowered verifier head-room so that splitting happens on small programs
	}
	insns, err := b.Instructions(cs.Rules)
	if err != nil {
		return nil, nil, err
	}
	for _, blk := range b.blocks {
		jumps = append(jumps, blk.NumJumps)
	}
	progs, err = c11Load(insns)
	return progs, jumps, err
}

// ---------------------------------------------------------------------------------------------

type c11Worker struct {
	env map[int]*c11Env
	ref map[int]*c11Ref
}

type c11Check struct {
	c        *vk.Ctx
	lay      map[int]*ebpf.Layout
	pkts     map[int][]*c11Pkt
	pktsFull map[int][]*c11Pkt
	sampled  int32
	maxProgs int64
}

func (k *c11Check) newWorker() (*c11Worker, error) {
	w := &c11Worker{env: map[int]*c11Env{}, ref: map[int]*c11Ref{}}
	for _, ver := range []int{4, 6} {
		d := c11Domain(ver)
		e, err := newC11Env(ver, k.lay[ver], d.sets())
		if err != nil {
			return nil, err
		}
		w.env[ver] = e
		w.ref[ver] = &c11Ref{sets: d.sets(), ver: ver}
	}
	return w, nil
}

// runCase builds, executes on every packet, compares. Returns the number of jumps of the unsplit
// program (for the split sweep).
func (k *c11Check) runCase(w *c11Worker, cs *c11Case, pkts []*c11Pkt) (numJumps int, ok bool) {
	c := k.c
	env, ref := w.env[cs.Opts.Ver], w.ref[cs.Opts.Ver]
	var progs []*ebpf.Program
	var jumps []int
	perr := vk.Catch(func() error {
		var err error
		progs, jumps, err = c11Build(env, cs)
		return err
	})
	c.Add("states", 1)
	if perr != nil {
		kind := "compile-error"
		msg := perr.Error()
		if pe, isPanic := perr.(*vk.PanicError); isPanic {
			kind = "compile-panic"
			msg = pe.Val
		}
		c.Outcome(kind)
		c.Violation(fmt.Sprintf("C11:%s:%s", kind, cs.Class), map[string]any{"level": cs.Level, "config": describeRules(&cs.Rules), "case": cs.Desc, "options": cs.Opts.String(), "error": msg})
		return 0, false
	}
	if n := int64(len(progs)); n > atomic.LoadInt64(&k.maxProgs) {
		atomic.StoreInt64(&k.maxProgs, n)
	}
	for _, j := range jumps {
		numJumps += j
	}
	ok = true
	c.Nontrivial(cs.Level + "|" + cs.Opts.String() + "|" + describeRules(&cs.Rules))
	for _, p := range pkts {
		want := ref.verdict(&cs.Rules, p)
		got := env.run(progs, p, cs.Opts.XDP, cs.Opts.UseJumps)
		c.Add("transitions", 1)
		c.Max("max_insns_one_packet", int64(got.Steps))
		bad := ""
		switch {
		case got.Outcome == "fault":
			bad = "exec-fault"
		case want == "unspecified":
			c.Outcome("unspecified->" + got.Outcome)
			c.Add("unspecified_accepted", 1)
		case got.Outcome != want:
			bad = "verdict"
		case want == "allow" && got.PolRC != env.kAllow, want == "deny" && got.PolRC != env.kDeny:
			bad = "pol_rc"
		default:
			c.Outcome(fmt.Sprintf("%s|progs=%d|log=%v", got.Outcome, min(len(progs), 3), got.LogFlag))
		}
		if bad != "" {
			c.Outcome("MISMATCH:" + bad)
			key := fmt.Sprintf("C11:%s:%s:want=%s:got=%s", bad, cs.Class, want, got.Outcome)
			if bad == "exec-fault" {
				key = fmt.Sprintf("C11:exec-fault:%s", cs.Class)
			}
			c.Violation(key, map[string]any{"level": cs.Level, "config": describeRules(&cs.Rules), "case": cs.Desc, "options": cs.Opts.String(), "packet": p.String(),
				"want": want, "got": got.Outcome, "pol_rc": got.PolRC, "error": got.Err, "sub_programs": len(progs), "jumps_per_program": jumps})
			ok = false
		}
		if atomic.LoadInt32(&k.sampled) < 6 && bad == "" && want != "unspecified" && (len(progs) > 1 || p.Name != "base") {
			if atomic.AddInt32(&k.sampled, 1) <= 6 {
				c.Sample(map[string]any{"config": describeRules(&cs.Rules), "options": cs.Opts.String(), "packet": p.String(), "reference": want, "executed": got.Outcome, "pol_rc": got.PolRC, "sub_programs": len(progs), "insns_executed": got.Steps})
			}
		}
	}
	return numJumps, true
}

// parallel runs gen's cases on a pool of workers. gen must call emit for every case.
func (k *c11Check) parallel(name string, gen func(emit func(cs *c11Case, pkts []*c11Pkt, sweepSplits bool))) {
	workers := runtime.NumCPU() / 2
	if workers < 2 {
		workers = 2
	}
	if workers > 8 {
		workers = 8
	}
	type job struct {
		cs    *c11Case
		pkts  []*c11Pkt
		sweep bool
	}
	ch := make(chan job, 256)
	var wg sync.WaitGroup
	var cases, capped int64
	for i := 0; i < workers; i++ {
		wg.Add(1)
		go func() {
			defer wg.Done()
			w, err := k.newWorker()
			if err != nil {
				k.c.ToolError(err.Error())
				for range ch {
				}
				return
			}
			for j := range ch {
				if k.c.Expired() {
					atomic.AddInt64(&capped, 1)
					continue
				}
				atomic.AddInt64(&cases, 1)
				nj, ok := k.runCase(w, j.cs, j.pkts)
				if j.sweep && ok {
					// every split position: lower the per-program jump budget to every value below the
					// jump count of the unsplit program
					for mj := 1; mj <= nj+1; mj++ {
						if k.c.Expired() {
							atomic.AddInt64(&capped, 1)
							break
						}
						cs2 := *j.cs
						cs2.Opts.MaxJumps = mj
						cs2.Level = j.cs.Level + "+split"
						cs2.Class = j.cs.Class + ":split"
						atomic.AddInt64(&cases, 1)
						k.runCase(w, &cs2, j.pkts)
					}
				}
			}
		}()
	}
	gen(func(cs *c11Case, pkts []*c11Pkt, sweep bool) { ch <- job{cs, pkts, sweep} })
	close(ch)
	wg.Wait()
	if capped > 0 {
		k.c.Capped(fmt.Sprintf("%s: deadline reached, %d case(s) not run", name, capped))
	}
	fmt.Printf("enum C11 %-24s cases=%d\n", name, cases)
	k.c.Extra("cases:"+name, cases)
}

func TestVerif_C11(t *testing.T) {
	vk.Run(t, "C11", func(c *vk.Ctx) {
		logrus.SetLevel(logrus.PanicLevel)
		if err := ebpf.SelfTest(); err != nil {
			c.ToolError("ebpf self-test: " + err.Error())
			return
		}
		dir, err := bpfBuild("C11")
		if err != nil {
			c.ToolError(err.Error())
			return
		}
		defer bpfCleanup(dir)
		v4, v6, err := loadLayouts(dir)
		if err != nil {
			c.ToolError(err.Error())
			return
		}
		k := &c11Check{c: c, lay: map[int]*ebpf.Layout{4: v4, 6: v6}, pkts: map[int][]*c11Pkt{}, pktsFull: map[int][]*c11Pkt{}}
		for _, ver := range []int{4, 6} {
			d := c11Domain(ver)
			k.pkts[ver] = d.packets(false)
			k.pktsFull[ver] = d.packets(true)
		}
		c.Rule("A: every rule shape (all match features of the builder, ~75 per IP version) x action {allow,deny,pass,log} x section {workload tier, pre-DNAT, apply-on-forward, normal host, host profile, workload profile, XDP} x ~75 boundary packets (one dimension varied at a time: addresses at CIDR edges, ports at range edges, protocols, ICMP type/code, to/from-host flags, pre!=post NAT); " +
			"B1: every tier list of <=2 tiers x <=2 rules (policy split variants, staged=empty policy) from a 9-shape x 4-action domain x end action {deny,pass,unset} per section; B2: cross product of per-section menus over all six sections x ForHostInterface x SuppressNormalHostPolicy; " +
			"C: every split position (per-program jump budget 1..N) for multi-rule / multi-CIDR / multi-port configurations, trampolines with a small stride; D: option matrix (flow logs, policy debug, cb[] jumps, IPv6); E: N passed tiers (N in {0,1,29..34,65} around MaxRuleIDs=32, passed by a matching pass rule or by end-of-tier pass) before each kind of deciding element x 7 section layouts x {flow logs, policy debug, split}. Non-trivial = distinct (configuration, options).")
		c.Assume("rule matching reference = engine/refpol.RuleMatches; where it answers Unspecified (negated match on a packet the clause does not apply to, pass inside a profile) the executed outcome is accepted and counted")
		c.Assume("the state blob is laid out with the offsets of the clang layout probe (C13 checks that they equal the builder's constants); IP set map content comes from the real ipsets encoders; tail calls into the static jump map are terminal (allow/deny sentinels)")
		k.levelA()
		k.levelB1()
		k.levelB2()
		k.levelC()
		k.levelD()
		k.levelE()
		c.Extra("max_sub_programs", k.maxProgs)
	})
}

func tier1(rules []Rule, end TierEndAction) []Tier {
	return []Tier{{Name: "t", EndAction: end, EndRuleID: 0x7e57, Policies: []Policy{{Name: "p", Kind: "NetworkPolicy", Rules: rules}}}}
}

// place puts one rule list into a section of an otherwise neutral configuration.
func place(section string, rules []Rule) (Rules, c11Opts) {
	o := c11Opts{UseJumps: true}
	switch section {
	case "tier":
		return Rules{SuppressNormalHostPolicy: true, Tiers: tier1(rules, TierEndDeny)}, o
	case "tier-pass":
		return Rules{SuppressNormalHostPolicy: true, Tiers: tier1(rules, TierEndPass), Profiles: []Profile{{Name: "allow-udp", Rules: []Rule{withAction(c11Shape{"proto-udp-num", &proto.Rule{Protocol: pnum(17)}}, "allow", 77)}}}}, o
	case "profile":
		return Rules{SuppressNormalHostPolicy: true, Profiles: []Profile{{Name: "prof", Rules: rules}}}, o
	case "predna":
		return Rules{ForHostInterface: true, HostPreDnatTiers: tier1(rules, TierEndPass), HostNormalTiers: tier1(nil, TierEndDeny), HostForwardTiers: tier1(nil, TierEndDeny)}, o
	case "forward":
		return Rules{ForHostInterface: true, HostForwardTiers: tier1(rules, TierEndDeny)}, o
	case "host-normal":
		return Rules{ForHostInterface: true, HostNormalTiers: tier1(rules, TierEndDeny)}, o
	case "host-profile":
		return Rules{ForHostInterface: true, HostProfiles: []Profile{{Name: "hp", Rules: rules}}}, o
	case "wl-with-host":
		// workload interface with host-* policy in front
		return Rules{SuppressNormalHostPolicy: true, HostPreDnatTiers: tier1(rules, TierEndPass), HostForwardTiers: tier1(rules, TierEndPass), Tiers: tier1(rules, TierEndDeny)}, o
	case "xdp":
		o.XDP = true
		return Rules{ForHostInterface: true, ForXDP: true, HostNormalTiers: tier1(rules, TierEndPass)}, o
	}
	panic(section)
}

var c11Sections = []string{"tier", "tier-pass", "profile", "predna", "forward", "host-normal", "host-profile", "wl-with-host", "xdp"}
var c11Actions = []string{"allow", "deny", "next-tier", "log"}

func (k *c11Check) levelA() {
	k.parallel("A:rule-shapes", func(emit func(*c11Case, []*c11Pkt, bool)) {
		for _, ver := range []int{4, 6} {
			d := c11Domain(ver)
			shapes := d.shapes(true)
			secs := c11Sections
			if k.c.Quick() {
				secs = []string{"tier", "profile", "predna", "host-normal", "xdp"}
			}
			for _, sh := range shapes {
				for _, act := range c11Actions {
					for _, sec := range secs {
						if act == "log" && (sec == "profile" || sec == "host-profile") {
							continue // handled by the dedicated compile check below
						}
						rules := []Rule{withAction(sh, act, 0x1000)}
						if act == "log" {
							rules = append(rules, withAction(c11Shape{"proto-tcp-name", &proto.Rule{Protocol: pname("tcp")}}, "allow", 0x1001))
						}
						r, o := place(sec, rules)
						o.Ver = ver
						emit(&c11Case{Level: "A", Class: fmt.Sprintf("v%d:shape=%s:section=%s", ver, sh.Name, sec), Desc: sh.Name + "/" + act + " in " + sec, Rules: r, Opts: o}, k.pktsFull[ver], false)
					}
				}
			}
			// valid configuration that must compile: a log rule inside a profile
			for _, sec := range []string{"profile", "host-profile"} {
				r, o := place(sec, []Rule{withAction(shapes[0], "log", 1), withAction(shapes[1], "allow", 2)})
				o.Ver = ver
				emit(&c11Case{Level: "A", Class: "log-rule-in-" + sec, Desc: "log rule followed by allow tcp in a " + sec, Rules: r, Opts: o}, k.pkts[ver], false)
			}
		}
	})
}

// all rule lists of length <= n over dom
func ruleLists(dom []Rule, n int) [][]Rule {
	out := [][]Rule{nil}
	prev := [][]Rule{nil}
	for i := 0; i < n; i++ {
		var next [][]Rule
		for _, p := range prev {
			for _, r := range dom {
				l := append(append([]Rule(nil), p...), r)
				next = append(next, l)
			}
		}
		out = append(out, next...)
		prev = next
	}
	return out
}

func (k *c11Check) structDomain(ver int, nShapes int) []Rule {
	d := c11Domain(ver)
	var dom []Rule
	id := uint64(0x100)
	for _, sh := range d.shapes(false)[:nShapes] {
		for _, a := range c11Actions {
			dom = append(dom, withAction(sh, a, id))
			id++
		}
	}
	return dom
}

func (k *c11Check) levelB1() {
	k.parallel("B1:section-structure", func(emit func(*c11Case, []*c11Pkt, bool)) {
		ver := 4
		nShapes := k.c.Pick(3, 9) // match-all, tcp, udp (+ not-tcp, src, dst-host, dport, ipset, icmp)
		dom := k.structDomain(ver, nShapes)
		lists := ruleLists(dom, 2)
		ends := []TierEndAction{TierEndDeny, TierEndPass, TierEndUndef}
		// tiers: one tier with every list (and its split into two policies, and a staged = empty policy in front)
		var tiers1 [][]Tier
		for _, l := range lists {
			for _, e := range ends {
				tiers1 = append(tiers1, tier1(l, e))
				if len(l) == 2 {
					tiers1 = append(tiers1, []Tier{{Name: "t", EndAction: e, EndRuleID: 9, Policies: []Policy{{Name: "staged-skipped"}, {Name: "p1", Rules: l[:1]}, {Name: "p2", Namespace: "ns", Rules: l[1:]}}}})
				}
			}
		}
		// two tiers: first tier from single-rule lists, second from single-rule lists (all end actions)
		single := ruleLists(dom, 1)
		var tiers2 [][]Tier
		for _, l1 := range single {
			for _, e1 := range ends {
				for _, l2 := range single {
					for _, e2 := range []TierEndAction{TierEndDeny, TierEndPass} {
						tiers2 = append(tiers2, []Tier{{Name: "t1", EndAction: e1, EndRuleID: 1, Policies: []Policy{{Name: "a", Rules: l1}}}, {Name: "t2", EndAction: e2, EndRuleID: 2, Policies: []Policy{{Name: "b", Rules: l2}}}})
					}
				}
			}
		}
		all := append(tiers1, tiers2...)
		udpAllow := []Profile{{Name: "allow-udp", Rules: []Rule{withAction(c11Shape{"proto-udp-num", &proto.Rule{Protocol: pnum(17)}}, "allow", 77)}}}
		for _, ts := range all {
			for _, sec := range []string{"tier", "predna", "forward", "host-normal", "xdp"} {
				var r Rules
				o := c11Opts{Ver: ver, UseJumps: true}
				switch sec {
				case "tier":
					r = Rules{Tiers: ts, Profiles: udpAllow}
				case "predna":
					r = Rules{HostPreDnatTiers: ts, Tiers: tier1(nil, TierEndPass), Profiles: udpAllow, SuppressNormalHostPolicy: true}
				case "forward":
					r = Rules{ForHostInterface: true, HostForwardTiers: ts}
				case "host-normal":
					r = Rules{ForHostInterface: true, HostNormalTiers: ts, HostProfiles: udpAllow}
				case "xdp":
					r = Rules{ForHostInterface: true, ForXDP: true, HostNormalTiers: ts}
					o.XDP = true
				}
				emit(&c11Case{Level: "B1", Class: "structure:" + sec, Desc: "tier structure in " + sec, Rules: r, Opts: o}, k.pkts[ver], false)
			}
		}
		// profiles: <=2 profiles x <=2 rules (no log: see levelA)
		var pdom []Rule
		for _, r := range dom {
			if actionOf(r.Rule) != "log" {
				pdom = append(pdom, r)
			}
		}
		plists := ruleLists(pdom, 2)
		psingle := ruleLists(pdom, 1)
		for _, l := range plists {
			for _, l2 := range psingle {
				profs := []Profile{{Name: "p1", Rules: l}}
				if l2 != nil {
					profs = append(profs, Profile{Name: "p2", Rules: l2})
				}
				emit(&c11Case{Level: "B1", Class: "structure:profiles", Desc: "profiles", Rules: Rules{Profiles: profs}, Opts: c11Opts{Ver: ver, UseJumps: true}}, k.pkts[ver], false)
				emit(&c11Case{Level: "B1", Class: "structure:host-profiles", Desc: "host profiles", Rules: Rules{ForHostInterface: true, HostProfiles: profs}, Opts: c11Opts{Ver: ver, UseJumps: true}}, k.pkts[ver], false)
			}
		}
	})
}

func (k *c11Check) levelB2() {
	k.parallel("B2:section-cross-product", func(emit func(*c11Case, []*c11Pkt, bool)) {
		ver := 4
		d := c11Domain(ver)
		sh := d.shapes(false)
		all, tcp, dsth := sh[0], sh[1], sh[5]
		menuT := [][]Tier{
			nil,
			tier1([]Rule{withAction(all, "allow", 1)}, TierEndDeny),
			tier1([]Rule{withAction(tcp, "deny", 2)}, TierEndPass),
			tier1([]Rule{withAction(dsth, "allow", 3)}, TierEndDeny),
			tier1([]Rule{withAction(all, "log", 4), withAction(tcp, "next-tier", 5)}, TierEndDeny),
		}
		menuP := [][]Profile{
			nil,
			{{Name: "a", Rules: []Rule{withAction(tcp, "allow", 6)}}},
			{{Name: "d", Rules: []Rule{withAction(dsth, "deny", 7)}}, {Name: "a2", Rules: []Rule{withAction(all, "allow", 8)}}},
		}
		if k.c.Quick() {
			menuT = menuT[:4]
		}
		for _, pre := range menuT {
			for _, fwd := range menuT {
				for _, nrm := range menuT {
					for _, hp := range menuP {
						for _, wl := range menuT {
							for _, wp := range menuP {
								for _, forHost := range []bool{false, true} {
									for _, sup := range []bool{false, true} {
										if forHost && (wl != nil || wp != nil) {
											continue // workload policy is not written for host interfaces
										}
										r := Rules{ForHostInterface: forHost, SuppressNormalHostPolicy: sup, HostPreDnatTiers: pre, HostForwardTiers: fwd, HostNormalTiers: nrm, HostProfiles: hp, Tiers: wl, Profiles: wp}
										emit(&c11Case{Level: "B2", Class: "cross-section", Desc: "cross product", Rules: r, Opts: c11Opts{Ver: ver, UseJumps: true}}, k.pkts[ver], false)
									}
								}
							}
						}
					}
				}
			}
		}
	})
}

// levelC: program splitting at every position and trampolines.
func (k *c11Check) levelC() {
	k.parallel("C:split-sweep", func(emit func(*c11Case, []*c11Pkt, bool)) {
		for _, ver := range []int{4, 6} {
			d := c11Domain(ver)
			byName := map[string]c11Shape{}
			for _, s := range d.shapes(true) {
				byName[s.Name] = s
			}
			manyNets := &proto.Rule{SrcNet: []string{d.other, d.host, d.in24}, NotDstNet: []string{d.other, d.hostNet(d.post3)}}
			manyPorts := &proto.Rule{Protocol: pname("tcp"), SrcPorts: []*proto.PortRange{pr(1, 2), pr(80, 80), pr(999, 1001), pr(5, 5)}, NotDstPorts: []*proto.PortRange{pr(81, 81), pr(100, 200), pr(8081, 8082)},
				DstNamedPortIpSetIds: []string{"np2", "np1"}, DstPorts: []*proto.PortRange{pr(7, 7)}}
			lists := [][]Rule{
				{withAction(byName["tcp-sports-multi"], "allow", 1), withAction(byName["src-net-multi"], "deny", 2), withAction(byName["match-all"], "allow", 3)},
				{withAction(c11Shape{"many-nets", manyNets}, "allow", 4), withAction(byName["match-all"], "log", 5), withAction(byName["proto-udp-num"], "next-tier", 6)},
				{withAction(c11Shape{"many-ports", manyPorts}, "allow", 7), withAction(byName["dst-ipset"], "deny", 8)},
				{withAction(byName["combo-tcp-src-dst-port"], "next-tier", 9), withAction(byName["not-src-ipset-two"], "allow", 10), withAction(byName["tcp-dst-ports-or-named"], "deny", 11)},
			}
			if k.c.Quick() {
				lists = lists[:3]
			}
			for li, l := range lists {
				cfgs := []Rules{
					{Tiers: []Tier{{Name: "t1", EndAction: TierEndPass, EndRuleID: 21, Policies: []Policy{{Name: "p", Rules: l}}}, {Name: "t2", EndAction: TierEndDeny, EndRuleID: 22, Policies: []Policy{{Name: "q", Rules: l[:1]}}}},
						Profiles: []Profile{{Name: "pr", Rules: []Rule{withAction(byName["proto-udp-num"], "allow", 30)}}}},
					{ForHostInterface: true, HostPreDnatTiers: tier1(l, TierEndPass), HostForwardTiers: tier1(l[:1], TierEndDeny), HostNormalTiers: tier1(l, TierEndDeny),
						HostProfiles: []Profile{{Name: "hp", Rules: []Rule{withAction(byName["proto-udp-num"], "allow", 31)}}}},
				}
				if !k.c.Quick() {
					cfgs = append(cfgs, Rules{ForHostInterface: true, ForXDP: true, HostNormalTiers: tier1(l, TierEndPass)})
				}
				for ci, r := range cfgs {
					for _, fl := range []bool{false, true} {
						if fl && k.c.Quick() && ci > 0 {
							continue
						}
						o := c11Opts{Ver: ver, UseJumps: true, XDP: r.ForXDP, FlowLogs: fl}
						emit(&c11Case{Level: "C", Class: fmt.Sprintf("v%d:list%d:cfg%d", ver, li, ci), Desc: "split sweep", Rules: r, Opts: o}, k.pktsFull[ver], true)
						o.TrampStr = 16
						emit(&c11Case{Level: "C", Class: fmt.Sprintf("v%d:list%d:cfg%d:trampolines", ver, li, ci), Desc: "trampoline stride 16", Rules: r, Opts: o}, k.pktsFull[ver], false)
						o.TrampStr = 40
						o.MaxJumps = 12
						emit(&c11Case{Level: "C", Class: fmt.Sprintf("v%d:list%d:cfg%d:trampolines+split", ver, li, ci), Desc: "trampoline stride 40 + splitting at 12 jumps", Rules: r, Opts: o}, k.pktsFull[ver], false)
					}
				}
			}
		}
		// splitting requested but impossible (no policy map index/stride): program must still be correct
		d := c11Domain(4)
		r, o := place("tier", []Rule{withAction(d.shapes(false)[4], "allow", 1), withAction(d.shapes(false)[1], "deny", 2)})
		o.Ver, o.NoSplit, o.MaxJumps = 4, true, 2
		emit(&c11Case{Level: "C", Class: "nosplit", Desc: "jump budget exceeded without split parameters", Rules: r, Opts: o}, k.pktsFull[4], false)
	})
	// one genuinely large program (thorough): > default jump budget so that the real threshold splits it
	if k.c.Thorough() {
		k.parallel("C:real-threshold", func(emit func(*c11Case, []*c11Pkt, bool)) {
			d := c11Domain(4)
			sh := d.shapes(true)
			var rules []Rule
			for i := 0; i < 1400; i++ {
				s := sh[i%len(sh)]
				act := "next-tier"
				if strings.HasPrefix(s.Name, "match-all") || s.Name == "src-net-zero" {
					act = "log"
				}
				rules = append(rules, withAction(s, act, uint64(i)))
			}
			rules = append(rules, withAction(sh[1], "allow", 99999))
			r := Rules{Tiers: []Tier{{Name: "big", EndAction: TierEndDeny, Policies: []Policy{{Name: "p", Rules: rules}}}}}
			emit(&c11Case{Level: "C", Class: "real-threshold", Desc: "1400-rule policy, default jump budget", Rules: r, Opts: c11Opts{Ver: 4, UseJumps: true}}, k.pktsFull[4], false)
		})
	}
}

// levelE: fixed-size limits of the state blob at their boundary. state->rule_ids holds MaxRuleIDs (32)
// entries; with flow logs / policy debug every matching non-log rule (and every end-of-tier rule)
// records a hit. N tiers that are passed (by a matching pass rule, or by an end-of-tier pass) precede
// the deciding element, N around the boundary; the verdict must not depend on the array being full
// and nothing behind the array may be written (the flags word follows it and is checked after every run).
func (k *c11Check) levelE() {
	k.parallel("E:rule-id-array-boundary", func(emit func(*c11Case, []*c11Pkt, bool)) {
		ver := 4
		d := c11Domain(ver)
		sh := d.shapes(false)
		all, tcp, udp := sh[0], sh[1], sh[2]
		ns := []int{0, 1, state.MaxRuleIDs - 3, state.MaxRuleIDs - 2, state.MaxRuleIDs - 1, state.MaxRuleIDs, state.MaxRuleIDs + 1, state.MaxRuleIDs + 2, 2*state.MaxRuleIDs + 1}
		passTiers := func(n int, byRule bool) []Tier {
			var ts []Tier
			for i := 0; i < n; i++ {
				t := Tier{Name: fmt.Sprintf("pass%d", i), EndAction: TierEndPass, EndRuleID: uint64(0xE000 + i)}
				if byRule {
					t.EndAction = TierEndDeny
					t.Policies = []Policy{{Name: "p", Rules: []Rule{withAction(all, "next-tier", uint64(0xA000+i))}}}
				} else {
					t.Policies = []Policy{{Name: "p", Rules: []Rule{withAction(udp, "deny", uint64(0xA000+i))}}} // no match for tcp: end-of-tier pass is recorded
				}
				ts = append(ts, t)
			}
			return ts
		}
		deciders := map[string]func() ([]Tier, []Profile){
			"rule-allow":       func() ([]Tier, []Profile) { return tier1([]Rule{withAction(tcp, "allow", 0xD1)}, TierEndDeny), nil },
			"rule-deny":        func() ([]Tier, []Profile) { return tier1([]Rule{withAction(tcp, "deny", 0xD2)}, TierEndPass), nil },
			"end-of-tier-deny": func() ([]Tier, []Profile) { return tier1([]Rule{withAction(udp, "allow", 0xD3)}, TierEndDeny), nil },
			"profile-allow": func() ([]Tier, []Profile) {
				return nil, []Profile{{Name: "pr", Rules: []Rule{withAction(tcp, "allow", 0xD4)}}}
			},
			"no-profile-match": func() ([]Tier, []Profile) {
				return nil, []Profile{{Name: "pr", Rules: []Rule{withAction(udp, "allow", 0xD5)}}}
			},
		}
		var dnames []string
		for n := range deciders {
			dnames = append(dnames, n)
		}
		sort.Strings(dnames)
		for _, n := range ns {
			for _, byRule := range []bool{true, false} {
				for _, dn := range dnames {
					dt, dp := deciders[dn]()
					tiers := append(passTiers(n, byRule), dt...)
					cfgs := map[string]Rules{
						"workload":    {SuppressNormalHostPolicy: true, Tiers: tiers, Profiles: dp},
						"host-normal": {ForHostInterface: true, HostNormalTiers: tiers, HostProfiles: dp},
						// pre-DNAT in front of workload policy: a pre-DNAT deny must not fall through
						"predna+workload": {SuppressNormalHostPolicy: true, HostPreDnatTiers: tiers, Tiers: tier1([]Rule{withAction(all, "allow", 0xD9)}, TierEndDeny)},
						"predna-host":     {ForHostInterface: true, HostPreDnatTiers: tiers, HostForwardTiers: tier1(nil, TierEndDeny), HostNormalTiers: tier1(nil, TierEndDeny)},
						"forward":         {ForHostInterface: true, HostForwardTiers: tiers},
						"xdp":             {ForHostInterface: true, ForXDP: true, HostNormalTiers: tiers},
						// hits accumulate across sections: pre-DNAT passes, then forward / normal, then workload tiers
						"all-sections": {SuppressNormalHostPolicy: true, HostPreDnatTiers: passTiers(n/2, byRule), HostForwardTiers: passTiers(n-n/2, byRule), Tiers: append(passTiers(1, byRule), dt...), Profiles: dp},
					}
					var cn []string
					for c := range cfgs {
						cn = append(cn, c)
					}
					sort.Strings(cn)
					for _, c := range cn {
						r := cfgs[c]
						if dp != nil && (c == "predna+workload" || c == "predna-host" || c == "forward" || c == "xdp") {
							continue // no profiles in these sections
						}
						for _, o := range []c11Opts{{UseJumps: true}, {UseJumps: true, FlowLogs: true}, {UseJumps: true, Debug: true}, {UseJumps: true, FlowLogs: true, MaxJumps: 25}} {
							o.Ver, o.XDP = ver, r.ForXDP
							emit(&c11Case{Level: "E", Class: fmt.Sprintf("rule-ids-boundary:%s:%s", c, dn), Desc: fmt.Sprintf("%d passed tiers (by rule=%v) then %s in %s", n, byRule, dn, c), Rules: r, Opts: o}, k.pkts[ver], false)
						}
					}
				}
			}
		}
	})
}

// levelD: option matrix on a fixed set of configurations.
func (k *c11Check) levelD() {
	k.parallel("D:options", func(emit func(*c11Case, []*c11Pkt, bool)) {
		for _, ver := range []int{4, 6} {
			d := c11Domain(ver)
			sh := d.shapes(true)
			idx := map[string]c11Shape{}
			for _, s := range sh {
				idx[s.Name] = s
			}
			names := make([]string, 0, len(idx))
			for n := range idx {
				names = append(names, n)
			}
			sort.Strings(names)
			for _, n := range names {
				s := idx[n]
				for _, sec := range []string{"tier", "predna", "host-normal"} {
					r, o := place(sec, []Rule{withAction(s, "allow", 0xAB), withAction(idx["proto-udp-num"], "deny", 0xCD)})
					o.Ver = ver
					for _, v := range []c11Opts{{FlowLogs: true, UseJumps: true}, {Debug: true, UseJumps: true}, {UseJumps: false}, {FlowLogs: true, Debug: true, UseJumps: false}} {
						v.Ver = ver
						if k.c.Quick() && (v.Debug && v.FlowLogs) {
							continue
						}
						emit(&c11Case{Level: "D", Class: fmt.Sprintf("v%d:shape=%s:section=%s:opts", ver, n, sec), Desc: "options " + v.String(), Rules: r, Opts: v}, k.pkts[ver], false)
					}
				}
			}
		}
	})
}

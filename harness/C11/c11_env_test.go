package polprog

// Execution environment of C11: the assembled policy programs run in the ebpf interpreter against a
// cali_tc_state blob laid out with the C-DERIVED offsets (clang layout probe over the real headers),
// the real IP-set LPM map contents written with the real ipsets encoders, a static jump map holding
// allow/deny sentinels and the policy jump map holding the sub-programs of a split program.

import (
	"encoding/binary"
	"fmt"
	"net/netip"
	"strconv"
	"strings"

	"github.com/projectcalico/calico/felix/bpf/asm"
	"github.com/projectcalico/calico/felix/bpf/ipsets"
	"github.com/projectcalico/calico/felix/bpf/maps"
	"github.com/projectcalico/calico/zzverif/ebpf"
)

const (
	c11FDIPSets = 11
	c11FDState  = 12
	c11FDStatic = 13
	c11FDPolJmp = 14

	c11AllowIdx = 3
	c11DenyIdx  = 5
	c11PolIdx   = 7
	c11Stride   = 100
)

// fake IP set id allocator: ids with eight distinct bytes so that a byte-order slip shows.
type c11IDs map[string]uint64

func (m c11IDs) GetNoAlloc(id string) uint64 { return m[id] }

// c11Sets: set name -> members in the syntax of proto.IPSetUpdate members.
type c11SetDef struct {
	id      uint64
	members []string
}

type c11Pkt struct {
	Name             string
	Src, Pre, Post   netip.Addr
	Proto            int
	SPort            int
	PreDPort         int
	PostDPort        int
	ICMPType, ICMPCd int
	DestIsHost       bool
	SrcIsHost        bool
}

func (p *c11Pkt) String() string {
	fl := ""
	if p.DestIsHost {
		fl += " dest-is-host"
	}
	if p.SrcIsHost {
		fl += " src-is-host"
	}
	if p.Proto == 1 || p.Proto == 58 {
		return fmt.Sprintf("%s: proto %d %v -> pre %v / post %v icmp %d/%d%s", p.Name, p.Proto, p.Src, p.Pre, p.Post, p.ICMPType, p.ICMPCd, fl)
	}
	return fmt.Sprintf("%s: proto %d %v:%d -> pre %v:%d / post %v:%d%s", p.Name, p.Proto, p.Src, p.SPort, p.Pre, p.PreDPort, p.Post, p.PostDPort, fl)
}

type c11Env struct {
	ver    int
	lay    *ebpf.Layout
	vm     *ebpf.VM
	state  *ebpf.ArrayMap
	ipsets *ebpf.LPMTrieMap
	static *ebpf.ProgArrayMap
	poljmp *ebpf.ProgArrayMap
	ids    c11IDs
	sets   map[string]c11SetDef

	hit      string // sentinel reached: "allow" / "deny"
	hitPolRC int64

	o struct {
		ipSrc, preDst, postDst, ipDst, polRC, sport, dport, preDPort, postDPort, ipProto, rulesHit, ruleIDs, flags int
	}
	kDestIsHost, kSrcIsHost, kLogPacket uint64
	kAllow, kDeny                       int64
	stateSize, skbSize, cbOff           int
}

func newC11Env(ver int, lay *ebpf.Layout, sets map[string]c11SetDef) (*c11Env, error) {
	e := &c11Env{ver: ver, lay: lay, ids: c11IDs{}, sets: sets}
	var err error
	get := func(n string) int {
		v, e2 := lay.Get(n)
		if e2 != nil && err == nil {
			err = e2
		}
		return int(v)
	}
	e.o.ipSrc, e.o.ipDst = get("O_tc_state__ip_src"), get("O_tc_state__ip_dst")
	e.o.preDst, e.o.postDst = get("O_tc_state__pre_nat_ip_dst"), get("O_tc_state__post_nat_ip_dst")
	e.o.polRC, e.o.sport, e.o.dport = get("O_tc_state__pol_rc"), get("O_tc_state__sport"), get("O_tc_state__dport")
	e.o.preDPort, e.o.postDPort = get("O_tc_state__pre_nat_dport"), get("O_tc_state__post_nat_dport")
	e.o.ipProto, e.o.rulesHit, e.o.ruleIDs, e.o.flags = get("O_tc_state__ip_proto"), get("O_tc_state__rules_hit"), get("O_tc_state__rule_ids"), get("O_tc_state__flags")
	e.kDestIsHost, e.kSrcIsHost, e.kLogPacket = uint64(get("K_st_dest_is_host")), uint64(get("K_st_src_is_host")), uint64(get("K_st_log_packet"))
	e.kAllow, e.kDeny = int64(get("K_pol_allow")), int64(get("K_pol_deny"))
	e.stateSize, e.skbSize, e.cbOff = get("K_state_size"), get("S_skb"), get("O_skb__cb")
	ipsKey := get("S_ip_set_key")
	if err != nil {
		return nil, err
	}
	e.vm = ebpf.NewVM()
	e.vm.MaxInsns = 1 << 22
	e.vm.MaxTailCalls = 1 << 20 // lowered jump budgets make chains longer than any real program's
	e.state = ebpf.NewArrayMap("cali_state", e.stateSize, 2)
	e.ipsets = ebpf.NewLPMTrie("cali_ip_sets", ipsKey, 4)
	e.static = ebpf.NewProgArray("static_jumps", 16)
	e.poljmp = ebpf.NewProgArray("policy_jumps", 100000)
	e.vm.BindFD(c11FDIPSets, e.ipsets)
	e.vm.BindFD(c11FDState, e.state)
	e.vm.BindFD(c11FDStatic, e.static)
	e.vm.BindFD(c11FDPolJmp, e.poljmp)
	sent := func(name string) *ebpf.Program {
		return ebpf.NativeProgram(name, func(vm *ebpf.VM, ctx uint64) (uint64, error) {
			st, _ := e.state.Lookup([]byte{0, 0, 0, 0})
			e.hit = name
			e.hitPolRC = int64(int32(binary.LittleEndian.Uint32(st[e.o.polRC:])))
			return 0, nil
		})
	}
	e.static.Set(c11AllowIdx, sent("allow"))
	e.static.Set(c11DenyIdx, sent("deny"))
	// IP sets through the REAL encoders
	for name, def := range sets {
		e.ids[name] = def.id
		for _, m := range def.members {
			var ent ipsets.IPSetEntryInterface
			if ver == 4 {
				ent = ipsets.ProtoIPSetMemberToBPFEntry(def.id, m)
			} else {
				ent = ipsets.ProtoIPSetMemberToBPFEntryV6(def.id, m)
			}
			if ent == nil {
				continue // member of the other IP version
			}
			if rc := e.ipsets.Update(ent.AsBytes(), ipsets.DummyValue, 0); rc != 0 {
				return nil, fmt.Errorf("ip set entry for %s member %s rejected by the LPM map (errno %d, key %x)", name, m, rc, ent.AsBytes())
			}
		}
	}
	return e, nil
}

func putAddr(b []byte, off int, a netip.Addr) {
	s := a.AsSlice()
	copy(b[off:], s)
}

type c11Run struct {
	Outcome  string // allow, deny, xdp-pass, exit:<r0>, fault
	PolRC    int64
	LogFlag  bool
	RulesHit uint32
	Err      string
	Steps    int
	Progs    int
}

// run executes the (possibly split) program on one packet.
func (e *c11Env) run(progs []*ebpf.Program, p *c11Pkt, xdp, useJumps bool) c11Run {
	st, _ := e.state.Lookup([]byte{0, 0, 0, 0})
	for i := range st {
		st[i] = 0xEE // fields the policy program has no business reading
	}
	zero := func(off, n int) {
		for i := 0; i < n; i++ {
			st[off+i] = 0
		}
	}
	for _, off := range []int{e.o.ipSrc, e.o.ipDst, e.o.preDst, e.o.postDst} {
		zero(off, 16)
	}
	putAddr(st, e.o.ipSrc, p.Src)
	putAddr(st, e.o.ipDst, p.Post)
	putAddr(st, e.o.preDst, p.Pre)
	putAddr(st, e.o.postDst, p.Post)
	binary.LittleEndian.PutUint32(st[e.o.polRC:], 0)
	binary.LittleEndian.PutUint16(st[e.o.sport:], uint16(p.SPort))
	if p.Proto == 1 || p.Proto == 58 {
		st[e.o.dport] = byte(p.ICMPType)
		st[e.o.dport+1] = byte(p.ICMPCd)
		binary.LittleEndian.PutUint16(st[e.o.sport:], 0)
		binary.LittleEndian.PutUint16(st[e.o.preDPort:], 0)
		binary.LittleEndian.PutUint16(st[e.o.postDPort:], 0)
	} else {
		binary.LittleEndian.PutUint16(st[e.o.dport:], uint16(p.PostDPort))
		binary.LittleEndian.PutUint16(st[e.o.preDPort:], uint16(p.PreDPort))
		binary.LittleEndian.PutUint16(st[e.o.postDPort:], uint16(p.PostDPort))
	}
	st[e.o.ipProto] = byte(p.Proto)
	binary.LittleEndian.PutUint32(st[e.o.rulesHit:], 0)
	var fl uint64 = 0x1 | 0x2000 // unrelated flag bits set: must survive
	if p.DestIsHost {
		fl |= e.kDestIsHost
	}
	if p.SrcIsHost {
		fl |= e.kSrcIsHost
	}
	binary.LittleEndian.PutUint64(st[e.o.flags:], fl)
	for i := range e.poljmp.Progs {
		delete(e.poljmp.Progs, i)
	}
	for i, pr := range progs {
		e.poljmp.Set(uint32(SubProgramJumpIdx(c11PolIdx, i, c11Stride)), pr)
	}
	var ctx []byte
	if xdp {
		ctx = make([]byte, 24) // struct xdp_md
	} else {
		ctx = make([]byte, e.skbSize)
		if !useJumps {
			binary.LittleEndian.PutUint32(ctx[e.cbOff:], c11AllowIdx)
			binary.LittleEndian.PutUint32(ctx[e.cbOff+4:], c11DenyIdx)
		} else {
			binary.LittleEndian.PutUint32(ctx[e.cbOff:], 0xdead)
			binary.LittleEndian.PutUint32(ctx[e.cbOff+4:], 0xdead)
		}
	}
	e.hit = ""
	r0, err := e.vm.Run(progs[0], ctx)
	res := c11Run{Steps: e.vm.LastSteps, Progs: len(progs)}
	flags := binary.LittleEndian.Uint64(st[e.o.flags:])
	res.LogFlag = flags&e.kLogPacket != 0
	res.RulesHit = binary.LittleEndian.Uint32(st[e.o.rulesHit:])
	res.PolRC = int64(int32(binary.LittleEndian.Uint32(st[e.o.polRC:])))
	switch {
	case err != nil:
		res.Outcome, res.Err = "fault", err.Error()
	case flags&^e.kLogPacket != fl:
		res.Outcome, res.Err = "fault", fmt.Sprintf("state flags corrupted: %#x -> %#x", fl, flags)
	case e.hit != "":
		res.Outcome, res.PolRC = e.hit, e.hitPolRC
	case xdp && r0 == 2:
		res.Outcome = "xdp-pass"
	default:
		res.Outcome = "exit:" + strconv.FormatUint(r0, 10)
	}
	return res
}

// load converts assembled programs.
func c11Load(progs []asm.Insns) ([]*ebpf.Program, error) {
	out := make([]*ebpf.Program, len(progs))
	for i, p := range progs {
		pr, err := ebpf.FromBytes(fmt.Sprintf("polprog#%d", i), p.AsBytes())
		if err != nil {
			return nil, err
		}
		out[i] = pr
	}
	return out, nil
}

// membership semantics of IP sets, written from the documented member syntax:
// "cidr" = address inside the CIDR; "ip,proto:port" = exact address, protocol and port.
func c11InSet(def c11SetDef, a netip.Addr, proto, port int, wantPorts bool) bool {
	for _, m := range def.members {
		if strings.Contains(m, ",") {
			if !wantPorts {
				continue
			}
			parts := strings.Split(m, ",")
			pp := strings.Split(parts[1], ":")
			mp, _ := strconv.Atoi(pp[1])
			mproto := map[string]int{"tcp": 6, "udp": 17}[pp[0]]
			ma, err := netip.ParseAddr(parts[0])
			if err == nil && ma == a && mproto == proto && mp == port {
				return true
			}
			continue
		}
		if wantPorts {
			continue
		}
		pfx, err := netip.ParsePrefix(m)
		if err != nil {
			if ma, e2 := netip.ParseAddr(m); e2 == nil {
				pfx = netip.PrefixFrom(ma, ma.BitLen())
			} else {
				continue
			}
		}
		if pfx.Addr().Is4() == a.Is4() && pfx.Contains(a) {
			return true
		}
	}
	return false
}

var _ = maps.FD(0)

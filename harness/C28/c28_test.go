package calico

import (
	"fmt"
	"net"
	"regexp"
	"sort"
	"strings"
	"testing"

	v3 "github.com/projectcalico/api/pkg/apis/projectcalico/v3"
	"github.com/sirupsen/logrus"
	metav1 "k8s.io/apimachinery/pkg/apis/meta/v1"

	"github.com/projectcalico/calico/confd/pkg/backends/types"
	"github.com/projectcalico/calico/felix/calc"
	felixconfig "github.com/projectcalico/calico/felix/config"
	"github.com/projectcalico/calico/libcalico-go/lib/backend/api"
	"github.com/projectcalico/calico/libcalico-go/lib/backend/model"
	"github.com/projectcalico/calico/libcalico-go/lib/backend/syncersv1/updateprocessors"
	"github.com/projectcalico/calico/zzverif/vk"
)

// C28: exactly one component programs each IP pool's cluster routes.
//
// Every combination of FelixConfiguration.programClusterRoutes x BGPConfiguration.programClusterRoutes
// (four values, absent, unrecognised) x every set of IP pool encapsulation classes x IP version is pushed
// through the real code of BOTH components, starting from the v3 API objects:
//   Felix: FelixConfiguration -> updateprocessors.ExtractFelixConfigFields -> config.UpdateFrom(DatastoreGlobal)
//          -> ProgramIPIPClusterRoutes()/ProgramNoEncapClusterRoutes(); v3 IPPool -> IPPool update processor ->
//          calc.EncapsulationResolver -> config.Encapsulation
//   BIRD:  BGPConfiguration -> client.updateBGPConfigCache; model IPPool -> client.updateCache ->
//          client.processIPPools -> KernelFilterForIPPools statements, interpreted as BIRD would
//          (first matching "if (net ~ cidr)" decides, template default "accept").

type c28Pool struct {
	Class string // vxlan | ipip | noencap
	IPIP  v3.IPIPMode
	VXLAN v3.VXLANMode
	V4    string
	V6    string // "" = class not valid for IPv6
}

var c28Pools = []c28Pool{
	{"noencap", v3.IPIPModeNever, v3.VXLANModeNever, "10.14.0.0/16", "dead:beef:14::/64"},
	{"noencap", "", "", "10.15.0.0/16", "dead:beef:15::/64"},
	{"ipip", v3.IPIPModeAlways, v3.VXLANModeNever, "10.10.0.0/16", ""},
	{"ipip", v3.IPIPModeCrossSubnet, "", "10.12.0.0/16", ""},
	{"vxlan", v3.IPIPModeNever, v3.VXLANModeAlways, "10.16.0.0/16", "dead:beef:16::/64"},
	{"vxlan", "", v3.VXLANModeCrossSubnet, "10.18.0.0/16", "dead:beef:18::/64"},
}

// the six settings: four values, absent (""), unrecognised
var c28Settings = []string{"", "Enabled", "Disabled", "EnabledIPIPOnly", "EnabledNoEncapOnly", "SomethingFromANewerAPI"}

// classes a value makes the component responsible for (design/cluster-route-programming/DESIGN.md §1);
// absent and unrecognised stand for the component's default.
func c28Owns(value, deflt string) map[string]bool {
	switch value {
	case "Enabled":
		return map[string]bool{"ipip": true, "noencap": true}
	case "Disabled":
		return map[string]bool{}
	case "EnabledIPIPOnly":
		return map[string]bool{"ipip": true}
	case "EnabledNoEncapOnly":
		return map[string]bool{"noencap": true}
	}
	return c28Owns(deflt, "")
}

const (
	c28FelixDefault = "EnabledIPIPOnly"
	c28BGPDefault   = "EnabledNoEncapOnly"
)

type c28EncapCB struct{ last *felixconfig.Encapsulation }

func (cb *c28EncapCB) OnEncapUpdate(e felixconfig.Encapsulation) { cb.last = &e }

type c28Case struct {
	Felix    string   `json:"felix_programClusterRoutes"`
	BGP      string   `json:"bgp_programClusterRoutes"`
	IPv      int      `json:"ip_version"`
	Pools    []string `json:"pools"`
	NoExport bool     `json:"disable_bgp_export"`
}

type c28Result struct {
	FelixOwns map[string]bool // pool cidr -> Felix programs its cluster routes
	BirdOwns  map[string]bool // pool cidr -> BIRD's kernel filter accepts its routes
	Kernel    []string
	FelixIPIP, FelixNoEncap bool
	Encap     felixconfig.Encapsulation
}

var c28StmtRe = regexp.MustCompile(`^\s*if \(\s*net ~ (\S+)\s*\) then \{ (?:[^;{}]*; )*?(accept|reject); \}`)

// c28BirdVerdict interprets the kernel-programming filter for a route inside cidr.
func c28BirdVerdict(stmts []string, route string) (accept bool, err error) {
	ip, _, e := net.ParseCIDR(route)
	if e != nil {
		return false, e
	}
	for _, s := range stmts {
		m := c28StmtRe.FindStringSubmatch(s)
		if m == nil {
			return false, fmt.Errorf("unparseable filter statement %q", s)
		}
		_, n, e := net.ParseCIDR(m[1])
		if e != nil {
			return false, fmt.Errorf("bad cidr in %q", s)
		}
		if n.Contains(ip) {
			return m[2] == "accept", nil
		}
	}
	return true, nil // template: "accept;" at the end of filter calico_kernel_programming
}

func c28Run(cs c28Case, pools []c28Pool) (res c28Result, err error) {
	res.FelixOwns, res.BirdOwns = map[string]bool{}, map[string]bool{}
	// ---- shared inputs: v3 pools through the real v3->v1 conversion ----
	proc := updateprocessors.NewIPPoolUpdateProcessor()
	var poolKVs []*model.KVPair
	cidrOf := map[string]c28Pool{}
	for i, p := range pools {
		cidr := p.V4
		if cs.IPv == 6 {
			cidr = p.V6
		}
		cidrOf[cidr] = p
		pool := v3.NewIPPool()
		pool.Name = fmt.Sprintf("pool-%d", i)
		pool.Spec.CIDR = cidr
		pool.Spec.IPIPMode = p.IPIP
		pool.Spec.VXLANMode = p.VXLAN
		pool.Spec.DisableBGPExport = cs.NoExport
		kvs, e := proc.Process(&model.KVPair{Key: model.ResourceKey{Kind: v3.KindIPPool, Name: pool.Name}, Value: pool, Revision: "1"})
		if e != nil {
			return res, fmt.Errorf("pool conversion: %v", e)
		}
		for _, kv := range kvs {
			if kv.Value != nil {
				poolKVs = append(poolKVs, kv)
			}
		}
	}
	if len(poolKVs) != len(pools) {
		return res, fmt.Errorf("pool conversion produced %d model pools for %d v3 pools", len(poolKVs), len(pools))
	}

	// ---- Felix ----
	fc := v3.NewFelixConfiguration()
	fc.Name = "default"
	if cs.Felix != "" {
		v := cs.Felix
		fc.Spec.ProgramClusterRoutes = &v
	}
	raw := updateprocessors.ExtractFelixConfigFields(fc)
	cfg := felixconfig.New()
	if _, e := cfg.UpdateFrom(raw, felixconfig.DatastoreGlobal); e != nil {
		return res, fmt.Errorf("felix config: %v", e)
	}
	cb := &c28EncapCB{}
	er := calc.NewEncapsulationResolver(cfg, cb)
	for _, kv := range poolKVs {
		er.OnPoolUpdate(api.Update{KVPair: *kv, UpdateType: api.UpdateTypeKVNew})
	}
	er.OnStatusUpdate(api.InSync)
	if cb.last == nil {
		return res, fmt.Errorf("EncapsulationResolver produced no Encapsulation")
	}
	res.Encap = *cb.last
	res.FelixIPIP, res.FelixNoEncap = cfg.ProgramIPIPClusterRoutes(), cfg.ProgramNoEncapClusterRoutes()
	// How the dataplane uses these (felix/dataplane/driver.go copies the two accessors and Encapsulation into
	// the dataplane config; int_dataplane.go creates the no-encap route manager iff
	// ProgramNoEncapClusterRoutes && NoEncapNeeded; ipip_mgr.go feeds its route manager iff
	// ProgramIPIPClusterRoutes; the VXLAN manager exists iff VXLAN is enabled):
	for cidr, p := range cidrOf {
		switch p.Class {
		case "vxlan":
			if cs.IPv == 4 {
				res.FelixOwns[cidr] = res.Encap.VXLANEnabled
			} else {
				res.FelixOwns[cidr] = res.Encap.VXLANEnabledV6
			}
		case "ipip":
			res.FelixOwns[cidr] = res.Encap.IPIPEnabled && res.FelixIPIP
		case "noencap":
			res.FelixOwns[cidr] = res.Encap.NoEncapNeeded && res.FelixNoEncap
		}
	}

	// ---- confd / BIRD ----
	c := &client{cache: map[string]string{}, peeringCache: map[string]string{}, configCache: map[int]*bgpConfigCache{}}
	if cs.BGP != "" || true {
		bc := v3.NewBGPConfiguration()
		bc.ObjectMeta = metav1.ObjectMeta{Name: "default"}
		if cs.BGP != "" {
			v := cs.BGP
			bc.Spec.ProgramClusterRoutes = &v
		}
		var b1, b2 bool
		var reasons []string
		if cs.BGP == "" && cs.NoExport {
			// also cover "no BGPConfiguration resource at all"
			c.updateBGPConfigCache(globalConfigName, nil, &b1, &b2, &reasons)
		} else {
			c.updateBGPConfigCache(globalConfigName, bc, &b1, &b2, &reasons)
		}
	}
	for _, kv := range poolKVs {
		c.updateCache(api.UpdateTypeKVNew, kv)
	}
	c.cache[fmt.Sprintf("/calico/bgp/v1/host/%s/network_v4", NodeName)] = "1.1.1.0/24"
	bcfg := &types.BirdBGPConfig{NodeName: NodeName}
	if e := c.processIPPools(c.getBGPProcessorContext(), bcfg, cs.IPv); e != nil {
		return res, fmt.Errorf("processIPPools: %v", e)
	}
	res.Kernel = bcfg.KernelFilterForIPPools
	for cidr := range cidrOf {
		ip, n, _ := net.ParseCIDR(cidr)
		// a /26 (v4) or /122 (v6) block in the middle of the pool
		ones, bits := n.Mask.Size()
		_ = ones
		blk := 26
		if bits == 128 {
			blk = 122
		}
		route := fmt.Sprintf("%s/%d", ip.String(), blk)
		acc, e := c28BirdVerdict(res.Kernel, route)
		if e != nil {
			return res, e
		}
		res.BirdOwns[cidr] = acc
	}
	return res, nil
}

func (r c28Result) digest() string {
	var ks []string
	for k := range r.FelixOwns {
		ks = append(ks, fmt.Sprintf("%s:F=%v,B=%v", k, r.FelixOwns[k], r.BirdOwns[k]))
	}
	sort.Strings(ks)
	return fmt.Sprintf("%v|%v|ipip=%v noencap=%v|%+v", ks, r.Kernel, r.FelixIPIP, r.FelixNoEncap, r.Encap)
}

func TestVerif_C28(t *testing.T) {
	vk.Run(t, "C28", func(c *vk.Ctx) {
		logrus.SetLevel(logrus.PanicLevel)
		logrus.StandardLogger().ExitFunc = func(int) { panic("logrus.Fatal") }
		NodeName = "verif-node"
		c.Rule("Felix setting x BGP setting, each in {absent, Enabled, Disabled, EnabledIPIPOnly, EnabledNoEncapOnly, unrecognised} (36 pairings) x every subset of 6 IP pool shapes " +
			"(no-encap Never/Never and unset/unset, IPIP Always and CrossSubnet, VXLAN Always and CrossSubnet; IPv6: the 4 non-IPIP shapes) x IP version {4,6} x disableBGPExport {false,true}. " +
			"Non-trivial = at least one pool of a configurable class (IPIP/no-encap) is present.")
		c.Assume("Felix's dataplane uses the two accessors and config.Encapsulation as documented in design/cluster-route-programming/DESIGN.md §2 (driver.go copies them; no-encap manager iff ProgramNoEncapClusterRoutes && NoEncapNeeded; IPIP manager programs routes iff ProgramIPIPClusterRoutes && IPIP enabled; VXLAN manager iff VXLAN enabled). That glue in felix/dataplane/linux is not executed here.")
		c.Assume("BIRD evaluates filter calico_kernel_programming top-down, first matching statement decides, final 'accept' (bird_ipam.cfg.template); the local subnet is known (IPv4).")
		unsupported := map[string]string{}
		sampled := 0
		for _, ipv := range []int{4, 6} {
			var shapes []c28Pool
			for _, p := range c28Pools {
				if ipv == 4 || p.V6 != "" {
					shapes = append(shapes, p)
				}
			}
			for mask := 0; mask < 1<<len(shapes); mask++ {
				var pools []c28Pool
				var names []string
				configurable := false
				for i, p := range shapes {
					if mask&(1<<i) != 0 {
						pools = append(pools, p)
						names = append(names, fmt.Sprintf("%s(ipip=%q,vxlan=%q)", p.Class, p.IPIP, p.VXLAN))
						configurable = configurable || p.Class != "vxlan"
					}
				}
				for _, noExport := range []bool{false, true} {
					results := map[[2]string]c28Result{}
					for _, f := range c28Settings {
						for _, b := range c28Settings {
							cs := c28Case{Felix: f, BGP: b, IPv: ipv, Pools: names, NoExport: noExport}
							var res c28Result
							perr := vk.Catch(func() error {
								var e error
								res, e = c28Run(cs, pools)
								return e
							})
							c.Add("states", 1)
							c.Add("transitions", 2) // one evaluation of Felix's side, one of confd's
							if perr != nil {
								c.Violation("C28:evaluation-failed", map[string]any{"case": cs, "error": perr.Error()})
								continue
							}
							results[[2]string{f, b}] = res
							fo, bo := c28Owns(f, c28FelixDefault), c28Owns(b, c28BGPDefault)
							supported := fo["ipip"] != bo["ipip"] && fo["noencap"] != bo["noencap"]
							if configurable {
								c.Nontrivial(fmt.Sprintf("%s|%s|%d|%v|%v", f, b, ipv, names, noExport))
							}
							for i, p := range pools {
								cidr := p.V4
								if ipv == 6 {
									cidr = p.V6
								}
								fOwn, bOwn := res.FelixOwns[cidr], res.BirdOwns[cidr]
								who := map[[2]bool]string{{true, false}: "felix", {false, true}: "bird", {true, true}: "BOTH", {false, false}: "NOBODY"}[[2]bool{fOwn, bOwn}]
								if !supported {
									if p.Class != "vxlan" {
										k := fmt.Sprintf("felix=%q bgp=%q %s", f, b, p.Class)
										unsupported[k] = who
									}
									c.Outcome(fmt.Sprintf("unsupported|%s|%s", p.Class, who))
									continue
								}
								want := "bird"
								if p.Class == "vxlan" || fo[p.Class] {
									want = "felix"
								}
								c.Outcome(fmt.Sprintf("supported|%s|%s", p.Class, who))
								if who != want {
									key := "C28:" + p.Class + "-pool-programmed-by-" + strings.ToLower(who)
									c.Violation(key, map[string]any{"case": cs, "pool": names[i], "cidr": cidr, "want_owner": want, "got": who,
										"felix": map[string]any{"ProgramIPIPClusterRoutes": res.FelixIPIP, "ProgramNoEncapClusterRoutes": res.FelixNoEncap, "Encapsulation": fmt.Sprintf("%+v", res.Encap)},
										"bird_kernel_filter": res.Kernel})
								}
							}
							if sampled < 3 && supported && len(pools) == len(shapes) && !noExport && (f == "" || sampled > 0) {
								sampled++
								c.Sample(map[string]any{"case": cs, "felix_owns": res.FelixOwns, "bird_owns": res.BirdOwns, "bird_kernel_filter": res.Kernel})
							}
						}
					}
					// absent and unrecognised are treated as the component's default: identical behaviour of
					// that component, whatever the other side is set to.
					for _, other := range c28Settings {
						for _, alias := range []string{"", "SomethingFromANewerAPI"} {
							a, okA := results[[2]string{alias, other}]
							d, okD := results[[2]string{c28FelixDefault, other}]
							if okA && okD && a.digest() != d.digest() {
								c.Violation("C28:felix-absent-or-unrecognised-not-default", map[string]any{"felix": alias, "bgp": other, "ipv": ipv, "pools": names, "got": a.digest(), "default": d.digest()})
							}
							a, okA = results[[2]string{other, alias}]
							d, okD = results[[2]string{other, c28BGPDefault}]
							if okA && okD && a.digest() != d.digest() {
								c.Violation("C28:bgp-absent-or-unrecognised-not-default", map[string]any{"felix": other, "bgp": alias, "ipv": ipv, "pools": names, "got": a.digest(), "default": d.digest()})
							}
						}
					}
				}
			}
		}
		c.Extra("unsupported_pairings_observed_owner", unsupported)

		// Observation only (not part of the statement): a value differing from an enum value by case is
		// recognised by Felix (case-insensitive oneof) but not by confd (case-sensitive switch).
		obs := map[string]string{}
		for _, pair := range [][2]string{{"enabled", "disabled"}, {"disabled", "enabled"}} {
			cs := c28Case{Felix: pair[0], BGP: pair[1], IPv: 4}
			res, err := c28Run(cs, c28Pools)
			c.Add("transitions", 2)
			if err == nil {
				var parts []string
				for _, p := range c28Pools {
					parts = append(parts, fmt.Sprintf("%s:felix=%v,bird=%v", p.Class, res.FelixOwns[p.V4], res.BirdOwns[p.V4]))
				}
				obs[fmt.Sprintf("felix=%q bgp=%q", pair[0], pair[1])] = strings.Join(parts, " ")
			}
		}
		c.Extra("case_variant_values_observation", obs)
	})
}

package calico

import (
	"fmt"
	"net"
	"net/netip"
	"regexp"
	"sort"
	"strings"
	"sync"
	"testing"

	v3 "github.com/projectcalico/api/pkg/apis/projectcalico/v3"
	"github.com/sirupsen/logrus"
	metav1 "k8s.io/apimachinery/pkg/apis/meta/v1"

	"github.com/projectcalico/calico/confd/pkg/backends/types"
	"github.com/projectcalico/calico/felix/calc"
	felixconfig "github.com/projectcalico/calico/felix/config"
	felixproto "github.com/projectcalico/calico/felix/proto"
	"github.com/projectcalico/calico/libcalico-go/lib/apis/internalapi"
	"github.com/projectcalico/calico/libcalico-go/lib/backend/api"
	"github.com/projectcalico/calico/libcalico-go/lib/backend/model"
	"github.com/projectcalico/calico/libcalico-go/lib/backend/syncersv1/updateprocessors"
	cnet "github.com/projectcalico/calico/libcalico-go/lib/net"
	"github.com/projectcalico/calico/zzverif/vk"
)

// C28: exactly one component programs each IP pool's cluster routes.
//
// Every combination of FelixConfiguration.programClusterRoutes x BGPConfiguration.programClusterRoutes
// (four values, absent, unrecognised) x every set of IP pool encapsulation classes x IP version is pushed
// through the real code of BOTH components, starting from the v3 API objects:
//   Felix: FelixConfiguration -> updateprocessors.ExtractFelixConfigFields -> config.UpdateFrom(DatastoreGlobal)
//          -> ProgramIPIPClusterRoutes()/ProgramNoEncapClusterRoutes(); v3 IPPool -> IPPool update processor ->
//          calc.EncapsulationResolver -> config.Encapsulation
//   BIRD:  BGPConfiguration -> client.updateBGPConfigCache; model IPPool -> client.updateCache ->
//          client.processIPPools -> KernelFilterForIPPools statements, interpreted as BIRD would
//          (first matching "if (net ~ cidr)" decides, template default "accept").

type c28Pool struct {
	Class string // vxlan | ipip | noencap
	IPIP  v3.IPIPMode
	VXLAN v3.VXLANMode
	V4    string
	V6    string // "" = class not valid for IPv6
}

var c28Pools = []c28Pool{
	{"noencap", v3.IPIPModeNever, v3.VXLANModeNever, "10.14.0.0/16", "dead:beef:14::/64"},
	{"noencap", "", "", "10.15.0.0/16", "dead:beef:15::/64"},
	{"ipip", v3.IPIPModeAlways, v3.VXLANModeNever, "10.10.0.0/16", ""},
	{"ipip", v3.IPIPModeCrossSubnet, "", "10.12.0.0/16", ""},
	{"vxlan", v3.IPIPModeNever, v3.VXLANModeAlways, "10.16.0.0/16", "dead:beef:16::/64"},
	{"vxlan", "", v3.VXLANModeCrossSubnet, "10.18.0.0/16", "dead:beef:18::/64"},
}

// the six settings: four values, absent (""), unrecognised
var c28Settings = []string{"", "Enabled", "Disabled", "EnabledIPIPOnly", "EnabledNoEncapOnly", "SomethingFromANewerAPI"}

// classes a value makes the component responsible for (design/cluster-route-programming/DESIGN.md §1);
// absent and unrecognised stand for the component's default.
func c28Owns(value, deflt string) map[string]bool {
	switch value {
	case "Enabled":
		return map[string]bool{"ipip": true, "noencap": true}
	case "Disabled":
		return map[string]bool{}
	case "EnabledIPIPOnly":
		return map[string]bool{"ipip": true}
	case "EnabledNoEncapOnly":
		return map[string]bool{"noencap": true}
	}
	return c28Owns(deflt, "")
}

const (
	c28FelixDefault = "EnabledIPIPOnly"
	c28BGPDefault   = "EnabledNoEncapOnly"
)

type c28EncapCB struct{ last *felixconfig.Encapsulation }

func (cb *c28EncapCB) OnEncapUpdate(e felixconfig.Encapsulation) { cb.last = &e }

type c28Case struct {
	Felix    string   `json:"felix_programClusterRoutes"`
	BGP      string   `json:"bgp_programClusterRoutes"`
	IPv      int      `json:"ip_version"`
	Pools    []string `json:"pools"`
	NoExport bool     `json:"disable_bgp_export"`
}

type c28Result struct {
	FelixOwns               map[string]bool // pool cidr -> Felix programs its cluster routes
	BirdOwns                map[string]bool // pool cidr -> BIRD's kernel filter accepts its routes
	Kernel                  []string
	FelixIPIP, FelixNoEncap bool
	FelixRoutes             map[string]felixproto.IPPoolType // block CIDR -> pool type of the remote-workload route the calc graph emitted
	Encap                   felixconfig.Encapsulation
}

var c28StmtRe = regexp.MustCompile(`^\s*if \(\s*net ~ (\S+)\s*\) then \{ (?:[^;{}]*; )*?(accept|reject); \}`)

// c28BirdVerdict interprets the kernel-programming filter for a route inside cidr.
func c28BirdVerdict(stmts []string, route string) (accept bool, err error) {
	ip, _, e := net.ParseCIDR(route)
	if e != nil {
		return false, e
	}
	for _, s := range stmts {
		m := c28StmtRe.FindStringSubmatch(s)
		if m == nil {
			return false, fmt.Errorf("unparseable filter statement %q", s)
		}
		_, n, e := net.ParseCIDR(m[1])
		if e != nil {
			return false, fmt.Errorf("bad cidr in %q", s)
		}
		if n.Contains(ip) {
			return m[2] == "accept", nil
		}
	}
	return true, nil // template: "accept;" at the end of filter calico_kernel_programming
}

func c28Run(cs c28Case, pools []c28Pool) (res c28Result, err error) {
	res.FelixOwns, res.BirdOwns = map[string]bool{}, map[string]bool{}
	// ---- shared inputs: v3 pools through the real v3->v1 conversion ----
	proc := updateprocessors.NewIPPoolUpdateProcessor()
	var poolKVs []*model.KVPair
	cidrOf := map[string]c28Pool{}
	for i, p := range pools {
		cidr := p.V4
		if cs.IPv == 6 {
			cidr = p.V6
		}
		cidrOf[cidr] = p
		pool := v3.NewIPPool()
		pool.Name = fmt.Sprintf("pool-%d", i)
		pool.Spec.CIDR = cidr
		pool.Spec.IPIPMode = p.IPIP
		pool.Spec.VXLANMode = p.VXLAN
		pool.Spec.DisableBGPExport = cs.NoExport
		kvs, e := proc.Process(&model.KVPair{Key: model.ResourceKey{Kind: v3.KindIPPool, Name: pool.Name}, Value: pool, Revision: "1"})
		if e != nil {
			return res, fmt.Errorf("pool conversion: %v", e)
		}
		for _, kv := range kvs {
			if kv.Value != nil {
				poolKVs = append(poolKVs, kv)
			}
		}
	}
	if len(poolKVs) != len(pools) {
		return res, fmt.Errorf("pool conversion produced %d model pools for %d v3 pools", len(poolKVs), len(pools))
	}

	// ---- Felix ----
	fc := v3.NewFelixConfiguration()
	fc.Name = "default"
	if cs.Felix != "" {
		v := cs.Felix
		fc.Spec.ProgramClusterRoutes = &v
	}
	raw := updateprocessors.ExtractFelixConfigFields(fc)
	cfg := felixconfig.New()
	if _, e := cfg.UpdateFrom(raw, felixconfig.DatastoreGlobal); e != nil {
		return res, fmt.Errorf("felix config: %v", e)
	}
	cb := &c28EncapCB{}
	er := calc.NewEncapsulationResolver(cfg, cb)
	for _, kv := range poolKVs {
		er.OnPoolUpdate(api.Update{KVPair: *kv, UpdateType: api.UpdateTypeKVNew})
	}
	er.OnStatusUpdate(api.InSync)
	if cb.last == nil {
		return res, fmt.Errorf("EncapsulationResolver produced no Encapsulation")
	}
	res.Encap = *cb.last
	res.FelixIPIP, res.FelixNoEncap = cfg.ProgramIPIPClusterRoutes(), cfg.ProgramNoEncapClusterRoutes()
	// The real calculation graph, wired as Felix's daemon does (config.Encapsulation = the resolver's output):
	// does it emit a remote-workload route for a block of each pool?  (NewCalculationGraph only builds the
	// L3RouteResolver when some route type is Felix's to program.)
	routes, e := c28FelixRoutes(cfg, res.Encap, poolKVs, cs.IPv)
	if e != nil {
		return res, e
	}
	res.FelixRoutes = routes
	// How the dataplane uses these (felix/dataplane/driver.go copies the two accessors and Encapsulation into
	// the dataplane config; int_dataplane.go creates the no-encap route manager iff
	// ProgramNoEncapClusterRoutes && NoEncapNeeded; ipip_mgr.go feeds its route manager iff
	// ProgramIPIPClusterRoutes; the VXLAN manager exists iff VXLAN is enabled):
	for cidr, p := range cidrOf {
		rt, emitted := routes[c28BlockOf(cidr)]
		switch p.Class {
		case "vxlan":
			if cs.IPv == 4 {
				res.FelixOwns[cidr] = res.Encap.VXLANEnabled
			} else {
				res.FelixOwns[cidr] = res.Encap.VXLANEnabledV6
			}
			res.FelixOwns[cidr] = res.FelixOwns[cidr] && emitted && rt == felixproto.IPPoolType_VXLAN
		case "ipip":
			res.FelixOwns[cidr] = res.Encap.IPIPEnabled && res.FelixIPIP && emitted && rt == felixproto.IPPoolType_IPIP
		case "noencap":
			res.FelixOwns[cidr] = res.Encap.NoEncapNeeded && res.FelixNoEncap && emitted && rt == felixproto.IPPoolType_NO_ENCAP
		}
	}

	// ---- confd / BIRD ----
	bird := newC28Bird()
	if cs.BGP == "" && cs.NoExport {
		// also cover "no BGPConfiguration resource at all"
	} else {
		bird.setBGP(globalConfigName, true, cs.BGP)
	}
	for _, kv := range poolKVs {
		bird.apply(api.Update{KVPair: *kv, UpdateType: api.UpdateTypeKVNew})
	}
	kern, e := bird.kernel(cs.IPv)
	if e != nil {
		return res, e
	}
	bcfg := &types.BirdBGPConfig{KernelFilterForIPPools: kern}
	res.Kernel = bcfg.KernelFilterForIPPools
	for cidr := range cidrOf {
		ip, n, _ := net.ParseCIDR(cidr)
		// a /26 (v4) or /122 (v6) block in the middle of the pool
		ones, bits := n.Mask.Size()
		_ = ones
		blk := 26
		if bits == 128 {
			blk = 122
		}
		route := fmt.Sprintf("%s/%d", ip.String(), blk)
		if route != c28BlockOf(cidr) {
			return res, fmt.Errorf("harness: block mismatch %s %s", route, c28BlockOf(cidr))
		}
		acc, e := c28BirdVerdict(res.Kernel, route)
		if e != nil {
			return res, e
		}
		res.BirdOwns[cidr] = acc
	}
	return res, nil
}

// c28BlockOf: the IPAM block (first /26 or /122) of a pool, affine to the remote node.
func c28BlockOf(cidr string) string {
	ip, n, _ := net.ParseCIDR(cidr)
	if _, bits := n.Mask.Size(); bits == 128 {
		return fmt.Sprintf("%s/122", ip.String())
	}
	return fmt.Sprintf("%s/26", ip.String())
}

const (
	c28LocalNode  = "verif-node"
	c28RemoteNode = "verif-remote"
)

// c28FelixRoutes builds the real calculation graph for the resolved config and feeds it two nodes, the pools and
// one remote block per pool; it returns the remote-workload routes that reach the dataplane.
func c28FelixRoutes(cfg *felixconfig.Config, enc felixconfig.Encapsulation, poolKVs []*model.KVPair, ipv int) (map[string]felixproto.IPPoolType, error) {
	cfg.FelixHostname = c28LocalNode
	cfg.Encapsulation = enc
	out := map[string]felixproto.IPPoolType{}
	es := calc.NewEventSequencer(cfg)
	es.Callback = func(msg any) {
		if r, ok := msg.(*felixproto.RouteUpdate); ok && r.Types&felixproto.RouteType_REMOTE_WORKLOAD != 0 {
			out[r.Dst] = r.IpPoolType
		}
	}
	cg := calc.NewCalculationGraph(es, calc.NewLookupsCache(), cfg, func() {})
	var ups []api.Update
	for i, name := range []string{c28LocalNode, c28RemoteNode} {
		n := internalapi.NewNode()
		n.Name = name
		n.Spec.BGP = &internalapi.NodeBGPSpec{IPv4Address: fmt.Sprintf("192.168.0.%d/24", i+1), IPv6Address: fmt.Sprintf("fd00::%d/64", i+1)}
		ups = append(ups, api.Update{KVPair: model.KVPair{Key: model.ResourceKey{Kind: internalapi.KindNode, Name: name}, Value: n, Revision: "1"}, UpdateType: api.UpdateTypeKVNew})
	}
	aff := "host:" + c28RemoteNode
	for _, kv := range poolKVs {
		ups = append(ups, api.Update{KVPair: *kv, UpdateType: api.UpdateTypeKVNew})
		pk := kv.Key.(model.IPPoolKey)
		blk := c28BlockOf(pk.CIDR.String())
		_, bn, err := cnet.ParseCIDR(blk)
		if err != nil {
			return nil, err
		}
		size := 64
		b := &model.AllocationBlock{CIDR: *bn, Affinity: &aff, Allocations: make([]*int, size)}
		for o := 0; o < size; o++ {
			b.Unallocated = append(b.Unallocated, o)
		}
		ups = append(ups, api.Update{KVPair: model.KVPair{Key: model.BlockKey{CIDR: netip.MustParsePrefix(blk)}, Value: b, Revision: "1"}, UpdateType: api.UpdateTypeKVNew})
	}
	cg.OnUpdates(ups)
	cg.OnStatusUpdated(api.InSync)
	cg.Flush()
	es.Flush()
	return out, nil
}

// ---- confd side: a client fed by updates, as the syncer feeds it ----

type c28Bird struct{ c *client }

// c28RealOnUpdates: can the real client.onUpdates be driven in this harness (decided once by a probe)?
var c28RealOnUpdates bool

func newC28Bird() *c28Bird {
	c := &client{
		cache: map[string]string{}, peeringCache: map[string]string{}, cacheRevision: 1, revisionsByPrefix: map[string]uint64{},
		nodeLabelManager: newNodeLabelManager(), bgpPeers: map[string]*v3.BGPPeer{}, sourceReady: map[string]bool{},
		nodeListenPorts: map[string]uint16{}, nodeIPs: map[string]struct{}{}, programmedRouteRefCount: map[string]int{},
		ExternalIPRouteIndex: NewRouteIndex(), ClusterIPRouteIndex: NewRouteIndex(), LoadBalancerIPRouteIndex: NewRouteIndex(),
		serviceLoadBalancerAggregation: v3.ServiceLoadBalancerAggregationEnabled,
		configCache:                    map[int]*bgpConfigCache{},
	}
	for k, v := range globalDefaults {
		c.cache[k] = v
	}
	c.cache[fmt.Sprintf("/calico/bgp/v1/host/%s/network_v4", NodeName)] = "1.1.1.0/24"
	c.cache[fmt.Sprintf("/calico/bgp/v1/host/%s/ip_addr_v4", NodeName)] = "1.1.1.1"
	c.cache["/calico/bgp/v1/global/as_num"] = "64512"
	c.syncedOnce = true // in sync: every update bumps the cache revision and wakes the template watchers
	c.watcherCond = sync.NewCond(&c.cacheLock)
	return &c28Bird{c: c}
}

// apply delivers one syncer update: through the real client.onUpdates if that can be driven here, otherwise through
// the same two calls that onUpdates makes for these resource kinds (updateBGPConfigCache + updateCache).
func (b *c28Bird) apply(u api.Update) {
	if c28RealOnUpdates {
		b.c.onUpdates([]api.Update{u}, false)
		return
	}
	if k, ok := u.Key.(model.ResourceKey); ok && k.Kind == v3.KindBGPConfiguration {
		v3res, _ := u.Value.(*v3.BGPConfiguration)
		var b1, b2 bool
		var reasons []string
		b.c.updateBGPConfigCache(k.Name, v3res, &b1, &b2, &reasons)
	}
	b.c.updateCache(u.UpdateType, &u.KVPair)
}

// setBGP creates/updates (present) or deletes the named BGPConfiguration; value "" = resource without the field.
func (b *c28Bird) setBGP(name string, present bool, value string) {
	u := api.Update{KVPair: model.KVPair{Key: model.ResourceKey{Kind: v3.KindBGPConfiguration, Name: name}}, UpdateType: api.UpdateTypeKVDeleted}
	if present {
		bc := v3.NewBGPConfiguration()
		bc.ObjectMeta = metav1.ObjectMeta{Name: name}
		if value != "" {
			v := value
			bc.Spec.ProgramClusterRoutes = &v
		}
		u.Value, u.Revision, u.UpdateType = bc, "1", api.UpdateTypeKVUpdated
	}
	b.apply(u)
}

// render is what a template render does: the real GetBirdBGPConfig, including its per-IP-version config cache.
func (b *c28Bird) render(ipv int) string {
	cfg, err := b.c.GetBirdBGPConfig(ipv)
	if err != nil {
		return "error: " + err.Error()
	}
	return fmt.Sprint(cfg.KernelFilterForIPPools)
}

func (b *c28Bird) kernel(ipv int) ([]string, error) {
	bcfg := &types.BirdBGPConfig{NodeName: NodeName}
	if e := b.c.processIPPools(b.c.getBGPProcessorContext(), bcfg, ipv); e != nil {
		return nil, fmt.Errorf("processIPPools: %v", e)
	}
	return bcfg.KernelFilterForIPPools, nil
}

func (r c28Result) digest() string {
	var ks []string
	for k := range r.FelixOwns {
		ks = append(ks, fmt.Sprintf("%s:F=%v,B=%v", k, r.FelixOwns[k], r.BirdOwns[k]))
	}
	sort.Strings(ks)
	var rs []string
	for k, v := range r.FelixRoutes {
		rs = append(rs, fmt.Sprintf("%s:%v", k, v))
	}
	sort.Strings(rs)
	return fmt.Sprintf("%v|%v|ipip=%v noencap=%v|%+v|routes=%v", ks, r.Kernel, r.FelixIPIP, r.FelixNoEncap, r.Encap, rs)
}

// ---- update histories on the confd side (differential oracle: same result as a fresh start in the final state) ----

type c28BState struct {
	BGP  string // "-" = no default BGPConfiguration resource; "" = resource without the field; else the value
	Node string // per-node BGPConfiguration node.<this node>: "-" = none, else programClusterRoutes value
	Pool string // mode of the pool 10.10.0.0/16: "-" absent, "ipip", "noencap", "vxlan"
}

type c28BEvent struct {
	Res string // bgp | node | pool
	Val string
}

func (e c28BEvent) String() string { return e.Res + ":=" + e.Val }

func c28PoolUpdate(mode string) api.Update {
	cidr := "10.10.0.0/16"
	if mode == "-" {
		return api.Update{KVPair: model.KVPair{Key: model.IPPoolKey{CIDR: netip.MustParsePrefix(cidr)}}, UpdateType: api.UpdateTypeKVDeleted}
	}
	pool := v3.NewIPPool()
	pool.Name = "pool-x"
	pool.Spec.CIDR = cidr
	pool.Spec.IPIPMode, pool.Spec.VXLANMode = v3.IPIPModeNever, v3.VXLANModeNever
	switch mode {
	case "ipip":
		pool.Spec.IPIPMode = v3.IPIPModeAlways
	case "vxlan":
		pool.Spec.VXLANMode = v3.VXLANModeAlways
	}
	kvs, err := updateprocessors.NewIPPoolUpdateProcessor().Process(&model.KVPair{Key: model.ResourceKey{Kind: v3.KindIPPool, Name: pool.Name}, Value: pool, Revision: "1"})
	if err != nil || len(kvs) != 1 || kvs[0].Value == nil {
		panic(fmt.Sprintf("pool conversion: %v %d", err, len(kvs)))
	}
	return api.Update{KVPair: *kvs[0], UpdateType: api.UpdateTypeKVUpdated}
}

func (b *c28Bird) event(st *c28BState, e c28BEvent) {
	switch e.Res {
	case "bgp":
		st.BGP = e.Val
		b.setBGP(globalConfigName, e.Val != "-", e.Val)
	case "node":
		st.Node = e.Val
		b.setBGP(perNodeConfigNamePrefix+NodeName, e.Val != "-", e.Val)
	case "pool":
		st.Pool = e.Val
		b.apply(c28PoolUpdate(e.Val))
	}
}

func c28FreshBird(st c28BState) *c28Bird {
	b := newC28Bird()
	b.apply(c28StaticPool())
	var s c28BState
	if st.BGP != "-" {
		b.event(&s, c28BEvent{"bgp", st.BGP})
	}
	if st.Node != "-" {
		b.event(&s, c28BEvent{"node", st.Node})
	}
	if st.Pool != "-" {
		b.event(&s, c28BEvent{"pool", st.Pool})
	}
	return b
}

// a second, unencapsulated pool that is always present
func c28StaticPool() api.Update {
	pool := v3.NewIPPool()
	pool.Name = "pool-static"
	pool.Spec.CIDR = "10.14.0.0/16"
	pool.Spec.IPIPMode, pool.Spec.VXLANMode = v3.IPIPModeNever, v3.VXLANModeNever
	kvs, err := updateprocessors.NewIPPoolUpdateProcessor().Process(&model.KVPair{Key: model.ResourceKey{Kind: v3.KindIPPool, Name: pool.Name}, Value: pool, Revision: "1"})
	if err != nil || len(kvs) != 1 {
		panic("static pool conversion")
	}
	return api.Update{KVPair: *kvs[0], UpdateType: api.UpdateTypeKVNew}
}

func c28Histories(c *vk.Ctx) {
	var events []c28BEvent
	for _, v := range append([]string{"-"}, c28Settings...) {
		events = append(events, c28BEvent{"bgp", v})
	}
	for _, v := range []string{"-", "Enabled", "Disabled"} {
		events = append(events, c28BEvent{"node", v})
	}
	for _, v := range []string{"-", "ipip", "noencap", "vxlan"} {
		events = append(events, c28BEvent{"pool", v})
	}
	depth := c.Pick(3, 4)
	c.Extra("confd_history_alphabet", fmt.Sprint(events))
	c.Extra("confd_history_depth", depth)
	freshCache := map[c28BState]string{}
	fresh := func(st c28BState) string {
		if v, ok := freshCache[st]; ok {
			return v
		}
		v := c28FreshBird(st).render(4)
		c.Add("transitions", 1)
		freshCache[st] = v
		return v
	}
	var rec func(hist []c28BEvent)
	rec = func(hist []c28BEvent) {
		if len(hist) > 0 {
			// replay on a fresh client (no shared state between histories)
			b := newC28Bird()
			b.apply(c28StaticPool())
			st := c28BState{"-", "-", "-"}
			var perr error
			got := ""
			perr = vk.Catch(func() error {
				for _, e := range hist {
					b.event(&st, e)
					got = b.render(4) // a render after every update (fills / invalidates the config cache)
				}
				return nil
			})
			c.Add("states", 1)
			c.Add("transitions", int64(len(hist)))
			last := hist[len(hist)-1]
			if perr != nil {
				c.Violation("C28:confd-update-history-panics", map[string]any{"history": fmt.Sprint(hist), "panic": perr.Error()})
				return
			}
			want := fresh(st)
			if len(hist) >= 2 {
				c.Nontrivial("hist|" + fmt.Sprint(hist))
			}
			c.Outcome(fmt.Sprintf("history|final=%+v|equal=%v", st, got == want))
			if got != want {
				kind := "set"
				if last.Val == "-" {
					kind = "delete"
				}
				c.Violation(fmt.Sprintf("C28:bird-filter-after-update-history-differs-from-fresh-start:%s-%s", last.Res, kind), map[string]any{
					"history": fmt.Sprint(hist), "final_state": st, "kernel_filter_after_history": got, "kernel_filter_fresh_start": want})
				return
			}
		}
		if len(hist) == depth || c.Expired() {
			return
		}
		for _, e := range events {
			rec(append(append([]c28BEvent{}, hist...), e))
		}
	}
	rec(nil)
	if c.Expired() {
		c.Capped("deadline in confd histories")
	}
	c28Interleavings(c, events, fresh)
}

// c28Interleavings: a render (GetBirdBGPConfig) split at its internal read points with ONE syncer update delivered
// through the real onUpdates in between, followed by the re-render that the update triggers (the update wakes the
// template watchers).  The re-render must equal a fresh-start render of the latest state.
func c28Interleavings(c *vk.Ctx, events []c28BEvent, fresh func(c28BState) string) {
	// is the render-point hook compiled in?
	before := verifRenderCalls
	newC28Bird().render(4)
	hook := verifRenderCalls > before
	c.Extra("confd_render_point_hook_active", hook)
	if !hook {
		c.Capped("render-point hook not applicable to this tree (GetBirdBGPConfig changed): updates landing in the middle of a render are not explored")
		return
	}
	defer func() { verifRenderHook = nil }()
	type prefix struct {
		evs      []c28BEvent
		rendered []bool // render after that event?
	}
	prefixes := []prefix{{}}
	for _, e0 := range events {
		prefixes = append(prefixes, prefix{[]c28BEvent{e0}, []bool{true}}) // warm cache, render in flight hits it
		for _, e1 := range events {
			prefixes = append(prefixes, prefix{[]c28BEvent{e0, e1}, []bool{true, false}}) // warm but stale cache
		}
	}
	if c.Thorough() {
		for _, e0 := range events {
			for _, e1 := range events {
				for _, e2 := range events {
					prefixes = append(prefixes, prefix{[]c28BEvent{e0, e1, e2}, []bool{true, true, false}})
				}
			}
		}
	}
	reached := map[int]int{}
	for _, pf := range prefixes {
		for _, ev := range events {
			for point := 0; point < 4; point++ {
				if c.Expired() {
					c.Capped("deadline in confd render interleavings")
					return
				}
				b := newC28Bird()
				b.apply(c28StaticPool())
				st := c28BState{"-", "-", "-"}
				fired := false
				var inflight, rerender string
				perr := vk.Catch(func() error {
					for i, e := range pf.evs {
						b.event(&st, e)
						if pf.rendered[i] {
							b.render(4)
						}
					}
					verifRenderHook = func(cl *client, p int) {
						if cl == b.c && p == point && !fired {
							fired = true
							b.event(&st, ev) // the syncer's update lands here, through the real onUpdates
						}
					}
					inflight = b.render(4)
					verifRenderHook = nil
					if !fired {
						return nil
					}
					rerender = b.render(4) // the update woke the watchers: templates render again
					return nil
				})
				verifRenderHook = nil
				c.Add("transitions", int64(len(pf.evs)+2))
				hist := fmt.Sprintf("%v (rendered after: %v); render with %v delivered at point %d; re-render", pf.evs, pf.rendered, ev, point)
				if perr != nil {
					c.Violation("C28:confd-render-interleaving-panics", map[string]any{"scenario": hist, "panic": perr.Error()})
					continue
				}
				if !fired {
					c.Outcome(fmt.Sprintf("interleave|point=%d|not-reached", point))
					continue // e.g. cache hit: the render returns before this point
				}
				reached[point]++
				c.Add("states", 1)
				c.Nontrivial("interleave|" + hist)
				want := fresh(st)
				c.Outcome(fmt.Sprintf("interleave|point=%d|inflight-is-new=%v|ok=%v", point, inflight == want, rerender == want))
				if rerender != want {
					kind := "set"
					if ev.Val == "-" {
						kind = "delete"
					}
					c.Violation(fmt.Sprintf("C28:bird-filter-stale-after-update-during-render:%s-%s:point%d", ev.Res, kind, point), map[string]any{
						"scenario": hist, "final_state": st, "in_flight_render": inflight, "re_render": rerender, "fresh_start_render_of_final_state": want})
				}
			}
		}
	}
	c.Extra("confd_render_points_reached", fmt.Sprint(reached))
	for point := 0; point < 4; point++ {
		if reached[point] == 0 {
			c.Capped(fmt.Sprintf("render point %d was never reached", point))
		}
	}
}

func TestVerif_C28(t *testing.T) {
	vk.Run(t, "C28", func(c *vk.Ctx) {
		logrus.SetLevel(logrus.PanicLevel)
		logrus.StandardLogger().ExitFunc = func(int) { panic("logrus.Fatal") }
		NodeName = c28LocalNode
		// Can the real client.onUpdates be driven with a client built like NewCalicoClient builds it?
		probe := vk.Catch(func() error {
			c28RealOnUpdates = true
			b := newC28Bird()
			b.setBGP(globalConfigName, true, "Enabled")
			b.setBGP(globalConfigName, false, "")
			_, err := b.kernel(4)
			return err
		})
		if probe != nil {
			c28RealOnUpdates = false
		}
		c.Extra("confd_real_onUpdates_driven", c28RealOnUpdates)
		c.Rule("Felix setting x BGP setting, each in {absent, Enabled, Disabled, EnabledIPIPOnly, EnabledNoEncapOnly, unrecognised} (36 pairings) x every subset of 6 IP pool shapes " +
			"(no-encap Never/Never and unset/unset, IPIP Always and CrossSubnet, VXLAN Always and CrossSubnet; IPv6: the 4 non-IPIP shapes) x IP version {4,6} x disableBGPExport {false,true}; Felix's side includes the real calculation graph (does a remote-workload route for a block of the pool reach the dataplane). " +
			"confd update histories: every sequence up to depth 3 (thorough 4) over {default BGPConfiguration := absent|6 values, per-node BGPConfiguration := absent|Enabled|Disabled, pool 10.10.0.0/16 := absent|ipip|noencap|vxlan}, after every update the client renders through the real GetBirdBGPConfig (with its config cache) and the result must equal that of a fresh client in the same final state. " +
			"confd render interleavings: prefix (none | one update+render | update+render then update) then a render split at its 4 internal read points (revision captured / BGPConfiguration read / policy derived, pools not yet read / before the cache store) with each update event delivered there through onUpdates, then the re-render the update triggers, which must equal the fresh-start render of the latest state. " +
			"Non-trivial = at least one pool of a configurable class (IPIP/no-encap) is present.")
		c.Assume("Felix programs a pool's cluster routes iff the real calculation graph emits a remote-workload RouteUpdate of the pool's type for a block of the pool AND the dataplane manager for that type consumes it (driver.go copies the accessors; no-encap manager iff ProgramNoEncapClusterRoutes && NoEncapNeeded; IPIP manager programs routes iff ProgramIPIPClusterRoutes && IPIP enabled; VXLAN manager iff VXLAN enabled). Only that last manager gate in felix/dataplane/linux is mirrored, not executed.")
		c.Assume("BIRD evaluates filter calico_kernel_programming top-down, first matching statement decides, final 'accept' (bird_ipam.cfg.template); the local subnet is known (IPv4).")
		unsupported := map[string]string{}
		sampled := 0
		for _, ipv := range []int{4, 6} {
			var shapes []c28Pool
			for _, p := range c28Pools {
				if ipv == 4 || p.V6 != "" {
					shapes = append(shapes, p)
				}
			}
			for mask := 0; mask < 1<<len(shapes); mask++ {
				var pools []c28Pool
				var names []string
				configurable := false
				for i, p := range shapes {
					if mask&(1<<i) != 0 {
						pools = append(pools, p)
						names = append(names, fmt.Sprintf("%s(ipip=%q,vxlan=%q)", p.Class, p.IPIP, p.VXLAN))
						configurable = configurable || p.Class != "vxlan"
					}
				}
				for _, noExport := range []bool{false, true} {
					results := map[[2]string]c28Result{}
					for _, f := range c28Settings {
						for _, b := range c28Settings {
							cs := c28Case{Felix: f, BGP: b, IPv: ipv, Pools: names, NoExport: noExport}
							var res c28Result
							perr := vk.Catch(func() error {
								var e error
								res, e = c28Run(cs, pools)
								return e
							})
							c.Add("states", 1)
							c.Add("transitions", 2) // one evaluation of Felix's side, one of confd's
							if perr != nil {
								c.Violation("C28:evaluation-failed", map[string]any{"case": cs, "error": perr.Error()})
								continue
							}
							results[[2]string{f, b}] = res
							fo, bo := c28Owns(f, c28FelixDefault), c28Owns(b, c28BGPDefault)
							supported := fo["ipip"] != bo["ipip"] && fo["noencap"] != bo["noencap"]
							if configurable {
								c.Nontrivial(fmt.Sprintf("%s|%s|%d|%v|%v", f, b, ipv, names, noExport))
							}
							for i, p := range pools {
								cidr := p.V4
								if ipv == 6 {
									cidr = p.V6
								}
								fOwn, bOwn := res.FelixOwns[cidr], res.BirdOwns[cidr]
								who := map[[2]bool]string{{true, false}: "felix", {false, true}: "bird", {true, true}: "BOTH", {false, false}: "NOBODY"}[[2]bool{fOwn, bOwn}]
								if !supported {
									if p.Class != "vxlan" {
										k := fmt.Sprintf("felix=%q bgp=%q %s", f, b, p.Class)
										unsupported[k] = who
									}
									c.Outcome(fmt.Sprintf("unsupported|%s|%s", p.Class, who))
									continue
								}
								want := "bird"
								if p.Class == "vxlan" || fo[p.Class] {
									want = "felix"
								}
								c.Outcome(fmt.Sprintf("supported|%s|%s", p.Class, who))
								if who != want {
									key := "C28:" + p.Class + "-pool-programmed-by-" + strings.ToLower(who)
									c.Violation(key, map[string]any{"case": cs, "pool": names[i], "cidr": cidr, "want_owner": want, "got": who,
										"felix":              map[string]any{"ProgramIPIPClusterRoutes": res.FelixIPIP, "ProgramNoEncapClusterRoutes": res.FelixNoEncap, "Encapsulation": fmt.Sprintf("%+v", res.Encap)},
										"bird_kernel_filter": res.Kernel})
								}
							}
							if sampled < 3 && supported && len(pools) == len(shapes) && !noExport && (f == "" || sampled > 0) {
								sampled++
								c.Sample(map[string]any{"case": cs, "felix_owns": res.FelixOwns, "bird_owns": res.BirdOwns, "bird_kernel_filter": res.Kernel})
							}
						}
					}
					// absent and unrecognised are treated as the component's default: identical behaviour of
					// that component, whatever the other side is set to.
					for _, other := range c28Settings {
						for _, alias := range []string{"", "SomethingFromANewerAPI"} {
							a, okA := results[[2]string{alias, other}]
							d, okD := results[[2]string{c28FelixDefault, other}]
							if okA && okD && a.digest() != d.digest() {
								c.Violation("C28:felix-absent-or-unrecognised-not-default", map[string]any{"felix": alias, "bgp": other, "ipv": ipv, "pools": names, "got": a.digest(), "default": d.digest()})
							}
							a, okA = results[[2]string{other, alias}]
							d, okD = results[[2]string{other, c28BGPDefault}]
							if okA && okD && a.digest() != d.digest() {
								c.Violation("C28:bgp-absent-or-unrecognised-not-default", map[string]any{"felix": other, "bgp": alias, "ipv": ipv, "pools": names, "got": a.digest(), "default": d.digest()})
							}
						}
					}
				}
			}
		}
		c.Extra("unsupported_pairings_observed_owner", unsupported)
		c28Histories(c)

		// Observation only (not part of the statement): a value differing from an enum value by case is
		// recognised by Felix (case-insensitive oneof) but not by confd (case-sensitive switch).
		obs := map[string]string{}
		for _, pair := range [][2]string{{"enabled", "disabled"}, {"disabled", "enabled"}} {
			cs := c28Case{Felix: pair[0], BGP: pair[1], IPv: 4}
			res, err := c28Run(cs, c28Pools)
			c.Add("transitions", 2)
			if err == nil {
				var parts []string
				for _, p := range c28Pools {
					parts = append(parts, fmt.Sprintf("%s:felix=%v,bird=%v", p.Class, res.FelixOwns[p.V4], res.BirdOwns[p.V4]))
				}
				obs[fmt.Sprintf("felix=%q bgp=%q", pair[0], pair[1])] = strings.Join(parts, " ")
			}
		}
		c.Extra("case_variant_values_observation", obs)
	})
}

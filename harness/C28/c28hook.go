package calico

// Render-point hook for the C28 check.  vcheck rewrites GetBirdBGPConfig / processIPPools so that
// verifRenderPoint(c, n) is called at the render's internal read points:
//
//	0 after the cache revision has been captured, 1 after the BGPConfiguration has been read,
//	3 inside processIPPools after the cluster-route policy was derived and before the pools are read,
//	2 after the pools were processed, just before the rendered config is stored in the cache.
//
// The harness uses it to deliver one syncer update "in the middle of" a render.  Without a registered
// hook the calls do nothing.
var (
	verifRenderHook  func(c *client, point int)
	verifRenderCalls int
)

func verifRenderPoint(c *client, point int) {
	verifRenderCalls++
	if verifRenderHook != nil {
		verifRenderHook(c, point)
	}
}

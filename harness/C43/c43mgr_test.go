package intdataplane

// C43, manager-level system: the VXLAN, IPIP and no-encap managers are fed proto messages DIRECTLY (no calc graph in
// front), so that route updates, remote VTEP updates/removals and host metadata are independent events which can be
// interleaved with each other and with "apply" (CompleteDeferredWork of all managers) in any order. Through the calc
// graph a node change always re-announces that node's routes in the same batch, which hides managers that forget to
// re-evaluate their routes when only a VTEP (or host address) arrives, leaves and comes back.
//
// Oracle after every apply: the route table equals the one a FRESH set of managers programs when it is simply given
// the latest message of every object (hosts, VTEPs, then routes) followed by one apply.

import (
	"fmt"
	"net"
	"sort"
	"strings"
	"sync"

	"github.com/vishvananda/netlink"

	dpsets "github.com/projectcalico/calico/felix/dataplane/ipsets"
	"github.com/projectcalico/calico/felix/dataplane/linux/dataplanedefs"
	mocknetlink "github.com/projectcalico/calico/felix/netlinkshim/mocknetlink"
	"github.com/projectcalico/calico/felix/proto"
	"github.com/projectcalico/calico/felix/routetable"
	"github.com/projectcalico/calico/felix/rules"
	"github.com/projectcalico/calico/lib/logrusr"
	"github.com/projectcalico/calico/zzverif/hbfs"
)

type c43MVar struct {
	name string
	msg  func() any
}

type c43MObj struct {
	name   string
	order  int // delivery rank in the reference run: hosts 0, VTEPs 1, routes 2
	vars   []c43MVar
	remove func() any
}

func c43MRoute(dst string, t proto.IPPoolType, types proto.RouteType, node, nodeIP string, same, borrowed bool) func() any {
	return func() any {
		return &proto.RouteUpdate{Dst: dst, IpPoolType: t, Types: types, DstNodeName: node, DstNodeIp: nodeIP, SameSubnet: same, Borrowed: borrowed}
	}
}

func c43MVtep(node, tun, parent, mac string) func() any {
	return func() any {
		return &proto.VXLANTunnelEndpointUpdate{Node: node, Ipv4Addr: tun, ParentDeviceIp: parent, Mac: mac}
	}
}

func c43MObjects() []c43MObj {
	const blk, b32 = "10.0.1.0/30", "10.0.1.2/32"
	rw := proto.RouteType_REMOTE_WORKLOAD
	return []c43MObj{
		{name: "host:h2", order: 0, vars: []c43MVar{
			{"far", func() any { return &proto.HostMetadataUpdate{Hostname: "h2", Ipv4Addr: "192.168.1.2"} }},
		}, remove: func() any { return &proto.HostMetadataRemove{Hostname: "h2"} }},
		{name: "vtep:h2", order: 1, vars: []c43MVar{
			{"t0", c43MVtep("h2", "10.0.2.0", "192.168.1.2", "66:00:00:00:00:02")},
			{"t1", c43MVtep("h2", "10.0.2.1", "192.168.1.2", "66:00:00:00:00:02")},
			{"t0mac", c43MVtep("h2", "10.0.2.0", "192.168.1.2", "66:00:00:00:00:22")},
		}, remove: func() any { return &proto.VXLANTunnelEndpointRemove{Node: "h2"} }},
		{name: "vtep:h3", order: 1, vars: []c43MVar{
			{"t0", c43MVtep("h3", "10.0.3.0", "192.168.1.3", "66:00:00:00:00:03")},
		}, remove: func() any { return &proto.VXLANTunnelEndpointRemove{Node: "h3"} }},
		{name: "route:blk", order: 2, vars: []c43MVar{
			{"vxlan-tunnel-h2", c43MRoute(blk, proto.IPPoolType_VXLAN, rw, "h2", "192.168.1.2", false, false)},
			{"vxlan-direct-h2", c43MRoute(blk, proto.IPPoolType_VXLAN, rw, "h2", "192.168.0.2", true, false)},
			{"ipip-tunnel-h2", c43MRoute(blk, proto.IPPoolType_IPIP, rw, "h2", "192.168.1.2", false, false)},
			{"noencap-h2", c43MRoute(blk, proto.IPPoolType_NO_ENCAP, rw, "h2", "192.168.1.2", false, false)},
			{"vxlan-local", c43MRoute(blk, proto.IPPoolType_VXLAN, proto.RouteType_LOCAL_WORKLOAD, "h1", "192.168.0.1", false, false)},
		}, remove: func() any { return &proto.RouteRemove{Dst: blk} }},
		{name: "route:b32", order: 2, vars: []c43MVar{
			{"vxlan-tunnel-h3", c43MRoute(b32, proto.IPPoolType_VXLAN, rw, "h3", "192.168.1.3", false, true)},
		}, remove: func() any { return &proto.RouteRemove{Dst: b32} }},
	}
}

type c43M struct {
	objs   []c43MObj
	latest []int // per object: variant or -1
	rt     *mockRouteTable
	vx     *vxlanManager
	ipip   *ipipManager
	ne     *noEncapManager
	nSince int
}

func c43MNew() *c43M {
	m := &c43M{objs: c43MObjects(), rt: &mockRouteTable{currentRoutes: map[string][]routetable.Target{}}}
	m.latest = make([]int, len(m.objs))
	for i := range m.latest {
		m.latest[i] = -1
	}
	nl := mocknetlink.New()
	if _, err := nl.NewMockNetlink(); err != nil {
		panic(err)
	}
	nl.ImmediateLinkUp = true
	eth0 := nl.AddIface(2, c43ParentDev, true, true)
	if err := nl.AddrAdd(eth0, &netlink.Addr{IPNet: &net.IPNet{IP: net.ParseIP(c43V4.localIP).To4()}}); err != nil {
		panic(err)
	}
	nl.ResetDeltas()
	dpc := Config{
		MaxIPSetSize:                1024,
		Hostname:                    c43Local,
		RulesConfig:                 rules.Config{VXLANVNI: 4096, VXLANPort: 4789, IPIPTunnelAddress: net.ParseIP("10.0.0.1")},
		ProgramIPIPClusterRoutes:    true,
		ProgramNoEncapClusterRoutes: true,
		NoEncapNeeded:               true,
		DeviceRouteProtocol:         dataplanedefs.DefaultRouteProto,
		IPIPMTU:                     1440,
	}
	op := logrusr.NewSummarizer("c43m")
	m.vx = newVXLANManagerWithShims(dpsets.NewMockIPSets(), m.rt, &mockVXLANFDB{}, c43V4.vxlanDev, 4, 1410, dpc, op, nl)
	m.ipip = newIPIPManagerWithShims(m.rt, dataplanedefs.IPIPIfaceName, 4, 1440, dpc, op, nl)
	m.ne = newNoEncapManagerWithSims(m.rt, 4, dpc, op, nl)
	// local information is fixed: it is there from the start and never changes
	m.deliver(&proto.HostMetadataUpdate{Hostname: c43Local, Ipv4Addr: c43V4.localIP})
	m.deliver(&proto.VXLANTunnelEndpointUpdate{Node: c43Local, Ipv4Addr: "10.0.0.1", ParentDeviceIp: c43V4.localIP, Mac: "66:00:00:00:00:01"})
	m.apply()
	return m
}

func (m *c43M) deliver(msg any) {
	m.vx.OnUpdate(msg)
	m.ipip.OnUpdate(msg)
	m.ne.OnUpdate(msg)
}

func (m *c43M) apply() {
	for _, f := range []func() error{m.vx.CompleteDeferredWork, m.ipip.CompleteDeferredWork, m.ne.CompleteDeferredWork} {
		if err := f(); err != nil {
			panic(err)
		}
	}
	m.nSince = 0
}

type c43MEv struct {
	op string // set del apply
	o  int
	v  int
}

func (m *c43M) show(e c43MEv) string {
	switch e.op {
	case "set":
		return m.objs[e.o].name + "=" + m.objs[e.o].vars[e.v].name
	case "del":
		return "del " + m.objs[e.o].name
	}
	return "apply"
}

func c43MEnabled(m *c43M, depth int) []c43MEv {
	var evs []c43MEv
	for o, ob := range m.objs {
		for v := range ob.vars {
			if m.latest[o] != v {
				evs = append(evs, c43MEv{op: "set", o: o, v: v})
			}
		}
		if m.latest[o] >= 0 {
			evs = append(evs, c43MEv{op: "del", o: o})
		}
	}
	if m.nSince > 0 {
		evs = append(evs, c43MEv{op: "apply"})
	}
	return evs
}

func c43MApply(m *c43M, e c43MEv) {
	switch e.op {
	case "set":
		m.latest[e.o] = e.v
		m.deliver(m.objs[e.o].vars[e.v].msg())
		m.nSince++
	case "del":
		m.latest[e.o] = -1
		m.deliver(m.objs[e.o].remove())
		m.nSince++
	case "apply":
		m.apply()
	}
}

func (m *c43M) table() string {
	var parts []string
	for _, cl := range c43Classes {
		for dev, ts := range m.rt.currentRoutesByClass[cl] {
			for _, t := range ts {
				gw := ""
				if t.GW != nil {
					gw = t.GW.String()
				}
				parts = append(parts, fmt.Sprintf("%s class=%d dev=%s type=%q gw=%s", t.CIDR.String(), cl, dev, t.Type, gw))
			}
		}
	}
	sort.Strings(parts)
	return strings.Join(parts, "; ")
}

func (m *c43M) latestString() string {
	var parts []string
	for o, ob := range m.objs {
		if m.latest[o] >= 0 {
			parts = append(parts, ob.name+"="+ob.vars[m.latest[o]].name)
		}
	}
	return strings.Join(parts, " ")
}

var c43MRefs sync.Map // latestString -> table of a fresh manager set

func (m *c43M) reference() string {
	k := m.latestString()
	if v, ok := c43MRefs.Load(k); ok {
		return v.(string)
	}
	f := c43MNew()
	for rank := 0; rank <= 2; rank++ {
		for o, ob := range f.objs {
			if ob.order == rank && m.latest[o] >= 0 {
				c43MApply(f, c43MEv{op: "set", o: o, v: m.latest[o]})
			}
		}
	}
	f.apply()
	t := f.table()
	c43MRefs.Store(k, t)
	return t
}

func c43MCheck(m *c43M, hist []c43MEv) []hbfs.Fail {
	if m.nSince > 0 {
		return nil
	}
	got, want := m.table(), m.reference()
	if got == want {
		return nil
	}
	// classify by the kind of the last message before this apply
	last := "start"
	for i := len(hist) - 1; i >= 0; i-- {
		if hist[i].op != "apply" {
			last = hist[i].op + "-" + strings.SplitN(m.objs[hist[i].o].name, ":", 2)[0]
			break
		}
	}
	class := "route-table-differs-from-fresh-managers"
	n := func(t string) int {
		if t == "" {
			return 0
		}
		return strings.Count(t, ";") + 1
	}
	if n(got) < n(want) {
		class = "route-missing-that-fresh-managers-program"
	} else if n(got) > n(want) {
		class = "stale-route-that-fresh-managers-do-not-program"
	}
	return []hbfs.Fail{{Key: "C43:managers:" + class + ":after-" + last,
		Msg: fmt.Sprintf("after apply the table is {%s}; fresh managers given the latest messages {%s} program {%s}", got, m.latestString(), want)}}
}

func c43MKey(m *c43M) string {
	var sb strings.Builder
	fmt.Fprintf(&sb, "%v since=%v|%s", m.latest, m.nSince > 0, m.table())
	for i, rm := range []*routeManager{m.vx.routeMgr, m.ipip.routeMgr, m.ne.routeMgr} {
		var parts []string
		for d, r := range rm.routesByDest {
			parts = append(parts, fmt.Sprintf("%s>%s/%s/%v/%d/%v", d, r.DstNodeName, r.DstNodeIp, r.SameSubnet, r.Types, r.IpPoolType))
		}
		for d := range rm.localIPAMBlocks {
			parts = append(parts, "bh:"+d)
		}
		sort.Strings(parts)
		fmt.Fprintf(&sb, "|m%d parent=%s dirty=%v %s", i, rm.parentDevice, rm.routesDirty, strings.Join(parts, ","))
	}
	var parts []string
	for n, v := range m.vx.vtepsByNode {
		parts = append(parts, n+"="+v.Ipv4Addr+"/"+v.Mac)
	}
	for n, v := range m.ipip.activeHostnameToIP {
		parts = append(parts, n+"="+v)
	}
	sort.Strings(parts)
	fmt.Fprintf(&sb, "|vtepsDirty=%v %s", m.vx.vtepsDirty, strings.Join(parts, ","))
	return sb.String()
}

func c43MSpec(name string, depth int, graph bool) *hbfs.Spec[*c43M, c43MEv] {
	shower := c43MNew()
	sp := &hbfs.Spec[*c43M, c43MEv]{
		Name:     name,
		New:      c43MNew,
		Apply:    c43MApply,
		Enabled:  c43MEnabled,
		Check:    c43MCheck,
		Show:     func(e c43MEv) string { return shower.show(e) },
		MaxDepth: depth,
		Workers:  6,
		Nontrivial: func(m *c43M) bool {
			return m.nSince == 0 && m.table() != ""
		},
		Outcome: func(m *c43M) string {
			if m.nSince > 0 {
				return "mid-batch"
			}
			return "mgr: " + m.table()
		},
		PanicKey: func(val string, hist []c43MEv) string {
			l := val
			if i := strings.IndexByte(l, '\n'); i >= 0 {
				l = l[:i]
			}
			if len(l) > 100 {
				l = l[:100]
			}
			return "C43:managers:panic:" + l
		},
	}
	if graph {
		sp.Key = c43MKey
	}
	return sp
}

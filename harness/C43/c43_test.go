package intdataplane

// C43 — cluster routes take the path their pool's encapsulation requires.
//
// Two REAL layers in one instance: the calc graph (ValidationFilter -> CalcGraph incl. L3RouteResolver, VXLANResolver,
// dataplane passthru -> EventSequencer) and, fed by its message stream exactly as the dataplane loop would feed them,
// the real VXLAN, IPIP and no-encap managers (each with its routeManager) over the package's mockRouteTable and the
// mock netlink dataplane (parent interface eth0 = 192.168.0.1).
//
// Histories: set/delete of the local node, two remote nodes (near = in the local subnet / far / no address), the IP
// pool (VXLAN always / cross-subnet, IPIP always / cross-subnet, unencapsulated), one IPAM block (remote, remote with
// an address borrowed by a third node or by the local node, local, local with an address borrowed by a remote node)
// and a local workload inside the block (plus an IPv6 twin of that universe: dual-stack nodes, v6 pool/block, VXLAN-v6
// and no-encap-v6 managers) - in every arrival order, with a dataplane flush after every update (atomic)
// or as a separate event (batched).
//
// Oracle (after every flush, from the datastore content alone): for the block CIDR and every borrowed /32 the route
// table holds, across the nine route classes of the three managers, nothing but the one route the statement
// prescribes, and holds it whenever everything needed to build it has been delivered.

import (
	"fmt"
	"net"
	"net/netip"
	"sort"
	"strings"
	"testing"

	"github.com/onsi/gomega"
	v3 "github.com/projectcalico/api/pkg/apis/projectcalico/v3"
	"github.com/sirupsen/logrus"
	"github.com/vishvananda/netlink"
	metav1 "k8s.io/apimachinery/pkg/apis/meta/v1"

	"github.com/projectcalico/calico/felix/calc"
	"github.com/projectcalico/calico/felix/config"
	dpsets "github.com/projectcalico/calico/felix/dataplane/ipsets"
	"github.com/projectcalico/calico/felix/dataplane/linux/dataplanedefs"
	mocknetlink "github.com/projectcalico/calico/felix/netlinkshim/mocknetlink"
	"github.com/projectcalico/calico/felix/proto"
	"github.com/projectcalico/calico/felix/routetable"
	"github.com/projectcalico/calico/felix/rules"
	"github.com/projectcalico/calico/lib/logrusr"
	"github.com/projectcalico/calico/lib/std/uniquelabels"
	"github.com/projectcalico/calico/libcalico-go/lib/apis/internalapi"
	"github.com/projectcalico/calico/libcalico-go/lib/backend/api"
	"github.com/projectcalico/calico/libcalico-go/lib/backend/encap"
	"github.com/projectcalico/calico/libcalico-go/lib/backend/model"
	cnet "github.com/projectcalico/calico/libcalico-go/lib/net"
	"github.com/projectcalico/calico/zzverif/hbfs"
	"github.com/projectcalico/calico/zzverif/vk"
)

const (
	c43Local     = "h1"
	c43ParentDev = "eth0"
)

// c43Fam: the address plan of one IP family. The IPv6 universe is the twin of the IPv4 one (same shapes: local
// subnet /64 or /128, near/far/address-less remote nodes, pool, /126 block, borrowed addresses); nodes are dual
// stack there (a fixed IPv4 address besides the varying IPv6 one), IPIP does not exist.
type c43Fam struct {
	v         uint8
	localIP   string
	blockCIDR string
	poolCIDR  string
	host      string // "/32" or "/128"
	vxlanDev  string
	addr      func(ord int) string // address of ordinal ord of the block
}

var c43V4 = &c43Fam{v: 4, localIP: "192.168.0.1", blockCIDR: "10.0.1.0/30", poolCIDR: "10.0.0.0/16", host: "/32", vxlanDev: "vxlan.calico",
	addr: func(o int) string { return fmt.Sprintf("10.0.1.%d", o) }}
var c43V6 = &c43Fam{v: 6, localIP: "fd00:a::1", blockCIDR: "fd00:10::100/126", poolCIDR: "fd00:10::/64", host: "/128", vxlanDev: "vxlan-v6.calico",
	addr: func(o int) string { return fmt.Sprintf("fd00:10::10%d", o) }}

// ---- universe ----

type c43Node struct {
	ip  string // "" = no address known
	pfx int
	tun string // VXLAN tunnel address ("" = none)
}

type c43Pool struct {
	t     proto.IPPoolType
	cross bool
}

type c43Block struct {
	host   string
	borrow map[int]string // ordinal in the block -> node using the address
}

type c43Variant struct {
	name string
	node *c43Node
	pool *c43Pool
	blk  *c43Block
	wep  string // address of the local workload
}

type c43KeyDef struct {
	name string
	key  model.Key
	vars []c43Variant
}

func c43Universe(f *c43Fam) []c43KeyDef {
	if f.v == 6 {
		return []c43KeyDef{
			{name: "h1", key: model.ResourceKey{Kind: internalapi.KindNode, Name: "h1"}, vars: []c43Variant{
				{name: "net64", node: &c43Node{f.localIP, 64, "fd00:10::1"}},
				{name: "net128", node: &c43Node{f.localIP, 128, "fd00:10::1"}},
			}},
			{name: "h2", key: model.ResourceKey{Kind: internalapi.KindNode, Name: "h2"}, vars: []c43Variant{
				{name: "near", node: &c43Node{"fd00:a::2", 64, "fd00:10::2:0"}},
				{name: "far", node: &c43Node{"fd00:b::2", 64, "fd00:10::2:0"}},
				{name: "noaddr", node: &c43Node{"", 0, "fd00:10::2:0"}},
			}},
			{name: "h3", key: model.ResourceKey{Kind: internalapi.KindNode, Name: "h3"}, vars: []c43Variant{
				{name: "near", node: &c43Node{"fd00:a::3", 64, "fd00:10::3:0"}},
				{name: "far", node: &c43Node{"fd00:b::3", 64, "fd00:10::3:0"}},
			}},
			{name: "pool", key: model.IPPoolKey{CIDR: netip.MustParsePrefix(f.poolCIDR)}, vars: []c43Variant{
				{name: "vxlan", pool: &c43Pool{proto.IPPoolType_VXLAN, false}},
				{name: "vxlanX", pool: &c43Pool{proto.IPPoolType_VXLAN, true}},
				{name: "noencap", pool: &c43Pool{proto.IPPoolType_NO_ENCAP, false}},
			}},
			{name: "blk", key: model.BlockKey{CIDR: netip.MustParsePrefix(f.blockCIDR)}, vars: []c43Variant{
				{name: "h2", blk: &c43Block{"h2", nil}},
				{name: "h2lendH3", blk: &c43Block{"h2", map[int]string{2: "h3"}}},
				{name: "h2lendH1", blk: &c43Block{"h2", map[int]string{1: "h1"}}},
				{name: "h1", blk: &c43Block{"h1", nil}},
				{name: "h1lendH2", blk: &c43Block{"h1", map[int]string{2: "h2"}}},
			}},
			{name: "w1", key: model.WorkloadEndpointKey{Hostname: "h1", OrchestratorID: "k8s", WorkloadID: "w1", EndpointID: "eth0"}, vars: []c43Variant{
				{name: "in", wep: f.addr(1)},
			}},
		}
	}
	return []c43KeyDef{
		{name: "h1", key: model.ResourceKey{Kind: internalapi.KindNode, Name: "h1"}, vars: []c43Variant{
			{name: "net24", node: &c43Node{f.localIP, 24, "10.0.0.1"}},
			{name: "net32", node: &c43Node{f.localIP, 32, "10.0.0.1"}},
		}},
		{name: "h2", key: model.ResourceKey{Kind: internalapi.KindNode, Name: "h2"}, vars: []c43Variant{
			{name: "near", node: &c43Node{"192.168.0.2", 24, "10.0.2.0"}},
			{name: "far", node: &c43Node{"192.168.1.2", 24, "10.0.2.0"}},
			{name: "noaddr", node: &c43Node{"", 0, "10.0.2.0"}},
		}},
		{name: "h3", key: model.ResourceKey{Kind: internalapi.KindNode, Name: "h3"}, vars: []c43Variant{
			{name: "near", node: &c43Node{"192.168.0.3", 24, "10.0.3.0"}},
			{name: "far", node: &c43Node{"192.168.1.3", 24, "10.0.3.0"}},
		}},
		{name: "pool", key: model.IPPoolKey{CIDR: netip.MustParsePrefix(f.poolCIDR)}, vars: []c43Variant{
			{name: "vxlan", pool: &c43Pool{proto.IPPoolType_VXLAN, false}},
			{name: "vxlanX", pool: &c43Pool{proto.IPPoolType_VXLAN, true}},
			{name: "ipip", pool: &c43Pool{proto.IPPoolType_IPIP, false}},
			{name: "ipipX", pool: &c43Pool{proto.IPPoolType_IPIP, true}},
			{name: "noencap", pool: &c43Pool{proto.IPPoolType_NO_ENCAP, false}},
		}},
		{name: "blk", key: model.BlockKey{CIDR: netip.MustParsePrefix(f.blockCIDR)}, vars: []c43Variant{
			{name: "h2", blk: &c43Block{"h2", nil}},
			{name: "h2lendH3", blk: &c43Block{"h2", map[int]string{2: "h3"}}},
			{name: "h2lendH1", blk: &c43Block{"h2", map[int]string{1: "h1"}}},
			{name: "h1", blk: &c43Block{"h1", nil}},
			{name: "h1lendH2", blk: &c43Block{"h1", map[int]string{2: "h2"}}},
		}},
		{name: "w1", key: model.WorkloadEndpointKey{Hostname: "h1", OrchestratorID: "k8s", WorkloadID: "w1", EndpointID: "eth0"}, vars: []c43Variant{
			{name: "in", wep: f.addr(1)},
		}},
	}
}

func (v *c43Variant) make(name string, f *c43Fam) any {
	switch {
	case v.node != nil:
		n := &internalapi.Node{
			TypeMeta:   metav1.TypeMeta{Kind: internalapi.KindNode, APIVersion: v3.GroupVersionCurrent},
			ObjectMeta: metav1.ObjectMeta{Name: name},
		}
		if f.v == 6 {
			// dual stack: a fixed IPv4 address, the IPv6 one varies
			n.Spec.BGP = &internalapi.NodeBGPSpec{IPv4Address: "192.168.0." + name[1:] + "/24"}
			if v.node.ip != "" {
				n.Spec.BGP.IPv6Address = fmt.Sprintf("%s/%d", v.node.ip, v.node.pfx)
			}
			n.Spec.IPv6VXLANTunnelAddr = v.node.tun
			n.Spec.VXLANTunnelMACAddrV6 = "66:00:00:00:06:0" + name[1:]
			return n
		}
		if v.node.ip != "" {
			n.Spec.BGP = &internalapi.NodeBGPSpec{IPv4Address: fmt.Sprintf("%s/%d", v.node.ip, v.node.pfx)}
		}
		n.Spec.IPv4VXLANTunnelAddr = v.node.tun
		n.Spec.VXLANTunnelMACAddr = "66:00:00:00:00:0" + name[1:]
		return n
	case v.pool != nil:
		p := &model.IPPool{CIDR: cnet.MustParseNetwork(f.poolCIDR), VXLANMode: encap.Never, IPIPMode: encap.Never}
		var m encap.Mode = encap.Always
		if v.pool.cross {
			m = encap.CrossSubnet
		}
		switch v.pool.t {
		case proto.IPPoolType_VXLAN:
			p.VXLANMode = m
		case proto.IPPoolType_IPIP:
			p.IPIPMode = m
		}
		return p
	case v.blk != nil:
		aff := "host:" + v.blk.host
		b := &model.AllocationBlock{CIDR: cnet.MustParseNetwork(f.blockCIDR), Affinity: &aff, Allocations: make([]*int, 4)}
		b.Attributes = append(b.Attributes, model.AllocationAttribute{})
		ords := make([]int, 0, len(v.blk.borrow))
		for o := range v.blk.borrow {
			ords = append(ords, o)
		}
		sort.Ints(ords)
		for _, o := range ords {
			ix := len(b.Attributes)
			b.Attributes = append(b.Attributes, model.AllocationAttribute{ActiveOwnerAttrs: map[string]string{model.IPAMBlockAttributeNode: v.blk.borrow[o]}})
			b.Allocations[o] = &ix
		}
		for i := 0; i < 4; i++ {
			if b.Allocations[i] == nil {
				b.Unallocated = append(b.Unallocated, i)
			}
		}
		return b
	default:
		w := &model.WorkloadEndpoint{State: "active", Name: "cali1", Labels: uniquelabels.Make(map[string]string{"a": "1"})}
		if f.v == 6 {
			w.IPv6Nets = []cnet.IPNet{cnet.MustParseNetwork(v.wep + f.host)}
		} else {
			w.IPv4Nets = []cnet.IPNet{cnet.MustParseNetwork(v.wep + f.host)}
		}
		return w
	}
}

// ---- instance ----

type c43Cfg struct {
	batched bool
	base    []string // events applied in New (not counted in the depth bound)
	only    []string // arrival-order system: the only events are these sets, each key once, no deletes
	v6      bool     // the IPv6 twin universe (VXLAN-v6 and no-encap-v6 managers; no IPIP)
}

type c43Inst struct {
	f    *c43Fam
	cfg  c43Cfg
	uni  []c43KeyDef
	es   *calc.EventSequencer
	cg   *calc.CalcGraph
	vf   *calc.ValidationFilter
	rt   *mockRouteTable
	vx   *vxlanManager
	ipip *ipipManager
	ne   *noEncapManager
	ds   []int // per key: variant index or -1
	// digest of everything the calc graph has told the dataplane (latest message per object)
	emitted map[string]string
	dirty   bool
	nMsgs   int
}

func c43New(cfg c43Cfg) *c43Inst {
	fam := c43V4
	if cfg.v6 {
		fam = c43V6
	}
	in := &c43Inst{f: fam, cfg: cfg, uni: c43Universe(fam), emitted: map[string]string{}}
	in.ds = make([]int, len(in.uni))
	for i := range in.ds {
		in.ds[i] = -1
	}
	conf := config.New()
	conf.FelixHostname = c43Local
	conf.Encapsulation = config.Encapsulation{IPIPEnabled: true, VXLANEnabled: true, VXLANEnabledV6: cfg.v6, NoEncapNeeded: true}
	conf.ProgramClusterRoutes = v3.Enabled
	in.es = calc.NewEventSequencer(conf)
	in.es.Callback = in.onMsg
	in.cg = calc.NewCalculationGraph(in.es, nil, conf, func() {})
	in.vf = calc.NewValidationFilter(in.cg, conf)

	in.rt = &mockRouteTable{currentRoutes: map[string][]routetable.Target{}}
	nl := mocknetlink.New()
	if _, err := nl.NewMockNetlink(); err != nil {
		panic(err)
	}
	nl.ImmediateLinkUp = true
	eth0 := nl.AddIface(2, c43ParentDev, true, true)
	parentIP := net.ParseIP(fam.localIP)
	if fam.v == 4 {
		parentIP = parentIP.To4()
	}
	if err := nl.AddrAdd(eth0, &netlink.Addr{IPNet: &net.IPNet{IP: parentIP}}); err != nil {
		panic(err)
	}
	nl.ResetDeltas()
	dpc := Config{
		MaxIPSetSize:                1024,
		Hostname:                    c43Local,
		RulesConfig:                 rules.Config{VXLANVNI: 4096, VXLANPort: 4789, IPIPTunnelAddress: net.ParseIP("10.0.0.1")},
		ProgramIPIPClusterRoutes:    true,
		ProgramNoEncapClusterRoutes: true,
		NoEncapNeeded:               true,
		DeviceRouteProtocol:         dataplanedefs.DefaultRouteProto,
		IPIPMTU:                     1440,
	}
	op := logrusr.NewSummarizer("c43")
	in.vx = newVXLANManagerWithShims(dpsets.NewMockIPSets(), in.rt, &mockVXLANFDB{}, fam.vxlanDev, fam.v, 1410, dpc, op, nl)
	if fam.v == 4 {
		in.ipip = newIPIPManagerWithShims(in.rt, dataplanedefs.IPIPIfaceName, 4, 1440, dpc, op, nl)
	}
	in.ne = newNoEncapManagerWithSims(in.rt, fam.v, dpc, op, nl)
	// the datastore is in sync from the start: every explored update is a live update
	in.vf.OnStatusUpdated(api.InSync)
	in.flush()
	for _, s := range cfg.base {
		ev, ok := in.parse(s)
		if !ok {
			panic("bad base event " + s)
		}
		in.apply(ev)
	}
	return in
}

func (in *c43Inst) onMsg(msg any) {
	in.nMsgs++
	switch m := msg.(type) {
	case *proto.RouteUpdate:
		in.emitted["route "+m.Dst] = fmt.Sprintf("types=%d pool=%v node=%s ip=%s same=%v local=%v borrowed=%v nat=%v tun=%v", m.Types, m.IpPoolType, m.DstNodeName, m.DstNodeIp, m.SameSubnet, m.LocalWorkload, m.Borrowed, m.NatOutgoing, m.TunnelType)
	case *proto.RouteRemove:
		delete(in.emitted, "route "+m.Dst)
	case *proto.VXLANTunnelEndpointUpdate:
		in.emitted["vtep "+m.Node] = fmt.Sprintf("%s %s %s | %s %s %s", m.Ipv4Addr, m.ParentDeviceIp, m.Mac, m.Ipv6Addr, m.ParentDeviceIpv6, m.MacV6)
	case *proto.VXLANTunnelEndpointRemove:
		delete(in.emitted, "vtep "+m.Node)
	case *proto.HostMetadataUpdate:
		in.emitted["host "+m.Hostname] = m.Ipv4Addr + " " + m.Ipv6Addr
	case *proto.HostMetadataRemove:
		delete(in.emitted, "host "+m.Hostname)
	default:
		return
	}
	// every manager sees every message, as in InternalDataplane.processMsgFromCalcGraph
	in.vx.OnUpdate(msg)
	if in.ipip != nil {
		in.ipip.OnUpdate(msg)
	}
	in.ne.OnUpdate(msg)
}

func (in *c43Inst) flush() {
	in.cg.Flush()
	in.es.Flush()
	work := []func() error{in.vx.CompleteDeferredWork, in.ne.CompleteDeferredWork}
	if in.ipip != nil {
		work = append(work, in.ipip.CompleteDeferredWork)
	}
	for _, f := range work {
		if err := f(); err != nil {
			panic(err)
		}
	}
	in.dirty = false
}

type c43Ev struct {
	op string // set del flush
	k  int
	v  int
}

func (in *c43Inst) show(e c43Ev) string {
	switch e.op {
	case "set":
		return in.uni[e.k].name + "=" + in.uni[e.k].vars[e.v].name
	case "del":
		return "del " + in.uni[e.k].name
	}
	return "flush"
}

func (in *c43Inst) parse(s string) (c43Ev, bool) {
	if s == "flush" {
		return c43Ev{op: "flush"}, true
	}
	for k := range in.uni {
		if s == "del "+in.uni[k].name {
			return c43Ev{op: "del", k: k}, true
		}
		for v := range in.uni[k].vars {
			if s == in.uni[k].name+"="+in.uni[k].vars[v].name {
				return c43Ev{op: "set", k: k, v: v}, true
			}
		}
	}
	return c43Ev{}, false
}

func (in *c43Inst) apply(e c43Ev) {
	switch e.op {
	case "set":
		kd := in.uni[e.k]
		in.ds[e.k] = e.v
		val := kd.vars[e.v].make(kd.name, in.f)
		in.vf.OnUpdates(in.expand(kd, val, api.UpdateTypeKVUpdated))
	case "del":
		in.ds[e.k] = -1
		in.vf.OnUpdates(in.expand(in.uni[e.k], nil, api.UpdateTypeKVDeleted))
	case "flush":
		in.flush()
		return
	}
	in.dirty = true
	if !in.cfg.batched {
		in.flush()
	}
}

// expand: one datastore update as the Felix syncer delivers it. A Node resource is fanned out by the real
// FelixNodeUpdateProcessor into host-config keys (VXLAN tunnel address and MAC) followed by the resource itself,
// in one batch; that fan-out is reproduced here (same keys, same order, nil for an absent value).
func (in *c43Inst) expand(kd c43KeyDef, val any, ut api.UpdateType) []api.Update {
	hc := func(name string, v string) api.Update {
		if v == "" {
			return api.Update{KVPair: model.KVPair{Key: model.HostConfigKey{Hostname: kd.name, Name: name}}, UpdateType: api.UpdateTypeKVDeleted}
		}
		return api.Update{KVPair: model.KVPair{Key: model.HostConfigKey{Hostname: kd.name, Name: name}, Value: v}, UpdateType: api.UpdateTypeKVUpdated}
	}
	if in.f.v == 6 {
		if _, isNode := kd.key.(model.ResourceKey); isNode {
			var n *internalapi.Node
			if val != nil {
				n = val.(*internalapi.Node)
			} else {
				n = &internalapi.Node{}
			}
			res := api.Update{KVPair: model.KVPair{Key: kd.key}, UpdateType: api.UpdateTypeKVDeleted}
			if val != nil {
				res = api.Update{KVPair: model.KVPair{Key: kd.key, Value: val}, UpdateType: ut}
			}
			return []api.Update{
				hc("IPv4VXLANTunnelAddr", n.Spec.IPv4VXLANTunnelAddr), hc("VXLANTunnelMACAddr", n.Spec.VXLANTunnelMACAddr),
				hc("IPv6VXLANTunnelAddr", n.Spec.IPv6VXLANTunnelAddr), hc("VXLANTunnelMACAddrV6", n.Spec.VXLANTunnelMACAddrV6),
				res,
			}
		}
	}
	if val == nil {
		if _, isNode := kd.key.(model.ResourceKey); isNode {
			return []api.Update{
				{KVPair: model.KVPair{Key: model.HostConfigKey{Hostname: kd.name, Name: "IPv4VXLANTunnelAddr"}}, UpdateType: api.UpdateTypeKVDeleted},
				{KVPair: model.KVPair{Key: model.HostConfigKey{Hostname: kd.name, Name: "VXLANTunnelMACAddr"}}, UpdateType: api.UpdateTypeKVDeleted},
				{KVPair: model.KVPair{Key: kd.key}, UpdateType: api.UpdateTypeKVDeleted},
			}
		}
		return []api.Update{{KVPair: model.KVPair{Key: kd.key}, UpdateType: api.UpdateTypeKVDeleted}}
	}
	if n, isNode := val.(*internalapi.Node); isNode {
		var tun, mac any
		tt, mt := api.UpdateTypeKVDeleted, api.UpdateTypeKVDeleted
		if n.Spec.IPv4VXLANTunnelAddr != "" {
			tun, tt = n.Spec.IPv4VXLANTunnelAddr, api.UpdateTypeKVUpdated
		}
		if n.Spec.VXLANTunnelMACAddr != "" {
			mac, mt = n.Spec.VXLANTunnelMACAddr, api.UpdateTypeKVUpdated
		}
		return []api.Update{
			{KVPair: model.KVPair{Key: model.HostConfigKey{Hostname: kd.name, Name: "IPv4VXLANTunnelAddr"}, Value: tun}, UpdateType: tt},
			{KVPair: model.KVPair{Key: model.HostConfigKey{Hostname: kd.name, Name: "VXLANTunnelMACAddr"}, Value: mac}, UpdateType: mt},
			{KVPair: model.KVPair{Key: kd.key, Value: val}, UpdateType: ut},
		}
	}
	return []api.Update{{KVPair: model.KVPair{Key: kd.key, Value: val}, UpdateType: ut}}
}

func c43Enabled(in *c43Inst, depth int) []c43Ev {
	var evs []c43Ev
	if in.cfg.only != nil {
		for _, s := range in.cfg.only {
			ev, ok := in.parse(s)
			if !ok {
				panic("bad event " + s)
			}
			if in.ds[ev.k] < 0 {
				evs = append(evs, ev)
			}
		}
		if in.cfg.batched && in.dirty {
			evs = append(evs, c43Ev{op: "flush"})
		}
		return evs
	}
	for k, kd := range in.uni {
		for v := range kd.vars {
			if in.ds[k] != v {
				evs = append(evs, c43Ev{op: "set", k: k, v: v})
			}
		}
		if in.ds[k] >= 0 {
			evs = append(evs, c43Ev{op: "del", k: k})
		}
	}
	if in.cfg.batched && in.dirty {
		evs = append(evs, c43Ev{op: "flush"})
	}
	return evs
}

// ---- reference ----

func (in *c43Inst) variant(name string) *c43Variant {
	for k, kd := range in.uni {
		if kd.name == name {
			if in.ds[k] < 0 {
				return nil
			}
			return &kd.vars[in.ds[k]]
		}
	}
	return nil
}

func (in *c43Inst) node(name string) *c43Node {
	if v := in.variant(name); v != nil {
		return v.node
	}
	return nil
}

type c43Obs struct {
	class routetable.RouteClass
	dev   string
	typ   routetable.TargetType
	gw    string
}

func (o c43Obs) String() string {
	return fmt.Sprintf("{class=%d dev=%s type=%q gw=%s}", o.class, o.dev, o.typ, o.gw)
}

var c43Classes = []routetable.RouteClass{
	routetable.RouteClassVXLANSameSubnet, routetable.RouteClassVXLANTunnel, routetable.RouteClassIPIPSameSubnet, routetable.RouteClassIPIPTunnel,
	routetable.RouteClassNoEncap, routetable.RouteClassBlackholeVXLAN, routetable.RouteClassBlackholeIPIP, routetable.RouteClassBlackholeNoEncap,
}

func (in *c43Inst) observed() map[string][]c43Obs {
	out := map[string][]c43Obs{}
	for _, cl := range c43Classes {
		devs := make([]string, 0)
		for d := range in.rt.currentRoutesByClass[cl] {
			devs = append(devs, d)
		}
		sort.Strings(devs)
		for _, d := range devs {
			for _, t := range in.rt.currentRoutesByClass[cl][d] {
				gw := ""
				if t.GW != nil {
					gw = t.GW.String()
				}
				out[t.CIDR.String()] = append(out[t.CIDR.String()], c43Obs{cl, d, t.Type, gw})
			}
		}
	}
	return out
}

func c43InSubnet(addr string, localIP string, pfx int) bool {
	p, err := netip.ParsePrefix(fmt.Sprintf("%s/%d", localIP, pfx))
	if err != nil {
		return false
	}
	a, err := netip.ParseAddr(addr)
	if err != nil {
		return false
	}
	return p.Masked().Contains(a)
}

type c43Want struct {
	obs      *c43Obs // nil: nothing may be programmed for the CIDR
	complete bool    // everything needed to program obs has been delivered
	why      string
	kind     string // direct / tunnel / blackhole / none
}

// wantRemote: the route for a CIDR owned (used) by remote node `owner`.
func (in *c43Inst) wantRemote(owner string) c43Want {
	pv := in.variant("pool")
	if pv == nil {
		return c43Want{why: "no IP pool covers it", kind: "none"}
	}
	p := pv.pool
	h1 := in.node("h1")
	on := in.node(owner)
	ownerIP := ""
	if on != nil {
		ownerIP = on.ip
	}
	if ownerIP == "" {
		// "via the owning node's address" / the owner's VTEP: without the owner's address there is no route to build
		return c43Want{why: fmt.Sprintf("address of owner %s unknown", owner), kind: "none"}
	}
	direct := p.t == proto.IPPoolType_NO_ENCAP
	if p.cross && h1 != nil && ownerIP != "" && c43InSubnet(ownerIP, h1.ip, h1.pfx) {
		direct = true
	}
	tname := map[proto.IPPoolType]string{proto.IPPoolType_VXLAN: "vxlan", proto.IPPoolType_IPIP: "ipip", proto.IPPoolType_NO_ENCAP: "noencap"}[p.t]
	if p.cross {
		tname += "-cross-subnet"
	}
	if direct {
		cl := map[proto.IPPoolType]routetable.RouteClass{proto.IPPoolType_VXLAN: routetable.RouteClassVXLANSameSubnet,
			proto.IPPoolType_IPIP: routetable.RouteClassIPIPSameSubnet, proto.IPPoolType_NO_ENCAP: routetable.RouteClassNoEncap}[p.t]
		return c43Want{obs: &c43Obs{cl, c43ParentDev, routetable.TargetTypeNoEncap, ownerIP},
			complete: ownerIP != "" && h1 != nil, kind: "direct:" + tname,
			why: fmt.Sprintf("pool %s, owner %s=%s, local node %+v", tname, owner, ownerIP, h1)}
	}
	switch p.t {
	case proto.IPPoolType_VXLAN:
		vtep := ""
		if on != nil && on.ip != "" {
			vtep = on.tun
		}
		return c43Want{obs: &c43Obs{routetable.RouteClassVXLANTunnel, in.f.vxlanDev, routetable.TargetTypeVXLAN, vtep},
			complete: vtep != "", kind: "tunnel:" + tname, why: fmt.Sprintf("pool %s, owner %s=%s vtep %s, local node %+v", tname, owner, ownerIP, vtep, h1)}
	default:
		return c43Want{obs: &c43Obs{routetable.RouteClassIPIPTunnel, dataplanedefs.IPIPIfaceName, routetable.TargetTypeOnLink, ownerIP},
			complete: ownerIP != "", kind: "tunnel:" + tname, why: fmt.Sprintf("pool %s, owner %s=%s, local node %+v", tname, owner, ownerIP, h1)}
	}
}

func (in *c43Inst) emittedString() string {
	var parts []string
	for k, v := range in.emitted {
		parts = append(parts, k+" {"+v+"}")
	}
	sort.Strings(parts)
	return strings.Join(parts, "; ")
}

func (in *c43Inst) dsString() string {
	var parts []string
	for k, kd := range in.uni {
		if in.ds[k] >= 0 {
			parts = append(parts, kd.name+"="+kd.vars[in.ds[k]].name)
		}
	}
	return strings.Join(parts, " ")
}

func c43Check(in *c43Inst, hist []c43Ev) []hbfs.Fail {
	if in.dirty {
		return nil
	}
	var fails []hbfs.Fail
	seen := map[string]bool{}
	add := func(class, msg string) {
		k := "C43:" + class
		if seen[k] {
			return
		}
		seen[k] = true
		fails = append(fails, hbfs.Fail{Key: k, Msg: msg + " [datastore: " + in.dsString() + "] [calc graph output: " + in.emittedString() + "]"})
	}
	obs := in.observed()
	want := map[string]c43Want{}
	// tunnel addresses: the statement is silent about them
	ignore := map[string]bool{}
	for _, n := range []string{"h1", "h2", "h3"} {
		if nd := in.node(n); nd != nil && nd.tun != "" {
			ignore[nd.tun+in.f.host] = true
		}
	}
	bv := in.variant("blk")
	localAddrs := map[string]bool{}
	if w := in.variant("w1"); w != nil {
		localAddrs[w.wep+in.f.host] = true
	}
	if bv != nil {
		b := bv.blk
		if b.host == c43Local {
			if pv := in.variant("pool"); pv != nil {
				cl := blackholeRouteClass(pv.pool.t)
				want[in.f.blockCIDR] = c43Want{obs: &c43Obs{cl, routetable.InterfaceNone, routetable.TargetTypeBlackhole, ""}, complete: true, kind: "blackhole", why: "local block"}
			} else {
				want[in.f.blockCIDR] = c43Want{kind: "none", why: "local block but no IP pool covers it"}
			}
		} else {
			want[in.f.blockCIDR] = in.wantRemote(b.host)
		}
		for ord, user := range b.borrow {
			cidr := in.f.addr(ord) + in.f.host
			if user == c43Local {
				localAddrs[cidr] = true
				want[cidr] = c43Want{kind: "none", why: "address used by the local node (the endpoint manager owns the route)"}
			} else {
				want[cidr] = in.wantRemote(user)
			}
		}
	}
	for a := range localAddrs {
		if _, ok := want[a]; !ok {
			want[a] = c43Want{kind: "none", why: "local workload address"}
		}
	}
	for cidr, os := range obs {
		if ignore[cidr] {
			continue
		}
		w, ok := want[cidr]
		if !ok {
			add("route-for-unknown-destination", fmt.Sprintf("%s programmed as %v but the datastore has no block/borrowed address for it", cidr, os))
			continue
		}
		for _, o := range os {
			if o.typ == routetable.TargetTypeBlackhole && localAddrs[cidr] {
				add("blackhole-covers-local-workload-address", fmt.Sprintf("blackhole route for %s which is a local workload's own address", cidr))
				continue
			}
			if localAddrs[cidr] {
				// an address used by the local node: apart from the blackhole clause the statement is silent
				// (the code tags such routes local AND remote); accepted, counted
				continue
			}
			if w.obs == nil {
				add("route-without-basis:"+string(o.typ), fmt.Sprintf("%s programmed as %v but nothing may be programmed: %s", cidr, o, w.why))
				continue
			}
			if o != *w.obs {
				add("wrong-path:want-"+w.kind+":got-"+c43ObsKind(o), fmt.Sprintf("%s programmed as %v, the statement prescribes %v (%s)", cidr, o, *w.obs, w.why))
			}
		}
	}
	for cidr, w := range want {
		if w.obs == nil || !w.complete {
			continue
		}
		found := false
		for _, o := range obs[cidr] {
			if o == *w.obs {
				found = true
			}
		}
		if !found {
			add("route-missing:"+w.kind, fmt.Sprintf("%s should be programmed as %v (%s) but the table has %v", cidr, *w.obs, w.why, obs[cidr]))
		}
	}
	return fails
}

func c43ObsKind(o c43Obs) string {
	switch o.class {
	case routetable.RouteClassVXLANSameSubnet:
		return "direct:vxlan"
	case routetable.RouteClassIPIPSameSubnet:
		return "direct:ipip"
	case routetable.RouteClassNoEncap:
		return "direct:noencap"
	case routetable.RouteClassVXLANTunnel:
		return "tunnel:vxlan"
	case routetable.RouteClassIPIPTunnel:
		return "tunnel:ipip"
	}
	return "blackhole"
}

func c43Key(in *c43Inst) string {
	var sb strings.Builder
	fmt.Fprintf(&sb, "ds%v dirty=%v|", in.ds, in.dirty)
	var parts []string
	for k, v := range in.emitted {
		parts = append(parts, k+"="+v)
	}
	sort.Strings(parts)
	sb.WriteString(strings.Join(parts, ";"))
	sb.WriteString("|")
	obs := in.observed()
	parts = parts[:0]
	for c, os := range obs {
		parts = append(parts, fmt.Sprintf("%s:%v", c, os))
	}
	sort.Strings(parts)
	sb.WriteString(strings.Join(parts, ";"))
	rms := []*routeManager{in.vx.routeMgr, in.ne.routeMgr}
	if in.ipip != nil {
		rms = append(rms, in.ipip.routeMgr)
	}
	for i, rm := range rms {
		parts = parts[:0]
		for d, r := range rm.routesByDest {
			parts = append(parts, fmt.Sprintf("%s>%s/%s/%v/%d", d, r.DstNodeName, r.DstNodeIp, r.SameSubnet, r.Types))
		}
		for d := range rm.localIPAMBlocks {
			parts = append(parts, "bh:"+d)
		}
		sort.Strings(parts)
		fmt.Fprintf(&sb, "|m%d parent=%s/%s dirty=%v %s", i, rm.parentDevice, rm.parentIfaceAddr(), rm.routesDirty, strings.Join(parts, ","))
	}
	parts = parts[:0]
	for n, v := range in.vx.vtepsByNode {
		parts = append(parts, n+"="+v.Ipv4Addr+"/"+v.Ipv6Addr)
	}
	if in.ipip != nil {
		for n, v := range in.ipip.activeHostnameToIP {
			parts = append(parts, n+"="+v)
		}
	}
	sort.Strings(parts)
	fmt.Fprintf(&sb, "|%s", strings.Join(parts, ","))
	return sb.String()
}

func c43Spec(cfg c43Cfg, name string, depth int, graph bool) *hbfs.Spec[*c43Inst, c43Ev] {
	shower := c43New(c43Cfg{v6: cfg.v6})
	sp := &hbfs.Spec[*c43Inst, c43Ev]{
		Name:     name,
		New:      func() *c43Inst { return c43New(cfg) },
		Apply:    func(in *c43Inst, e c43Ev) { in.apply(e) },
		Enabled:  c43Enabled,
		Check:    c43Check,
		Show:     func(e c43Ev) string { return shower.show(e) },
		MaxDepth: depth,
		Workers:  6,
		Nontrivial: func(in *c43Inst) bool {
			return !in.dirty && in.variant("pool") != nil && in.variant("blk") != nil && len(in.observed()) > 0
		},
		Outcome: func(in *c43Inst) string {
			if in.dirty {
				return "mid-batch"
			}
			var parts []string
			for c, os := range in.observed() {
				for _, o := range os {
					parts = append(parts, c+":"+c43ObsKind(o))
				}
			}
			sort.Strings(parts)
			return strings.Join(parts, " ")
		},
		PanicKey: func(val string, hist []c43Ev) string {
			l := val
			if i := strings.IndexByte(l, '\n'); i >= 0 {
				l = l[:i]
			}
			if len(l) > 100 {
				l = l[:100]
			}
			return "C43:panic:" + l
		},
	}
	if graph {
		sp.Key = c43Key
	}
	return sp
}

var c43Bases = map[string][]string{
	"empty":     nil,
	"vxlanX":    {"h1=net24", "h2=near", "h3=far", "pool=vxlanX", "blk=h2lendH3", "w1=in"},
	"ipipLocal": {"h1=net24", "h2=far", "h3=near", "pool=ipip", "blk=h1lendH2", "w1=in"},
	"vxlanX6":   {"h1=net128", "h2=near", "h3=far", "pool=vxlanX", "blk=h2lendH3", "w1=in"}, // IPv6 universe
}

func TestVerif_C43(t *testing.T) {
	logrus.SetLevel(logrus.PanicLevel)
	logrus.StandardLogger().ExitFunc = func(int) { panic("logrus.Fatal") }
	gomega.RegisterFailHandler(func(m string, _ ...int) { panic("gomega: " + m) })
	_ = config.New() // lazily initialised package tables: once before going parallel
	vk.Run(t, "C43", func(c *vk.Ctx) {
		c.Rule("state = (datastore content: variant of local node h1, remote nodes h2/h3, IP pool, IPAM block, local workload; latest message per object emitted by the calc graph; routesByDest/localIPAMBlocks/parent device/VTEPs/host IPs of the three managers; mock route table per route class); " +
			"transition = set(key,variant) / delete(key) delivered through ValidationFilter->CalcGraph->EventSequencer into the VXLAN, IPIP and no-encap managers, followed by flush + CompleteDeferredWork (atomic system) or with flush as a separate event (batched system); every transition replays the history on a fresh instance; " +
			"manager-level system: state = latest message per object + manager internals + route table, transition = one RouteUpdate/RouteRemove/VTEP update/VTEP remove/HostMetadata message or apply; " +
			"non-trivial = flushed state with a pool and a block in the datastore and at least one programmed route")
		c.Assume("IPv4 universe and an IPv6 twin (dual-stack nodes, VXLAN-v6 and no-encap-v6 managers; IPIP is IPv4 only), never both pools at once; the datastore is in sync before the first explored update; the parent interface (eth0, carrying the local node address) exists in the mock netlink dataplane, so the managers find it synchronously as soon as the local node's address is known (the asynchronous parent-device report is not a separate event)")
		c.Assume("the local node always has a VXLAN tunnel address when it exists (a local node without VTEP has no VXLAN device at all); routes for tunnel addresses themselves are outside the statement and ignored")
		c.Assume("Go map iteration order inside one flush (EventSequencer pending maps, routesByDest) is not controlled; the oracle is insensitive to it")
		if rf := c.ReplayFile(); rf != "" {
			var d struct {
				Spec    string
				History []string
			}
			if err := vk.LoadReplay(rf, &d); err != nil {
				c.ToolError(err.Error())
				return
			}
			if strings.HasPrefix(d.Spec, "managers-") {
				fails, err := hbfs.Replay(c43MSpec(d.Spec, 99, false), d.History)
				if err != nil {
					c.ToolError(err.Error())
				}
				for _, f := range fails {
					c.Violation(f.Key, map[string]any{"spec": d.Spec, "history": d.History, "msg": f.Msg})
				}
				c.Add("states", 1)
				c.Add("transitions", int64(len(d.History)))
				c.Sample(map[string]any{"replayed": d.History})
				return
			}
			cfg := c43Cfg{batched: strings.Contains(d.Spec, "batched"), v6: strings.Contains(d.Spec, "-v6")}
			for bn, b := range c43Bases {
				if strings.Contains(d.Spec, "base-"+bn) {
					cfg.base = b
				}
			}
			fails, err := hbfs.Replay(c43Spec(cfg, d.Spec, 99, false), d.History)
			if err != nil {
				c.ToolError(err.Error())
			}
			for _, f := range fails {
				c.Violation(f.Key, map[string]any{"spec": d.Spec, "history": d.History, "msg": f.Msg})
			}
			c.Add("states", 1)
			c.Add("transitions", int64(len(d.History)))
			c.Sample(map[string]any{"replayed": d.History})
			return
		}
		c.Sample(map[string]any{"system": "atomic, base empty", "history": []string{"blk=h2lendH3", "pool=vxlanX", "h3=near", "h1=net24", "h2=far"},
			"expected": "10.0.1.0/30 via vxlan.calico gw 10.0.2.0 (h2 outside the local /24); 10.0.1.2/32 direct via eth0 gw 192.168.0.3 (h3 inside it)"})
		// 0. every arrival order of the six objects of a configuration, for the cross product of pool type x
		//    position of h2 x block variant (h3 sits on the other side of the subnet boundary than h2)
		var nOrders, nCfg int64
		for _, v6 := range []bool{false, true} {
			pools := []string{"vxlan", "vxlanX", "ipip", "ipipX", "noencap"}
			h1 := "h1=net24"
			if v6 {
				pools = []string{"vxlan", "vxlanX", "noencap"}
				h1 = "h1=net64"
			}
			for _, pool := range pools {
				for _, h2 := range []string{"near", "far"} {
					for _, blk := range []string{"h2", "h2lendH3", "h2lendH1", "h1", "h1lendH2"} {
						h3 := "far"
						if h2 == "far" {
							h3 = "near"
						}
						only := []string{h1, "h2=" + h2, "h3=" + h3, "pool=" + pool, "blk=" + blk, "w1=in"}
						for _, batched := range []bool{false, true} {
							if batched && !(c.Thorough() || (pool == "vxlanX" || pool == "ipipX") && (blk == "h2lendH3" || blk == "h1lendH2")) {
								continue
							}
							name := fmt.Sprintf("routes-arrival-%s-h2%s-%s", pool, h2, blk)
							if v6 {
								name += "-v6"
							}
							if batched {
								name += "-batched"
							}
							sp := c43Spec(c43Cfg{only: only, batched: batched, v6: v6}, name, 14, true)
							sp.Quiet = true
							st := hbfs.Explore(c, sp)
							nOrders += st.Transitions
							nCfg++
							if !st.Complete {
								break
							}
						}
					}
				}
			}
		}
		fmt.Printf("enum C43 arrival-order systems: %d configurations, %d transitions\n", nCfg, nOrders)
		// 1. arrival orders + changes from nothing
		hbfs.Explore(c, c43Spec(c43Cfg{}, "routes-atomic-base-empty-graph", c.Pick(4, 6), true))
		// 2. changes / removals around populated configurations
		hbfs.Explore(c, c43Spec(c43Cfg{base: c43Bases["vxlanX"]}, "routes-atomic-base-vxlanX-graph", c.Pick(2, 4), true))
		hbfs.Explore(c, c43Spec(c43Cfg{base: c43Bases["ipipLocal"]}, "routes-atomic-base-ipipLocal-graph", c.Pick(2, 4), true))
		// 3. several updates per flush
		hbfs.Explore(c, c43Spec(c43Cfg{batched: true}, "routes-batched-base-empty-graph", c.Pick(3, 6), true))
		// 5. IPv6 twin: set/delete incl. re-addressing of the local node (/64 <-> /128) and of the remote nodes
		hbfs.Explore(c, c43Spec(c43Cfg{v6: true}, "routes-atomic-base-empty-graph-v6", c.Pick(3, 5), true))
		hbfs.Explore(c, c43Spec(c43Cfg{v6: true, base: c43Bases["vxlanX6"]}, "routes-atomic-base-vxlanX6-graph-v6", c.Pick(2, 4), true))
		// 6. manager-level message system: routes, remote VTEPs and host metadata as independent messages, apply as a
		//    free event (route first and VTEP in a later apply; VTEP removed, apply, re-added, apply; ...)
		hbfs.Explore(c, c43MSpec("managers-messages-graph", c.Pick(6, 10), true))
		hbfs.Explore(c, c43MSpec("managers-messages-tree", c.Pick(3, 4), false))
		// 4. no reliance on the state key
		hbfs.Explore(c, c43Spec(c43Cfg{base: c43Bases["vxlanX"]}, "routes-atomic-base-vxlanX-tree", c.Pick(2, 3), false))
	})
}

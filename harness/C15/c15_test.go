package iptables

// C15 — iptables table sync converges and leaves other software's rules alone.
//
// Shape H (explicit-state search with fault enumeration): the REAL iptables.Table is bound through
// NewCmdOverride/SleepOverride/NowOverride to the repo's own line-exact iptables-save/restore model
// (felix/iptables/testutils.MockDataplane). Events: desired-state API calls, Apply (optionally with
// the i-th iptables-save / j-th iptables-restore of that Apply failing in each mode the mock knows,
// and optionally with another program editing the table between Felix's save and its restore),
// edits by other programs (with or without Felix being told to re-read), time passing beyond the
// refresh interval, and a restart (new Table on the same kernel).
//
// The mock asserts through gomega. A failing assertion is classified here: things the kernel would
// simply reject (delete/replace of a missing rule, insert into a missing chain, -X of a non-empty or
// still referenced chain, jump to a missing chain) make that iptables-restore fail ATOMICALLY (state
// rolled back, error returned — what the real command does) so that Felix's retry logic is
// exercised; assertions about Felix's own conduct (delete-by-number in a foreign chain, ...) are
// reported as violations.

import (
	"encoding/json"
	"errors"
	"fmt"
	"regexp"
	"sort"
	"strings"
	"sync"
	"sync/atomic"
	"testing"
	"time"

	"github.com/onsi/gomega"
	"github.com/sirupsen/logrus"

	"github.com/projectcalico/calico/felix/environment"
	"github.com/projectcalico/calico/felix/generictables"
	"github.com/projectcalico/calico/felix/iptables/cmdshim"
	"github.com/projectcalico/calico/felix/iptables/testutils"
	"github.com/projectcalico/calico/lib/logrusr"
	"github.com/projectcalico/calico/libcalico-go/lib/set"
	"github.com/projectcalico/calico/zzverif/hbfs"
	"github.com/projectcalico/calico/zzverif/vk"
)

type c15Assert struct{ msg string }

// Hooks filled in by c15nft_test.go (external test package): the nftables half of the check.
var (
	C15NftExplore func(c *vk.Ctx)
	C15NftReplay  func(c *vk.Ctx, spec string, hist []string)
)

// statistics only (never read by the harness logic)
var c15Rejected, c15Raced, c15FaultedApplies, c15WritingApplies atomic.Int64

var c15Once sync.Once

type c15Features struct{}

func (c15Features) GetFeatures() *environment.Features { return &environment.Features{} }
func (c15Features) RefreshFeatures()                   {}
func (c15Features) FeatureGate(string) string          { return "" }

type c15Fault struct {
	Kind string `json:"kind"` // save | restore
	N    int    `json:"n"`    // 1-based index among the commands of that kind in this Apply
	Mode string `json:"mode"` // save: read | pipe | start | close ; restore: fail
}

type c15Ev struct {
	Op     string     `json:"op"`
	Chain  string     `json:"chain,omitempty"`
	V      string     `json:"v,omitempty"`
	Inv    bool       `json:"inv,omitempty"`
	Faults []c15Fault `json:"faults,omitempty"`
	Race   string     `json:"race,omitempty"`
	Init   string     `json:"init,omitempty"`
}

func (e c15Ev) String() string { return vk.JSON(e) }

type c15Cfg struct {
	Mode       string // legacy | nft
	InsertMode string // insert | append
	MaxFaults  int
	NoInv      bool // also generate outside edits that Felix is NOT told about
	PostWrite  bool // keep Felix's own post-write re-check timer (50ms, doubling) active
}

// ---- desired-state universe ---------------------------------------------------------------------------

func c15Rule(kind string) generictables.Rule {
	switch kind {
	case "drop-tcp":
		return generictables.Rule{Match: Match().Protocol("tcp"), Action: DropAction{}}
	case "acc-udp":
		return generictables.Rule{Match: Match().Protocol("udp"), Action: AcceptAction{}}
	case "acc":
		return generictables.Rule{Match: Match(), Action: AcceptAction{}}
	case "ret":
		return generictables.Rule{Match: Match().Protocol("icmp"), Action: ReturnAction{}}
	case "jB":
		return generictables.Rule{Match: Match(), Action: JumpAction{Target: "cali-B"}}
	case "jA":
		return generictables.Rule{Match: Match(), Action: JumpAction{Target: "cali-A"}}
	}
	panic("bad rule kind " + kind)
}

// chain / hook variants: name -> rule kinds
var c15Variants = map[string][]string{
	"A0": {}, // a referenced chain with no rules at all
	"A1": {"drop-tcp"},
	"A2": {"jB", "drop-tcp"},
	"A3": {"drop-tcp", "acc-udp", "ret"},
	"A4": {"acc-udp", "drop-tcp"},
	"B0": {},
	"B1": {"acc"},
	"B2": {"drop-tcp", "acc"},
	"H0": {},
	"H1": {"jA"},
	"H2": {"jA", "jB"},
	"H3": {"jB"},
	"P0": {},
	"P1": {"ret"},
}

// a trailing "!" on a chain variant means: sent with ForceProgramming set
func c15Base(v string) string { return strings.TrimSuffix(v, "!") }
func c15Force(v string) bool  { return strings.HasSuffix(v, "!") }

func c15Rules(v string) []generictables.Rule {
	out := []generictables.Rule{}
	for _, k := range c15Variants[c15Base(v)] {
		out = append(out, c15Rule(k))
	}
	return out
}

// ---- state ------------------------------------------------------------------------------------------------------

type c15State struct {
	cfg   c15Cfg
	mock  *testutils.MockDataplane
	table *Table
	hist  []c15Ev

	// reference: what was asked for
	chains map[string]string // cali-A / cali-B -> variant
	hooks  string            // FORWARD insert/append variant
	apps   string            // FORWARD always-append variant
	// reference: what other software put there (non-Felix chains -> rules in order)
	foreign  map[string][]string
	nForeign int

	drift bool // somebody changed the table and Felix has not re-read it since

	// per Apply
	nSave, nRestore int
	faults          []c15Fault
	race            string
	rejected        []string
	restoresOK      int
	sleeps          int

	key, out  string
	nontriv   bool
	evOut     string // outcome / non-triviality of the EVENT (the probes of Check overwrite out/nontriv)
	evNontriv bool
	bad       []hbfs.Fail
	badSeen   map[string]bool
}

func (s *c15State) fail(key, f string, a ...any) {
	key = "C15:" + key
	if s.badSeen[key] {
		return
	}
	s.badSeen[key] = true
	s.bad = append(s.bad, hbfs.Fail{Key: key, Msg: fmt.Sprintf(f, a...)})
}

const c15Refresh = 60 * time.Second

func c15New(cfg c15Cfg) *c15State {
	c15Once.Do(func() {
		gomega.RegisterFailHandler(func(m string, _ ...int) { panic(c15Assert{m}) })
	})
	s := &c15State{cfg: cfg, chains: map[string]string{}, hooks: "H0", apps: "P0", foreign: map[string][]string{}, badSeen: map[string]bool{}}
	s.mock = testutils.NewMockDataplane("filter", map[string][]string{"FORWARD": {}, "INPUT": {}, "OUTPUT": {}}, cfg.Mode)
	s.mock.Time = time.Unix(1_700_000_000, 0)
	for n := range s.mock.Chains {
		s.foreign[n] = []string{}
	}
	s.newTable()
	return s
}

func (s *c15State) newTable() {
	pw := 3 * time.Hour // >= 1h switches the post-write re-check off
	if s.cfg.PostWrite {
		pw = 0 // defaults to the 50ms minimum
	}
	s.table = NewTable("filter", 4, "cali:", c15Features{}, TableOptions{
		HistoricChainPrefixes: []string{"felix-", "cali"},
		BackendMode:           s.cfg.Mode,
		InsertMode:            s.cfg.InsertMode,
		RefreshInterval:       c15Refresh,
		PostWriteInterval:     pw,
		NewCmdOverride:        s.newCmd,
		SleepOverride:         func(d time.Duration) { s.sleeps++; s.mock.Sleep(d) },
		NowOverride:           s.mock.Now,
		LookPathOverride:      testutils.LookPathNoLegacy,
		OpRecorder:            logrusr.NewSummarizer("c15"),
	})
}

// ---- command wrapper: fault arming, atomic rejection, races -------------------------------------------

func (s *c15State) newCmd(name string, arg ...string) cmdshim.CmdIface {
	isSave := strings.HasSuffix(name, "-save")
	isRestore := strings.HasSuffix(name, "-restore")
	if isSave {
		s.nSave++
		for _, f := range s.faults {
			if f.Kind == "save" && f.N == s.nSave {
				switch f.Mode {
				case "read":
					s.mock.FailNextSaveRead = true
				case "pipe":
					s.mock.FailNextSaveStdoutPipe = true
				case "start":
					s.mock.FailNextStart = true
				case "close":
					s.mock.FailNextPipeClose = true
				}
			}
		}
	}
	if isRestore {
		s.nRestore++
		for _, f := range s.faults {
			if f.Kind == "restore" && f.N == s.nRestore {
				s.mock.FailNextRestore = true
			}
		}
	}
	cmd := s.mock.NewCmd(name, arg...)
	if isRestore {
		return &c15Restore{CmdIface: cmd, s: s}
	}
	if isSave {
		return &c15Save{CmdIface: cmd, s: s}
	}
	return cmd
}

type c15Save struct {
	cmdshim.CmdIface
	s  *c15State
	ok bool
}

func (c *c15Save) Wait() error {
	err := c.CmdIface.Wait()
	return err
}

type c15Restore struct {
	cmdshim.CmdIface
	s *c15State
}

var c15KernelRejects = []string{
	"Delete of nonexistent rule", "Replace of nonexistent rule", "Insert to unknown chain",
	"Append to unknown chain", "Only empty chains can be deleted",
}

func c15Copy(m map[string][]string) map[string][]string {
	out := map[string][]string{}
	for k, v := range m {
		out[k] = append([]string{}, v...)
	}
	return out
}

var c15JumpRe = regexp.MustCompile(`(?:--jump|-j|--goto|-g) (\S+)`)

// danglingJump returns a description of a rule that jumps to a user chain which does not exist
// (the kernel would have refused the transaction that created such a state).
func c15Dangling(chains map[string][]string) string {
	for cn, rules := range chains {
		for _, r := range rules {
			for _, m := range c15JumpRe.FindAllStringSubmatch(r, -1) {
				tgt := m[1]
				if strings.HasPrefix(tgt, "cali") || strings.HasPrefix(tgt, "felix-") || tgt == "DOCKER" {
					if _, ok := chains[tgt]; !ok {
						return fmt.Sprintf("rule `%s` in %s targets missing chain %s", r, cn, tgt)
					}
				}
			}
		}
	}
	return ""
}

func (c *c15Restore) Run() (err error) {
	s := c.s
	m := s.mock
	if s.race != "" {
		// another program edits the table after Felix read it and before Felix writes
		r := s.race
		s.race = ""
		s.outside(r)
		s.drift = true
	}
	snapChains := c15Copy(m.Chains)
	snapFlushed, snapMods, snapDeleted := m.FlushedChains.Copy(), m.ChainMods.Copy(), m.DeletedChains.Copy()
	rollback := func(why string) {
		m.Chains = snapChains
		m.FlushedChains, m.ChainMods, m.DeletedChains = snapFlushed, snapMods, snapDeleted
		s.rejected = append(s.rejected, why)
		err = errors.New("iptables-restore: " + why)
	}
	defer func() {
		if r := recover(); r != nil {
			a, ok := r.(c15Assert)
			if !ok {
				panic(r)
			}
			for _, k := range c15KernelRejects {
				if strings.Contains(a.msg, k) {
					rollback("line rejected by the kernel: " + k)
					return
				}
			}
			// an assertion about Felix's own behaviour
			short := a.msg
			if i := strings.Index(short, "\n"); i >= 0 {
				short = short[:i]
			}
			for _, k := range []string{"by number can cause races", "not safe to modify chain without flushing", "Replace shouldn't be used in nft mode", "Unexpected line after COMMIT", "didn't see a COMMIT", "No *table stanza"} {
				if strings.Contains(a.msg, k) {
					short = k
				}
			}
			s.fail("restore-input-breaks-a-rule-of-the-iptables-model:"+short, "mock iptables-restore assertion: %s", a.msg)
			rollback("model assertion")
		}
	}()
	err = c.CmdIface.Run()
	if err != nil {
		return err
	}
	if d := c15Dangling(m.Chains); d != "" {
		rollback("transaction rejected by the kernel: " + d)
		return
	}
	s.restoresOK++
	return nil
}

// ---- what other software does ---------------------------------------------------------------------------------

func (s *c15State) outside(what string) {
	ch := s.mock.Chains
	switch what {
	case "ins-top": // a foreign rule lands on top of FORWARD (above our hook)
		s.nForeign++
		r := fmt.Sprintf("-s 9.9.9.%d/32 -j ACCEPT", s.nForeign)
		ch["FORWARD"] = append([]string{r}, ch["FORWARD"]...)
		s.foreign["FORWARD"] = append([]string{r}, s.foreign["FORWARD"]...)
	case "app-end": // a foreign rule is appended to FORWARD (below our append-mode rules)
		s.nForeign++
		r := fmt.Sprintf("-d 8.8.8.%d/32 -j DROP", s.nForeign)
		ch["FORWARD"] = append(ch["FORWARD"], r)
		s.foreign["FORWARD"] = append(s.foreign["FORWARD"], r)
	case "del-hook": // our first hook rule is removed
		for i, r := range ch["FORWARD"] {
			if strings.Contains(r, `--comment "cali:`) {
				ch["FORWARD"] = append(append([]string{}, ch["FORWARD"][:i]...), ch["FORWARD"][i+1:]...)
				break
			}
		}
	case "flush-A":
		if _, ok := ch["cali-A"]; ok {
			ch["cali-A"] = []string{}
		}
	case "del-rule-A":
		if r := ch["cali-A"]; len(r) > 0 {
			ch["cali-A"] = append([]string{}, r[1:]...)
		}
	case "junk-A": // a rule without our hash inside our chain
		if r, ok := ch["cali-A"]; ok {
			ch["cali-A"] = append([]string{"-s 7.7.7.7/32 -j ACCEPT"}, r...)
		}
	case "swap-A": // the first two rules of our chain change places
		if r := ch["cali-A"]; len(r) >= 2 {
			n := append([]string{}, r...)
			n[0], n[1] = n[1], n[0]
			ch["cali-A"] = n
		}
	case "wipe": // iptables -F; iptables -X : everything of everybody is gone
		for n := range ch {
			if _, kernel := map[string]bool{"FORWARD": true, "INPUT": true, "OUTPUT": true}[n]; kernel {
				ch[n] = []string{}
				s.foreign[n] = []string{}
			} else {
				delete(ch, n)
				delete(s.foreign, n)
			}
		}
	case "stale": // leftovers of an earlier Felix: a chain, an old-style hook and a hook with an unknown hash
		if _, ok := ch["cali-old"]; !ok {
			ch["cali-old"] = []string{`-m comment --comment "cali:OLDoldOLDoldOLDo" -j DROP`}
			ch["FORWARD"] = append([]string{"-j cali-old"}, ch["FORWARD"]...)
			ch["INPUT"] = append(ch["INPUT"], `-m comment --comment "cali:STALEstaleSTALE0" -j cali-old`)
		}
	case "docker": // a foreign chain hooked into FORWARD
		if _, ok := ch["DOCKER"]; !ok {
			ch["DOCKER"] = []string{"-p tcp -m tcp --dport 80 -j ACCEPT"}
			s.foreign["DOCKER"] = append([]string{}, ch["DOCKER"]...)
			ch["FORWARD"] = append(ch["FORWARD"], "-j DOCKER")
			s.foreign["FORWARD"] = append(s.foreign["FORWARD"], "-j DOCKER")
		}
	default:
		panic("bad outside edit " + what)
	}
}

// ---- expected kernel state ----------------------------------------------------------------------------------------

func c15Render(chain string, rules []generictables.Rule, hashName string) []string {
	r := NewIptablesRenderer("cali:")
	f := &environment.Features{}
	hashes := CalculateRuleHashes(hashName, rules, f)
	out := []string{}
	for i := range rules {
		line := r.RenderAppend(&rules[i], chain, hashes[i], f)
		out = append(out, strings.TrimPrefix(line, "-A "+chain+" "))
	}
	return out
}

func (s *c15State) defined(chain string) bool { _, ok := s.chains[chain]; return ok }

// referenced Felix chains: reachable from the hook rules through jumps
func (s *c15State) reachable() map[string]bool {
	seen := map[string]bool{}
	var visit func(kinds []string)
	visit = func(kinds []string) {
		for _, k := range kinds {
			var t string
			switch k {
			case "jA":
				t = "cali-A"
			case "jB":
				t = "cali-B"
			default:
				continue
			}
			if seen[t] {
				continue
			}
			seen[t] = true
			if v, ok := s.chains[t]; ok {
				visit(c15Variants[c15Base(v)])
			}
		}
	}
	visit(c15Variants[s.hooks])
	visit(c15Variants[s.apps])
	// a force-programmed chain is programmed (with everything it jumps to) even if nothing refers to it
	for n, v := range s.chains {
		if c15Force(v) && !seen[n] {
			seen[n] = true
			visit(c15Variants[c15Base(v)])
		}
	}
	return seen
}

// consistent = every referenced chain is defined (the API contract for calling Apply)
func (s *c15State) consistent() bool {
	for c := range s.reachable() {
		if !s.defined(c) {
			return false
		}
	}
	return true
}

func (s *c15State) expected() map[string][]string {
	exp := c15Copy(s.foreign)
	hooks := c15Render("FORWARD", c15Rules(s.hooks), "FORWARD")
	apps := c15Render("FORWARD", c15Rules(s.apps), "FORWARD*appends*")
	fw := []string{}
	if s.cfg.InsertMode == "append" {
		fw = append(append(append(fw, s.foreign["FORWARD"]...), hooks...), apps...)
	} else {
		fw = append(append(append(fw, hooks...), s.foreign["FORWARD"]...), apps...)
	}
	exp["FORWARD"] = fw
	for c := range s.reachable() {
		if v, ok := s.chains[c]; ok {
			exp[c] = c15Render(c, c15Rules(v), c)
		}
	}
	return exp
}

func c15Show(m map[string][]string) string {
	var names []string
	for n := range m {
		names = append(names, n)
	}
	sort.Strings(names)
	var b strings.Builder
	for _, n := range names {
		b.WriteString(n + "[" + strings.Join(m[n], " ; ") + "] ")
	}
	return b.String()
}

func c15OurRule(r string) bool {
	return strings.Contains(r, `--comment "cali:`) || regexp.MustCompile(`(?:-j|--jump) (?:felix-|cali)`).MatchString(r)
}

// checkForeign: everything that is not Felix's must be exactly as other software left it (always).
func (s *c15State) checkForeign(where string) {
	for n, want := range s.foreign {
		got, ok := s.mock.Chains[n]
		if !ok {
			s.fail("foreign-chain-deleted", "%s: chain %s (not Felix's) is gone", where, n)
			continue
		}
		var theirs []string
		for _, r := range got {
			if !c15OurRule(r) {
				theirs = append(theirs, r)
			}
		}
		if strings.Join(theirs, "\n") != strings.Join(want, "\n") {
			s.fail("foreign-rules-changed", "%s: non-Felix rules of %s are %q, other software left %q", where, n, theirs, want)
		}
	}
	for n := range s.mock.Chains {
		if _, ok := s.foreign[n]; !ok && !regexp.MustCompile(`^(felix-|cali)`).MatchString(n) {
			s.fail("foreign-chain-created", "%s: chain %s appeared outside Felix's name space", where, n)
		}
	}
}

func (s *c15State) checkExact(where string) {
	exp := s.expected()
	got := s.mock.Chains
	for n, want := range exp {
		g, ok := got[n]
		switch {
		case !ok:
			s.fail(where+":chain-missing", "chain %s missing; kernel: %s; expected: %s", n, c15Show(got), c15Show(exp))
		case strings.Join(g, "\n") != strings.Join(want, "\n"):
			kind := "felix-chain-content"
			if _, f := s.foreign[n]; f {
				kind = "hook-rules"
			}
			s.fail(where+":"+kind+"-wrong", "chain %s is %q want %q", n, g, want)
		}
	}
	for n := range got {
		if _, ok := exp[n]; !ok {
			s.fail(where+":stale-felix-chain", "chain %s should not exist; kernel: %s", n, c15Show(got))
		}
	}
}

// ---- Apply ---------------------------------------------------------------------------------------------------------------

func (s *c15State) apply(faults []c15Fault, race string, where string) {
	m := s.mock
	s.nSave, s.nRestore, s.restoresOK, s.rejected = 0, 0, 0, nil
	s.faults, s.race = faults, race
	m.FlushedChains, m.DeletedChains = set.New[string](), set.New[string]()
	m.ChainMods.Clear()
	m.ResetCmds()
	m.PipeBuffers = nil
	before := c15Copy(m.Chains)
	wasDrift := s.drift
	sl := s.sleeps
	s.table.Apply()
	// leftover one-shot fault flags must not leak into later applies
	m.FailNextRestore, m.FailNextSaveRead, m.FailNextSaveStdoutPipe, m.FailNextStart, m.FailNextPipeClose = false, false, false, false, false
	s.faults = nil
	raced := race != "" && s.race == ""
	s.race = ""
	// Felix has an up-to-date picture iff it read the table after the last outside change
	if wasDrift && s.nSave > 0 && !raced {
		s.drift = false
	}
	if raced && s.nSave > 1 {
		// re-read after the racing edit (a rejected restore forces a reload)
		s.drift = false
	}
	s.checkForeign(where)
	if !s.drift {
		s.checkExact(where)
		// chains that were already right must not have been rewritten
		if !wasDrift && !raced {
			exp := s.expected()
			for n, want := range exp {
				if strings.Join(before[n], "\n") != strings.Join(want, "\n") || before[n] == nil {
					continue
				}
				if len(want) == 0 {
					// an empty chain holds nothing that could be rewritten (the nft-backend path
					// re-flushes an already empty chain, which changes nothing)
					continue
				}
				touched := m.FlushedChains.Contains(n)
				for i := 0; i <= len(want)+3 && !touched; i++ {
					touched = m.RuleTouched(n, i)
				}
				if touched {
					s.fail(where+":unchanged-chain-rewritten", "chain %s already held exactly the desired rules %q but was modified by this Apply (flushed=%v)", n, want, m.FlushedChains.Contains(n))
				}
			}
		}
	}
	s.out = fmt.Sprintf("apply faults=%d race=%v saves=%d restores=%d ok=%d rejected=%d retries=%d", len(faults), raced, s.nSave, s.nRestore, s.restoresOK, len(s.rejected), s.sleeps-sl)
	s.nontriv = s.restoresOK > 0 || len(faults) > 0 || raced
	c15Rejected.Add(int64(len(s.rejected)))
	if raced {
		c15Raced.Add(1)
	}
	if len(faults) > 0 {
		c15FaultedApplies.Add(1)
	}
	if s.restoresOK > 0 {
		c15WritingApplies.Add(1)
	}
}

func (s *c15State) sendDesired() {
	names := []string{}
	for n := range s.chains {
		names = append(names, n)
	}
	sort.Strings(names)
	for _, n := range names {
		s.table.UpdateChain(&generictables.Chain{Name: n, Rules: c15Rules(s.chains[n]), ForceProgramming: c15Force(s.chains[n])})
	}
	s.table.InsertOrAppendRules("FORWARD", c15Rules(s.hooks))
	s.table.AppendRules("FORWARD", c15Rules(s.apps))
}

func c15Apply(s *c15State, e c15Ev) {
	s.hist = append(s.hist, e)
	s.nontriv = false
	s.out = e.Op
	switch e.Op {
	case "init":
		if strings.Contains(e.Init, "foreign") {
			s.outside("ins-top")
			s.outside("docker")
		}
		if strings.Contains(e.Init, "stale") {
			s.outside("stale")
		}
		if strings.Contains(e.Init, "synced") {
			s.chains["cali-A"] = "A2"
			s.chains["cali-B"] = "B1"
			s.hooks = "H1"
			s.sendDesired()
			s.apply(nil, "", "init")
		}
	case "chain":
		s.chains[e.Chain] = e.V
		s.table.UpdateChain(&generictables.Chain{Name: e.Chain, Rules: c15Rules(e.V), ForceProgramming: c15Force(e.V)})
	case "rmchain":
		delete(s.chains, e.Chain)
		s.table.RemoveChainByName(e.Chain)
	case "hooks":
		s.hooks = e.V
		s.table.InsertOrAppendRules("FORWARD", c15Rules(e.V))
	case "apps":
		s.apps = e.V
		s.table.AppendRules("FORWARD", c15Rules(e.V))
	case "apply":
		s.apply(e.Faults, e.Race, "apply")
	case "outside":
		s.outside(e.V)
		s.drift = true
		if e.Inv {
			s.table.InvalidateDataplaneCache("c15")
		}
	case "invalidate":
		s.table.InvalidateDataplaneCache("c15")
	case "tick":
		s.mock.AdvanceTimeBy(c15Refresh + time.Second)
	case "restart":
		s.newTable()
		s.sendDesired()
	default:
		panic("bad op " + e.Op)
	}
	s.key = s.computeKey()
	s.evOut, s.evNontriv = s.out, s.nontriv
}

func c15Enabled(s *c15State, depth int) []c15Ev {
	if depth == 0 {
		return []c15Ev{{Op: "init", Init: "empty"}, {Op: "init", Init: "foreign"}, {Op: "init", Init: "foreign+stale"},
			{Op: "init", Init: "foreign+synced"}, {Op: "init", Init: "foreign+stale+synced"}}
	}
	var evs []c15Ev
	add := func(e c15Ev) { evs = append(evs, e) }
	// (re-sending the current contents is included: Felix's managers do that on every resync)
	for _, v := range []string{"A0", "A1", "A2", "A3", "A4"} {
		add(c15Ev{Op: "chain", Chain: "cali-A", V: v})
	}
	// (cali-B also with the ForceProgramming flag: set and cleared by separate UpdateChain calls, before
	// or after cali-A starts/stops jumping to it)
	for _, v := range []string{"B0", "B1", "B2", "B1!", "B2!"} {
		add(c15Ev{Op: "chain", Chain: "cali-B", V: v})
	}
	for _, c := range []string{"cali-A", "cali-B"} {
		if s.defined(c) {
			add(c15Ev{Op: "rmchain", Chain: c})
		}
	}
	for _, v := range []string{"H0", "H1", "H2", "H3"} {
		if s.hooks != v {
			add(c15Ev{Op: "hooks", V: v})
		}
	}
	for _, v := range []string{"P0", "P1"} {
		if s.apps != v {
			add(c15Ev{Op: "apps", V: v})
		}
	}
	add(c15Ev{Op: "restart"})
	add(c15Ev{Op: "tick"})
	edits := []string{"ins-top", "app-end", "del-hook", "flush-A", "del-rule-A", "junk-A", "swap-A", "wipe", "stale", "docker"}
	for _, x := range edits {
		if s.nForeign >= 3 && (x == "ins-top" || x == "app-end") {
			continue
		}
		add(c15Ev{Op: "outside", V: x, Inv: true})
		if s.cfg.NoInv {
			add(c15Ev{Op: "outside", V: x})
		}
	}
	if s.cfg.NoInv {
		add(c15Ev{Op: "invalidate"})
	}
	if s.consistent() {
		add(c15Ev{Op: "apply"})
		var singles []c15Fault
		for n := 1; n <= 2; n++ {
			for _, m := range []string{"read", "pipe", "start", "close"} {
				singles = append(singles, c15Fault{Kind: "save", N: n, Mode: m})
			}
			singles = append(singles, c15Fault{Kind: "restore", N: n, Mode: "fail"})
		}
		if s.cfg.MaxFaults >= 1 {
			for _, f := range singles {
				add(c15Ev{Op: "apply", Faults: []c15Fault{f}})
			}
		}
		if s.cfg.MaxFaults >= 2 {
			for i, f := range singles {
				for _, g := range singles[i+1:] {
					if f.Kind == g.Kind && f.N == g.N {
						continue
					}
					add(c15Ev{Op: "apply", Faults: []c15Fault{f, g}})
				}
			}
		}
		for _, x := range []string{"ins-top", "del-hook", "flush-A", "junk-A", "wipe", "stale"} {
			add(c15Ev{Op: "apply", Race: x})
			if s.cfg.MaxFaults >= 1 {
				add(c15Ev{Op: "apply", Race: x, Faults: []c15Fault{{Kind: "restore", N: 1, Mode: "fail"}}})
			}
		}
	}
	return evs
}

// ---- key ---------------------------------------------------------------------------------------------------------------------

func c15Hashes(m map[string][]string) string {
	var names []string
	for n := range m {
		names = append(names, n)
	}
	sort.Strings(names)
	var b strings.Builder
	for _, n := range names {
		b.WriteString(n + "=" + strings.Join(m[n], ",") + ";")
	}
	return b.String()
}

func c15SetStr(x set.Set[string]) string {
	var l []string
	for v := range x.All() {
		l = append(l, v)
	}
	sort.Strings(l)
	return strings.Join(l, ",")
}

func (s *c15State) computeKey() string {
	t := s.table
	var b strings.Builder
	b.WriteString("K:" + c15Show(s.mock.Chains))
	b.WriteString("|F:" + c15Show(s.foreign))
	var cs []string
	for n, v := range s.chains {
		cs = append(cs, n+"="+v)
	}
	sort.Strings(cs)
	b.WriteString("|W:" + strings.Join(cs, ",") + "/" + s.hooks + "/" + s.apps)
	b.WriteString(fmt.Sprintf("|drift:%v|nf:%d", s.drift, s.nForeign))
	// Felix's view
	var rc []string
	for n, c := range t.chainRefCounts {
		rc = append(rc, fmt.Sprintf("%s:%d", n, c))
	}
	sort.Strings(rc)
	b.WriteString("|rc:" + strings.Join(rc, ","))
	var dn []string
	for n, c := range t.chainNameToChain {
		dn = append(dn, fmt.Sprintf("%s=%s/%v", n, strings.Join(NewIptablesRenderer("").RuleHashes(c, &environment.Features{}), ","), c.ForceProgramming))
	}
	sort.Strings(dn)
	b.WriteString("|def:" + strings.Join(dn, ";"))
	var ins []string
	for n, r := range t.chainToInsertedRules {
		if len(r) > 0 {
			ins = append(ins, n+"="+strings.Join(CalculateRuleHashes(n, r, &environment.Features{}), ","))
		}
	}
	for n, r := range t.chainToAppendedRules {
		if len(r) > 0 {
			ins = append(ins, n+"+="+strings.Join(CalculateRuleHashes(n, r, &environment.Features{}), ","))
		}
	}
	sort.Strings(ins)
	b.WriteString("|ins:" + strings.Join(ins, ";"))
	b.WriteString("|dirty:" + c15SetStr(t.dirtyChains) + "/" + c15SetStr(t.dirtyInsertAppend))
	b.WriteString(fmt.Sprintf("|sync:%v", t.inSyncWithDataPlane))
	b.WriteString("|dph:" + c15Hashes(t.chainToDataplaneHashes))
	b.WriteString("|full:" + c15Hashes(t.chainToFullRules))
	now := s.mock.Now()
	b.WriteString(fmt.Sprintf("|refreshDue:%v", now.Sub(t.lastReadTime) > t.refreshInterval))
	if s.cfg.PostWrite {
		b.WriteString(fmt.Sprintf("|pw:%v/%v", t.postWriteInterval, now.Sub(t.lastWriteTime)))
	}
	return b.String()
}

// ---- check in every state ----------------------------------------------------------------------------------------------------

func c15Check(s *c15State, hist []c15Ev) []hbfs.Fail {
	if len(hist) == 0 || !s.consistent() {
		return s.bad
	}
	// Probe A: Felix's own bookkeeping, no forced re-read, no faults. Only meaningful when nobody
	// changed the table behind its back.
	if !s.drift {
		s.apply(nil, "", "probe-plain")
		s.apply(nil, "", "probe-plain-again")
	}
	// Probe B: from ANY reachable state, one forced re-read + fault-free Apply must produce exactly
	// the desired Felix state and leave the rest alone; a second Apply must then be a no-op.
	s.table.InvalidateDataplaneCache("probe")
	s.apply(nil, "", "probe-reread")
	if s.drift {
		s.fail("harness:drift-after-reread", "harness bookkeeping: drift still set after a forced re-read (saves=%d)", s.nSave)
	}
	before := c15Show(s.mock.Chains)
	s.table.InvalidateDataplaneCache("probe")
	s.apply(nil, "", "probe-reread-again")
	if s.restoresOK > 0 || c15Show(s.mock.Chains) != before {
		s.fail("probe:not-a-fixpoint", "a second Apply after convergence wrote to the table again (restores=%d)", s.restoresOK)
	}
	return s.bad
}

func c15PanicKey(val string, hist []c15Ev) string {
	switch {
	case strings.Contains(val, "giving up after retries"):
		return "C15:apply-gave-up-after-retries"
	case strings.Contains(val, "command failed after retries"):
		return "C15:save-gave-up-after-retries"
	}
	first := strings.SplitN(val, "\n", 2)[0]
	first = regexp.MustCompile(`0x[0-9a-f]+`).ReplaceAllString(first, "0x?")
	if len(first) > 100 {
		first = first[:100]
	}
	return "C15:panic:" + first
}

func c15Spec(cfg c15Cfg, depth int, tree bool) *hbfs.Spec[*c15State, c15Ev] {
	mode := "graph"
	if tree {
		mode = "tree"
	}
	name := fmt.Sprintf("iptables-%s-%s-%s-f%d-d%d", mode, cfg.Mode, cfg.InsertMode, cfg.MaxFaults, depth)
	if cfg.PostWrite {
		name += "-pw"
	}
	if cfg.NoInv {
		name += "-noinv"
	}
	sp := &hbfs.Spec[*c15State, c15Ev]{
		Name:       name,
		New:        func() *c15State { return c15New(cfg) },
		Apply:      c15Apply,
		Enabled:    c15Enabled,
		Check:      c15Check,
		Key:        func(s *c15State) string { return s.key },
		Nontrivial: func(s *c15State) bool { return s.evNontriv },
		Outcome:    func(s *c15State) string { return s.evOut },
		PanicKey:   c15PanicKey,
		MaxDepth:   depth,
		Workers:    6,
	}
	if tree {
		sp.Key = nil
	}
	return sp
}

func c15CfgFromName(n string) c15Cfg {
	cfg := c15Cfg{Mode: "legacy", InsertMode: "insert", MaxFaults: 1}
	if strings.Contains(n, "-nft-") {
		cfg.Mode = "nft"
	}
	if strings.Contains(n, "-append-") {
		cfg.InsertMode = "append"
	}
	if strings.Contains(n, "-f2-") {
		cfg.MaxFaults = 2
	}
	cfg.PostWrite = strings.HasSuffix(n, "-pw") || strings.Contains(n, "-pw-")
	cfg.NoInv = strings.HasSuffix(n, "-noinv")
	return cfg
}

type c15Discard struct{}

func (c15Discard) Write(p []byte) (int, error) { return len(p), nil }

func TestVerif_C15(t *testing.T) {
	logrus.SetLevel(logrus.PanicLevel)
	logrus.SetOutput(c15Discard{})
	vk.Run(t, "C15", func(c *vk.Ctx) {
		c.Rule("states = (kernel filter table of the repo's iptables-save/restore model, rules other software put there, desired Felix chains/hooks, Table's internal view: refcounts, dirty sets, cached hashes/full rules, in-sync flag, refresh-due) over chains cali-A (5 contents incl. empty and a jump to cali-B), cali-B (3 incl. empty, two of them also with the ForceProgramming flag), FORWARD hooks (4 variants) + always-appended rules (2), 5 starting kernels (empty / foreign rules+chain / plus leftovers of an earlier Felix / each already synced); " +
			"transitions = one API call, Apply (optionally with the 1st/2nd iptables-save failing in 4 ways or the 1st/2nd iptables-restore failing, and/or another program editing the table between Felix's read and write), an edit by another program (10 kinds), clock past the refresh interval, restart; " +
			"every state is followed by fault-free probe Applies (plain and with forced re-read); non-trivial = Apply that wrote, was faulted or raced")
		c.Assume("the kernel/iptables-restore behaves like felix/iptables/testutils.MockDataplane, extended in the harness with atomic rejection (roll back + error) of transactions that the real kernel refuses: delete/replace of a missing rule, insert into a missing chain, -X of a non-empty chain, any jump left pointing at a missing chain")
		c.Assume("the caller keeps the desired state consistent at Apply time (every chain referenced from a hook is defined), as the Table API requires")
		c.Assume("rule hashes are taken from Felix's own hash function; the check is about synchronisation, not about hash quality")
		if rf := c.ReplayFile(); rf != "" {
			var d struct {
				Spec    string
				History []string
			}
			if err := vk.LoadReplay(rf, &d); err != nil {
				c.ToolError(err.Error())
				return
			}
			if strings.HasPrefix(d.Spec, "nftables-") {
				C15NftReplay(c, d.Spec, d.History)
				c.Add("states", 1)
				c.Add("transitions", int64(len(d.History)))
				return
			}
			cfg := c15CfgFromName(d.Spec)
			cfg.MaxFaults = 2
			cfg.NoInv = true
			// (replay every prefix on a fresh instance, as the explorer does: Check's probes drive the
			// instance further, so it must not run between the steps of one instance)
			var fails []hbfs.Fail
			var evs []c15Ev
			for _, h := range d.History {
				var e c15Ev
				if err := json.Unmarshal([]byte(h), &e); err != nil {
					c.ToolError("bad event in replay file: " + err.Error())
					return
				}
				evs = append(evs, e)
			}
			for i := 1; i <= len(evs); i++ {
				if err := vk.Catch(func() error {
					s := c15New(cfg)
					for _, e := range evs[:i] {
						c15Apply(s, e)
					}
					fails = append(fails, c15Check(s, evs[:i])...)
					return nil
				}); err != nil {
					fails = append(fails, hbfs.Fail{Key: c15PanicKey(err.Error(), nil), Msg: err.Error()})
					break
				}
			}
			for _, f := range fails {
				c.Violation(f.Key, map[string]any{"spec": d.Spec, "history": d.History, "msg": f.Msg})
			}
			c.Add("states", 1)
			c.Add("transitions", int64(len(d.History)))
			return
		}
		if err := vk.Catch(func() error {
			s := c15New(c15Cfg{Mode: "legacy", InsertMode: "insert", MaxFaults: 1})
			h := []c15Ev{{Op: "init", Init: "foreign+stale+synced"}, {Op: "chain", Chain: "cali-A", V: "A3"}, {Op: "outside", V: "ins-top", Inv: true},
				{Op: "apply", Faults: []c15Fault{{Kind: "restore", N: 1, Mode: "fail"}}}}
			var hs []string
			for _, e := range h {
				c15Apply(s, e)
				hs = append(hs, e.String())
			}
			c.Sample(map[string]any{"history": hs, "kernel_after": c15Show(s.mock.Chains), "outcome": s.out, "commands": s.mock.CmdNames})
			for _, f := range s.bad {
				c.Violation(f.Key, map[string]any{"where": "sample history", "history": hs, "msg": f.Msg})
			}
			return nil
		}); err != nil {
			c.Violation(c15PanicKey(err.Error(), nil), map[string]any{"where": "sample history", "panic": err.Error()})
		}
		leg := c15Cfg{Mode: "legacy", InsertMode: "insert", MaxFaults: 1}
		if c.Quick() {
			hbfs.Explore(c, c15Spec(leg, 4, false))
			app := leg
			app.InsertMode = "append"
			hbfs.Explore(c, c15Spec(app, 3, false))
			nft := leg
			nft.Mode = "nft"
			hbfs.Explore(c, c15Spec(nft, 3, false))
		} else {
			// small explorations first, so that a deadline hit on a loaded machine cuts the big ones
			hbfs.Explore(c, c15Spec(leg, 3, true))
			two := leg
			two.MaxFaults = 2
			hbfs.Explore(c, c15Spec(two, 4, false))
			pw := leg
			pw.PostWrite = true
			hbfs.Explore(c, c15Spec(pw, 4, false))
		}
		if C15NftExplore != nil {
			C15NftExplore(c)
		} else {
			c.ToolError("nftables half of C15 not linked in")
		}
		if c.Thorough() {
			for _, mode := range []string{"legacy", "nft"} {
				for _, im := range []string{"insert", "append"} {
					cfg := c15Cfg{Mode: mode, InsertMode: im, MaxFaults: 1, NoInv: true}
					depth := 5
					if mode == "nft" {
						depth = 4 // same Table code, differs only in whole-chain rewrites; keeps the tier inside its budget on a loaded machine
					}
					hbfs.Explore(c, c15Spec(cfg, depth, false))
				}
			}
		}
		c.Extra("applies_incl_probes", map[string]int64{"kernel_rejected_transactions": c15Rejected.Load(), "raced_with_other_program": c15Raced.Load(),
			"with_injected_faults": c15FaultedApplies.Load(), "that_wrote_to_the_table": c15WritingApplies.Load()})
	})
}

package iptables_test

// C15, second part — the nftables backend (felix/nftables.NftablesTable) against sigs.k8s.io/knftables'
// transactional Fake (atomic transactions, reference checking). In nftables mode Felix owns its
// whole table, so "other software's rules" live in other tables which the knftables client cannot
// even address; what is checked here is convergence of Felix's table from any starting/edited
// state and under failed transactions / failed reads, absence of stale chains, and that chains
// whose contents did not change are not rewritten (rule handles stay the same).
//
// External test package because it needs both felix/iptables (where TestVerif_C15 lives) and
// felix/nftables; the nftables internals for the state key come from a helper that the harness
// overlays into felix/nftables (nftkey.go.in).

import (
	"context"
	"encoding/json"
	"errors"
	"fmt"
	"regexp"
	"sort"
	"strings"
	"time"

	"sigs.k8s.io/knftables"

	"github.com/projectcalico/calico/felix/environment"
	"github.com/projectcalico/calico/felix/generictables"
	"github.com/projectcalico/calico/felix/iptables"
	"github.com/projectcalico/calico/felix/nftables"
	"github.com/projectcalico/calico/lib/logrusr"
	"github.com/projectcalico/calico/zzverif/hbfs"
	"github.com/projectcalico/calico/zzverif/vk"
)

func init() {
	iptables.C15NftExplore = nftExplore
	iptables.C15NftReplay = nftReplay
}

type nftFeatures struct{}

func (nftFeatures) GetFeatures() *environment.Features { return &environment.Features{} }
func (nftFeatures) RefreshFeatures()                   {}
func (nftFeatures) FeatureGate(string) string          { return "" }

type nftFault struct {
	Call string `json:"call"` // Run | ListAll | ListRules
	N    int    `json:"n"`
}

type nftEv struct {
	Op     string     `json:"op"`
	Chain  string     `json:"chain,omitempty"`
	V      string     `json:"v,omitempty"`
	Inv    bool       `json:"inv,omitempty"`
	Faults []nftFault `json:"faults,omitempty"`
	Init   string     `json:"init,omitempty"`
}

func (e nftEv) String() string { return vk.JSON(e) }

type nftCfg struct {
	MaxFaults int
	NoInv     bool
}

func nftRule(kind string) generictables.Rule {
	switch kind {
	case "drop-tcp":
		return generictables.Rule{Match: nftables.Match().Protocol("tcp"), Action: nftables.DropAction{}}
	case "acc-udp":
		return generictables.Rule{Match: nftables.Match().Protocol("udp"), Action: nftables.AcceptAction{}}
	case "acc":
		return generictables.Rule{Match: nftables.Match(), Action: nftables.AcceptAction{}}
	case "ret":
		return generictables.Rule{Match: nftables.Match().Protocol("icmp"), Action: nftables.ReturnAction{}}
	case "jB":
		return generictables.Rule{Match: nftables.Match(), Action: nftables.JumpAction{Target: "cali-B"}}
	case "jA":
		return generictables.Rule{Match: nftables.Match(), Action: nftables.JumpAction{Target: "cali-A"}}
	}
	panic("bad rule kind " + kind)
}

var nftVariants = map[string][]string{
	"A0": {}, "B0": {},
	"A1": {"drop-tcp"}, "A2": {"jB", "drop-tcp"}, "A3": {"drop-tcp", "acc-udp", "ret"}, "A4": {"acc-udp", "drop-tcp"},
	"B1": {"acc"}, "B2": {"drop-tcp", "acc"},
	"H0": {}, "H1": {"jA"}, "H2": {"jA", "jB"}, "H3": {"jB"},
	"P0": {}, "P1": {"ret"},
}

func nftRules(v string) []generictables.Rule {
	out := []generictables.Rule{}
	for _, k := range nftVariants[v] {
		out = append(out, nftRule(k))
	}
	return out
}

const nftHook = "filter-FORWARD"

var nftBaseChains = []string{"filter-INPUT", "filter-FORWARD", "filter-OUTPUT", "nat-PREROUTING", "nat-INPUT", "nat-OUTPUT", "nat-POSTROUTING",
	"mangle-PREROUTING", "mangle-INPUT", "mangle-FORWARD", "mangle-OUTPUT", "mangle-POSTROUTING", "raw-PREROUTING", "raw-OUTPUT"}

type nftState struct {
	cfg   nftCfg
	fake  *knftables.Fake
	table *nftables.NftablesTable
	now   time.Time

	chains map[string]string
	hooks  string
	apps   string
	drift  bool

	counts    map[string]int
	faults    []nftFault
	fired     int
	runsOK    int
	listAllOK bool
	loaded    bool
	sleeps    int

	key, out  string
	nontriv   bool
	evOut     string
	evNontriv bool
	bad       []hbfs.Fail
	badSeen   map[string]bool
}

func (s *nftState) fail(key, f string, a ...any) {
	key = "C15:nft:" + key
	if s.badSeen[key] {
		return
	}
	s.badSeen[key] = true
	s.bad = append(s.bad, hbfs.Fail{Key: key, Msg: fmt.Sprintf(f, a...)})
}

// ---- the knftables client handed to Felix: counts calls, injects failures -------------------------------

type nftClient struct {
	*knftables.Fake
	s *nftState
}

func (c *nftClient) hit(call string) bool {
	c.s.counts[call]++
	for _, f := range c.s.faults {
		if f.Call == call && f.N == c.s.counts[call] {
			c.s.fired++
			return true
		}
	}
	return false
}

func (c *nftClient) Run(ctx context.Context, tx *knftables.Transaction) error {
	if c.hit("Run") {
		return errors.New("injected nft failure")
	}
	err := c.Fake.Run(ctx, tx)
	if err == nil {
		c.s.runsOK++
	}
	return err
}

func (c *nftClient) ListAll(ctx context.Context) (map[string][]string, error) {
	c.s.listAllOK = false
	if c.hit("ListAll") {
		return nil, errors.New("injected nft list failure")
	}
	c.s.listAllOK = true
	return c.Fake.ListAll(ctx)
}

func (c *nftClient) List(ctx context.Context, objectType string) ([]string, error) {
	r, err := c.Fake.List(ctx, objectType)
	if knftables.IsNotFound(err) && c.s.listAllOK {
		c.s.loaded = true // the table does not exist, and Felix now knows
	}
	return r, err
}

func (c *nftClient) ListRules(ctx context.Context, chain string) ([]*knftables.Rule, error) {
	if c.hit("ListRules") {
		return nil, errors.New("injected nft list failure")
	}
	r, err := c.Fake.ListRules(ctx, chain)
	if (err == nil || knftables.IsNotFound(err)) && c.s.listAllOK {
		c.s.loaded = true // Felix has now seen the table as it is
	}
	return r, err
}

func nftNew(cfg nftCfg) *nftState {
	s := &nftState{cfg: cfg, chains: map[string]string{}, hooks: "H0", apps: "P0", counts: map[string]int{}, badSeen: map[string]bool{},
		now: time.Unix(1_700_000_000, 0)}
	s.fake = knftables.NewFake(knftables.IPv4Family, "calico")
	s.newTable()
	return s
}

func (s *nftState) newTable() {
	s.table = nftables.NewTable("calico", 4, "cali:", nftFeatures{}, nftables.TableOptions{
		NewDataplane: func(knftables.Family, string, ...knftables.Option) (knftables.Interface, error) {
			return &nftClient{Fake: s.fake, s: s}, nil
		},
		RefreshInterval:        c15nftRefresh,
		SleepOverride:          func(d time.Duration) { s.sleeps++; s.now = s.now.Add(d) },
		NowOverride:            func() time.Time { return s.now },
		ListInterfacesOverride: func() ([]string, error) { return nil, nil },
		OpRecorder:             logrusr.NewSummarizer("c15nft"),
	}, true)
}

const c15nftRefresh = 60 * time.Second

// ---- kernel side helpers ---------------------------------------------------------------------------------------

func (s *nftState) kchains() map[string]*knftables.FakeChain {
	if s.fake.Table == nil {
		return nil
	}
	return s.fake.Table.Chains
}

func nftRuleStr(r *knftables.Rule) string {
	c := ""
	if r.Comment != nil {
		c = " #" + *r.Comment
	}
	return r.Rule + c
}

func (s *nftState) dump(withHandles bool) string {
	ch := s.kchains()
	if ch == nil {
		return "<no table>"
	}
	var names []string
	for n := range ch {
		names = append(names, n)
	}
	sort.Strings(names)
	var b strings.Builder
	for _, n := range names {
		if len(ch[n].Rules) == 0 && strings.Contains(n, "-") && !strings.HasPrefix(n, "cali") && n != nftHook {
			// empty base chains: listed compactly
			b.WriteString(n + " ")
			continue
		}
		b.WriteString(n + "[")
		for _, r := range ch[n].Rules {
			b.WriteString(nftRuleStr(r))
			if withHandles && r.Handle != nil {
				b.WriteString(fmt.Sprintf("@%d", *r.Handle))
			}
			b.WriteString(" ; ")
		}
		b.WriteString("] ")
	}
	return b.String()
}

func (s *nftState) outside(what string) {
	tx := s.fake.NewTransaction()
	ch := s.kchains()
	has := func(n string) bool { _, ok := ch[n]; return ch != nil && ok }
	switch what {
	case "flush-A":
		if has("cali-A") {
			tx.Flush(&knftables.Chain{Name: "cali-A"})
		}
	case "del-rule-A":
		if has("cali-A") && len(ch["cali-A"].Rules) > 0 {
			tx.Delete(&knftables.Rule{Chain: "cali-A", Handle: ch["cali-A"].Rules[0].Handle})
		}
	case "junk-A":
		if has("cali-A") {
			tx.Insert(&knftables.Rule{Chain: "cali-A", Rule: "ip saddr 7.7.7.7 accept"})
		}
	case "rotate-A": // first rule moves to the end: same rules, other order
		if has("cali-A") && len(ch["cali-A"].Rules) >= 2 {
			r := ch["cali-A"].Rules[0]
			tx.Delete(&knftables.Rule{Chain: "cali-A", Handle: r.Handle})
			tx.Add(&knftables.Rule{Chain: "cali-A", Rule: r.Rule, Comment: r.Comment})
		}
	case "flush-hook":
		if has(nftHook) {
			tx.Flush(&knftables.Chain{Name: nftHook})
		}
	case "stale": // leftovers: a chain nobody wants, with a hashed rule, and a chain with a foreign name
		if ch != nil && !has("cali-old") {
			tx.Add(&knftables.Chain{Name: "cali-old"})
			tx.Add(&knftables.Rule{Chain: "cali-old", Rule: "counter drop", Comment: knftables.PtrTo("cali:OLDoldOLDoldOLDo;")})
			tx.Add(&knftables.Chain{Name: "somebody-else"})
		}
	case "wipe":
		if ch != nil {
			tx.Delete(&knftables.Table{})
		}
	default:
		panic("bad outside edit " + what)
	}
	if tx.NumOperations() > 0 {
		if err := s.fake.Run(context.Background(), tx); err != nil {
			panic("harness: outside edit " + what + " failed: " + err.Error())
		}
	}
}

// ---- expectation ------------------------------------------------------------------------------------------------------

func (s *nftState) defined(c string) bool { _, ok := s.chains[c]; return ok }

func (s *nftState) reachable() map[string]bool {
	seen := map[string]bool{}
	var visit func(kinds []string)
	visit = func(kinds []string) {
		for _, k := range kinds {
			t := map[string]string{"jA": "cali-A", "jB": "cali-B"}[k]
			if t == "" || seen[t] {
				continue
			}
			seen[t] = true
			if v, ok := s.chains[t]; ok {
				visit(nftVariants[v])
			}
		}
	}
	visit(nftVariants[s.hooks])
	visit(nftVariants[s.apps])
	return seen
}

func (s *nftState) consistent() bool {
	for c := range s.reachable() {
		if !s.defined(c) {
			return false
		}
	}
	return true
}

func nftRender(chain string, rules []generictables.Rule, hashName string) []string {
	r := nftables.NewNFTRenderer("cali:", 4)
	f := &environment.Features{}
	hashes := nftables.CalculateRuleHashes(hashName, rules, f)
	out := []string{}
	for i := range rules {
		out = append(out, nftRuleStr(r.Render(chain, hashes[i], rules[i], f)))
	}
	return out
}

func (s *nftState) expected() map[string][]string {
	exp := map[string][]string{}
	for _, b := range nftBaseChains {
		exp[b] = []string{}
	}
	exp[nftHook] = append(nftRender(nftHook, nftRules(s.hooks), nftHook), nftRender(nftHook, nftRules(s.apps), nftHook+"*appends*")...)
	for c := range s.reachable() {
		if v, ok := s.chains[c]; ok {
			exp[c] = nftRender(c, nftRules(v), c)
		}
	}
	return exp
}

func (s *nftState) chainRules(n string) ([]string, []int, bool) {
	ch := s.kchains()
	if ch == nil || ch[n] == nil {
		return nil, nil, false
	}
	var rs []string
	var hs []int
	for _, r := range ch[n].Rules {
		rs = append(rs, nftRuleStr(r))
		if r.Handle != nil {
			hs = append(hs, *r.Handle)
		}
	}
	return rs, hs, true
}

func (s *nftState) checkExact(where string) {
	exp := s.expected()
	for n, want := range exp {
		got, _, ok := s.chainRules(n)
		if !ok {
			s.fail(where+":chain-missing", "chain %s missing; table: %s", n, s.dump(false))
		} else if strings.Join(got, "\n") != strings.Join(want, "\n") {
			s.fail(where+":chain-content-wrong", "chain %s is %q want %q", n, got, want)
		}
	}
	for n := range s.kchains() {
		if _, ok := exp[n]; !ok {
			s.fail(where+":stale-chain", "chain %s should not exist in Felix's table; table: %s", n, s.dump(false))
		}
	}
}

// ---- Apply ---------------------------------------------------------------------------------------------------------------------

func (s *nftState) apply(faults []nftFault, where string) {
	s.counts = map[string]int{}
	s.faults, s.fired, s.runsOK, s.loaded, s.listAllOK = faults, 0, 0, false, false
	exp := s.expected()
	type snap struct {
		rules   string
		handles string
	}
	before := map[string]snap{}
	for n := range exp {
		if r, h, ok := s.chainRules(n); ok {
			before[n] = snap{strings.Join(r, "\n"), fmt.Sprint(h)}
		}
	}
	wasDrift := s.drift
	sl := s.sleeps
	s.table.Apply()
	s.faults = nil
	if s.loaded {
		s.drift = false
	}
	if !s.drift {
		s.checkExact(where)
		// (after 5 failed transactions in a row Felix deliberately rebuilds its whole table)
		if !wasDrift && s.fired < 5 {
			for n, want := range exp {
				b, ok := before[n]
				if !ok || b.rules != strings.Join(want, "\n") || len(want) == 0 {
					continue
				}
				if _, h, ok := s.chainRules(n); ok && fmt.Sprint(h) != b.handles {
					s.fail(where+":unchanged-chain-rewritten", "chain %s already held exactly the desired rules but its rules were re-created (handles %s -> %v)", n, b.handles, h)
				}
			}
		}
	}
	s.out = fmt.Sprintf("apply faults=%d fired=%d runsOK=%d loaded=%v retries=%d", len(faults), s.fired, s.runsOK, s.loaded, s.sleeps-sl)
	s.nontriv = s.runsOK > 0 || s.fired > 0
}

func (s *nftState) sendDesired() {
	var names []string
	for n := range s.chains {
		names = append(names, n)
	}
	sort.Strings(names)
	for _, n := range names {
		s.table.UpdateChain(&generictables.Chain{Name: n, Rules: nftRules(s.chains[n])})
	}
	s.table.InsertOrAppendRules(nftHook, nftRules(s.hooks))
	s.table.AppendRules(nftHook, nftRules(s.apps))
}

func nftApply(s *nftState, e nftEv) {
	s.nontriv = false
	s.out = e.Op
	switch e.Op {
	case "init":
		if strings.Contains(e.Init, "synced") {
			s.chains["cali-A"] = "A2"
			s.chains["cali-B"] = "B1"
			s.hooks = "H1"
			s.sendDesired()
			s.apply(nil, "init")
		}
		if strings.Contains(e.Init, "stale") {
			if s.kchains() == nil {
				tx := s.fake.NewTransaction()
				tx.Add(&knftables.Table{})
				_ = s.fake.Run(context.Background(), tx)
			}
			s.outside("stale")
			s.drift = true
			s.table.InvalidateDataplaneCache("c15")
		}
	case "chain":
		s.chains[e.Chain] = e.V
		s.table.UpdateChain(&generictables.Chain{Name: e.Chain, Rules: nftRules(e.V)})
	case "rmchain":
		delete(s.chains, e.Chain)
		s.table.RemoveChainByName(e.Chain)
	case "hooks":
		s.hooks = e.V
		s.table.InsertOrAppendRules(nftHook, nftRules(e.V))
	case "apps":
		s.apps = e.V
		s.table.AppendRules(nftHook, nftRules(e.V))
	case "apply":
		s.apply(e.Faults, "apply")
	case "outside":
		s.outside(e.V)
		s.drift = true
		if e.Inv {
			s.table.InvalidateDataplaneCache("c15")
		}
	case "invalidate":
		s.table.InvalidateDataplaneCache("c15")
	case "tick":
		s.now = s.now.Add(c15nftRefresh + time.Second)
	case "restart":
		s.newTable()
		s.sendDesired()
		// the new process has no picture of the table until its first successful read
		s.drift = true
	default:
		panic("bad op " + e.Op)
	}
	s.key = s.computeKey()
	s.evOut, s.evNontriv = s.out, s.nontriv
}

func nftEnabled(s *nftState, depth int) []nftEv {
	if depth == 0 {
		return []nftEv{{Op: "init", Init: "empty"}, {Op: "init", Init: "stale"}, {Op: "init", Init: "synced"}, {Op: "init", Init: "synced+stale"}}
	}
	var evs []nftEv
	add := func(e nftEv) { evs = append(evs, e) }
	for _, v := range []string{"A0", "A1", "A2", "A3", "A4"} {
		add(nftEv{Op: "chain", Chain: "cali-A", V: v})
	}
	for _, v := range []string{"B0", "B1", "B2"} {
		add(nftEv{Op: "chain", Chain: "cali-B", V: v})
	}
	for _, c := range []string{"cali-A", "cali-B"} {
		if s.defined(c) {
			add(nftEv{Op: "rmchain", Chain: c})
		}
	}
	for _, v := range []string{"H0", "H1", "H2", "H3"} {
		if s.hooks != v {
			add(nftEv{Op: "hooks", V: v})
		}
	}
	for _, v := range []string{"P0", "P1"} {
		if s.apps != v {
			add(nftEv{Op: "apps", V: v})
		}
	}
	add(nftEv{Op: "restart"})
	add(nftEv{Op: "tick"})
	for _, x := range []string{"flush-A", "del-rule-A", "junk-A", "rotate-A", "flush-hook", "stale", "wipe"} {
		add(nftEv{Op: "outside", V: x, Inv: true})
		if s.cfg.NoInv {
			add(nftEv{Op: "outside", V: x})
		}
	}
	if s.cfg.NoInv {
		add(nftEv{Op: "invalidate"})
	}
	if s.consistent() {
		add(nftEv{Op: "apply"})
		singles := []nftFault{{"Run", 1}, {"Run", 2}, {"Run", 3}, {"ListAll", 1}, {"ListAll", 2}, {"ListRules", 1}, {"ListRules", 2}}
		if s.cfg.MaxFaults >= 1 {
			for _, f := range singles {
				add(nftEv{Op: "apply", Faults: []nftFault{f}})
			}
		}
		if s.cfg.MaxFaults >= 2 {
			for i, f := range singles {
				for _, g := range singles[i+1:] {
					add(nftEv{Op: "apply", Faults: []nftFault{f, g}})
				}
			}
		}
		if s.cfg.MaxFaults >= 1 {
			// enough consecutive failed transactions to make Felix rebuild its table from scratch
			add(nftEv{Op: "apply", Faults: []nftFault{{"Run", 1}, {"Run", 2}, {"Run", 3}, {"Run", 4}, {"Run", 5}, {"Run", 6}}})
		}
	}
	return evs
}

func (s *nftState) computeKey() string {
	var cs []string
	for n, v := range s.chains {
		cs = append(cs, n+"="+v)
	}
	sort.Strings(cs)
	return "K:" + s.dump(false) + "|W:" + strings.Join(cs, ",") + "/" + s.hooks + "/" + s.apps + fmt.Sprintf("|drift:%v|", s.drift) + nftables.VerifState(s.table)
}

func nftCheck(s *nftState, hist []nftEv) []hbfs.Fail {
	if len(hist) == 0 || !s.consistent() {
		return s.bad
	}
	if !s.drift {
		s.apply(nil, "probe-plain")
		s.apply(nil, "probe-plain-again")
	}
	s.table.InvalidateDataplaneCache("probe")
	s.apply(nil, "probe-reread")
	if s.drift {
		s.fail("harness:drift-after-reread", "harness bookkeeping: drift still set after a forced, fault-free re-read")
	}
	before := s.dump(true)
	s.table.InvalidateDataplaneCache("probe")
	s.apply(nil, "probe-reread-again")
	if s.runsOK > 0 || s.dump(true) != before {
		s.fail("probe:not-a-fixpoint", "a second Apply after convergence wrote to the table again (transactions=%d)", s.runsOK)
	}
	return s.bad
}

func nftPanicKey(val string, hist []nftEv) string {
	switch {
	case strings.Contains(val, "giving up after retries"):
		return "C15:nft:apply-gave-up-after-retries"
	case strings.Contains(val, "command failed after retries"):
		return "C15:nft:read-gave-up-after-retries"
	}
	first := strings.SplitN(val, "\n", 2)[0]
	first = regexp.MustCompile(`0x[0-9a-f]+`).ReplaceAllString(first, "0x?")
	if len(first) > 100 {
		first = first[:100]
	}
	return "C15:nft:panic:" + first
}

func nftSpec(cfg nftCfg, depth int) *hbfs.Spec[*nftState, nftEv] {
	name := fmt.Sprintf("nftables-graph-f%d-d%d", cfg.MaxFaults, depth)
	if cfg.NoInv {
		name += "-noinv"
	}
	return &hbfs.Spec[*nftState, nftEv]{
		Name:       name,
		New:        func() *nftState { return nftNew(cfg) },
		Apply:      nftApply,
		Enabled:    nftEnabled,
		Check:      nftCheck,
		Key:        func(s *nftState) string { return s.key },
		Nontrivial: func(s *nftState) bool { return s.evNontriv },
		Outcome:    func(s *nftState) string { return "nft " + s.evOut },
		PanicKey:   nftPanicKey,
		MaxDepth:   depth,
		Workers:    6,
	}
}

func nftExplore(c *vk.Ctx) {
	if c.Quick() {
		hbfs.Explore(c, nftSpec(nftCfg{MaxFaults: 1}, 3))
	} else {
		hbfs.Explore(c, nftSpec(nftCfg{MaxFaults: 1, NoInv: true}, 4))
		hbfs.Explore(c, nftSpec(nftCfg{MaxFaults: 2}, 3))
	}
}

func nftReplay(c *vk.Ctx, spec string, hist []string) {
	cfg := nftCfg{MaxFaults: 2, NoInv: true}
	var fails []hbfs.Fail
	var evs []nftEv
	for _, h := range hist {
		var e nftEv
		if err := json.Unmarshal([]byte(h), &e); err != nil {
			c.ToolError("bad event in replay file: " + err.Error())
			return
		}
		evs = append(evs, e)
	}
	for i := 1; i <= len(evs); i++ {
		if err := vk.Catch(func() error {
			s := nftNew(cfg)
			for _, e := range evs[:i] {
				nftApply(s, e)
			}
			fails = append(fails, nftCheck(s, evs[:i])...)
			return nil
		}); err != nil {
			fails = append(fails, hbfs.Fail{Key: nftPanicKey(err.Error(), nil), Msg: err.Error()})
			break
		}
	}
	for _, f := range fails {
		c.Violation(f.Key, map[string]any{"spec": spec, "history": hist, "msg": f.Msg})
	}
}

package hipam

// C19 — IPAM never gives one address to two live allocations.
// Shape S: schedule DFS (engine sched) over the REAL ipamClient on the in-memory CAS datastore
// (engine casstore). Every datastore call of every logical thread is a scheduling point; at every
// write the scheduler may also inject a genuine CAS conflict, or kill the client before/after the
// write. The oracle runs in every reachable datastore state.

import (
	"fmt"
	"sort"
	"testing"
	"time"

	"github.com/projectcalico/calico/libcalico-go/lib/backend/model"
	"github.com/projectcalico/calico/zzverif/sched"
	"github.com/projectcalico/calico/zzverif/vclock"
	"github.com/projectcalico/calico/zzverif/vk"
)

// tiny world: one /29 pool of two /30 blocks, hosts n1 and n2.
func c19Cfg(strict bool) worldCfg {
	cfg := worldCfg{
		Pools: []vPool{{Name: "p1", CIDR: "10.0.0.0/29", BlockSize: 30}},
		Nodes: map[string]map[string]string{"n1": nil, "n2": nil},
	}
	if strict {
		cfg.Config = &model.IPAMConfig{StrictAffinity: true, AutoAllocateBlocks: true}
	}
	return cfg
}

func c19Scenarios(thorough bool) []*schedScenario {
	auto := func(host, h string) vOp { return vOp{Kind: "auto", Host: host, Handle: h} }
	scs := []*schedScenario{
		// two clients on the same host race for the same block and its free list
		{Name: "same-host-assign", Cfg: c19Cfg(false), Threads: [][]vOp{{auto("n1", "h1")}, {auto("n1", "h2")}}},
		// an existing block with one free address left: both want it
		{Name: "last-address", Cfg: c19Cfg(true), Setup: []vOp{{Kind: "auto", Host: "n1", Handle: "h0", Num: 3}},
			Threads: [][]vOp{{auto("n1", "h1")}, {auto("n1", "h2")}}},
		// two hosts claim blocks and assign concurrently (claim race, borrowing from the other's block)
		{Name: "two-hosts-assign", Cfg: c19Cfg(false), Threads: [][]vOp{{auto("n1", "h1")}, {auto("n2", "h2")}}},
		// release (naming handle + sequence number) racing an assign that may reuse the address
		{Name: "release-vs-assign", Cfg: c19Cfg(false), Setup: []vOp{{Kind: "auto", Host: "n1", Handle: "h0", Num: 4}},
			Threads: [][]vOp{{{Kind: "release", IP: "@h0.0", Handle: "h0", WithHandle: true, WithSeq: true}}, {auto("n1", "h2")}}},
		// release-by-handle racing a specific-address assign of the very address being released
		{Name: "rbh-vs-assignip", Cfg: c19Cfg(false), Setup: []vOp{auto("n1", "h0")},
			Threads: [][]vOp{{{Kind: "rbh", Handle: "h0"}}, {{Kind: "assignip", Host: "n1", Handle: "h2", IP: "@h0.0"}}}},
		// release-by-handle racing another assignment under the SAME handle (handle counter races)
		{Name: "rbh-vs-assign-same-handle", Cfg: c19Cfg(false), Setup: []vOp{auto("n1", "h0")},
			Threads: [][]vOp{{{Kind: "rbh", Handle: "h0"}}, {auto("n1", "h0")}}},
		// specific-address assign of an address that is taken (and stays taken) racing an auto-assign
		{Name: "assignip-taken-vs-assign", Cfg: c19Cfg(false), Setup: []vOp{auto("n1", "h0")},
			Threads: [][]vOp{{{Kind: "assignip", Host: "n1", Handle: "h2", IP: "@h0.0"}}, {auto("n1", "h3")}}},
		// assign then release by the same client, racing a second client
		{Name: "assign-release-vs-assign", Cfg: c19Cfg(false),
			Threads: [][]vOp{{auto("n1", "h1"), {Kind: "rbh", Handle: "h1"}}, {auto("n1", "h2")}}},
	}
	if thorough {
		scs = append(scs,
			&schedScenario{Name: "three-assign", Cfg: c19Cfg(false), Threads: [][]vOp{{auto("n1", "h1")}, {auto("n1", "h2")}, {auto("n2", "h3")}}},
			&schedScenario{Name: "assign-release-assign", Cfg: c19Cfg(false), Setup: []vOp{{Kind: "auto", Host: "n1", Handle: "h0", Num: 4}},
				Threads: [][]vOp{{{Kind: "rbh", Handle: "h0"}}, {auto("n1", "h2")}, {auto("n2", "h3")}}},
			&schedScenario{Name: "two-releases-one-assign", Cfg: c19Cfg(false), Setup: []vOp{{Kind: "auto", Host: "n1", Handle: "h0", Num: 2}},
				Threads: [][]vOp{{{Kind: "release", IP: "@h0.0", Handle: "h0", WithHandle: true, WithSeq: true}}, {{Kind: "rbh", Handle: "h0"}}, {auto("n1", "h2")}}},
		)
	}
	return scs
}

// resolveRefs replaces "@h0.N" (N-th address set-up allocated to handle h0, in address order) by the
// address; set-up is deterministic so this is computed once per scenario on a scratch world.
func resolveRefs(sc *schedScenario) {
	need := false
	for _, ops := range sc.Threads {
		for _, o := range ops {
			if len(o.IP) > 0 && o.IP[0] == '@' {
				need = true
			}
		}
	}
	if !need {
		return
	}
	w := newIPAMWorld(sc.Cfg)
	w.bind()
	defer func() { vclock.Unbind(); w.close() }()
	byHandle := map[string][]string{}
	for _, op := range sc.Setup {
		r := w.run(w.ctx, op, nil)
		byHandle[op.Handle] = append(byHandle[op.Handle], r.IPs...)
	}
	for h := range byHandle {
		sort.Strings(byHandle[h])
	}
	for ti := range sc.Threads {
		for oi := range sc.Threads[ti] {
			o := &sc.Threads[ti][oi]
			if len(o.IP) > 0 && o.IP[0] == '@' {
				var h string
				var n int
				fmt.Sscanf(o.IP, "@%2s.%d", &h, &n)
				o.IP = byHandle[h][n]
			}
		}
	}
}

type grant struct {
	who    string // "setup#i" or "T<i>#<j>"
	handle string
	ip     string
}

// c19Oracle — what the statement demands, nothing more:
//
//	every state:  stored blocks are structurally sound (no ordinal both free and allocated / twice
//	              free), lie in a pool and do not repeat; every address handed to a caller that
//	              nobody has since asked to release is recorded in its block under that caller's
//	              handle (so it cannot also belong to somebody else); no address is handed to two
//	              callers; a handle never counts FEWER addresses in a block than the block records
//	              for it (an under-count would hide addresses from release-by-handle);
//	quiescence:   handle counts equal block counts exactly — unless a client was killed, in which case
//	              over-counting handles are the accepted crash residue.
func c19Oracle(sw *schedWorld, x *sched.Exec, final bool) []sched.Fail {
	var fails []sched.Fail
	name := "C19"
	bad := func(class, msg string) {
		fails = append(fails, sched.Fail{Key: name + ":" + class, Msg: sw.sc.Name + ": " + msg})
	}
	blocks := sw.blocks()
	seenCIDR := map[string]bool{}
	perHandleBlock := map[string]map[string]int{}
	live := map[string]vAlloc{}
	for _, vb := range blocks {
		if seenCIDR[vb.CIDR] {
			bad("duplicate-block", "block "+vb.CIDR+" stored twice")
		}
		seenCIDR[vb.CIDR] = true
		if sw.blockInPool(vb.CIDR) == nil {
			bad("block-outside-pool", "block "+vb.CIDR+" is not a block of any pool")
		}
		for _, m := range blockStructure(vb.B) {
			bad("block-structure", "block "+vb.CIDR+": "+m)
		}
		for _, a := range blockAllocs(vb.B) {
			if a.Cooling {
				continue
			}
			if _, dup := live[a.IP]; dup {
				bad("address-in-two-blocks", a.IP)
			}
			live[a.IP] = a
			if a.Handle != "" {
				if perHandleBlock[a.Handle] == nil {
					perHandleBlock[a.Handle] = map[string]int{}
				}
				perHandleBlock[a.Handle][a.Block]++
			}
		}
	}
	// which (handle / address) may legitimately have been freed by a release that has started
	releasedHandle := map[string]bool{}
	releasedIP := map[string]string{} // ip -> handle named ("" = any owner)
	for ti, ops := range sw.sc.Threads {
		for oi, op := range ops {
			if !sw.res[ti][oi].Started {
				continue
			}
			switch op.Kind {
			case "rbh":
				releasedHandle[op.Handle] = true
			case "release":
				h := ""
				if op.WithHandle {
					h = op.Handle
				}
				releasedIP[op.IP] = h
			}
		}
	}
	var grants []grant
	add := func(who string, op vOp, r vRes) {
		if !r.Done || (op.Kind != "auto" && op.Kind != "assignip") {
			return
		}
		for _, ip := range r.IPs {
			grants = append(grants, grant{who, op.Handle, ip})
		}
	}
	for i, op := range sw.sc.Setup {
		add(fmt.Sprintf("setup#%d", i), op, sw.setupRes[i])
	}
	for ti, ops := range sw.sc.Threads {
		for oi, op := range ops {
			add(fmt.Sprintf("T%d#%d", ti, oi), op, sw.res[ti][oi])
		}
	}
	holder := map[string]grant{}
	for _, g := range grants {
		mayBeFreed := releasedHandle[g.handle]
		if h, ok := releasedIP[g.ip]; ok && (h == "" || h == g.handle) {
			mayBeFreed = true
		}
		if mayBeFreed {
			continue
		}
		if prev, dup := holder[g.ip]; dup {
			bad("address-given-twice", fmt.Sprintf("%s was handed to %s (handle %s) and to %s (handle %s), neither released", g.ip, prev.who, prev.handle, g.who, g.handle))
		}
		holder[g.ip] = g
		a, ok := live[g.ip]
		if !ok {
			bad("granted-address-not-recorded", fmt.Sprintf("%s was handed to %s (handle %s) but its block does not record it as allocated", g.ip, g.who, g.handle))
		} else if a.Handle != g.handle {
			bad("granted-address-recorded-for-other", fmt.Sprintf("%s was handed to %s (handle %s) but its block records handle %q", g.ip, g.who, g.handle, a.Handle))
		}
	}
	handles := sw.handles()
	for h, per := range perHandleBlock {
		for b, n := range per {
			if handles[h][b] < n {
				bad("handle-undercount", fmt.Sprintf("handle %s counts %d in block %s but the block records %d of its addresses", h, handles[h][b], b, n))
			}
		}
	}
	if final && !anyCrashed(x, len(sw.sc.Threads)) {
		// which kind of call feeds each handle (for a specific, stable violation key)
		feeder := map[string]string{}
		for _, ops := range append([][]vOp{sw.sc.Setup}, sw.sc.Threads...) {
			for _, op := range ops {
				if op.Kind == "auto" || op.Kind == "assignip" {
					if k, ok := feeder[op.Handle]; ok && k != op.Kind {
						feeder[op.Handle] = "mixed"
					} else {
						feeder[op.Handle] = op.Kind
					}
				}
			}
		}
		for h, per := range handles {
			for b, n := range per {
				if perHandleBlock[h][b] != n {
					bad("handle-overcount-at-quiescence:"+feeder[h], fmt.Sprintf("no client crashed, all calls returned, yet handle %s counts %d in block %s while the block records %d", h, n, b, perHandleBlock[h][b]))
				}
			}
		}
	}
	return fails
}

func TestVerif_C19(t *testing.T) {
	vk.Run(t, "C19", func(c *vk.Ctx) {
		msg, err := sched.SelfTest()
		if err != nil {
			c.ToolError(err.Error())
			return
		}
		fmt.Println("INFO " + msg)
		c.Rule("schedules = every interleaving of the threads' datastore operations (each Get/List/Create/Update/Delete of the real ipamClient on casstore is a scheduling point) within the preemption bound, times every placement of <= fault-budget faults {CAS conflict, client killed before the write, client killed after the write} at write operations; non-trivial = schedule with >=1 preemption or >=1 injected fault")
		c.Assume("datastore = casstore: linearizable single-key compare-and-swap store with the etcd/Kubernetes backends' error semantics; values cross the boundary as JSON (second-granular timestamps)")
		c.Assume("logical per-client clocks (1 ms per read, skew < 1 ms); reads of Node and IPAMConfig objects are not scheduling points (nobody writes them in these scenarios)")
		scs := c19Scenarios(c.Thorough())
		if rf := c.ReplayFile(); rf != "" {
			var d sched.Detail
			if err := vk.LoadReplay(rf, &d); err != nil {
				c.ToolError("cannot load replay: " + err.Error())
				return
			}
			for _, sc := range c19Scenarios(true) {
				if sc.Name == d.Scenario {
					resolveRefs(sc)
					tr, fails, err := sched.Replay(sc.build(c19Oracle), sched.Options{MaxPreempt: 9, MaxFaults: 9, Faults: []sched.Fault{sched.FaultConflict, sched.FaultCrashBefore, sched.FaultCrashAfter}}, d.Choices)
					if err != nil {
						c.ToolError(err.Error())
						return
					}
					for _, s := range tr {
						fmt.Println("INFO   " + s)
					}
					c.Add("states", 1)
					c.Add("transitions", int64(len(tr)))
					c.Sample(map[string]any{"replayed": sc.describe(), "trace": tr})
					for _, f := range fails {
						c.Violation(f.Key, sched.Detail{Scenario: d.Scenario, Choices: d.Choices, Trace: tr, Msg: f.Msg})
					}
				}
			}
			return
		}
		opts := sched.Options{
			MaxPreempt:    c.Pick(2, 3),
			MaxFaults:     c.Pick(1, 2),
			Faults:        []sched.Fault{sched.FaultConflict, sched.FaultCrashAfter},
			HookBudget:    250,
			Workers:       c.Pick(6, 8),
			DetCheckEvery: c.Pick(50, 200),
		}
		if c.Thorough() {
			opts.Faults = []sched.Fault{sched.FaultConflict, sched.FaultCrashBefore, sched.FaultCrashAfter}
		}
		total := time.Duration(c.Pick(80, 22*60)) * time.Second
		t0 := time.Now()
		for i, sc := range scs {
			resolveRefs(sc)
			o := opts
			o.Budget = (total - time.Since(t0)) / time.Duration(len(scs)-i)
			if o.Budget < time.Second {
				o.Budget = time.Second
			}
			tr, fails, err := sched.RunDefault(sc.build(c19Oracle), o)
			if err != nil {
				c.ToolError(err.Error())
				return
			}
			c.Sample(map[string]any{"scenario": sc.describe(), "default_schedule": tr, "oracle_failures": len(fails)})
			st := sched.Explore(c, sc.build(c19Oracle), o)
			_ = st
		}
		if n := vclock.UnboundReads(); n > 0 {
			c.ToolError(fmt.Sprintf("%d clock reads came from goroutines without a logical clock (determinism not guaranteed)", n))
		}
	})
}

package hipam

// C19 — IPAM never gives one address to two live allocations.
// Shape S: schedule DFS (engine sched) over the REAL ipamClient on the in-memory CAS datastore
// (engine casstore). Every datastore call of every logical thread is a scheduling point; at every
// write the scheduler may also inject a genuine CAS conflict, or kill the client before/after the
// write. The oracle runs in every reachable datastore state.

import (
	"fmt"
	"testing"

	"github.com/projectcalico/calico/libcalico-go/lib/backend/model"
	"github.com/projectcalico/calico/zzverif/vk"
)

// tiny world: one /29 pool of two /30 blocks, hosts n1 and n2.
func c19Cfg(strict bool) worldCfg {
	cfg := worldCfg{
		Pools: []vPool{{Name: "p1", CIDR: "10.0.0.0/29", BlockSize: 30}},
		Nodes: map[string]map[string]string{"n1": nil, "n2": nil},
	}
	if strict {
		cfg.Config = &model.IPAMConfig{StrictAffinity: true, AutoAllocateBlocks: true}
	}
	return cfg
}

func c19Scenarios(thorough bool) []*schedScenario {
	auto := func(host, h string) vOp { return vOp{Kind: "auto", Host: host, Handle: h} }
	scs := []*schedScenario{
		// an existing block with one free address left: both want it
		{Name: "last-address", Cfg: c19Cfg(true), Setup: []vOp{{Kind: "auto", Host: "n1", Handle: "h0", Num: 3}},
			Threads: [][]vOp{{auto("n1", "h1")}, {auto("n1", "h2")}}},
		// release (naming handle + sequence number) racing an assign that may reuse the address
		{Name: "release-vs-assign", Cfg: c19Cfg(false), Setup: []vOp{{Kind: "auto", Host: "n1", Handle: "h0", Num: 4}},
			Threads: [][]vOp{{{Kind: "release", IP: "@h0.0", Handle: "h0", WithHandle: true, WithSeq: true}}, {auto("n1", "h2")}}},
		// release-by-handle racing a specific-address assign of the very address being released
		{Name: "rbh-vs-assignip", Cfg: c19Cfg(false), Setup: []vOp{auto("n1", "h0")},
			Threads: [][]vOp{{{Kind: "rbh", Handle: "h0"}}, {{Kind: "assignip", Host: "n1", Handle: "h2", IP: "@h0.0"}}}},
		// release-by-handle racing another assignment under the SAME handle (handle counter races)
		{Name: "rbh-vs-assign-same-handle", Cfg: c19Cfg(false), Setup: []vOp{auto("n1", "h0")},
			Threads: [][]vOp{{{Kind: "rbh", Handle: "h0"}}, {auto("n1", "h0")}}},
		// specific-address assign of an address that is taken (and stays taken) racing an auto-assign
		{Name: "assignip-taken-vs-assign", Cfg: c19Cfg(false), Setup: []vOp{auto("n1", "h0")},
			Threads: [][]vOp{{{Kind: "assignip", Host: "n1", Handle: "h2", IP: "@h0.0"}}, {auto("n1", "h3")}}},
		// two clients on the same host race for the same block and its free list
		{Name: "same-host-assign", Cfg: c19Cfg(false), Threads: [][]vOp{{auto("n1", "h1")}, {auto("n1", "h2")}}},
		// two hosts claim blocks and assign concurrently (claim race, borrowing from the other's block)
		{Name: "two-hosts-assign", Cfg: c19Cfg(false), Threads: [][]vOp{{auto("n1", "h1")}, {auto("n2", "h2")}}},
		// assign then release by the same client, racing a second client
		{Name: "assign-release-vs-assign", Cfg: c19Cfg(false),
			Threads: [][]vOp{{auto("n1", "h1"), {Kind: "rbh", Handle: "h1"}}, {auto("n1", "h2")}}},
	}
	// specific-address assign of EVERY address of the pool while it is free (incl. the one the next
	// automatic assignment would pick, i.e. the head of the block's free list), followed by
	// automatic assignments that must not hand the same address out again; and racing one.
	for i := 0; i < 8; i++ {
		ip := fmt.Sprintf("10.0.0.%d", i)
		scs = append(scs, &schedScenario{Name: "assignip-free-" + ip + "-then-assign", Cfg: c19Cfg(false), Setup: []vOp{auto("n1", "h0")},
			Threads: [][]vOp{{{Kind: "assignip", Host: "n1", Handle: "h2", IP: ip}, {Kind: "auto", Host: "n1", Handle: "h3", Num: 2}}}})
	}
	for _, ip := range []string{"10.0.0.1", "10.0.0.5"} {
		scs = append(scs, &schedScenario{Name: "assignip-free-" + ip + "-vs-assign", Cfg: c19Cfg(false), Setup: []vOp{auto("n1", "h0")},
			Threads: [][]vOp{{{Kind: "assignip", Host: "n1", Handle: "h2", IP: ip}}, {auto("n1", "h3"), auto("n1", "h4")}}})
	}
	// cooldown > 0 with an address of the block cooling down, while a client allocates WITHOUT handle
	// and WITHOUT attributes (its allocation must get its own attribute entry, not the shared
	// "released at ..." one) next to an ordinary client
	cool := c19Cfg(false)
	cool.Config = &model.IPAMConfig{AutoAllocateBlocks: true, IPCooldownSeconds: 600}
	scs = append(scs, &schedScenario{Name: "cooldown-bare-assign-vs-assign", Cfg: cool,
		Setup:   []vOp{auto("n1", "h0"), {Kind: "rbh", Handle: "h0"}},
		Threads: [][]vOp{{{Kind: "auto", Host: "n1", NoAttrs: true}}, {auto("n1", "h2")}}})
	// one handle used by two hosts under a per-handle allocation limit (the CNI plugin's idempotent
	// ADD): the loser of the handle race retries from its in-memory block and must not persist the
	// allocation of its failed attempt; a third client makes the winner lose its block write.
	maxauto := func(host, h string) vOp { return vOp{Kind: "auto", Host: host, Handle: h, MaxAlloc: 1} }
	if thorough {
		scs = append(scs,
			// (thorough only: the two clients can spin each other's retry loops, which the livelock
			// guard caps; in the quick tier that would make every run report exhaustive:false)
			&schedScenario{Name: "maxalloc-same-handle-two-hosts", Cfg: c19Cfg(false),
				Setup:   []vOp{auto("n1", "h0"), auto("n2", "h9")},
				Threads: [][]vOp{{maxauto("n1", "H")}, {maxauto("n2", "H")}}},
			&schedScenario{Name: "maxalloc-same-handle-two-hosts-and-writer", Cfg: c19Cfg(false),
				Setup:   []vOp{auto("n1", "h0"), auto("n2", "h9")},
				Threads: [][]vOp{{maxauto("n1", "H")}, {maxauto("n2", "H")}, {auto("n1", "hx")}}},
			&schedScenario{Name: "three-assign", Cfg: c19Cfg(false), Threads: [][]vOp{{auto("n1", "h1")}, {auto("n1", "h2")}, {auto("n2", "h3")}}},
			&schedScenario{Name: "assign-release-assign", Cfg: c19Cfg(false), Setup: []vOp{{Kind: "auto", Host: "n1", Handle: "h0", Num: 4}},
				Threads: [][]vOp{{{Kind: "rbh", Handle: "h0"}}, {auto("n1", "h2")}, {auto("n2", "h3")}}},
			&schedScenario{Name: "two-releases-one-assign", Cfg: c19Cfg(false), Setup: []vOp{{Kind: "auto", Host: "n1", Handle: "h0", Num: 2}},
				Threads: [][]vOp{{{Kind: "release", IP: "@h0.0", Handle: "h0", WithHandle: true, WithSeq: true}}, {{Kind: "rbh", Handle: "h0"}}, {auto("n1", "h2")}}},
		)
	}
	return scs
}

func TestVerif_C19(t *testing.T) {
	vk.Run(t, "C19", func(c *vk.Ctx) {
		runSchedCheck(c, c19Scenarios(c.Thorough()), c19Scenarios(true), allocOracle("C19"))
	})
}

package routetable

// In-package helpers for the C17 harness (which lives in package routetable_test because it needs
// felix/routetable/ownershippol, which imports this package): a canonical rendering of the
// RouteTable's internal state for the explorer's state key.

import (
	"fmt"
	"sort"
	"strings"
)

func VerifFullResyncNeeded(r *RouteTable) bool { return r.fullResyncNeeded }

// VerifBelievesRouteAt reports whether the RouteTable currently believes that one of ITS routes sits
// at the given key in the kernel (dataplane side of its delta tracker).
func VerifBelievesRouteAt(r *RouteTable, k RouteKey) bool {
	_, ok := r.kernelRoutes.Dataplane().Get(k)
	return ok
}

func VerifState(r *RouteTable) string {
	var b strings.Builder
	srt := func(l []string) string { sort.Strings(l); return strings.Join(l, ",") }
	var l []string
	fmt.Fprintf(&b, "full:%v", r.fullResyncNeeded)
	l = nil
	for n := range r.ifacesToRescan.All() {
		l = append(l, n)
	}
	b.WriteString("|rescan:" + srt(l))
	l = nil
	for c, m := range r.ifaceToRoutes {
		for ifc, rs := range m {
			for k, t := range rs {
				l = append(l, fmt.Sprintf("%d/%s/%s>%s/%v/%d", c, ifc, k, t.Type, t.GW, t.Protocol))
			}
		}
	}
	b.WriteString("|in:" + srt(l))
	l = nil
	for c, m := range r.cidrToIfaces {
		for k, s := range m {
			var n []string
			for x := range s.All() {
				n = append(n, x)
			}
			l = append(l, fmt.Sprintf("%d/%s=%s", c, k, srt(n)))
		}
	}
	b.WriteString("|own:" + srt(l))
	l = nil
	r.kernelRoutes.Desired().Iter(func(k RouteKey, v kernelRoute) { l = append(l, k.String()+">"+v.String()) })
	b.WriteString("|des:" + srt(l))
	l = nil
	r.kernelRoutes.Dataplane().Iter(func(k RouteKey, v kernelRoute) { l = append(l, k.String()+">"+v.String()) })
	b.WriteString("|dp:" + srt(l))
	l = nil
	for n, i := range r.ifaceNameToIndex {
		l = append(l, fmt.Sprintf("%s=%d/%s", n, i, r.ifaceIndexToState[i]))
	}
	b.WriteString("|if:" + srt(l))
	l = nil
	for i, n := range r.ifaceIndexToName {
		l = append(l, fmt.Sprintf("%d=%s", i, n))
	}
	b.WriteString("|ix:" + srt(l))
	l = nil
	now := r.time.Now()
	for i, g := range r.ifaceIndexToGraceInfo {
		l = append(l, fmt.Sprintf("%d:%v/%v", i, g.GraceExpired, now.Sub(g.FirstSeen) < r.routeCleanupGracePeriod))
	}
	b.WriteString("|grace:" + srt(l))
	return b.String()
}

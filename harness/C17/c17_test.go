package routetable_test

// C17 — route sync converges for Felix's routes and leaves other routes alone.
//
// Shape H (explicit-state search with fault enumeration): the REAL routetable.RouteTable with the
// REAL main-table ownership policy (ownershippol.NewMainTable) is bound through
// WithNetlinkHandleShim / WithTimeShim to the repo's mocknetlink dataplane. The harness wraps the
// mock's netlink handle to (a) count calls so that "the n-th LinkList / LinkByName / RouteList /
// RouteReplace / RouteDel / connect / SetSocketTimeout / SetStrict of this Apply fails in mode m"
// can be injected at every call of every reachable state (fault points discovered by a dry run) and
// (b) make the mock behave like the kernel where it is too permissive: a route through a missing or
// down interface is refused, and the kernel itself drops the routes of an interface that goes down
// or is deleted.

import (
	"encoding/json"
	"fmt"
	"net"
	"regexp"
	"sort"
	"strings"
	"sync"
	"syscall"
	"testing"
	"time"

	"github.com/onsi/gomega"
	"github.com/sirupsen/logrus"
	"github.com/vishvananda/netlink"
	"golang.org/x/sys/unix"

	"github.com/projectcalico/calico/felix/ifacemonitor"
	"github.com/projectcalico/calico/felix/ip"
	"github.com/projectcalico/calico/felix/netlinkshim"
	"github.com/projectcalico/calico/felix/netlinkshim/mocknetlink"
	. "github.com/projectcalico/calico/felix/routetable"
	"github.com/projectcalico/calico/felix/routetable/ownershippol"
	"github.com/projectcalico/calico/felix/timeshim/mocktime"
	"github.com/projectcalico/calico/lib/logrusr"
	"github.com/projectcalico/calico/zzverif/hbfs"
	"github.com/projectcalico/calico/zzverif/vk"
)

var (
	c17Once     sync.Once
	c17AssertMu sync.Mutex
	c17Asserts  = map[string]int{}
)

type c17Fault struct {
	Call string `json:"call"`
	N    int    `json:"n"` // 1-based index among the calls of that kind in this Apply
	Mode string `json:"mode"`
	// Arg: for the RouteList mode "eintr-del" the key of the route that another actor deletes between
	// the interrupted dump and its retry
	Arg string `json:"arg,omitempty"`
}

type c17Ev struct {
	Op     string     `json:"op"`
	Class  string     `json:"class,omitempty"`
	Iface  string     `json:"iface,omitempty"`
	CIDRs  []string   `json:"cidrs,omitempty"`
	Notify bool       `json:"notify,omitempty"`
	V      string     `json:"v,omitempty"`
	Faults []c17Fault `json:"faults,omitempty"`
	Init   string     `json:"init,omitempty"`
}

func (e c17Ev) String() string { return vk.JSON(e) }

type c17Cfg struct {
	MaxFaults int
	Grace     time.Duration
	V6        bool // IPv6 RouteTable: default-priority routes are normalised to metric 1024
}

// Addresses are written down once, in IPv4; an IPv6 run translates them.
var c17V6 = map[string]string{
	"10.0.0.1/32": "fd00::1/128", "10.0.0.2/32": "fd00::2/128", "10.0.1.0/24": "fd00:1::/64", "10.0.0.9/32": "fd00::9/128",
	"10.0.1.1": "fd00:1::1", "10.0.1.7": "fd00:1::7",
	"10.0.2.0/24": "fd00:2::/64", "10.0.3.1": "fd00:3::1", "10.0.3.2": "fd00:3::2",
	"10.9.8.0/24": "fd09:8::/64", "10.9.9.0/24": "fd09:9::/64", "10.8.0.0/16": "fd08::/32",
	"192.168.0.0/24": "fd92::/64", "0.0.0.0/0": "::/0", "172.16.0.0/16": "fd72::/32",
	"192.168.0.1": "fd92::1", "192.168.0.8": "fd92::8", "192.168.0.9": "fd92::9", "192.168.0.66": "fd92::66",
}

func (s *c17State) a(v4 string) string {
	if !s.cfg.V6 {
		return v4
	}
	v6, ok := c17V6[v4]
	if !ok {
		panic("no IPv6 translation for " + v4)
	}
	return v6
}
func (s *c17State) net(v4 string) *net.IPNet { return c17Net(s.a(v4)) }
func (s *c17State) gwip(v4 string) net.IP    { return net.ParseIP(s.a(v4)) }

// desired-route entries are "cidr" or "cidr@metric"
func (s *c17State) X() string { return s.a(c17X) }
func (s *c17State) Y() string { return s.a(c17Y) }
func (s *c17State) Z() string {
	if s.cfg.V6 {
		return s.a(c17Z) + "@100" // one route with an explicit metric
	}
	return s.a(c17Z)
}

func c17Split(entry string) (string, int) {
	if i := strings.Index(entry, "#"); i >= 0 {
		entry = entry[:i]
	}
	if i := strings.Index(entry, "@"); i >= 0 {
		var p int
		_, _ = fmt.Sscanf(entry[i+1:], "%d", &p)
		return entry[:i], p
	}
	return entry, 0
}

// normKey: the kernel's key for a desired-route entry ("cidr" for metric 0, else "cidr@metric");
// IPv6 turns metric 0 into 1024.
func (s *c17State) normKey(entry string) string {
	cidr, p := c17Split(entry)
	if s.cfg.V6 && p == 0 {
		p = 1024
	}
	if p == 0 {
		return cidr
	}
	return fmt.Sprintf("%s@%d", cidr, p)
}

const (
	c17X = "10.0.0.1/32"
	c17Z = "10.0.0.2/32"
	c17Y = "10.0.1.0/24"
)

var c17Classes = map[string]RouteClass{"L": RouteClassLocalWorkload, "V": RouteClassVXLANTunnel, "B": RouteClassBlackholeVXLAN, "M": RouteClassNoEncap}

// multi-path variants (class M, no output interface): next hops as (gateway, interface); M1 and M2
// differ only in the interface of the first hop
const c17W = "10.0.2.0/24"

var c17MP = map[string][][2]string{
	"M1": {{"10.0.3.1", "cali1"}, {"10.0.3.2", "cali2"}},
	"M2": {{"10.0.3.1", "cali2"}, {"10.0.3.2", "cali2"}},
}

func (s *c17State) W(variant string) string { return s.a(c17W) + "#" + variant }

type c17State struct {
	cfg  c17Cfg
	dp   *mocknetlink.MockNetlinkDataplane
	rt   *RouteTable
	tm   *mocktime.MockTime
	pol  *ownershippol.MainTableOwnershipPolicy
	hist []c17Ev

	want    map[string]map[string]map[string]bool // class -> iface -> cidr
	foreign map[string]string                     // mock route key -> rendering
	nextIdx int

	routeDrift bool
	ifaceDrift map[string]bool
	// keys of Felix-owned routes that other software overwrote behind Felix's back: until Felix
	// re-reads the table it rightly treats the key as its own
	contested map[string]bool
	// a per-interface route listing failed since the last full resync
	partialListFailed bool

	counts map[string]int
	faults []c17Fault
	fired  int
	rec    *[]string // dry run: sequence of call kinds
	// dry run: for the i-th RouteList call, the keys of the routes it delivered
	recRouteKeys [][]string
	// armed "dump interrupted, table edited, retry" fault for the RouteList call in progress
	editFault *c17Fault

	connectFails int
	crashes      int
	graceOver    bool // (probes) the clock was moved past the clean-up grace period

	key, out  string
	nontriv   bool
	evOut     string
	evNontriv bool
	bad       []hbfs.Fail
	badSeen   map[string]bool
	lastErr   error
	lastCalls []string
}

func (s *c17State) fail(key, f string, a ...any) {
	key = "C17:" + key
	if s.badSeen[key] {
		return
	}
	s.badSeen[key] = true
	s.bad = append(s.bad, hbfs.Fail{Key: key, Msg: fmt.Sprintf(f, a...) + " [calls: " + strings.Join(s.lastCalls, " ") + "]"})
}

// ---- netlink wrapper --------------------------------------------------------------------------------

type c17NL struct {
	*mocknetlink.MockNetlinkDataplane
	s *c17State
}

var c17Flags = map[string]mocknetlink.FailFlags{
	"NewNetlink/err":       mocknetlink.FailNextNewNetlink,
	"SetSocketTimeout/err": mocknetlink.FailNextSetSocketTimeout,
	"SetStrict/err":        mocknetlink.FailNextSetStrict,
	"LinkList/err":         mocknetlink.FailNextLinkList,
	"LinkList/eintr":       mocknetlink.FailNextLinkListWrappedEINTR,
	"LinkByName/err":       mocknetlink.FailNextLinkByName,
	"LinkByName/notfound":  mocknetlink.FailNextLinkByNameNotFound,
	"RouteList/err":        mocknetlink.FailNextRouteList,
	"RouteList/eintr":      mocknetlink.FailNextRouteListEINTR,
	"RouteList/wrapped":    mocknetlink.FailNextRouteListWrappedEINTR,
	"RouteReplace/err":     mocknetlink.FailNextRouteReplace,
	"RouteDel/err":         mocknetlink.FailNextRouteDel,
}

var c17Modes = map[string][]string{
	"NewNetlink": {"err"}, "SetSocketTimeout": {"err"}, "SetStrict": {"err"},
	"LinkList": {"err", "eintr"}, "LinkByName": {"err", "notfound"},
	"RouteList": {"err", "eintr", "wrapped"}, "RouteReplace": {"err"}, "RouteDel": {"err"},
}

// pre is called before every netlink call of the given kind; arms a matching fault.
func (s *c17State) pre(call string) {
	s.counts[call]++
	s.lastCalls = append(s.lastCalls, call)
	if s.rec != nil {
		*s.rec = append(*s.rec, call)
	}
	for _, f := range s.faults {
		if f.Call == call && f.N == s.counts[call] {
			if strings.HasPrefix(f.Mode, "eintr-") {
				ff := f
				s.editFault = &ff
			}
			s.dp.FailuresToSimulate |= c17Flags[call+"/"+f.Mode]
			s.fired++
			s.lastCalls[len(s.lastCalls)-1] += "[FAULT " + f.Mode + "]"
			if call == "RouteList" && f.Mode == "err" && !VerifFullResyncNeeded(s.rt) {
				s.partialListFailed = true
			}
			if f.Mode == "notfound" {
				// the environment lied to Felix about an interface; only a resync repairs its picture
				s.routeDrift = true
			}
			if call == "NewNetlink" || call == "SetSocketTimeout" || call == "SetStrict" {
				s.connectFails++
			}
		}
	}
}

func (s *c17State) newHandle() (netlinkshim.Interface, error) {
	s.pre("NewNetlink")
	if _, err := s.dp.NewMockNetlink(); err != nil {
		return nil, err
	}
	return &c17NL{MockNetlinkDataplane: s.dp, s: s}, nil
}

func (n *c17NL) SetSocketTimeout(d time.Duration) error {
	n.s.pre("SetSocketTimeout")
	return n.MockNetlinkDataplane.SetSocketTimeout(d)
}
func (n *c17NL) SetStrictCheck(b bool) error {
	n.s.pre("SetStrict")
	err := n.MockNetlinkDataplane.SetStrictCheck(b)
	if err == nil {
		n.s.connectFails = 0
	}
	return err
}
func (n *c17NL) LinkList() ([]netlink.Link, error) {
	n.s.pre("LinkList")
	return n.MockNetlinkDataplane.LinkList()
}
func (n *c17NL) LinkByName(name string) (netlink.Link, error) {
	n.s.pre("LinkByName")
	return n.MockNetlinkDataplane.LinkByName(name)
}
func (n *c17NL) RouteListFilteredIter(family int, filter *netlink.Route, mask uint64, f func(netlink.Route) bool) error {
	s := n.s
	s.editFault = nil
	s.pre("RouteList")
	routes, err := n.MockNetlinkDataplane.RouteListFiltered(family, filter, mask)
	sort.Slice(routes, func(i, j int) bool { return mocknetlink.KeyForRoute(&routes[i]) < mocknetlink.KeyForRoute(&routes[j]) })
	var keys []string
	for _, r := range routes {
		keys = append(keys, mocknetlink.KeyForRoute(&r))
	}
	if s.rec != nil {
		s.recRouteKeys = append(s.recRouteKeys, keys)
	}
	for _, r := range routes {
		if !f(r) {
			break
		}
	}
	if ef := s.editFault; ef != nil && err == nil {
		// The dump was delivered in full but the kernel flags it as interrupted (NLM_F_DUMP_INTR):
		// the table changed while it was being read. Another actor's change lands now, before the
		// caller's retry.
		s.editFault = nil
		switch ef.Mode {
		case "eintr-del":
			delete(s.dp.RouteKeyToRoute, ef.Arg)
			delete(s.foreign, ef.Arg)
			delete(s.contested, ef.Arg)
		case "eintr-add":
			s.addForeign(netlink.Route{Dst: s.net("10.9.8.0/24"), LinkIndex: 2, Gw: s.gwip("192.168.0.8"), Protocol: 80, Type: unix.RTN_UNICAST})
		}
		return unix.EINTR
	}
	return err
}
func (n *c17NL) RouteReplace(r *netlink.Route) error {
	n.s.pre("RouteReplace")
	if n.FailuresToSimulate&mocknetlink.FailNextRouteReplace == 0 {
		// kernel rule the mock does not have: the output interface must exist and be up
		idxs := []int{r.LinkIndex}
		for _, nh := range r.MultiPath {
			idxs = append(idxs, -nh.LinkIndex) // negative: next hop of a multi-path route
		}
		for _, idx := range idxs {
			hop := idx < 0
			if hop {
				idx = -idx
			}
			if idx <= 1 {
				continue
			}
			var l *mocknetlink.MockLink
			for _, x := range n.NameToLink {
				if x.LinkAttrs.Index == idx {
					l = x
				}
			}
			if l == nil {
				return unix.ENODEV
			}
			if l.LinkAttrs.RawFlags&syscall.IFF_UP == 0 && !hop {
				// (for next hops of a multi-path route the mock's permissive behaviour is kept: the
				// code under test deliberately programs such a route as long as ONE hop is up)
				return syscall.ENETDOWN
			}
		}
	}
	return n.MockNetlinkDataplane.RouteReplace(r)
}
func (n *c17NL) RouteDel(r *netlink.Route) error {
	n.s.pre("RouteDel")
	return n.MockNetlinkDataplane.RouteDel(r)
}

// ---- construction ------------------------------------------------------------------------------------------

func c17New(cfg c17Cfg) *c17State {
	c17Once.Do(func() {
		gomega.RegisterFailHandler(func(m string, _ ...int) {
			c17AssertMu.Lock()
			c17Asserts[strings.SplitN(m, "\n", 2)[0]]++
			c17AssertMu.Unlock()
			panic("mock assertion: " + m)
		})
	})
	s := &c17State{cfg: cfg, dp: mocknetlink.New(), tm: mocktime.New(),
		want: map[string]map[string]map[string]bool{}, foreign: map[string]string{}, ifaceDrift: map[string]bool{}, contested: map[string]bool{},
		counts: map[string]int{}, badSeen: map[string]bool{}, nextIdx: 12}
	s.pol = ownershippol.NewMainTable("vxlan.calico", unix.RTPROT_BOOT, []string{"cali"}, true, false)
	s.dp.AddIface(2, "eth0", true, true)
	s.dp.AddIface(5, "vxlan.calico", true, true)
	s.newRT()
	return s
}

func (s *c17State) newRT() {
	s.dp.NetlinkOpen = false
	s.connectFails = 0
	ver := uint8(4)
	if s.cfg.V6 {
		ver = 6
	}
	s.rt = New(s.pol, ver, 10*time.Second, nil, unix.RTPROT_BOOT, true, 0, logrusr.NewSummarizer("c17"), s.dp,
		WithTimeShim(s.tm), WithConntrackCleanup(false), WithRouteCleanupGracePeriod(s.cfg.Grace),
		WithNetlinkHandleShim(s.newHandle))
}

// ---- reference model ----------------------------------------------------------------------------------------

func (s *c17State) target(class, entry string) Target {
	cidr, prio := c17Split(entry)
	t := Target{RouteKey: RouteKey{CIDR: ip.MustParseCIDROrIP(cidr), Priority: prio}}
	switch class {
	case "V":
		t.Type = TargetTypeVXLAN
		t.GW = ip.FromString(s.a("10.0.1.1"))
		t.Protocol = 80
	case "B":
		t.Type = TargetTypeBlackhole
		t.Protocol = 80
	case "M":
		t.Type = TargetTypeGlobalUnicast
		t.Protocol = 80
		for _, h := range c17MP[entry[strings.Index(entry, "#")+1:]] {
			t.MultiPath = append(t.MultiPath, NextHop{Gw: ip.FromString(s.a(h[0])), IfaceName: h[1]})
		}
	}
	return t
}

func (s *c17State) link(name string) *mocknetlink.MockLink { return s.dp.NameToLink[name] }

func (s *c17State) operUp(name string) bool {
	l := s.link(name)
	return l != nil && l.LinkAttrs.RawFlags&syscall.IFF_RUNNING != 0
}

// resolved = what the kernel should hold for Felix, given what was asked for and the interfaces as
// they are: per destination the acceptable routes. Conflicts between classes are decided by class
// priority (lower value wins); between candidates of the SAME class the property is silent, so any
// of them is accepted.
func (s *c17State) resolved() map[string][]string {
	type cand struct {
		class RouteClass
		idx   int
		cname string
		entry string
	}
	cands := map[string][]cand{}
	for cname, byIf := range s.want {
		class := c17Classes[cname]
		for ifc, cidrs := range byIf {
			idx := 0
			if s.cfg.V6 {
				idx = 1 // IPv6 "no interface" routes sit on lo
			}
			if ifc != InterfaceNone {
				if !s.operUp(ifc) {
					continue
				}
				idx = s.link(ifc).LinkAttrs.Index
			}
			for entry := range cidrs {
				if cname == "M" {
					// a multi-path route needs all its next-hop interfaces to exist and one to be up;
					// it carries no output interface of its own
					all, some := true, false
					for _, h := range c17MP[entry[strings.Index(entry, "#")+1:]] {
						all = all && s.link(h[1]) != nil
						some = some || s.operUp(h[1])
					}
					if !all || !some {
						continue
					}
					cands[s.normKey(entry)] = append(cands[s.normKey(entry)], cand{class, 0, cname, entry})
					continue
				}
				cands[s.normKey(entry)] = append(cands[s.normKey(entry)], cand{class, idx, cname, entry})
			}
		}
	}
	out := map[string][]string{}
	for cidr, cs := range cands {
		best := cs[0].class
		for _, c := range cs {
			if c.class < best {
				best = c.class
			}
		}
		for _, b := range cs {
			if b.class != best {
				continue
			}
			t := s.target(b.cname, b.entry)
			proto := netlink.RouteProtocol(unix.RTPROT_BOOT)
			if t.Protocol != 0 {
				proto = t.Protocol
			}
			gw := ""
			if t.GW != nil {
				gw = t.GW.String()
			}
			r := fmt.Sprintf("dev=%d gw=%s type=%d scope=%d proto=%d onlink=%v", b.idx, gw, t.RouteType(), t.RouteScope(), proto, t.Flags()&unix.RTNH_F_ONLINK != 0)
			if len(t.MultiPath) > 0 {
				r += " mp="
				for _, h := range t.MultiPath {
					r += fmt.Sprintf("%d/%s,", s.link(h.IfaceName).LinkAttrs.Index, h.Gw)
				}
			}
			out[cidr] = append(out[cidr], r)
		}
	}
	return out
}

// c17Ours is the ownership rule of this universe written down independently of the code under
// test: Felix owns routes carrying its exclusive protocol (80), every route on a workload
// interface (cali*, RemoveExternalRoutes=true) and every route on its VXLAN device.
func c17Ours(ifaceName string, r *netlink.Route) bool {
	if r.Protocol == 80 {
		return true
	}
	if ifaceName == InterfaceNone {
		return false
	}
	return strings.HasPrefix(ifaceName, "cali") || ifaceName == "vxlan.calico"
}

func c17RenderRoute(r netlink.Route) string {
	gw := ""
	if r.Gw != nil {
		gw = r.Gw.String()
	}
	out := fmt.Sprintf("dev=%d gw=%s type=%d scope=%d proto=%d onlink=%v", r.LinkIndex, gw, r.Type, r.Scope, r.Protocol, r.Flags&unix.RTNH_F_ONLINK != 0)
	if len(r.MultiPath) > 0 {
		out += " mp="
		for _, h := range r.MultiPath {
			out += fmt.Sprintf("%d/%s,", h.LinkIndex, ip.FromNetIP(h.Gw))
		}
	}
	return out
}

func (s *c17State) ifaceNameOf(idx int) string {
	if idx <= 1 {
		return InterfaceNone
	}
	for n, l := range s.dp.NameToLink {
		if l.LinkAttrs.Index == idx {
			return n
		}
	}
	return ""
}

// owned: the kernel routes that the configured ownership policy attributes to Felix
func (s *c17State) owned() map[string]string {
	out := map[string]string{}
	for _, r := range s.dp.RouteKeyToRoute {
		r := r
		name := s.ifaceNameOf(r.LinkIndex)
		if name == "" {
			continue
		}
		if name == InterfaceNone && len(r.MultiPath) == 0 {
			switch r.Type {
			case unix.RTN_LOCAL, unix.RTN_THROW, unix.RTN_BLACKHOLE, unix.RTN_PROHIBIT, unix.RTN_UNREACHABLE:
			default:
				continue
			}
		}
		if !c17Ours(name, &r) {
			continue
		}
		k := r.Dst.String()
		if r.Priority != 0 {
			k += fmt.Sprintf("@%d", r.Priority)
		}
		out[k] = c17RenderRoute(r)
	}
	return out
}

func c17ShowMap(m map[string]string) string {
	var l []string
	for k, v := range m {
		l = append(l, k+"{"+v+"}")
	}
	sort.Strings(l)
	return strings.Join(l, " ")
}

func (s *c17State) kernelString() string {
	var l []string
	for k, r := range s.dp.RouteKeyToRoute {
		l = append(l, k+"{"+c17RenderRoute(r)+"}")
	}
	sort.Strings(l)
	var ifs []string
	for n, x := range s.dp.NameToLink {
		ifs = append(ifs, fmt.Sprintf("%s=%d/%v", n, x.LinkAttrs.Index, x.LinkAttrs.RawFlags&syscall.IFF_RUNNING != 0))
	}
	sort.Strings(ifs)
	return strings.Join(ifs, ",") + " :: " + strings.Join(l, " ")
}

func (s *c17State) checkForeign(where string) {
	res := s.resolved()
	for k, want := range s.foreign {
		r, ok := s.dp.RouteKeyToRoute[k]
		if ok && c17RenderRoute(r) == want {
			continue
		}
		// a foreign route sitting exactly on a key that Felix wants is legitimately replaced
		legit := false
		for key := range res {
			cidr, prio := c17Split(key)
			if k == fmt.Sprintf("254-%s-%d", cidr, prio) {
				legit = true
			}
		}
		if legit {
			delete(s.foreign, k)
			continue
		}
		if !ok {
			s.fail("foreign-route-removed", "%s: route %s {%s} that Felix does not own is gone; kernel: %s", where, k, want, s.kernelString())
		} else {
			s.fail("foreign-route-changed", "%s: route %s that Felix does not own changed from {%s} to {%s}", where, k, want, c17RenderRoute(r))
		}
	}
}

func (s *c17State) checkExact(where string) {
	got, want := s.owned(), s.resolved()
	if s.partialListFailed {
		// known finding: a failed per-interface route listing is treated as a successful rescan
		where = "rescan-list-failure-swallowed:" + where
	}
	for k, w := range want {
		g, ok := got[k]
		if !ok {
			s.fail(where+":desired-route-missing", "route %s %q should be in the kernel; owned routes: %s; kernel: %s", k, w, c17ShowMap(got), s.kernelString())
			continue
		}
		match := false
		for _, x := range w {
			match = match || x == g
		}
		if !match {
			s.fail(where+":desired-route-wrong", "route %s is {%s} want one of %q", k, g, w)
		}
	}
	for k, g := range got {
		if _, ok := want[k]; !ok {
			var idx int
			_, _ = fmt.Sscanf(g, "dev=%d", &idx)
			if s.cfg.Grace > 0 && !s.graceOver && strings.HasPrefix(s.ifaceNameOf(idx), "cali") {
				// unexpected routes on workload interfaces are deliberately kept during the grace period
				continue
			}
			s.fail(where+":stale-felix-route", "route %s {%s} is Felix-owned per the ownership policy, not desired, and still there; kernel: %s", k, g, s.kernelString())
		}
	}
}

func (s *c17State) noDrift() bool { return !s.routeDrift && len(s.ifaceDrift) == 0 }

// ---- Apply with crash handling -------------------------------------------------------------------------------------

func (s *c17State) apply(faults []c17Fault, where string) error {
	s.counts = map[string]int{}
	s.faults = faults
	s.fired = 0
	s.lastCalls = nil
	s.dp.ResetDeltas()
	s.dp.FailuresToSimulate = 0
	needed := VerifFullResyncNeeded(s.rt)
	var err error
	perr := vk.Catch(func() error { err = s.rt.Apply(); return nil })
	s.dp.FailuresToSimulate = 0
	s.faults = nil
	if perr != nil {
		if strings.Contains(perr.Error(), "Repeatedly failed to connect to netlink") {
			// deliberate: Felix gives up after 3 consecutive connection failures and is restarted
			s.crashes++
			s.restart()
			s.lastErr = fmt.Errorf("crashed (by design) and restarted")
			s.out = "apply crashed-by-design"
			s.nontriv = true
			return s.lastErr
		}
		panic(perr.Error())
	}
	s.lastErr = err
	if needed && !VerifFullResyncNeeded(s.rt) {
		// a full resync (interfaces + routes) completed: Felix has seen the kernel as it is
		s.routeDrift = false
		s.ifaceDrift = map[string]bool{}
		s.partialListFailed = false
		for k := range s.contested {
			if r, ok := s.dp.RouteKeyToRoute[k]; ok && !c17Ours(s.ifaceNameOf(r.LinkIndex), &r) {
				s.foreign[k] = c17RenderRoute(r)
			}
		}
		s.contested = map[string]bool{}
	}
	s.checkForeign(where)
	if err == nil && s.noDrift() {
		s.checkExact(where)
	}
	s.out = fmt.Sprintf("apply faults=%d fired=%d err=%v added=%d deleted=%d", len(faults), s.fired, err != nil, s.dp.AddedRouteKeys.Len(), s.dp.DeletedRouteKeys.Len())
	s.nontriv = s.fired > 0 || s.dp.AddedRouteKeys.Len() > 0 || s.dp.DeletedRouteKeys.Len() > 0
	return err
}

func (s *c17State) restart() {
	s.newRT()
	var classes []string
	for c := range s.want {
		classes = append(classes, c)
	}
	sort.Strings(classes)
	for _, c := range classes {
		var ifs []string
		for i := range s.want[c] {
			ifs = append(ifs, i)
		}
		sort.Strings(ifs)
		for _, i := range ifs {
			s.sendSet(c, i)
		}
	}
}

func (s *c17State) sendSet(class, iface string) {
	var ts []Target
	var cidrs []string
	for c := range s.want[class][iface] {
		cidrs = append(cidrs, c)
	}
	sort.Strings(cidrs)
	for _, c := range cidrs {
		ts = append(ts, s.target(class, c))
	}
	s.rt.SetRoutes(c17Classes[class], iface, ts)
}

func (s *c17State) wantSet(class, iface string) map[string]bool {
	if s.want[class] == nil {
		s.want[class] = map[string]map[string]bool{}
	}
	if s.want[class][iface] == nil {
		s.want[class][iface] = map[string]bool{}
	}
	return s.want[class][iface]
}

func (s *c17State) notify(name string) {
	l := s.link(name)
	if l == nil {
		s.rt.OnIfaceStateChanged(name, 0, ifacemonitor.StateNotPresent)
	} else if s.operUp(name) {
		s.rt.OnIfaceStateChanged(name, l.LinkAttrs.Index, ifacemonitor.StateUp)
	} else {
		s.rt.OnIfaceStateChanged(name, l.LinkAttrs.Index, ifacemonitor.StateDown)
	}
	delete(s.ifaceDrift, name)
}

// purge: the kernel drops every route through an interface that goes down or away
func (s *c17State) purge(idx int, unregistered bool) {
	for k, r := range s.dp.RouteKeyToRoute {
		gone := r.LinkIndex == idx
		// multi-path: a deleted next-hop device kills the route; a device that merely goes down only
		// kills it when no other next hop is left alive (fib_sync_down_dev)
		alive := 0
		for _, h := range r.MultiPath {
			if h.LinkIndex == idx && unregistered {
				gone = true
			}
			if n := s.ifaceNameOf(h.LinkIndex); h.LinkIndex != idx && n != "" && s.operUp(n) {
				alive++
			}
		}
		if len(r.MultiPath) > 0 && alive == 0 {
			for _, h := range r.MultiPath {
				gone = gone || h.LinkIndex == idx
			}
		}
		if gone {
			delete(s.dp.RouteKeyToRoute, k)
			delete(s.foreign, k)
		}
	}
}

func (s *c17State) addForeign(r netlink.Route) {
	r.Table = unix.RT_TABLE_MAIN
	if s.cfg.V6 {
		if r.Priority == 0 {
			r.Priority = 1024 // what the kernel gives an IPv6 route added without a metric
		}
		if r.LinkIndex == 0 {
			r.LinkIndex = 1 // IPv6 special routes sit on lo
		}
	}
	k := mocknetlink.KeyForRoute(&r)
	name := s.ifaceNameOf(r.LinkIndex)
	if old, ok := s.dp.RouteKeyToRoute[k]; ok && c17Ours(s.ifaceNameOf(old.LinkIndex), &old) && !c17Ours(name, &r) {
		s.contested[k] = true
	}
	if !c17Ours(name, &r) && VerifBelievesRouteAt(s.rt, RouteKey{CIDR: ip.CIDRFromIPNet(r.Dst), Priority: r.Priority}) {
		// Felix still believes one of its own routes sits at this key (e.g. the kernel dropped it with
		// the interface): it deletes/replaces by key, so the newcomer is not protected until Felix re-reads
		s.contested[k] = true
	}
	s.dp.AddMockRoute(&r)
	if !c17Ours(name, &r) && !s.contested[k] {
		s.foreign[k] = c17RenderRoute(s.dp.RouteKeyToRoute[k])
	}
	s.routeDrift = true
}

func c17Net(c string) *net.IPNet {
	n := ip.MustParseCIDROrIP(c).ToIPNet()
	return &n
}

func c17Apply(s *c17State, e c17Ev) {
	s.hist = append(s.hist, e)
	s.nontriv = false
	s.out = e.Op
	switch e.Op {
	case "init":
		if strings.Contains(e.Init, "ifaces") {
			s.dp.AddIface(10, "cali1", true, true)
			s.dp.AddIface(11, "cali2", true, true)
		}
		if strings.Contains(e.Init, "foreign") {
			s.addForeign(netlink.Route{Dst: s.net("192.168.0.0/24"), LinkIndex: 2, Protocol: unix.RTPROT_STATIC, Scope: netlink.SCOPE_LINK, Type: unix.RTN_UNICAST})
			s.addForeign(netlink.Route{Dst: s.net("0.0.0.0/0"), LinkIndex: 2, Gw: s.gwip("192.168.0.1"), Protocol: unix.RTPROT_DHCP, Type: unix.RTN_UNICAST})
		}
		if strings.Contains(e.Init, "stale") {
			// leftovers of an earlier Felix
			s.addForeign(netlink.Route{Dst: s.net("10.9.9.0/24"), LinkIndex: 2, Gw: s.gwip("192.168.0.9"), Protocol: 80, Type: unix.RTN_UNICAST})
			s.addForeign(netlink.Route{Dst: s.net("10.8.0.0/16"), Type: unix.RTN_BLACKHOLE, Protocol: 80})
			s.addForeign(netlink.Route{Dst: s.net(c17X), LinkIndex: 5, Gw: s.gwip("10.0.1.7"), Protocol: 80, Type: unix.RTN_UNICAST, Flags: unix.RTNH_F_ONLINK})
		}
		if strings.Contains(e.Init, "want") {
			s.wantSet("L", "cali1")[s.X()] = true
			s.sendSet("L", "cali1")
			s.wantSet("V", "vxlan.calico")[s.X()] = true
			s.wantSet("V", "vxlan.calico")[s.Y()] = true
			s.sendSet("V", "vxlan.calico")
			s.wantSet("B", InterfaceNone)[s.Y()] = true
			s.sendSet("B", InterfaceNone)
			if strings.Contains(e.Init, "+mp") {
				// (kept out of the other starting states: once a RouteTable has seen a multi-path
				// target every interface-up event forces a FULL resync, which would hide the
				// per-interface rescan path)
				s.wantSet("M", InterfaceNone)[s.W("M1")] = true
				s.sendSet("M", InterfaceNone)
			}
		}
		s.routeDrift = false // the first Apply of a new RouteTable is a full resync anyway
		if strings.Contains(e.Init, "synced") {
			s.apply(nil, "init")
		}
	case "set":
		w := s.wantSet(e.Class, e.Iface)
		for k := range w {
			delete(w, k)
		}
		for _, c := range e.CIDRs {
			w[c] = true
		}
		s.sendSet(e.Class, e.Iface)
	case "upd":
		s.wantSet(e.Class, e.Iface)[e.CIDRs[0]] = true
		s.rt.RouteUpdate(c17Classes[e.Class], e.Iface, s.target(e.Class, e.CIDRs[0]))
	case "rem":
		delete(s.wantSet(e.Class, e.Iface), e.CIDRs[0])
		rc, rp := c17Split(e.CIDRs[0])
		s.rt.RouteRemove(c17Classes[e.Class], e.Iface, RouteKey{CIDR: ip.MustParseCIDROrIP(rc), Priority: rp})
	case "k-if": // the kernel's view of an interface changes (and maybe the monitor tells Felix)
		l := s.link(e.Iface)
		switch e.V {
		case "down":
			if l != nil {
				s.dp.SetIface(e.Iface, false, false)
				s.purge(l.LinkAttrs.Index, false)
			}
		case "up":
			if l != nil {
				s.dp.SetIface(e.Iface, true, true)
			}
		case "del":
			if l != nil {
				s.purge(l.LinkAttrs.Index, true)
				s.dp.DelIface(e.Iface)
			}
		case "add": // (re)created with a fresh ifindex
			if l == nil {
				s.dp.AddIface(s.nextIdx, e.Iface, true, true)
				s.nextIdx++
			}
		}
		s.ifaceDrift[e.Iface] = true
		if e.Notify {
			s.notify(e.Iface)
		}
	case "notify":
		s.notify(e.Iface)
	case "x-route":
		switch e.V {
		case "foreign-eth0":
			s.addForeign(netlink.Route{Dst: s.net("172.16.0.0/16"), LinkIndex: 2, Protocol: unix.RTPROT_STATIC, Type: unix.RTN_UNICAST, Scope: netlink.SCOPE_LINK})
		case "foreign-same-dst-other-metric": // same destination as a Felix route, different metric, not Felix's
			s.addForeign(netlink.Route{Dst: s.net(c17X), LinkIndex: 2, Priority: 100, Gw: s.gwip("192.168.0.1"), Protocol: unix.RTPROT_STATIC, Type: unix.RTN_UNICAST})
		case "felix-proto-eth0": // carries Felix's exclusive protocol: Felix's to clean up
			s.addForeign(netlink.Route{Dst: s.net("10.9.9.0/24"), LinkIndex: 2, Gw: s.gwip("192.168.0.9"), Protocol: 80, Type: unix.RTN_UNICAST})
		case "on-cali1": // any route on a workload interface is Felix's (RemoveExternalRoutes)
			if l := s.link("cali1"); l != nil {
				s.addForeign(netlink.Route{Dst: s.net("10.0.0.9/32"), LinkIndex: l.LinkAttrs.Index, Protocol: unix.RTPROT_KERNEL, Type: unix.RTN_UNICAST, Scope: netlink.SCOPE_LINK})
			}
		case "del-X": // somebody deletes Felix's route
			for k, r := range s.dp.RouteKeyToRoute {
				xc, xp := c17Split(s.normKey(s.X()))
				if r.Dst.String() == xc && r.Priority == xp {
					delete(s.dp.RouteKeyToRoute, k)
					delete(s.foreign, k)
				}
			}
			s.routeDrift = true
		case "hijack-X": // somebody re-points Felix's route
			s.addForeign(netlink.Route{Dst: s.net(c17X), LinkIndex: 2, Gw: s.gwip("192.168.0.66"), Protocol: unix.RTPROT_STATIC, Type: unix.RTN_UNICAST})
		}
	case "resync":
		s.rt.QueueResync()
	case "tick":
		s.tm.IncrementTime(s.cfg.Grace + time.Second)
	case "restart":
		s.restart()
	case "apply":
		s.apply(e.Faults, "apply")
	default:
		panic("bad op " + e.Op)
	}
	s.key = s.computeKey()
	s.evOut, s.evNontriv = s.out, s.nontriv
}

func c17Replay(cfg c17Cfg, hist []c17Ev) *c17State {
	s := c17New(cfg)
	for _, e := range hist {
		c17Apply(s, e)
	}
	return s
}

func c17DryRun(s *c17State, faults []c17Fault) (calls []string, routeKeys [][]string) {
	_ = vk.Catch(func() error {
		cl := c17Replay(s.cfg, s.hist)
		cl.rec = &calls
		defer func() { routeKeys = cl.recRouteKeys }()
		cl.apply(faults, "dry-run")
		return nil
	})
	return
}

func c17Points(calls []string, routeKeys [][]string, after map[string]int) []c17Fault {
	var out []c17Fault
	cnt := map[string]int{}
	for _, c := range calls {
		cnt[c]++
		if cnt[c] <= after[c] {
			continue
		}
		for _, m := range c17Modes[c] {
			out = append(out, c17Fault{Call: c, N: cnt[c], Mode: m})
		}
		if c == "RouteList" && cnt[c] <= len(routeKeys) {
			// the dump is interrupted and, before the retry, another actor removes one of the routes
			// it has just reported (each of them in turn) or adds one
			for _, k := range routeKeys[cnt[c]-1] {
				out = append(out, c17Fault{Call: c, N: cnt[c], Mode: "eintr-del", Arg: k})
			}
			out = append(out, c17Fault{Call: c, N: cnt[c], Mode: "eintr-add"})
		}
	}
	return out
}

func c17Enabled(s *c17State, depth int) []c17Ev {
	if depth == 0 {
		return []c17Ev{{Op: "init", Init: "bare"}, {Op: "init", Init: "ifaces+foreign"}, {Op: "init", Init: "ifaces+foreign+stale"},
			{Op: "init", Init: "ifaces+foreign+want"}, {Op: "init", Init: "ifaces+foreign+want+synced"}, {Op: "init", Init: "ifaces+foreign+stale+want+synced"}, {Op: "init", Init: "ifaces+foreign+want+mp+synced"}}
	}
	var evs []c17Ev
	add := func(e c17Ev) { evs = append(evs, e) }
	add(c17Ev{Op: "set", Class: "L", Iface: "cali1", CIDRs: []string{s.X()}})
	add(c17Ev{Op: "set", Class: "L", Iface: "cali1", CIDRs: []string{s.X(), s.Z()}})
	add(c17Ev{Op: "set", Class: "L", Iface: "cali1"})
	add(c17Ev{Op: "set", Class: "L", Iface: "cali2", CIDRs: []string{s.X()}})
	add(c17Ev{Op: "set", Class: "L", Iface: "cali2"})
	add(c17Ev{Op: "upd", Class: "V", Iface: "vxlan.calico", CIDRs: []string{s.X()}})
	add(c17Ev{Op: "rem", Class: "V", Iface: "vxlan.calico", CIDRs: []string{s.X()}})
	add(c17Ev{Op: "upd", Class: "V", Iface: "vxlan.calico", CIDRs: []string{s.Y()}})
	add(c17Ev{Op: "rem", Class: "V", Iface: "vxlan.calico", CIDRs: []string{s.Y()}})
	add(c17Ev{Op: "set", Class: "B", Iface: InterfaceNone, CIDRs: []string{s.Y()}})
	add(c17Ev{Op: "set", Class: "B", Iface: InterfaceNone})
	add(c17Ev{Op: "set", Class: "M", Iface: InterfaceNone, CIDRs: []string{s.W("M1")}})
	add(c17Ev{Op: "set", Class: "M", Iface: InterfaceNone, CIDRs: []string{s.W("M2")}})
	add(c17Ev{Op: "set", Class: "M", Iface: InterfaceNone})
	for _, ifc := range []string{"cali1", "cali2", "vxlan.calico"} {
		l := s.link(ifc)
		var ops []string
		switch {
		case l == nil:
			ops = []string{"add"}
		case s.operUp(ifc):
			ops = []string{"down", "del"}
		default:
			ops = []string{"up", "del"}
		}
		for _, op := range ops {
			add(c17Ev{Op: "k-if", Iface: ifc, V: op, Notify: true})
			add(c17Ev{Op: "k-if", Iface: ifc, V: op})
		}
		if s.ifaceDrift[ifc] {
			add(c17Ev{Op: "notify", Iface: ifc})
		}
	}
	for _, x := range []string{"foreign-eth0", "foreign-same-dst-other-metric", "felix-proto-eth0", "on-cali1", "del-X", "hijack-X"} {
		add(c17Ev{Op: "x-route", V: x})
	}
	add(c17Ev{Op: "resync"})
	add(c17Ev{Op: "restart"})
	if s.cfg.Grace > 0 {
		add(c17Ev{Op: "tick"})
	}
	add(c17Ev{Op: "apply"})
	if s.cfg.MaxFaults >= 1 {
		calls, rkeys := c17DryRun(s, nil)
		for _, f1 := range c17Points(calls, rkeys, nil) {
			add(c17Ev{Op: "apply", Faults: []c17Fault{f1}})
			if s.cfg.MaxFaults >= 2 {
				calls2, rkeys2 := c17DryRun(s, []c17Fault{f1})
				// second fault strictly later in the call sequence than the first
				after := map[string]int{}
				seen := map[string]int{}
				passed := false
				for _, c := range calls2 {
					seen[c]++
					if !passed {
						after[c] = seen[c]
					}
					if c == f1.Call && seen[c] == f1.N {
						passed = true
					}
				}
				for _, f2 := range c17Points(calls2, rkeys2, after) {
					add(c17Ev{Op: "apply", Faults: []c17Fault{f1, f2}})
				}
			}
		}
	}
	return evs
}

func (s *c17State) computeKey() string {
	var w []string
	for c, m := range s.want {
		for i, cs := range m {
			for x := range cs {
				w = append(w, c+"/"+i+"/"+x)
			}
		}
	}
	sort.Strings(w)
	var f []string
	for k := range s.foreign {
		f = append(f, k)
	}
	sort.Strings(f)
	var d []string
	for k := range s.ifaceDrift {
		d = append(d, k)
	}
	for k := range s.contested {
		d = append(d, "contested:"+k)
	}
	if s.partialListFailed {
		d = append(d, "plf")
	}
	sort.Strings(d)
	return "K:" + s.kernelString() + "|W:" + strings.Join(w, ",") + "|F:" + strings.Join(f, ",") +
		fmt.Sprintf("|drift:%v/%s|open:%v|cf:%d|err:%v|", s.routeDrift, strings.Join(d, ","), s.dp.NetlinkOpen, s.connectFails, s.lastErr != nil) +
		VerifState(s.rt)
}

func c17Check(s *c17State, hist []c17Ev) []hbfs.Fail {
	if len(hist) == 0 {
		return nil
	}
	settle := func(where string) bool {
		for i := 0; i < 4; i++ {
			err := s.apply(nil, where)
			if s.cfg.Grace > 0 && !s.graceOver {
				// let the clean-up grace period of every interface seen so far run out, then go again
				s.tm.IncrementTime(s.cfg.Grace + time.Second)
				s.graceOver = true
				continue
			}
			if err == nil {
				return true
			}
		}
		s.fail(where+":apply-keeps-failing", "4 consecutive fault-free Apply() calls all returned an error (last: %v); kernel: %s", s.lastErr, s.kernelString())
		return false
	}
	// Probe A: no faults, no resync request — Felix's own bookkeeping must get the kernel right.
	if s.noDrift() {
		if settle("probe-plain") {
			s.checkExact("probe-plain:settled")
		}
	}
	// Probe B: a resync request and fault-free Applies: from ANY reachable state the kernel must end
	// up with exactly the resolved desired routes among those Felix owns, everything else untouched.
	s.rt.QueueResync()
	s.graceOver = false
	if settle("probe-resync") {
		if !s.noDrift() {
			s.fail("harness:drift-after-resync", "harness bookkeeping: drift still set after a successful full resync")
		}
		s.checkExact("probe-resync:settled")
		s.checkForeign("probe-resync:settled")
	}
	return s.bad
}

func c17PanicKey(val string, hist []c17Ev) string {
	first := strings.SplitN(val, "\n", 2)[0]
	first = regexp.MustCompile(`0x[0-9a-f]+`).ReplaceAllString(first, "0x?")
	if len(first) > 100 {
		first = first[:100]
	}
	return "C17:panic:" + first
}

func c17Spec(cfg c17Cfg, depth int, tree bool) *hbfs.Spec[*c17State, c17Ev] {
	mode := "graph"
	if tree {
		mode = "tree"
	}
	sp := &hbfs.Spec[*c17State, c17Ev]{
		Name:       fmt.Sprintf("routetable-%s%s-f%d-grace%ds-d%d", mode, map[bool]string{true: "-v6", false: ""}[cfg.V6], cfg.MaxFaults, int(cfg.Grace/time.Second), depth),
		New:        func() *c17State { return c17New(cfg) },
		Apply:      c17Apply,
		Enabled:    c17Enabled,
		Check:      c17Check,
		Key:        func(s *c17State) string { return s.key },
		Nontrivial: func(s *c17State) bool { return s.evNontriv },
		Outcome:    func(s *c17State) string { return s.evOut },
		PanicKey:   c17PanicKey,
		MaxDepth:   depth,
		Workers:    6,
	}
	if tree {
		sp.Key = nil
	}
	return sp
}

type c17Discard struct{}

func (c17Discard) Write(p []byte) (int, error) { return len(p), nil }

func TestVerif_C17(t *testing.T) {
	logrus.SetLevel(logrus.PanicLevel)
	logrus.SetOutput(c17Discard{})
	vk.Run(t, "C17", func(c *vk.Ctx) {
		c.Rule("states = (mocknetlink kernel: interfaces with index/oper state + main routing table, routes other software owns, desired routes per class/interface, RouteTable's internal view: inputs, conflict-resolution result, delta tracker desired/dataplane, interface maps, rescan set, resync flag, grace info, netlink connection state) over 3 CIDRs (two of them claimed by two route classes each; explored for an IPv4 and for an IPv6 RouteTable, the latter with default-metric routes (normalised to 1024) and one explicit metric), classes LocalWorkload (cali1, cali2), VXLANTunnel (vxlan.calico), BlackholeVXLAN (no interface), plus one multi-path route (2 next hops over cali1/cali2, two variants differing only in one hop's interface), 7 starting kernels (bare / interfaces+foreign routes / +leftover Felix routes / with a desired state, not yet or already applied); " +
			"transitions = one API call, an interface going down/up/away/re-created with a new index in the kernel (with or without the monitor telling Felix), the late notification, a route edit by other software (6 kinds), QueueResync, restart, or Apply with at most N injected netlink failures (fault points = every netlink call of that Apply x its failure modes, from a dry run; for every route dump additionally: the dump is flagged interrupted (EINTR) and, before Felix retries it, another actor deletes one of the routes just reported — each in turn — or adds a route); " +
			"every state is followed by fault-free probe Applies without and with resync; non-trivial = Apply that wrote routes or hit a fault")
		c.Assume("the kernel behaves like felix/netlinkshim/mocknetlink, extended in the harness with: RouteReplace through a missing/down interface is refused (ENODEV/ENETDOWN); routes of an interface that goes down or is deleted are dropped by the kernel")
		c.Assume("other software does not take over, behind Felix's back, a route key at which Felix currently believes one of its own routes to sit (Felix deletes and replaces by key); such a newcomer is exempt from the 'foreign routes untouched' oracle until Felix has re-read the table. (Route edits by other software after start-up go beyond the property's quantifier anyway.)")
		c.Assume("ownership = the real ownershippol.NewMainTable(vxlan.calico, RTPROT_BOOT, [cali], removeExternalRoutes=true) policy; a foreign route with exactly the key (dst, metric) of a desired Felix route is legitimately replaced (documented behaviour)")
		c.Assume("conntrack clean-up is switched off (WithConntrackCleanup(false)); static ARP entries are not used; main routing table only; IPv4 and IPv6 instances are explored separately")
		c.Assume("the 4th consecutive netlink connection failure makes Felix panic on purpose; the harness treats that as crash + restart, not as a violation")
		c.Assume("Go map iteration order inside RouteTable (order of RouteReplace/RouteDel calls) is not controlled; the n-th call of a kind may hit a different route in different executions")
		quick := c17Cfg{MaxFaults: 1}
		if rf := c.ReplayFile(); rf != "" {
			var d struct {
				Spec    string
				History []string
			}
			if err := vk.LoadReplay(rf, &d); err != nil {
				c.ToolError(err.Error())
				return
			}
			cfg := c17Cfg{MaxFaults: 2}
			if strings.Contains(d.Spec, "-grace10s-") {
				cfg.Grace = 10 * time.Second
			}
			cfg.V6 = strings.Contains(d.Spec, "-v6-")
			// (replay every prefix on a fresh instance, as the explorer does: Check's probes drive the
			// instance further, so it must not run between the steps of one instance)
			var fails []hbfs.Fail
			var evs []c17Ev
			for _, h := range d.History {
				var e c17Ev
				if err := json.Unmarshal([]byte(h), &e); err != nil {
					c.ToolError("bad event in replay file: " + err.Error())
					return
				}
				evs = append(evs, e)
			}
			for i := 1; i <= len(evs); i++ {
				if err := vk.Catch(func() error {
					fails = append(fails, c17Check(c17Replay(cfg, evs[:i]), evs[:i])...)
					return nil
				}); err != nil {
					fails = append(fails, hbfs.Fail{Key: c17PanicKey(err.Error(), nil), Msg: err.Error()})
					break
				}
			}
			for _, f := range fails {
				c.Violation(f.Key, map[string]any{"spec": d.Spec, "history": d.History, "msg": f.Msg})
			}
			c.Add("states", 1)
			c.Add("transitions", int64(len(d.History)))
			return
		}
		if err := vk.Catch(func() error {
			s := c17New(quick)
			h := []c17Ev{{Op: "init", Init: "ifaces+foreign+stale+want+synced"}, {Op: "apply"}, {Op: "k-if", Iface: "cali1", V: "del", Notify: true},
				{Op: "apply", Faults: []c17Fault{{Call: "RouteReplace", N: 1, Mode: "err"}}}}
			var hs []string
			for _, e := range h {
				c17Apply(s, e)
				hs = append(hs, e.String())
			}
			c.Sample(map[string]any{"history": hs, "netlink_calls_of_last_apply": s.lastCalls, "kernel_after": s.kernelString(), "outcome": s.out})
			return nil
		}); err != nil {
			c.Violation(c17PanicKey(err.Error(), nil), map[string]any{"where": "sample history", "panic": err.Error()})
		}
		if c.Quick() {
			hbfs.Explore(c, c17Spec(quick, 4, false))
			hbfs.Explore(c, c17Spec(c17Cfg{MaxFaults: 1, V6: true}, 4, false))
		} else {
			// small explorations first, so that a deadline hit on a loaded machine cuts the big ones
			hbfs.Explore(c, c17Spec(quick, 3, true))
			hbfs.Explore(c, c17Spec(c17Cfg{MaxFaults: 1, Grace: 10 * time.Second}, 4, false))
			hbfs.Explore(c, c17Spec(c17Cfg{MaxFaults: 2}, 4, false))
			hbfs.Explore(c, c17Spec(quick, 5, false))
			hbfs.Explore(c, c17Spec(c17Cfg{MaxFaults: 1, V6: true}, 5, false))
		}
		c17AssertMu.Lock()
		for m, n := range c17Asserts {
			c.Violation("C17:mocknetlink-assertion:"+m, map[string]any{"count": n, "msg": m})
		}
		c17AssertMu.Unlock()
	})
}

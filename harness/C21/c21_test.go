package hipam

// C21 — IPAM release is safe against stale requests and honours cooldown.
// Shape H: explicit-state search (engine hbfs) of every short history of assign / release (with and
// without sequence number and handle, current or stale) / release-by-handle / time advance through
// the REAL ipamClient over casstore, with a reference model written from the statement. One block of
// four addresses so that every reuse decision is observable. Time is the logical clock (vclock): an
// "advance" event moves it by 300 s or 700 s; cooldown is 600 s (second spec: cooldown 0).

import (
	"fmt"
	"sort"
	"strings"
	"testing"
	"time"

	v3 "github.com/projectcalico/api/pkg/apis/projectcalico/v3"

	"github.com/projectcalico/calico/libcalico-go/lib/backend/model"
	"github.com/projectcalico/calico/libcalico-go/lib/ipam"
	cnet "github.com/projectcalico/calico/libcalico-go/lib/net"
	"github.com/projectcalico/calico/zzverif/hbfs"
	"github.com/projectcalico/calico/zzverif/vclock"
	"github.com/projectcalico/calico/zzverif/vk"
)

type c21Ev struct {
	Kind   string // assign | release | rbh | advance
	H      string // handle (assign, rbh) / whose remembered address is targeted (release)
	Seq    string // release: none | recorded | bogus
	Handle string // release: none | own | other
}

func (e c21Ev) String() string {
	switch e.Kind {
	case "release":
		return fmt.Sprintf("release addr-of-%s seq=%s handle=%s", e.H, e.Seq, e.Handle)
	case "assignip":
		return "assignip " + e.H + " handle=b"
	case "advance":
		return "advance " + e.H + "s"
	}
	return e.Kind + " " + e.H
}

func c21Events() []c21Ev {
	evs := []c21Ev{{Kind: "assign", H: "a"}, {Kind: "assign", H: "b"}}
	for _, h := range []string{"a", "b"} {
		for _, sq := range []string{"none", "recorded", "bogus"} {
			for _, hm := range []string{"none", "own", "other"} {
				evs = append(evs, c21Ev{Kind: "release", H: h, Seq: sq, Handle: hm})
			}
		}
	}
	// a handle-less allocation (HandleID nil; client "n") and releases of the address it was granted:
	// naming no handle, or naming handle a (which can never be the handle-less holder's)
	evs = append(evs, c21Ev{Kind: "assign", H: "n"})
	for _, sq := range []string{"none", "recorded", "bogus"} {
		evs = append(evs, c21Ev{Kind: "release", H: "n", Seq: sq, Handle: "none"})
	}
	for _, sq := range []string{"none", "recorded"} {
		evs = append(evs, c21Ev{Kind: "release", H: "n", Seq: sq, Handle: "other"})
	}
	// the host gives up its block affinity: "only if the block is empty" (deletes an empty block) and
	// unconditionally (a non-empty block lives on without affinity, later addresses are borrowed from
	// it and it is deleted with its last address) - the paths that can delete a block and, with
	// it, the cooldown records it holds
	evs = append(evs, c21Ev{Kind: "relhost", H: "if-empty"}, c21Ev{Kind: "relhost", H: "always"})
	evs = append(evs, c21Ev{Kind: "rbh", H: "a"}, c21Ev{Kind: "rbh", H: "b"}, c21Ev{Kind: "advance", H: "300"}, c21Ev{Kind: "advance", H: "700"})
	return evs
}

// reference model of one address, from the statement
type c21Addr struct {
	Alloc     bool
	Handle    string
	Seq       uint64
	Released  bool      // has been released at least once and not re-assigned since
	FreeSince time.Time // when it was released (zero: free since the beginning)
}

type c21State struct {
	w        *ipamWorld
	cooldown int
	addrs    map[string]*c21Addr // model, by address
	lastIP   map[string]string   // per client handle: the address it was last granted
	lastSeq  map[string]uint64   // ... and the sequence number it recorded for it
	fails    []hbfs.Fail
	last     string
	// the block's persisted free queue: address -> number of the event whose persisted write put it
	// on the stored Unallocated list ("freed"); addresses freed by the same write are tied
	queued  map[string]int
	hasBlk  bool
	eventNo int
}

// syncQueue reads the stored free queue after an event and stamps newly queued addresses.
func (s *c21State) syncQueue() {
	s.eventNo++
	if s.queued == nil {
		s.queued = map[string]int{}
	}
	onQueue := map[string]bool{}
	s.hasBlk = false
	for _, vb := range s.w.blocks() {
		s.hasBlk = true
		for _, o := range vb.B.Unallocated {
			ip := vb.B.OrdinalToIP(o).String()
			onQueue[ip] = true
			if _, ok := s.queued[ip]; !ok {
				s.queued[ip] = s.eventNo
			}
		}
	}
	for ip := range s.queued {
		if !onQueue[ip] {
			delete(s.queued, ip)
		}
	}
}

func c21New(cooldown, naddr int) *c21State {
	pool := vPool{Name: "p1", CIDR: "10.0.0.0/30", BlockSize: 30}
	all := []string{"10.0.0.0", "10.0.0.1", "10.0.0.2", "10.0.0.3"}
	if naddr == 2 {
		pool = vPool{Name: "p1", CIDR: "10.0.0.0/31", BlockSize: 31}
		all = all[:2]
	}
	cfg := worldCfg{
		Pools:  []vPool{pool},
		Nodes:  map[string]map[string]string{"n1": nil},
		Config: &model.IPAMConfig{StrictAffinity: false, AutoAllocateBlocks: true, IPCooldownSeconds: cooldown},
	}
	s := &c21State{w: newIPAMWorld(cfg), cooldown: cooldown, addrs: map[string]*c21Addr{}, lastIP: map[string]string{}, lastSeq: map[string]uint64{}}
	for _, ip := range all {
		s.addrs[ip] = &c21Addr{}
	}
	return s
}

func other(h string) string {
	if h == "a" {
		return "b"
	}
	return "a" // for b, and for the handle-less client n
}

// proj: allocation-relevant projection of the store (no revisions / sequence numbers of the block
// itself / time stamps): used for "the state must not change".
func (s *c21State) proj() string { return s.projSeq(true) }

func (s *c21State) projSeq(withSeq bool) string {
	var b strings.Builder
	for _, vb := range s.w.blocks() {
		aff := "-"
		if vb.B.Affinity != nil {
			aff = *vb.B.Affinity
		}
		fmt.Fprintf(&b, "%s aff=%s free=%v [", vb.CIDR, aff, vb.B.Unallocated)
		for o, ai := range vb.B.Allocations {
			if ai == nil {
				continue
			}
			at := vb.B.Attributes[*ai]
			h := ""
			if at.HandleID != nil {
				h = *at.HandleID
			}
			fmt.Fprintf(&b, "%d=%s/cool=%v", o, h, at.ReleasedAt != nil)
			if withSeq {
				fmt.Fprintf(&b, "/seq=%d", vb.B.GetSequenceNumberForOrdinal(o))
			}
			b.WriteString(" ")
		}
		b.WriteString("]")
	}
	hs := s.w.handles()
	names := make([]string, 0, len(hs))
	for h := range hs {
		names = append(names, h)
	}
	sort.Strings(names)
	for _, h := range names {
		fmt.Fprintf(&b, " H%s=%v", h, hs[h])
	}
	for _, a := range s.w.affinities() {
		fmt.Fprintf(&b, " A%s:%s:%s", a.Host, a.CIDR, a.State)
	}
	return b.String()
}

func c21Apply(s *c21State, e c21Ev) {
	w := s.w
	w.bind()
	defer vclock.Unbind()
	fail := func(class, msg string) {
		s.fails = append(s.fails, hbfs.Fail{Key: "C21:" + class, Msg: fmt.Sprintf("cooldown=%ds %s: %s", s.cooldown, e.String(), msg)})
	}
	cd := time.Duration(s.cooldown) * time.Second
	switch e.Kind {
	case "advance":
		if e.H == "700" {
			w.clock.Advance(700 * time.Second)
		} else {
			w.clock.Advance(300 * time.Second)
		}
		s.last = "advance"
	case "assign":
		now := w.clock.Peek()
		h := e.H
		args := ipam.AutoAssignArgs{Num4: 1, Hostname: "n1", HandleID: &h, IntendedUse: v3.IPPoolAllowedUseWorkload}
		if e.H == "n" {
			h = "" // client "n" allocates WITHOUT a handle
			args.HandleID = nil
		}
		v4, _, err := w.ic.AutoAssign(w.ctx, args)
		if v4 == nil || len(v4.IPs) == 0 {
			s.last = "assign:none:" + errClass(err)
			break
		}
		ip := v4.IPs[0].IP.String()
		m := s.addrs[ip]
		if m == nil {
			fail("assigned-address-outside-block", ip)
			break
		}
		s.last = "assign:fresh"
		if m.Alloc {
			fail("assigned-address-already-allocated", fmt.Sprintf("%s handed to %s while allocated to %s", ip, h, m.Handle))
		}
		if m.Released {
			s.last = "assign:reuse"
			elapsed := now.Sub(m.FreeSince)
			// stored time stamps are second-granular: allow one second of slack
			if elapsed < cd-time.Second {
				fail("reused-before-cooldown", fmt.Sprintf("%s re-assigned %.1fs after its release, cooldown is %ds", ip, elapsed.Seconds(), s.cooldown))
			}
		}
		// longest-free first, judged on the block's PERSISTED free queue: an address is "freed" when a
		// stored write puts it on the Unallocated list (release only starts its cooldown); addresses
		// freed by the same write are tied. The address handed out must come from the earliest
		// batch on the stored queue, and an address that only leaves its cooldown during this very
		// call may be used only if the stored queue was empty.
		if s.hasBlk {
			if myBatch, wasQueued := s.queued[ip]; wasQueued {
				for oip, ob := range s.queued {
					if oip != ip && ob < myBatch {
						fail("reuse-not-longest-free-first:queued-address-passed-over", fmt.Sprintf("%s (on the stored free queue since event %d) was handed out although %s has been on it since event %d", ip, myBatch, oip, ob))
					}
				}
			} else if len(s.queued) > 0 {
				var waiting []string
				for oip := range s.queued {
					waiting = append(waiting, oip)
				}
				sort.Strings(waiting)
				fail("reuse-not-longest-free-first:just-cooled-address-jumped-the-queue", fmt.Sprintf("%s was not on the stored free queue (it left its cooldown during this call) yet was handed out before the queued %v", ip, waiting))
			}
		}
		seq := w.allocs()[ip].Seq
		*m = c21Addr{Alloc: true, Handle: h, Seq: seq}
		s.lastIP[e.H], s.lastSeq[e.H] = ip, seq
	case "relhost":
		err := w.ic.ReleaseHostAffinities(w.ctx, ipam.AffinityConfig{AffinityType: ipam.AffinityTypeHost, Host: "n1"}, e.H == "if-empty")
		s.last = "relhost:" + e.H + ":" + errClass(err)
		// no clause of its own: what it may break (an allocation lost with a deleted block, a cooldown
		// record lost so that the address comes back too early) is caught by the model comparison
		// below and by the cooldown clause at the next hand-out
	case "assignip":
		// explicit assignment of one named address (to handle b): the caller chooses, so no queue-order
		// demand on THIS call; it must not take an allocated address nor one still in cooldown, and it
		// must remove exactly that address from the free queue (checked at the following hand-outs).
		now := w.clock.Peek()
		ip := e.H
		m := s.addrs[ip]
		h := "b"
		err := w.ic.AssignIP(w.ctx, ipam.AssignIPArgs{IP: cnet.MustParseIP(ip), Hostname: "n1", HandleID: &h})
		s.last = "assignip:" + errClass(err)
		if err != nil {
			break
		}
		if m.Alloc {
			fail("assigned-address-already-allocated", fmt.Sprintf("AssignIP handed %s to %s while it is allocated to %q", ip, h, m.Handle))
		}
		if m.Released {
			s.last = "assignip:reuse"
			if elapsed := now.Sub(m.FreeSince); elapsed < cd-time.Second {
				fail("reused-before-cooldown", fmt.Sprintf("AssignIP re-assigned %s %.1fs after its release, cooldown is %ds", ip, elapsed.Seconds(), s.cooldown))
			}
		}
		seq := w.allocs()[ip].Seq
		*m = c21Addr{Alloc: true, Handle: h, Seq: seq}
		s.lastIP[h], s.lastSeq[h] = ip, seq
	case "release":
		ip, known := s.lastIP[e.H]
		if !known {
			s.last = "release:no-address-known"
			break
		}
		m := s.addrs[ip]
		ro := ipam.ReleaseOptions{Address: ip}
		var namedSeq *uint64
		switch e.Seq {
		case "recorded":
			namedSeq = ptr(s.lastSeq[e.H])
		case "bogus":
			namedSeq = ptr(s.lastSeq[e.H] + 1000003)
		}
		ro.SequenceNumber = namedSeq
		namedHandle := ""
		switch e.Handle {
		case "own":
			if e.H != "n" {
				namedHandle = e.H
			}
		case "other":
			namedHandle = other(e.H)
		}
		ro.Handle = namedHandle
		before := s.proj()
		now := w.clock.Peek()
		_, _, err := w.ic.ReleaseIPs(w.ctx, ro)
		after := s.proj()
		st, stillThere := w.allocs()[ip]
		switch {
		case m.Alloc:
			stale := (namedSeq != nil && *namedSeq != m.Seq) || (namedHandle != "" && namedHandle != m.Handle)
			if stale {
				s.last = "release:stale:" + errClass(err)
				if !stillThere || st.Handle != m.Handle || st.Seq != m.Seq {
					fail("stale-release-freed-address", fmt.Sprintf("%s is allocated to %s (seq %d); the request named seq=%v handle=%q and freed it", ip, m.Handle, m.Seq, deref(namedSeq), namedHandle))
				} else if before != after {
					fail("stale-release-changed-state", fmt.Sprintf("before %s after %s", before, after))
				}
			} else {
				s.last = "release:valid:" + errClass(err)
				if !stillThere {
					*m = c21Addr{Released: true, FreeSince: now}
				}
			}
		default:
			// already released (or never allocated)
			s.last = "release:again:" + errClass(err)
			if stillThere {
				fail("release-of-free-address-allocated-it", ip)
			}
			if before != after {
				fail("repeated-release-changed-state", fmt.Sprintf("%s was not allocated; before %s after %s", ip, before, after))
			}
			if namedSeq == nil && err != nil {
				fail("repeated-release-failed", fmt.Sprintf("%s was not allocated, no sequence number named, yet the release failed: %v", ip, err))
			}
		}
	case "rbh":
		now := w.clock.Peek()
		err := w.ic.ReleaseByHandle(w.ctx, e.H)
		s.last = "rbh:" + errClass(err)
		live := w.allocs()
		for ip, m := range s.addrs {
			if !m.Alloc {
				continue
			}
			st, there := live[ip]
			if m.Handle == e.H {
				if err == nil && there {
					fail("release-by-handle-left-address", fmt.Sprintf("%s still allocated to %s after a successful release by handle", ip, e.H))
				}
				if !there {
					*m = c21Addr{Released: true, FreeSince: now}
				}
			} else if !there || st.Handle != m.Handle || st.Seq != m.Seq {
				fail("release-by-handle-freed-other-handle", fmt.Sprintf("%s of handle %s was affected by release of handle %s", ip, m.Handle, e.H))
			}
		}
	}
	s.syncQueue()
	// model and store agree on who holds what
	live := w.allocs()
	for ip, m := range s.addrs {
		st, there := live[ip]
		if m.Alloc && (!there || st.Handle != m.Handle) {
			fail("allocation-lost", fmt.Sprintf("%s should be allocated to %s, store says %+v (present=%v)", ip, m.Handle, st, there))
		}
		if !m.Alloc && there {
			fail("unexpected-allocation", fmt.Sprintf("%s should be free, store records handle %s", ip, st.Handle))
		}
	}
}

func deref(p *uint64) any {
	if p == nil {
		return "none"
	}
	return *p
}

// c21Key: store projection + model + what the clients remember + cooldown phase of every released
// address (elapsed time in 300 s steps, capped) and their release order.
func c21Key(s *c21State) string {
	var b strings.Builder
	b.WriteString(s.projSeq(false))
	now := s.w.clock.Peek()
	type rel struct {
		ip string
		t  time.Time
	}
	var rels []rel
	ips := make([]string, 0, len(s.addrs))
	for ip := range s.addrs {
		ips = append(ips, ip)
	}
	sort.Strings(ips)
	for _, ip := range ips {
		m := s.addrs[ip]
		if m.Released {
			rels = append(rels, rel{ip, m.FreeSince})
			steps := int(now.Sub(m.FreeSince) / (300 * time.Second))
			if steps > 3 {
				steps = 3
			}
			fmt.Fprintf(&b, " %s:rel+%d", ip, steps)
		}
	}
	sort.Slice(rels, func(i, j int) bool { return rels[i].t.Before(rels[j].t) })
	for _, r := range rels {
		b.WriteString(" >" + r.ip)
	}
	// tie structure of the stored free queue (batch ranks)
	var batches []int
	for _, bn := range s.queued {
		batches = append(batches, bn)
	}
	sort.Ints(batches)
	rank := map[int]int{}
	for _, bn := range batches {
		if _, ok := rank[bn]; !ok {
			rank[bn] = len(rank)
		}
	}
	qips := make([]string, 0, len(s.queued))
	for ip := range s.queued {
		qips = append(qips, ip)
	}
	sort.Strings(qips)
	for _, ip := range qips {
		fmt.Fprintf(&b, " q[%s]=%d", ip, rank[s.queued[ip]])
	}
	for _, h := range []string{"a", "b", "n"} {
		ip := s.lastIP[h]
		cur := false
		if ip != "" {
			m := s.addrs[ip]
			hh := h
			if h == "n" {
				hh = ""
			}
			cur = m.Alloc && m.Seq == s.lastSeq[h] && m.Handle == hh
		}
		fmt.Fprintf(&b, " last[%s]=%s/%v", h, ip, cur)
	}
	return b.String()
}

func TestVerif_C21(t *testing.T) {
	vk.Run(t, "C21", func(c *vk.Ctx) {
		c.Rule("histories over 32 events (incl. ReleaseHostAffinities only-if-empty / unconditional, which can delete the block) + AssignIP of each address of the block (to handle b; whatever its place in the free queue): assign(handle a|b, or WITHOUT a handle = client n), release of the address last granted to a|b x sequence number {none, the one the client recorded, a wrong one} x handle {none, own, the other}, release-by-handle a|b, advance 300 s, advance 700 s; one block of 4 addresses (/30) and one of 2 addresses (/31); cooldown 600 s and cooldown 0; tree mode (every history) to a small depth and graph mode (de-duplicated on store projection + model + clients' memory + cooldown phase) deeper; non-trivial = state with >=1 released address")
		c.Assume("reference model written from the statement; stored time stamps are second-granular, so 'cooldown passed' and 'free for longer' are judged with one second of slack; sequential use of the client")
		spec := func(cooldown, naddr int, graph bool, depth int) *hbfs.Spec[*c21State, c21Ev] {
			sp := &hbfs.Spec[*c21State, c21Ev]{
				Name:     fmt.Sprintf("C21/cooldown=%d/addrs=%d/%s", cooldown, naddr, map[bool]string{true: "graph", false: "tree"}[graph]),
				New:      func() *c21State { return c21New(cooldown, naddr) },
				Apply:    c21Apply,
				Enabled: func(s *c21State, _ int) []c21Ev {
					evs := c21Events()
					ips := make([]string, 0, len(s.addrs))
					for ip := range s.addrs {
						ips = append(ips, ip)
					}
					sort.Strings(ips)
					for _, ip := range ips { // AssignIP of every address of the block (head/middle/tail of the free queue)
						evs = append(evs, c21Ev{Kind: "assignip", H: ip})
					}
					return evs
				},
				Check:    func(s *c21State, _ []c21Ev) []hbfs.Fail { f := s.fails; s.fails = nil; return f },
				Close:    func(s *c21State) { s.w.close() },
				Show:     func(e c21Ev) string { return e.String() },
				Outcome:  func(s *c21State) string { return s.last },
				MaxDepth: depth, Workers: 8,
				Nontrivial: func(s *c21State) bool {
					for _, m := range s.addrs {
						if m.Released {
							return true
						}
					}
					return false
				},
			}
			if graph {
				sp.Key = c21Key
			}
			return sp
		}
		if rf := c.ReplayFile(); rf != "" {
			var d struct {
				Spec    string   `json:"spec"`
				History []string `json:"history"`
			}
			if err := vk.LoadReplay(rf, &d); err != nil {
				c.ToolError("cannot load replay: " + err.Error())
				return
			}
			cd := 600
			if strings.Contains(d.Spec, "cooldown=0") {
				cd = 0
			}
			na := 4
			if strings.Contains(d.Spec, "addrs=2") {
				na = 2
			}
			fails, err := hbfs.Replay(spec(cd, na, false, 99), d.History)
			if err != nil {
				c.ToolError(err.Error())
				return
			}
			c.Add("states", 1)
			c.Add("transitions", int64(len(d.History)))
			c.Sample(map[string]any{"replayed": d.History})
			for _, f := range fails {
				c.Violation(f.Key, map[string]any{"spec": d.Spec, "history": d.History, "msg": f.Msg})
			}
			return
		}
		fmt.Printf("INFO vclock fast goroutine-id path: %v\n", vclock.FastGoid())
		hbfs.Explore(c, spec(600, 4, false, c.Pick(2, 3)))
		hbfs.Explore(c, spec(600, 4, true, c.Pick(6, 8)))
		hbfs.Explore(c, spec(600, 2, true, c.Pick(8, 10)))
		hbfs.Explore(c, spec(0, 4, true, c.Pick(5, 7)))
		hbfs.Explore(c, spec(0, 2, true, c.Pick(6, 8)))
		// a written-out history: the ABA window
		s := c21New(600, 4)
		var hist []string
		for _, e := range []c21Ev{{Kind: "assign", H: "a"}, {Kind: "release", H: "a", Seq: "recorded", Handle: "own"}, {Kind: "advance", H: "300"}, {Kind: "advance", H: "700"},
			{Kind: "assign", H: "b"}, {Kind: "assign", H: "b"}, {Kind: "assign", H: "b"}, {Kind: "assign", H: "b"}, {Kind: "release", H: "a", Seq: "recorded", Handle: "own"}} {
			c21Apply(s, e)
			hist = append(hist, e.String()+" -> "+s.last)
		}
		c.Sample(map[string]any{"history": hist, "final_store": s.proj(), "oracle_failures": len(s.fails)})
		s.w.close()
		if n := vclock.UnboundReads(); n > 0 {
			c.ToolError(fmt.Sprintf("%d clock reads came from goroutines without a logical clock", n))
		}
	})
}

package labelindex

// C07 part B — candidate pruning never excludes a real match.
//
//  B1 (shape I): for every generated selector and every label map: if the selector matches, the
//      map satisfies every LabelRestriction the selector advertises, and a LabelRestrictionIndex
//      holding the selector offers it as a candidate for that item.
//  B2 (shape H): explicit-state search over LabelRestrictionIndex AddSelector/DeleteSelector
//      histories (3 ids x selector pool); oracle in every state as B1 for all present selectors,
//      plus: no candidate id that is not currently in the index.
//  B3 (shape I): the two pruned scans inside SelectorAndNamedPortIndex (iterEndpointCandidates when
//      an IP set arrives, AllPotentialMatches when an endpoint or parent arrives) against fixed
//      endpoint populations with inheritance: the members emitted equal direct evaluation.

import (
	"fmt"
	"iter"
	"sort"
	"strings"
	"sync"
	"sync/atomic"

	"github.com/projectcalico/calico/felix/ip"
	"github.com/projectcalico/calico/felix/labelindex/ipsetmember"
	"github.com/projectcalico/calico/felix/labelindex/labelrestrictionindex"
	"github.com/projectcalico/calico/lib/std/uniquelabels"
	"github.com/projectcalico/calico/lib/std/uniquestr"
	"github.com/projectcalico/calico/libcalico-go/lib/selector"
	"github.com/projectcalico/calico/libcalico-go/lib/selector/parser"
	"github.com/projectcalico/calico/zzverif/hbfs"
	"github.com/projectcalico/calico/zzverif/selgen"
	"github.com/projectcalico/calico/zzverif/vk"
)

type c07Labeled map[string]string

func (l c07Labeled) AllOwnAndParentLabelHandles() iter.Seq2[uniquestr.Handle, uniquestr.Handle] {
	return func(yield func(k, v uniquestr.Handle) bool) {
		ks := make([]string, 0, len(l))
		for k := range l {
			ks = append(ks, k)
		}
		sort.Strings(ks)
		for _, k := range ks {
			if !yield(uniquestr.Make(k), uniquestr.Make(l[k])) {
				return
			}
		}
	}
}

var c07Maps = selgen.LabelMaps([]string{"a", "b"}, []string{selgen.Absent, "1", "2", "3"})

func c07Restr(r parser.LabelRestriction) string {
	vals := "nil"
	if r.MustHaveOneOfValues != nil {
		var vs []string
		for _, h := range r.MustHaveOneOfValues {
			vs = append(vs, h.Value())
		}
		vals = "[" + strings.Join(vs, ",") + "]"
	}
	return fmt.Sprintf("{present:%v absent:%v oneOf:%s}", r.MustBePresent, r.MustBeAbsent, vals)
}

// c07CheckRestrictions is B1 for one selector.
func c07CheckRestrictions(c *vk.Ctx, src string, sel *selector.Selector, kind string) (calls int64) {
	lrs := sel.LabelRestrictions()
	idx := labelrestrictionindex.New[string]()
	idx.AddSelector("s", sel)
	calls += 2
	nMatch := 0
	for _, m := range c07Maps {
		calls++
		if !sel.Evaluate(m) {
			continue
		}
		nMatch++
		for ln, r := range lrs.All() {
			v, present := m[ln.Value()]
			det := map[string]any{"input": src, "labels": m, "label": ln.Value(), "restriction": c07Restr(r)}
			if r.MustBePresent && !present {
				c.Violation("C07:restriction-unsound:must-be-present:"+kind, det)
			}
			if r.MustBeAbsent && present {
				c.Violation("C07:restriction-unsound:must-be-absent:"+kind, det)
			}
			if r.MustHaveOneOfValues != nil {
				ok := false
				for _, h := range r.MustHaveOneOfValues {
					if present && h.Value() == v {
						ok = true
					}
				}
				if !ok {
					c.Violation("C07:restriction-unsound:one-of-values:"+kind, det)
				}
			}
		}
		found := false
		for id, s2 := range idx.AllPotentialMatches(c07Labeled(m)) {
			if id == "s" && s2 == sel {
				found = true
			}
		}
		calls++
		if !found {
			c.Violation("C07:candidate-index-excludes-match:"+kind, map[string]any{"input": src, "labels": m, "restrictions": lrs.String()})
		}
	}
	idx.DeleteSelector("s")
	for _, m := range c07Maps {
		for id := range idx.AllPotentialMatches(c07Labeled(m)) {
			c.Violation("C07:candidate-index:stale-id-after-delete:"+kind, map[string]any{"input": src, "labels": m, "id": id})
		}
		calls++
	}
	if lrs.Len() > 0 && nMatch > 0 {
		c.Outcome(fmt.Sprintf("restricted:%d-labels", lrs.Len()))
	} else if lrs.Len() > 0 {
		c.Outcome("restricted:matches-nothing-in-domain")
	} else {
		c.Outcome("unrestricted")
	}
	return
}

// ---- B3: populations -------------------------------------------------------------------------

type c07Ep struct {
	id      string
	own     map[string]string
	ownU    uniquelabels.Map
	parents []string
	cidr    ip.CIDR
}

type c07Pop struct {
	name      string
	parLabels map[string]map[string]string
	eps       []*c07Ep
}

func c07Pops() []*c07Pop {
	mk := func(name string, par map[string]map[string]string, owns []map[string]string, plists [][]string) *c07Pop {
		p := &c07Pop{name: name, parLabels: par}
		n := 0
		for _, o := range owns {
			for _, pl := range plists {
				n++
				e := &c07Ep{id: fmt.Sprintf("e%d", n), own: o, parents: pl, cidr: ip.MustParseCIDROrIP(fmt.Sprintf("10.0.%d.%d/32", len(name), n))}
				if o != nil {
					e.ownU = uniquelabels.Make(o)
				}
				p.eps = append(p.eps, e)
			}
		}
		return p
	}
	ownsA := []map[string]string{nil, {"a": "1"}, {"a": "2"}}
	var ownsAll []map[string]string
	for _, m := range selgen.LabelMaps([]string{"a", "b"}, []string{selgen.Absent, "1", "2"}) {
		ownsAll = append(ownsAll, m)
	}
	return []*c07Pop{
		mk("parent-only-b", map[string]map[string]string{"p1": {"b": "1"}, "p2": {"b": "2"}}, ownsA, [][]string{nil, {"p1"}, {"p2"}, {"p2", "p1"}}),
		mk("mixed", map[string]map[string]string{"p1": {"a": "1", "b": "2"}}, ownsAll, [][]string{nil, {"p1"}}),
		mk("tiny", map[string]map[string]string{"p1": {"a": "2"}, "p2": {"b": "1"}}, []map[string]string{{"a": "1"}}, [][]string{nil, {"p1"}, {"p2", "p1"}}),
	}
}

func (p *c07Pop) effective(e *c07Ep, withParents bool) map[string]string {
	out := map[string]string{}
	for k, v := range e.own {
		out[k] = v
	}
	if withParents {
		for _, pid := range e.parents {
			for k, v := range p.parLabels[pid] {
				if _, have := out[k]; !have {
					out[k] = v
				}
			}
		}
	}
	return out
}

type c07Tracker struct {
	members map[string]bool
	bad     []string
}

func c07NewNPIdx() (*SelectorAndNamedPortIndex, *c07Tracker) {
	tr := &c07Tracker{members: map[string]bool{}}
	idx := NewSelectorAndNamedPortIndex(false)
	idx.OnMemberAdded = func(set string, m ipsetmember.IPSetMember) {
		k := m.ToProtobufFormat()
		if tr.members[k] {
			tr.bad = append(tr.bad, "duplicate add of "+k)
		}
		tr.members[k] = true
	}
	idx.OnMemberRemoved = func(set string, m ipsetmember.IPSetMember) {
		k := m.ToProtobufFormat()
		if !tr.members[k] {
			tr.bad = append(tr.bad, "remove of absent "+k)
		}
		delete(tr.members, k)
	}
	return idx, tr
}

func (p *c07Pop) expect(sel *selector.Selector, withParents bool) map[string]bool {
	out := map[string]bool{}
	for _, e := range p.eps {
		if sel.Evaluate(p.effective(e, withParents)) {
			out[e.cidr.String()] = true
		}
	}
	return out
}

func c07SameSet(a, b map[string]bool) bool {
	if len(a) != len(b) {
		return false
	}
	for k := range a {
		if !b[k] {
			return false
		}
	}
	return true
}

func c07SetStr(m map[string]bool) []string {
	ks := make([]string, 0, len(m))
	for k := range m {
		ks = append(ks, k)
	}
	sort.Strings(ks)
	return ks
}

// c07CheckPop is B3 for one selector and one population.
func c07CheckPop(c *vk.Ctx, src string, sel *selector.Selector, p *c07Pop, kind string) (calls int64) {
	addParents := func(idx *SelectorAndNamedPortIndex) {
		for _, pid := range []string{"p1", "p2"} {
			if l, ok := p.parLabels[pid]; ok {
				idx.UpdateParentLabels(pid, l)
				calls++
			}
		}
	}
	addEps := func(idx *SelectorAndNamedPortIndex) {
		for _, e := range p.eps {
			idx.UpdateEndpointOrSet(e.id, e.ownU, []ip.CIDR{e.cidr}, nil, e.parents)
			calls++
		}
	}
	verdict := func(order string, tr *c07Tracker, want map[string]bool) {
		if len(tr.bad) > 0 {
			c.Violation("C07:pruned-scan:"+order+":event-stream", map[string]any{"input": src, "population": p.name, "problems": tr.bad})
		}
		if !c07SameSet(tr.members, want) {
			cls := "missing"
			if len(tr.members) > len(want) {
				cls = "spurious"
			}
			c.Violation("C07:pruned-scan:"+order+":"+cls+":"+kind, map[string]any{"input": src, "population": p.name, "got": c07SetStr(tr.members), "want": c07SetStr(want)})
		}
	}
	want := p.expect(sel, true)
	// order 1: endpoints and parents first, then the IP set (iterEndpointCandidates)
	idx, tr := c07NewNPIdx()
	addParents(idx)
	addEps(idx)
	idx.UpdateIPSet("s", sel, ipsetmember.ProtocolNone, "")
	calls++
	verdict("ipset-after-endpoints", tr, want)
	// ...then drop all parent labels: members must follow (updateParent + AllPotentialMatches)
	for _, pid := range []string{"p1", "p2"} {
		idx.DeleteParentLabels(pid)
		calls++
	}
	verdict("parent-labels-removed", tr, p.expect(sel, false))
	// order 2: IP set first, then endpoints, then parent labels (scanEndpointAgainstIPSets)
	idx, tr = c07NewNPIdx()
	idx.UpdateIPSet("s", sel, ipsetmember.ProtocolNone, "")
	addEps(idx)
	verdict("endpoints-after-ipset", tr, p.expect(sel, false))
	addParents(idx)
	verdict("parent-labels-after", tr, want)
	// order 3: parents, IP set, endpoints
	idx, tr = c07NewNPIdx()
	addParents(idx)
	idx.UpdateIPSet("s", sel, ipsetmember.ProtocolNone, "")
	addEps(idx)
	verdict("endpoints-after-parents-and-ipset", tr, want)
	if len(want) == 0 {
		c.Outcome("pop:" + p.name + ":none")
	} else if len(want) == len(p.eps) {
		c.Outcome("pop:" + p.name + ":all")
	} else {
		c.Outcome("pop:" + p.name + ":some")
	}
	return
}

func c07PruneLeaves(compact bool) []*selgen.Node {
	if compact {
		// restriction-relevant leaves: both values of a as == and in{}, sets written in descending
		// order, has(), the operators without restrictions, a second label
		n := func(k selgen.Kind, l, v string) *selgen.Node { return &selgen.Node{Kind: k, Label: l, Value: v} }
		return []*selgen.Node{
			n(selgen.Eq, "a", "1"), n(selgen.Eq, "a", "2"), n(selgen.Eq, "b", "2"), n(selgen.Ne, "a", "1"),
			{Kind: selgen.In, Label: "a", Set: []string{"2", "1"}}, {Kind: selgen.In, Label: "b", Set: []string{}},
			{Kind: selgen.NotIn, Label: "a", Set: []string{"2"}}, {Kind: selgen.Has, Label: "a"}, {Kind: selgen.Has, Label: "b"}, {Kind: selgen.All},
		}
	}
	vals := []string{"1", "2"}
	return selgen.MakeLeaves([]string{"a", "b"}, vals, [][]string{{}, {"1"}, {"1", "2"}})
}

var c07NestedNot = selgen.Style{NestedNot: true}

// pops == nil: only B1 (restrictions + candidate index), no population scans.
func c07CheckTree(c *vk.Ctx, p *parser.Parser, pops []*c07Pop, t *selgen.Node, full bool) (calls int64) {
	src := t.Render(c07NestedNot)
	sel, err := p.Parse(src)
	calls++
	if err != nil {
		// whether the parser accepts every grammar form is C06's subject; here the selector is skipped
		c.Add("generated_selectors_rejected_by_parser", 1)
		c.NotExhaustive("the parser rejected generated selectors (see C06); they were skipped, first: " + src)
		return
	}
	kind := t.Kind.String()
	if t.Kind == selgen.Not {
		kind = "not-" + t.Kids[0].Kind.String()
	}
	calls += c07CheckRestrictions(c, src, sel, kind)
	for _, pop := range pops {
		calls += c07CheckPop(c, src, sel, pop, kind)
	}
	if full {
		c.Nontrivial("sel|" + t.Shape())
	} else {
		c.Nontrivial("sel|" + t.KindShape())
	}
	return
}

// ---- B2: LabelRestrictionIndex histories ------------------------------------------------------

var c07LRISrc = []string{
	`all()`, `a == "1"`, `a == "2"`, `a in {"1","2"}`, `has(a)`, `!has(a)`, `a == "1" && a == "2"`,
	`a == "1" || b == "1"`, `has(a) && b == "2"`, `b in {"1"}`, `a == "1" || a == "2"`,
}

type c07LRIEv struct {
	Op string
	ID string
	V  int
}

func (e c07LRIEv) String() string { return fmt.Sprintf("%s(%s,%d)", e.Op, e.ID, e.V) }

type c07LRIState struct {
	idx *labelrestrictionindex.LabelRestrictionIndex[string]
	env map[string]int
}

func c07LRISpec(sels []*selector.Selector, depth int, tree bool, workers int) *hbfs.Spec[*c07LRIState, c07LRIEv] {
	var evs []c07LRIEv
	for _, id := range []string{"s1", "s2", "s3"} {
		for v := range sels {
			evs = append(evs, c07LRIEv{"add", id, v})
		}
		evs = append(evs, c07LRIEv{"del", id, 0})
	}
	probe := func(s *c07LRIState, m map[string]string) []string {
		var out []string
		for id, sel := range s.idx.AllPotentialMatches(c07Labeled(m)) {
			tag := id
			if v, ok := s.env[id]; !ok {
				tag += "!stale"
			} else if sel != sels[v] {
				tag += "!wrong-selector"
			}
			out = append(out, tag)
		}
		sort.Strings(out)
		return out
	}
	sp := &hbfs.Spec[*c07LRIState, c07LRIEv]{
		Name: fmt.Sprintf("lri-%s-d%d", map[bool]string{true: "tree", false: "graph"}[tree], depth),
		New: func() *c07LRIState {
			return &c07LRIState{idx: labelrestrictionindex.New[string](), env: map[string]int{}}
		},
		Apply: func(s *c07LRIState, e c07LRIEv) {
			if e.Op == "add" {
				s.env[e.ID] = e.V
				s.idx.AddSelector(e.ID, sels[e.V])
			} else {
				delete(s.env, e.ID)
				s.idx.DeleteSelector(e.ID)
			}
		},
		Enabled: func(s *c07LRIState, d int) []c07LRIEv { return evs },
		Check: func(s *c07LRIState, hist []c07LRIEv) (fails []hbfs.Fail) {
			for _, m := range c07Maps {
				got := probe(s, m)
				for _, g := range got {
					if strings.Contains(g, "!") {
						fails = append(fails, hbfs.Fail{Key: "C07:candidate-index:" + g[strings.Index(g, "!")+1:], Msg: fmt.Sprintf("labels %v: candidates %v, index holds %v", m, got, s.env)})
					}
				}
				for id, v := range s.env {
					if sels[v].Evaluate(m) {
						found := false
						for _, g := range got {
							if g == id {
								found = true
							}
						}
						if !found {
							fails = append(fails, hbfs.Fail{Key: "C07:candidate-index-excludes-match:history", Msg: fmt.Sprintf("labels %v match %s=%q but candidates are %v", m, id, c07LRISrc[v], got)})
						}
					}
				}
			}
			return
		},
		Key: func(s *c07LRIState) string {
			var b strings.Builder
			for _, id := range c07SortedKeys(s.env) {
				fmt.Fprintf(&b, "%s=%d;", id, s.env[id])
			}
			for _, m := range c07Maps {
				b.WriteString(strings.Join(probe(s, m), ","))
				b.WriteString("|")
			}
			return b.String()
		},
		Nontrivial: func(s *c07LRIState) bool { return len(s.env) >= 2 },
		MaxDepth:   depth,
		Workers:    workers,
	}
	if tree {
		sp.Key = nil
	}
	return sp
}

func c07LRISels() []*selector.Selector {
	var sels []*selector.Selector
	for _, s := range c07LRISrc {
		sel, err := selector.Parse(s)
		if err != nil {
			panic(err)
		}
		sels = append(sels, sel)
	}
	return sels
}

func c07ReplayPrune(c *vk.Ctx, spec string, hist []string, input string) {
	c.Add("states", 1)
	if input != "" {
		sel, err := selector.Parse(input)
		if err != nil {
			c.ToolError("replay input does not parse: " + err.Error())
			return
		}
		n := c07CheckRestrictions(c, input, sel, "replay")
		for _, p := range c07Pops() {
			n += c07CheckPop(c, input, sel, p, "replay")
		}
		c.Add("transitions", n)
		c.Sample(map[string]any{"replayed_input": input})
		return
	}
	fails, err := hbfs.Replay(c07LRISpec(c07LRISels(), 99, false, 1), hist)
	if err != nil {
		c.ToolError(err.Error())
	}
	for _, f := range fails {
		c.Violation(f.Key, map[string]any{"spec": spec, "history": hist, "msg": f.Msg})
	}
	c.Add("transitions", int64(len(hist)))
	c.Sample(map[string]any{"replayed": hist})
}

func c07Prune(c *vk.Ctx, workers int) {
	// B2
	sels := c07LRISels()
	st := hbfs.Explore(c, c07LRISpec(sels, c.Pick(5, 8), false, workers))
	c.Extra("lri_fixpoint_reached", st.Complete && st.Depth < c.Pick(5, 8))
	hbfs.Explore(c, c07LRISpec(sels, c.Pick(2, 3), true, workers))

	// B1 + B3
	pops := c07Pops()
	leaves := c07PruneLeaves(false)
	compact := c07PruneLeaves(true)
	c.Extra("prune_leaf_forms", len(leaves))
	ch := make(chan func(p *parser.Parser) int64, 64)
	var wg sync.WaitGroup
	var nSel, nCalls int64
	var stopped int32
	for i := 0; i < workers; i++ {
		wg.Add(1)
		go func() {
			defer wg.Done()
			p := parser.NewParser()
			for j := range ch {
				if atomic.LoadInt32(&stopped) == 1 || c.Expired() {
					atomic.StoreInt32(&stopped, 1)
					continue
				}
				var n int64
				if err := vk.Catch(func() error { n = j(p); return nil }); err != nil {
					pe := err.(*vk.PanicError)
					c.Violation("C07:pruned-scan:panic:"+c07PanicLine(pe.Val), map[string]any{"panic": pe.Val, "stack": pe.Stack})
				}
				atomic.AddInt64(&nCalls, n)
			}
		}()
	}
	emitTrees := func(ts []*selgen.Node, full bool) {
		ch <- func(p *parser.Parser) (n int64) {
			for _, t := range ts {
				n += c07CheckTree(c, p, pops, t, full)
				atomic.AddInt64(&nSel, 1)
			}
			return
		}
	}
	var k1 []*selgen.Node
	for _, l := range leaves {
		k1 = append(k1, selgen.Tops(l)...)
	}
	emitTrees(k1, true)
	g2 := selgen.Groups2(leaves)
	const chunk = 128
	for i := 0; i < len(g2); i += chunk {
		part := g2[i:min(i+chunk, len(g2))]
		var ts []*selgen.Node
		for _, g := range part {
			tops := selgen.Tops(g)
			if c.Quick() {
				tops = tops[:2]
			}
			ts = append(ts, tops...)
		}
		emitTrees(ts, true)
	}
	{
		// k = 3 over the restriction-relevant leaves: B1 in both tiers, B3 (population scans) in the
		// thorough tier only
		k3pops := pops
		if c.Quick() {
			k3pops = nil
		}
		u := make([]*selgen.Node, 0, 2*len(compact))
		for _, l := range compact {
			u = append(u, l, &selgen.Node{Kind: selgen.Not, Kids: []*selgen.Node{l}})
		}
		for _, kind := range []selgen.Kind{selgen.And, selgen.Or} {
			for _, first := range u {
				ch <- func(p *parser.Parser) (n int64) {
					selgen.Groups3For(kind, first, compact, func(g *selgen.Node) bool {
						tops := selgen.Tops(g)[:2]
						if c.Quick() {
							tops = tops[:1] // a negated group advertises no restrictions
						}
						for _, top := range tops {
							n += c07CheckTree(c, p, k3pops, top, false)
							atomic.AddInt64(&nSel, 1)
						}
						return !c.Expired()
					})
					return
				}
			}
		}
	}
	close(ch)
	wg.Wait()
	if atomic.LoadInt32(&stopped) == 1 || c.Expired() {
		c.Capped("part B: deadline reached before the selector enumeration finished")
	}
	c.Add("states", nSel)
	c.Add("transitions", nCalls)
	c.Extra("prune_selectors_checked", nSel)
	c.Sample(map[string]any{"part": "B", "selector": g2[len(g2)/3].Render(c07NestedNot), "populations": []string{pops[0].name, pops[1].name, pops[2].name},
		"label_maps": len(c07Maps)})
	fmt.Printf("enum %-28s selectors=%d calls=%d\n", "prune-soundness", nSel, nCalls)
}

package labelindex

// C07 — indexed selector matching equals direct selector evaluation.
//
// Part A (shape H): explicit-state search over the real InheritIndex. Events: UpdateLabels (items
// i1,i2; label variants; parent lists incl. both orders and the duplicate [p1,p1]), DeleteLabels,
// UpdateParentLabels / DeleteParentLabels (p1,p2), UpdateSelector / DeleteSelector (s1,s2 over 12
// selector variants). Oracle after every event: the match relation tracked from the
// OnMatchStarted/OnMatchStopped callbacks equals {(s,i) : selector s evaluated directly on the
// effective labels of i}, and start/stop strictly alternate per pair.
//
// Part B (shape I + H, see c07prune_test.go): pruning soundness over a generated selector space.

import (
	"fmt"
	"regexp"
	"sort"
	"strings"
	"testing"

	"github.com/sirupsen/logrus"

	"github.com/projectcalico/calico/lib/std/uniquelabels"
	"github.com/projectcalico/calico/libcalico-go/lib/selector"
	"github.com/projectcalico/calico/zzverif/hbfs"
	"github.com/projectcalico/calico/zzverif/vk"
)

type c07Ev struct {
	Op string // UL DL UP DP US DS
	ID string
	L  int // label variant (UL, UP)
	P  int // parent list variant (UL)
	V  int // selector variant (US)
}

func (e c07Ev) String() string { return fmt.Sprintf("%s(%s,l%d,p%d,v%d)", e.Op, e.ID, e.L, e.P, e.V) }

type c07Universe struct {
	name       string
	items      []string
	parents    []string
	selIDs     []string
	itemLabels []map[string]string
	itemLabelU []uniquelabels.Map
	parLists   [][]string
	parLabels  []map[string]string
	selSrc     []string
	sels       []*selector.Selector
}

func (u *c07Universe) init() {
	for _, m := range u.itemLabels {
		if m == nil {
			u.itemLabelU = append(u.itemLabelU, uniquelabels.Nil)
		} else {
			u.itemLabelU = append(u.itemLabelU, uniquelabels.Make(m))
		}
	}
	for _, s := range u.selSrc {
		sel, err := selector.Parse(s)
		if err != nil {
			panic(err)
		}
		u.sels = append(u.sels, sel)
	}
}

func (u *c07Universe) events() []c07Ev {
	var evs []c07Ev
	for _, it := range u.items {
		for l := range u.itemLabels {
			for p := range u.parLists {
				evs = append(evs, c07Ev{Op: "UL", ID: it, L: l, P: p})
			}
		}
		evs = append(evs, c07Ev{Op: "DL", ID: it})
	}
	for _, p := range u.parents {
		for l := range u.parLabels {
			evs = append(evs, c07Ev{Op: "UP", ID: p, L: l})
		}
		evs = append(evs, c07Ev{Op: "DP", ID: p})
	}
	for _, s := range u.selIDs {
		for v := range u.selSrc {
			evs = append(evs, c07Ev{Op: "US", ID: s, V: v})
		}
		evs = append(evs, c07Ev{Op: "DS", ID: s})
	}
	return evs
}

var c07SelSrc = []string{
	`all()`,
	`a == "1"`,
	`a != "1"`,
	`has(b)`,
	`!has(b)`,
	`a in {"1","2"}`,
	`a not in {"1"}`,
	`a == "1" && a == "2"`,
	`a == "1" || b == "1"`,
	`!(a == "1")`,
	`has(a) && b == "1"`,
	`a == "2" && !has(b)`,
}

func c07MakeUniverse(name string, dupParents bool, small bool) *c07Universe {
	u := &c07Universe{
		name:       name,
		items:      []string{"i1", "i2"},
		parents:    []string{"p1", "p2"},
		selIDs:     []string{"s1", "s2"},
		itemLabels: []map[string]string{nil, {"a": "1"}, {"a": "2", "b": "1"}},
		parLists:   [][]string{nil, {"p1"}, {"p2"}, {"p1", "p2"}, {"p2", "p1"}},
		parLabels:  []map[string]string{{"b": "1"}, {"a": "1", "b": "2"}, {}},
		selSrc:     c07SelSrc,
	}
	if dupParents {
		u.parLists = append(u.parLists, []string{"p1", "p1"})
	}
	if small {
		u.itemLabels = []map[string]string{nil, {"a": "1"}}
		// both orders of the two parents, whose label variants conflict on b (which selectors test)
		u.parLists = [][]string{nil, {"p1"}, {"p1", "p2"}, {"p2", "p1"}}
		if dupParents {
			u.parLists = append(u.parLists, []string{"p1", "p1"})
		}
		u.parLabels = []map[string]string{{"b": "1"}, {"a": "2", "b": "2"}}
		u.selSrc = []string{`all()`, `a == "1"`, `has(b)`, `!has(b)`, `a == "1" || b == "2"`, `b == "1"`}
	}
	u.init()
	return u
}

type c07Item struct{ L, P int }

// c07Env is the reference environment (what the index has been told).
type c07Env struct {
	items   map[string]c07Item
	parents map[string]int
	sels    map[string]int
}

func c07NewEnv() *c07Env {
	return &c07Env{items: map[string]c07Item{}, parents: map[string]int{}, sels: map[string]int{}}
}

func (env *c07Env) apply(e c07Ev) {
	switch e.Op {
	case "UL":
		env.items[e.ID] = c07Item{e.L, e.P}
	case "DL":
		delete(env.items, e.ID)
	case "UP":
		env.parents[e.ID] = e.L
	case "DP":
		delete(env.parents, e.ID)
	case "US":
		env.sels[e.ID] = e.V
	case "DS":
		delete(env.sels, e.ID)
	}
}

// effective labels: own labels win, then the first parent in list order that carries the label
// (the statement leaves the choice between conflicting parents open; both indexes use list order).
func (u *c07Universe) effective(env *c07Env, it c07Item) map[string]string {
	out := map[string]string{}
	for k, v := range u.itemLabels[it.L] {
		out[k] = v
	}
	for _, p := range u.parLists[it.P] {
		lv, ok := env.parents[p]
		if !ok {
			continue
		}
		for k, v := range u.parLabels[lv] {
			if _, have := out[k]; !have {
				out[k] = v
			}
		}
	}
	return out
}

var (
	c07ReTime = regexp.MustCompile(`\d{4}-\d\d-\d\d \d\d:\d\d:\d\d(\.\d+)? [+-]\d{4} \w+( m=[+-][\d.]+)?`)
	c07RePtr  = regexp.MustCompile(`0x[0-9a-f]+`)
	c07ReMap  = regexp.MustCompile(`map\[[^\]]*\]`)
	c07ReSp   = regexp.MustCompile(`\s+`)
)

// c07PanicLine turns a panic value into a stable one-line class (logrus Panic() panics with the
// *Entry, whose dump contains pointers, field maps and a timestamp).
func c07PanicLine(val string) string {
	line := val
	if i := strings.IndexByte(line, '\n'); i >= 0 {
		line = line[:i]
	}
	line = c07ReTime.ReplaceAllString(line, "")
	line = c07RePtr.ReplaceAllString(line, "")
	line = c07ReMap.ReplaceAllString(line, "")
	line = strings.NewReplacer("&{", "", "<nil>", "", "}", "").Replace(line)
	line = strings.TrimSpace(c07ReSp.ReplaceAllString(line, " "))
	if len(line) > 100 {
		line = line[:100]
	}
	return line
}

// c07Prefixes returns populated start environments for the full universe (event indexes refer to
// c07MakeUniverse("full", ...): parent label variants 0={b:1} 1={a:1,b:2} 2={}; selectors c07SelSrc).
func c07Prefixes() [][]c07Ev {
	return [][]c07Ev{
		// parents conflict on b; selectors that test the value of b
		{{Op: "UP", ID: "p1", L: 0}, {Op: "UP", ID: "p2", L: 1}, {Op: "US", ID: "s1", V: 10}, {Op: "US", ID: "s2", V: 8}},
		// same parents, items already present with both parents in either order; selectors on a and !has(b)
		{{Op: "UP", ID: "p1", L: 0}, {Op: "UP", ID: "p2", L: 1}, {Op: "UL", ID: "i1", L: 0, P: 3}, {Op: "UL", ID: "i2", L: 1, P: 4},
			{Op: "US", ID: "s1", V: 5}, {Op: "US", ID: "s2", V: 11}},
		// items first (parents unknown yet), selectors has(b) and a != "1"
		{{Op: "UL", ID: "i1", L: 1, P: 1}, {Op: "UL", ID: "i2", L: 2, P: 4}, {Op: "US", ID: "s1", V: 3}, {Op: "US", ID: "s2", V: 2}},
	}
}

func c07HasDup(l []string) bool {
	for i := range l {
		for j := i + 1; j < len(l); j++ {
			if l[i] == l[j] {
				return true
			}
		}
	}
	return false
}

type c07State struct {
	u       *c07Universe
	idx     *InheritIndex
	env     *c07Env
	matches map[[2]string]bool
	bad     []string
}

func c07New(u *c07Universe) *c07State {
	s := &c07State{u: u, env: c07NewEnv(), matches: map[[2]string]bool{}}
	s.idx = NewInheritIndex(
		func(selId, labelId any) {
			k := [2]string{selId.(string), labelId.(string)}
			if s.matches[k] {
				s.bad = append(s.bad, fmt.Sprintf("two-starts: OnMatchStarted(%s,%s) while already matching", k[0], k[1]))
			}
			s.matches[k] = true
		},
		func(selId, labelId any) {
			k := [2]string{selId.(string), labelId.(string)}
			if !s.matches[k] {
				s.bad = append(s.bad, fmt.Sprintf("stop-without-start: OnMatchStopped(%s,%s) while not matching", k[0], k[1]))
			}
			delete(s.matches, k)
		})
	return s
}

func c07Apply(s *c07State, e c07Ev) {
	u := s.u
	// reference first: if the index panics the environment already reflects the attempted event
	s.env.apply(e)
	switch e.Op {
	case "UL":
		s.idx.UpdateLabels(e.ID, u.itemLabelU[e.L], append([]string(nil), u.parLists[e.P]...))
	case "DL":
		s.idx.DeleteLabels(e.ID)
	case "UP":
		m := map[string]string{}
		for k, v := range u.parLabels[e.L] {
			m[k] = v
		}
		s.idx.UpdateParentLabels(e.ID, m)
	case "DP":
		s.idx.DeleteParentLabels(e.ID)
	case "US":
		s.idx.UpdateSelector(e.ID, u.sels[e.V])
	case "DS":
		s.idx.DeleteSelector(e.ID)
	default:
		panic("bad op")
	}
}

func c07Check(s *c07State, hist []c07Ev) []hbfs.Fail {
	var fails []hbfs.Fail
	add := func(key, f string, a ...any) {
		fails = append(fails, hbfs.Fail{Key: "C07:" + key, Msg: fmt.Sprintf(f, a...)})
	}
	for _, b := range s.bad {
		add("notify-alternation:"+b[:strings.Index(b, ":")], "%s", b)
	}
	u := s.u
	for sid, v := range s.env.sels {
		for iid, it := range s.env.items {
			eff := u.effective(s.env, it)
			want := u.sels[v].Evaluate(eff)
			got := s.matches[[2]string{sid, iid}]
			if want && !got {
				add("match-relation:missing", "selector %s=%q matches item %s (effective labels %v) but the index reports no match", sid, u.selSrc[v], iid, eff)
			} else if !want && got {
				add("match-relation:spurious", "selector %s=%q does not match item %s (effective labels %v) but the index reports a match", sid, u.selSrc[v], iid, eff)
			}
		}
	}
	for k := range s.matches {
		_, okS := s.env.sels[k[0]]
		_, okI := s.env.items[k[1]]
		if !okS || !okI {
			add("match-relation:stale", "index still reports match (%s,%s) although selector present=%v item present=%v", k[0], k[1], okS, okI)
		}
	}
	return fails
}

func c07SortedKeys[V any](m map[string]V) []string {
	ks := make([]string, 0, len(m))
	for k := range m {
		ks = append(ks, k)
	}
	sort.Strings(ks)
	return ks
}

func c07AnySet(m map[any]struct{}) string {
	var ks []string
	for k := range m {
		ks = append(ks, fmt.Sprint(k))
	}
	sort.Strings(ks)
	return strings.Join(ks, ",")
}

func c07Key(s *c07State) string {
	var b strings.Builder
	for _, k := range c07SortedKeys(s.env.items) {
		fmt.Fprintf(&b, "%s=%v;", k, s.env.items[k])
	}
	for _, k := range c07SortedKeys(s.env.parents) {
		fmt.Fprintf(&b, "%s=%v;", k, s.env.parents[k])
	}
	for _, k := range c07SortedKeys(s.env.sels) {
		fmt.Fprintf(&b, "%s=%v;", k, s.env.sels[k])
	}
	b.WriteString("|m:")
	var ms []string
	for k := range s.matches {
		ms = append(ms, k[0]+"/"+k[1])
	}
	sort.Strings(ms)
	b.WriteString(strings.Join(ms, ","))
	fmt.Fprintf(&b, "|bad%d|", len(s.bad))
	// internal state of the real index
	idx := s.idx
	var parts []string
	for id, d := range idx.itemDataByID {
		var ps []string
		for _, p := range d.parents {
			ps = append(ps, p.id)
		}
		parts = append(parts, fmt.Sprintf("I%v:%s:%v", id, d.labels.String(), ps))
	}
	for id, p := range idx.parentDataByParentID {
		var is []string
		for k := range p.itemIDs {
			is = append(is, fmt.Sprint(k))
		}
		sort.Strings(is)
		parts = append(parts, fmt.Sprintf("P%s:%v:%s:%v:%v", id, p.labels.IsNil(), p.labels.String(), p.itemIDs == nil, is))
	}
	for id, sel := range idx.selectorsById {
		parts = append(parts, fmt.Sprintf("S%v:%s", id, sel.String()))
	}
	for id, set := range idx.selIdsByLabelId {
		var is []string
		for k := range set {
			is = append(is, fmt.Sprint(k))
		}
		sort.Strings(is)
		parts = append(parts, fmt.Sprintf("L%v:%v", id, is))
	}
	for id, set := range idx.labelIdsBySelId {
		var is []string
		for k := range set {
			is = append(is, fmt.Sprint(k))
		}
		sort.Strings(is)
		parts = append(parts, fmt.Sprintf("M%v:%v", id, is))
	}
	parts = append(parts, fmt.Sprintf("D%d", idx.dirtyItemIDs.Len()))
	sort.Strings(parts)
	b.WriteString(strings.Join(parts, ";"))
	return b.String()
}

func c07Spec(u *c07Universe, depth int, tree bool, workers int, tag string, prefix []c07Ev) *hbfs.Spec[*c07State, c07Ev] {
	evs := u.events()
	sp := &hbfs.Spec[*c07State, c07Ev]{
		Name: fmt.Sprintf("inherit-%s%s-%s-d%d", u.name, tag, map[bool]string{true: "tree", false: "graph"}[tree], depth),
		New: func() *c07State {
			s := c07New(u)
			for _, e := range prefix {
				c07Apply(s, e)
			}
			return s
		},
		Apply:    c07Apply,
		Enabled:  func(s *c07State, d int) []c07Ev { return evs },
		Check:    c07Check,
		Key:      c07Key,
		MaxDepth: depth,
		Workers:  workers,
		Nontrivial: func(s *c07State) bool {
			// a match exists and some item inherits a label it does not carry itself
			if len(s.matches) == 0 {
				return false
			}
			for _, it := range s.env.items {
				if len(s.u.effective(s.env, it)) > len(s.u.itemLabels[it.L]) {
					return true
				}
			}
			return false
		},
		Outcome: func(s *c07State) string {
			var ms []string
			for k := range s.matches {
				ms = append(ms, k[0]+"/"+k[1])
			}
			sort.Strings(ms)
			return strings.Join(ms, ",")
		},
		PanicKey: func(val string, hist []c07Ev) string {
			// H04 shape: the item touched by the last event had a parent list naming one parent twice.
			env := c07NewEnv()
			for _, e := range prefix {
				env.apply(e)
			}
			for _, e := range hist[:len(hist)-1] {
				env.apply(e)
			}
			last := hist[len(hist)-1]
			if last.Op == "UL" || last.Op == "DL" {
				if it, ok := env.items[last.ID]; ok && c07HasDup(u.parLists[it.P]) {
					return "C07:panic:duplicate-parent"
				}
			}
			return "C07:panic:" + last.Op + ":" + c07PanicLine(val)
		},
	}
	if tree {
		sp.Key = nil
	}
	return sp
}

func TestVerif_C07(t *testing.T) {
	logrus.SetLevel(logrus.PanicLevel)
	logrus.StandardLogger().ExitFunc = func(int) { panic("logrus.Fatal") }
	vk.Run(t, "C07", func(c *vk.Ctx) {
		c.Rule("part A: states = reachable (environment, callback-tracked match relation, internal maps of the real InheritIndex) over items {i1,i2} x 3 label variants x 6 parent lists " +
			"(both orders and the duplicate [p1,p1]), parents {p1,p2} x 3 label variants, selectors {s1,s2} x 12 variants; transitions = one real API call " +
			"(UpdateLabels/DeleteLabels/UpdateParentLabels/DeleteParentLabels/UpdateSelector/DeleteSelector incl. deletes of absent things and no-op re-sends) replayed on a fresh index; " +
			"non-trivial = a match exists while some item inherits a label from a parent. " +
			"part B: states += generated selectors (selgen, <=k leaves over labels a,b values 1,2) x endpoint populations; transitions += real LabelRestrictions / AllPotentialMatches / " +
			"UpdateIPSet+UpdateEndpointOrSet evaluations; plus explicit-state search of LabelRestrictionIndex Add/Delete histories")
		c.Assume("when two parents carry the same label with different values the first parent in the item's list wins (statement is silent; both indexes do this)")
		workers := c.Pick(6, 8)
		full := c07MakeUniverse("full", true, false)
		nodup := c07MakeUniverse("nodup", false, false)
		small := c07MakeUniverse("small", true, true)
		if rf := c.ReplayFile(); rf != "" {
			var d struct {
				Spec    string
				History []string
				Input   string
			}
			if err := vk.LoadReplay(rf, &d); err != nil {
				c.ToolError(err.Error())
				return
			}
			if d.Input != "" || strings.HasPrefix(d.Spec, "lri-") {
				c07ReplayPrune(c, d.Spec, d.History, d.Input)
				return
			}
			u := full
			if strings.Contains(d.Spec, "-nodup-") {
				u = nodup
			} else if strings.Contains(d.Spec, "-small-") {
				u = small
			}
			var prefix []c07Ev
			for i, p := range c07Prefixes() {
				if strings.Contains(d.Spec, fmt.Sprintf("-pre%d-", i)) {
					prefix = p
				}
			}
			sp := c07Spec(u, 99, false, 1, "", prefix)
			fails, err := hbfs.Replay(sp, d.History)
			if err != nil {
				c.ToolError(err.Error())
			}
			for _, f := range fails {
				c.Violation(f.Key, map[string]any{"spec": d.Spec, "history": d.History, "msg": f.Msg})
			}
			c.Add("states", 1)
			c.Add("transitions", int64(len(d.History)))
			c.Sample(map[string]any{"replayed": d.History})
			return
		}
		evs := full.events()
		c.Extra("alphabet_size_full", len(evs))
		c.Extra("alphabet_size_small", len(small.events()))
		c.Sample(map[string]any{"universe": "full", "history": []string{
			c07Ev{Op: "UP", ID: "p1", L: 0}.String(), c07Ev{Op: "US", ID: "s1", V: 3}.String(), c07Ev{Op: "UL", ID: "i1", L: 1, P: 3}.String(), c07Ev{Op: "DP", ID: "p1"}.String()},
			"meaning": "p1 gets {b:1}; s1=has(b); i1 gets {a:1} with parents [p1,p2] (match starts through inheritance); p1 labels deleted (match must stop)"})
		// graph mode: full universe (with the duplicate-parent lists)
		hbfs.Explore(c, c07Spec(full, c.Pick(3, 5), false, workers, "", nil))
		// populated start states: parents already carry (conflicting) labels and selectors are
		// installed, so that item arrivals, re-sends, re-orderings and parent changes against a populated
		// index are reached at small depth
		for i, pre := range c07Prefixes() {
			hbfs.Explore(c, c07Spec(full, c.Pick(3, 4), false, workers, fmt.Sprintf("-pre%d", i), pre))
		}
		// small universe: deeper graph search, to fixpoint when the budget allows
		st := hbfs.Explore(c, c07Spec(small, c.Pick(5, 30), false, workers, "", nil))
		c.Extra("small_universe_fixpoint_reached", st.Complete && st.Depth < c.Pick(5, 30))
		// tree mode (every history, no merging): universe WITHOUT duplicate parent lists, so that no
		// panic class can mask anything, and the small one with them
		hbfs.Explore(c, c07Spec(nodup, c.Pick(2, 3), true, workers, "", nil))
		hbfs.Explore(c, c07Spec(small, c.Pick(3, 4), true, workers, "", nil))
		c07Prune(c, workers)
	})
}

package watchersyncer

// C26 — datastore watchers converge across watch failures and resyncs.
//
// The REAL watcherCache.run goroutines (two resource types: #0 plain with SendDeletesOnConnFail, #1 with an
// UpdateProcessor) are lock-stepped through a scripted api.Client: every List / Watch call and every read of
// the watcher's result channel parks the goroutine until the explorer supplies the environment's answer; the
// results channel is unbuffered and read only by the explorer, which feeds the results to the REAL
// watcherSyncer.processResult / sendUpdates in an order and with consolidation boundaries of its choosing.
// At any moment exactly one goroutine runs, so an execution is a deterministic function of the event list.
//
// There is no wall-clock dependence: all retry intervals are 0 (resyncThrottleC fires immediately) and the
// only duration comparison (time.Since(lastSuccessfulConnTime) > watchRetryTimeout) is forced either way by
// setting the cache's watchRetryTimeout to -1ns ("timed out") or MaxInt64 ("not yet") before each answer.

import (
	"context"
	"errors"
	"fmt"
	"math"
	"os"
	"sort"
	"strconv"
	"strings"
	"sync"
	"syscall"
	"testing"
	"time"

	"github.com/sirupsen/logrus"
	kerrors "k8s.io/apimachinery/pkg/api/errors"
	"k8s.io/apimachinery/pkg/runtime/schema"

	"github.com/projectcalico/calico/libcalico-go/lib/backend/api"
	"github.com/projectcalico/calico/libcalico-go/lib/backend/model"
	cerrors "github.com/projectcalico/calico/libcalico-go/lib/errors"
	"github.com/projectcalico/calico/zzverif/hbfs"
	"github.com/projectcalico/calico/zzverif/vk"
)

const (
	c26List  = "list"
	c26Watch = "watch"
	c26Read  = "read"
)

var c26Kinds = [2]string{"IPPool", "BGPPeer"}

type c26Params struct {
	Name      string
	Eager     bool // results are consumed by the syncer right after the step that produced them
	FlushEach bool // eager only: flush after every result (else once per burst)
	Devs      int  // deviations from the default (success) answer
	Muts      int  // ground-truth datastore mutations
	Depth     int
	BadValue  bool // allow a value the UpdateProcessor cannot convert
	Tree      bool // no state merging (guard against an unsound state key)
	replayLen int
}

type c26Park struct {
	idx  int
	kind string
	rev  string
}

type c26Reply struct {
	list *model.KVPairList
	w    api.WatchInterface
	err  error
}

type c26Ent struct {
	val string
	rev int
}

type c26Rec struct {
	rev  int
	typ  int
	key  string
	val  string // "" = deleted
	old  string
	kind api.WatchEventType
}

type c26Ev struct {
	Op string // ans | ws | flush | mut
	I  int
	A  string `json:",omitempty"`
	K  string `json:",omitempty"`
	V  string `json:",omitempty"`
}

func (e c26Ev) String() string { return vk.JSON(e) }

// ---- fake client / watcher (cache-goroutine side) ----

type c26Client struct{ inst *c26Inst }

func (c *c26Client) idx(l model.ListInterface) int {
	k := l.(model.ResourceListOptions).Kind
	for i, x := range c26Kinds {
		if x == k {
			return i
		}
	}
	panic("harness: unknown kind " + k)
}

func (c *c26Client) call(ctx context.Context, p c26Park) (c26Reply, bool) {
	select {
	case c.inst.parks <- p:
	case <-ctx.Done():
		return c26Reply{}, false
	}
	select {
	case r := <-c.inst.ans[p.idx]:
		return r, true
	case <-ctx.Done():
		return c26Reply{}, false
	}
}

func (c *c26Client) List(ctx context.Context, l model.ListInterface, revision string) (*model.KVPairList, error) {
	r, ok := c.call(ctx, c26Park{c.idx(l), c26List, revision})
	if !ok {
		return nil, ctx.Err()
	}
	return r.list, r.err
}

func (c *c26Client) Watch(ctx context.Context, l model.ListInterface, o api.WatchOptions) (api.WatchInterface, error) {
	r, ok := c.call(ctx, c26Park{c.idx(l), c26Watch, o.Revision})
	if !ok {
		return nil, ctx.Err()
	}
	if r.err != nil {
		return nil, r.err
	}
	return r.w, nil
}

func (c *c26Client) Create(context.Context, *model.KVPair) (*model.KVPair, error) { panic("unused") }
func (c *c26Client) Update(context.Context, *model.KVPair) (*model.KVPair, error) { panic("unused") }
func (c *c26Client) Apply(context.Context, *model.KVPair) (*model.KVPair, error)  { panic("unused") }
func (c *c26Client) Delete(context.Context, model.Key, string) (*model.KVPair, error) {
	panic("unused")
}
func (c *c26Client) DeleteKVP(context.Context, *model.KVPair) (*model.KVPair, error) {
	panic("unused")
}
func (c *c26Client) Get(context.Context, model.Key, string) (*model.KVPair, error) { panic("unused") }
func (c *c26Client) EnsureInitialized() error                                        { return nil }
func (c *c26Client) Clean() error                                                    { return nil }
func (c *c26Client) Close() error                                                    { return nil }

type c26Watcher struct {
	inst     *c26Inst
	idx      int
	ch       chan api.WatchEvent
	startRev int
	pos      int // next log index to look at
	stopped  bool
	closed   bool
}

func (w *c26Watcher) Stop() { w.stopped = true }
func (w *c26Watcher) ResultChan() <-chan api.WatchEvent {
	select {
	case w.inst.parks <- c26Park{w.idx, c26Read, ""}:
	case <-w.inst.ctx.Done():
	}
	return w.ch
}
func (w *c26Watcher) HasTerminated() bool { return w.stopped }

// c26Proc is the UpdateProcessor of resource type #1. It is a STATEFUL converter: a line-by-line port of
// updateprocessors.conflictResolvingCache (the real processor behind IPPool, HostEndpoint, ...; it cannot be
// imported here because that package imports watchersyncer) with the converter
//     BGPPeer(name)=v   ->   GlobalFelixConfig("p-"+v) = "conv:"+name        (v == "E": conversion error)
// i.e. like an IP pool's CIDR the v1 key comes from the VALUE, several v3 resources can map to one v1 key, the
// alphabetically lowest name wins, and the private cache must be cleared by OnSyncerStarting before a re-list.
type c26Proc struct {
	starts              int
	kvpsByName          map[string]*model.KVPair
	orderedNamesByV1Key map[string][]string
}

func newC26Proc() *c26Proc {
	return &c26Proc{kvpsByName: map[string]*model.KVPair{}, orderedNamesByV1Key: map[string][]string{}}
}

func (c *c26Proc) OnSyncerStarting() {
	c.starts++
	c.kvpsByName = map[string]*model.KVPair{}
	c.orderedNamesByV1Key = map[string][]string{}
}

func (c *c26Proc) convert(kvp *model.KVPair) (*model.KVPair, error) {
	rk := kvp.Key.(model.ResourceKey)
	v := kvp.Value.(string)
	if v == "E" {
		return nil, cerrors.ErrorParsingDatastoreEntry{RawKey: rk.Name, RawValue: v, Err: errors.New("bad value")}
	}
	return &model.KVPair{Key: model.GlobalConfigKey{Name: "p-" + v}, Value: "conv:" + rk.Name, Revision: kvp.Revision}, nil
}

func (c *c26Proc) Process(kvp *model.KVPair) ([]*model.KVPair, error) {
	rk, ok := kvp.Key.(model.ResourceKey)
	if !ok || rk.Kind != c26Kinds[1] {
		return nil, fmt.Errorf("incorrect key type")
	}
	name := rk.Name
	if kvp.Value == nil {
		return c.delete(name)
	}
	kvp, err := c.convert(kvp)
	if err != nil {
		if kvp := c.kvpsByName[name]; kvp != nil {
			res, _ := c.delete(name)
			return res, err
		}
		return nil, err
	}
	v1Key, _ := model.KeyToDefaultPath(kvp.Key)
	var response []*model.KVPair
	if existing := c.kvpsByName[name]; existing != nil {
		oldV1Key, _ := model.KeyToDefaultPath(existing.Key)
		if oldV1Key != v1Key {
			response, err = c.delete(name)
			if err != nil {
				return nil, err
			}
		}
	}
	cns := c.orderedNamesByV1Key[v1Key]
	inList := false
	for _, n := range cns {
		inList = inList || n == name
	}
	if !inList {
		cns = append(cns, name)
		sort.Strings(cns)
	}
	c.orderedNamesByV1Key[v1Key] = cns
	c.kvpsByName[name] = kvp
	if cns[0] == name {
		response = append(response, kvp)
	}
	return response, nil
}

func (c *c26Proc) delete(name string) ([]*model.KVPair, error) {
	kvp := c.kvpsByName[name]
	if kvp == nil {
		return nil, fmt.Errorf("delete called for unknown resource: %s", name)
	}
	v1Key, _ := model.KeyToDefaultPath(kvp.Key)
	cns := c.orderedNamesByV1Key[v1Key]
	var response []*model.KVPair
	if cns[0] == name {
		if len(cns) == 1 {
			response = []*model.KVPair{{Key: kvp.Key}}
		} else {
			response = []*model.KVPair{c.kvpsByName[cns[1]]}
		}
	}
	delete(c.kvpsByName, name)
	if len(cns) == 1 {
		delete(c.orderedNamesByV1Key, v1Key)
	} else {
		var newCns []string
		for _, cn := range cns {
			if cn != name {
				newCns = append(newCns, cn)
			}
		}
		c.orderedNamesByV1Key[v1Key] = newCns
	}
	return response, nil
}

func (c *c26Proc) render() string {
	var ks []string
	for n, kvp := range c.kvpsByName {
		ks = append(ks, n+">"+kvp.Key.String()+"@"+kvp.Revision)
	}
	sort.Strings(ks)
	var vs []string
	for k, ns := range c.orderedNamesByV1Key {
		vs = append(vs, k[strings.LastIndex(k, "/")+1:]+":"+strings.Join(ns, "+"))
	}
	sort.Strings(vs)
	return fmt.Sprint(ks, vs)
}

// ---- sink ----

type c26Sink struct {
	st         *c26Inst
	view       map[string]string
	status     api.SyncStatus
	gotStatus  bool
	everInSync bool
	syncFailed bool
	parseFail  bool
}

func (k *c26Sink) OnStatusUpdated(s api.SyncStatus) {
	if s == api.InSync {
		for i, d := range k.st.listDone {
			if !d {
				k.st.fail("insync-before-full-list", "syncer reported InSync but resource type #%d has not completed a List yet", i)
			}
		}
		k.everInSync = true
	}
	k.status, k.gotStatus = s, true
}

func (k *c26Sink) OnUpdates(us []api.Update) {
	if k.gotStatus && k.status == api.WaitForDatastore {
		k.st.fail("update-while-waiting-for-datastore", "OnUpdates(%s) delivered while the syncer's reported status is wait-for-datastore", c26Updates(us))
	}
	for _, u := range us {
		if u.Value == nil {
			delete(k.view, u.Key.String())
		} else {
			k.view[u.Key.String()] = fmt.Sprint(u.Value)
		}
	}
}
func (k *c26Sink) SyncFailed(err error)            { k.syncFailed = true }
func (k *c26Sink) ParseFailed(rawKey, rawV string) { k.parseFail = true }

// ---- instance ----

type c26Inst struct {
	p       c26Params
	ctx     context.Context
	cancel  context.CancelFunc
	wg      sync.WaitGroup
	results chan resultWithID
	parks   chan c26Park
	panics  chan string
	ans     [2]chan c26Reply
	ws      *watcherSyncer
	wcs     [2]*watcherCache
	sink    *c26Sink
	proc    *c26Proc
	// ground truth
	rev int
	cur [2]map[string]c26Ent
	log []c26Rec
	// explorer side
	park     [2]c26Park
	watcher  [2]*c26Watcher
	q        [2][]resultWithID
	upd      []api.Update
	devLeft  int
	mutLeft  int
	listDone [2]bool
	bad      []hbfs.Fail
	// cached at the end of Apply (Check runs the instance on to quiescence)
	key     string
	nontriv bool
	outcome string
	settled bool
}

func (s *c26Inst) fail(key, f string, a ...any) {
	s.bad = append(s.bad, hbfs.Fail{Key: "C26:" + key, Msg: fmt.Sprintf(f, a...)})
}

func c26New(p c26Params) *c26Inst {
	s := &c26Inst{p: p, devLeft: p.Devs, mutLeft: p.Muts}
	s.ctx, s.cancel = context.WithCancel(context.Background())
	s.parks = make(chan c26Park)
	s.panics = make(chan string)
	s.ans = [2]chan c26Reply{make(chan c26Reply), make(chan c26Reply)}
	s.sink = &c26Sink{st: s, view: map[string]string{}}
	s.proc = newC26Proc()
	// ground truth: IPPool(a)=x@1, BGPPeer(c)=x@2
	s.cur = [2]map[string]c26Ent{{"a": {"x", 1}}, {"c": {"x", 2}}}
	s.log = []c26Rec{{1, 0, "a", "x", "", api.WatchAdded}, {2, 1, "c", "x", "", api.WatchAdded}}
	s.rev = 2
	rts := []ResourceType{
		{ListInterface: model.ResourceListOptions{Kind: c26Kinds[0]}, SendDeletesOnConnFail: true},
		{ListInterface: model.ResourceListOptions{Kind: c26Kinds[1]}, UpdateProcessor: s.proc},
	}
	s.ws = New(&c26Client{inst: s}, rts, s.sink).(*watcherSyncer)
	// same objects as production, but the results channel is unbuffered and owned by the explorer
	s.results = make(chan resultWithID)
	s.ws.results = s.results
	for i, wc := range s.ws.watcherCaches {
		wc.results = s.results
		s.wcs[i] = wc
	}
	// what watcherSyncer.run does first
	s.ws.sendStatusUpdate(api.WaitForDatastore)
	for i := range s.wcs {
		wc := s.wcs[i]
		s.wg.Add(1)
		go func() {
			defer s.wg.Done()
			defer func() {
				if r := recover(); r != nil {
					select {
					case s.panics <- fmt.Sprint(r):
					case <-s.ctx.Done():
					}
				}
			}()
			wc.run(s.ctx)
		}()
		s.collect()
	}
	s.finishStep()
	return s
}

func (s *c26Inst) close() {
	s.cancel()
	go func() {
		done := make(chan struct{})
		go func() { s.wg.Wait(); close(done) }()
		for {
			select {
			case <-s.results:
			case <-s.parks:
			case <-s.panics:
			case <-done:
				return
			}
		}
	}()
}

// collect lets the single running cache goroutine proceed until it parks at an environment call.
func (s *c26Inst) collect() {
	t := time.NewTimer(120 * time.Second) // failure detector for the harness only, never part of a verdict on timing
	defer t.Stop()
	n0 := [2]int{len(s.q[0]), len(s.q[1])}
	for {
		select {
		case r := <-s.results:
			s.q[r.cacheID] = append(s.q[r.cacheID], r)
		case p := <-s.parks:
			s.park[p.idx] = p
			s.canonDeletes(p.idx, n0[p.idx])
			return
		case m := <-s.panics:
			panic("cache goroutine panicked: " + m)
		case <-t.C:
			panic("cache goroutine spins: neither called List/Watch, read the watch channel nor sent a result")
		}
	}
}

// canonDeletes removes the one source of runtime nondeterminism from the results just collected: finishResync and
// sendDeletionsForAllResources range over Go maps, so (a) the deletions inside one multi-delete update and (b) a run
// of consecutive single-delete results come in arbitrary order. They concern distinct keys and commute for every
// consumer; put them in key order (one of the orders the real code can produce) so that replays are deterministic.
func (s *c26Inst) canonDeletes(i, from int) {
	q := s.q[i]
	isDel := func(r resultWithID) (string, bool) {
		us, ok := r.value.([]api.Update)
		if !ok || len(us) != 1 || us[0].Value != nil {
			return "", false
		}
		return us[0].Key.String(), true
	}
	for j := from; j < len(q); j++ {
		if us, ok := q[j].value.([]api.Update); ok && len(us) > 1 {
			all := true
			for _, u := range us {
				all = all && u.Value == nil
			}
			if all {
				sort.SliceStable(us, func(a, b int) bool { return us[a].Key.String() < us[b].Key.String() })
			}
		}
	}
	for j := from; j < len(q); {
		k := j
		for k < len(q) {
			if _, ok := isDel(q[k]); !ok {
				break
			}
			k++
		}
		if k-j > 1 {
			run := q[j:k]
			sort.SliceStable(run, func(a, b int) bool {
				ka, _ := isDel(run[a])
				kb, _ := isDel(run[b])
				return ka < kb
			})
		}
		if k == j {
			k++
		}
		j = k
	}
}

func (s *c26Inst) pending(i int) (int, bool) {
	w := s.watcher[i]
	if w == nil {
		return 0, false
	}
	for j := w.pos; j < len(s.log); j++ {
		if s.log[j].typ == i && s.log[j].rev > w.startRev {
			return j, true
		}
	}
	return 0, false
}

func c26RKey(typ int, name string) model.Key {
	return model.ResourceKey{Kind: c26Kinds[typ], Name: name}
}

func (s *c26Inst) answer(i int, a string) {
	p := s.park[i]
	wc := s.wcs[i]
	wc.watchRetryTimeout = time.Duration(math.MaxInt64)
	if strings.HasSuffix(a, "-timeout") {
		wc.watchRetryTimeout = -1
	}
	var r c26Reply
	switch p.kind {
	case c26List:
		switch a {
		case "ok":
			l := &model.KVPairList{Revision: strconv.Itoa(s.rev)}
			var ks []string
			for k := range s.cur[i] {
				ks = append(ks, k)
			}
			sort.Strings(ks)
			for _, k := range ks {
				e := s.cur[i][k]
				l.KVPairs = append(l.KVPairs, &model.KVPair{Key: c26RKey(i, k), Value: e.val, Revision: strconv.Itoa(e.rev)})
			}
			r.list = l
			s.listDone[i] = true
		case "empty-norev":
			r.list = &model.KVPairList{}
			s.listDone[i] = true
		case "notfound":
			r.err = kerrors.NewNotFound(schema.GroupResource{Group: "crd.projectcalico.org", Resource: c26Kinds[i]}, "")
			s.listDone[i] = true // backing API absent: accepted as a completed (empty) list
		case "expired":
			r.err = kerrors.NewResourceExpired("too old resource version")
		case "err", "err-timeout":
			r.err = cerrors.ErrorDatastoreError{Err: errors.New("boom")}
		default:
			panic("harness: bad list answer " + a)
		}
		s.ans[i] <- r
	case c26Watch:
		switch a {
		case "ok":
			n, _ := strconv.Atoi(p.rev)
			w := &c26Watcher{inst: s, idx: i, ch: make(chan api.WatchEvent), startRev: n}
			s.watcher[i] = w
			r.w = w
		case "expired":
			r.err = kerrors.NewGone("too old resource version")
		case "refused", "refused-timeout":
			r.err = fmt.Errorf("dial tcp: %w", syscall.ECONNREFUSED)
		case "notsupp":
			r.err = cerrors.ErrorOperationNotSupported{Operation: "watch", Identifier: c26Kinds[i]}
		case "err":
			r.err = errors.New("boom")
		default:
			panic("harness: bad watch answer " + a)
		}
		s.ans[i] <- r
	case c26Read:
		w := s.watcher[i]
		switch a {
		case "next":
			j, ok := s.pending(i)
			if !ok {
				panic("harness: no pending event")
			}
			rec := s.log[j]
			w.pos = j + 1
			ev := api.WatchEvent{Type: rec.kind}
			rv := strconv.Itoa(rec.rev)
			switch rec.kind {
			case api.WatchDeleted:
				ev.Old = &model.KVPair{Key: c26RKey(i, rec.key), Value: rec.old, Revision: rv}
			case api.WatchModified:
				ev.Old = &model.KVPair{Key: c26RKey(i, rec.key), Value: rec.old}
				ev.New = &model.KVPair{Key: c26RKey(i, rec.key), Value: rec.val, Revision: rv}
			default:
				ev.New = &model.KVPair{Key: c26RKey(i, rec.key), Value: rec.val, Revision: rv}
			}
			w.ch <- ev
		case "bookmark":
			w.ch <- api.WatchEvent{Type: api.WatchBookmark, New: &model.KVPair{Revision: strconv.Itoa(s.rev)}}
		case "expired":
			w.ch <- api.WatchEvent{Type: api.WatchError, Error: kerrors.NewResourceExpired("too old resource version")}
		case "err":
			w.ch <- api.WatchEvent{Type: api.WatchError, Error: errors.New("boom")}
		case "closed":
			w.closed = true
			close(w.ch)
		default:
			panic("harness: bad read answer " + a)
		}
	}
	s.collect()
}

func (s *c26Inst) wsOne(i int) {
	r := s.q[i][0]
	s.q[i] = append([]resultWithID(nil), s.q[i][1:]...)
	s.upd = s.ws.processResult(s.upd, r)
}

func (s *c26Inst) flush() { s.upd = s.ws.sendUpdates(s.upd) }

func (s *c26Inst) eagerDrain() {
	for i := range s.q {
		for len(s.q[i]) > 0 {
			s.wsOne(i)
			if s.p.FlushEach {
				s.flush()
			}
		}
	}
	s.flush()
}

func c26Apply(s *c26Inst, e c26Ev) {
	switch e.Op {
	case "ans":
		if !c26IsDefault(e.A) {
			s.devLeft--
		}
		s.answer(e.I, e.A)
		if s.p.Eager {
			s.eagerDrain()
		}
	case "ws":
		s.wsOne(e.I)
	case "flush":
		s.flush()
	case "mut":
		s.mutLeft--
		s.rev++
		old, had := s.cur[e.I][e.K]
		rec := c26Rec{rev: s.rev, typ: e.I, key: e.K, val: e.V, old: old.val}
		switch {
		case e.V == "":
			rec.kind = api.WatchDeleted
			delete(s.cur[e.I], e.K)
		case had:
			rec.kind = api.WatchModified
			s.cur[e.I][e.K] = c26Ent{e.V, s.rev}
		default:
			rec.kind = api.WatchAdded
			s.cur[e.I][e.K] = c26Ent{e.V, s.rev}
		}
		s.log = append(s.log, rec)
	default:
		panic("harness: bad op " + e.Op)
	}
	s.finishStep()
}

func c26IsDefault(a string) bool { return a == "ok" || a == "next" }

func c26Enabled(s *c26Inst) []c26Ev {
	var evs []c26Ev
	add := func(i int, as ...string) {
		for _, a := range as {
			evs = append(evs, c26Ev{Op: "ans", I: i, A: a})
		}
	}
	for i := 0; i < 2; i++ {
		dev := s.devLeft > 0
		switch s.park[i].kind {
		case c26List:
			add(i, "ok")
			if dev {
				if len(s.cur[i]) == 0 {
					add(i, "empty-norev", "notfound")
				}
				add(i, "expired", "err", "err-timeout")
			}
		case c26Watch:
			add(i, "ok")
			if dev {
				add(i, "expired", "refused", "refused-timeout", "notsupp", "err")
			}
		case c26Read:
			_, pend := s.pending(i)
			if pend {
				add(i, "next")
			}
			if dev {
				if !pend {
					add(i, "bookmark") // a bookmark promises that everything up to its revision was delivered
				}
				add(i, "expired", "err", "closed")
			}
		}
		if !s.p.Eager && len(s.q[i]) > 0 {
			evs = append(evs, c26Ev{Op: "ws", I: i})
		}
	}
	if !s.p.Eager && len(s.upd) > 0 {
		evs = append(evs, c26Ev{Op: "flush"})
	}
	if s.mutLeft > 0 {
		mut := func(t int, k string, vals ...string) {
			cur, had := s.cur[t][k]
			for _, v := range vals {
				if !had || cur.val != v {
					evs = append(evs, c26Ev{Op: "mut", I: t, K: k, V: v})
				}
			}
			if had {
				evs = append(evs, c26Ev{Op: "mut", I: t, K: k})
			}
		}
		mut(0, "a", "x", "y")
		mut(0, "b", "x")
		if s.p.BadValue {
			mut(1, "c", "x", "y", "E")
		} else {
			mut(1, "c", "x", "y")
		}
		mut(1, "d", "x", "y") // a second resource that can convert to the same v1 key as c
	}
	return evs
}

// ---- rendering / key ----

func c26Updates(us []api.Update) string {
	var b strings.Builder
	for _, u := range us {
		fmt.Fprintf(&b, "%d:%s=%v@%s,", u.UpdateType, u.Key, u.Value, u.Revision)
	}
	return b.String()
}

func c26Result(r resultWithID) string {
	switch v := r.value.(type) {
	case api.SyncStatus:
		return fmt.Sprintf("S%d", v)
	case []api.Update:
		return "U[" + c26Updates(v) + "]"
	case error:
		return fmt.Sprintf("E(%T)", v)
	}
	return fmt.Sprintf("?%T", r.value)
}

func c26Entries(m map[string]cacheEntry) string {
	if m == nil {
		return "nil"
	}
	var ks []string
	for k, e := range m {
		ks = append(ks, k+"@"+e.revision)
	}
	sort.Strings(ks)
	return "{" + strings.Join(ks, ",") + "}"
}

func c26StrMap(m map[string]string) string {
	var ks []string
	for k, v := range m {
		ks = append(ks, k+"="+v)
	}
	sort.Strings(ks)
	return "{" + strings.Join(ks, ",") + "}"
}

func (s *c26Inst) expected() map[string]string {
	m := map[string]string{}
	for k, e := range s.cur[0] {
		m[c26RKey(0, k).String()] = e.val
	}
	// type #1 after conversion: the v1 key comes from the value; of several resources with the same value the
	// alphabetically lowest name is the one that is synced
	for k, e := range s.cur[1] {
		if e.val == "E" {
			continue
		}
		key := model.GlobalConfigKey{Name: "p-" + e.val}.String()
		if cur, ok := m[key]; !ok || "conv:"+k < cur {
			m[key] = "conv:" + k
		}
	}
	return m
}

// finishStep caches key / non-triviality: Check may run the instance on afterwards.
func (s *c26Inst) finishStep() {
	var b strings.Builder
	fmt.Fprintf(&b, "rev%d dev%d mut%d ld%v|", s.rev, s.devLeft, s.mutLeft, s.listDone)
	for i := range s.cur {
		var ks []string
		for k, e := range s.cur[i] {
			ks = append(ks, fmt.Sprintf("%s=%s@%d", k, e.val, e.rev))
		}
		sort.Strings(ks)
		fmt.Fprintf(&b, "ds%d%v|", i, ks)
	}
	for _, r := range s.log {
		fmt.Fprintf(&b, "%d:%d:%s:%s;", r.rev, r.typ, r.key, r.val)
	}
	for i, wc := range s.wcs {
		p := s.park[i]
		fmt.Fprintf(&b, "|c%d %s/%s ", i, p.kind, p.rev)
		if w := s.watcher[i]; w != nil && p.kind == c26Read {
			_, pend := s.pending(i)
			fmt.Fprintf(&b, "w%d/%d/%v/%v/%v ", w.startRev, w.pos, w.stopped, w.closed, pend)
		}
		fmt.Fprintf(&b, "res%s old%s cwr%s ec%d st%d crd%v lp%v wp%v conn%v", c26Entries(wc.resources), c26Entries(wc.oldResources),
			wc.currentWatchRevision, wc.errorCountAtCurrentRev, wc.status, wc.crdInstalled, wc.listTriggeredPolling, wc.watchTriggeredPolling, wc.connected)
		b.WriteString(" q[")
		for _, r := range s.q[i] {
			b.WriteString(c26Result(r) + ";")
		}
		b.WriteString("]")
	}
	fmt.Fprintf(&b, "|upd[%s]|ws%d%v|sink%s st%d%v%v%v%v|proc%s|bad%d", c26Updates(s.upd), s.ws.status, s.ws.cacheStatuses,
		c26StrMap(s.sink.view), s.sink.status, s.sink.gotStatus, s.sink.everInSync, s.sink.syncFailed, s.sink.parseFail, s.proc.render(), len(s.bad))
	s.key = b.String()
	used := (s.p.Devs - s.devLeft) + (s.p.Muts - s.mutLeft)
	s.nontriv = used > 0 && (len(s.wcs[0].resources)+len(s.wcs[1].resources)+len(s.wcs[0].oldResources)+len(s.wcs[1].oldResources) > 0)
}

// settle gives every pending request the default (success) answer and lets the syncer consume everything,
// until both caches sit on a caught-up watch. Returns false if that does not happen within the step bound.
func (s *c26Inst) settle() bool {
	for step := 0; step < 100; step++ {
		did := false
		for i := range s.q {
			for len(s.q[i]) > 0 {
				s.wsOne(i)
				did = true
			}
		}
		if len(s.upd) > 0 {
			s.flush()
			did = true
		}
		for i := range s.wcs {
			switch s.park[i].kind {
			case c26List, c26Watch:
				s.answer(i, "ok")
				did = true
			case c26Read:
				if _, ok := s.pending(i); ok {
					s.answer(i, "next")
					did = true
				}
			}
		}
		if !did {
			return true
		}
	}
	return false
}

func c26Check(c *vk.Ctx, s *c26Inst, hist []c26Ev) []hbfs.Fail {
	if s.p.replayLen > 0 && len(hist) != s.p.replayLen {
		return append([]hbfs.Fail(nil), s.bad...)
	}
	// is the state already quiescent on its own?
	selfQuiet := len(s.upd) == 0
	for i := range s.wcs {
		_, pend := s.pending(i)
		if s.park[i].kind != c26Read || pend || len(s.q[i]) > 0 {
			selfQuiet = false
		}
	}
	ok := s.settle()
	s.settled = true
	fails := append([]hbfs.Fail(nil), s.bad...)
	if !ok {
		fails = append(fails, hbfs.Fail{Key: "C26:no-convergence-under-success-answers", Msg: "caches did not reach a caught-up watch within 100 rounds of success answers"})
		s.outcome = "not-settled"
		return fails
	}
	want := s.expected()
	got := s.sink.view
	for k, v := range want {
		gv, ok := got[k]
		typ := "t0"
		if strings.HasPrefix(k, "Global") {
			typ = "t1"
		}
		if !ok {
			fails = append(fails, hbfs.Fail{Key: "C26:converged:" + typ + ":resource-missing", Msg: fmt.Sprintf("after settling, sink lacks %s=%s; sink %s want %s", k, v, c26StrMap(got), c26StrMap(want))})
		} else if gv != v {
			fails = append(fails, hbfs.Fail{Key: "C26:converged:" + typ + ":stale-value", Msg: fmt.Sprintf("after settling, sink has %s=%s want %s", k, gv, v)})
		}
	}
	for k, gv := range got {
		if _, ok := want[k]; !ok {
			typ := "t0"
			if strings.HasPrefix(k, "Global") {
				typ = "t1"
			}
			fails = append(fails, hbfs.Fail{Key: "C26:converged:" + typ + ":vanished-resource-not-deleted", Msg: fmt.Sprintf("after settling, sink still holds %s=%s; datastore (converted) %s", k, gv, c26StrMap(want))})
		}
	}
	s.outcome = fmt.Sprintf("settled sink-status=%d view=%s syncFailed=%v parseFail=%v crd=%v/%v everInSync=%v", s.sink.status, c26StrMap(got), s.sink.syncFailed, s.sink.parseFail,
		s.wcs[0].crdInstalled, s.wcs[1].crdInstalled, s.sink.everInSync)
	if c != nil {
		c.Add("settle_checks", 1)
		if selfQuiet {
			c.Add("quiescent_states_reached_by_search", 1)
		}
		if s.sink.status != api.InSync {
			c.Add("info_settled_but_sink_not_insync", 1)
		}
	}
	return fails
}

func c26Spec(c *vk.Ctx, p c26Params) *hbfs.Spec[*c26Inst, c26Ev] {
	sp := &hbfs.Spec[*c26Inst, c26Ev]{
		Name:       p.Name,
		New:        func() *c26Inst { return c26New(p) },
		Apply:      c26Apply,
		Enabled:    func(s *c26Inst, d int) []c26Ev { return c26Enabled(s) },
		Check:      func(s *c26Inst, h []c26Ev) []hbfs.Fail { return c26Check(c, s, h) },
		Key:        func(s *c26Inst) string { return s.key },
		Close:      func(s *c26Inst) { s.close() },
		Nontrivial: func(s *c26Inst) bool { return s.nontriv },
		Outcome:    func(s *c26Inst) string { return s.outcome },
		MaxDepth:   p.Depth,
		Workers:    6,
		PanicKey: func(val string, hist []c26Ev) string {
			switch {
			case strings.Contains(val, "cache goroutine spins"):
				return "C26:cache-goroutine-spins"
			case strings.Contains(val, "cache goroutine panicked"):
				v := strings.Map(func(r rune) rune {
					if r >= '0' && r <= '9' {
						return -1
					}
					return r
				}, val)
				if len(v) > 90 {
					v = v[:90]
				}
				return "C26:" + v
			case strings.HasPrefix(val, "harness:"):
				return "C26:harness-self-check"
			}
			v := val
			if len(v) > 90 {
				v = v[:90]
			}
			return "C26:panic:" + v
		},
	}
	if p.Tree {
		sp.Key = nil
	}
	return sp
}

func c26AllSpecs() map[string][]c26Params {
	return map[string][]c26Params{
		"quick": {
			{Name: "wsync-eager-burst-dev2-mut1", Eager: true, Devs: 2, Muts: 1, Depth: 12},
			{Name: "wsync-eager-each-dev1-mut2", Eager: true, FlushEach: true, Devs: 1, Muts: 2, Depth: 11, BadValue: true},
			{Name: "wsync-full-dev1-mut1", Devs: 1, Muts: 1, Depth: 12},
			{Name: "wsync-eager-burst-dev1-mut1-tree", Eager: true, Devs: 1, Muts: 1, Depth: 6, Tree: true},
		},
		"thorough": {
			{Name: "wsync-eager-burst-dev3-mut1", Eager: true, Devs: 3, Muts: 1, Depth: 14},
			{Name: "wsync-eager-burst-dev3-mut2", Eager: true, Devs: 3, Muts: 2, Depth: 16, BadValue: true},
			{Name: "wsync-eager-each-dev2-mut2", Eager: true, FlushEach: true, Devs: 2, Muts: 2, Depth: 14, BadValue: true},
			{Name: "wsync-full-dev2-mut1", Devs: 2, Muts: 1, Depth: 16},
			{Name: "wsync-full-dev1-mut2", Devs: 1, Muts: 2, Depth: 14, BadValue: true},
			{Name: "wsync-eager-burst-dev2-mut1-tree", Eager: true, Devs: 2, Muts: 1, Depth: 7, Tree: true},
			{Name: "wsync-full-dev1-mut1-tree", Devs: 1, Muts: 1, Depth: 6, Tree: true},
		},
	}
}

func c26Specs(c *vk.Ctx) []c26Params { return c26AllSpecs()[c.Tier()] }

func c26SpecsBoth() []c26Params {
	var out []c26Params
	for _, ps := range c26AllSpecs() {
		out = append(out, ps...)
	}
	return out
}

func TestVerif_C26(t *testing.T) {
	logrus.SetLevel(logrus.PanicLevel)
	// Retry pacing off: resyncThrottleC() then always returns the already-closed channel. Set once, never changed.
	MinResyncInterval, ListRetryInterval, WatchPollInterval, MissingAPIRetryTime = 0, 0, 0, 0
	vk.Run(t, "C26", func(c *vk.Ctx) {
		c.Rule("states = (both real watcherCaches' fields + where each goroutine is parked, result queues, real watcherSyncer status/cacheStatuses/update buffer, sink view+status, ground-truth datastore + change log, remaining budgets); " +
			"transitions = one environment answer to a parked List/Watch/watch-read (default success; deviations: list{empty+no revision, NotFound, ResourceExpired, error, error past the retry timeout} " +
			"watch{Gone, connection refused, refused past the timeout, not supported, error} read{bookmark, Expired error, other error, channel closed}), one datastore mutation, or one syncer step (consume one result of a chosen cache / flush), " +
			"each replayed on fresh goroutines; bound = number of deviations and mutations per spec name; after EVERY state the run is continued with success answers to quiescence and compared with the converted datastore; " +
			"non-trivial = state after >=1 deviation/mutation with cached resources")
		c.Assume("retry intervals are 0 and the watchRetryTimeout comparison is forced per answer (timed out / not yet); real pacing is not explored")
		c.Assume("MaxErrorsPerRevision is scaled from 5 to 2 by a build-time rewrite so that the give-up-and-relist branch is reachable within the deviation bound")
		c.Assume("watcherSyncer.run's consolidation loop is replaced by the explorer choosing consumption order and flush points (processResult/sendUpdates are the real ones)")
		c.Assume("deletions that the cache emits while ranging over a Go map (resync sweep, connection-failure deletes) are put into key order; they concern distinct keys and commute for the consumer")
		c.Assume("a List answered NotFound (backing API not installed) counts as a completed list; the fake datastore delivers watch events with revision > the requested one, deletions carry the deletion's revision")
		if rf := c.ReplayFile(); rf != "" {
			var d struct {
				Spec    string
				History []string
			}
			if err := vk.LoadReplay(rf, &d); err != nil {
				c.ToolError(err.Error())
				return
			}
			for _, p := range c26SpecsBoth() {
				if p.Name == d.Spec {
					p.replayLen = len(d.History)
					p.Depth = 999
					fails, err := hbfs.Replay(c26Spec(nil, p), d.History)
					if err != nil {
						c.ToolError(err.Error())
					}
					for _, f := range fails {
						c.Violation(f.Key, map[string]any{"spec": d.Spec, "history": d.History, "msg": f.Msg})
					}
					c.Add("states", 1)
					c.Add("transitions", int64(len(d.History)))
					return
				}
			}
			c.ToolError("replay: unknown spec " + d.Spec)
			return
		}
		c.Sample(map[string]any{"spec": "wsync-full-dev1-mut1", "history": []string{
			`{"Op":"ans","I":0,"A":"ok"}`, `{"Op":"ans","I":0,"A":"ok"}`, `{"Op":"ws","I":0}`, `{"Op":"ws","I":0}`, `{"Op":"ans","I":0,"A":"expired"}`,
			`{"Op":"mut","I":0,"K":"a"}`, `{"Op":"ans","I":0,"A":"ok"}`},
			"expect": "IPPool(a) vanished while the watch was broken: the re-list sweeps it (delete emitted), then success answers settle with sink == datastore"})
		for _, p := range c26Specs(c) {
			if only := os.Getenv("VERIF_C26_ONLY"); only != "" && only != p.Name { // debugging aid
				c.NotExhaustive("VERIF_C26_ONLY set")
				continue
			}
			if c.Expired() {
				c.Capped("deadline before " + p.Name)
				break
			}
			hbfs.Explore(c, c26Spec(c, p))
		}
	})
}

package hipam

// Shared world for the IPAM checks (C19–C22): the REAL ipamClient (ipam.NewIPAMClient) over the in-memory
// compare-and-swap datastore `casstore`, a pool accessor with the filtering of the real one, node
// resources, IPAM config and reservations. Time is logical (vclock; see target.json rewrites).

import (
	"context"
	"fmt"
	"net"
	"runtime/debug"
	"sort"
	"strings"

	v3 "github.com/projectcalico/api/pkg/apis/projectcalico/v3"
	"github.com/sirupsen/logrus"
	corev1 "k8s.io/api/core/v1"
	metav1 "k8s.io/apimachinery/pkg/apis/meta/v1"

	"github.com/projectcalico/calico/libcalico-go/lib/apis/internalapi"
	"github.com/projectcalico/calico/libcalico-go/lib/backend/model"
	"github.com/projectcalico/calico/libcalico-go/lib/ipam"
	cnet "github.com/projectcalico/calico/libcalico-go/lib/net"
	"github.com/projectcalico/calico/libcalico-go/lib/options"
	"github.com/projectcalico/calico/zzverif/casstore"
	"github.com/projectcalico/calico/zzverif/vclock"
)

func init() {
	debug.SetGCPercent(400)
	logrus.SetLevel(logrus.PanicLevel)
	logrus.StandardLogger().ExitFunc = func(int) { panic("logrus.Fatal") }
}

// vPool is one IP pool of a world.
type vPool struct {
	Name         string
	CIDR         string
	BlockSize    int
	Disabled     bool
	NodeSelector string
	NSSelector   string
	Uses         []v3.IPPoolAllowedUse // nil: Workload+Tunnel (the API default)
	Manual       bool
}

type vPools struct{ pools []vPool }

func (p *vPools) build(filter func(vp vPool, ver int) bool) []v3.IPPool {
	ps := append([]vPool(nil), p.pools...)
	sort.Slice(ps, func(i, j int) bool { return ps[i].Name < ps[j].Name })
	var out []v3.IPPool
	for _, vp := range ps {
		c := cnet.MustParseCIDR(vp.CIDR)
		if !filter(vp, c.Version()) {
			continue
		}
		mode := v3.Automatic
		if vp.Manual {
			mode = v3.Manual
		}
		uses := vp.Uses
		if len(uses) == 0 {
			uses = []v3.IPPoolAllowedUse{v3.IPPoolAllowedUseWorkload, v3.IPPoolAllowedUseTunnel}
		}
		out = append(out, v3.IPPool{
			ObjectMeta: metav1.ObjectMeta{Name: vp.Name},
			Spec: v3.IPPoolSpec{CIDR: vp.CIDR, BlockSize: vp.BlockSize, Disabled: vp.Disabled, NodeSelector: vp.NodeSelector,
				NamespaceSelector: vp.NSSelector, AllowedUses: uses, AssignmentMode: &mode},
		})
	}
	return out
}

func (p *vPools) GetEnabledPools(ctx context.Context, ver int) ([]v3.IPPool, error) {
	return p.build(func(vp vPool, v int) bool { return !vp.Disabled && v == ver }), nil
}

func (p *vPools) GetAllPools(ctx context.Context) ([]v3.IPPool, error) {
	return p.build(func(vPool, int) bool { return true }), nil
}

type vReservations struct{ cidrs []string }

func (r *vReservations) List(ctx context.Context, _ options.ListOptions) (*v3.IPReservationList, error) {
	l := &v3.IPReservationList{}
	if len(r.cidrs) > 0 {
		l.Items = append(l.Items, v3.IPReservation{ObjectMeta: metav1.ObjectMeta{Name: "rsv"}, Spec: v3.IPReservationSpec{ReservedCIDRs: r.cidrs}})
	}
	return l, nil
}

type worldCfg struct {
	Pools    []vPool
	Nodes    map[string]map[string]string // name -> labels
	Config   *model.IPAMConfig            // nil: no config object (defaults)
	Reserved []string
}

type ipamWorld struct {
	cfg   worldCfg
	store *casstore.Store
	pools *vPools
	rsv   *vReservations
	ic    ipam.Interface
	clock *vclock.Clock // clock of the set-up / oracle context
	ctx   context.Context
}

func newIPAMWorld(cfg worldCfg) *ipamWorld {
	w := &ipamWorld{cfg: cfg, store: casstore.New(), pools: &vPools{pools: cfg.Pools}, rsv: &vReservations{cidrs: cfg.Reserved}}
	w.clock = vclock.New(0, 0)
	w.ctx = vclock.WithClock(context.Background(), w.clock)
	names := make([]string, 0, len(cfg.Nodes))
	for n := range cfg.Nodes {
		names = append(names, n)
	}
	sort.Strings(names)
	for _, n := range names {
		node := internalapi.NewNode()
		node.Name = n
		node.Labels = cfg.Nodes[n]
		w.store.Put(&model.KVPair{Key: model.ResourceKey{Kind: internalapi.KindNode, Name: n}, Value: node})
	}
	if cfg.Config != nil {
		c := *cfg.Config
		w.store.Put(&model.KVPair{Key: model.IPAMConfigKey{}, Value: &c})
	}
	w.ic = ipam.NewIPAMClient(w.store, w.pools, w.rsv)
	return w
}

func (w *ipamWorld) close() { w.clock.Release() }

// bind binds the calling goroutine to the world's set-up clock (sequential harnesses).
func (w *ipamWorld) bind() { vclock.Bind(w.clock) }

const (
	pathBlocks     = "/calico/ipam/v2/assignment/"
	pathHandles    = "/calico/ipam/v2/handle/"
	pathAffHost    = "/calico/ipam/v2/host/"
	pathAffVirtual = "/calico/ipam/v2/virtual/"
	pathNodes      = "/calico/resources/v3/projectcalico.org/nodes/"
	pathConfig     = "/calico/ipam/v2/config"
)

type vBlock struct {
	CIDR string
	B    *model.AllocationBlock
}

func (w *ipamWorld) blocks() []vBlock {
	var out []vBlock
	for _, it := range w.store.Snapshot(pathBlocks) {
		if b, ok := it.Value.(*model.AllocationBlock); ok {
			out = append(out, vBlock{CIDR: b.CIDR.String(), B: b})
		}
	}
	return out
}

type vAff struct {
	Host, Type, CIDR string
	State            model.BlockAffinityState
}

func (w *ipamWorld) affinities() []vAff {
	var out []vAff
	for _, pfx := range []string{pathAffHost, pathAffVirtual} {
		for _, it := range w.store.Snapshot(pfx) {
			k, ok := it.Key.(model.BlockAffinityKey)
			if !ok {
				continue
			}
			a := it.Value.(*model.BlockAffinity)
			out = append(out, vAff{Host: k.Host, Type: k.AffinityType, CIDR: k.CIDR.String(), State: a.State})
		}
	}
	return out
}

// handles returns handle -> block cidr -> count.
func (w *ipamWorld) handles() map[string]map[string]int {
	out := map[string]map[string]int{}
	for _, it := range w.store.Snapshot(pathHandles) {
		k := it.Key.(model.IPAMHandleKey)
		h := it.Value.(*model.IPAMHandle)
		m := map[string]int{}
		for b, n := range h.Block {
			m[b] = n
		}
		out[k.HandleID] = m
	}
	return out
}

// vAlloc is one live (not released) allocation recorded in a block.
type vAlloc struct {
	IP, Block, Handle, Node string
	Seq                     uint64
	Cooling                 bool // released, waiting for cooldown
}

func blockAllocs(b *model.AllocationBlock) []vAlloc {
	var out []vAlloc
	for o, ai := range b.Allocations {
		if ai == nil {
			continue
		}
		a := vAlloc{IP: b.OrdinalToIP(o).String(), Block: b.CIDR.String(), Seq: b.GetSequenceNumberForOrdinal(o)}
		if *ai >= 0 && *ai < len(b.Attributes) {
			at := b.Attributes[*ai]
			if at.HandleID != nil {
				a.Handle = *at.HandleID
			}
			a.Node = at.ActiveOwnerAttrs["node"]
			a.Cooling = at.ReleasedAt != nil
		} else {
			a.Handle = "<bad-attr-index>"
		}
		out = append(out, a)
	}
	return out
}

// allocs returns ip -> live allocation over all blocks (cooling-down addresses excluded).
func (w *ipamWorld) allocs() map[string]vAlloc {
	out := map[string]vAlloc{}
	for _, vb := range w.blocks() {
		for _, a := range blockAllocs(vb.B) {
			if !a.Cooling {
				out[a.IP] = a
			}
		}
	}
	return out
}

// structural checks of one stored block: the free list and the allocation array must describe a
// partition of the ordinals (an ordinal on the free list that is also allocated, or listed twice,
// would be handed to a second owner).
func blockStructure(b *model.AllocationBlock) []string {
	var bad []string
	n := b.NumAddresses()
	if len(b.Allocations) != n {
		bad = append(bad, fmt.Sprintf("allocations len %d != %d", len(b.Allocations), n))
		return bad
	}
	seen := map[int]bool{}
	for _, o := range b.Unallocated {
		if o < 0 || o >= n {
			bad = append(bad, fmt.Sprintf("free ordinal %d out of range", o))
			continue
		}
		if seen[o] {
			bad = append(bad, fmt.Sprintf("ordinal %d twice on the free list", o))
		}
		seen[o] = true
		if b.Allocations[o] != nil {
			bad = append(bad, fmt.Sprintf("ordinal %d is allocated AND on the free list", o))
		}
	}
	for o, ai := range b.Allocations {
		if ai != nil && (*ai < 0 || *ai >= len(b.Attributes)) {
			bad = append(bad, fmt.Sprintf("ordinal %d points at attribute %d of %d", o, *ai, len(b.Attributes)))
		}
	}
	return bad
}

// blockInPool reports the pool that contains cidr as a properly aligned block.
func (w *ipamWorld) blockInPool(cidr string) *vPool {
	_, bn, err := net.ParseCIDR(cidr)
	if err != nil {
		return nil
	}
	ones, _ := bn.Mask.Size()
	for i := range w.cfg.Pools {
		p := &w.cfg.Pools[i]
		_, pn, _ := net.ParseCIDR(p.CIDR)
		if pn.Contains(bn.IP) && ones == p.BlockSize {
			return p
		}
	}
	return nil
}

// firstBlockFor returns the block that host claims first in an empty world of this configuration
// (the real, hostname-seeded block generator decides), so that scenarios can pick host names that
// contend for the same block. Found by running the real client on a scratch world.
func firstBlockFor(cfg worldCfg, host string) string {
	w := newIPAMWorld(cfg)
	w.bind()
	defer func() { vclock.Unbind(); w.close() }()
	h := "probe"
	_, _, _ = w.ic.AutoAssign(w.ctx, ipam.AutoAssignArgs{Num4: 1, Hostname: host, HandleID: &h, IntendedUse: v3.IPPoolAllowedUseWorkload})
	for _, a := range w.affinities() {
		if a.Host == host {
			return a.CIDR
		}
	}
	return ""
}

func ptr[T any](v T) *T { return &v }

func errClass(err error) string {
	if err == nil {
		return "ok"
	}
	s := fmt.Sprintf("%T", err)
	s = strings.TrimPrefix(s, "errors.")
	s = strings.TrimPrefix(s, "ipam.")
	if s == "*errors.errorString" || s == "*fmt.wrapError" || s == "*errorString" {
		m := err.Error()
		if len(m) > 40 {
			m = m[:40]
		}
		return "err:" + m
	}
	return s
}

var _ = corev1.Namespace{}

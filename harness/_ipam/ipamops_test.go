package hipam

// Operations on the real IPAM client and the generic schedule-exploration scenario (threads of
// operations over one casstore) shared by C19 and C22.

import (
	"os"
	"context"
	"fmt"
	"sort"
	"strings"
	"time"

	v3 "github.com/projectcalico/api/pkg/apis/projectcalico/v3"

	"github.com/projectcalico/calico/libcalico-go/lib/ipam"
	cnet "github.com/projectcalico/calico/libcalico-go/lib/net"
	"github.com/projectcalico/calico/zzverif/sched"
	"github.com/projectcalico/calico/zzverif/vclock"
	"github.com/projectcalico/calico/zzverif/vk"
)

// vOp is one IPAM client call.
type vOp struct {
	Kind        string // auto | assignip | release | rbh | relaff | relhostaff | claimaff
	Host        string
	Handle      string
	IP          string
	WithHandle  bool // release: name the handle
	WithSeq     bool // release: name the sequence number the address had after set-up
	StaleSeq    bool // release: name a sequence number that is NOT the current one
	MustBeEmpty bool
	CIDR        string
	Use         v3.IPPoolAllowedUse
	Num         int
	MaxAlloc    int // auto/assignip: MaxAllocToHandlePerIPVersion
	NoAttrs     bool // auto/assignip: pass no attributes at all (default: {"node": host})
}

func (o vOp) String() string {
	var b strings.Builder
	b.WriteString(o.Kind)
	if o.Host != "" {
		b.WriteString(" host=" + o.Host)
	}
	if o.Handle != "" {
		b.WriteString(" handle=" + o.Handle)
	}
	if o.IP != "" {
		b.WriteString(" ip=" + o.IP)
	}
	if o.CIDR != "" {
		b.WriteString(" cidr=" + o.CIDR)
	}
	if o.WithHandle {
		b.WriteString(" +handle")
	}
	if o.WithSeq {
		b.WriteString(" +seq")
	}
	if o.StaleSeq {
		b.WriteString(" +staleseq")
	}
	if o.MustBeEmpty {
		b.WriteString(" mustBeEmpty")
	}
	if o.NoAttrs {
		b.WriteString(" no-attrs")
	}
	return b.String()
}

// vRes is the outcome of one vOp.
type vRes struct {
	Started, Done bool
	Err           error
	IPs           []string // auto/assignip: addresses handed to the caller
	Unalloc       []string // release: reported as not allocated
}

// run performs op through the real client. seqOf supplies sequence numbers for WithSeq releases.
func (w *ipamWorld) run(ctx context.Context, op vOp, seqOf map[string]uint64) (r vRes) {
	r.Started = true
	use := op.Use
	if use == "" {
		use = v3.IPPoolAllowedUseWorkload
	}
	switch op.Kind {
	case "auto":
		n := op.Num
		if n == 0 {
			n = 1
		}
		args := ipam.AutoAssignArgs{Num4: n, Hostname: op.Host, Attrs: map[string]string{"node": op.Host}, IntendedUse: use, MaxAllocToHandlePerIPVersion: op.MaxAlloc}
		if op.NoAttrs {
			args.Attrs = nil
		}
		if op.Handle != "" {
			args.HandleID = ptr(op.Handle)
		}
		v4, _, err := w.ic.AutoAssign(ctx, args)
		r.Err = err
		if v4 != nil {
			for _, ip := range v4.IPs {
				r.IPs = append(r.IPs, ip.IP.String())
			}
		}
	case "assignip":
		args := ipam.AssignIPArgs{IP: cnet.MustParseIP(op.IP), Hostname: op.Host, Attrs: map[string]string{"node": op.Host}}
		if op.NoAttrs {
			args.Attrs = nil
		}
		if op.Handle != "" {
			args.HandleID = ptr(op.Handle)
		}
		r.Err = w.ic.AssignIP(ctx, args)
		if r.Err == nil {
			r.IPs = []string{op.IP}
		}
	case "release":
		ro := ipam.ReleaseOptions{Address: op.IP}
		if op.WithHandle {
			ro.Handle = op.Handle
		}
		if op.WithSeq {
			ro.SequenceNumber = ptr(seqOf[op.IP])
		}
		if op.StaleSeq {
			ro.SequenceNumber = ptr(seqOf[op.IP] + 1000003)
		}
		un, _, err := w.ic.ReleaseIPs(ctx, ro)
		r.Err = err
		for _, ip := range un {
			r.Unalloc = append(r.Unalloc, ip.String())
		}
	case "rbh":
		r.Err = w.ic.ReleaseByHandle(ctx, op.Handle)
	case "relaff":
		r.Err = w.ic.ReleaseAffinity(ctx, cnet.MustParseCIDR(op.CIDR), op.Host, op.MustBeEmpty)
	case "relhostaff":
		r.Err = w.ic.ReleaseHostAffinities(ctx, ipam.AffinityConfig{AffinityType: ipam.AffinityTypeHost, Host: op.Host}, op.MustBeEmpty)
	case "claimaff":
		_, _, r.Err = w.ic.ClaimAffinity(ctx, cnet.MustParseCIDR(op.CIDR), ipam.AffinityConfig{AffinityType: ipam.AffinityTypeHost, Host: op.Host})
	default:
		panic("unknown op kind " + op.Kind)
	}
	r.Done = true
	return r
}

// schedScenario is a set of threads of client calls over one world.
type schedScenario struct {
	Name    string
	Cfg     worldCfg
	Setup   []vOp
	Advance time.Duration // logical time that passes between set-up and the threads
	Threads [][]vOp
}

// schedWorld is one instance of a schedScenario.
type schedWorld struct {
	*ipamWorld
	sc       *schedScenario
	setupRes []vRes
	res      [][]vRes
	seqOf    map[string]uint64 // sequence number of each address allocated by set-up
	user     any               // oracle-private state
}

func (sc *schedScenario) describe() map[string]any {
	th := [][]string{}
	for _, ops := range sc.Threads {
		var l []string
		for _, o := range ops {
			l = append(l, o.String())
		}
		th = append(th, l)
	}
	var su []string
	for _, o := range sc.Setup {
		su = append(su, o.String())
	}
	var pools []string
	for _, p := range sc.Cfg.Pools {
		pools = append(pools, fmt.Sprintf("%s/%d", p.CIDR, p.BlockSize))
	}
	d := map[string]any{"scenario": sc.Name, "pools": pools, "setup": su, "threads": th}
	if sc.Cfg.Config != nil {
		d["config"] = fmt.Sprintf("%+v", *sc.Cfg.Config)
	}
	return d
}

type schedOracle func(sw *schedWorld, x *sched.Exec, final bool) []sched.Fail

// build turns the scenario into a sched.Scenario: a fresh world per execution, set-up run
// un-hooked, then every thread's calls go through the scheduler at each datastore operation.
func (sc *schedScenario) build(oracle schedOracle) *sched.Scenario {
	return &sched.Scenario{Name: sc.Name, New: func(x *sched.Exec) *sched.Instance {
		w := newIPAMWorld(sc.Cfg)
		sw := &schedWorld{ipamWorld: w, sc: sc, seqOf: map[string]uint64{}}
		w.bind()
		for _, op := range sc.Setup {
			r := w.run(w.ctx, op, sw.seqOf)
			sw.setupRes = append(sw.setupRes, r)
			for _, a := range w.allocs() {
				sw.seqOf[a.IP] = a.Seq
			}
		}
		vclock.Unbind()
		w.store.SetStatic(pathNodes, pathConfig)
		w.store.AttachSched()
		x.World = sw
		elapsed := w.clock.Peek().Sub(vclock.Base) + sc.Advance
		inst := &sched.Instance{}
		sw.res = make([][]vRes, len(sc.Threads))
		for i, ops := range sc.Threads {
			i, ops := i, ops
			sw.res[i] = make([]vRes, len(ops))
			inst.Threads = append(inst.Threads, sched.Thread{
				Name:  fmt.Sprintf("T%d", i),
				Clock: vclock.New(elapsed+time.Duration(i+1)*7*time.Microsecond, 0),
				Run: func(ctx context.Context) {
					for j, op := range ops {
						sw.res[i][j].Started = true
						sw.res[i][j] = w.run(ctx, op, sw.seqOf)
					}
				},
			})
		}
		inst.StateKey = func() string { return w.store.Dump(true) }
		inst.Check = func(x *sched.Exec, final bool) []sched.Fail { return oracle(sw, x, final) }
		inst.Outcome = func(x *sched.Exec) string {
			var b strings.Builder
			for i := range sw.res {
				for _, r := range sw.res[i] {
					switch {
					case x.Crashed(i):
						b.WriteString("crashed;")
					case !r.Done:
						b.WriteString("-;")
					default:
						fmt.Fprintf(&b, "%s/%d;", errClass(r.Err), len(r.IPs))
					}
				}
				b.WriteString("|")
			}
			al := w.allocs()
			ips := make([]string, 0, len(al))
			for ip, a := range al {
				ips = append(ips, ip+"="+a.Handle)
			}
			sort.Strings(ips)
			b.WriteString(strings.Join(ips, ","))
			for _, a := range w.affinities() {
				fmt.Fprintf(&b, " %s:%s:%s", a.Host, a.CIDR, a.State)
			}
			return b.String()
		}
		inst.Close = func() { w.close() }
		return inst
	}}
}

// anyCrashed reports whether some thread of the execution was killed by an injected crash.
func anyCrashed(x *sched.Exec, n int) bool {
	for i := 0; i < n; i++ {
		if x.Crashed(i) {
			return true
		}
	}
	return false
}

// resolveRefs replaces "@h0.N" (N-th address set-up allocated to handle h0, in address order) by the
// address; set-up is deterministic so this is computed once per scenario on a scratch world.
func resolveRefs(sc *schedScenario) {
	need := false
	for _, ops := range sc.Threads {
		for _, o := range ops {
			if len(o.IP) > 0 && o.IP[0] == '@' {
				need = true
			}
		}
	}
	if !need {
		return
	}
	w := newIPAMWorld(sc.Cfg)
	w.bind()
	defer func() { vclock.Unbind(); w.close() }()
	byHandle := map[string][]string{}
	for _, op := range sc.Setup {
		r := w.run(w.ctx, op, nil)
		byHandle[op.Handle] = append(byHandle[op.Handle], r.IPs...)
	}
	for h := range byHandle {
		sort.Strings(byHandle[h])
	}
	for ti := range sc.Threads {
		for oi := range sc.Threads[ti] {
			o := &sc.Threads[ti][oi]
			if len(o.IP) > 0 && o.IP[0] == '@' {
				var h string
				var n int
				fmt.Sscanf(o.IP, "@%2s.%d", &h, &n)
				o.IP = byHandle[h][n]
			}
		}
	}
}


// runSchedCheck is the body shared by the schedule-exploration checks: engine self-test, replay
// mode, then one bounded exploration per scenario with the wall budget spread over them.
func runSchedCheck(c *vk.Ctx, scs, all []*schedScenario, oracle schedOracle) {
	msg, err := sched.SelfTest()
	if err != nil {
		c.ToolError(err.Error())
		return
	}
	fmt.Println("INFO " + msg)
	fmt.Printf("INFO vclock fast goroutine-id path: %v\n", vclock.FastGoid())
	c.Rule("schedules = every interleaving of the threads' datastore operations (each Get/List/Create/Update/Delete of the real ipamClient on casstore is a scheduling point) within the preemption bound, times every placement of <= fault-budget faults {CAS conflict, client killed before the write, client killed after the write} at write operations; non-trivial = schedule with >=1 preemption or >=1 injected fault")
	c.Assume("datastore = casstore: linearizable single-key compare-and-swap store with the etcd/Kubernetes backends' error semantics; values cross the boundary as JSON (second-granular timestamps)")
	c.Assume("logical per-client clocks (1 ms per read, skew < 1 ms); reads of Node and IPAMConfig objects are not scheduling points (nobody writes them in these scenarios)")
	allFaults := []sched.Fault{sched.FaultConflict, sched.FaultCrashBefore, sched.FaultCrashAfter}
	if rf := c.ReplayFile(); rf != "" {
		var d sched.Detail
		if err := vk.LoadReplay(rf, &d); err != nil {
			c.ToolError("cannot load replay: " + err.Error())
			return
		}
		for _, sc := range all {
			if sc.Name != d.Scenario {
				continue
			}
			resolveRefs(sc)
			tr, fails, err := sched.Replay(sc.build(oracle), sched.Options{MaxPreempt: 99, MaxFaults: 99, Faults: allFaults}, d.Choices)
			if err != nil {
				c.ToolError(err.Error())
				return
			}
			for _, s := range tr {
				fmt.Println("INFO   " + s)
			}
			c.Add("states", 1)
			c.Add("transitions", int64(len(tr)))
			c.Sample(map[string]any{"replayed": sc.describe(), "trace": tr})
			for _, f := range fails {
				c.Violation(f.Key, sched.Detail{Scenario: d.Scenario, Choices: d.Choices, Trace: tr, Msg: f.Msg})
			}
			return
		}
		c.ToolError("replay names unknown scenario " + d.Scenario)
		return
	}
	opts := sched.Options{
		MaxPreempt:    c.Pick(2, 3),
		MaxFaults:     c.Pick(1, 2),
		Faults:        []sched.Fault{sched.FaultConflict, sched.FaultCrashAfter},
		HookBudget:    250,
		Workers:       c.Pick(6, 8),
		DetCheckEvery: c.Pick(50, 200),
	}
	if c.Thorough() {
		// crash-before a write leaves the same datastore as crash-after the previous write, so the
		// quick tier offers only crash-after (plus a never-started client = crash-before the first
		// write, which is the same as not running it); the thorough tier offers all three anyway.
		opts.Faults = allFaults
	}
	total := time.Duration(c.Pick(125, 22*60)) * time.Second
	if only := os.Getenv("VERIF_ONLY"); only != "" { // development aid: restrict to matching scenarios
		var keep []*schedScenario
		for _, sc := range all {
			if strings.Contains(sc.Name, only) {
				keep = append(keep, sc)
			}
		}
		scs = keep
		c.NotExhaustive("VERIF_ONLY=" + only)
	}
	t0 := time.Now()
	for i, sc := range scs {
		resolveRefs(sc)
		o := opts
		o.Budget = (total - time.Since(t0)) / time.Duration(len(scs)-i)
		if o.Budget < time.Second {
			o.Budget = time.Second
		}
		tr, fails, err := sched.RunDefault(sc.build(oracle), o)
		if err != nil {
			c.ToolError(err.Error())
			return
		}
		c.Sample(map[string]any{"scenario": sc.describe(), "default_schedule": tr, "oracle_failures": len(fails)})
		sched.Explore(c, sc.build(oracle), o)
	}
	if n := vclock.UnboundReads(); n > 0 {
		c.ToolError(fmt.Sprintf("%d clock reads came from goroutines without a logical clock (determinism not guaranteed)", n))
	}
}

package hipam

// Allocation oracle shared by C19 and C22.

import (
	"fmt"

	"github.com/projectcalico/calico/zzverif/sched"
)

type grant struct {
	who    string // "setup#i" or "T<i>#<j>"
	handle string
	ip     string
}

// allocOracle (C19, reused by C22) — what the statement demands, nothing more:
//
//	every state:  stored blocks are structurally sound (no ordinal both free and allocated / twice
//	              free), lie in a pool and do not repeat; every address handed to a caller that
//	              nobody has since asked to release is recorded in its block under that caller's
//	              handle (so it cannot also belong to somebody else); no address is handed to two
//	              callers; a handle never counts FEWER addresses in a block than the block records
//	              for it (an under-count would hide addresses from release-by-handle);
//	quiescence:   handle counts equal block counts exactly — unless a client was killed, in which case
//	              over-counting handles are the accepted crash residue.
func allocOracle(name string) schedOracle {
	return func(sw *schedWorld, x *sched.Exec, final bool) []sched.Fail {
		return allocCheck(name, sw, x, final)
	}
}

func allocCheck(name string, sw *schedWorld, x *sched.Exec, final bool) []sched.Fail {
	var fails []sched.Fail
	bad := func(class, msg string) {
		fails = append(fails, sched.Fail{Key: name + ":" + class, Msg: sw.sc.Name + ": " + msg})
	}
	blocks := sw.blocks()
	seenCIDR := map[string]bool{}
	perHandleBlock := map[string]map[string]int{}
	live := map[string]vAlloc{}
	for _, vb := range blocks {
		if seenCIDR[vb.CIDR] {
			bad("duplicate-block", "block "+vb.CIDR+" stored twice")
		}
		seenCIDR[vb.CIDR] = true
		if sw.blockInPool(vb.CIDR) == nil {
			bad("block-outside-pool", "block "+vb.CIDR+" is not a block of any pool")
		}
		for _, m := range blockStructure(vb.B) {
			bad("block-structure", "block "+vb.CIDR+": "+m)
		}
		for _, a := range blockAllocs(vb.B) {
			if a.Cooling {
				continue
			}
			if _, dup := live[a.IP]; dup {
				bad("address-in-two-blocks", a.IP)
			}
			live[a.IP] = a
			if a.Handle != "" {
				if perHandleBlock[a.Handle] == nil {
					perHandleBlock[a.Handle] = map[string]int{}
				}
				perHandleBlock[a.Handle][a.Block]++
			}
		}
	}
	// which (handle / address) may legitimately have been freed by a release that has started
	releasedHandle := map[string]bool{}
	releasedIP := map[string]string{} // ip -> handle named ("" = any owner)
	noteRelease := func(op vOp) {
		switch op.Kind {
		case "rbh":
			releasedHandle[op.Handle] = true
		case "release":
			h := ""
			if op.WithHandle {
				h = op.Handle
			}
			releasedIP[op.IP] = h
		}
	}
	for _, op := range sw.sc.Setup {
		noteRelease(op)
	}
	for ti, ops := range sw.sc.Threads {
		for oi, op := range ops {
			if !sw.res[ti][oi].Started {
				continue
			}
			switch op.Kind {
			case "rbh":
				releasedHandle[op.Handle] = true
			case "release":
				h := ""
				if op.WithHandle {
					h = op.Handle
				}
				releasedIP[op.IP] = h
			}
		}
	}
	var grants []grant
	add := func(who string, op vOp, r vRes) {
		if !r.Done || (op.Kind != "auto" && op.Kind != "assignip") {
			return
		}
		for _, ip := range r.IPs {
			grants = append(grants, grant{who, op.Handle, ip})
		}
	}
	for i, op := range sw.sc.Setup {
		add(fmt.Sprintf("setup#%d", i), op, sw.setupRes[i])
	}
	for ti, ops := range sw.sc.Threads {
		for oi, op := range ops {
			add(fmt.Sprintf("T%d#%d", ti, oi), op, sw.res[ti][oi])
		}
	}
	holder := map[string]grant{}
	for _, g := range grants {
		mayBeFreed := releasedHandle[g.handle]
		if h, ok := releasedIP[g.ip]; ok && (h == "" || h == g.handle) {
			mayBeFreed = true
		}
		if mayBeFreed {
			continue
		}
		if prev, dup := holder[g.ip]; dup && prev.handle == g.handle && g.handle != "" {
			// the same handle asking again is the same owner (idempotent re-assignment under a
			// per-handle limit returns the address the handle already holds): not a second owner
			continue
		}
		if prev, dup := holder[g.ip]; dup {
			bad("address-given-twice", fmt.Sprintf("%s was handed to %s (handle %s) and to %s (handle %s), neither released", g.ip, prev.who, prev.handle, g.who, g.handle))
		}
		holder[g.ip] = g
		a, ok := live[g.ip]
		if !ok {
			bad("granted-address-not-recorded", fmt.Sprintf("%s was handed to %s (handle %s) but its block does not record it as allocated", g.ip, g.who, g.handle))
		} else if a.Handle != g.handle {
			bad("granted-address-recorded-for-other", fmt.Sprintf("%s was handed to %s (handle %s) but its block records handle %q", g.ip, g.who, g.handle, a.Handle))
		}
	}
	handles := sw.handles()
	for h, per := range perHandleBlock {
		for b, n := range per {
			if handles[h][b] < n {
				bad("handle-undercount", fmt.Sprintf("handle %s counts %d in block %s but the block records %d of its addresses", h, handles[h][b], b, n))
			}
		}
	}
	if final && !anyCrashed(x, len(sw.sc.Threads)) {
		// which kind of call feeds each handle (for a specific, stable violation key)
		feeder := map[string]string{}
		for _, ops := range append([][]vOp{sw.sc.Setup}, sw.sc.Threads...) {
			for _, op := range ops {
				if op.Kind == "auto" || op.Kind == "assignip" {
					if k, ok := feeder[op.Handle]; ok && k != op.Kind {
						feeder[op.Handle] = "mixed"
					} else {
						feeder[op.Handle] = op.Kind
					}
				}
			}
		}
		for h, per := range handles {
			for b, n := range per {
				if perHandleBlock[h][b] != n {
					bad("handle-overcount-at-quiescence:"+feeder[h], fmt.Sprintf("no client crashed, all calls returned, yet handle %s counts %d in block %s while the block records %d", h, n, b, perHandleBlock[h][b]))
				}
			}
		}
	}
	return fails
}


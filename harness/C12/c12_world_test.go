package intdataplane

// C12 world: ONE endpoint policy state, given as the proto messages Felix's calculation graph emits
// (IPSetUpdate, ActivePolicyUpdate, ActiveProfileUpdate, WorkloadEndpointUpdate), is handed to the four
// REAL implementations:
//
//	ipt  real policyManager + endpointManager (groupTieredPolicy -> rules.NewRenderer -> iptables text), executed by nfsim
//	nft  same managers with the nftables renderer, executed by nfsim
//	bpf  real bpfEndpointManager.extractRules -> polprog.NewBuilder(...).Instructions, executed by the ebpf interpreter
//	     (IP sets written into the LPM trie with the real bpf/ipsets encoders)
//	app  real policystore.ProcessUpdate + checker.ALPCheckProvider.Check (the enforcement entry point, ingress tcp/udp)
//	     and checker.Evaluate(EnforcedOnly, ...) (every direction / protocol)

import (
	"encoding/binary"
	"fmt"
	"net"
	"net/netip"
	"os"
	"os/exec"
	"path/filepath"
	"sort"
	"strconv"
	"strings"
	"sync"

	core "github.com/envoyproxy/go-control-plane/envoy/config/core/v3"
	authz "github.com/envoyproxy/go-control-plane/envoy/service/auth/v3"
	"github.com/onsi/gomega"
	v3 "github.com/projectcalico/api/pkg/apis/projectcalico/v3"
	"github.com/sirupsen/logrus"

	"github.com/projectcalico/calico/app-policy/checker"
	"github.com/projectcalico/calico/app-policy/policystore"
	"github.com/projectcalico/calico/felix/bpf/asm"
	bpfipsets "github.com/projectcalico/calico/felix/bpf/ipsets"
	"github.com/projectcalico/calico/felix/bpf/polprog"
	"github.com/projectcalico/calico/felix/dataplane/common"
	"github.com/projectcalico/calico/felix/generictables"
	"github.com/projectcalico/calico/felix/ipsets"
	"github.com/projectcalico/calico/felix/nftables"
	"github.com/projectcalico/calico/felix/proto"
	"github.com/projectcalico/calico/felix/routetable"
	"github.com/projectcalico/calico/felix/rules"
	"github.com/projectcalico/calico/felix/types"
	"github.com/projectcalico/calico/zzverif/ebpf"
	"github.com/projectcalico/calico/zzverif/nfsim"
	"github.com/projectcalico/calico/zzverif/refpol"
)

// ---------------------------------------------------------------------------------------------
// the state (JSON-serialisable: it is the replay artefact)

// c12Rule: matcher name (key into the domain's matcher table) + action (allow|deny|pass|next-tier|log).
type c12Rule struct {
	M string
	A string
}

type c12Policy struct {
	Staged bool
	Rules  []c12Rule
}

type c12Tier struct {
	// Default: "Deny", "Pass" or "" (what the calculation graph emits for a tier resource that is gone
	// while policies still name it).
	Default  string
	Policies []c12Policy
}

type c12State struct {
	IPV      int    // 4 | 6
	Dir      string // ingress | egress
	Tiers    []c12Tier
	Profiles [][]c12Rule
	// OneGroup: all policies carry the same selector, so the endpoint manager puts the policies of a tier in
	// one policy group (own chain when it holds >= 2 enforced policies); otherwise every policy has its own selector.
	OneGroup bool
}

func c12RulesSig(rs []c12Rule) string {
	var p []string
	for _, r := range rs {
		p = append(p, r.M+">"+r.A)
	}
	return strings.Join(p, ";")
}

func (s *c12State) sig() string {
	var sb strings.Builder
	fmt.Fprintf(&sb, "v%d %s ", s.IPV, s.Dir)
	if s.OneGroup {
		sb.WriteString("1grp ")
	}
	for _, t := range s.Tiers {
		fmt.Fprintf(&sb, "T(%s)[", map[string]string{"Deny": "D", "Pass": "P", "": "unset"}[t.Default])
		for i, p := range t.Policies {
			if i > 0 {
				sb.WriteString(" | ")
			}
			if p.Staged {
				sb.WriteString("staged:")
			}
			sb.WriteString("{" + c12RulesSig(p.Rules) + "}")
		}
		sb.WriteString("] ")
	}
	for _, p := range s.Profiles {
		sb.WriteString("prof{" + c12RulesSig(p) + "} ")
	}
	return strings.TrimSpace(sb.String())
}

// ---------------------------------------------------------------------------------------------
// the domain: addresses, IP sets and the matcher table of one IP version

type c12SetDef struct {
	Type    proto.IPSetUpdate_IPSetType
	BPFID   uint64
	Members []string // calculation-graph format: CIDRs / "ip,proto:port"
}

type c12Pkt struct {
	Name     string
	Src, Dst string
	Proto    int
	SPort    int
	DPort    int

	// conversions, filled once by (*c12Dom).prep (packets are shared read-only between the workers)
	ref         *refpol.Packet
	nfIn, nfOut *nfsim.Packet
}

// prep fills the cached conversions of the packets.
func (d *c12Dom) prep(pkts []*c12Pkt) []*c12Pkt {
	for _, p := range pkts {
		p.ref = d.refPacket(p)
		p.nfIn = d.nfPacket(p, "ingress")
		p.nfOut = d.nfPacket(p, "egress")
	}
	return pkts
}

func (p *c12Pkt) String() string {
	return fmt.Sprintf("%s: proto %d %s:%d -> %s:%d", p.Name, p.Proto, p.Src, p.SPort, p.Dst, p.DPort)
}

type c12Dom struct {
	ver      int
	sets     map[string]c12SetDef
	matchers map[string]*proto.Rule
	family   map[string]string // matcher -> feature family (for violation keys)
	order    []string          // matcher names in definition order
	// addresses
	a map[string]string
}

func c12PName(n string) *proto.Protocol {
	return &proto.Protocol{NumberOrName: &proto.Protocol_Name{Name: n}}
}
func c12PNum(n int32) *proto.Protocol {
	return &proto.Protocol{NumberOrName: &proto.Protocol_Number{Number: n}}
}
func c12PR(a, b int32) *proto.PortRange { return &proto.PortRange{First: a, Last: b} }

var (
	c12DomOnce sync.Once
	c12Doms    map[int]*c12Dom
)

func c12Domain(ver int) *c12Dom {
	c12DomOnce.Do(func() {
		c12Doms = map[int]*c12Dom{4: c12MakeDomain(4), 6: c12MakeDomain(6)}
	})
	return c12Doms[ver]
}

func c12MakeDomain(ver int) *c12Dom {
	d := &c12Dom{ver: ver, matchers: map[string]*proto.Rule{}, family: map[string]string{}}
	if ver == 4 {
		d.a = map[string]string{
			"net8": "10.0.0.0/8", "net24": "10.0.0.0/24", "other": "192.168.1.5/32", "otherVer": "fe80::/10", "zero": "0.0.0.0/0",
			"srcBase": "10.0.0.1", "srcIn24Edge": "10.0.0.255", "srcOut24": "10.0.1.0", "srcIn8Edge": "10.255.255.255", "srcOut8": "11.0.0.0", "srcOther": "192.168.1.5", "srcOther2": "192.168.1.6", "srcS2only": "172.16.0.1",
			"wl": "10.65.0.2", "wl2": "10.65.0.3", "wlNet": "10.65.0.0/24", "dstOut": "10.66.0.2", "dstOutS3": "10.66.0.3",
			"hostLen": "/32", "pairLen": "/31", "half": "10.0.0.128/25",
		}
	} else {
		d.a = map[string]string{
			"net8": "2001:db8::/32", "net24": "2001:db8:0:1::/64", "other": "fd00:1:2:3:4:5:6:5/128", "otherVer": "169.254.0.0/16", "zero": "::/0",
			"srcBase": "2001:db8:0:1::1", "srcIn24Edge": "2001:db8:0:1:ffff:ffff:ffff:ffff", "srcOut24": "2001:db8:0:2::", "srcIn8Edge": "2001:db8:ffff:ffff:ffff:ffff:ffff:ffff", "srcOut8": "2001:db9::", "srcOther": "fd00:1:2:3:4:5:6:5", "srcOther2": "fd00:1:2:3:4:5:6:6", "srcS2only": "fd77::1",
			"wl": "fd65::2", "wl2": "fd65::3", "wlNet": "fd65::/64", "dstOut": "fd66::2", "dstOutS3": "fd66::3",
			"hostLen": "/128", "pairLen": "/127", "half": "2001:db8:0:1:ffff:ffff:ffff:ff80/121",
		}
	}
	a := d.a
	host := func(k string) string { return a[k] + a["hostLen"] }
	d.sets = map[string]c12SetDef{
		// selector-style sets (type NET: members are CIDRs, single addresses are full-length prefixes)
		"s1": {Type: proto.IPSetUpdate_NET, BPFID: 0x0102030405060708, Members: []string{a["net24"], a["other"]}},
		"s2": {Type: proto.IPSetUpdate_NET, BPFID: 0x1112131415161718, Members: []string{host("srcBase"), host("srcS2only"), host("wl2")}},
		// members whose prefix is longer than the last byte boundary but not a full address (/25../31, /121../127)
		"s4": {Type: proto.IPSetUpdate_NET, BPFID: 0x6162636465666768, Members: []string{a["wl"] + a["pairLen"], a["half"]}},
		"s3": {Type: proto.IPSetUpdate_NET, BPFID: 0x5152535455565758, Members: []string{host("wl"), host("dstOutS3")}},
		"e0": {Type: proto.IPSetUpdate_NET, BPFID: 0x4142434445464748, Members: nil},
		// named-port sets (type IP_AND_PORT)
		"np1": {Type: proto.IPSetUpdate_IP_AND_PORT, BPFID: 0x2122232425262728, Members: []string{a["wl"] + ",tcp:8080", a["wl"] + ",udp:53", a["srcBase"] + ",tcp:1000"}},
		"np2": {Type: proto.IPSetUpdate_IP_AND_PORT, BPFID: 0x3132333435363738, Members: []string{a["wl2"] + ",tcp:80"}},
	}
	add := func(fam, name string, r *proto.Rule) {
		if _, dup := d.matchers[name]; dup {
			panic("duplicate matcher " + name)
		}
		d.matchers[name] = r
		d.family[name] = fam
		d.order = append(d.order, name)
	}
	tcp := func() *proto.Protocol { return c12PName("tcp") }
	ipv := proto.IPVersion_IPV4
	icmpName, icmpNum := "icmp", int32(1)
	if ver == 6 {
		ipv = proto.IPVersion_IPV6
		icmpName, icmpNum = "icmpv6", 58
	}
	// --- protocol
	add("all", "all", &proto.Rule{})
	add("protocol", "tcp", &proto.Rule{Protocol: tcp()})
	add("protocol", "udp-num", &proto.Rule{Protocol: c12PNum(17)})
	add("protocol", "sctp", &proto.Rule{Protocol: c12PName("sctp")})
	add("protocol", "udp-upper", &proto.Rule{Protocol: c12PName("UDP")})
	add("protocol", "udplite", &proto.Rule{Protocol: c12PName("udplite")})
	add("protocol", "proto-47", &proto.Rule{Protocol: c12PNum(47)})
	// a NAMED icmp protocol pins the rule's IP version in the calculation graph (ipVersionToProtoIPVersion)
	add("protocol", "icmp-name", &proto.Rule{Protocol: c12PName(icmpName), IpVersion: ipv})
	add("protocol", "icmp-num", &proto.Rule{Protocol: c12PNum(icmpNum)})
	add("protocol", "not-tcp", &proto.Rule{NotProtocol: tcp()})
	add("protocol", "not-udp-num", &proto.Rule{NotProtocol: c12PNum(17)})
	add("protocol", "not-icmp-name", &proto.Rule{NotProtocol: c12PName(icmpName), IpVersion: ipv})
	add("protocol", "tcp-not-udp", &proto.Rule{Protocol: tcp(), NotProtocol: c12PName("udp")})
	add("protocol", "ipversion-this", &proto.Rule{IpVersion: ipv, Protocol: tcp()})
	// --- nets
	add("nets", "src-net8", &proto.Rule{SrcNet: []string{a["net8"]}})
	add("nets", "src-net24", &proto.Rule{SrcNet: []string{a["net24"]}})
	add("nets", "src-net-multi", &proto.Rule{SrcNet: []string{a["other"], a["net24"]}})
	add("nets", "src-net-zero", &proto.Rule{SrcNet: []string{a["zero"]}})
	add("nets", "src-net-host", &proto.Rule{SrcNet: []string{host("srcBase")}})
	add("nets", "dst-net-host", &proto.Rule{DstNet: []string{host("wl")}})
	add("nets", "dst-net-multi", &proto.Rule{DstNet: []string{host("dstOut"), a["wlNet"]}})
	add("nets", "not-src-net8", &proto.Rule{NotSrcNet: []string{a["net8"]}})
	add("nets", "not-src-net-multi", &proto.Rule{NotSrcNet: []string{a["other"], a["net24"]}})
	add("nets", "not-dst-net", &proto.Rule{NotDstNet: []string{a["wlNet"]}})
	add("nets", "src-net8-not-src-net24", &proto.Rule{SrcNet: []string{a["net8"]}, NotSrcNet: []string{a["net24"]}})
	add("nets", "src-and-dst-net", &proto.Rule{SrcNet: []string{a["net8"]}, DstNet: []string{a["wlNet"]}})
	add("nets-mixed-version", "src-net-mixed-versions", &proto.Rule{SrcNet: []string{a["otherVer"], a["net8"]}})
	add("nets-mixed-version", "src-net-other-version-only", &proto.Rule{SrcNet: []string{a["otherVer"]}})
	add("nets-mixed-version", "not-dst-net-mixed-versions", &proto.Rule{NotDstNet: []string{a["otherVer"], a["wlNet"]}})
	add("nets-negated-other-version-only", "not-src-net-other-version-only", &proto.Rule{NotSrcNet: []string{a["otherVer"]}})
	// --- ports (the API only accepts ports together with a port protocol)
	add("ports", "tcp-dport-80", &proto.Rule{Protocol: tcp(), DstPorts: []*proto.PortRange{c12PR(80, 80)}})
	add("ports", "tcp-dports-range", &proto.Rule{Protocol: tcp(), DstPorts: []*proto.PortRange{c12PR(8000, 8100)}})
	add("ports", "tcp-dports-multi", &proto.Rule{Protocol: tcp(), DstPorts: []*proto.PortRange{c12PR(80, 81), c12PR(8080, 8080), c12PR(65535, 65535)}})
	add("ports", "tcp-dports-from-0", &proto.Rule{Protocol: tcp(), DstPorts: []*proto.PortRange{c12PR(0, 79)}})
	add("ports", "tcp-sports-range", &proto.Rule{Protocol: tcp(), SrcPorts: []*proto.PortRange{c12PR(1000, 2000)}})
	add("ports", "tcp-sport-and-dport", &proto.Rule{Protocol: tcp(), SrcPorts: []*proto.PortRange{c12PR(1000, 1000)}, DstPorts: []*proto.PortRange{c12PR(8080, 8080)}})
	add("ports", "udp-dport-53", &proto.Rule{Protocol: c12PNum(17), DstPorts: []*proto.PortRange{c12PR(53, 53)}})
	add("ports", "sctp-dport-8080", &proto.Rule{Protocol: c12PName("sctp"), DstPorts: []*proto.PortRange{c12PR(8080, 8080)}})
	add("ports", "tcp-not-dports", &proto.Rule{Protocol: tcp(), NotDstPorts: []*proto.PortRange{c12PR(8080, 8080), c12PR(0, 79)}})
	add("ports", "tcp-not-sports", &proto.Rule{Protocol: tcp(), NotSrcPorts: []*proto.PortRange{c12PR(80, 80), c12PR(1000, 2000)}})
	add("ports", "tcp-dports-not-dports", &proto.Rule{Protocol: tcp(), DstPorts: []*proto.PortRange{c12PR(8000, 8100)}, NotDstPorts: []*proto.PortRange{c12PR(8080, 8080)}})
	// --- IP sets
	add("ipsets", "src-ipset", &proto.Rule{SrcIpSetIds: []string{"s1"}})
	add("ipsets", "src-ipset-and", &proto.Rule{SrcIpSetIds: []string{"s1", "s2"}})
	add("ipsets", "src-ipset-empty", &proto.Rule{SrcIpSetIds: []string{"e0"}})
	add("ipsets", "not-src-ipset", &proto.Rule{NotSrcIpSetIds: []string{"s1"}})
	add("ipsets", "not-src-ipset-two", &proto.Rule{NotSrcIpSetIds: []string{"s2", "s1"}})
	add("ipsets", "not-src-ipset-empty", &proto.Rule{NotSrcIpSetIds: []string{"e0"}})
	add("ipsets", "dst-ipset", &proto.Rule{DstIpSetIds: []string{"s3"}})
	add("ipsets", "not-dst-ipset", &proto.Rule{NotDstIpSetIds: []string{"s3"}})
	add("ipsets", "src-ipset-not-src-ipset", &proto.Rule{SrcIpSetIds: []string{"s1"}, NotSrcIpSetIds: []string{"s2"}})
	add("ipsets", "src-ipset-dst-ipset", &proto.Rule{SrcIpSetIds: []string{"s1"}, DstIpSetIds: []string{"s2"}})
	add("ipsets-member-prefix-25-31", "dst-ipset-pair-member", &proto.Rule{DstIpSetIds: []string{"s4"}})
	add("ipsets-member-prefix-25-31", "not-src-ipset-half-net-member", &proto.Rule{NotSrcIpSetIds: []string{"s4"}})
	// --- named ports (the calculation graph always pins the protocol of a named port)
	add("named-ports", "tcp-dst-named-port", &proto.Rule{Protocol: tcp(), DstNamedPortIpSetIds: []string{"np1"}})
	add("named-ports", "udp-dst-named-port", &proto.Rule{Protocol: c12PName("udp"), DstNamedPortIpSetIds: []string{"np1"}})
	add("named-ports", "tcp-dst-ports-or-named", &proto.Rule{Protocol: tcp(), DstPorts: []*proto.PortRange{c12PR(81, 81)}, DstNamedPortIpSetIds: []string{"np1", "np2"}})
	add("named-ports", "tcp-src-named-port", &proto.Rule{Protocol: tcp(), SrcNamedPortIpSetIds: []string{"np1"}})
	add("named-ports", "tcp-not-dst-named-port", &proto.Rule{Protocol: tcp(), NotDstNamedPortIpSetIds: []string{"np1"}})
	add("named-ports", "tcp-not-dst-ports-and-named", &proto.Rule{Protocol: tcp(), NotDstPorts: []*proto.PortRange{c12PR(81, 81)}, NotDstNamedPortIpSetIds: []string{"np2"}})
	add("named-ports", "tcp-not-src-named-port", &proto.Rule{Protocol: tcp(), NotSrcNamedPortIpSetIds: []string{"np1"}})
	// --- service-style (address, protocol, port) sets
	add("ip-port-sets", "dst-ipportset", &proto.Rule{DstIpPortSetIds: []string{"np1"}})
	add("ip-port-sets", "tcp-dst-ipportset", &proto.Rule{Protocol: tcp(), DstIpPortSetIds: []string{"np1"}})
	// --- combinations (at most two positive match blocks: see C08's known finding)
	add("combo", "combo-tcp-src-dst-port", &proto.Rule{Protocol: tcp(), SrcNet: []string{a["net8"]}, DstNet: []string{host("wl")}, DstPorts: []*proto.PortRange{c12PR(8080, 8080)}})
	add("combo", "combo-two-blocks", &proto.Rule{Protocol: tcp(), SrcNet: []string{a["other"], a["net24"]}, DstNet: []string{host("dstOut"), a["wlNet"]}, SrcIpSetIds: []string{"s1"}})
	add("combo", "combo-all-negated", &proto.Rule{NotProtocol: c12PNum(17), NotSrcNet: []string{a["other"]}, NotDstNet: []string{host("dstOut")}, NotSrcIpSetIds: []string{"e0"}, NotDstIpSetIds: []string{"s1"}})
	add("combo", "combo-ipset-port", &proto.Rule{Protocol: tcp(), SrcIpSetIds: []string{"s1"}, DstPorts: []*proto.PortRange{c12PR(80, 80)}, NotDstNet: []string{host("dstOut")}})
	// --- the six independent "bit" matchers of the saturated-shape level (one per policy / profile slot)
	add("bits", "bit0", &proto.Rule{SrcIpSetIds: []string{"s1"}})
	add("bits", "bit1", &proto.Rule{NotSrcIpSetIds: []string{"s2"}})
	add("bits", "bit2", &proto.Rule{DstNet: []string{a["wlNet"]}})
	add("bits", "bit3", &proto.Rule{Protocol: tcp(), DstPorts: []*proto.PortRange{c12PR(80, 80)}})
	add("bits", "bit4", &proto.Rule{Protocol: tcp(), NotSrcPorts: []*proto.PortRange{c12PR(1000, 2000)}})
	add("bits", "bit5", &proto.Rule{DstIpSetIds: []string{"s3"}})
	return d
}

// rule builds the proto.Rule of (matcher, action).
func (d *c12Dom) rule(r c12Rule, id string) *proto.Rule {
	m := d.matchers[r.M]
	if m == nil {
		panic("unknown matcher " + r.M)
	}
	// explicit field copy (no proto.Clone dependency, shared slices are read-only)
	return &proto.Rule{Action: r.A, RuleId: id, IpVersion: m.IpVersion, Protocol: m.Protocol, NotProtocol: m.NotProtocol,
		SrcNet: m.SrcNet, DstNet: m.DstNet, NotSrcNet: m.NotSrcNet, NotDstNet: m.NotDstNet,
		SrcPorts: m.SrcPorts, DstPorts: m.DstPorts, NotSrcPorts: m.NotSrcPorts, NotDstPorts: m.NotDstPorts,
		SrcNamedPortIpSetIds: m.SrcNamedPortIpSetIds, DstNamedPortIpSetIds: m.DstNamedPortIpSetIds,
		NotSrcNamedPortIpSetIds: m.NotSrcNamedPortIpSetIds, NotDstNamedPortIpSetIds: m.NotDstNamedPortIpSetIds,
		SrcIpSetIds: m.SrcIpSetIds, DstIpSetIds: m.DstIpSetIds, NotSrcIpSetIds: m.NotSrcIpSetIds, NotDstIpSetIds: m.NotDstIpSetIds,
		DstIpPortSetIds: m.DstIpPortSetIds}
}

// membership semantics of IP sets, written from the documented member syntax:
// "cidr" = address inside the CIDR; "ip,proto:port" = exact address, protocol and port.
func c12InSet(def c12SetDef, a netip.Addr, protoNum, port int, wantPorts bool) bool {
	for _, m := range def.Members {
		if strings.Contains(m, ",") {
			if !wantPorts {
				continue
			}
			parts := strings.Split(m, ",")
			pp := strings.Split(parts[1], ":")
			mp, _ := strconv.Atoi(pp[1])
			mproto := map[string]int{"tcp": 6, "udp": 17, "sctp": 132}[pp[0]]
			ma, err := netip.ParseAddr(parts[0])
			if err == nil && ma == a && mproto == protoNum && mp == port {
				return true
			}
			continue
		}
		if wantPorts {
			continue
		}
		pfx, err := netip.ParsePrefix(m)
		if err != nil {
			continue
		}
		if pfx.Addr().Is4() == a.Is4() && pfx.Contains(a) {
			return true
		}
	}
	return false
}

// ---------------------------------------------------------------------------------------------
// proto messages of a state

const (
	c12Iface = "cali1"
)

type c12Msgs struct {
	ipsets   []*proto.IPSetUpdate
	policies []*proto.ActivePolicyUpdate
	profiles []*proto.ActiveProfileUpdate
	wepID    *proto.WorkloadEndpointID
	wep      *proto.WorkloadEndpoint
	ref      *refpol.Endpoint
	nRules   int
}

func (d *c12Dom) messages(s *c12State) *c12Msgs {
	m := &c12Msgs{ref: &refpol.Endpoint{}}
	names := make([]string, 0, len(d.sets))
	for n := range d.sets {
		names = append(names, n)
	}
	sort.Strings(names)
	for _, n := range names {
		def := d.sets[n]
		m.ipsets = append(m.ipsets, &proto.IPSetUpdate{Id: n, Type: def.Type, Members: append([]string{}, def.Members...)})
	}
	ingress := s.Dir == "ingress"
	wep := &proto.WorkloadEndpoint{State: "active", Mac: "01:02:03:04:05:06", Name: c12Iface, ProfileIds: []string{}}
	if d.ver == 4 {
		wep.Ipv4Nets = []string{d.a["wl"] + "/32"}
	} else {
		wep.Ipv6Nets = []string{d.a["wl"] + "/128"}
	}
	for ti, t := range s.Tiers {
		tname := fmt.Sprintf("tier%d", ti)
		info := &proto.TierInfo{Name: tname, DefaultAction: t.Default}
		rt := refpol.Tier{Name: tname, DefaultAction: t.Default}
		for pi, p := range t.Policies {
			id := &proto.PolicyID{Name: fmt.Sprintf("%s.p%d", tname, pi), Kind: v3.KindGlobalNetworkPolicy}
			if p.Staged {
				id.Kind = v3.KindStagedGlobalNetworkPolicy
			}
			var prules []*proto.Rule
			for ri, r := range p.Rules {
				prules = append(prules, d.rule(r, fmt.Sprintf("%s-r%d", id.Name, ri)))
			}
			m.nRules += len(prules)
			sel := "all()"
			if !s.OneGroup {
				sel = fmt.Sprintf("has(l%d%d)", ti, pi)
			}
			pol := &proto.Policy{Tier: tname, OriginalSelector: sel}
			if ingress {
				pol.InboundRules = prules
				info.IngressPolicies = append(info.IngressPolicies, id)
			} else {
				pol.OutboundRules = prules
				info.EgressPolicies = append(info.EgressPolicies, id)
			}
			m.policies = append(m.policies, &proto.ActivePolicyUpdate{Id: id, Policy: pol})
			rt.Policies = append(rt.Policies, refpol.Policy{Name: id.Name, Staged: p.Staged, Rules: refpol.ProtoRules(prules)})
		}
		wep.Tiers = append(wep.Tiers, info)
		m.ref.Tiers = append(m.ref.Tiers, rt)
	}
	for pi, rs := range s.Profiles {
		name := fmt.Sprintf("prof%d", pi)
		var prules []*proto.Rule
		for ri, r := range rs {
			prules = append(prules, d.rule(r, fmt.Sprintf("%s-r%d", name, ri)))
		}
		m.nRules += len(prules)
		prof := &proto.Profile{}
		if ingress {
			prof.InboundRules = prules
		} else {
			prof.OutboundRules = prules
		}
		m.profiles = append(m.profiles, &proto.ActiveProfileUpdate{Id: &proto.ProfileID{Name: name}, Profile: prof})
		wep.ProfileIds = append(wep.ProfileIds, name)
		m.ref.Profiles = append(m.ref.Profiles, refpol.Profile{Name: name, Rules: refpol.ProtoRules(prules)})
	}
	m.wepID = &proto.WorkloadEndpointID{OrchestratorId: "k8s", WorkloadId: "pod-1", EndpointId: "eth0"}
	m.wep = wep
	return m
}

// ---------------------------------------------------------------------------------------------
// (1)(2) iptables / nftables through the real managers

const (
	c12MarkAccept   = 0x8
	c12MarkPass     = 0x10
	c12MarkScratch0 = 0x20
	c12MarkScratch1 = 0x40
	c12MarkDrop     = 0x80
	c12MarkEndpoint = 0xff00
	c12MarkNonCali  = 0x0100
	c12MarkForeign  = 0x4
)

var (
	c12IPSetCfg4 = ipsets.NewIPVersionConfig(ipsets.IPFamilyV4, "cali", nil, nil)
	c12IPSetCfg6 = ipsets.NewIPVersionConfig(ipsets.IPFamilyV6, "cali", nil, nil)
)

func c12SetName(ipv int, id string) string {
	if ipv == 6 {
		return c12IPSetCfg6.NameForMainIPSet(id)
	}
	return c12IPSetCfg4.NameForMainIPSet(id)
}

func c12RulesConfig(nft bool) rules.Config {
	return rules.Config{
		IPSetConfigV4:         c12IPSetCfg4,
		IPSetConfigV6:         c12IPSetCfg6,
		WorkloadIfacePrefixes: []string{"cali", "tap"},
		MarkAccept:            c12MarkAccept,
		MarkPass:              c12MarkPass,
		MarkScratch0:          c12MarkScratch0,
		MarkScratch1:          c12MarkScratch1,
		MarkDrop:              c12MarkDrop,
		MarkEndpoint:          c12MarkEndpoint,
		MarkNonCaliEndpoint:   c12MarkNonCali,
		VXLANPort:             4789,
		VXLANVNI:              4096,
		NFTablesEnabled:       nft,
	}
}

var c12QuietOnce sync.Once

func c12Quiet() {
	c12QuietOnce.Do(func() {
		logrus.SetLevel(logrus.PanicLevel)
		logrus.StandardLogger().ExitFunc = func(int) { panic("logrus.Fatal") }
		gomega.RegisterFailHandler(func(m string, _ ...int) { panic("gomega: " + m) })
	})
}

var (
	c12RendMu sync.Mutex
	c12Rend   = map[bool]rules.RuleRenderer{}
)

func c12Renderer(nft bool) rules.RuleRenderer {
	c12RendMu.Lock()
	defer c12RendMu.Unlock()
	if r := c12Rend[nft]; r != nil {
		return r
	}
	r := rules.NewRenderer(c12RulesConfig(nft), nft)
	c12Rend[nft] = r
	return r
}

type c12NF struct {
	kind  nfsim.Kind
	b     *nfsim.Builder
	rs    *nfsim.Ruleset
	entry string
}

// c12BuildNF feeds the messages to fresh real managers whose filter table is an nfsim recording table.
func c12BuildNF(kind nfsim.Kind, ipv int, dir string, m *c12Msgs) (*c12NF, error) {
	c12Quiet()
	nft := kind == nfsim.Nft
	w := &c12NF{kind: kind, b: nfsim.NewBuilder(kind, uint8(ipv), "filter")}
	renderer := c12Renderer(nft)
	raw, mangle := generictables.NewNoopTable(), generictables.NewNoopTable()
	polMgr := newPolicyManager(raw, mangle, w.b.Table(), renderer, uint8(ipv), nft)
	procSys := &testProcSys{state: map[string]string{}, pathsThatExist: map[string]bool{}}
	var filterMaps nftables.MapsDataplane
	if nft {
		filterMaps = w.b.Maps()
	}
	epMgr := newEndpointManagerWithShims(
		&endpointManagerConfig{
			wlInterfacePrefixes: []string{"cali", "tap"},
			bpfAttachType:       v3.BPFAttachOptionTCX,
			nft:                 nft,
		},
		raw, mangle, w.b.Table(),
		renderer,
		&mockRouteTable{index: 0, currentRoutes: map[string][]routetable.Target{}},
		uint8(ipv),
		rules.NewEndpointMarkMapper(c12MarkEndpoint, c12MarkNonCali),
		(&statusReportRecorder{currentState: map[any]string{}, extraInfo: map[any]any{}}).endpointStatusUpdateCallback,
		procSys.write, procSys.stat,
		"1",
		filterMaps,
		nil,
		&testHEPListener{},
		common.NewCallbacks(),
		nil, // linkAddrsMgr: only used by the deferred interface configuration
		nil, nil,
	)
	send := func(msg any) {
		polMgr.OnUpdate(msg)
		epMgr.OnUpdate(msg)
	}
	for _, p := range m.policies {
		send(p)
	}
	for _, p := range m.profiles {
		send(p)
	}
	// The endpoint manager's own chain programming step for one workload endpoint (policy grouping, group
	// chains, endpoint chains). ResolveUpdateBatch/CompleteDeferredWork are bypassed: they also talk to the
	// host's netlink (QoS qdiscs, routes), which is not the subject here.
	epMgr.updateWorkloadEndpointChains(types.ProtoToWorkloadEndpointID(m.wepID), m.wep, true)
	rs, err := w.b.Ruleset()
	if err != nil {
		return w, err
	}
	w.rs = rs
	maxLen := 28 // iptables.MaxChainNameLength
	if nft {
		maxLen = nftables.MaxChainNameLength
	}
	pfx := rules.WorkloadFromEndpointPfx
	if dir == "ingress" {
		pfx = rules.WorkloadToEndpointPfx
	}
	w.entry = w.b.ChainName(rules.EndpointChainName(pfx, c12Iface, maxLen))
	if rs.Chains[w.entry] == nil {
		return w, fmt.Errorf("entry chain %s was not programmed", w.entry)
	}
	return w, nil
}

func (w *c12NF) eval(p *nfsim.Packet, mark uint32, trace bool) (string, nfsim.Result, error) {
	q := *p
	q.Mark = mark
	res, err := w.rs.Eval(w.entry, q, trace)
	if err != nil {
		return "error", res, err
	}
	switch {
	case res.Verdict == "DROP" || res.Verdict == "REJECT":
		return "deny", res, nil
	case res.Verdict == "ACCEPT":
		return "allow", res, nil
	case res.Verdict == "RETURN" && res.Mark&c12MarkAccept != 0:
		return "allow", res, nil
	}
	return "no-verdict(" + res.Verdict + ")", res, nil
}

// ---------------------------------------------------------------------------------------------
// (3) BPF

const (
	c12FDIPSets = 11
	c12FDState  = 12
	c12FDStatic = 13
	c12FDPolJmp = 14

	c12AllowIdx = 3
	c12DenyIdx  = 5
	c12PolIdx   = 7
	c12Stride   = 100
)

type c12IDs map[string]uint64

func (m c12IDs) GetNoAlloc(id string) uint64 { return m[id] }

type c12BPFEnv struct {
	ver    int
	vm     *ebpf.VM
	state  *ebpf.ArrayMap
	ipsets *ebpf.LPMTrieMap
	static *ebpf.ProgArrayMap
	poljmp *ebpf.ProgArrayMap
	ids    c12IDs

	hit      string
	hitPolRC int64

	o struct {
		ipSrc, preDst, postDst, ipDst, polRC, sport, dport, preDPort, postDPort, ipProto, rulesHit, flags int
	}
	kAllow, kDeny             int64
	stateSize, skbSize, cbOff int
}

func c12VerifDir() string {
	if v := os.Getenv("VERIF_DIR"); v != "" {
		return v
	}
	return "/verif"
}

// c12BPFArtefacts runs tools/build_bpf.sh against the CURRENT tree (layout probe over the real C headers).
func c12BPFArtefacts() (v4, v6 *ebpf.Layout, err error) {
	repo := os.Getenv("VERIF_REPO")
	if repo == "" {
		repo = "/repo"
	}
	out := filepath.Join(c12VerifDir(), "build", "bpf", "C12")
	if real, _ := filepath.EvalSymlinks(repo); real != "/repo" {
		out = filepath.Join(c12VerifDir(), "build", "alt_bpf", strings.ReplaceAll(strings.Trim(real, "/"), "/", "_"), "C12")
	}
	cmd := exec.Command(filepath.Join(c12VerifDir(), "tools", "build_bpf.sh"), out)
	cmd.Env = append(os.Environ(), "VERIF_REPO="+repo)
	if b, e := cmd.CombinedOutput(); e != nil {
		s := string(b)
		if len(s) > 3000 {
			s = s[len(s)-3000:]
		}
		return nil, nil, fmt.Errorf("build_bpf.sh failed: %v\n%s", e, s)
	}
	if v4, err = ebpf.ReadLayout(filepath.Join(out, "layout_v4.o")); err != nil {
		return
	}
	v6, err = ebpf.ReadLayout(filepath.Join(out, "layout_v6.o"))
	return
}

func newC12BPFEnv(ver int, lay *ebpf.Layout, d *c12Dom) (*c12BPFEnv, error) {
	e := &c12BPFEnv{ver: ver, ids: c12IDs{}}
	var err error
	get := func(n string) int {
		v, e2 := lay.Get(n)
		if e2 != nil && err == nil {
			err = e2
		}
		return int(v)
	}
	e.o.ipSrc, e.o.ipDst = get("O_tc_state__ip_src"), get("O_tc_state__ip_dst")
	e.o.preDst, e.o.postDst = get("O_tc_state__pre_nat_ip_dst"), get("O_tc_state__post_nat_ip_dst")
	e.o.polRC, e.o.sport, e.o.dport = get("O_tc_state__pol_rc"), get("O_tc_state__sport"), get("O_tc_state__dport")
	e.o.preDPort, e.o.postDPort = get("O_tc_state__pre_nat_dport"), get("O_tc_state__post_nat_dport")
	e.o.ipProto, e.o.rulesHit, e.o.flags = get("O_tc_state__ip_proto"), get("O_tc_state__rules_hit"), get("O_tc_state__flags")
	e.kAllow, e.kDeny = int64(get("K_pol_allow")), int64(get("K_pol_deny"))
	e.stateSize, e.skbSize, e.cbOff = get("K_state_size"), get("S_skb"), get("O_skb__cb")
	ipsKey := get("S_ip_set_key")
	if err != nil {
		return nil, err
	}
	e.vm = ebpf.NewVM()
	e.vm.MaxInsns = 1 << 22
	e.state = ebpf.NewArrayMap("cali_state", e.stateSize, 2)
	e.ipsets = ebpf.NewLPMTrie("cali_ip_sets", ipsKey, 4)
	e.static = ebpf.NewProgArray("static_jumps", 16)
	e.poljmp = ebpf.NewProgArray("policy_jumps", 100000)
	e.vm.BindFD(c12FDIPSets, e.ipsets)
	e.vm.BindFD(c12FDState, e.state)
	e.vm.BindFD(c12FDStatic, e.static)
	e.vm.BindFD(c12FDPolJmp, e.poljmp)
	sent := func(name string) *ebpf.Program {
		return ebpf.NativeProgram(name, func(vm *ebpf.VM, ctx uint64) (uint64, error) {
			st, _ := e.state.Lookup([]byte{0, 0, 0, 0})
			e.hit = name
			e.hitPolRC = int64(int32(binary.LittleEndian.Uint32(st[e.o.polRC:])))
			return 0, nil
		})
	}
	e.static.Set(c12AllowIdx, sent("allow"))
	e.static.Set(c12DenyIdx, sent("deny"))
	for name, def := range d.sets {
		e.ids[name] = def.BPFID
		for _, m := range def.Members {
			var ent bpfipsets.IPSetEntryInterface
			if ver == 4 {
				ent = bpfipsets.ProtoIPSetMemberToBPFEntry(def.BPFID, m)
			} else {
				ent = bpfipsets.ProtoIPSetMemberToBPFEntryV6(def.BPFID, m)
			}
			if ent == nil {
				continue
			}
			if rc := e.ipsets.Update(ent.AsBytes(), bpfipsets.DummyValue, 0); rc != 0 {
				return nil, fmt.Errorf("ip set entry for %s member %s rejected by the LPM map (errno %d)", name, m, rc)
			}
		}
	}
	return e, nil
}

// c12BuildBPF: real endpoint -> polprog.Rules translation, real builder, byte code loaded into the interpreter.
func (e *c12BPFEnv) build(dir string, m *c12Msgs) ([]*ebpf.Program, *polprog.Rules, error) {
	mgr := &bpfEndpointManager{
		policies: map[types.PolicyID]*proto.Policy{},
		profiles: map[types.ProfileID]*proto.Profile{},
	}
	for _, p := range m.policies {
		mgr.policies[types.ProtoToPolicyID(p.Id)] = p.Policy
	}
	for _, p := range m.profiles {
		mgr.profiles[types.ProtoToProfileID(p.Id)] = p.Profile
	}
	pd := PolDirnEgress
	if dir == "ingress" {
		pd = PolDirnIngress
	}
	r := mgr.extractRules(m.wep.Tiers, m.wep.ProfileIds, pd)
	r.SuppressNormalHostPolicy = true // as wepApplyPolicy does when there is no host-* endpoint
	opts := []polprog.Option{polprog.WithAllowDenyJumps(c12AllowIdx, c12DenyIdx), polprog.WithPolicyMapIndexAndStride(c12PolIdx, c12Stride)}
	if e.ver == 6 {
		opts = append(opts, polprog.WithIPv6())
	}
	b := polprog.NewBuilder(e.ids, c12FDIPSets, c12FDState, c12FDStatic, c12FDPolJmp, opts...)
	insns, err := b.Instructions(r)
	if err != nil {
		return nil, &r, err
	}
	progs, err := c12Load(insns)
	return progs, &r, err
}

func c12Load(progs []asm.Insns) ([]*ebpf.Program, error) {
	out := make([]*ebpf.Program, len(progs))
	for i, p := range progs {
		pr, err := ebpf.FromBytes(fmt.Sprintf("polprog#%d", i), p.AsBytes())
		if err != nil {
			return nil, err
		}
		out[i] = pr
	}
	return out, nil
}

func c12PutAddr(b []byte, off int, a netip.Addr) { copy(b[off:], a.AsSlice()) }

type c12BPFRun struct {
	Outcome string // allow | deny | fault | exit:<r0>
	PolRC   int64
	Err     string
}

func (e *c12BPFEnv) run(progs []*ebpf.Program, p *c12Pkt) c12BPFRun {
	st, _ := e.state.Lookup([]byte{0, 0, 0, 0})
	for i := range st {
		st[i] = 0xEE
	}
	zero := func(off, n int) {
		for i := 0; i < n; i++ {
			st[off+i] = 0
		}
	}
	for _, off := range []int{e.o.ipSrc, e.o.ipDst, e.o.preDst, e.o.postDst} {
		zero(off, 16)
	}
	src, dst := netip.MustParseAddr(p.Src), netip.MustParseAddr(p.Dst)
	c12PutAddr(st, e.o.ipSrc, src)
	c12PutAddr(st, e.o.ipDst, dst)
	c12PutAddr(st, e.o.preDst, dst)
	c12PutAddr(st, e.o.postDst, dst)
	binary.LittleEndian.PutUint32(st[e.o.polRC:], 0)
	if p.Proto == 1 || p.Proto == 58 {
		// the C code stores ICMP type/code where the destination port lives; echo request = 8/0 (v4) 128/0 (v6)
		t := byte(8)
		if p.Proto == 58 {
			t = 128
		}
		binary.LittleEndian.PutUint16(st[e.o.sport:], 0)
		binary.LittleEndian.PutUint16(st[e.o.dport:], 0)
		st[e.o.dport] = t
		binary.LittleEndian.PutUint16(st[e.o.preDPort:], 0)
		binary.LittleEndian.PutUint16(st[e.o.postDPort:], 0)
	} else {
		binary.LittleEndian.PutUint16(st[e.o.sport:], uint16(p.SPort))
		binary.LittleEndian.PutUint16(st[e.o.dport:], uint16(p.DPort))
		binary.LittleEndian.PutUint16(st[e.o.preDPort:], uint16(p.DPort))
		binary.LittleEndian.PutUint16(st[e.o.postDPort:], uint16(p.DPort))
	}
	st[e.o.ipProto] = byte(p.Proto)
	binary.LittleEndian.PutUint32(st[e.o.rulesHit:], 0)
	binary.LittleEndian.PutUint64(st[e.o.flags:], 0x1|0x2000)
	for i := range e.poljmp.Progs {
		delete(e.poljmp.Progs, i)
	}
	for i, pr := range progs {
		e.poljmp.Set(uint32(polprog.SubProgramJumpIdx(c12PolIdx, i, c12Stride)), pr)
	}
	ctx := make([]byte, e.skbSize)
	binary.LittleEndian.PutUint32(ctx[e.cbOff:], 0xdead)
	binary.LittleEndian.PutUint32(ctx[e.cbOff+4:], 0xdead)
	e.hit = ""
	r0, err := e.vm.Run(progs[0], ctx)
	res := c12BPFRun{}
	switch {
	case err != nil:
		res.Outcome, res.Err = "fault", err.Error()
	case e.hit != "":
		res.Outcome, res.PolRC = e.hit, e.hitPolRC
		if (e.hit == "allow" && res.PolRC != e.kAllow) || (e.hit == "deny" && res.PolRC != e.kDeny) {
			res.Err = fmt.Sprintf("%s jump taken with pol_rc=%d", e.hit, res.PolRC)
			res.Outcome = "fault"
		}
	default:
		res.Outcome = "exit:" + strconv.FormatUint(r0, 10)
	}
	return res
}

// ---------------------------------------------------------------------------------------------
// (4) app-policy

type c12Flow struct {
	src, dst     net.IP
	sport, dport int
	proto        int
}

func (f *c12Flow) GetSourceIP() net.IP                { return f.src }
func (f *c12Flow) GetDestIP() net.IP                  { return f.dst }
func (f *c12Flow) GetSourcePort() int                 { return f.sport }
func (f *c12Flow) GetDestPort() int                   { return f.dport }
func (f *c12Flow) GetProtocol() int                   { return f.proto }
func (f *c12Flow) GetHttpMethod() *string             { return nil }
func (f *c12Flow) GetHttpPath() *string               { return nil }
func (f *c12Flow) GetSourcePrincipal() *string        { return nil }
func (f *c12Flow) GetDestPrincipal() *string          { return nil }
func (f *c12Flow) GetSourceLabels() map[string]string { return nil }
func (f *c12Flow) GetDestLabels() map[string]string   { return nil }

type c12App struct {
	store *policystore.PolicyStore
	wep   *proto.WorkloadEndpoint
	alp   *checker.ALPCheckProvider
}

// c12BuildApp fills a real policy store through ProcessUpdate, with the IP set members in the form the
// policy-sync server hands them on (felix/policysync/ipset.go: ipsets.CanonicaliseMember(...).String()).
func c12BuildApp(m *c12Msgs) *c12App {
	st := policystore.NewPolicyStore()
	for _, u := range m.ipsets {
		var t ipsets.IPSetType
		switch u.Type {
		case proto.IPSetUpdate_IP:
			t = ipsets.IPSetTypeHashIP
		case proto.IPSetUpdate_IP_AND_PORT:
			t = ipsets.IPSetTypeHashIPPort
		default:
			t = ipsets.IPSetTypeHashNet
		}
		u2 := &proto.IPSetUpdate{Id: u.Id, Type: u.Type}
		for _, mem := range u.Members {
			u2.Members = append(u2.Members, ipsets.CanonicaliseMember(t, mem).String())
		}
		st.ProcessUpdate("", &proto.ToDataplane{Payload: &proto.ToDataplane_IpsetUpdate{IpsetUpdate: u2}})
	}
	for _, p := range m.policies {
		st.ProcessUpdate("", &proto.ToDataplane{Payload: &proto.ToDataplane_ActivePolicyUpdate{ActivePolicyUpdate: p}})
	}
	for _, p := range m.profiles {
		st.ProcessUpdate("", &proto.ToDataplane{Payload: &proto.ToDataplane_ActiveProfileUpdate{ActiveProfileUpdate: p}})
	}
	st.ProcessUpdate("", &proto.ToDataplane{Payload: &proto.ToDataplane_WorkloadEndpointUpdate{WorkloadEndpointUpdate: &proto.WorkloadEndpointUpdate{Id: m.wepID, Endpoint: m.wep}}})
	return &c12App{store: st, wep: st.Endpoint, alp: checker.NewALPCheckProvider()}
}

// evaluate: verdict derived from checker.Evaluate's rule trace (allow iff the trace ends in an allow rule).
func (a *c12App) evaluate(dir string, p *c12Pkt) (string, string) {
	rd := rules.RuleDirEgress
	if dir == "ingress" {
		rd = rules.RuleDirIngress
	}
	fl := &c12Flow{src: net.ParseIP(p.Src), dst: net.ParseIP(p.Dst), sport: p.SPort, dport: p.DPort, proto: p.Proto}
	trace, err := checker.Evaluate(checker.EnforcedOnly, rd, a.store, a.wep, fl)
	if err != nil {
		return "error", err.Error()
	}
	var parts []string
	for _, r := range trace {
		if r == nil {
			parts = append(parts, "<nil>")
			continue
		}
		parts = append(parts, r.String())
	}
	v := "deny"
	if n := len(trace); n > 0 && trace[n-1] != nil && trace[n-1].Action == rules.RuleActionAllow {
		v = "allow"
	}
	return v, strings.Join(parts, " ; ")
}

// check: the enforcement entry point (Envoy ext_authz); only ingress TCP/UDP requests exist there.
func (a *c12App) check(p *c12Pkt) (string, string) {
	sp := core.SocketAddress_TCP
	if p.Proto == 17 {
		sp = core.SocketAddress_UDP
	}
	addr := func(ip string, port int) *core.Address {
		return &core.Address{Address: &core.Address_SocketAddress{SocketAddress: &core.SocketAddress{
			Protocol: sp, Address: ip, PortSpecifier: &core.SocketAddress_PortValue{PortValue: uint32(port)}}}}
	}
	req := &authz.CheckRequest{Attributes: &authz.AttributeContext{
		Source:      &authz.AttributeContext_Peer{Address: addr(p.Src, p.SPort)},
		Destination: &authz.AttributeContext_Peer{Address: addr(p.Dst, p.DPort)},
	}}
	resp, err := a.alp.Check(a.store, req)
	if err != nil {
		return "error", err.Error()
	}
	code := resp.GetStatus().GetCode()
	switch code {
	case checker.OK:
		return "allow", "OK"
	case checker.PERMISSION_DENIED:
		return "deny", "PERMISSION_DENIED"
	}
	// Envoy's ext_authz filter rejects the request for every status other than OK: the enforced verdict is deny
	return "deny", fmt.Sprintf("status %d (%s)", code, resp.GetStatus().GetMessage())
}

// ---------------------------------------------------------------------------------------------
// packet conversions

func (d *c12Dom) refPacket(p *c12Pkt) *refpol.Packet {
	src, dst := netip.MustParseAddr(p.Src), netip.MustParseAddr(p.Dst)
	rp := &refpol.Packet{IPVersion: d.ver, Src: src, Dst: dst, Proto: p.Proto, SrcPort: p.SPort, DstPort: p.DPort,
		SrcIPSets: map[string]bool{}, DstIPSets: map[string]bool{}, SrcIPPortSets: map[string]bool{}, DstIPPortSets: map[string]bool{}}
	if p.Proto == 1 {
		rp.ICMPType = 8
	} else if p.Proto == 58 {
		rp.ICMPType = 128
	}
	for n, def := range d.sets {
		rp.SrcIPSets[n] = c12InSet(def, src, 0, 0, false)
		rp.DstIPSets[n] = c12InSet(def, dst, 0, 0, false)
		rp.SrcIPPortSets[n] = c12InSet(def, src, p.Proto, p.SPort, true)
		rp.DstIPPortSets[n] = c12InSet(def, dst, p.Proto, p.DPort, true)
	}
	return rp
}

func (d *c12Dom) nfPacket(p *c12Pkt, dir string) *nfsim.Packet {
	rp := d.refPacket(p)
	q := &nfsim.Packet{IPVersion: d.ver, Src: rp.Src, Dst: rp.Dst, Proto: p.Proto, SPort: p.SPort, DPort: p.DPort, CTState: "NEW", Sets: map[string]bool{}}
	if p.Proto == 1 {
		q.ICMPType = 8
	} else if p.Proto == 58 {
		q.ICMPType = 128
	}
	if dir == "ingress" {
		q.InIface, q.OutIface = "eth0", c12Iface
	} else {
		q.InIface, q.OutIface = c12Iface, "eth0"
	}
	for n := range d.sets {
		name := c12SetName(d.ver, n)
		if rp.SrcIPSets[n] {
			q.Sets[nfsim.SetKey(name, "src")] = true
		}
		if rp.DstIPSets[n] {
			q.Sets[nfsim.SetKey(name, "dst")] = true
		}
		if rp.SrcIPPortSets[n] {
			q.Sets[nfsim.SetKey(name, "src,src")] = true
		}
		if rp.DstIPPortSets[n] {
			q.Sets[nfsim.SetKey(name, "dst,dst")] = true
		}
	}
	return q
}

package intdataplane

// C12 level D — IP-set HISTORIES on the app-policy side.
//
// Levels A-C hand every implementation the final IP-set contents in one IPSetUpdate. The application-layer
// checker's policystore is stateful (a trie + bitmaps that is edited in place by IPSetDeltaUpdate), so the set it
// holds after a history of updates may differ from the set the other dataplanes hold (kernel IP sets / BPF maps
// are driven by the same deltas; their contents are the calculation graph's membership = the reference set here).
//
// Every history  IPSetUpdate(S0), e1, .., ek  over a tiny member pool is applied to a REAL policystore through
// ProcessUpdate; after every step the membership of boundary probe addresses and the checker's verdict for an
// "allow from set" policy are compared with (a) a plain reference set and (b) fresh stores that receive the final
// contents in one IPSetUpdate (members in ascending and in descending order).

import (
	"fmt"
	"net/netip"
	"sort"
	"strings"
	"sync"
	"sync/atomic"

	v3 "github.com/projectcalico/api/pkg/apis/projectcalico/v3"

	"github.com/projectcalico/calico/app-policy/policystore"
	"github.com/projectcalico/calico/felix/ipsets"
	"github.com/projectcalico/calico/felix/proto"
	"github.com/projectcalico/calico/zzverif/vk"
)

const c12HistSet = "hset"

// c12HistEvent: Kind = update (replace the set with Members) | add | remove (delta update of one member).
type c12HistEvent struct {
	Kind    string
	Members []string
}

func (e c12HistEvent) String() string {
	return e.Kind + "(" + strings.Join(e.Members, ",") + ")"
}

type c12SetHistory struct {
	IPV    int
	Events []c12HistEvent
}

func (h *c12SetHistory) sig() string {
	var p []string
	for _, e := range h.Events {
		p = append(p, e.String())
	}
	return fmt.Sprintf("v%d ", h.IPV) + strings.Join(p, " ; ")
}

type c12HistDom struct {
	ver    int
	pool   []string // a /24, a /25 and a /31 inside it, two /32s in the same /24, one /32 outside (v6: /120 ...)
	probes []string
	// verdictProbes: source addresses for which the checker's "allow from set" verdict is taken
	verdictProbes []string
	dst           string
}

func c12HistDomain(ver int) *c12HistDom {
	if ver == 4 {
		return &c12HistDom{ver: 4,
			pool:          []string{"10.0.0.0/24", "10.0.0.128/25", "10.0.0.8/31", "10.0.0.9/32", "10.0.0.77/32", "10.0.1.1/32"},
			probes:        []string{"9.255.255.255", "10.0.0.0", "10.0.0.7", "10.0.0.8", "10.0.0.9", "10.0.0.10", "10.0.0.77", "10.0.0.127", "10.0.0.128", "10.0.0.255", "10.0.1.0", "10.0.1.1", "10.0.1.2"},
			verdictProbes: []string{"10.0.0.8", "10.0.0.255", "10.0.0.77"},
			dst:           "10.65.0.2"}
	}
	return &c12HistDom{ver: 6,
		pool:          []string{"fd00::/120", "fd00::80/121", "fd00::8/127", "fd00::9/128", "fd00::4d/128", "fd00::101/128"},
		probes:        []string{"fcff:ffff:ffff:ffff:ffff:ffff:ffff:ffff", "fd00::", "fd00::7", "fd00::8", "fd00::9", "fd00::a", "fd00::4d", "fd00::7f", "fd00::80", "fd00::ff", "fd00::100", "fd00::101", "fd00::102"},
		verdictProbes: []string{"fd00::8", "fd00::ff", "fd00::4d"},
		dst:           "fd65::2"}
}

// canonical member text, as the policy-sync server hands it on
func c12HistCanon(m string) string {
	return ipsets.CanonicaliseMember(ipsets.IPSetTypeHashNet, m).String()
}

func c12HistSend(st *policystore.PolicyStore, e c12HistEvent) {
	var ms []string
	for _, m := range e.Members {
		ms = append(ms, c12HistCanon(m))
	}
	switch e.Kind {
	case "update":
		st.ProcessUpdate("", &proto.ToDataplane{Payload: &proto.ToDataplane_IpsetUpdate{IpsetUpdate: &proto.IPSetUpdate{Id: c12HistSet, Type: proto.IPSetUpdate_NET, Members: ms}}})
	case "add":
		st.ProcessUpdate("", &proto.ToDataplane{Payload: &proto.ToDataplane_IpsetDeltaUpdate{IpsetDeltaUpdate: &proto.IPSetDeltaUpdate{Id: c12HistSet, AddedMembers: ms}}})
	case "remove":
		st.ProcessUpdate("", &proto.ToDataplane{Payload: &proto.ToDataplane_IpsetDeltaUpdate{IpsetDeltaUpdate: &proto.IPSetDeltaUpdate{Id: c12HistSet, RemovedMembers: ms}}})
	default:
		panic("bad history event " + e.Kind)
	}
}

// c12HistPolicy: one tier (default Deny), one policy "allow from the set", no profiles.
func c12HistPolicyMsgs(d *c12HistDom) *c12Msgs {
	id := &proto.PolicyID{Name: "tier0.p0", Kind: v3.KindGlobalNetworkPolicy}
	pol := &proto.Policy{Tier: "tier0", OriginalSelector: "all()", InboundRules: []*proto.Rule{{Action: "allow", SrcIpSetIds: []string{c12HistSet}}}}
	wep := &proto.WorkloadEndpoint{State: "active", Name: c12Iface, ProfileIds: []string{},
		Tiers: []*proto.TierInfo{{Name: "tier0", DefaultAction: "Deny", IngressPolicies: []*proto.PolicyID{id}}}}
	return &c12Msgs{
		policies: []*proto.ActivePolicyUpdate{{Id: id, Policy: pol}},
		wepID:    &proto.WorkloadEndpointID{OrchestratorId: "k8s", WorkloadId: "pod-1", EndpointId: "eth0"},
		wep:      wep,
	}
}

type c12HistRef map[string]bool // member (pool text) -> present

func (r c12HistRef) apply(e c12HistEvent) {
	switch e.Kind {
	case "update":
		for m := range r {
			delete(r, m)
		}
		for _, m := range e.Members {
			r[m] = true
		}
	case "add":
		for _, m := range e.Members {
			r[m] = true
		}
	case "remove":
		for _, m := range e.Members {
			delete(r, m)
		}
	}
}

func (r c12HistRef) members() []string {
	out := make([]string, 0, len(r))
	for m := range r {
		out = append(out, m)
	}
	sort.Strings(out)
	return out
}

// covering returns the longest member prefix containing addr ("" = not a member).
func (r c12HistRef) covering(addr string) string {
	a := netip.MustParseAddr(addr)
	best, bits := "", -1
	for m := range r {
		p := netip.MustParsePrefix(m)
		if p.Contains(a) && p.Bits() > bits {
			best, bits = m, p.Bits()
		}
	}
	return best
}

type c12HistDetail struct {
	Level        string
	IPSetHistory *c12SetHistory
	Step         int
	Probe        string
	Reference    string
	Got          string
	RefMembers   []string
	Why          string
}

type c12HistStats struct{ histories, steps, probes, verdicts, nontrivial int64 }

// c12RunHistory applies the history to a fresh real policystore and checks the result after the last step
// (everyStep: after every step). A panic of the real code is a violation.
func c12RunHistory(c *vk.Ctx, d *c12HistDom, h *c12SetHistory, st *c12HistStats, everyStep bool) {
	if perr := vk.Catch(func() error { c12RunHistory0(c, d, h, st, everyStep); return nil }); perr != nil {
		c.Violation("C12:ipset-history:policystore-panic", c12HistDetail{Level: "D", IPSetHistory: h, Why: perr.Error()})
	}
}

func c12RunHistory0(c *vk.Ctx, d *c12HistDom, h *c12SetHistory, st *c12HistStats, everyStep bool) {
	pm := c12HistPolicyMsgs(d)
	app := c12BuildApp(pm)
	ref := c12HistRef{}
	st.histories++
	removedPresent := false
	for step, e := range h.Events {
		if e.Kind == "remove" && ref[e.Members[0]] && len(ref) > 1 {
			removedPresent = true
		}
		ref.apply(e)
		c12HistSend(app.store, e)
		st.steps++
		if !everyStep && step != len(h.Events)-1 {
			continue
		}
		// (b) fresh stores with the final contents in one update
		final := ref.members()
		rev := append([]string{}, final...)
		sort.Sort(sort.Reverse(sort.StringSlice(rev)))
		fresh := []*c12App{c12BuildApp(pm), c12BuildApp(pm)}
		c12HistSend(fresh[0].store, c12HistEvent{Kind: "update", Members: final})
		c12HistSend(fresh[1].store, c12HistEvent{Kind: "update", Members: rev})
		report := func(what, probe, want, got, why string) {
			cover := ref.covering(probe)
			cl := "ghost-member"
			if cover != "" {
				cl = "lost-member:" + cover[strings.Index(cover, "/"):]
			}
			c.Violation(fmt.Sprintf("C12:ipset-history:%s:%s", what, cl),
				c12HistDetail{Level: "D", IPSetHistory: &c12SetHistory{IPV: h.IPV, Events: h.Events[:step+1]}, Step: step, Probe: probe, Reference: want, Got: got, RefMembers: final, Why: why})
		}
		for _, p := range d.probes {
			want := ref.covering(p) != ""
			st.probes += 3
			got := app.store.IPSetByID[c12HistSet].Contains(p)
			if got != want {
				report("membership-after-history", p, fmt.Sprint(want), fmt.Sprint(got),
					"the policystore's NET set, after the history of IPSetUpdate/IPSetDeltaUpdate messages, does not hold what the messages say (the kernel/BPF IP sets, driven by the same messages, do)")
			}
			for fi, f := range fresh {
				if g := f.store.IPSetByID[c12HistSet].Contains(p); g != want {
					report([]string{"membership-fresh-store", "membership-fresh-store-reverse-order"}[fi], p, fmt.Sprint(want), fmt.Sprint(g),
						"a fresh policystore given the final contents in one IPSetUpdate does not hold them")
				}
			}
		}
		for _, p := range d.verdictProbes {
			want := "deny"
			if ref.covering(p) != "" {
				want = "allow"
			}
			pk := &c12Pkt{Name: "hist", Src: p, Dst: d.dst, Proto: 6, SPort: 1000, DPort: 8080}
			st.verdicts += 2
			if got, _ := app.check(pk); got != want {
				report("allow-from-set-verdict-after-history", p, want, got, "ALPCheckProvider.Check for a policy 'allow from <set>' disagrees with the set contents the dataplanes hold")
			}
			if got, _ := fresh[0].check(pk); got != want {
				report("allow-from-set-verdict-fresh-store", p, want, got, "ALPCheckProvider.Check on a fresh store disagrees with the set contents")
			}
		}
	}
	if removedPresent {
		st.nontrivial++
		c.Nontrivial("D|" + h.sig())
	}
}

// levelD enumerates the histories: IPSetUpdate(S0) for EVERY subset S0 of the pool, followed by every sequence of
// up to maxLen-1 events from {add m, remove m : m in pool} + {IPSetUpdate(empty), IPSetUpdate(pool)}.
func (k *c12Check) levelD() {
	c := k.c
	maxLen := c.Pick(3, 4)
	var total c12HistStats
	var mu sync.Mutex
	var capped int64
	for _, ver := range []int{4, 6} {
		d := c12HistDomain(ver)
		var alphabet []c12HistEvent
		for _, m := range d.pool {
			alphabet = append(alphabet, c12HistEvent{Kind: "add", Members: []string{m}}, c12HistEvent{Kind: "remove", Members: []string{m}})
		}
		alphabet = append(alphabet, c12HistEvent{Kind: "update", Members: nil}, c12HistEvent{Kind: "update", Members: append([]string{}, d.pool...)})
		jobs := make(chan int, 64)
		var wg sync.WaitGroup
		for w := 0; w < 8; w++ {
			wg.Add(1)
			go func() {
				defer wg.Done()
				for mask := range jobs {
					var s0 []string
					for i, m := range d.pool {
						if mask&(1<<i) != 0 {
							s0 = append(s0, m)
						}
					}
					var st c12HistStats
					var rec func(ev []c12HistEvent)
					rec = func(ev []c12HistEvent) {
						if c.Expired() {
							atomic.AddInt64(&capped, 1)
							return
						}
						// every history (of every length) is replayed into a fresh store and checked after its last step
						c12RunHistory(c, d, &c12SetHistory{IPV: ver, Events: append([]c12HistEvent{}, ev...)}, &st, false)
						if len(ev) == maxLen {
							return
						}
						for _, e := range alphabet {
							rec(append(append([]c12HistEvent{}, ev...), e))
						}
					}
					rec([]c12HistEvent{{Kind: "update", Members: s0}})
					mu.Lock()
					total.histories += st.histories
					total.steps += st.steps
					total.probes += st.probes
					total.verdicts += st.verdicts
					total.nontrivial += st.nontrivial
					mu.Unlock()
				}
			}()
		}
		for mask := 0; mask < 1<<len(d.pool); mask++ {
			jobs <- mask
		}
		close(jobs)
		wg.Wait()
	}
	if capped > 0 {
		c.Capped(fmt.Sprintf("D:ipset-history: deadline reached, %d subtree(s) not run", capped))
	}
	c.Add("states", total.histories)
	c.Add("transitions", total.steps+total.probes+total.verdicts)
	c.Add("evaluations", total.verdicts)
	c.Add("ipset_history_steps", total.steps)
	c.Add("ipset_history_membership_probes", total.probes)
	c.Extra("states:D:ipset-history", total.histories)
	c.Extra("levelD_history_length", maxLen)
	c.Sample(map[string]any{"level": "D", "history": "v4 update(10.0.0.128/25,10.0.0.77/32) ; remove(10.0.0.77/32) ; add(10.0.0.8/31)", "checked_after_the_last_step_of_every_history": "13 membership probes on the history store and two fresh stores, 3 allow-from-set verdicts, against the reference set"})
	fmt.Printf("enum C12 %-28s states=%d (histories of %d events; steps=%d probes=%d verdicts=%d)\n", "D:ipset-history", total.histories, maxLen, total.steps, total.probes, total.verdicts)
}

package intdataplane

// C12 — all dataplanes agree on the policy verdict.
//
// Shape I + X (bounded-exhaustive enumeration of REAL code, four implementations executed on the same input):
//
//	endpoint policy state (proto messages of the calculation graph) x packet
//	   -> iptables  : real policyManager/endpointManager/renderer text, executed by nfsim
//	   -> nftables  : same with the nftables renderer, executed by nfsim
//	   -> BPF       : real extractRules + polprog builder byte code, executed by the ebpf interpreter
//	   -> app-policy: real policystore + checker (ALPCheckProvider.Check and Evaluate)
//
// Oracle: the four verdicts are pairwise equal, and equal to refpol.EndpointVerdict where that is decided.

import (
	"errors"
	"fmt"
	"os"
	"runtime/debug"
	"sort"
	"strings"
	"sync"
	"sync/atomic"
	"testing"

	"github.com/projectcalico/calico/zzverif/ebpf"
	"github.com/projectcalico/calico/zzverif/nfsim"
	"github.com/projectcalico/calico/zzverif/refpol"
	"github.com/projectcalico/calico/zzverif/vk"
)

// ---------------------------------------------------------------------------------------------
// packets

func (d *c12Dom) basePkt() c12Pkt {
	return c12Pkt{Name: "base", Src: d.a["srcBase"], Dst: d.a["wl"], Proto: 6, SPort: 1000, DPort: 8080}
}

// featurePackets: boundary probes, one dimension varied at a time around the base packet, plus the
// combinations that hit the named-port / ip-port set members.
func (d *c12Dom) featurePackets(full bool) []*c12Pkt {
	var out []*c12Pkt
	add := func(name string, f func(p *c12Pkt)) {
		p := d.basePkt()
		p.Name = name
		f(&p)
		out = append(out, &p)
	}
	icmp := 1
	if d.ver == 6 {
		icmp = 58
	}
	add("base", func(p *c12Pkt) {})
	for _, k := range []string{"srcIn24Edge", "srcOut24", "srcOut8", "srcOther", "srcS2only"} {
		k := k
		add("src-"+k, func(p *c12Pkt) { p.Src = d.a[k] })
	}
	for _, k := range []string{"wl2", "dstOut", "dstOutS3"} {
		k := k
		add("dst-"+k, func(p *c12Pkt) { p.Dst = d.a[k] })
	}
	for _, sp := range []int{80, 999, 2000, 2001} {
		sp := sp
		add(fmt.Sprintf("sport-%d", sp), func(p *c12Pkt) { p.SPort = sp })
	}
	for _, dp := range []int{79, 80, 81, 82, 7999, 8000, 8081, 8100, 8101, 65535} {
		dp := dp
		add(fmt.Sprintf("dport-%d", dp), func(p *c12Pkt) { p.DPort = dp })
	}
	add("udp-8080", func(p *c12Pkt) { p.Proto = 17 })
	add("udp-53-to-wl", func(p *c12Pkt) { p.Proto = 17; p.DPort = 53 })
	add("sctp-8080", func(p *c12Pkt) { p.Proto = 132 })
	add("icmp-echo", func(p *c12Pkt) { p.Proto = icmp; p.SPort, p.DPort = 0, 0 })
	add("tcp-80-to-wl2", func(p *c12Pkt) { p.Dst = d.a["wl2"]; p.DPort = 80 })
	add("tcp-8080-from-out8", func(p *c12Pkt) { p.Src = d.a["srcOut8"] })
	if full {
		for _, k := range []string{"srcIn8Edge", "srcOther2"} {
			k := k
			add("src-"+k, func(p *c12Pkt) { p.Src = d.a[k] })
		}
		for _, sp := range []int{0, 79, 81, 1001, 65535, 256 * 80} {
			sp := sp
			add(fmt.Sprintf("sport-%d", sp), func(p *c12Pkt) { p.SPort = sp })
		}
		for _, dp := range []int{0, 53, 8079, 0x901f} {
			dp := dp
			add(fmt.Sprintf("dport-%d", dp), func(p *c12Pkt) { p.DPort = dp })
		}
		add("udplite-8080", func(p *c12Pkt) { p.Proto = 136 })
		add("gre", func(p *c12Pkt) { p.Proto = 47; p.SPort, p.DPort = 0, 0 })
		add("proto-255", func(p *c12Pkt) { p.Proto = 255; p.SPort, p.DPort = 0, 0 })
		add("udp-53-to-wl2", func(p *c12Pkt) { p.Proto = 17; p.DPort = 53; p.Dst = d.a["wl2"] })
		add("udp-80", func(p *c12Pkt) { p.Proto = 17; p.DPort = 80 })
	}
	return d.prep(out)
}

// structurePackets: every combination of "tcp-dport-80 matches" x "src-ipset matches", plus a UDP probe.
func (d *c12Dom) structurePackets() []*c12Pkt {
	mk := func(name, src string, proto, dport int) *c12Pkt {
		return &c12Pkt{Name: name, Src: d.a[src], Dst: d.a["wl"], Proto: proto, SPort: 1000, DPort: dport}
	}
	return d.prep([]*c12Pkt{
		mk("A1B1", "srcBase", 6, 80),
		mk("A1B0", "srcOut8", 6, 80),
		mk("A0B1", "srcBase", 6, 81),
		mk("A0B0", "srcOut8", 6, 81),
		mk("udp-A0B1", "srcOther", 17, 80),
	})
}

// bitPackets: every assignment of the bits in `used` (bit i = matcher "bit<i>" matches); unused bits are 0.
var (
	c12BitPktMu    sync.Mutex
	c12BitPktCache = map[string][]*c12Pkt{}
)

func (d *c12Dom) bitPackets(used []int) []*c12Pkt {
	key := fmt.Sprint(d.ver, used)
	c12BitPktMu.Lock()
	defer c12BitPktMu.Unlock()
	if l := c12BitPktCache[key]; l != nil {
		return l
	}
	var out []*c12Pkt
	n := len(used)
	for m := 0; m < 1<<n; m++ {
		var b [6]bool
		for i, u := range used {
			b[u] = m&(1<<i) != 0
		}
		p := &c12Pkt{Proto: 6}
		switch {
		case b[0] && !b[1]:
			p.Src = d.a["srcBase"] // in s1, in s2
		case b[0] && b[1]:
			p.Src = d.a["srcIn24Edge"] // in s1, not in s2
		case !b[0] && !b[1]:
			p.Src = d.a["srcS2only"] // not in s1, in s2
		default:
			p.Src = d.a["srcOut8"]
		}
		switch {
		case b[2] && b[5]:
			p.Dst = d.a["wl"]
		case b[2] && !b[5]:
			p.Dst = d.a["wl2"]
		case !b[2] && b[5]:
			p.Dst = d.a["dstOutS3"]
		default:
			p.Dst = d.a["dstOut"]
		}
		p.DPort = 81
		if b[3] {
			p.DPort = 80
		}
		p.SPort = 1000
		if b[4] {
			p.SPort = 999
		}
		name := ""
		for i := 0; i < 6; i++ {
			if b[i] {
				name += "1"
			} else {
				name += "0"
			}
		}
		p.Name = "bits-" + name
		out = append(out, p)
	}
	c12BitPktCache[key] = d.prep(out)
	return out
}

// ---------------------------------------------------------------------------------------------
// one case

type c12Case struct {
	Level string
	// Class: stable class for violation keys (feature family / "structure").
	Class string
	State c12State
	pkts  []*c12Pkt
}

type c12Verdicts struct {
	Ipt, Nft, BPF string
	// App: verdict derived from checker.Evaluate's trace; AppCheck: ALPCheckProvider.Check ("" = not applicable).
	App, AppCheck string
	// AppNote: status / error text of the app-policy entry points where it is not a plain allow/deny.
	AppNote   string `json:",omitempty"`
	Ref       string
	RefReason string
}

// vector: the verdicts in a fixed order. "app" is the application-layer checker: when its two entry points
// (Check = enforcement, Evaluate = rule trace) both gave a verdict and differ, both are shown.
func (v c12Verdicts) vector() string {
	s := fmt.Sprintf("ipt=%s,nft=%s,bpf=%s", v.Ipt, v.Nft, v.BPF)
	switch {
	case v.AppCheck != "" && v.App != "" && v.AppCheck != v.App:
		s += ",app-check=" + v.AppCheck + ",app-evaluate=" + v.App
	case v.AppCheck != "":
		s += ",app=" + v.AppCheck
	case v.App != "":
		s += ",app=" + v.App
	default:
		s += ",app=none"
	}
	return s
}

func (v c12Verdicts) all() []string {
	out := []string{v.Ipt, v.Nft, v.BPF}
	if v.App != "" {
		out = append(out, v.App)
	}
	if v.AppCheck != "" {
		out = append(out, v.AppCheck)
	}
	return out
}

type c12Detail struct {
	Level    string
	Class    string
	State    c12State
	Sig      string
	Packet   *c12Pkt
	Verdicts c12Verdicts
	Why      string
	AppTrace string   `json:",omitempty"`
	IptTrace []string `json:",omitempty"`
	NftTrace []string `json:",omitempty"`
	IptRules []string `json:",omitempty"`
	NftRules []string `json:",omitempty"`
	BPFRules string   `json:",omitempty"`
	Error    string   `json:",omitempty"`
	// level D replays
	IPSetHistory *c12SetHistory `json:",omitempty"`
}

type c12Worker struct {
	bpf map[int]*c12BPFEnv
}

type c12Check struct {
	c            *vk.Ctx
	lay          map[int]*ebpf.Layout
	sampled      int32
	sampledLevel [3]int32
	outMu        sync.Mutex
	outcomes     map[string]int64
	stop         int32
}

func (k *c12Check) flushOutcomes(local map[string]int64) {
	k.outMu.Lock()
	for sig, n := range local {
		if _, seen := k.outcomes[sig]; !seen {
			k.c.Outcome(sig)
		}
		k.outcomes[sig] += n
	}
	k.outMu.Unlock()
}

func (k *c12Check) newWorker() (*c12Worker, error) {
	w := &c12Worker{bpf: map[int]*c12BPFEnv{}}
	for _, ver := range []int{4, 6} {
		e, err := newC12BPFEnv(ver, k.lay[ver], c12Domain(ver))
		if err != nil {
			return nil, err
		}
		w.bpf[ver] = e
	}
	return w, nil
}

// structural class of a (state, packet) for keys and outcome classes
func c12StructClass(s *c12State, ref refpol.Verdict, appNote string) string {
	if ref.Decision == refpol.Undecided {
		if strings.Contains(ref.Note, "pass rule matched in profile") {
			return "profile-pass-rule"
		}
		return "rule-meaning-unspecified"
	}
	// app-policy failed the evaluation on a tier whose default action is unset
	if strings.Contains(appNote, "bad action") {
		for _, t := range s.Tiers {
			if t.Default == "" {
				return "tier-default-action-unset"
			}
		}
	}
	cl := ref.Reason.String()
	// a pass rule somewhere in a profile that is NOT the rule deciding this packet (see above for that case)
	for _, p := range s.Profiles {
		for _, r := range p {
			if r.A == "pass" || r.A == "next-tier" {
				return "profile-with-pass-rule:" + cl
			}
		}
	}
	return cl
}

func (k *c12Check) nfBuild(kind nfsim.Kind, cs *c12Case, m *c12Msgs) (w *c12NF, ok bool) {
	c := k.c
	var err error
	perr := vk.Catch(func() error {
		w, err = c12BuildNF(kind, cs.State.IPV, cs.State.Dir, m)
		return nil
	})
	name := kind.String()
	if perr != nil {
		c.Violation("C12:"+name+":render-panic:"+cs.Class, c12Detail{Level: cs.Level, Class: cs.Class, State: cs.State, Sig: cs.State.sig(), Error: perr.Error()})
		return nil, true
	}
	if err != nil {
		var le *nfsim.LoadError
		if errors.As(err, &le) {
			c.Violation("C12:"+name+":unloadable-"+le.Class+":"+cs.Class, c12Detail{Level: cs.Level, Class: cs.Class, State: cs.State, Sig: cs.State.sig(), Error: le.Error(), IptRules: w.b.Lines()})
			return nil, true
		}
		c.ToolError(fmt.Sprintf("%s state %s: %v", name, cs.State.sig(), err))
		return nil, false
	}
	return w, true
}

// runCase builds the four implementations for the state and compares them on every packet.
// Returns false when a tool error stopped the run.
func (k *c12Check) runCase(w *c12Worker, cs *c12Case) bool {
	c := k.c
	d := c12Domain(cs.State.IPV)
	sig := cs.State.sig()
	msgs := d.messages(&cs.State)
	c.Add("states", 1)

	ipt, ok := k.nfBuild(nfsim.Iptables, cs, msgs)
	if !ok {
		return false
	}
	nft, ok := k.nfBuild(nfsim.Nft, cs, msgs)
	if !ok {
		return false
	}
	env := w.bpf[cs.State.IPV]
	var progs []*ebpf.Program
	var bpfRules string
	perr := vk.Catch(func() error {
		p, r, err := env.build(cs.State.Dir, msgs)
		progs = p
		if r != nil {
			bpfRules = fmt.Sprintf("%+v", *r)
		}
		return err
	})
	if perr != nil {
		kind := "compile-error"
		if _, isPanic := perr.(*vk.PanicError); isPanic {
			kind = "compile-panic"
		}
		c.Violation("C12:bpf:"+kind+":"+cs.Class, c12Detail{Level: cs.Level, Class: cs.Class, State: cs.State, Sig: sig, Error: perr.Error()})
		progs = nil
	}
	var app *c12App
	if perr := vk.Catch(func() error { app = c12BuildApp(msgs); return nil }); perr != nil {
		c.Violation("C12:app:store-panic:"+cs.Class, c12Detail{Level: cs.Level, Class: cs.Class, State: cs.State, Sig: sig, Error: perr.Error()})
		app = nil
	}
	if ipt == nil || nft == nil || progs == nil || app == nil {
		return true
	}
	marks := []uint32{c12MarkForeign, c12MarkForeign | c12MarkAccept | c12MarkPass | c12MarkScratch0 | c12MarkScratch1}
	sawAllow, sawDeny := false, false
	var nExec, nPkts, nAppNoEval, nAppNone, nRefUndecided, nSilent int64
	outs := map[string]int64{}
	defer func() {
		k.flushOutcomes(outs)
		c.Add("transitions", nExec)
		c.Add("evaluations", nPkts)
		c.Add("app_evaluate_returned_error", nAppNoEval)
		c.Add("packets_without_app_verdict", nAppNone)
		c.Add("reference_undecided_but_all_agree", nRefUndecided)
		c.Add("disagreements_where_the_rule_meaning_is_unspecified", nSilent)
	}()
	for _, p := range cs.pkts {
		if p.ref == nil {
			d.prep([]*c12Pkt{p})
		}
		rp, np := p.ref, p.nfOut
		if cs.State.Dir == "ingress" {
			np = p.nfIn
		}
		ref := refpol.EndpointVerdict(msgs.ref, rp, refpol.Options{})
		var v c12Verdicts
		v.Ref, v.RefReason = ref.Decision.String(), ref.Reason.String()
		nfVerdict := func(x *c12NF) (string, bool) {
			out := ""
			for _, mk := range marks {
				got, _, err := x.eval(np, mk, false)
				nExec++
				if err != nil {
					var ue *nfsim.UndefinedChainError
					if errors.As(err, &ue) {
						return "undefined-chain", true
					}
					c.ToolError(fmt.Sprintf("%s state %s packet %s: %v", x.kind, sig, p, err))
					return "", false
				}
				if out == "" {
					out = got
				} else if out != got {
					out = "mark-dependent(" + out + "/" + got + ")"
				}
			}
			return out, true
		}
		if v.Ipt, ok = nfVerdict(ipt); !ok {
			return false
		}
		if v.Nft, ok = nfVerdict(nft); !ok {
			return false
		}
		br := env.run(progs, p)
		nExec++
		v.BPF = br.Outcome
		var appTrace string
		if perr := vk.Catch(func() error {
			v.App, appTrace = app.evaluate(cs.State.Dir, p)
			nExec++
			if v.App == "error" {
				// Evaluate could not complete: by its contract that is "no trace", not a verdict
				v.App, v.AppNote = "", "Evaluate: "+appTrace
				nAppNoEval++
			}
			if cs.State.Dir == "ingress" && (p.Proto == 6 || p.Proto == 17) {
				var note string
				v.AppCheck, note = app.check(p)
				nExec++
				if note != "OK" && note != "PERMISSION_DENIED" {
					v.AppNote += " Check: " + note
				}
			}
			return nil
		}); perr != nil {
			v.App, appTrace = "panic", perr.Error()
		}
		if v.App == "" && v.AppCheck == "" {
			nAppNone++
		}
		nPkts++

		class := cs.Class
		sc := c12StructClass(&cs.State, ref, v.AppNote)
		if cs.Class == "structure" || sc == "profile-pass-rule" || strings.HasPrefix(sc, "profile-with-pass-rule") {
			class = "structure:" + sc
		}
		all := v.all()
		agree := true
		for _, x := range all[1:] {
			if x != all[0] {
				agree = false
			}
		}
		wellFormed := true
		for _, x := range all {
			if x != "allow" && x != "deny" {
				wellFormed = false
			}
		}
		bad, why := "", ""
		switch {
		case !agree || !wellFormed:
			bad = "disagree"
			why = "the implementations do not reach the same allow/deny verdict for the same endpoint policy state and packet"
		case ref.Decision != refpol.Undecided && all[0] != ref.Decision.String():
			bad = "all-differ-from-reference"
			why = "all implementations agree with each other but not with the reference evaluation of the policy semantics"
		}
		if all[0] == "allow" {
			sawAllow = true
		} else if all[0] == "deny" {
			sawDeny = true
		}
		if bad != "" && sc == "rule-meaning-unspecified" {
			// The rule model does not say whether the rule matches this packet (the reference answers
			// "unspecified", e.g. a negated CIDR list holding only CIDRs of the other IP version = the rule's
			// implicit IP version, a notion app-policy does not have): outside "rules all of them support".
			nSilent++
			outs[fmt.Sprintf("STATEMENT-SILENT/%s/%s/%s", cs.Level, class, v.vector())]++
			continue
		}
		if bad == "" {
			if ref.Decision == refpol.Undecided {
				nRefUndecided++
			}
			outs[cs.Level+"/"+class+"/all="+all[0]+"/ref="+v.Ref]++
			if atomic.LoadInt32(&k.sampled) < 9 && msgs.nRules >= 2 && len(cs.State.Tiers)+len(cs.State.Profiles) >= 2 && p == cs.pkts[len(cs.pkts)/2] &&
				atomic.AddInt32(&k.sampledLevel[cs.Level[0]-'A'], 1) <= 3 {
				if atomic.AddInt32(&k.sampled, 1) <= 9 {
					c.Sample(map[string]any{"level": cs.Level, "state": sig, "packet": p.String(), "verdicts": v.vector(), "reference": v.Ref + " by " + v.RefReason})
				}
			}
			continue
		}
		outs[fmt.Sprintf("MISMATCH/%s/%s/%s/ref=%s", cs.Level, class, v.vector(), v.Ref)]++
		key := fmt.Sprintf("C12:%s:%s:%s", bad, class, v.vector())
		if ref.Decision != refpol.Undecided {
			key += ":ref=" + v.Ref
		}
		det := c12Detail{Level: cs.Level, Class: cs.Class, State: cs.State, Sig: sig, Packet: p, Verdicts: v, Why: why, AppTrace: appTrace,
			IptRules: ipt.b.Lines(), NftRules: nft.b.Lines(), BPFRules: bpfRules, Error: br.Err}
		if _, r, err := ipt.eval(np, marks[0], true); err == nil {
			det.IptTrace = r.Trace
		}
		if _, r, err := nft.eval(np, marks[0], true); err == nil {
			det.NftTrace = r.Trace
		}
		c.Violation(key, det)
	}
	if sawAllow && sawDeny {
		c.Nontrivial(sig)
	}
	return true
}

// ---------------------------------------------------------------------------------------------
// enumeration

// Level A: every matcher x action x context, boundary packets.
func (k *c12Check) levelA(emit func(*c12Case)) {
	full := k.c.Thorough()
	for _, ver := range []int{4, 6} {
		d := c12Domain(ver)
		pkts := d.featurePackets(full)
		for _, name := range d.order {
			fam := d.family[name]
			if fam == "bits" {
				continue
			}
			// IP-version-sensitive families are repeated for IPv6 in the quick tier, everything in the thorough tier
			if ver == 6 && !full && fam != "nets" && fam != "nets-mixed-version" && fam != "nets-negated-other-version-only" && fam != "ipsets" && fam != "ipsets-member-prefix-25-31" && fam != "named-ports" && fam != "protocol" {
				continue
			}
			for _, act := range []string{"allow", "deny", "pass", "next-tier", "log"} {
				if (act == "next-tier" || act == "log") && !full && fam != "all" && name != "tcp-dport-80" {
					continue
				}
				r := c12Rule{M: name, A: act}
				allowAll := c12Rule{M: "all", A: "allow"}
				denyAll := c12Rule{M: "all", A: "deny"}
				ctxs := []struct {
					name string
					s    c12State
				}{
					// rule in the only policy of a tier that denies at its end; no profile
					{"tier-deny", c12State{Tiers: []c12Tier{{Default: "Deny", Policies: []c12Policy{{Rules: []c12Rule{r}}}}}}},
					// rule in a tier that passes at its end, followed by an allow-all profile
					{"tier-pass+profile", c12State{Tiers: []c12Tier{{Default: "Pass", Policies: []c12Policy{{Rules: []c12Rule{r}}}}}, Profiles: [][]c12Rule{{allowAll}}}},
					// rule followed by the opposite catch-all inside the same policy, second tier allows
					{"two-rules+tier2", c12State{Tiers: []c12Tier{{Default: "Deny", Policies: []c12Policy{{Rules: []c12Rule{r, {M: "all", A: "pass"}}}}}, {Default: "Deny", Policies: []c12Policy{{Rules: []c12Rule{allowAll}}}}}}},
					// rule in a profile, followed by a second profile
					{"profile", c12State{Profiles: [][]c12Rule{{r}, {allowAll}}}},
					{"profile-last", c12State{Profiles: [][]c12Rule{{r, denyAll}}}},
				}
				for ci, cx := range ctxs {
					if !full && (ci == 2 || ci == 4) && fam != "all" && name != "tcp-dport-80" {
						continue
					}
					if ci >= 3 && (act == "pass" || act == "next-tier") && fam != "all" && name != "tcp-dport-80" {
						// a pass rule inside a profile is a structural matter (levels A "all", B): keep the
						// per-feature keys free of it
						continue
					}
					dirs := []string{"ingress", "egress"}
					if !full && (ver == 6 || ci > 0) {
						dirs = []string{"ingress"}
					}
					for _, dir := range dirs {
						s := cx.s
						s.IPV, s.Dir = ver, dir
						emit(&c12Case{Level: "A", Class: "match:" + fam, State: s, pkts: pkts})
					}
				}
			}
		}
	}
}

// Level B: every state with <= maxTiers tiers x <= 2 policies x <= 2 rules and <= 2 profiles x <= 2 rules whose TOTAL
// number of rules is <= budget, over the rule alphabet sigma.
func c12SmallStates(sigma []c12Rule, budget, maxPolicies int, defaults func(nTiers int) []string, emit func(c12State)) {
	// rule lists of length 0..2 with their cost
	var lists [][]c12Rule
	lists = append(lists, nil)
	for _, a := range sigma {
		lists = append(lists, []c12Rule{a})
	}
	for _, a := range sigma {
		for _, b := range sigma {
			lists = append(lists, []c12Rule{a, b})
		}
	}
	var policies func(n, left int, cur []c12Policy, f func([]c12Policy, int))
	policies = func(n, left int, cur []c12Policy, f func([]c12Policy, int)) {
		if n == 0 {
			f(cur, left)
			return
		}
		for _, l := range lists {
			if len(l) > left {
				continue
			}
			for _, staged := range []bool{false, true} {
				policies(n-1, left-len(l), append(append([]c12Policy{}, cur...), c12Policy{Staged: staged, Rules: l}), f)
			}
		}
	}
	var tiers func(total, n, left, polLeft int, cur []c12Tier, f func([]c12Tier, int))
	tiers = func(total, n, left, polLeft int, cur []c12Tier, f func([]c12Tier, int)) {
		if n == 0 {
			f(cur, left)
			return
		}
		for np := 1; np <= 2; np++ {
			if np > polLeft-(n-1) {
				continue
			}
			policies(np, left, nil, func(ps []c12Policy, left2 int) {
				for _, def := range defaults(total) {
					tiers(total, n-1, left2, polLeft-np, append(append([]c12Tier{}, cur...), c12Tier{Default: def, Policies: ps}), f)
				}
			})
		}
	}
	var profiles func(n, left int, cur [][]c12Rule, f func([][]c12Rule))
	profiles = func(n, left int, cur [][]c12Rule, f func([][]c12Rule)) {
		if n == 0 {
			f(cur)
			return
		}
		for _, l := range lists {
			if len(l) > left {
				continue
			}
			profiles(n-1, left-len(l), append(append([][]c12Rule{}, cur...), l), f)
		}
	}
	for nt := 0; nt <= 2; nt++ {
		tiers(nt, nt, budget, maxPolicies, nil, func(ts []c12Tier, left int) {
			for np := 0; np <= 2; np++ {
				profiles(np, left, nil, func(ps [][]c12Rule) {
					emit(c12State{Tiers: ts, Profiles: ps})
				})
			}
		})
	}
}

func c12TwoEnforcedInOneTier(s *c12State) bool {
	for _, t := range s.Tiers {
		n := 0
		for _, p := range t.Policies {
			if !p.Staged {
				n++
			}
		}
		if n >= 2 {
			return true
		}
	}
	return false
}

func (k *c12Check) levelB(emit func(*c12Case)) {
	thorough := k.c.Thorough()
	// quick:    alphabet {tcp-dport-80, all} x {allow,deny,pass}, <= 2 rules in total, <= 2 policies in total
	// thorough: alphabet {tcp-dport-80, src-ipset, all} x {allow,deny,pass}, <= 2 rules in total, full structure
	//           (<= 2 tiers x <= 2 policies, <= 2 profiles), then the quick alphabet with <= 3 rules and <= 2 policies
	type pass struct {
		matchers    []string
		budget      int
		maxPolicies int
	}
	passes := []pass{{[]string{"tcp-dport-80", "all"}, 2, 2}}
	if thorough {
		passes = []pass{{[]string{"tcp-dport-80", "src-ipset", "all"}, 2, 4}, {[]string{"tcp-dport-80", "all"}, 3, 2}}
	}
	if v := os.Getenv("VERIF_C12_BUDGET"); v != "" {
		fmt.Sscan(v, &passes[0].budget)
	}
	k.c.Extra("levelB_passes(matchers,total_rule_budget,max_policies)", fmt.Sprint(passes))
	pk := map[int][]*c12Pkt{4: c12Domain(4).structurePackets(), 6: c12Domain(6).structurePackets()}
	defaults := func(nTiers int) []string {
		if nTiers == 1 || thorough {
			return []string{"Deny", "Pass", ""}
		}
		return []string{"Deny", "Pass"}
	}
	seen := map[string]bool{}
	for pi, ps := range passes {
		var sigma []c12Rule
		for _, m := range ps.matchers {
			for _, a := range []string{"allow", "deny", "pass"} {
				sigma = append(sigma, c12Rule{M: m, A: a})
			}
		}
		c12SmallStates(sigma, ps.budget, ps.maxPolicies, defaults, func(s c12State) {
			if pi > 0 {
				// later passes overlap with the earlier ones
				s0 := s
				s0.IPV, s0.Dir = 4, "ingress"
				if seen[s0.sig()] {
					return
				}
			} else if len(passes) > 1 {
				s0 := s
				s0.IPV, s0.Dir = 4, "ingress"
				seen[s0.sig()] = true
			}
			nr := 0
			for _, t := range s.Tiers {
				for _, p := range t.Policies {
					nr += len(p.Rules)
				}
			}
			for _, p := range s.Profiles {
				nr += len(p)
			}
			type variant struct {
				ipv      int
				dir      string
				oneGroup bool
			}
			vs := []variant{{4, "ingress", false}}
			if c12TwoEnforcedInOneTier(&s) {
				// same selector on both policies: the endpoint manager renders a policy-group chain
				vs = append(vs, variant{4, "ingress", true})
			}
			if nr < ps.budget {
				vs = append(vs, variant{4, "egress", false})
				if thorough {
					vs = append(vs, variant{6, "ingress", false})
				}
			}
			for _, v := range vs {
				s2 := s
				s2.IPV, s2.Dir, s2.OneGroup = v.ipv, v.dir, v.oneGroup
				emit(&c12Case{Level: "B", Class: "structure", State: s2, pkts: pk[v.ipv]})
			}
		})
	}
}

// Level C: saturated shapes. Every policy / profile slot owns one independent "bit" matcher; each slot is filled
// from a menu of rule lists over its bit.
type c12Kind struct {
	Staged bool
	Spec   string
}

func c12KindRules(spec string, bit int) []c12Rule {
	b := fmt.Sprintf("bit%d", bit)
	own := func(a string) c12Rule { return c12Rule{M: b, A: a} }
	all := func(a string) c12Rule { return c12Rule{M: "all", A: a} }
	switch spec {
	case "a":
		return []c12Rule{own("allow")}
	case "d":
		return []c12Rule{own("deny")}
	case "p":
		return []c12Rule{own("pass")}
	case "-":
		return nil
	case "pA":
		return []c12Rule{own("next-tier"), all("allow")}
	case "dP":
		return []c12Rule{own("deny"), all("pass")}
	case "la":
		return []c12Rule{all("log"), own("allow")}
	case "aD":
		return []c12Rule{own("allow"), all("deny")}
	}
	panic("bad kind " + spec)
}

func (k *c12Check) levelC(emit func(*c12Case)) {
	thorough := k.c.Thorough()
	allKinds := []c12Kind{{false, "a"}, {false, "d"}, {false, "p"}, {false, "-"}, {true, "a"}, {true, "dP"}}
	if thorough {
		allKinds = append(allKinds, c12Kind{false, "pA"}, c12Kind{false, "dP"}, c12Kind{false, "la"}, c12Kind{false, "aD"})
	}
	// tier shapes: number of policies per tier
	shapes := [][]int{{2}, {1, 1}, {2, 1}, {1, 2}}
	if thorough {
		shapes = append(shapes, []int{2, 2})
	}
	// "pA" / "p": a pass rule inside a profile, after tiers that may have passed the packet on
	profileMenus := [][]string{nil, {"a"}, {"d", "a"}, {"pA"}}
	if thorough {
		profileMenus = append(profileMenus, []string{"aD"}, []string{"-", "a"}, []string{"p", "a"})
	}
	defaults := []string{"Deny", "Pass"}
	for _, shape := range shapes {
		kinds := allKinds
		if len(shape) == 2 && shape[0]+shape[1] == 4 {
			kinds = allKinds[:7]
		}
		// slots: tier t policy p -> bit 2*t+p
		var slots []int
		for t, n := range shape {
			for p := 0; p < n; p++ {
				slots = append(slots, 2*t+p)
			}
		}
		idx := make([]int, len(slots))
		for {
			for _, profs := range profileMenus {
				for dm := 0; dm < 1<<len(shape); dm++ {
					s := c12State{IPV: 4, Dir: "ingress"}
					used := append([]int{}, slots...)
					si := 0
					for t, n := range shape {
						tier := c12Tier{Default: defaults[(dm>>t)&1]}
						for p := 0; p < n; p++ {
							kd := kinds[idx[si]]
							tier.Policies = append(tier.Policies, c12Policy{Staged: kd.Staged, Rules: c12KindRules(kd.Spec, slots[si])})
							si++
						}
						s.Tiers = append(s.Tiers, tier)
					}
					for pi, spec := range profs {
						s.Profiles = append(s.Profiles, c12KindRules(spec, 4+pi))
						used = append(used, 4+pi)
					}
					// policies of a tier share a selector (one group, own chain) in every second layout
					s.OneGroup = (idx[0]+dm)%2 == 0
					emit(&c12Case{Level: "C", Class: "structure", State: s, pkts: c12Domain(4).bitPackets(used)})
				}
			}
			j := 0
			for j < len(idx) {
				idx[j]++
				if idx[j] < len(kinds) {
					break
				}
				idx[j] = 0
				j++
			}
			if j == len(idx) {
				break
			}
		}
	}
}

// ---------------------------------------------------------------------------------------------

func (k *c12Check) parallel(name string, gen func(emit func(*c12Case))) {
	workers := 8
	if v := os.Getenv("VERIF_C12_WORKERS"); v != "" {
		fmt.Sscan(v, &workers)
	}
	ch := make(chan *c12Case, 256)
	var wg sync.WaitGroup
	var cases, capped int64
	for i := 0; i < workers; i++ {
		wg.Add(1)
		go func() {
			defer wg.Done()
			w, err := k.newWorker()
			if err != nil {
				k.c.ToolError(err.Error())
				for range ch {
				}
				return
			}
			for cs := range ch {
				if atomic.LoadInt32(&k.stop) != 0 {
					continue
				}
				if k.c.Expired() {
					atomic.AddInt64(&capped, 1)
					continue
				}
				atomic.AddInt64(&cases, 1)
				if !k.runCase(w, cs) {
					atomic.StoreInt32(&k.stop, 1)
				}
			}
		}()
	}
	gen(func(cs *c12Case) { ch <- cs })
	close(ch)
	wg.Wait()
	if capped > 0 {
		k.c.Capped(fmt.Sprintf("%s: deadline reached, %d state(s) not run", name, capped))
	}
	fmt.Printf("enum C12 %-28s states=%d\n", name, cases)
	k.c.Extra("states:"+name, cases)
}

func TestVerif_C12(t *testing.T) {
	vk.Run(t, "C12", func(c *vk.Ctx) {
		c12Quiet()
		// every state builds (and drops) four fresh implementations: the live heap is tiny, the churn is high
		defer debug.SetGCPercent(debug.SetGCPercent(2000))
		if bad := nfsim.SelfTest(); len(bad) > 0 {
			for _, b := range bad {
				c.ToolError("nfsim self-test: " + b)
			}
			return
		}
		if err := ebpf.SelfTest(); err != nil {
			c.ToolError("ebpf self-test: " + err.Error())
			return
		}
		v4, v6, err := c12BPFArtefacts()
		if err != nil {
			c.ToolError(err.Error())
			return
		}
		k := &c12Check{c: c, lay: map[int]*ebpf.Layout{4: v4, 6: v6}, outcomes: map[string]int64{}}

		ruleA := "level A: every matcher of the common rule domain (protocol by name/number and negated, source/destination nets incl. multi-CIDR, negated and mixed-IP-version lists, port ranges and negations, IP sets and negations incl. members with /25../31 prefixes, named-port sets, ip-port sets, combinations with <= 2 positive match blocks) "
		ruleB := "level B: EVERY state with <= 2 tiers x <= 2 policies (enforced/staged) x <= 2 rules, <= 2 profiles x <= 2 rules (empty policies/profiles included), policies of a tier in separate policy groups and (two enforced policies) in one group, whose total number of rules is within the budget: "
		ruleC := "level C: saturated shapes, every policy/profile slot owns an independent matcher (bit0 src IP set, bit1 negated src IP set, bit2 dst CIDR, bit3 tcp dst port, bit4 negated src port range, bit5 dst IP set) and takes a rule list from a menu, x every assignment of the used bits: "
		if c.Thorough() {
			ruleA += "x action allow/deny/pass/next-tier/log x 5 placements (tier ending in deny; tier ending in pass + allow-all profile; two-rule policy + second tier; profile + next profile; last profile + deny-all) x ~50 boundary packets (one dimension varied at a time), IPv4 and IPv6, ingress and egress; "
			ruleB += "(i) <= 2 rules in total over {tcp-dport-80, src-ipset, all} x {allow,deny,pass}, tier default action Deny/Pass/unset, ingress (+ egress and IPv6 for <= 1 rule); (ii) <= 3 rules and <= 2 policies in total over {tcp-dport-80, all} x {allow,deny,pass}; x 5 packets realising every match combination; "
			ruleC += "tier shapes {2},{1,1},{2,1},{1,2} with 10 kinds per slot (allow, deny, pass, empty, staged allow, staged deny+pass-all, pass+allow-all, deny+pass-all, log-all+allow, allow+deny-all) and {2,2} with the first 7, x tier default actions Deny/Pass x 7 profile menus (none, allow, deny+allow, pass+allow-all, allow+deny-all, empty+allow, pass then allow); "
		} else {
			ruleA += "x action allow/deny/pass (next-tier/log for two matchers) x 3 placements (tier ending in deny; tier ending in pass + allow-all profile; profile + next profile; all 5 placements for two matchers) x ~30 boundary packets, IPv4 (ingress; egress for the first placement) and, for the IP-version-sensitive families, IPv6 ingress; "
			ruleB += "<= 2 rules and <= 2 policies in total over {tcp-dport-80, all} x {allow,deny,pass}, tier default action Deny/Pass (and unset for one-tier states), ingress (+ egress for <= 1 rule), x 5 packets; "
			ruleC += "tier shapes {2},{1,1},{2,1},{1,2} with 6 kinds per slot (allow, deny, pass, empty, staged allow, staged deny+pass-all) x tier default actions Deny/Pass x 4 profile menus (none, allow, deny+allow, pass+allow-all in one profile); "
		}
		c.Rule("states = endpoint policy states (IP sets + policies + profiles + workload endpoint as the calculation graph's proto messages) x direction x IP version, each built on the four real implementations; " +
			ruleA + ruleB + ruleC +
			fmt.Sprintf("level D (app-policy's stateful policystore): every history IPSetUpdate(S0) for every subset S0 of a 6-member NET pool (a /24, a /25 and a /31 inside it, two /32s in the same /24, one /32 outside; IPv4 and the IPv6 analogue) followed by every sequence of further events from {delta add m, delta remove m, IPSetUpdate(empty), IPSetUpdate(pool)} up to %d events in total, replayed into a fresh real store through ProcessUpdate; after the last step 13 boundary membership probes and 3 'allow from set' verdicts are compared with a reference set and with fresh stores given the final contents in one update (members ascending / descending); ", c.Pick(3, 4)) +
			"transitions = executions of one packet on one implementation (netfilter twice: clean mark / garbage mark); non-trivial = states for which both an allowed and a denied packet were observed")
		c.Assume("iptables/nftables verdict = what the rendered workload endpoint chain (cali-tw-/cali-fw-<iface>) does to a NEW-connection packet, for two initial marks (clean / garbage in the accept, pass and scratch bits); kernel IP sets are abstract membership tags computed from the set contents")
		c.Assume("BPF verdict = allow/deny tail call taken by the policy program (+ pol_rc), the rest of the BPF C dataplane is not involved; IP sets are real LPM-trie entries written with the real encoders")
		c.Assume("app-policy verdict = status of ALPCheckProvider.Check (ingress TCP/UDP) and the last rule of checker.Evaluate(EnforcedOnly) (allow iff it is an allow rule); IP set members reach the store in the form the policy-sync server sends them")
		c.Assume("rule features outside the common domain are not generated: ICMP type/code and HTTP/service-account matches (app-policy ignores / only app-policy implements them), SCTP named ports (BPF encoder drops them), packets of IP protocol 4 and UDP to the VXLAN port on egress (dropped by the iptables endpoint chain before policy)")

		if rf := c.ReplayFile(); rf != "" {
			var d c12Detail
			if err := vk.LoadReplay(rf, &d); err != nil {
				c.ToolError("replay: " + err.Error())
				return
			}
			if d.IPSetHistory != nil {
				var st c12HistStats
				c12RunHistory(c, c12HistDomain(d.IPSetHistory.IPV), d.IPSetHistory, &st, true)
				c.Add("states", 1)
				c.Add("transitions", st.steps+st.probes+st.verdicts)
				c.Sample(map[string]any{"history": d.IPSetHistory.sig()})
				return
			}
			w, err := k.newWorker()
			if err != nil {
				c.ToolError(err.Error())
				return
			}
			cs := &c12Case{Level: d.Level, Class: d.Class, State: d.State}
			if d.Packet != nil {
				cs.pkts = []*c12Pkt{d.Packet}
			} else {
				cs.pkts = c12Domain(d.State.IPV).featurePackets(true)
			}
			k.runCase(w, cs)
			c.Sample(map[string]any{"state": d.State.sig(), "packet": d.Packet})
			return
		}

		levels := os.Getenv("VERIF_C12_LEVELS")
		if levels == "" {
			levels = "ABCD"
		}
		if strings.Contains(levels, "D") {
			k.levelD()
		}
		if strings.Contains(levels, "A") {
			k.parallel("A:rule-features", k.levelA)
		}
		// the largest level last: if the deadline cuts the run short it cuts the tail of level B
		if strings.Contains(levels, "C") {
			k.parallel("C:saturated-shapes", k.levelC)
		}
		if strings.Contains(levels, "B") {
			k.parallel("B:small-states", k.levelB)
		}
		k.outMu.Lock()
		c.Extra("outcome_classes", k.outcomes)
		keys := make([]string, 0, len(k.outcomes))
		for o := range k.outcomes {
			keys = append(keys, o)
		}
		k.outMu.Unlock()
		sort.Strings(keys)
		fmt.Printf("INFO C12 states=%d executions=%d packets-compared=%d outcome-classes=%d\n", c.Get("states"), c.Get("transitions"), c.Get("evaluations"), len(keys))
	})
}

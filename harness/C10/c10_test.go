package rules_test

// C10 — workload / host-endpoint dispatch is exact and fails closed.
//
// Shape I + X: every set of interface names from a small pool built to collide (shared prefixes, names that
// are prefixes of other names, single-character suffixes, two workload prefixes, duplicate endpoints) is given
// to the REAL dispatch renderers (WorkloadDispatchChains + DispatchMappings, HostDispatchChains,
// FromHostDispatchChains, ToHostDispatchChains), for iptables (prefix-tree chains) and nftables (verdict
// maps through the real table layer). The rendered text is executed by nfsim for every probe interface.

import (
	"errors"
	"fmt"
	"sort"
	"strings"
	"sync"
	"testing"

	"github.com/projectcalico/calico/felix/generictables"
	"github.com/projectcalico/calico/felix/nftables"
	"github.com/projectcalico/calico/felix/proto"
	"github.com/projectcalico/calico/felix/rules"
	"github.com/projectcalico/calico/felix/types"
	"github.com/projectcalico/calico/zzverif/nfsim"
	"github.com/projectcalico/calico/zzverif/vk"
)

func c10WorkloadPool() []string {
	names := []string{"cali"}
	level := []string{"cali"}
	for d := 0; d < 3; d++ {
		var nxt []string
		for _, p := range level {
			for _, ch := range []string{"a", "b"} {
				nxt = append(nxt, p+ch)
			}
		}
		names = append(names, nxt...)
		level = nxt
	}
	// a second workload prefix: with it the common prefix of a set can be empty
	return append(names, "tapa", "tapab")
}

var c10WorkloadProbesExtra = []string{"calix", "calic", "caliaaaa", "cal", "c", "calia+", "calia*", "cali+", "cali*", "tap", "tapz", "tapabc", "eth0", "lo"}

// c10WorkloadPoolB: names whose distinguishing character (right after the common prefix) is punctuation that is
// legal-ish in interface names and stresses child-chain naming (_ . - : @), plus digits of mixed length.
func c10WorkloadPoolB() []string {
	names := []string{"tap"}
	for _, sep := range []string{"_", ".", "-", ":", "@"} {
		names = append(names, "tap"+sep+"a", "tap"+sep+"b")
	}
	return append(names, "cali1", "cali2", "cali10", "cali20")
}

var c10WorkloadProbesExtraB = []string{"tap_", "tap_c", "tap:", "tap:c", "tap@", "tap.ab", "tap-", "tapa", "cali", "cali3", "cali100", "cali1a", "cali_", "eth0"}

var c10HostPool = []string{"eth0", "eth1", "eth", "e"}
var c10HostPoolB = []string{"br@1", "br@2", "br:1", "br:2", "br_1", "br_2", "br.1", "br1", "br10"}
var c10HostProbesExtraB = []string{"br", "br@", "br@3", "br:", "br_", "br-1", "br2", "br100", "cali1", "tap_a", "lo"}
var c10HostProbesExtra = []string{"eth00", "et", "eth+", "eth*", "e+", "lo", "cali1", "tapx", "caliab"}

const c10Wildcard = "any-interface-at-all"

func c10IsWorkloadIface(n string) bool {
	return strings.HasPrefix(n, "cali") || strings.HasPrefix(n, "tap")
}

type c10Layout struct {
	Kind     string   // ipt | nft
	What     string   // workload | host | host-forward | host-from | host-to
	Names    []string // configured interface names (may contain a duplicate)
	Wildcard bool     // host: wildcard host endpoint configured
}

type c10Detail struct {
	Layout   c10Layout
	Dir      string // from | to
	Entry    string
	Probe    string
	Want     string
	Got      string
	Trace    []string
	Rendered []string
}

// subsets of pool with size <= k, in a fixed order
func c10Subsets(pool []string, k int) [][]string {
	var out [][]string
	var rec func(start int, cur []string)
	rec = func(start int, cur []string) {
		out = append(out, append([]string{}, cur...))
		if len(cur) == k {
			return
		}
		for i := start; i < len(pool); i++ {
			rec(i+1, append(cur, pool[i]))
		}
	}
	rec(0, nil)
	return out
}

type c10Stats struct{ evals, layouts int64 }

var c10Out vOutcomes

func c10Kind(k string) nfsim.Kind {
	if k == "nft" {
		return nfsim.Nft
	}
	return nfsim.Iptables
}

// c10Check evaluates one probe and compares with the expected verdict. want == "" means "statement silent".
func c10Check(c *vk.Ctx, rs *nfsim.Ruleset, b *nfsim.Builder, l c10Layout, dir, entryChain, probe, want, keyClass string, st *c10Stats) bool {
	pk := nfsim.Packet{IPVersion: 4, InIface: "other0", OutIface: "other1", Proto: nfsim.ProtoTCP, Mark: vMarkForeign}
	if dir == "from" {
		pk.InIface = probe
	} else {
		pk.OutIface = probe
	}
	entry := b.ChainName(entryChain)
	res, err := rs.Eval(entry, pk, false)
	st.evals++
	got := res.Verdict
	if err != nil {
		var ue *nfsim.UndefinedChainError
		if !errors.As(err, &ue) {
			c.ToolError(fmt.Sprintf("layout %s probe %s: %v", vk.JSON(l), probe, err))
			return false
		}
		got = "UNDEFINED-CHAIN:" + ue.Chain
	}
	c10Out.add(c, fmt.Sprintf("%s/%s/%s/%s", l.What, dir, keyClass, strings.SplitN(got, ":", 2)[0]))
	if want == "" || got == want {
		return true
	}
	resT, _ := rs.Eval(entry, pk, true)
	cls := "wrong-chain"
	switch {
	case strings.HasPrefix(want, "CHAIN:") && !strings.HasPrefix(got, "CHAIN:") && strings.HasPrefix(keyClass, "unknown-wildcard"):
		cls = "not-sent-to-wildcard-endpoint"
	case strings.HasPrefix(want, "CHAIN:") && !strings.HasPrefix(got, "CHAIN:"):
		cls = "known-iface-not-dispatched"
	case want == "DROP":
		cls = "unknown-iface-not-dropped"
	case want == "RETURN":
		cls = "dispatched-without-endpoint"
	}
	c.Violation("C10:"+l.Kind+":"+l.What+":"+dir+":"+cls+":"+keyClass,
		c10Detail{Layout: l, Dir: dir, Entry: entry, Probe: probe, Want: want, Got: got, Trace: resT.Trace, Rendered: b.Lines()})
	return true
}

func c10RunWorkload(c *vk.Ctx, kind string, names []string, probes []string, st *c10Stats) bool {
	k := c10Kind(kind)
	rr := vRenderer(k, false)
	eps := map[types.WorkloadEndpointID]*proto.WorkloadEndpoint{}
	for i, n := range names {
		eps[types.WorkloadEndpointID{OrchestratorId: "k8s", WorkloadId: fmt.Sprintf("w%d", i), EndpointId: "eth0"}] = &proto.WorkloadEndpoint{Name: n}
	}
	l := c10Layout{Kind: kind, What: "workload", Names: names}
	var chains []*generictables.Chain
	if err := vk.Catch(func() error { chains = rr.WorkloadDispatchChains(eps); return nil }); err != nil {
		c.Violation("C10:"+kind+":workload:renderer-panic", map[string]any{"layout": l, "error": err.Error()})
		return true
	}
	b := nfsim.NewBuilder(k, 4, "filter")
	b.Table().UpdateChains(chains)
	if k == nfsim.Nft {
		from, to := rr.DispatchMappings(eps)
		b.Maps().AddOrReplaceMap(nftables.MapMetadata{Name: rules.NftablesFromWorkloadDispatchMap, Type: nftables.MapTypeInterfaceMatch}, from)
		b.Maps().AddOrReplaceMap(nftables.MapMetadata{Name: rules.NftablesToWorkloadDispatchMap, Type: nftables.MapTypeInterfaceMatch}, to)
	}
	rs, err := b.Ruleset()
	if err != nil {
		if le, tool := vClassify(err); tool != nil {
			c.ToolError(fmt.Sprintf("layout %s: %v", vk.JSON(l), tool))
			return false
		} else {
			c.Violation("C10:"+kind+":workload:unloadable-"+le.Class, map[string]any{"layout": l, "error": le.Error(), "rendered": b.Lines()})
			return true
		}
	}
	// every per-endpoint chain that could be named is a leaf: a wrong dispatch is then visible as CHAIN:<other>
	for _, p := range probes {
		rs.Leaves[b.ChainName(rules.EndpointChainName(rules.WorkloadFromEndpointPfx, p, vMaxChainLen(k)))] = true
		rs.Leaves[b.ChainName(rules.EndpointChainName(rules.WorkloadToEndpointPfx, p, vMaxChainLen(k)))] = true
	}
	known := map[string]bool{}
	for _, n := range names {
		known[n] = true
	}
	st.layouts++
	for _, dir := range []string{"from", "to"} {
		entry, pfx := rules.ChainFromWorkloadDispatch, rules.WorkloadFromEndpointPfx
		if dir == "to" {
			entry, pfx = rules.ChainToWorkloadDispatch, rules.WorkloadToEndpointPfx
		}
		for _, p := range probes {
			want, cls := "", "non-workload-iface"
			switch {
			case known[p]:
				want, cls = "CHAIN:"+b.ChainName(rules.EndpointChainName(pfx, p, vMaxChainLen(k))), "known"
			case c10IsWorkloadIface(p):
				want, cls = "DROP", "unknown-workload-iface"
			}
			if !c10Check(c, rs, b, l, dir, entry, p, want, cls, st) {
				return false
			}
		}
	}
	return true
}

func c10RunHost(c *vk.Ctx, kind, what string, names []string, wildcard bool, probes []string, st *c10Stats) bool {
	k := c10Kind(kind)
	rr := vRenderer(k, false)
	eps := map[string]types.HostEndpointID{}
	for _, n := range names {
		eps[n] = types.HostEndpointID{EndpointId: "hep-" + n}
	}
	def := ""
	if wildcard {
		def = c10Wildcard
	}
	l := c10Layout{Kind: kind, What: what, Names: names, Wildcard: wildcard}
	var chains []*generictables.Chain
	if err := vk.Catch(func() error {
		switch what {
		case "host":
			chains = rr.HostDispatchChains(eps, def, false)
		case "host-forward":
			chains = rr.HostDispatchChains(eps, def, true)
		case "host-from":
			chains = rr.FromHostDispatchChains(eps, def)
		case "host-to":
			chains = rr.ToHostDispatchChains(eps, def)
		}
		return nil
	}); err != nil {
		c.Violation("C10:"+kind+":"+what+":renderer-panic", map[string]any{"layout": l, "error": err.Error()})
		return true
	}
	b := nfsim.NewBuilder(k, 4, "filter")
	b.Table().UpdateChains(chains)
	rs, err := b.Ruleset()
	if err != nil {
		if le, tool := vClassify(err); tool != nil {
			c.ToolError(fmt.Sprintf("layout %s: %v", vk.JSON(l), tool))
			return false
		} else {
			c.Violation("C10:"+kind+":"+what+":unloadable-"+le.Class, map[string]any{"layout": l, "error": le.Error(), "rendered": b.Lines()})
			return true
		}
	}
	allPfx := []string{rules.HostFromEndpointPfx, rules.HostToEndpointPfx, rules.HostFromEndpointForwardPfx, rules.HostToEndpointForwardPfx}
	for _, p := range append(append([]string{}, probes...), c10Wildcard) {
		for _, pfx := range allPfx {
			rs.Leaves[b.ChainName(rules.EndpointChainName(pfx, p, vMaxChainLen(k)))] = true
		}
	}
	known := map[string]bool{}
	for _, n := range names {
		known[n] = true
	}
	type ent struct{ dir, chain, pfx string }
	var entries []ent
	switch what {
	case "host":
		entries = []ent{{"from", rules.ChainDispatchFromHostEndpoint, rules.HostFromEndpointPfx}, {"to", rules.ChainDispatchToHostEndpoint, rules.HostToEndpointPfx}}
	case "host-forward":
		entries = []ent{{"from", rules.ChainDispatchFromHostEndpoint, rules.HostFromEndpointPfx}, {"to", rules.ChainDispatchToHostEndpoint, rules.HostToEndpointPfx},
			{"from", rules.ChainDispatchFromHostEndPointForward, rules.HostFromEndpointForwardPfx}, {"to", rules.ChainDispatchToHostEndpointForward, rules.HostToEndpointForwardPfx}}
	case "host-from":
		entries = []ent{{"from", rules.ChainDispatchFromHostEndpoint, rules.HostFromEndpointPfx}}
	case "host-to":
		entries = []ent{{"to", rules.ChainDispatchToHostEndpoint, rules.HostToEndpointPfx}}
	}
	st.layouts++
	for _, e := range entries {
		if rs.Chains[b.ChainName(e.chain)] == nil {
			c.Violation("C10:"+kind+":"+what+":dispatch-chain-missing", map[string]any{"layout": l, "chain": e.chain, "rendered": b.Lines()})
			continue
		}
		for _, p := range probes {
			var want, cls string
			switch {
			case known[p]:
				want, cls = "CHAIN:"+b.ChainName(rules.EndpointChainName(e.pfx, p, vMaxChainLen(k))), "known"
			case !wildcard:
				// no wildcard host endpoint: nothing else may be dispatched anywhere
				want, cls = "RETURN", "unknown-no-wildcard"
			case e.dir == "to" && c10IsWorkloadIface(p):
				// traffic leaving through a local workload interface: the renderer deliberately skips the
				// wildcard HEP's egress policy in some variants; the statement does not settle it
				want, cls = "", "unknown-to-workload-iface"
			default:
				want, cls = "CHAIN:"+b.ChainName(rules.EndpointChainName(e.pfx, c10Wildcard, vMaxChainLen(k))), "unknown-wildcard"
			}
			if !c10Check(c, rs, b, l, e.dir, e.chain, p, want, cls+"@"+strings.TrimPrefix(e.chain, rules.ChainNamePrefix), st) {
				return false
			}
		}
	}
	return true
}

func TestVerif_C10(t *testing.T) {
	vk.Run(t, "C10", func(c *vk.Ctx) {
		vQuiet()
		if !vSelfTest(c) {
			return
		}
		c.Rule("states = (dataplane, dispatch renderer, set of configured interface names [, wildcard HEP]) layouts rendered by the real code; " +
			"transitions = probe interface names executed through the rendered dispatch chains / verdict maps by nfsim (both directions); " +
			"workload names: pool A = cali+{a,b}^0..3 plus tapa,tapab; pool B = tap, tap{_ . - : @}{a,b}, cali1, cali2, cali10, cali20 (punctuation / mixed-length digits right after the common prefix); every subset of each pool up to the bound plus each subset with one endpoint duplicated; " +
			"host names: every subset of {eth0,eth1,eth,e} and every subset (<=4 quick, <=5 thorough) of {br@1,br@2,br:1,br:2,br_1,br_2,br.1,br1,br10} x wildcard x {normal, apply-on-forward, from-only, to-only}; non-trivial = layouts with >= 2 names sharing a prefix")
		c.Assume("history mode drives the real nftables table the way the endpoint manager does (endpoint chains removed/added, dispatch chains updated, both verdict maps replaced, one Apply per step) on sigs.k8s.io/knftables' Fake; the fake's transaction semantics are trusted")
		c.Assume("per-endpoint chains are leaves (reaching one ends the evaluation); IPv4 rendering only: dispatch chains do not depend on the IP version")
		c.Assume("for interfaces that match no workload prefix the workload dispatch chains' behaviour is not constrained by the statement (they are only entered for workload-prefixed interfaces); " +
			"egress towards a workload interface through the host dispatch chains with a wildcard HEP is accepted either way")

		type namePool struct {
			names  []string
			probes []string
			max    int
		}
		poolA, poolB := c10WorkloadPool(), c10WorkloadPoolB()
		maxSet := c.Pick(4, 6)
		wlPools := []namePool{
			{poolA, append(append([]string{}, poolA...), c10WorkloadProbesExtra...), maxSet},
			{poolB, append(append([]string{}, poolB...), c10WorkloadProbesExtraB...), maxSet},
		}
		hostPools := []namePool{
			{c10HostPool, append(append([]string{}, c10HostPool...), c10HostProbesExtra...), len(c10HostPool)},
			{c10HostPoolB, append(append([]string{}, c10HostPoolB...), c10HostProbesExtraB...), c.Pick(4, 5)},
		}
		// replay: all probes of both pools
		wlProbes := c10UniqStr(append(append([]string{}, wlPools[0].probes...), wlPools[1].probes...))
		hostProbes := c10UniqStr(append(append([]string{}, hostPools[0].probes...), hostPools[1].probes...))

		var freshMu sync.Mutex
		freshCache := map[string]*c10Programmed{}
		fresh := func(names []string) (*c10Programmed, error) {
			k := strings.Join(names, ",")
			freshMu.Lock()
			defer freshMu.Unlock()
			if p := freshCache[k]; p != nil {
				return p, nil
			}
			var p *c10Programmed
			err := vk.Catch(func() error {
				in := c10NewInst()
				in.step(names)
				var e error
				p, e = in.programmed()
				return e
			})
			if err == nil {
				freshCache[k] = p
			}
			return p, err
		}

		if rf := c.ReplayFile(); rf != "" {
			var hd c10HistDetail
			if err := vk.LoadReplay(rf, &hd); err == nil && len(hd.History) > 0 {
				var st c10Stats
				c10RunHistory(c, hd.History, fresh, &st)
				c.Add("states", st.layouts)
				c.Add("transitions", st.evals)
				c.Sample(hd.History)
				return
			}
			var d c10Detail
			if err := vk.LoadReplay(rf, &d); err != nil {
				c.ToolError("replay: " + err.Error())
				return
			}
			var st c10Stats
			if d.Layout.What == "workload" {
				c10RunWorkload(c, d.Layout.Kind, d.Layout.Names, wlProbes, &st)
			} else {
				c10RunHost(c, d.Layout.Kind, d.Layout.What, d.Layout.Names, d.Layout.Wildcard, hostProbes, &st)
			}
			c.Add("states", st.layouts)
			c.Add("transitions", st.evals)
			c.Sample(d.Layout)
			return
		}

		type job func(st *c10Stats) bool
		var jobs []job
		for _, kind := range []string{"ipt", "nft"} {
			kind := kind
			for _, wp := range wlPools {
				wlProbes := wp.probes
				for _, names := range c10Subsets(wp.names, wp.max) {
					names := names
					jobs = append(jobs, func(st *c10Stats) bool { return c10RunWorkload(c, kind, names, wlProbes, st) })
					if len(names) >= 2 {
						c.Nontrivial(kind + "|wl|" + strings.Join(names, ","))
					}
					if len(names) >= 1 {
						// the same set with one interface owned by two endpoints (every choice of the duplicated name)
						for _, dup := range names {
							dn := append(append([]string{}, names...), dup)
							sort.Strings(dn)
							jobs = append(jobs, func(st *c10Stats) bool { return c10RunWorkload(c, kind, dn, wlProbes, st) })
						}
					}
				}
			}
			for _, what := range []string{"host", "host-forward", "host-from", "host-to"} {
				what := what
				for _, hp := range hostPools {
					hostProbes := hp.probes
					for _, names := range c10Subsets(hp.names, hp.max) {
						names := names
						for _, wc := range []bool{false, true} {
							wc := wc
							jobs = append(jobs, func(st *c10Stats) bool { return c10RunHost(c, kind, what, names, wc, hostProbes, st) })
							if len(names) >= 2 {
								c.Nontrivial(fmt.Sprintf("%s|%s|%v|%s", kind, what, wc, strings.Join(names, ",")))
							}
						}
					}
				}
			}
		}
		// nft short-history mode: one real stateful table instance per history
		histLen := c.Pick(3, 4)
		hists := c10Histories(histLen)
		for _, h := range hists {
			h := h
			jobs = append(jobs, func(st *c10Stats) bool { return c10RunHistory(c, h, fresh, st) })
			if len(h) >= 2 {
				c.Nontrivial("hist|" + vk.JSON(h))
			}
		}
		c.Extra("nft_histories", len(hists))
		c.Extra("nft_history_max_len", histLen)
		c.Sample(map[string]any{"kind": "nft", "what": "history", "history": [][]string{{"cali1", "calia"}, {}, {"cali1"}}, "probes": c10HistProbes})
		c.Sample(map[string]any{"kind": "ipt", "what": "workload", "names": []string{"cali", "calia", "caliab", "tapa"}, "probes": wlProbes})
		c.Sample(map[string]any{"kind": "nft", "what": "host-forward", "names": []string{"e", "eth", "eth0"}, "wildcard": true, "probes": hostProbes})

		ch := make(chan job, 64)
		var wg sync.WaitGroup
		var mu sync.Mutex
		var total c10Stats
		stop := false
		for w := 0; w < 6; w++ {
			wg.Add(1)
			go func() {
				defer wg.Done()
				for j := range ch {
					mu.Lock()
					s := stop
					mu.Unlock()
					if s {
						continue
					}
					if c.Expired() {
						c.Capped("deadline reached before all layouts were explored")
						mu.Lock()
						stop = true
						mu.Unlock()
						continue
					}
					var st c10Stats
					ok := j(&st)
					mu.Lock()
					if !ok {
						stop = true
					}
					total.evals += st.evals
					total.layouts += st.layouts
					mu.Unlock()
				}
			}()
		}
		for _, j := range jobs {
			ch <- j
		}
		close(ch)
		wg.Wait()
		c.Add("states", total.layouts)
		c.Add("transitions", total.evals)
		c.Extra("max_workload_set_size", maxSet)
		c10Out.publish(c)
		fmt.Printf("INFO C10 layouts=%d probes executed=%d\n", total.layouts, total.evals)
	})
}

func c10UniqStr(in []string) []string {
	seen := map[string]bool{}
	var out []string
	for _, x := range in {
		if !seen[x] {
			seen[x] = true
			out = append(out, x)
		}
	}
	return out
}

package rules_test

// C10, short-history mode for the nftables path.
//
// The verdict-map dispatch is programmed through STATEFUL layers (rules.DispatchMappings ->
// nftables table layer -> real nftables.Maps / NftablesTable with delta trackers and chain reference
// counts -> knftables). Rendering every name set into a fresh layer (c10RunWorkload) cannot see state that
// survives from an earlier name set, so here sequences of name sets are applied to ONE real
// nftables.NewTable(...) instance running on the knftables fake dataplane, the way the endpoint manager
// drives it (endpoint chains added/removed, dispatch chains updated, both verdict maps replaced, Apply()).
// After every step the content of the fake dataplane (map elements, dispatch-chain rules, chains) is
// compared with a FRESH instance driven straight to the same name set (differential oracle), and the probe
// interfaces are executed by nfsim over what is actually programmed (absolute oracle).

import (
	"context"
	"fmt"
	"sort"
	"strings"
	"time"

	"sigs.k8s.io/knftables"

	"github.com/projectcalico/calico/felix/environment"
	"github.com/projectcalico/calico/felix/generictables"
	"github.com/projectcalico/calico/felix/nftables"
	"github.com/projectcalico/calico/felix/proto"
	"github.com/projectcalico/calico/felix/rules"
	"github.com/projectcalico/calico/felix/types"
	"github.com/projectcalico/calico/lib/logrusr"
	"github.com/projectcalico/calico/zzverif/nfsim"
	"github.com/projectcalico/calico/zzverif/vk"
)

type c10FD struct{}

func (c10FD) GetFeatures() *environment.Features { return nfsim.DefaultFeatures }
func (c10FD) RefreshFeatures()                   {}
func (c10FD) FeatureGate(string) string          { return "" }

var c10HistPool = []string{"cali1", "cali2", "calia"}
var c10HistProbes = []string{"cali1", "cali2", "calia", "cali", "cali3", "cali10", "calib", "eth0"}

type c10Inst struct {
	fake   *knftables.Fake
	table  *nftables.NftablesTable
	layer  generictables.Table
	maps   nftables.MapsDataplane
	rr     *rules.DefaultRuleRenderer
	cur    map[string][]*generictables.Chain // interface name -> its endpoint chains as handed to the table
	marker rules.EndpointMarkMapper
}

func c10NewInst() *c10Inst {
	in := &c10Inst{rr: vRenderer(nfsim.Nft, false), cur: map[string][]*generictables.Chain{}, marker: rules.NewEndpointMarkMapper(vMarkEndpoint, vMarkNonCali)}
	nd := func(fam knftables.Family, name string, _ ...knftables.Option) (knftables.Interface, error) {
		in.fake = knftables.NewFake(fam, name)
		return in.fake, nil
	}
	in.table = nftables.NewTable("calico", 4, "cali:", c10FD{}, nftables.TableOptions{
		NewDataplane:           nd,
		LookPathOverride:       func(p string) (string, error) { return p, nil },
		SleepOverride:          func(time.Duration) {},
		ListInterfacesOverride: func() ([]string, error) { return nil, nil },
		OpRecorder:             logrusr.NewSummarizer("c10"),
	}, true)
	tl := nftables.NewTableLayer("filter", in.table)
	in.layer = tl
	in.maps = tl.(nftables.MapsDataplane)
	// The table only programs chains that are referenced from a base chain: hook the two dispatch chains
	// into the FORWARD base chain (stands in for cali-FORWARD of the static chains).
	in.layer.InsertOrAppendRules("FORWARD", []generictables.Rule{
		{Match: in.rr.NewMatch(), Action: in.rr.Jump(rules.ChainFromWorkloadDispatch)},
		{Match: in.rr.NewMatch(), Action: in.rr.Jump(rules.ChainToWorkloadDispatch)},
	})
	return in
}

// step moves the instance to the name set, in the order the endpoint manager uses: per-endpoint chains first
// (removed endpoints' chains removed, new ones added), then dispatch chains, then both verdict maps, then Apply.
func (in *c10Inst) step(names []string) {
	want := map[string]bool{}
	for _, n := range names {
		want[n] = true
	}
	for n, chains := range in.cur {
		if !want[n] {
			in.layer.RemoveChains(chains)
			delete(in.cur, n)
		}
	}
	eps := map[types.WorkloadEndpointID]*proto.WorkloadEndpoint{}
	for i, n := range names {
		eps[types.WorkloadEndpointID{OrchestratorId: "k8s", WorkloadId: "w" + n, EndpointId: fmt.Sprint(i)}] = &proto.WorkloadEndpoint{Name: n}
		if in.cur[n] == nil {
			chains := in.rr.WorkloadEndpointToIptablesChains(n, in.marker, true, nil, nil, nil)
			in.layer.UpdateChains(chains)
			in.cur[n] = chains
		}
	}
	in.layer.UpdateChains(in.rr.WorkloadDispatchChains(eps))
	from, to := in.rr.DispatchMappings(eps)
	in.maps.AddOrReplaceMap(nftables.MapMetadata{Name: rules.NftablesFromWorkloadDispatchMap, Type: nftables.MapTypeInterfaceMatch}, from)
	in.maps.AddOrReplaceMap(nftables.MapMetadata{Name: rules.NftablesToWorkloadDispatchMap, Type: nftables.MapTypeInterfaceMatch}, to)
	in.table.Apply()
}

type c10Programmed struct {
	Maps     map[string][]string // map name -> sorted "key -> value"
	Dispatch map[string][]string // dispatch chain -> rule bodies
	Chains   []string            // our chains present in the dataplane (cali ones)
}

func (in *c10Inst) programmed() (*c10Programmed, error) {
	ctx := context.Background()
	p := &c10Programmed{Maps: map[string][]string{}, Dispatch: map[string][]string{}}
	mapNames, err := in.fake.List(ctx, "map")
	if err != nil {
		return nil, err
	}
	sort.Strings(mapNames)
	for _, m := range mapNames {
		els, err := in.fake.ListElements(ctx, "map", m)
		if err != nil {
			return nil, err
		}
		out := []string{}
		for _, e := range els {
			out = append(out, strings.Join(e.Key, " . ")+" -> "+strings.Join(e.Value, " "))
		}
		sort.Strings(out)
		p.Maps[m] = out
	}
	chains, err := in.fake.List(ctx, "chain")
	if err != nil {
		return nil, err
	}
	sort.Strings(chains)
	for _, ch := range chains {
		if !strings.HasPrefix(ch, "filter-cali-") {
			continue
		}
		p.Chains = append(p.Chains, ch)
		if ch == "filter-"+rules.ChainFromWorkloadDispatch || ch == "filter-"+rules.ChainToWorkloadDispatch {
			rs, err := in.fake.ListRules(ctx, ch)
			if err != nil {
				return nil, err
			}
			body := []string{}
			for _, r := range rs {
				body = append(body, r.Rule)
			}
			p.Dispatch[ch] = body
		}
	}
	return p, nil
}

// ruleset builds what nfsim executes from what is PROGRAMMED (not from what was requested).
func (p *c10Programmed) ruleset() (*nfsim.Ruleset, error) {
	rs := nfsim.New(nfsim.Nft)
	rs.Family = 4
	for ch, body := range p.Dispatch {
		rs.EnsureChain(ch)
		for _, r := range body {
			if err := rs.AddNftRule(ch, r); err != nil {
				return nil, err
			}
		}
	}
	for m, els := range p.Maps {
		mem := map[string][]string{}
		for _, e := range els {
			k, v, _ := strings.Cut(e, " -> ")
			mem[k] = []string{v}
		}
		if err := rs.AddNftMap(m, mem); err != nil {
			return nil, err
		}
	}
	for _, ch := range p.Chains {
		if strings.HasPrefix(ch, "filter-"+rules.WorkloadFromEndpointPfx) || strings.HasPrefix(ch, "filter-"+rules.WorkloadToEndpointPfx) {
			rs.Leaves[ch] = true
		}
	}
	return rs, nil
}

type c10HistDetail struct {
	History    [][]string
	Step       int
	What       string
	Programmed *c10Programmed
	Fresh      *c10Programmed `json:",omitempty"`
	Probe      string         `json:",omitempty"`
	Dir        string         `json:",omitempty"`
	Want, Got  string         `json:",omitempty"`
}

// c10RunHistory replays one history on a fresh instance and checks every step.
func c10RunHistory(c *vk.Ctx, hist [][]string, fresh func(names []string) (*c10Programmed, error), st *c10Stats) bool {
	var in *c10Inst
	var last *c10Programmed
	err := vk.Catch(func() error {
		in = c10NewInst()
		for _, s := range hist[:len(hist)-1] {
			in.step(s)
		}
		// only the last step needs checking: every prefix is a history of its own
		in.step(hist[len(hist)-1])
		var e error
		last, e = in.programmed()
		return e
	})
	if err != nil {
		c.Violation("C10:nft:history:panic-or-dataplane-error", map[string]any{"history": hist, "error": err.Error()})
		return true
	}
	st.layouts++
	names := hist[len(hist)-1]
	ref, err := fresh(names)
	if err != nil {
		c.ToolError("fresh instance: " + err.Error())
		return false
	}
	for what, pair := range map[string][2]any{"map-elements": {last.Maps, ref.Maps}, "dispatch-chain-rules": {last.Dispatch, ref.Dispatch}, "chains": {last.Chains, ref.Chains}} {
		if vk.JSON(pair[0]) != vk.JSON(pair[1]) {
			c.Violation("C10:nft:history:programmed-"+what+"-differ-from-fresh-instance", c10HistDetail{History: hist, Step: len(hist), What: what, Programmed: last, Fresh: ref})
		}
	}
	rs, err := last.ruleset()
	if err != nil {
		c.ToolError(fmt.Sprintf("history %v: %v", hist, err))
		return false
	}
	known := map[string]bool{}
	for _, n := range names {
		known[n] = true
	}
	for _, dir := range []string{"from", "to"} {
		entry, pfx := "filter-"+rules.ChainFromWorkloadDispatch, rules.WorkloadFromEndpointPfx
		if dir == "to" {
			entry, pfx = "filter-"+rules.ChainToWorkloadDispatch, rules.WorkloadToEndpointPfx
		}
		for _, probe := range c10HistProbes {
			pk := nfsim.Packet{IPVersion: 4, InIface: "other0", OutIface: "other1", Proto: nfsim.ProtoTCP}
			if dir == "from" {
				pk.InIface = probe
			} else {
				pk.OutIface = probe
			}
			res, err := rs.Eval(entry, pk, false)
			st.evals++
			got := res.Verdict
			if err != nil {
				got = "ERROR:" + err.Error()
			}
			want := ""
			switch {
			case known[probe]:
				want = "CHAIN:filter-" + rules.EndpointChainName(pfx, probe, vMaxChainLen(nfsim.Nft))
			case c10IsWorkloadIface(probe):
				want = "DROP"
			}
			c10Out.add(c, fmt.Sprintf("history/%s/known=%v/%s", dir, known[probe], strings.SplitN(got, ":", 2)[0]))
			if want != "" && got != want {
				cls := "known-iface-not-dispatched"
				if !known[probe] {
					cls = "unknown-iface-not-dropped"
				}
				c.Violation("C10:nft:history:"+dir+":"+cls, c10HistDetail{History: hist, Step: len(hist), What: "probe", Programmed: last, Probe: probe, Dir: dir, Want: want, Got: got})
			}
		}
	}
	return true
}

// c10Histories: every sequence of name sets (all subsets of the pool, the empty set included; shrink, grow,
// identical re-add all arise) of length 1..maxLen.
func c10Histories(maxLen int) [][][]string {
	sets := c10Subsets(c10HistPool, len(c10HistPool))
	var out [][][]string
	var rec func(cur [][]string)
	rec = func(cur [][]string) {
		if len(cur) > 0 {
			out = append(out, append([][]string{}, cur...))
		}
		if len(cur) == maxLen {
			return
		}
		for _, s := range sets {
			rec(append(cur, s))
		}
	}
	rec(nil)
	return out
}

package polprog

// C13 — Go and kernel-program views of shared BPF data structures agree.
//
// Finite and exhaustive: the C side is the REAL felix/bpf-gpl headers compiled by clang -target bpf
// (IPv4 and IPv6 builds) into a layout probe (tools/build_bpf.sh + tools/bpf_layout.spec); the Go
// side is the REAL code: polprog's hand-maintained offsets (in-package), the state.State mirror
// struct (reflection), and every map key/value encoder/decoder exercised with distinct sentinel
// values in both directions (Go constructor -> bytes read with the C layout; bytes laid out with
// the C layout -> Go accessors).

import (
	"bytes"
	"encoding/binary"
	"fmt"
	"net"
	"os"
	"reflect"
	"sort"
	"strings"
	"testing"
	"time"
	"unsafe"

	"github.com/projectcalico/calico/felix/bpf/conntrack"
	"github.com/projectcalico/calico/felix/bpf/conntrack/cleanupv1"
	ctv4 "github.com/projectcalico/calico/felix/bpf/conntrack/v4"
	"github.com/projectcalico/calico/felix/bpf/events"
	"github.com/projectcalico/calico/felix/bpf/ipsets"
	"github.com/projectcalico/calico/felix/bpf/nat"
	"github.com/projectcalico/calico/felix/bpf/state"
	"github.com/projectcalico/calico/felix/ip"
	"github.com/projectcalico/calico/zzverif/ebpf"
	"github.com/projectcalico/calico/zzverif/vk"
)

type c13 struct {
	c     *vk.Ctx
	l     map[int]*ebpf.Layout // 4, 6
	used  map[string]bool      // probe symbols consumed by some comparison
	stray []string
}

// cname turns a spec name into the probe symbol suffix.
func cname(n string) string { return strings.ReplaceAll(n, ".", "__") }

func (k *c13) val(ver int, kind, name string) int {
	sym := kind + "_" + cname(name)
	v, err := k.l[ver].Get(sym)
	if err != nil {
		panic("tool: " + err.Error())
	}
	k.used[sym] = true
	return int(v)
}
func (k *c13) off(ver int, name string) int    { return k.val(ver, "O", name) }
func (k *c13) fsize(ver int, name string) int  { return k.val(ver, "Z", name) }
func (k *c13) sizeof(ver int, name string) int { return k.val(ver, "S", name) }
func (k *c13) konst(ver int, name string) int  { return k.val(ver, "K", name) }

func (k *c13) viol(key string, detail map[string]any) {
	k.c.Violation("C13:"+key, detail)
}

// one comparison = one state + one evaluation
func (k *c13) cmp(ver int, what, class string, goV, cV int, extra string) {
	k.c.Add("states", 1)
	k.c.Add("transitions", 1)
	k.c.Nontrivial(fmt.Sprintf("v%d|%s|%s", ver, what, class))
	if goV != cV {
		k.c.Outcome("mismatch")
		k.viol(fmt.Sprintf("v%d:%s:%s", ver, what, class), map[string]any{"ip_version": ver, "what": what, "class": class, "go": goV, "c": cV, "note": extra})
	} else {
		k.c.Outcome("agree:" + class)
	}
}

// encodes checks that the bytes produced by a Go encoder carry every sentinel at the place (offset
// and size) the C definition gives the field, that the total size agrees and that no other byte is set.
func (k *c13) encodes(ver int, what, cstruct string, got []byte, want map[string][]byte) {
	k.cmp(ver, what, "sizeof", len(got), k.sizeof(ver, cstruct), "encoder output length vs sizeof(C struct)")
	covered := make([]bool, len(got))
	names := make([]string, 0, len(want))
	for f := range want {
		names = append(names, f)
	}
	sort.Strings(names)
	for _, f := range names {
		w := want[f]
		o, z := k.off(ver, cstruct+"."+f), k.fsize(ver, cstruct+"."+f)
		k.c.Add("states", 1)
		k.c.Add("transitions", 1)
		k.c.Nontrivial(fmt.Sprintf("v%d|%s|enc|%s", ver, what, f))
		if len(w) > z || o+len(w) > len(got) {
			k.c.Outcome("mismatch")
			k.viol(fmt.Sprintf("v%d:%s.%s:encode-size", ver, what, f), map[string]any{"go_bytes": len(w), "c_size": z, "c_off": o, "len": len(got)})
			continue
		}
		for i := range w {
			covered[o+i] = true
		}
		if !bytes.Equal(got[o:o+len(w)], w) {
			k.c.Outcome("mismatch")
			k.viol(fmt.Sprintf("v%d:%s.%s:encode", ver, what, f), map[string]any{
				"ip_version": ver, "encoder": what, "field": f, "c_offset": o, "c_size": z,
				"want_at_c_offset": fmt.Sprintf("%x", w), "got_at_c_offset": fmt.Sprintf("%x", got[o:o+len(w)]), "encoded": fmt.Sprintf("%x", got)})
		} else {
			k.c.Outcome("agree:encode")
		}
	}
	// Bytes outside every named C field (padding): the property speaks about fields only, so a
	// non-zero padding byte is reported for information and not judged.
	for i, b := range got {
		if !covered[i] && b != 0 {
			k.stray = append(k.stray, fmt.Sprintf("v%d %s writes %#x at offset %d, which is not inside any field it sets (padding?)", ver, what, b, i))
			break
		}
	}
}

// cblob lays sentinels out according to the C definition.
func (k *c13) cblob(ver int, cstruct string, set map[string][]byte) []byte {
	b := make([]byte, k.sizeof(ver, cstruct))
	for f, w := range set {
		o, z := k.off(ver, cstruct+"."+f), k.fsize(ver, cstruct+"."+f)
		if len(w) > z {
			panic(fmt.Sprintf("tool: sentinel for %s.%s is %d bytes, C field is %d", cstruct, f, len(w), z))
		}
		copy(b[o:], w)
	}
	return b
}

// decodes compares what a Go accessor returned for a C-laid-out blob with the sentinel.
func (k *c13) decodes(ver int, what, field string, got, want any) {
	k.c.Add("states", 1)
	k.c.Add("transitions", 1)
	k.c.Nontrivial(fmt.Sprintf("v%d|%s|dec|%s", ver, what, field))
	g, w := fmt.Sprintf("%v", got), fmt.Sprintf("%v", want)
	if gb, ok := got.([]byte); ok {
		g, w = fmt.Sprintf("%x", gb), fmt.Sprintf("%x", want)
	}
	if g != w {
		k.c.Outcome("mismatch")
		k.viol(fmt.Sprintf("v%d:%s.%s:decode", ver, what, field), map[string]any{"ip_version": ver, "decoder": what, "field": field, "go_read": g, "c_laid_out": w})
	} else {
		k.c.Outcome("agree:decode")
	}
}

func le16(v uint16) []byte { return binary.LittleEndian.AppendUint16(nil, v) }
func le32(v uint32) []byte { return binary.LittleEndian.AppendUint32(nil, v) }
func le64(v uint64) []byte { return binary.LittleEndian.AppendUint64(nil, v) }
func be64(v uint64) []byte { return binary.BigEndian.AppendUint64(nil, v) }

// distinct sentinel addresses
func sip(ver int, tag byte) net.IP {
	if ver == 4 {
		return net.IP{tag, tag + 1, tag + 2, tag + 3}
	}
	b := make(net.IP, 16)
	for i := range b {
		b[i] = tag + byte(i)
	}
	return b
}

func TestVerif_C13(t *testing.T) {
	vk.Run(t, "C13", func(c *vk.Ctx) {
		if err := ebpf.SelfTest(); err != nil {
			c.ToolError("ebpf self-test: " + err.Error())
			return
		}
		dir, err := bpfBuild("C13")
		if err != nil {
			c.ToolError(err.Error())
			return
		}
		defer bpfCleanup(dir)
		v4, v6, err := loadLayouts(dir)
		if err != nil {
			c.ToolError(err.Error())
			return
		}
		if err := ebpf.SelfTestELF(dir + "/selftest.o"); err != nil {
			c.ToolError(err.Error())
			return
		}
		k := &c13{c: c, l: map[int]*ebpf.Layout{4: v4, 6: v6}, used: map[string]bool{}}
		c.Rule("one case per (IP version, shared structure, field, direction): C offsetof/sizeof from the clang layout probe over the real bpf-gpl headers vs the Go constant / mirror-struct field / encoder output / accessor result; sentinels are pairwise distinct so a shifted or swapped field cannot go unnoticed; every case is non-trivial")
		c.Assume("little-endian host and BPF target; clang 14 -target bpf lays structs out like the clang that builds the shipped objects")
		c.Assume("byte order inside a field is not part of the property (only offset and size): sentinels are chosen so that the documented NBO/HBO convention of each field is respected")
		func() {
			defer func() {
				if r := recover(); r != nil {
					if s, ok := r.(string); ok && strings.HasPrefix(s, "tool: ") {
						c.ToolError(s)
						return
					}
					panic(r)
				}
			}()
			k.polprogConstants()
			k.stateMirror()
			k.policyVerdictEvent()
			for _, ver := range []int{4, 6} {
				k.conntrack(ver)
				k.cleanupQueue(ver)
				k.natMaps(ver)
				k.ipsetKey(ver)
			}
			k.cleanerResult()
		}()
		// every probe symbol of the spec must have been consumed by a comparison, otherwise the
		// spec and the harness drifted apart (tool error, not a verdict)
		var unused []string
		for ver, l := range k.l {
			for sym := range l.Vals {
				if !k.used[sym] && ver == 4 {
					unused = append(unused, sym)
				}
			}
		}
		sort.Strings(unused)
		c.Extra("probe_symbols_without_go_counterpart", unused)
		c.Extra("encoders_writing_outside_named_fields_not_judged", k.stray)
		if len(k.stray) > 0 {
			fmt.Printf("INFO C13 not judged: %v\n", k.stray)
		}
		c.Sample(map[string]any{"case": "v4 conntrack value: NewValueNATReverse(lastSeen=0x1122334455667788,...) -> bytes[8:16] read with offsetof(struct calico_ct_value,last_seen)=8", "c_offset": k.off(4, "ct_value.last_seen"), "go_const": ctv4.VoLastSeen})
		c.Sample(map[string]any{"case": "polprog stateOffPolResult vs offsetof(struct cali_tc_state, pol_rc)", "go": stateOffPolResult.Offset, "c_v4": k.off(4, "tc_state.pol_rc"), "c_v6": k.off(6, "tc_state.pol_rc")})
		if len(unused) > 0 || os.Getenv("VERIF_C13_DUMP") != "" {
			fmt.Printf("INFO C13 probe symbols not consumed by any comparison: %v\n", unused)
		}
	})
}

// ---------------------------------------------------------------------------------------------

func (k *c13) polprogConstants() {
	for _, ver := range []int{4, 6} {
		for _, e := range []struct {
			name string
			goV  int16
			cf   string
		}{
			{"stateOffIPSrc", stateOffIPSrc.Offset, "ip_src"},
			{"stateOffIPDst", stateOffIPDst.Offset, "ip_dst"},
			{"stateOffPreNATIPDst", stateOffPreNATIPDst.Offset, "pre_nat_ip_dst"},
			{"stateOffPostNATIPDst", stateOffPostNATIPDst.Offset, "post_nat_ip_dst"},
			{"stateOffPolResult", stateOffPolResult.Offset, "pol_rc"},
			{"stateOffSrcPort", stateOffSrcPort.Offset, "sport"},
			{"stateOffDstPort", stateOffDstPort.Offset, "dport"},
			{"stateOffICMPType", stateOffICMPType.Offset, "icmp_type"},
			{"stateOffICMPType+1(code)", stateOffICMPType.Offset + 1, "icmp_code"},
			{"stateOffPreNATDstPort", stateOffPreNATDstPort.Offset, "pre_nat_dport"},
			{"stateOffPostNATDstPort", stateOffPostNATDstPort.Offset, "post_nat_dport"},
			{"stateOffIPProto", stateOffIPProto.Offset, "ip_proto"},
			{"stateOffIPSize", stateOffIPSize.Offset, "ip_size"},
			{"stateOffRulesHit", stateOffRulesHit.Offset, "rules_hit"},
			{"stateOffRuleIDs", stateOffRuleIDs.Offset, "rule_ids"},
			{"stateOffFlags", stateOffFlags.Offset, "flags"},
		} {
			k.cmp(ver, "polprog."+e.name, "offset", int(e.goV), k.off(ver, "tc_state."+e.cf), "polprog constant vs offsetof(struct cali_tc_state, "+e.cf+")")
		}
		k.cmp(ver, "tc_state.icmp_type+icmp_code", "size", 2, k.fsize(ver, "tc_state.icmp_type")+k.fsize(ver, "tc_state.icmp_code"), "writeICMPTypeCodeMatch loads both with one 16-bit load")
		k.cmp(ver, "polprog.stateEventHdrSize", "size", int(stateEventHdrSize), k.fsize(ver, "tc_state.eventhdr"), "")
		k.cmp(ver, "polprog.state.MaxRuleIDs*8", "size", state.MaxRuleIDs*8, k.fsize(ver, "tc_state.rule_ids"), "")
		k.cmp(ver, "polprog.state.MaxRuleIDs", "size", state.MaxRuleIDs, k.konst(ver, "max_rule_ids"), "")
		// IP set key as assembled on the stack by setUpIPSetKey
		adj := 0
		if ver == 6 {
			adj = 12 // v6Adjust in setUpIPSetKey
		}
		k.cmp(ver, "polprog.ipsKeyPrefix", "offset", int(ipsKeyPrefix), k.off(ver, "ip_set_key.mask"), "")
		k.cmp(ver, "polprog.ipsKeyID", "offset", int(ipsKeyID), k.off(ver, "ip_set_key.set_id"), "")
		k.cmp(ver, "polprog.ipsKeyAddr", "offset", int(ipsKeyAddr), k.off(ver, "ip_set_key.addr"), "")
		k.cmp(ver, "polprog.ipsKeyPort", "offset", int(ipsKeyPort)+adj, k.off(ver, "ip_set_key.port"), "")
		k.cmp(ver, "polprog.ipsKeyProto", "offset", int(ipsKeyProto)+adj, k.off(ver, "ip_set_key.protocol"), "")
		k.cmp(ver, "polprog.ipsKeyPad", "offset", int(ipsKeyPad)+adj, k.off(ver, "ip_set_key.pad"), "")
		k.cmp(ver, "polprog.skbCb0", "offset", int(skbCb0.Offset), k.off(ver, "skb.cb"), "")
		k.cmp(ver, "polprog.skbCb1", "offset", int(skbCb1.Offset), k.off(ver, "skb.cb")+4, "")
		_ = k.fsize(ver, "skb.cb")
		_ = k.sizeof(ver, "skb")
		// stack reservation for the key is the v6 size for both versions
		if ver == 6 {
			k.cmp(ver, "ipsets.IPSetEntryV6Size", "sizeof", ipsets.IPSetEntryV6Size, k.sizeof(6, "ip_set_key"), "")
		} else {
			k.cmp(ver, "ipsets.IPSetEntrySize", "sizeof", ipsets.IPSetEntrySize, k.sizeof(4, "ip_set_key"), "")
		}
		// flag bits and verdict codes the generated program writes (used by C11 with the C values)
		_ = k.konst(ver, "st_dest_is_host")
		_ = k.konst(ver, "st_src_is_host")
		_ = k.konst(ver, "st_log_packet")
		_ = k.konst(ver, "pol_no_match")
		_ = k.konst(ver, "pol_allow")
		_ = k.konst(ver, "pol_deny")
	}
}

// stateMirror compares the state.State mirror struct with struct cali_tc_state. The mirror follows
// the IPv4 build for everything after `flags` (the IPv6 build has wider ct_result/nat_dest), which
// is how the only users (policy program unit tests) use it; the common prefix is compared for both.
func (k *c13) stateMirror() {
	st := reflect.TypeOf(state.State{})
	type m struct {
		goF, cF string
		v6      bool // also valid for the IPv6 build
		size    bool // compare the size too
	}
	for _, e := range []m{
		{"eventHeader", "eventhdr", true, true},
		{"SrcAddr", "ip_src", true, false},
		{"DstAddr", "ip_dst", true, false},
		{"PreNATDstAddr", "pre_nat_ip_dst", true, false},
		{"PostNATDstAddr", "post_nat_ip_dst", true, false},
		{"TunIP", "tun_ip", true, false},
		{"ihl", "ihl", true, true},
		{"PolicyRC", "pol_rc", true, true},
		{"SrcPort", "sport", true, true},
		{"DstPort", "dport", true, true},
		{"PreNATDstPort", "pre_nat_dport", true, true},
		{"PostNATDstPort", "post_nat_dport", true, true},
		{"IPProto", "ip_proto", true, true},
		{"IPSize", "ip_size", true, true},
		{"RulesHit", "rules_hit", true, true},
		{"RuleIDs", "rule_ids", true, true},
		{"Flags", "flags", true, true},
		{"ConntrackRCPadding", "ct_result.rc", true, false},
		{"ConntrackFlags", "ct_result.flags", true, true},
		{"NATData", "nat_dest", false, true},
		{"ProgStartTime", "prog_start_time", false, true},
		{"SrcAddrMasq", "ip_src_masq", false, false},
		{"NATSvcID", "nat_svc_id", false, true},
	} {
		f, ok := st.FieldByName(e.goF)
		if !ok {
			panic("tool: state.State has no field " + e.goF)
		}
		vers := []int{4}
		if e.v6 {
			vers = append(vers, 6)
		}
		for _, ver := range vers {
			k.cmp(ver, "state.State."+e.goF, "offset", int(f.Offset), k.off(ver, "tc_state."+e.cF), "mirror struct field vs offsetof(struct cali_tc_state, "+e.cF+")")
			if e.size {
				k.cmp(ver, "state.State."+e.goF, "size", int(f.Type.Size()), k.fsize(ver, "tc_state."+e.cF), "")
			}
		}
	}
	// addresses: the mirror has four 32-bit words per address = the 16-byte slot both builds reserve
	for _, a := range [][2]string{{"SrcAddr", "ip_src"}, {"DstAddr", "ip_dst"}, {"PreNATDstAddr", "pre_nat_ip_dst"}, {"PostNATDstAddr", "post_nat_ip_dst"}, {"TunIP", "tun_ip"}, {"SrcAddrMasq", "ip_src_masq"}} {
		f0, _ := st.FieldByName(a[0])
		f3, ok := st.FieldByName(a[0] + "3")
		if !ok {
			panic("tool: state.State has no field " + a[0] + "3")
		}
		if a[1] != "ip_src_masq" {
			k.cmp(6, "state.State."+a[0]+"[0..3]", "size", int(f3.Offset+f3.Type.Size()-f0.Offset), k.fsize(6, "tc_state."+a[1]), "")
		}
		k.cmp(4, "state.State."+a[0], "size", int(f0.Type.Size()), k.fsize(4, "tc_state."+a[1]), "")
	}
	// The map value is char[STATE_SIZE]: that is the shared total size.
	for _, ver := range []int{4, 6} {
		k.cmp(ver, "state.MapParameters.ValueSize", "sizeof", state.MapParameters.ValueSize, k.konst(ver, "state_size"), "Go map value size vs STATE_SIZE")
		k.c.Add("states", 2)
		k.c.Add("transitions", 2)
		if cs := k.sizeof(ver, "tc_state"); cs > state.MapParameters.ValueSize {
			k.viol(fmt.Sprintf("v%d:tc_state:larger-than-map-value", ver), map[string]any{"sizeof": cs, "value_size": state.MapParameters.ValueSize})
		}
		if gs := int(unsafe.Sizeof(state.State{})); gs > state.MapParameters.ValueSize {
			k.viol(fmt.Sprintf("v%d:state.State:larger-than-map-value", ver), map[string]any{"sizeof": gs, "value_size": state.MapParameters.ValueSize})
		}
	}
	// Mirror fields that no userspace code reads or writes (grep: no reference outside the struct
	// definition): reported, not judged - the property is about fields userspace accesses.
	var latent []string
	for _, e := range [][2]string{{"ConntrackNATIPPort", "ct_result.nat_ip"}, {"ConntrackTunIP", "ct_result.tun_ip"}, {"ConntrackIfIndexFwd", "ct_result.ifindex_fwd"}, {"ConntrackIfIndexCtd", "ct_result.ifindex_created"}} {
		f, ok := st.FieldByName(e[0])
		if !ok {
			continue
		}
		co := k.off(4, "tc_state."+e[1])
		if int(f.Offset) != co {
			latent = append(latent, fmt.Sprintf("state.State.%s at %d but %s at %d (v4)", e[0], f.Offset, e[1], co))
		}
	}
	_ = k.fsize(4, "tc_state.ct_result.rc")
	for _, n := range []string{"ct_result", "ct_result.nat_ip", "ct_result.nat_sip", "ct_result.nat_port", "ct_result.nat_sport", "ct_result.tun_ip", "ct_result.ifindex_fwd", "ct_result.ifindex_created"} {
		_, _ = k.off(4, "tc_state."+n), k.fsize(4, "tc_state."+n)
	}
	k.c.Extra("unaccessed_mirror_fields_that_disagree", latent)
	if len(latent) > 0 {
		fmt.Printf("INFO C13 state.State has %d mirror field(s) no code accesses whose offset differs from C (not judged): %v\n", len(latent), latent)
	}
}

// policyVerdictEvent: events.ParsePolicyVerdict decodes the state blob the kernel copies into the
// event (everything after the event header).
func (k *c13) policyVerdictEvent() {
	for _, ver := range []int{4, 6} {
		hdr := k.fsize(ver, "tc_state.eventhdr")
		rule := make([]byte, 0, 256)
		for i := 0; i < state.MaxRuleIDs; i++ {
			rule = append(rule, le64(0xA000000000000000+uint64(i)*0x0101)...)
		}
		blob := k.cblob(ver, "tc_state", map[string][]byte{
			"ip_src": sip(ver, 0x10), "ip_dst": sip(ver, 0x30), "pre_nat_ip_dst": sip(ver, 0x50), "post_nat_ip_dst": sip(ver, 0x70), "tun_ip": sip(ver, 0x90),
			"pol_rc": le32(0x01020304), "sport": le16(0xA1A2), "dport": le16(0xB1B2), "pre_nat_dport": le16(0xC1C2), "post_nat_dport": le16(0xD1D2),
			"ip_proto": {0xE1}, "ip_size": {0xF1, 0xF2}, "rules_hit": le32(3), "rule_ids": rule,
		})
		pv := events.ParsePolicyVerdict(blob[hdr:], ver == 6)
		w := "events.ParsePolicyVerdict"
		k.decodes(ver, w, "SrcAddr=ip_src", []byte(pv.SrcAddr), []byte(sip(ver, 0x10)))
		k.decodes(ver, w, "DstAddr=pre_nat_ip_dst", []byte(pv.DstAddr), []byte(sip(ver, 0x50)))
		k.decodes(ver, w, "PostNATDstAddr=post_nat_ip_dst", []byte(pv.PostNATDstAddr), []byte(sip(ver, 0x70)))
		k.decodes(ver, w, "NATTunSrcAddr=tun_ip", []byte(pv.NATTunSrcAddr), []byte(sip(ver, 0x90)))
		k.decodes(ver, w, "PolicyRC=pol_rc", uint32(pv.PolicyRC), uint32(0x01020304))
		k.decodes(ver, w, "SrcPort=sport", pv.SrcPort, uint16(0xA1A2))
		k.decodes(ver, w, "DstPort=pre_nat_dport", pv.DstPort, uint16(0xC1C2))
		k.decodes(ver, w, "PostNATDstPort=post_nat_dport", pv.PostNATDstPort, uint16(0xD1D2))
		k.decodes(ver, w, "IPProto=ip_proto", pv.IPProto, uint8(0xE1))
		k.decodes(ver, w, "IPSize=ip_size(be16)", pv.IPSize, uint16(0xF1F2))
		k.decodes(ver, w, "RulesHit=rules_hit", pv.RulesHit, uint32(3))
		for i := 0; i < 3; i++ {
			k.decodes(ver, w, fmt.Sprintf("RuleIDs[%d]=rule_ids", i), pv.RuleIDs[i], 0xA000000000000000+uint64(i)*0x0101)
		}
	}
}

func sentinelLeg(tag byte) ctv4.Leg {
	return ctv4.Leg{Bytes: 0x0102030405060700 + uint64(tag), Packets: 0x11121300 + uint32(tag), Seqno: 0x21000021 | uint32(tag&0xf0)<<8 | uint32(tag&0xf0)<<16, Ifindex: 0x31323300 + uint32(tag)}
}

func (k *c13) legWant(ver int, l ctv4.Leg) []byte {
	b := make([]byte, k.sizeof(ver, "ct_leg"))
	copy(b[k.off(ver, "ct_leg.bytes"):], le64(l.Bytes))
	copy(b[k.off(ver, "ct_leg.packets"):], le32(l.Packets))
	copy(b[k.off(ver, "ct_leg.seqno"):], le32(l.Seqno))
	copy(b[k.off(ver, "ct_leg.ifindex"):], le32(l.Ifindex))
	return b
}

func (k *c13) conntrack(ver int) {
	pa, pb := uint16(0xA1A2), uint16(0xB1B2)
	ipA, ipB := sip(ver, 0x10), sip(ver, 0x40)
	var keyBytes []byte
	var ki conntrack.KeyInterface
	if ver == 4 {
		kk := conntrack.NewKey(0x7E, ipA, pa, ipB, pb)
		keyBytes, ki = kk.AsBytes(), kk
		k.cmp(4, "conntrack.KeySize", "sizeof", conntrack.KeySize, k.sizeof(4, "ct_key"), "")
		k.cmp(4, "conntrack.ValueSize", "sizeof", conntrack.ValueSize, k.sizeof(4, "ct_value"), "")
		k.cmp(4, "conntrack.MapParams.KeySize", "sizeof", ctv4.MapParams.KeySize, k.sizeof(4, "ct_key"), "")
		k.cmp(4, "conntrack.MapParams.ValueSize", "sizeof", ctv4.MapParams.ValueSize, k.sizeof(4, "ct_value"), "")
	} else {
		kk := conntrack.NewKeyV6(0x7E, ipA, pa, ipB, pb)
		keyBytes, ki = kk.AsBytes(), kk
		k.cmp(6, "conntrack.KeyV6Size", "sizeof", conntrack.KeyV6Size, k.sizeof(6, "ct_key"), "")
		k.cmp(6, "conntrack.ValueV6Size", "sizeof", conntrack.ValueV6Size, k.sizeof(6, "ct_value"), "")
		k.cmp(6, "conntrack.MapParamsV6.KeySize", "sizeof", ctv4.MapParamsV6.KeySize, k.sizeof(6, "ct_key"), "")
		k.cmp(6, "conntrack.MapParamsV6.ValueSize", "sizeof", ctv4.MapParamsV6.ValueSize, k.sizeof(6, "ct_value"), "")
	}
	_ = ki
	k.encodes(ver, "conntrack.NewKey", "ct_key", keyBytes, map[string][]byte{
		"protocol": le32(0x7E), "addr_a": ipA, "addr_b": ipB, "port_a": le16(pa), "port_b": le16(pb)})
	// decode direction
	kb := k.cblob(ver, "ct_key", map[string][]byte{"protocol": le32(0x6D), "addr_a": sip(ver, 0x20), "addr_b": sip(ver, 0x60), "port_a": le16(0xC1C2), "port_b": le16(0xD1D2)})
	var dk conntrack.KeyInterface
	if ver == 4 {
		dk = conntrack.KeyFromBytes(kb)
	} else {
		dk = conntrack.KeyV6FromBytes(kb)
	}
	k.decodes(ver, "conntrack.Key", "Proto=protocol", dk.Proto(), uint8(0x6D))
	k.decodes(ver, "conntrack.Key", "AddrA=addr_a", []byte(dk.AddrA()), []byte(sip(ver, 0x20)))
	k.decodes(ver, "conntrack.Key", "AddrB=addr_b", []byte(dk.AddrB()), []byte(sip(ver, 0x60)))
	k.decodes(ver, "conntrack.Key", "PortA=port_a", dk.PortA(), uint16(0xC1C2))
	k.decodes(ver, "conntrack.Key", "PortB=port_b", dk.PortB(), uint16(0xD1D2))

	// Vo* constants
	type vo struct {
		name string
		g4   int
		g6   int
		cf   string
	}
	for _, e := range []vo{
		{"VoRSTSeen", ctv4.VoRSTSeen, ctv4.VoRSTSeenV6, "rst_seen"},
		{"VoLastSeen", ctv4.VoLastSeen, ctv4.VoLastSeenV6, "last_seen"},
		{"VoType", ctv4.VoType, ctv4.VoTypeV6, "type"},
		{"VoFlags", ctv4.VoFlags, ctv4.VoFlagsV6, "flags"},
		{"VoFlags2", ctv4.VoFlags2, ctv4.VoFlags2V6, "flags2"},
		{"VoFlags3", ctv4.VoFlags3, ctv4.VoFlags3V6, "flags3"},
		{"VoFlags4", ctv4.VoFlags4, ctv4.VoFlags4V6, "flags4"},
		{"VoRevKey", ctv4.VoRevKey, ctv4.VoRevKeyV6, "nat_rev_key"},
		{"VoLegAB", ctv4.VoLegAB, ctv4.VoLegABV6, "a_to_b"},
		{"VoLegBA", ctv4.VoLegBA, ctv4.VoLegBAV6, "b_to_a"},
		{"VoTunIP", ctv4.VoTunIP, ctv4.VoTunIPV6, "tun_ip"},
		{"VoOrigIP", ctv4.VoOrigIP, ctv4.VoOrigIPV6, "orig_ip"},
		{"VoOrigPort", ctv4.VoOrigPort, ctv4.VoOrigPortV6, "orig_port"},
		{"VoOrigSPort", ctv4.VoOrigSPort, ctv4.VoOrigSPortV6, "orig_sport"},
		{"VoOrigSIP", ctv4.VoOrigSIP, ctv4.VoOrigSIPV6, "orig_sip"},
		{"VoNATSPort", ctv4.VoNATSPort, ctv4.VoNATSPortV6, "nat_sport"},
	} {
		g := e.g4
		if ver == 6 {
			g = e.g6
		}
		k.cmp(ver, "conntrack."+e.name, "offset", g, k.off(ver, "ct_value."+e.cf), "")
	}
	k.cmp(ver, "conntrack.TypeNormal", "const", int(conntrack.TypeNormal), k.konst(ver, "ct_type_normal"), "")
	k.cmp(ver, "conntrack.TypeNATForward", "const", int(conntrack.TypeNATForward), k.konst(ver, "ct_type_nat_fwd"), "")
	k.cmp(ver, "conntrack.TypeNATReverse", "const", int(conntrack.TypeNATReverse), k.konst(ver, "ct_type_nat_rev"), "")

	// Leg encoding incl. the bit-field word
	la, lb := sentinelLeg(0xA0), sentinelLeg(0xB0)
	k.encodes(ver, "conntrack.Leg.AsBytes", "ct_leg", la.AsBytes(), map[string][]byte{
		"bytes": le64(la.Bytes), "packets": le32(la.Packets), "seqno": le32(la.Seqno), "ifindex": le32(la.Ifindex)})
	for _, f := range []struct {
		n string
		l ctv4.Leg
	}{{"syn_seen", ctv4.Leg{SynSeen: true}}, {"ack_seen", ctv4.Leg{AckSeen: true}}, {"fin_seen", ctv4.Leg{FinSeen: true}}, {"rst_seen", ctv4.Leg{RstSeen: true}},
		{"approved", ctv4.Leg{Approved: true}}, {"opener", ctv4.Leg{Opener: true}}, {"workload", ctv4.Leg{Workload: true}}} {
		blob, ok := k.l[ver].Blobs["ct_leg__"+f.n]
		if !ok {
			panic("tool: layout probe has no blob ct_leg." + f.n)
		}
		k.c.Add("states", 2)
		k.c.Add("transitions", 2)
		k.c.Nontrivial(fmt.Sprintf("v%d|leg-bit|%s", ver, f.n))
		if !bytes.Equal(f.l.AsBytes(), blob) {
			k.viol(fmt.Sprintf("v%d:conntrack.Leg.%s:encode", ver, f.n), map[string]any{"go": fmt.Sprintf("%x", f.l.AsBytes()), "c": fmt.Sprintf("%x", blob)})
		}
		// decode: a normal value whose a_to_b leg is the C blob
		vb := k.cblob(ver, "ct_value", map[string][]byte{"a_to_b": blob})
		var d ctv4.EntryData
		if ver == 4 {
			d = conntrack.ValueFromBytes(vb).Data()
		} else {
			d = conntrack.ValueV6FromBytes(vb).Data()
		}
		if d.A2B != f.l || d.B2A != (ctv4.Leg{}) {
			k.viol(fmt.Sprintf("v%d:conntrack.Leg.%s:decode", ver, f.n), map[string]any{"decoded_a2b": fmt.Sprintf("%+v", d.A2B), "decoded_b2a": fmt.Sprintf("%+v", d.B2A), "c_blob": fmt.Sprintf("%x", blob)})
		}
	}

	const ls = 0x1122334455667788
	const flags = 0x04030201 // byte0->flags, byte1->flags2, byte2->flags3, byte3->flags4
	common := func(typ byte) map[string][]byte {
		return map[string][]byte{"last_seen": le64(ls), "type": {typ}, "flags": {0x01}, "flags2": {0x02}, "flags3": {0x03}, "flags4": {0x04}}
	}
	with := func(m map[string][]byte, kv ...any) map[string][]byte {
		for i := 0; i < len(kv); i += 2 {
			m[kv[i].(string)] = kv[i+1].([]byte)
		}
		return m
	}
	var vn, vf, vr []byte
	tun, orig := sip(4, 0x51), sip(4, 0x61) // the constructors take To4() of these even for v6 values
	if ver == 4 {
		vn = conntrack.NewValueNormal(time.Duration(ls), flags, la, lb).AsBytes()
		f := conntrack.NewValueNATForward(time.Duration(ls), flags, conntrack.BytesToKey(keyBytes))
		f.SetNATSport(0xE1E2)
		vf = f.AsBytes()
		r := conntrack.NewValueNATReverse(time.Duration(ls), flags, la, lb, tun, orig, 0xF1F2)
		r.SetOrigSport(0xD3D4)
		vr = r.AsBytes()
	} else {
		vn = conntrack.NewValueV6Normal(time.Duration(ls), flags, la, lb).AsBytes()
		f := conntrack.NewValueV6NATForward(time.Duration(ls), flags, conntrack.BytesToKeyV6(keyBytes))
		f.SetNATSport(0xE1E2)
		vf = f.AsBytes()
		r := conntrack.NewValueV6NATReverse(time.Duration(ls), flags, la, lb, tun, orig, 0xF1F2)
		r.SetOrigSport(0xD3D4)
		vr = r.AsBytes()
	}
	k.encodes(ver, "conntrack.NewValueNormal", "ct_value", vn, with(common(0), "a_to_b", k.legWant(ver, la), "b_to_a", k.legWant(ver, lb)))
	k.encodes(ver, "conntrack.NewValueNATForward", "ct_value", vf, with(common(1), "nat_rev_key", keyBytes, "nat_sport", le16(0xE1E2)))
	k.encodes(ver, "conntrack.NewValueNATReverse", "ct_value", vr, with(common(2), "a_to_b", k.legWant(ver, la), "b_to_a", k.legWant(ver, lb),
		"tun_ip", []byte(tun), "orig_ip", []byte(orig), "orig_port", le16(0xF1F2), "orig_sport", le16(0xD3D4)))

	// decode direction through the ValueInterface accessors the scanner uses
	rk := k.cblob(ver, "ct_key", map[string][]byte{"protocol": le32(0x11), "addr_a": sip(ver, 0x21), "addr_b": sip(ver, 0x41), "port_a": le16(0x6162), "port_b": le16(0x7172)})
	fb := k.cblob(ver, "ct_value", map[string][]byte{"rst_seen": le64(0x0A0B0C0D0E0F1011), "last_seen": le64(0x2122232425262728), "type": {1}, "flags": {0x31}, "flags2": {0x32}, "flags3": {0x33}, "flags4": {0x34},
		"nat_rev_key": rk, "nat_sport": le16(0x8182)})
	rb := k.cblob(ver, "ct_value", map[string][]byte{"rst_seen": le64(0x0A0B0C0D0E0F1011), "last_seen": le64(0x2122232425262728), "type": {2}, "flags": {0x31}, "flags2": {0x32}, "flags3": {0x33}, "flags4": {0x34},
		"a_to_b": k.legWant(ver, la), "b_to_a": k.legWant(ver, lb), "tun_ip": sip(ver, 0x51), "orig_ip": sip(ver, 0x71), "orig_port": le16(0x9192), "orig_sport": le16(0xA3A4), "orig_sip": sip(ver, 0xB1)})
	var fv, rv conntrack.ValueInterface
	if ver == 4 {
		fv, rv = conntrack.ValueFromBytes(fb), conntrack.ValueFromBytes(rb)
	} else {
		fv, rv = conntrack.ValueV6FromBytes(fb), conntrack.ValueV6FromBytes(rb)
	}
	w := "conntrack.Value"
	k.decodes(ver, w, "RSTSeen=rst_seen", uint64(fv.RSTSeen()), uint64(0x0A0B0C0D0E0F1011))
	k.decodes(ver, w, "LastSeen=last_seen", uint64(fv.LastSeen()), uint64(0x2122232425262728))
	k.decodes(ver, w, "Type=type", fv.Type(), uint8(1))
	k.decodes(ver, w, "Flags=flags|flags2|flags3|flags4", fv.Flags(), uint32(0x34333231))
	k.decodes(ver, w, "ReverseNATKey=nat_rev_key", fv.ReverseNATKey().AsBytes(), rk)
	k.decodes(ver, w, "NATSPort=nat_sport", fv.NATSPort(), uint16(0x8182))
	k.decodes(ver, w, "OrigIP=orig_ip", []byte(rv.OrigIP()), []byte(sip(ver, 0x71)))
	k.decodes(ver, w, "OrigPort=orig_port", rv.OrigPort(), uint16(0x9192))
	k.decodes(ver, w, "OrigSPort=orig_sport", rv.OrigSPort(), uint16(0xA3A4))
	k.decodes(ver, w, "OrigSrcIP=orig_sip", []byte(rv.OrigSrcIP()), []byte(sip(ver, 0xB1)))
	d := rv.Data()
	k.decodes(ver, w, "Data.TunIP=tun_ip", []byte(d.TunIP), []byte(sip(ver, 0x51)))
	k.decodes(ver, w, "Data.OrigDst=orig_ip", []byte(d.OrigDst), []byte(sip(ver, 0x71)))
	k.decodes(ver, w, "Data.OrigSrc=orig_sip", []byte(d.OrigSrc), []byte(sip(ver, 0xB1)))
	k.decodes(ver, w, "Data.OrigPort=orig_port", d.OrigPort, uint16(0x9192))
	k.decodes(ver, w, "Data.OrigSPort=orig_sport", d.OrigSPort, uint16(0xA3A4))
	k.decodes(ver, w, "Data.A2B=a_to_b", fmt.Sprintf("%+v", d.A2B), fmt.Sprintf("%+v", la))
	k.decodes(ver, w, "Data.B2A=b_to_a", fmt.Sprintf("%+v", d.B2A), fmt.Sprintf("%+v", lb))
	// SetFlags writes the four flag bytes
	sf := fv.SetFlags(0x44434241).AsBytes()
	for i, f := range []string{"flags", "flags2", "flags3", "flags4"} {
		k.decodes(ver, "conntrack.Value.SetFlags", f, sf[k.off(ver, "ct_value."+f)], byte(0x41+i))
	}
}

func (k *c13) cleanupQueue(ver int) {
	key := k.cblob(ver, "ct_key", map[string][]byte{"protocol": le32(0x06), "addr_a": sip(ver, 0x20), "addr_b": sip(ver, 0x60), "port_a": le16(0xC1C2), "port_b": le16(0xD1D2)})
	const ts, rts = 0x1112131415161718, 0x2122232425262728
	var enc []byte
	var dec cleanupv1.ValueInterface
	cb := k.cblob(ver, "ccq_value", map[string][]byte{"rev_key": key, "last_seen": le64(0x3132333435363738), "rev_last_seen": le64(0x4142434445464748)})
	if ver == 4 {
		enc = cleanupv1.NewValue(key, ts, rts).AsBytes()
		dec = conntrack.CleanupValueFromBytes(cb)
		k.cmp(4, "cleanupv1.MapParams.KeySize", "sizeof", cleanupv1.MapParams.KeySize, k.sizeof(4, "ct_key"), "")
		k.cmp(4, "cleanupv1.MapParams.ValueSize", "sizeof", cleanupv1.MapParams.ValueSize, k.sizeof(4, "ccq_value"), "")
	} else {
		enc = cleanupv1.NewValueV6(key, ts, rts).AsBytes()
		dec = conntrack.CleanupValueV6FromBytes(cb)
		k.cmp(6, "cleanupv1.MapParamsV6.KeySize", "sizeof", cleanupv1.MapParamsV6.KeySize, k.sizeof(6, "ct_key"), "")
		k.cmp(6, "cleanupv1.MapParamsV6.ValueSize", "sizeof", cleanupv1.MapParamsV6.ValueSize, k.sizeof(6, "ccq_value"), "")
	}
	k.encodes(ver, "cleanupv1.NewValue", "ccq_value", enc, map[string][]byte{"rev_key": key, "last_seen": le64(ts), "rev_last_seen": le64(rts)})
	k.decodes(ver, "cleanupv1.Value", "OtherNATKey=rev_key", dec.OtherNATKey().AsBytes(), key)
	k.decodes(ver, "cleanupv1.Value", "Timestamp=last_seen", dec.Timestamp(), uint64(0x3132333435363738))
	k.decodes(ver, "cleanupv1.Value", "RevTimestamp=rev_last_seen", dec.RevTimestamp(), uint64(0x4142434445464748))
}

// cleanerResult: struct ct_iter_ctx (returned through the packet buffer) vs conntrack.CleanupContext.
func (k *c13) cleanerResult() {
	t := reflect.TypeOf(conntrack.CleanupContext{})
	for _, ver := range []int{4, 6} {
		// sizes the C14 harness needs to bind the connection-limit map; no Go counterpart in the anchors
		_, _ = k.sizeof(ver, "qos_key"), k.sizeof(ver, "qos_conn_val")
		k.cmp(ver, "conntrack.CleanupContext", "sizeof", int(t.Size()), k.sizeof(ver, "ct_iter_ctx"), "")
		for _, e := range [][2]string{{"StartTime", "now"}, {"EndTime", "end_time"}, {"NumKVsCleaned", "num_cleaned"}} {
			f, ok := t.FieldByName(e[0])
			if !ok {
				panic("tool: conntrack.CleanupContext has no field " + e[0])
			}
			k.cmp(ver, "conntrack.CleanupContext."+e[0], "offset", int(f.Offset), k.off(ver, "ct_iter_ctx."+e[1]), "")
			k.cmp(ver, "conntrack.CleanupContext."+e[0], "size", int(f.Type.Size()), k.fsize(ver, "ct_iter_ctx."+e[1]), "")
		}
	}
}

func (k *c13) natMaps(ver int) {
	addr, saddr, client := sip(ver, 0x10), sip(ver, 0x40), sip(ver, 0x70)
	var fk, fv, bk, bv, ak, av, mk []byte
	var fkI nat.FrontendKeyInterface
	var avI nat.AffinityValueInterface
	var akI nat.AffinityKeyInterface
	var bvI nat.BackendValueInterface
	feKeyBlob := k.cblob(ver, "nat_key", map[string][]byte{"prefixlen": le32(0), "addr": sip(ver, 0x21), "port": le16(0x8182), "protocol": {0x91}, "saddr": sip(ver, 0xA1)})
	beValBlob := k.cblob(ver, "nat_dest", map[string][]byte{"addr": sip(ver, 0x31), "port": le16(0xB1B2)})
	affValBlob := k.cblob(ver, "nat_aff_val", map[string][]byte{"nat_dest": beValBlob, "ts": le64(0x5152535455565758)})
	affKeyBlob := k.cblob(ver, "nat_aff_key", map[string][]byte{"nat_key.addr": sip(ver, 0x21), "nat_key.port": le16(0x8182), "nat_key.protocol": {0x91}, "client_ip": sip(ver, 0xC1)})
	var srcBits int
	if ver == 4 {
		srcBits = 32
		cidr := ip.CIDRFromAddrAndPrefix(ip.FromNetIP(saddr), 32)
		f := nat.NewNATKeySrc(addr, 0xA1A2, 0xB1, cidr)
		fk = f.AsBytes()
		fv = nat.NewNATValueWithFlags(0x01020304, 0x11121314, 0x21222324, 0x31323334, 0x41424344).AsBytes()
		bk = nat.NewNATBackendKey(0x51525354, 0x61626364).AsBytes()
		b := nat.NewNATBackendValue(addr, 0xC1C2)
		bv = b.AsBytes()
		ak = nat.NewAffinityKey(client, f).AsBytes()
		av = nat.NewAffinityValue(0x7172737475767778, b).AsBytes()
		mk = nat.NewMaglevBackendKey(0x51525354, 0x61626364).AsBytes()
		feKeyBlob[0] = byte(nat.ZeroCIDRPrefixLen + 32)
		fkI = nat.FrontendKeyFromBytes(feKeyBlob)
		avI = nat.AffinityValueFromBytes(affValBlob)
		akI = nat.AffinityKeyFromBytes(affKeyBlob)
		bvI = nat.BackendValueFromBytes(beValBlob)
		k.cmp(4, "nat.FrontendMapParameters.KeySize", "sizeof", nat.FrontendMapParameters.KeySize, k.sizeof(4, "nat_key"), "")
		k.cmp(4, "nat.FrontendMapParameters.ValueSize", "sizeof", nat.FrontendMapParameters.ValueSize, k.sizeof(4, "nat_value"), "")
		k.cmp(4, "nat.BackendMapParameters.KeySize", "sizeof", nat.BackendMapParameters.KeySize, k.sizeof(4, "nat_secondary_key"), "")
		k.cmp(4, "nat.BackendMapParameters.ValueSize", "sizeof", nat.BackendMapParameters.ValueSize, k.sizeof(4, "nat_dest"), "")
		k.cmp(4, "nat.AffinityMapParameters.KeySize", "sizeof", nat.AffinityMapParameters.KeySize, k.sizeof(4, "nat_aff_key"), "")
		k.cmp(4, "nat.AffinityMapParameters.ValueSize", "sizeof", nat.AffinityMapParameters.ValueSize, k.sizeof(4, "nat_aff_val"), "")
		k.cmp(4, "nat.MaglevMapParameters.KeySize", "sizeof", nat.MaglevMapParameters.KeySize, k.sizeof(4, "maglev_key"), "")
		k.cmp(4, "nat.MaglevMapParameters.ValueSize", "sizeof", nat.MaglevMapParameters.ValueSize, k.sizeof(4, "nat_dest"), "")
	} else {
		srcBits = 128
		cidr := ip.CIDRFromAddrAndPrefix(ip.FromNetIP(saddr), 128)
		f := nat.NewNATKeyV6Src(addr, 0xA1A2, 0xB1, cidr)
		fk = f.AsBytes()
		fv = nat.NewNATValueV6WithFlags(0x01020304, 0x11121314, 0x21222324, 0x31323334, 0x41424344).AsBytes()
		bk = nat.NewNATBackendKeyV6(0x51525354, 0x61626364).AsBytes()
		b := nat.NewNATBackendValueV6(addr, 0xC1C2)
		bv = b.AsBytes()
		ak = nat.NewAffinityKeyV6(client, f).AsBytes()
		av = nat.NewAffinityValueV6(0x7172737475767778, b).AsBytes()
		mk = nat.NewMaglevBackendKeyV6(0x51525354, 0x61626364).AsBytes()
		feKeyBlob[0] = byte(nat.ZeroCIDRV6PrefixLen + 128 - 256)
		feKeyBlob[1] = 1
		fkI = nat.FrontendKeyV6FromBytes(feKeyBlob)
		avI = nat.AffinityValueV6FromBytes(affValBlob)
		akI = nat.AffinityKeyV6FromBytes(affKeyBlob)
		bvI = nat.BackendValueV6FromBytes(beValBlob)
		k.cmp(6, "nat.FrontendMapV6Parameters.KeySize", "sizeof", nat.FrontendMapV6Parameters.KeySize, k.sizeof(6, "nat_key"), "")
		k.cmp(6, "nat.FrontendMapV6Parameters.ValueSize", "sizeof", nat.FrontendMapV6Parameters.ValueSize, k.sizeof(6, "nat_value"), "")
		k.cmp(6, "nat.BackendMapV6Parameters.KeySize", "sizeof", nat.BackendMapV6Parameters.KeySize, k.sizeof(6, "nat_secondary_key"), "")
		k.cmp(6, "nat.BackendMapV6Parameters.ValueSize", "sizeof", nat.BackendMapV6Parameters.ValueSize, k.sizeof(6, "nat_dest"), "")
		k.cmp(6, "nat.AffinityMapV6Parameters.KeySize", "sizeof", nat.AffinityMapV6Parameters.KeySize, k.sizeof(6, "nat_aff_key"), "")
		k.cmp(6, "nat.AffinityMapV6Parameters.ValueSize", "sizeof", nat.AffinityMapV6Parameters.ValueSize, k.sizeof(6, "nat_aff_val"), "")
		k.cmp(6, "nat.MaglevMapV6Parameters.KeySize", "sizeof", nat.MaglevMapV6Parameters.KeySize, k.sizeof(6, "maglev_key"), "")
		k.cmp(6, "nat.MaglevMapV6Parameters.ValueSize", "sizeof", nat.MaglevMapV6Parameters.ValueSize, k.sizeof(6, "nat_dest"), "")
	}
	// LPM prefix: sizeof(addr+port+protocol)*8 + source prefix
	zero := (k.fsize(ver, "nat_key.addr") + k.fsize(ver, "nat_key.port") + k.fsize(ver, "nat_key.protocol")) * 8
	k.encodes(ver, "nat.NewNATKeySrc", "nat_key", fk, map[string][]byte{
		"prefixlen": le32(uint32(zero + srcBits)), "addr": addr, "port": le16(0xA1A2), "protocol": {0xB1}, "saddr": saddr})
	_ = k.off(ver, "nat_key.pad")
	_ = k.fsize(ver, "nat_key.pad")
	k.encodes(ver, "nat.NewNATValueWithFlags", "nat_value", fv, map[string][]byte{
		"id": le32(0x01020304), "count": le32(0x11121314), "local": le32(0x21222324), "affinity_timeo": le32(0x31323334), "flags": le32(0x41424344)})
	k.encodes(ver, "nat.NewNATBackendKey", "nat_secondary_key", bk, map[string][]byte{"id": le32(0x51525354), "ordinal": le32(0x61626364)})
	k.encodes(ver, "nat.NewNATBackendValue", "nat_dest", bv, map[string][]byte{"addr": addr, "port": le16(0xC1C2)})
	k.encodes(ver, "nat.NewAffinityKey", "nat_aff_key", ak, map[string][]byte{"nat_key.addr": addr, "nat_key.port": le16(0xA1A2), "nat_key.protocol": {0xB1}, "client_ip": client})
	k.encodes(ver, "nat.NewAffinityValue", "nat_aff_val", av, map[string][]byte{"nat_dest": bv, "ts": le64(0x7172737475767778)})
	k.encodes(ver, "nat.NewMaglevBackendKey", "maglev_key", mk, map[string][]byte{"sid": le32(0x51525354), "ordinal": le32(0x61626364)})
	// decode
	k.decodes(ver, "nat.FrontendKey", "Addr=addr", []byte(fkI.Addr()), []byte(sip(ver, 0x21)))
	k.decodes(ver, "nat.FrontendKey", "Port=port", fkI.Port(), uint16(0x8182))
	k.decodes(ver, "nat.FrontendKey", "Proto=protocol", fkI.Proto(), uint8(0x91))
	k.decodes(ver, "nat.FrontendKey", "SrcCIDR=saddr", []byte(fkI.SrcCIDR().Addr().AsNetIP()), []byte(sip(ver, 0xA1)))
	k.decodes(ver, "nat.FrontendKey", "SrcPrefixLen=prefixlen", fkI.SrcPrefixLen(), uint32(srcBits))
	afk := fkI.AffinityKeyCopy()
	k.decodes(ver, "nat.FrontendKey.AffinityKeyCopy", "Addr=addr", []byte(afk.Addr()), []byte(sip(ver, 0x21)))
	k.decodes(ver, "nat.FrontendKey.AffinityKeyCopy", "Port=port", afk.Port(), uint16(0x8182))
	k.decodes(ver, "nat.FrontendKey.AffinityKeyCopy", "Proto=protocol", afk.Proto(), uint8(0x91))
	fvd := nat.FrontendValueFromBytes(k.cblob(ver, "nat_value", map[string][]byte{"id": le32(0xA1A2A3A4), "count": le32(0xB1B2B3B4), "local": le32(0xC1C2C3C4), "affinity_timeo": le32(7), "flags": le32(0xE1E2E3E4)}))
	k.decodes(ver, "nat.FrontendValue", "ID=id", fvd.ID(), uint32(0xA1A2A3A4))
	k.decodes(ver, "nat.FrontendValue", "Count=count", fvd.Count(), uint32(0xB1B2B3B4))
	k.decodes(ver, "nat.FrontendValue", "LocalCount=local", fvd.LocalCount(), uint32(0xC1C2C3C4))
	k.decodes(ver, "nat.FrontendValue", "AffinityTimeout=affinity_timeo", fvd.AffinityTimeout(), 7*time.Second)
	k.decodes(ver, "nat.FrontendValue", "Flags=flags", fvd.Flags(), uint32(0xE1E2E3E4))
	bkd := nat.BackendKeyFromBytes(k.cblob(ver, "nat_secondary_key", map[string][]byte{"id": le32(0xA1A2A3A4), "ordinal": le32(0xB1B2B3B4)}))
	k.decodes(ver, "nat.BackendKey", "ID=id", bkd.ID(), uint32(0xA1A2A3A4))
	k.decodes(ver, "nat.BackendKey", "Count=ordinal", bkd.Count(), uint32(0xB1B2B3B4))
	k.decodes(ver, "nat.BackendValue", "Addr=addr", []byte(bvI.Addr()), []byte(sip(ver, 0x31)))
	k.decodes(ver, "nat.BackendValue", "Port=port", bvI.Port(), uint16(0xB1B2))
	k.decodes(ver, "nat.AffinityValue", "Timestamp=ts", uint64(avI.Timestamp()), uint64(0x5152535455565758))
	k.decodes(ver, "nat.AffinityValue", "Backend=nat_dest", avI.Backend().AsBytes(), beValBlob)
	k.decodes(ver, "nat.AffinityKey", "ClientIP=client_ip", []byte(akI.ClientIP()), []byte(sip(ver, 0xC1)))
	fa := akI.FrontendAffinityKey()
	k.decodes(ver, "nat.AffinityKey", "Frontend.Addr=nat_key.addr", []byte(fa.Addr()), []byte(sip(ver, 0x21)))
	k.decodes(ver, "nat.AffinityKey", "Frontend.Port=nat_key.port", fa.Port(), uint16(0x8182))
	k.decodes(ver, "nat.AffinityKey", "Frontend.Proto=nat_key.protocol", fa.Proto(), uint8(0x91))
	var mkI nat.MaglevBackendKeyInterface
	mb := k.cblob(ver, "maglev_key", map[string][]byte{"sid": le32(0xA1A2A3A4), "ordinal": le32(0xB1B2B3B4)})
	if ver == 4 {
		mkI = nat.MaglevBackendKeyFromBytes(mb)
	} else {
		mkI = nat.MaglevBackendKeyV6FromBytes(mb)
	}
	k.decodes(ver, "nat.MaglevBackendKey", "SvcID=sid", mkI.SvcID(), uint32(0xA1A2A3A4))
	k.decodes(ver, "nat.MaglevBackendKey", "Ordinal=ordinal", mkI.Ordinal(), uint32(0xB1B2B3B4))
}

func (k *c13) ipsetKey(ver int) {
	const id = 0x0102030405060708
	var plain, named ipsets.IPSetEntryInterface
	var a net.IP
	bits := 32
	if ver == 4 {
		a = net.IP{10, 20, 30, 40}
		plain = ipsets.ProtoIPSetMemberToBPFEntry(id, "10.20.30.40/32")
		named = ipsets.ProtoIPSetMemberToBPFEntry(id, "10.20.30.40,tcp:41394")
		k.cmp(4, "ipsets.MapParameters.KeySize", "sizeof", ipsets.MapParameters.KeySize, k.sizeof(4, "ip_set_key"), "")
	} else {
		bits = 128
		a = net.ParseIP("1112:1314:1516:1718:191a:1b1c:1d1e:1f20")
		plain = ipsets.ProtoIPSetMemberToBPFEntryV6(id, a.String()+"/128")
		named = ipsets.ProtoIPSetMemberToBPFEntryV6(id, a.String()+",tcp:41394")
		k.cmp(6, "ipsets.MapV6Parameters.KeySize", "sizeof", ipsets.MapV6Parameters.KeySize, k.sizeof(6, "ip_set_key"), "")
	}
	if plain == nil || named == nil {
		panic("tool: ipsets.ProtoIPSetMemberToBPFEntry returned nil for a valid member")
	}
	if ver == 4 {
		a = a.To4()
	}
	idBits := k.fsize(ver, "ip_set_key.set_id") * 8
	k.encodes(ver, "ipsets.ProtoIPSetMemberToBPFEntry(cidr)", "ip_set_key", plain.AsBytes(), map[string][]byte{
		"mask": le32(uint32(idBits + bits)), "set_id": be64(id), "addr": a})
	full := (k.sizeof(ver, "ip_set_key") - k.fsize(ver, "ip_set_key.mask") - k.fsize(ver, "ip_set_key.pad")) * 8
	k.encodes(ver, "ipsets.ProtoIPSetMemberToBPFEntry(named-port)", "ip_set_key", named.AsBytes(), map[string][]byte{
		"mask": le32(uint32(full)), "set_id": be64(id), "addr": a, "port": le16(41394), "protocol": {6}})
	_ = k.off(ver, "ip_set_key.pad")
	blob := k.cblob(ver, "ip_set_key", map[string][]byte{"mask": le32(0x51525354), "set_id": be64(0xA1A2A3A4A5A6A7A8), "addr": sip(ver, 0x61), "port": le16(0xB1B2), "protocol": {0xC1}})
	var d ipsets.IPSetEntryInterface
	if ver == 4 {
		d = ipsets.IPSetEntryFromBytes(blob)
	} else {
		d = ipsets.IPSetEntryV6FromBytes(blob)
	}
	k.decodes(ver, "ipsets.IPSetEntry", "PrefixLen=mask", d.PrefixLen(), uint32(0x51525354))
	k.decodes(ver, "ipsets.IPSetEntry", "SetID=set_id(be64)", d.SetID(), uint64(0xA1A2A3A4A5A6A7A8))
	k.decodes(ver, "ipsets.IPSetEntry", "Addr=addr", []byte(d.Addr()), []byte(sip(ver, 0x61)))
	k.decodes(ver, "ipsets.IPSetEntry", "Port=port", d.Port(), uint16(0xB1B2))
	k.decodes(ver, "ipsets.IPSetEntry", "Protocol=protocol", d.Protocol(), uint8(0xC1))
}

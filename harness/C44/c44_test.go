package intdataplane

// C44 — each workload interface carries exactly the state of its preferred endpoint.
//
// Explicit-state search over the REAL endpointManager (felix/dataplane/linux/endpoint_mgr.go) wired to the
// package's own mockTable / mockRouteTable and the real rules.DefaultRuleRenderer.
//
// Two transition systems:
//   atomic : event = one WorkloadEndpointUpdate/Remove followed by ResolveUpdateBatch+CompleteDeferredWork
//   batched: events = OnUpdate(update/remove) without flushing, and flush:k where k selects the ORDER in which
//            resolveWorkloadEndpoints visits the pending-update map (the `range m.pendingWlEpUpdates` loop is
//            re-pointed, by a build-time source rewrite, at zzC44PendingSeq below: a priority permutation
//            over the endpoint ids decides the visiting order, so Go map order is enumerated, not sampled).

import (
	"fmt"
	"iter"
	"reflect"
	"sort"
	"strings"
	"sync"
	"sync/atomic"
	"testing"
	"time"

	"github.com/onsi/gomega"
	"github.com/sirupsen/logrus"

	apiv3 "github.com/projectcalico/api/pkg/apis/projectcalico/v3"

	"github.com/projectcalico/calico/felix/dataplane/common"
	"github.com/projectcalico/calico/felix/dataplane/linux/dataplanedefs"
	"github.com/projectcalico/calico/felix/environment"
	"github.com/projectcalico/calico/felix/generictables"
	"github.com/projectcalico/calico/felix/ipsets"
	"github.com/projectcalico/calico/felix/iptables"
	"github.com/projectcalico/calico/felix/linkaddrs"
	mocknetlink "github.com/projectcalico/calico/felix/netlinkshim/mocknetlink"
	"github.com/projectcalico/calico/felix/proto"
	"github.com/projectcalico/calico/felix/routetable"
	"github.com/projectcalico/calico/felix/rules"
	"github.com/projectcalico/calico/felix/types"
	"github.com/projectcalico/calico/zzverif/hbfs"
	"github.com/projectcalico/calico/zzverif/vk"
)

var _ = dataplanedefs.IPIPIfaceName

// ---- universe ----

// The ids are chosen so that the three fields of the id disagree about the order: e0<e1 by WorkloadId although
// e0's EndpointId is larger; e2 is largest by OrchestratorId although its other fields are smallest; e3 (4-id
// universe only) differs from e0 only in EndpointId.
var c44IDs = []types.WorkloadEndpointID{
	{OrchestratorId: "k8s", WorkloadId: "pod-a", EndpointId: "ep-z"},
	{OrchestratorId: "k8s", WorkloadId: "pod-b", EndpointId: "ep-a"},
	{OrchestratorId: "openstack", WorkloadId: "pod-0", EndpointId: "ep-0"},
	{OrchestratorId: "k8s", WorkloadId: "pod-a", EndpointId: "ep-y"},
}

var c44Names = []string{"cali1", "cali2"}

// c44Names3: two names share the character after the common prefix, so the dispatch tree has a CHILD chain
// (cali-*-wl-dispatch-1) exactly while both cali1a and cali1b are in use: child dispatch chains appear, disappear and
// reappear byte-identical along the histories.
var c44Names3 = []string{"cali1a", "cali1b", "cali2x"}

type c44Ep struct {
	name string
	up   bool
}

func (e *c44Ep) String() string {
	if e == nil {
		return "-"
	}
	if e.up {
		return e.name + "/up"
	}
	return e.name + "/down"
}

func c44Tiers(i int) []*proto.TierInfo {
	// two policies with the same selector => one policy GROUP that is not inlined => a shared group chain whose
	// life time the manager reference-counts per interface name
	pols := []*proto.PolicyID{
		{Name: fmt.Sprintf("pol-a-e%d", i), Kind: apiv3.KindGlobalNetworkPolicy},
		{Name: fmt.Sprintf("pol-b-e%d", i), Kind: apiv3.KindGlobalNetworkPolicy},
	}
	return []*proto.TierInfo{{Name: "default", IngressPolicies: pols, EgressPolicies: pols[:1]}}
}

// Selector variants of policy pol-a-e<i> (pol-b-e<i> always has variant 0). With equal selectors the two policies of
// endpoint i form ONE non-inlined group (a shared group chain); with different selectors two inlined groups.
var c44Selectors = []string{"all()", "has(x)"}

func c44PolicyUpdate(name string, v int) *proto.ActivePolicyUpdate {
	return &proto.ActivePolicyUpdate{
		Id:     &proto.PolicyID{Name: name, Kind: apiv3.KindGlobalNetworkPolicy},
		Policy: &proto.Policy{OriginalSelector: c44Selectors[v]},
	}
}

func c44Proto(i int, e *c44Ep, pol bool) *proto.WorkloadEndpoint {
	st := "inactive"
	if e.up {
		st = "active"
	}
	var tiers []*proto.TierInfo
	if pol {
		tiers = c44Tiers(i)
	}
	return &proto.WorkloadEndpoint{
		Tiers:      tiers,
		State:      st,
		Name:       e.name,
		ProfileIds: []string{fmt.Sprintf("prof-e%d", i)},
		Ipv4Nets:   []string{fmt.Sprintf("10.0.0.%d/32", i+1)},
		Ipv6Nets:   []string{fmt.Sprintf("fd00::%d/128", i+1)},
	}
}

func c44ProtoID(i int) *proto.WorkloadEndpointID {
	id := c44IDs[i]
	return &proto.WorkloadEndpointID{OrchestratorId: id.OrchestratorId, WorkloadId: id.WorkloadId, EndpointId: id.EndpointId}
}

func c44Index(id types.WorkloadEndpointID) int {
	for i, x := range c44IDs {
		if x == id {
			return i
		}
	}
	return -1
}

// ---- controlled iteration order of the pending-update map ----

type c44Sched struct {
	prio  []int // prio[i] = rank of endpoint index i (lower = visited first)
	calls int64
}

var c44Scheds sync.Map // *endpointManager -> *c44Sched

// zzC44PendingSeq replaces `range m.pendingWlEpUpdates` in resolveWorkloadEndpoints (see target.json). It has
// the semantics the Go spec gives a map range (an entry removed before it is reached is not produced; an entry
// added during the iteration may be produced) with the choice of the next entry made by the harness.
func zzC44PendingSeq(m *endpointManager) iter.Seq2[types.WorkloadEndpointID, *proto.WorkloadEndpoint] {
	return func(yield func(types.WorkloadEndpointID, *proto.WorkloadEndpoint) bool) {
		var sc *c44Sched
		if v, ok := c44Scheds.Load(m); ok {
			sc = v.(*c44Sched)
			atomic.AddInt64(&sc.calls, 1)
		}
		visited := map[types.WorkloadEndpointID]bool{}
		for {
			var cands []types.WorkloadEndpointID
			for id := range m.pendingWlEpUpdates {
				if !visited[id] {
					cands = append(cands, id)
				}
			}
			if len(cands) == 0 {
				return
			}
			rank := func(id types.WorkloadEndpointID) string {
				ix := c44Index(id)
				if sc != nil && ix >= 0 && ix < len(sc.prio) {
					return fmt.Sprintf("%03d", sc.prio[ix])
				}
				return "999" + id.OrchestratorId + "/" + id.WorkloadId + "/" + id.EndpointId
			}
			sort.Slice(cands, func(a, b int) bool { return rank(cands[a]) < rank(cands[b]) })
			id := cands[0]
			visited[id] = true
			if !yield(id, m.pendingWlEpUpdates[id]) {
				return
			}
		}
	}
}

func c44Perm(n, k int) []int {
	// k-th permutation (factorial number system) of 0..n-1, returned as rank-by-index
	items := make([]int, n)
	for i := range items {
		items[i] = i
	}
	order := make([]int, 0, n)
	for i := n; i >= 1; i-- {
		f := 1
		for j := 2; j < i; j++ {
			f *= j
		}
		ix := k / f
		k = k % f
		order = append(order, items[ix])
		items = append(items[:ix], items[ix+1:]...)
	}
	prio := make([]int, n)
	for rank, ix := range order {
		prio[ix] = rank
	}
	return prio
}

func c44Fact(n int) int {
	f := 1
	for i := 2; i <= n; i++ {
		f *= i
	}
	return f
}

// ---- instance ----

type c44Cfg struct {
	nIDs    int
	batched bool
	ipvs    bool
	pol     bool // endpoints carry a tier with a (non-inlined) policy group
	base    string // name of a prefix applied in New (not counted in the depth bound), see c44Bases
	names3  bool   // interface names c44Names3 (dispatch tree with a child chain) instead of c44Names
}

// Base prefixes: shadowing already in place, so that the depth bound is spent on what happens next.
var c44Bases = map[string][]c44Ev{
	"two-on-cali1": {
		{kind: "upd", id: 0, ep: c44Ep{"cali1", true}}, {kind: "upd", id: 1, ep: c44Ep{"cali1", true}}, {kind: "flush"}},
	"three-on-cali1": {
		{kind: "upd", id: 0, ep: c44Ep{"cali1", true}}, {kind: "upd", id: 1, ep: c44Ep{"cali1", false}}, {kind: "upd", id: 2, ep: c44Ep{"cali1", true}}, {kind: "flush"}},
	// names3 universe: all three names in use, the child dispatch chain for prefix "cali1" exists
	"tree3": {
		{kind: "upd", id: 0, ep: c44Ep{"cali1a", true}}, {kind: "upd", id: 1, ep: c44Ep{"cali1b", true}}, {kind: "upd", id: 2, ep: c44Ep{"cali2x", false}}, {kind: "flush"}},
	"one-up": {
		{kind: "upd", id: 0, ep: c44Ep{"cali1", true}}, {kind: "flush"}},
	"split": {
		{kind: "upd", id: 1, ep: c44Ep{"cali1", true}}, {kind: "upd", id: 2, ep: c44Ep{"cali1", true}}, {kind: "upd", id: 0, ep: c44Ep{"cali2", true}}, {kind: "flush"}},
}

type c44State struct {
	cfg      c44Cfg
	m        *endpointManager
	filter   *mockTable
	raw      *mockTable
	mangle   *mockTable
	rt       *mockRouteTable
	renderer rules.RuleRenderer
	sched    *c44Sched
	baseline map[string]bool // chains present after the start-of-day flush that are not workload chains
	live     []*c44Ep        // reference environment: last update per id (nil = absent)
	batch    []string        // kinds of data events since the last flush
	nFlush   int
	shadowed bool // some flush happened while >=2 live endpoints claimed one name
	renamed  bool // some live endpoint changed its interface name somewhere in the history
	polSel   []int // pol variant: current selector variant of pol-a-e<i>
	nSince   int   // data events since the last flush
	// ownerAndShadowed: some flush in the history applied a batch that touched BOTH the owner of an interface name
	// and an endpoint shadowed on that name (only used to classify violation keys)
	ownerAndShadowed bool
	batchShadowed    map[types.WorkloadEndpointID]string // shadowed id -> name, at the start of the current batch
	batchOwners      map[string]types.WorkloadEndpointID
	batchTouched     map[types.WorkloadEndpointID]bool
}

func (st *c44State) noteTouched(i int) {
	if len(st.m.pendingWlEpUpdates) == 0 || st.batchTouched == nil {
		st.batchShadowed = map[types.WorkloadEndpointID]string{}
		for id, w := range st.m.shadowedWlEndpoints {
			st.batchShadowed[id] = w.Name
		}
		st.batchOwners = map[string]types.WorkloadEndpointID{}
		for n, id := range st.m.activeWlIfaceNameToID {
			st.batchOwners[n] = id
		}
		st.batchTouched = map[types.WorkloadEndpointID]bool{}
	}
	st.batchTouched[c44IDs[i]] = true
}

func (st *c44State) classifyBatch() {
	for id := range st.batchTouched {
		if name, ok := st.batchShadowed[id]; ok {
			if owner, ok := st.batchOwners[name]; ok && st.batchTouched[owner] {
				st.ownerAndShadowed = true
			}
		}
	}
	st.batchTouched = nil
}

func c44RenderConfig(ipvs bool) rules.Config {
	return rules.Config{
		IPIPEnabled:            true,
		IPSetConfigV4:          ipsets.NewIPVersionConfig(ipsets.IPFamilyV4, "cali", nil, nil),
		IPSetConfigV6:          ipsets.NewIPVersionConfig(ipsets.IPFamilyV6, "cali", nil, nil),
		MarkAccept:             0x8,
		MarkPass:               0x10,
		MarkScratch0:           0x20,
		MarkScratch1:           0x40,
		MarkDrop:               0x80,
		MarkEndpoint:           0xff00,
		MarkNonCaliEndpoint:    0x0100,
		KubeIPVSSupportEnabled: ipvs,
		WorkloadIfacePrefixes:  []string{"cali"},
		VXLANPort:              4789,
		VXLANVNI:               4096,
	}
}

func c44New(cfg c44Cfg) *c44State {
	rc := c44RenderConfig(cfg.ipvs)
	st := &c44State{
		cfg:      cfg,
		filter:   newMockTable("filter"),
		raw:      newMockTable("raw"),
		mangle:   newMockTable("mangle"),
		rt:       &mockRouteTable{currentRoutes: map[string][]routetable.Target{}},
		renderer: rules.NewRenderer(rc, false),
		live:     make([]*c44Ep, cfg.nIDs),
	}
	procSys := &testProcSys{state: map[string]string{}, pathsThatExist: map[string]bool{}}
	statusRec := &statusReportRecorder{currentState: map[any]string{}, extraInfo: map[any]any{}}
	nlDataplane := mocknetlink.New()
	la := linkaddrs.New(4, []string{"cali"}, &environment.FakeFeatureDetector{Features: environment.Features{}},
		10*time.Second, linkaddrs.WithNetlinkHandleShim(nlDataplane.NewMockNetlink))
	st.m = newEndpointManagerWithShims(
		&endpointManagerConfig{
			kubeIPVSSupportEnabled: cfg.ipvs,
			wlInterfacePrefixes:    []string{"cali"},
			bpfAttachType:          apiv3.BPFAttachOptionTCX,
			floatingIPsEnabled:     true,
		},
		st.raw, st.mangle, st.filter, st.renderer, st.rt, 4,
		rules.NewEndpointMarkMapper(rc.MarkEndpoint, rc.MarkNonCaliEndpoint),
		statusRec.endpointStatusUpdateCallback,
		procSys.write, procSys.stat, "1",
		nil, nil, &testHEPListener{}, common.NewCallbacks(), la, nil, nil,
	)
	st.sched = &c44Sched{prio: c44Perm(cfg.nIDs, 0)}
	c44Scheds.Store(st.m, st.sched)
	st.polSel = make([]int, cfg.nIDs)
	if cfg.pol {
		// the calc graph announces a policy before the first endpoint that uses it
		for i := 0; i < cfg.nIDs; i++ {
			st.m.OnUpdate(c44PolicyUpdate(fmt.Sprintf("pol-a-e%d", i), 0))
			st.m.OnUpdate(c44PolicyUpdate(fmt.Sprintf("pol-b-e%d", i), 0))
		}
	}
	st.flush(0)
	st.nFlush = 0
	st.baseline = map[string]bool{}
	for n := range st.filter.currentChains {
		st.baseline[n] = true
	}
	if cfg.base != "" {
		evs, ok := c44Bases[cfg.base]
		if !ok {
			panic("unknown base " + cfg.base)
		}
		for _, e := range evs {
			if e.kind == "flush" && !cfg.batched {
				continue // atomic system flushes after every event anyway
			}
			c44Apply(st, e)
		}
		st.batch = nil
	}
	return st
}

func c44Close(st *c44State) { c44Scheds.Delete(st.m) }

func (st *c44State) flush(k int) {
	if st.batchTouched != nil {
		st.classifyBatch()
	}
	st.sched.prio = c44Perm(st.cfg.nIDs, k)
	if err := st.m.ResolveUpdateBatch(); err != nil {
		panic(err)
	}
	if err := st.m.CompleteDeferredWork(); err != nil {
		panic(err)
	}
	st.nFlush++
	st.nSince = 0
	for _, n := range st.names() {
		if len(st.claimants(n)) > 1 {
			st.shadowed = true
		}
	}
}

func (st *c44State) names() []string {
	if st.cfg.names3 {
		return c44Names3
	}
	return c44Names
}

func (st *c44State) claimants(name string) []int {
	var out []int
	for i, e := range st.live {
		if e != nil && e.name == name {
			out = append(out, i)
		}
	}
	return out
}

type c44Ev struct {
	kind string // "upd", "rm", "flush", "polsel" (ActivePolicyUpdate changing the selector of pol-a-e<id> to variant perm)
	id   int
	ep   c44Ep
	perm int
}

func (e c44Ev) String() string {
	switch e.kind {
	case "upd":
		return fmt.Sprintf("upd(e%d,%s)", e.id, e.ep.String())
	case "rm":
		return fmt.Sprintf("rm(e%d)", e.id)
	case "polsel":
		return fmt.Sprintf("polsel(pol-a-e%d,%d)", e.id, e.perm)
	default:
		return fmt.Sprintf("flush:%d", e.perm)
	}
}

func c44Enabled(st *c44State, depth int) []c44Ev {
	var evs []c44Ev
	for i := 0; i < st.cfg.nIDs; i++ {
		for _, n := range st.names() {
			for _, up := range []bool{true, false} {
				ep := c44Ep{n, up}
				if st.live[i] != nil && *st.live[i] == ep && (!st.cfg.batched || len(st.m.pendingWlEpUpdates) == 0) {
					// identical re-send: kept only once per id (below) to bound the menu
					continue
				}
				evs = append(evs, c44Ev{kind: "upd", id: i, ep: ep})
			}
		}
		if st.live[i] != nil {
			evs = append(evs, c44Ev{kind: "upd", id: i, ep: *st.live[i]}) // duplicate update
		}
		evs = append(evs, c44Ev{kind: "rm", id: i}) // includes removal of an absent endpoint
	}
	if st.cfg.pol {
		for i := 0; i < st.cfg.nIDs; i++ {
			for v := range c44Selectors {
				if v != st.polSel[i] {
					evs = append(evs, c44Ev{kind: "polsel", id: i, perm: v})
				}
			}
		}
	}
	if st.cfg.batched && st.nSince > 0 {
		involved := len(st.m.pendingWlEpUpdates) + len(st.m.shadowedWlEndpoints)
		n := 1
		if involved > 1 {
			n = c44Fact(st.cfg.nIDs)
		}
		for k := 0; k < n; k++ {
			evs = append(evs, c44Ev{kind: "flush", perm: k})
		}
	}
	return evs
}

func (st *c44State) kindOf(e c44Ev) string {
	old := st.live[e.id]
	switch {
	case e.kind == "rm" && old == nil:
		return "remove-absent"
	case e.kind == "rm":
		return "remove"
	case old == nil:
		return "new"
	case old.name != e.ep.name:
		return "rename"
	default:
		return "update"
	}
}

func c44Apply(st *c44State, e c44Ev) {
	switch e.kind {
	case "upd":
		st.batch = append(st.batch, st.kindOf(e))
		if st.kindOf(e) == "rename" {
			st.renamed = true
		}
		// remove + re-add under another name inside one batch coalesces into a rename as far as the manager is concerned
		if w := st.m.activeWlEndpoints[c44IDs[e.id]]; w != nil && w.Name != e.ep.name {
			st.renamed = true
		}
		if w := st.m.shadowedWlEndpoints[c44IDs[e.id]]; w != nil && w.Name != e.ep.name {
			st.renamed = true
		}
		st.noteTouched(e.id)
		ep := e.ep
		st.live[e.id] = &ep
		st.m.OnUpdate(&proto.WorkloadEndpointUpdate{Id: c44ProtoID(e.id), Endpoint: c44Proto(e.id, &ep, st.cfg.pol)})
	case "rm":
		st.batch = append(st.batch, st.kindOf(e))
		st.noteTouched(e.id)
		st.live[e.id] = nil
		st.m.OnUpdate(&proto.WorkloadEndpointRemove{Id: c44ProtoID(e.id)})
	case "polsel":
		st.batch = append(st.batch, "polsel")
		st.polSel[e.id] = e.perm
		st.m.OnUpdate(c44PolicyUpdate(fmt.Sprintf("pol-a-e%d", e.id), e.perm))
	case "flush":
		st.flush(e.perm)
		return
	}
	st.nSince++
	if !st.cfg.batched {
		st.flush(0)
	}
}

// ---- oracle ----

func (st *c44State) render(name string, i int, e *c44Ep) []*generictables.Chain {
	var prof []string
	if i >= 0 {
		prof = []string{fmt.Sprintf("prof-e%d", i)}
	}
	return st.renderer.WorkloadEndpointToIptablesChains(name, st.m.epMarkMapper, e.up, st.tierGroups(i), prof, nil)
}

func (st *c44State) tierGroups(i int) []rules.TierPolicyGroups {
	if !st.cfg.pol || i < 0 {
		return nil
	}
	// pure function of the tiers (activePolicySelectors is empty throughout)
	return st.m.groupTieredPolicy(c44Tiers(i), includeInbound|includeOutbound)
}

// groupChains: the shared policy-group chains endpoint i needs.
func (st *c44State) groupChains(i int) []*generictables.Chain {
	var out []*generictables.Chain
	for _, tg := range st.tierGroups(i) {
		for _, gs := range [][]*rules.PolicyGroup{tg.IngressPolicies, tg.EgressPolicies} {
			for _, g := range gs {
				if !g.ShouldBeInlined() {
					out = append(out, st.renderer.PolicyGroupToIptablesChains(g)...)
				}
			}
		}
	}
	return out
}

func (st *c44State) routes(name string) []string {
	var out []string
	for _, t := range st.rt.currentRoutesByClass[routetable.RouteClassLocalWorkload][name] {
		out = append(out, t.CIDR.String())
	}
	sort.Strings(out)
	return out
}

// owner returns which live claimant's chains the interface carries: index, or -1 nothing present, -2 present
// but equal to no live claimant's rendering. Admin-down endpoints all render the same chains, so several
// claimants can match; the one the manager's own bookkeeping names is reported if it is among them.
func (st *c44State) owner(name string) (int, string) {
	o, _, d := st.owners(name)
	return o, d
}

func (st *c44State) owners(name string) (int, []int, string) {
	tmpl := st.render(name, -1, &c44Ep{name, true})
	present := 0
	for _, c := range tmpl {
		if _, ok := st.filter.currentChains[c.Name]; ok {
			present++
		}
	}
	if present == 0 {
		return -1, nil, ""
	}
	var matches []int
	for _, i := range st.claimants(name) {
		want := st.render(name, i, st.live[i])
		all := true
		for _, c := range want {
			got, ok := st.filter.currentChains[c.Name]
			if !ok || !reflect.DeepEqual(*got, *c) {
				all = false
				break
			}
		}
		if all {
			matches = append(matches, i)
		}
	}
	if len(matches) > 0 {
		if id, ok := st.m.activeWlIfaceNameToID[name]; ok {
			for _, i := range matches {
				if c44IDs[i] == id {
					return i, matches, ""
				}
			}
		}
		return matches[0], matches, ""
	}
	var sb strings.Builder
	for _, c := range tmpl {
		if got, ok := st.filter.currentChains[c.Name]; ok {
			fmt.Fprintf(&sb, "%s=%v; ", got.Name, got.Rules)
		} else {
			fmt.Fprintf(&sb, "%s=<missing>; ", c.Name)
		}
	}
	return -2, nil, sb.String()
}

func (st *c44State) envString() string {
	var parts []string
	for i, e := range st.live {
		parts = append(parts, fmt.Sprintf("e%d=%s", i, e.String()))
	}
	if st.cfg.pol {
		parts = append(parts, fmt.Sprintf("selectors=%v", st.polSel))
	}
	return strings.Join(parts, " ")
}

var c44RefWinners sync.Map // cfg+env -> map[string]int or string (error)

type c44Ref struct {
	winners  map[string]int
	dispatch map[string]string // the dispatch tree (chain name -> rules) a fresh manager programs for this live set
	problem  string
}

var c44DispatchRoots = []string{rules.ChainFromWorkloadDispatch, rules.ChainToWorkloadDispatch, rules.ChainDispatchSetEndPointMark,
	rules.ChainDispatchFromEndPointMark, rules.ChainDispatchToHostEndpoint, rules.ChainDispatchFromHostEndpoint,
	rules.ChainDispatchToHostEndpointForward, rules.ChainDispatchFromHostEndPointForward}

func c44IsDispatchChain(name string) bool {
	for _, r := range c44DispatchRoots {
		if name == r || strings.HasPrefix(name, r+"-") {
			return true
		}
	}
	return false
}

// dispatchTree: every dispatch chain (roots and prefix-tree children, workload, endpoint-mark and host-endpoint) in
// the filter table.
func (st *c44State) dispatchTree() map[string]string {
	out := map[string]string{}
	for n, c := range st.filter.currentChains {
		if c44IsDispatchChain(n) {
			out[n] = fmt.Sprint(c.Rules)
		}
	}
	return out
}

// danglingDispatchTargets: jump/goto targets of dispatch chains that do not exist in the filter table (child
// dispatch chains and per-endpoint chains are all programmed by the endpoint manager itself).
func (st *c44State) danglingDispatchTargets() []string {
	var out []string
	for n, c := range st.filter.currentChains {
		if !c44IsDispatchChain(n) {
			continue
		}
		for _, r := range c.Rules {
			var target string
			switch a := r.Action.(type) {
			case iptables.GotoAction:
				target = a.Target
			case iptables.JumpAction:
				target = a.Target
			}
			if target == "" {
				continue
			}
			if _, ok := st.filter.currentChains[target]; !ok {
				out = append(out, n+" -> "+target)
			}
		}
	}
	sort.Strings(out)
	return out
}

// refWinners: which claimant a FRESH manager prefers when it is simply told the live endpoints (one flush per
// endpoint), in ascending and in descending id order. History-independence of the preferred endpoint means
// every explored history must agree with it.
func (st *c44State) refWinners() *c44Ref {
	key := fmt.Sprintf("%d|%v|%v|%v|%s", st.cfg.nIDs, st.cfg.ipvs, st.cfg.pol, st.cfg.names3, st.envString())
	if v, ok := c44RefWinners.Load(key); ok {
		return v.(*c44Ref)
	}
	ref := &c44Ref{}
	var runs []map[string]int
	for _, desc := range []bool{false, true} {
		f := c44New(c44Cfg{nIDs: st.cfg.nIDs, ipvs: st.cfg.ipvs, pol: st.cfg.pol, names3: st.cfg.names3})
		for i, v := range st.polSel {
			if v != 0 {
				c44Apply(f, c44Ev{kind: "polsel", id: i, perm: v})
			}
		}
		for j := 0; j < len(st.live); j++ {
			i := j
			if desc {
				i = len(st.live) - 1 - j
			}
			if st.live[i] != nil {
				c44Apply(f, c44Ev{kind: "upd", id: i, ep: *st.live[i]})
			}
		}
		w := map[string]int{}
		for _, n := range st.names() {
			w[n], _ = f.owner(n)
		}
		if !desc {
			ref.dispatch = f.dispatchTree()
		}
		c44Close(f)
		runs = append(runs, w)
	}
	if !reflect.DeepEqual(runs[0], runs[1]) {
		ref.problem = fmt.Sprintf("fresh manager told %s in ascending id order programs owners %v, in descending order %v", st.envString(), runs[0], runs[1])
	}
	ref.winners = runs[0]
	c44RefWinners.Store(key, ref)
	return ref
}

func (st *c44State) trigger() string {
	mode := "atomic"
	if st.cfg.batched {
		mode = "batched"
	}
	seen := map[string]bool{}
	var kinds []string
	for _, k := range st.batch {
		if !seen[k] {
			seen[k] = true
			kinds = append(kinds, k)
		}
	}
	sort.Strings(kinds)
	return mode + ":" + strings.Join(kinds, "+")
}

func c44Check(st *c44State, hist []c44Ev) []hbfs.Fail {
	if len(st.m.pendingWlEpUpdates) > 0 {
		if len(hist) > 0 && hist[len(hist)-1].kind == "flush" {
			return []hbfs.Fail{{Key: "C44:pending-updates-left-after-flush", Msg: fmt.Sprint(st.m.pendingWlEpUpdates)}}
		}
		return nil // mid-batch: the statement speaks about the state after the updates have been applied
	}
	if st.nSince > 0 {
		return nil // mid-batch (e.g. only a policy update queued so far)
	}
	var fails []hbfs.Fail
	trig := st.trigger()
	add := func(class, msg string) {
		tag := "no-rename-in-history"
		if st.renamed {
			tag = "rename-in-history"
		} else if st.ownerAndShadowed {
			tag = "owner-and-shadowed-endpoint-in-one-batch"
		}
		fails = append(fails, hbfs.Fail{Key: "C44:" + tag + ":" + class + ":" + trig, Msg: msg + " [env: " + st.envString() + "]"})
	}
	ref := st.refWinners()
	if ref.problem != "" {
		fails = append(fails, hbfs.Fail{Key: "C44:preferred-endpoint-depends-on-arrival-order", Msg: ref.problem})
	}
	expNames := map[string]bool{}
	for n := range st.baseline {
		expNames[n] = true
	}
	active := map[types.WorkloadEndpointID]*proto.WorkloadEndpoint{}
	for _, name := range st.names() {
		cl := st.claimants(name)
		own, matches, detail := st.owners(name)
		inMatches := func(i int) bool {
			for _, x := range matches {
				if x == i {
					return true
				}
			}
			return false
		}
		rts := st.routes(name)
		if len(cl) == 0 {
			if own != -1 {
				add("state-left-for-unclaimed-iface", fmt.Sprintf("no live endpoint uses %s but the filter table still has its endpoint chains: %s", name, detail))
			}
			if len(rts) > 0 {
				add("routes-left-for-unclaimed-iface", fmt.Sprintf("no live endpoint uses %s but routes %v remain", name, rts))
			}
			continue
		}
		for _, c := range st.render(name, -1, &c44Ep{name, true}) {
			expNames[c.Name] = true
		}
		// for the dispatch expectation any claimant will do: only the name enters the dispatch chains
		active[c44IDs[cl[0]]] = c44Proto(cl[0], st.live[cl[0]], st.cfg.pol)
		switch own {
		case -1:
			add("claimed-iface-has-no-endpoint-chains", fmt.Sprintf("%s is used by live endpoints %v but has no endpoint chains", name, cl))
			if len(rts) > 0 {
				add("routes-without-chains", fmt.Sprintf("%s has routes %v but no chains", name, rts))
			}
			continue
		case -2:
			add("iface-chains-match-no-live-claimant", fmt.Sprintf("%s (claimed by %v) carries chains that are not those of any live claimant's current state: %s", name, cl, detail))
			continue
		}
		for _, gc := range st.groupChains(own) {
			expNames[gc.Name] = true
			if got, ok := st.filter.currentChains[gc.Name]; !ok {
				add("policy-group-chain-missing", fmt.Sprintf("%s carries e%d's chains but the policy group chain %s they jump to is missing", name, own, gc.Name))
			} else if !reflect.DeepEqual(got.Rules, gc.Rules) {
				add("policy-group-chain-wrong", gc.Name)
			}
		}
		var want []string
		if st.live[own].up {
			want = []string{fmt.Sprintf("10.0.0.%d/32", own+1)}
		}
		if !reflect.DeepEqual(rts, want) {
			if !st.live[own].up {
				add("routes-for-admin-down-endpoint", fmt.Sprintf("%s carries the chains of e%d which is administratively down, yet routes %v exist", name, own, rts))
			} else {
				add("routes-not-those-of-chain-owner", fmt.Sprintf("%s carries the chains of e%d (up) but routes are %v, want %v", name, own, rts, want))
			}
		}
		if w, ok := ref.winners[name]; ok && w >= 0 && !inMatches(w) {
			add("preferred-endpoint-depends-on-history", fmt.Sprintf("%s carries the state of e%d; a fresh manager given the same live endpoints prefers e%d", name, own, w))
		}
		// internal bookkeeping must agree with what was programmed
		if id, ok := st.m.activeWlIfaceNameToID[name]; !ok || !inMatches(c44Index(id)) {
			add("bookkeeping-disagrees-with-dataplane", fmt.Sprintf("%s carries e%d's chains but activeWlIfaceNameToID says %v (present=%v)", name, own, id, ok))
		}
	}
	// dispatch chains + nothing else in the table
	var disp []*generictables.Chain
	disp = append(disp, st.renderer.WorkloadDispatchChains(active)...)
	if st.cfg.ipvs {
		disp = append(disp, st.renderer.EndpointMarkDispatchChains(st.m.epMarkMapper, active, map[string]types.HostEndpointID{})...)
	}
	for _, c := range disp {
		expNames[c.Name] = true
		got, ok := st.filter.currentChains[c.Name]
		if !ok {
			add("dispatch-chain-missing", c.Name)
		} else if !reflect.DeepEqual(got.Rules, c.Rules) {
			add("dispatch-entries-wrong", fmt.Sprintf("%s = %v, want %v", c.Name, got.Rules, c.Rules))
		}
	}
	if d := st.danglingDispatchTargets(); len(d) > 0 {
		add("dispatch-chain-jumps-to-missing-chain", fmt.Sprintf("dispatch rules point at chains that are not in the filter table: %v", d))
	}
	if ref.problem == "" && len(fails) == 0 {
		// everything above held, so the interfaces carry the reference owners' state: the whole dispatch tree must
		// then be identical to the one a fresh manager programs for the same live endpoints
		if got := st.dispatchTree(); !reflect.DeepEqual(got, ref.dispatch) {
			add("dispatch-tree-differs-from-fresh-manager", fmt.Sprintf("dispatch tree %v, fresh manager %v", got, ref.dispatch))
		}
	}
	for n := range st.filter.currentChains {
		if !expNames[n] {
			add("unexpected-chain-left-in-filter-table", n)
		}
	}
	for n := range st.rt.currentRoutesByClass[routetable.RouteClassLocalWorkload] {
		known := false
		for _, x := range st.names() {
			known = known || x == n
		}
		if !known && len(st.routes(n)) > 0 {
			add("routes-for-unknown-iface", n)
		}
	}
	return fails
}

func c44ChainSig(c *generictables.Chain) string { return fmt.Sprintf("%s=%v", c.Name, c.Rules) }

func c44EpMapSig(m map[types.WorkloadEndpointID]*proto.WorkloadEndpoint) string {
	var parts []string
	for id, w := range m {
		if w == nil {
			parts = append(parts, fmt.Sprintf("e%d:nil", c44Index(id)))
		} else {
			parts = append(parts, fmt.Sprintf("e%d:%s/%s/%v", c44Index(id), w.Name, w.State, w.ProfileIds))
		}
	}
	sort.Strings(parts)
	return strings.Join(parts, ",")
}

func c44Key(st *c44State) string {
	var sb strings.Builder
	m := st.m
	fmt.Fprintf(&sb, "env{%s} act{%s} shad{%s} pend{%s} ", st.envString(), c44EpMapSig(m.activeWlEndpoints), c44EpMapSig(m.shadowedWlEndpoints), c44EpMapSig(m.pendingWlEpUpdates))
	var parts []string
	for n, id := range m.activeWlIfaceNameToID {
		parts = append(parts, fmt.Sprintf("%s>e%d", n, c44Index(id)))
	}
	sort.Strings(parts)
	fmt.Fprintf(&sb, "n2id{%s} ", strings.Join(parts, ","))
	parts = parts[:0]
	for id, cs := range m.activeWlIDToChains {
		var ns []string
		for _, c := range cs {
			ns = append(ns, c.Name)
		}
		parts = append(parts, fmt.Sprintf("e%d:%v", c44Index(id), ns))
	}
	sort.Strings(parts)
	fmt.Fprintf(&sb, "id2ch{%s} ", strings.Join(parts, ","))
	parts = parts[:0]
	for _, c := range st.filter.currentChains {
		parts = append(parts, c44ChainSig(c))
	}
	sort.Strings(parts)
	fmt.Fprintf(&sb, "filter{%s} ", strings.Join(parts, ";"))
	for _, n := range st.names() {
		fmt.Fprintf(&sb, "rt[%s]=%v ", n, st.routes(n))
	}
	parts = parts[:0]
	for n, cs := range m.ifaceNameToPolicyGroupChainNames {
		parts = append(parts, fmt.Sprintf("%s:%v", n, cs))
	}
	for n, k := range m.policyChainRefCounts {
		parts = append(parts, fmt.Sprintf("rc[%s]=%d", n, k))
	}
	sort.Strings(parts)
	fmt.Fprintf(&sb, "pg{%s} ", strings.Join(parts, ","))
	parts = parts[:0]
	for id, sel := range m.activePolicySelectors {
		parts = append(parts, id.Name+"="+sel)
	}
	for id := range m.dirtyPolicyIDs.All() {
		parts = append(parts, "dirty:"+id.Name)
	}
	sort.Strings(parts)
	fmt.Fprintf(&sb, "sel{%s} since=%v ", strings.Join(parts, ","), st.nSince > 0)
	rec := m.wlIfaceNamesToReconfigure.Slice()
	sort.Strings(rec)
	fmt.Fprintf(&sb, "renamed=%v oas=%v reconf%v flags=%v/%v spoof=%d ", st.renamed, st.ownerAndShadowed, rec, m.needToCheckDispatchChains, m.needToCheckEndpointMarkChains, len(m.sourceSpoofingConfig))
	if st.cfg.batched {
		// the trigger class is part of the violation key, so keep distinct batches apart
		fmt.Fprintf(&sb, "batch=%s", st.trigger())
	}
	return sb.String()
}

func c44Spec(cfg c44Cfg, name string, depth int, graph bool) *hbfs.Spec[*c44State, c44Ev] {
	sp := &hbfs.Spec[*c44State, c44Ev]{
		Name:     name,
		New:      func() *c44State { return c44New(cfg) },
		Apply:    func(st *c44State, e c44Ev) {
			if e.kind != "flush" && st.nSince == 0 {
				st.batch = nil
			}
			c44Apply(st, e)
		},
		Enabled:  c44Enabled,
		Check:    c44Check,
		Close:    c44Close,
		Show:     func(e c44Ev) string { return e.String() },
		MaxDepth: depth,
		Workers:  6,
		Nontrivial: func(st *c44State) bool {
			return st.shadowed && st.nSince == 0
		},
		Outcome: func(st *c44State) string {
			if st.nSince > 0 {
				return "mid-batch"
			}
			var parts []string
			for _, n := range st.names() {
				o, _ := st.owner(n)
				parts = append(parts, fmt.Sprintf("%s:claim%v->e%d rt=%d", n, st.claimants(n), o, len(st.routes(n))))
			}
			return strings.Join(parts, " ")
		},
		PanicKey: func(val string, hist []c44Ev) string {
			l := val
			if i := strings.IndexByte(l, '\n'); i >= 0 {
				l = l[:i]
			}
			if len(l) > 100 {
				l = l[:100]
			}
			return "C44:panic:" + l
		},
	}
	if graph {
		sp.Key = c44Key
	}
	return sp
}

func TestVerif_C44(t *testing.T) {
	logrus.SetLevel(logrus.PanicLevel)
	logrus.StandardLogger().ExitFunc = func(int) { panic("logrus.Fatal") }
	gomega.RegisterFailHandler(func(m string, _ ...int) { panic("gomega: " + m) })
	vk.Run(t, "C44", func(c *vk.Ctx) {
		c.Rule("state = (reference environment: last update per endpoint id; endpointManager internals: active/shadowed/pending endpoint maps, iface->id map, per-id chain lists, dirty flags; mock filter table contents; mock route table); " +
			"transition = WorkloadEndpointUpdate(id, iface name, admin state) incl. duplicates and renames, WorkloadEndpointRemove(id) incl. absent ids, (policy variant) ActivePolicyUpdate changing the selector of a policy referenced by an endpoint's tier, and (batched system) flush:k with k = the order in which the pending-update map is visited; " +
			"each transition replays the history on a fresh real endpointManager; non-trivial = a flushed state whose history had >=2 live endpoints claiming one interface name")
		c.Assume("rendering of one endpoint's chains is delegated to the real rules renderer on both sides of the comparison (the property is about WHICH endpoint's state an interface carries)")
		c.Assume("batched system: `range m.pendingWlEpUpdates` is redirected (source rewrite at build time) to an iterator whose visiting order is a priority permutation of the endpoint ids chosen by the flush event; an entry added during the pass is visited in the same pass, ordered by the same priorities")
		if rf := c.ReplayFile(); rf != "" {
			var d struct {
				Spec    string
				History []string
			}
			if err := vk.LoadReplay(rf, &d); err != nil {
				c.ToolError(err.Error())
				return
			}
			cfg := c44Cfg{nIDs: 3, batched: strings.Contains(d.Spec, "batched"), ipvs: strings.Contains(d.Spec, "ipvs"), pol: strings.Contains(d.Spec, "-pol-")}
			if strings.Contains(d.Spec, "4ids") {
				cfg.nIDs = 4
			}
			for bn := range c44Bases {
				if strings.Contains(d.Spec, "base-"+bn) {
					cfg.base = bn
				}
			}
			cfg.names3 = strings.Contains(d.Spec, "names3")
			fails, err := hbfs.Replay(c44Spec(cfg, d.Spec, 99, false), d.History)
			if err != nil {
				c.ToolError(err.Error())
			}
			// the explorer evaluates the oracle only in the state a history ENDS in; do the same here (the
			// step-by-step replay above additionally evaluates it after every prefix)
			if err == nil {
				sp := c44Spec(cfg, d.Spec, 99, false)
				st := sp.New()
				var hist []c44Ev
				ok := true
				for i, want := range d.History {
					found := false
					for _, ev := range sp.Enabled(st, i) {
						if sp.Show(ev) == want {
							sp.Apply(st, ev)
							hist = append(hist, ev)
							found = true
							break
						}
					}
					if !found {
						ok = false
						break
					}
				}
				if ok {
					fails = append(fails, sp.Check(st, hist)...)
					fmt.Printf("INFO C44 replay end state: %s\n", c44Key(st))
				}
			}
			for _, f := range fails {
				c.Violation(f.Key, map[string]any{"spec": d.Spec, "history": d.History, "msg": f.Msg})
			}
			c.Add("states", 1)
			c.Add("transitions", int64(len(d.History)))
			c.Sample(map[string]any{"replayed": d.History})
			return
		}
		c.Sample(map[string]any{"system": "atomic", "history": []string{"upd(e1,cali1/up)", "upd(e0,cali1/down)", "upd(e0,cali2/up)", "rm(e1)"},
			"meaning": "e1 owns cali1; e0 (preferred) takes it over while admin-down (no routes); e0 moves to cali2; e1 removed"})
		// 1. atomic system, 3 ids, graph mode to fixpoint (the depth bound is not reached)
		hbfs.Explore(c, c44Spec(c44Cfg{nIDs: 3}, "wep-atomic-3ids-graph", c.Pick(12, 20), true))
		// 2. atomic system, tree mode (no reliance on the state key)
		hbfs.Explore(c, c44Spec(c44Cfg{nIDs: 3}, "wep-atomic-3ids-tree", c.Pick(3, 4), false))
		// 3. batched system with enumerated map order
		st := hbfs.Explore(c, c44Spec(c44Cfg{nIDs: 3, batched: true}, "wep-batched-3ids-graph", c.Pick(5, 7), true))
		_ = st
		// 3b. batched system started with shadowing already in place (depth spent on the batches that follow)
		for _, bn := range []string{"two-on-cali1", "three-on-cali1", "split"} {
			hbfs.Explore(c, c44Spec(c44Cfg{nIDs: 3, batched: true, base: bn}, "wep-batched-base-"+bn+"-graph", c.Pick(3, 5), true))
		}
		// 4. IPVS mark chains on (endpoint-mark dispatch is part of the dispatch state)
		hbfs.Explore(c, c44Spec(c44Cfg{nIDs: 3, ipvs: true}, "wep-atomic-ipvs-3ids-graph", c.Pick(6, 20), true))
		// 4b. three interface names of which two share a sub-prefix: child dispatch chains appear / disappear / reappear
		hbfs.Explore(c, c44Spec(c44Cfg{nIDs: 3, names3: true}, "wep-atomic-names3-graph", c.Pick(4, 20), true))
		hbfs.Explore(c, c44Spec(c44Cfg{nIDs: 3, names3: true, base: "tree3"}, "wep-atomic-names3-base-tree3-graph", c.Pick(3, 6), true))
		hbfs.Explore(c, c44Spec(c44Cfg{nIDs: 3, names3: true, ipvs: true, base: "tree3"}, "wep-atomic-names3-ipvs-base-tree3-graph", c.Pick(3, 6), true))
		hbfs.Explore(c, c44Spec(c44Cfg{nIDs: 3, names3: true, batched: true, base: "tree3"}, "wep-batched-names3-base-tree3-graph", c.Pick(3, 5), true))
		// 5. endpoints with a reference-counted policy-group chain
		hbfs.Explore(c, c44Spec(c44Cfg{nIDs: 3, pol: true}, "wep-atomic-pol-3ids-graph", c.Pick(6, 20), true))
		// 5b. policy selector changes (ActivePolicyUpdate for a policy the endpoints' tiers reference) falling into
		//     the same batch as updates / removals of those endpoints
		for _, bn := range []string{"one-up", "two-on-cali1"} {
			hbfs.Explore(c, c44Spec(c44Cfg{nIDs: 3, batched: true, pol: true, base: bn}, "wep-batched-pol-base-"+bn+"-graph", c.Pick(3, 5), true))
		}
		if c.Thorough() {
			hbfs.Explore(c, c44Spec(c44Cfg{nIDs: 4}, "wep-atomic-4ids-graph", 20, true))
		}
		// was the iteration-order rewrite effective?
		probe := c44New(c44Cfg{nIDs: 3, batched: true})
		c44Apply(probe, c44Ev{kind: "upd", id: 0, ep: c44Ep{"cali1", true}})
		c44Apply(probe, c44Ev{kind: "flush"})
		if atomic.LoadInt64(&probe.sched.calls) == 0 {
			c.NotExhaustive("the source rewrite of `range m.pendingWlEpUpdates` did not apply to this tree: batched flushes visited the pending map in Go map order (sampled, not enumerated)")
		}
		c44Close(probe)
	})
}

package labelindex

// C04 — large-count slice: many endpoints / network sets contributing the SAME member.
//
// The small-universe search never has more than a handful of contributors per member, so counter
// width / boundary behaviour of the reference counting is out of its reach by construction. Here,
// for every N in a list around the powers of two (… 127,128,129, 255,256,257, 511,512,513) and for
// endpoints, network sets (through OnUpdate), a mix, and contributors listing the member twice, a
// scripted sequence is executed on the real index in both suppression modes: add all, move one
// contributor to another address and back, make one stop matching a selector and back, list the
// member twice in one contributor, re-send, remove one, add it back, add an (N+1)th, remove it,
// delete and re-create an IP set (rescan with N contributors), then remove every contributor one
// by one down through every boundary. The full C04 oracle (c04Check: emitted membership vs
// reference, event stream, reference count == number of contributions) runs after EVERY step.

import (
	"fmt"
	"sync"
	"sync/atomic"

	"github.com/projectcalico/calico/zzverif/hbfs"
	"github.com/projectcalico/calico/zzverif/vk"
)

const (
	c04LShared = "10.1.0.1/32"
	c04LOther  = "10.1.0.2/32"
	c04LNet    = "10.1.0.0/24"
)

var c04LargeNs = []int{1, 2, 127, 128, 129, 255, 256, 257, 511, 512, 513}

// c04LargeUniverse has n+1 endpoints x0..xn and n+1 network sets y0..yn, all with the same variants.
func c04LargeUniverse(n int) *c04Universe {
	http := []c04Port{{"http", "tcp", 80}}
	u := &c04Universe{
		name:    fmt.Sprintf("L%d", n),
		epVars:  map[string][]*c04EpVar{},
		nsVars:  map[string][]*c04EpVar{},
		parents: nil,
		sets: []*c04SetVar{
			{Sel: `all()`},
			{Sel: `a == "1"`},
			{Sel: `all()`, Proto: "tcp", Port: "http"},
		},
	}
	for i := 0; i <= n; i++ {
		x := fmt.Sprintf("x%d", i)
		y := fmt.Sprintf("y%d", i)
		u.eps = append(u.eps, x)
		u.netsets = append(u.netsets, y)
		u.epVars[x] = []*c04EpVar{
			{Labels: map[string]string{"a": "1"}, Nets: []string{c04LShared}, Ports: http},
			{Labels: map[string]string{"a": "1"}, Nets: []string{c04LOther}, Ports: http},
			{Labels: map[string]string{"a": "2"}, Nets: []string{c04LShared}, Ports: http},
			{Labels: map[string]string{"a": "1"}, Nets: []string{c04LShared, c04LShared}, Ports: http},
		}
		u.nsVars[y] = []*c04EpVar{
			{Labels: map[string]string{"a": "1"}, Nets: []string{c04LNet, c04LShared}},
			{Labels: map[string]string{"a": "1"}, Nets: []string{c04LOther}},
			{Labels: map[string]string{"a": "2"}, Nets: []string{c04LNet, c04LShared}},
			{Labels: map[string]string{"a": "1"}, Nets: []string{c04LShared, c04LShared}},
		}
	}
	u.init()
	return u
}

type c04LargeScript struct {
	n         int
	kind      string // ep ns mixed ep-dup ns-dup
	suppress  bool
	setsFirst bool
}

func (sc c04LargeScript) name() string {
	mode := "nosuppress"
	if sc.suppress {
		mode = "suppress"
	}
	ord := "setslast"
	if sc.setsFirst {
		ord = "setsfirst"
	}
	// "npidx-L<n>-<kind>-<ord>-<mode>-script": the replay code picks universe and mode from this
	return fmt.Sprintf("npidx-L%d-%s-%s-%s-script", sc.n, sc.kind, ord, mode)
}

// events builds the scripted history.
func (sc c04LargeScript) events() []c04Ev {
	n := sc.n
	base := 0
	if sc.kind == "ep-dup" || sc.kind == "ns-dup" {
		base = 3 // every contributor lists the member twice
	}
	set := func(i, v int) c04Ev {
		isNS := sc.kind == "ns" || sc.kind == "ns-dup" || (sc.kind == "mixed" && i%2 == 1)
		if isNS {
			return c04Ev{"NS", fmt.Sprintf("y%d", i), v}
		}
		return c04Ev{"EP", fmt.Sprintf("x%d", i), v}
	}
	del := func(i int) c04Ev {
		e := set(i, 0)
		return c04Ev{e.Op + "DEL", e.ID, 0}
	}
	sets := []c04Ev{{"SET", "S0", 0}, {"SET", "S1", 1}, {"SET", "S2", 2}}
	var h []c04Ev
	if sc.setsFirst {
		h = append(h, sets...)
	}
	for i := 0; i < n; i++ {
		h = append(h, set(i, base))
	}
	if !sc.setsFirst {
		h = append(h, sets...)
	}
	h = append(h,
		set(0, 1), set(0, base), // move one contributor to another address and back
		set(0, 2), set(0, base), // stop matching a == "1" and back
		set(0, 3), set(0, base), // list the member twice in one contributor
		set(0, base), // re-send
		del(n-1), set(n-1, base),
		set(n, base), del(n), // an (N+1)th contributor comes and goes
		set(n, 3), set(n, 1), del(n),
		c04Ev{"SETDEL", "S1", 0}, c04Ev{"SET", "S1", 1}, // rescan with N contributors
		c04Ev{"SETDEL", "S0", 0}, c04Ev{"SET", "S0", 0},
	)
	for i := 0; i < n; i++ {
		h = append(h, del(i))
	}
	return h
}

func c04LargeScripts() []c04LargeScript {
	var out []c04LargeScript
	for _, suppress := range []bool{false, true} {
		for _, first := range []bool{true, false} {
			for _, n := range c04LargeNs {
				for _, kind := range []string{"ep", "ns", "mixed"} {
					out = append(out, c04LargeScript{n, kind, suppress, first})
				}
			}
			// two references per contributor: the boundaries are crossed at half the count
			for _, n := range []int{63, 64, 65, 127, 128, 129, 256} {
				for _, kind := range []string{"ep-dup", "ns-dup"} {
					out = append(out, c04LargeScript{n, kind, suppress, first})
				}
			}
		}
	}
	return out
}

// c04RunLargeScript executes one script with the oracle after every step; returns steps executed.
func c04RunLargeScript(c *vk.Ctx, sc c04LargeScript) int64 {
	u := c04LargeUniverse(sc.n)
	s := c04New(u, sc.suppress)
	hist := sc.events()
	maxRef := 0
	for i, e := range hist {
		var fails []hbfs.Fail
		err := vk.Catch(func() error {
			c04Apply(s, e)
			fails = c04Check(s, hist[:i+1])
			return nil
		})
		show := func() []string {
			out := make([]string, i+1)
			for j := range out {
				out[j] = hist[j].String()
			}
			return out
		}
		if err != nil {
			pe := err.(*vk.PanicError)
			mode := map[bool]string{false: "nosuppress", true: "suppress"}[sc.suppress]
			c.Violation("C04:"+mode+":panic:"+e.Op+":"+c04PanicLine(pe.Val), map[string]any{"spec": sc.name(), "history": show(), "panic": pe.Val, "stack": pe.Stack})
			return int64(i + 1)
		}
		if len(fails) > 0 {
			for _, f := range fails {
				c.Violation(f.Key, map[string]any{"spec": sc.name(), "history": show(), "msg": f.Msg, "contributors": sc.n, "step": i})
			}
			return int64(i + 1)
		}
		for _, d := range s.idx.ipSetDataByID {
			for _, n := range d.memberToRefCount {
				if int(n) > maxRef {
					maxRef = int(n)
				}
			}
		}
	}
	c.Nontrivial("large|" + sc.name())
	c.Outcome(fmt.Sprintf("large max-refcount=%d", maxRef))
	c.Max("max_contributors_per_member", int64(maxRef))
	return int64(len(hist))
}

func c04Large(c *vk.Ctx, workers int) {
	scripts := c04LargeScripts()
	var next, steps int64 = -1, 0
	var stopped int32
	var wg sync.WaitGroup
	for w := 0; w < workers; w++ {
		wg.Add(1)
		go func() {
			defer wg.Done()
			for {
				i := int(atomic.AddInt64(&next, 1))
				if i >= len(scripts) {
					return
				}
				if c.Expired() {
					atomic.StoreInt32(&stopped, 1)
					return
				}
				atomic.AddInt64(&steps, c04RunLargeScript(c, scripts[i]))
			}
		}()
	}
	wg.Wait()
	if atomic.LoadInt32(&stopped) == 1 {
		c.Capped("large-count slice: deadline reached before all scripts ran")
	}
	c.Add("states", steps)
	c.Add("transitions", steps)
	c.Extra("large_count_scripts", len(scripts))
	c.Extra("large_count_steps", steps)
	c.Extra("large_count_contributor_counts", c04LargeNs)
	ex := c04LargeScript{n: 256, kind: "ep", suppress: false, setsFirst: true}.events()
	c.Sample(map[string]any{"large_count_script": "256 endpoints sharing 10.1.0.1 (sets first)", "steps": len(ex),
		"tail_after_adds": []string{ex[259].String(), ex[260].String(), ex[261].String(), ex[262].String(), ex[267].String(), ex[268].String(), ex[269].String(), ex[270].String()}})
	fmt.Printf("enum %-28s scripts=%d steps=%d\n", "large-count", len(scripts), steps)
}

package labelindex

// C04 — IP set contents equal the addresses selected by the rule (direct driver).
//
// Shape H: explicit-state search over the real SelectorAndNamedPortIndex, in both overlap-suppression
// modes. Events: UpdateEndpointOrSet / DeleteEndpoint (endpoints sharing an IP, duplicate nets,
// named ports tcp/udp, parent lists incl. [p1,p1]), network-set updates through OnUpdate (nested and
// duplicate CIDRs, a /32 inside, /0), UpdateParentLabels / DeleteParentLabels, UpdateIPSet /
// DeleteIPSet (selector-only and named-port sets). After every event the emitted membership E
// (tracked from OnMemberAdded/OnMemberRemoved) is compared with the reference R computed from the
// environment by direct evaluation.

import (
	"fmt"
	"math/big"
	"net/netip"
	"regexp"
	"sort"
	"strings"
	"testing"

	"github.com/projectcalico/api/pkg/lib/numorstring"
	"github.com/sirupsen/logrus"

	"github.com/projectcalico/calico/felix/ip"
	"github.com/projectcalico/calico/felix/labelindex/ipsetmember"
	"github.com/projectcalico/calico/lib/std/uniquelabels"
	"github.com/projectcalico/calico/libcalico-go/lib/backend/api"
	"github.com/projectcalico/calico/libcalico-go/lib/backend/model"
	calinet "github.com/projectcalico/calico/libcalico-go/lib/net"
	"github.com/projectcalico/calico/libcalico-go/lib/selector"
	"github.com/projectcalico/calico/zzverif/hbfs"
	"github.com/projectcalico/calico/zzverif/vk"
)

type c04Port struct {
	Name  string
	Proto string // "tcp" / "udp"
	Port  uint16
}

type c04EpVar struct {
	Labels  map[string]string
	Nets    []string
	Ports   []c04Port
	Parents []string
	// prepared
	labelsU uniquelabels.Map
	cidrs   []ip.CIDR
	ports   []model.EndpointPort
}

type c04SetVar struct {
	Sel   string
	Proto string // "" (selector only), "tcp", "udp"
	Port  string
	sel   *selector.Selector
}

type c04Universe struct {
	name      string
	eps       []string
	epVars    map[string][]*c04EpVar
	netsets   []string
	nsVars    map[string][]*c04EpVar // Ports unused
	parents   []string
	parLabels []map[string]string
	sets      []*c04SetVar // content-addressed IP sets: id "S<i>"
	reuseIDs  []string     // ids whose content may change in place (UpdateIPSet with a different selector)
}

func (u *c04Universe) init() {
	prep := func(v *c04EpVar) {
		if v.Labels != nil {
			v.labelsU = uniquelabels.Make(v.Labels)
		}
		for _, n := range v.Nets {
			v.cidrs = append(v.cidrs, ip.MustParseCIDROrIP(n))
		}
		for _, p := range v.Ports {
			v.ports = append(v.ports, model.EndpointPort{Name: p.Name, Protocol: numorstring.ProtocolFromString(strings.ToUpper(p.Proto)), Port: p.Port})
		}
	}
	for _, vs := range u.epVars {
		for _, v := range vs {
			prep(v)
		}
	}
	for _, vs := range u.nsVars {
		for _, v := range vs {
			prep(v)
		}
	}
	for _, s := range u.sets {
		sel, err := selector.Parse(s.Sel)
		if err != nil {
			panic(err)
		}
		s.sel = sel
	}
}

type c04Ev struct {
	Op string // EP EPDEL NS NSDEL PL PLDEL SET SETDEL RSET RSETDEL
	ID string
	V  int
}

func (e c04Ev) String() string { return fmt.Sprintf("%s(%s,%d)", e.Op, e.ID, e.V) }

func (u *c04Universe) events() []c04Ev {
	var evs []c04Ev
	for _, id := range u.eps {
		for v := range u.epVars[id] {
			evs = append(evs, c04Ev{"EP", id, v})
		}
		evs = append(evs, c04Ev{"EPDEL", id, 0})
	}
	for _, id := range u.netsets {
		for v := range u.nsVars[id] {
			evs = append(evs, c04Ev{"NS", id, v})
		}
		evs = append(evs, c04Ev{"NSDEL", id, 0})
	}
	for _, id := range u.parents {
		for v := range u.parLabels {
			evs = append(evs, c04Ev{"PL", id, v})
		}
		evs = append(evs, c04Ev{"PLDEL", id, 0})
	}
	for v := range u.sets {
		id := fmt.Sprintf("S%d", v)
		evs = append(evs, c04Ev{"SET", id, v}, c04Ev{"SETDEL", id, 0})
	}
	for _, id := range u.reuseIDs {
		for v := range u.sets {
			evs = append(evs, c04Ev{"RSET", id, v})
		}
		evs = append(evs, c04Ev{"RSETDEL", id, 0})
	}
	return evs
}

func c04Universes(kind string) *c04Universe {
	thorough := kind == "t"
	http := func(proto string, port uint16) c04Port { return c04Port{"http", proto, port} }
	u := &c04Universe{
		name: "q",
		eps:  []string{"e1", "e2"},
		epVars: map[string][]*c04EpVar{
			"e1": {
				{Labels: map[string]string{"a": "1"}, Nets: []string{"10.0.0.1/32"}, Ports: []c04Port{http("tcp", 80)}, Parents: []string{"p1"}},
				{Labels: nil, Nets: []string{"10.0.0.1/32", "10.0.0.1/32"}, Ports: []c04Port{http("udp", 80)}, Parents: []string{"p1", "p1"}},
				// 10.0.0.0 is also the base address of the network set's /24 and /25 (host first, wider CIDR later)
				{Labels: map[string]string{"a": "2"}, Nets: []string{"10.0.0.0/32"}, Ports: []c04Port{http("tcp", 80), http("udp", 53), {"other", "tcp", 80}}},
			},
			"e2": {
				{Labels: map[string]string{"a": "1"}, Nets: []string{"10.0.0.1/32"}, Ports: []c04Port{http("tcp", 80)}},
				{Labels: map[string]string{}, Nets: []string{"10.0.0.2/32", "10.0.0.1/32"}, Ports: []c04Port{http("tcp", 8080), http("tcp", 80)}, Parents: []string{"p1"}},
				// differs from variant 0 ONLY in the address, and from the next one only in the port number
				{Labels: map[string]string{"a": "1"}, Nets: []string{"10.0.0.2/32"}, Ports: []c04Port{http("tcp", 80)}},
				{Labels: map[string]string{"a": "1"}, Nets: []string{"10.0.0.2/32"}, Ports: []c04Port{http("tcp", 81)}},
			},
		},
		netsets: []string{"n1"},
		nsVars: map[string][]*c04EpVar{
			"n1": {
				{Labels: map[string]string{"a": "1"}, Nets: []string{"10.0.0.0/24", "10.0.0.0/25"}},
				// narrow before wide (same base address), a /32 inside, a duplicate
				{Labels: nil, Nets: []string{"10.0.0.0/25", "10.0.0.1/32", "10.0.0.0/24", "10.0.0.0/24"}, Parents: []string{"p1"}},
				{Labels: map[string]string{"a": "1"}, Nets: []string{"0.0.0.0/0", "10.0.0.0/25"}},
				{Labels: map[string]string{"b": "1"}, Nets: []string{"0.0.0.0/1", "0.0.0.0/0", "10.0.0.128/25"}},
			},
		},
		parents:   []string{"p1"},
		parLabels: []map[string]string{{"a": "1"}, {"b": "1"}, {}},
		sets: []*c04SetVar{
			{Sel: `all()`},
			{Sel: `a == "1"`},
			{Sel: `has(b)`},
			{Sel: `!has(a)`},
			{Sel: `all()`, Proto: "tcp", Port: "http"},
			{Sel: `a == "1"`, Proto: "udp", Port: "http"},
		},
	}
	if kind == "m" || kind == "t" {
		// second parent, an endpoint that lists two parents (both orders), a third endpoint
		u.name = "m"
		u.parents = append(u.parents, "p2")
		u.epVars["e1"] = append(u.epVars["e1"],
			&c04EpVar{Labels: map[string]string{"a": "1"}, Nets: []string{"10.0.0.1/32"}, Ports: []c04Port{http("tcp", 80)}, Parents: []string{"p1", "p2"}},
			&c04EpVar{Labels: map[string]string{"a": "1"}, Nets: []string{"10.0.0.1/32"}, Ports: []c04Port{http("tcp", 80)}, Parents: []string{"p2", "p1"}})
		u.eps = append(u.eps, "e3")
		u.epVars["e3"] = []*c04EpVar{
			{Labels: map[string]string{"a": "2"}, Nets: []string{"10.0.0.3/32"}, Ports: []c04Port{http("udp", 80)}},
			{Labels: nil, Nets: []string{"10.0.0.1/32", "10.0.0.3/32"}, Parents: []string{"p2", "p1"}},
		}
	}
	if thorough {
		u.name = "t"
		u.epVars["e3"] = append(u.epVars["e3"],
			&c04EpVar{Labels: map[string]string{"b": "2"}, Nets: []string{"10.0.0.1/32", "fe80::1/128"}, Ports: []c04Port{http("tcp", 80)}, Parents: []string{"p2", "p1"}},
			&c04EpVar{Labels: map[string]string{"a": "1", "b": "1"}, Nets: []string{"10.0.0.129/32"}, Parents: []string{"p1", "p2", "p1"}})
		u.nsVars["n1"] = append(u.nsVars["n1"], &c04EpVar{Labels: map[string]string{"a": "2"}, Nets: []string{"::/0", "fe80::/10", "10.0.0.0/24"}, Parents: []string{"p2"}})
		u.sets = append(u.sets, &c04SetVar{Sel: `a in {"1","2"} && !has(b)`}, &c04SetVar{Sel: `b == "1"`, Proto: "tcp", Port: "http"})
		u.reuseIDs = []string{"R1"}
	}
	u.init()
	return u
}

// ---- reference environment ---------------------------------------------------------------------

type c04Env struct {
	eps     map[string]int
	nss     map[string]int
	parents map[string]int
	sets    map[string]int // id -> set variant
}

func c04NewEnv() *c04Env {
	return &c04Env{eps: map[string]int{}, nss: map[string]int{}, parents: map[string]int{}, sets: map[string]int{}}
}

func (env *c04Env) apply(e c04Ev) {
	switch e.Op {
	case "EP":
		env.eps[e.ID] = e.V
	case "EPDEL":
		delete(env.eps, e.ID)
	case "NS":
		env.nss[e.ID] = e.V
	case "NSDEL":
		delete(env.nss, e.ID)
	case "PL":
		env.parents[e.ID] = e.V
	case "PLDEL":
		delete(env.parents, e.ID)
	case "SET", "RSET":
		env.sets[e.ID] = e.V
	case "SETDEL", "RSETDEL":
		delete(env.sets, e.ID)
	}
}

func (u *c04Universe) effective(env *c04Env, v *c04EpVar) map[string]string {
	out := map[string]string{}
	for k, x := range v.Labels {
		out[k] = x
	}
	for _, p := range v.Parents {
		lv, ok := env.parents[p]
		if !ok {
			continue
		}
		for k, x := range u.parLabels[lv] {
			if _, have := out[k]; !have {
				out[k] = x
			}
		}
	}
	return out
}

// reference returns member -> number of contributions, for one IP set variant.
// splitZero: render a network set's /0 as the two /1s (what Felix documents it does for the dataplane).
func (u *c04Universe) reference(env *c04Env, sv *c04SetVar, splitZero bool) map[string]int {
	out := map[string]int{}
	contrib := func(v *c04EpVar, isNetSet bool) {
		if !sv.sel.Evaluate(u.effective(env, v)) {
			return
		}
		if sv.Proto == "" {
			for _, n := range v.Nets {
				if isNetSet && splitZero && n == "0.0.0.0/0" {
					out["0.0.0.0/1"]++
					out["128.0.0.0/1"]++
				} else if isNetSet && splitZero && n == "::/0" {
					out["::/1"]++
					out["8000::/1"]++
				} else {
					out[n]++
				}
			}
			return
		}
		for _, p := range v.Ports {
			if p.Name != sv.Port || p.Proto != sv.Proto {
				continue
			}
			for _, n := range v.Nets {
				addr := n[:strings.Index(n, "/")]
				out[fmt.Sprintf("%s,%s:%d", addr, p.Proto, p.Port)]++
			}
		}
	}
	for id, v := range env.eps {
		contrib(u.epVars[id][v], false)
	}
	for id, v := range env.nss {
		contrib(u.nsVars[id][v], true)
	}
	return out
}

// ---- address arithmetic (independent of felix/ip) ---------------------------------------------

type c04Range struct {
	v6     bool
	lo, hi *big.Int
}

func c04ParseRange(cidr string) (c04Range, bool) {
	p, err := netip.ParsePrefix(cidr)
	if err != nil {
		return c04Range{}, false
	}
	p = p.Masked()
	a := p.Addr()
	bits := 32
	if a.Is6() {
		bits = 128
	}
	lo := new(big.Int).SetBytes(a.AsSlice())
	size := new(big.Int).Lsh(big.NewInt(1), uint(bits-p.Bits()))
	hi := new(big.Int).Add(lo, size)
	hi.Sub(hi, big.NewInt(1))
	return c04Range{v6: a.Is6(), lo: lo, hi: hi}, true
}

// c04Union returns the canonical (merged, sorted) interval list of the given CIDRs as a string.
func c04Union(cidrs []string) (string, bool) {
	var rs []c04Range
	for _, c := range cidrs {
		r, ok := c04ParseRange(c)
		if !ok {
			return "unparseable:" + c, false
		}
		rs = append(rs, r)
	}
	sort.Slice(rs, func(i, j int) bool {
		if rs[i].v6 != rs[j].v6 {
			return !rs[i].v6
		}
		return rs[i].lo.Cmp(rs[j].lo) < 0
	})
	var out []c04Range
	one := big.NewInt(1)
	for _, r := range rs {
		if n := len(out); n > 0 && out[n-1].v6 == r.v6 && new(big.Int).Add(out[n-1].hi, one).Cmp(r.lo) >= 0 {
			if r.hi.Cmp(out[n-1].hi) > 0 {
				out[n-1].hi = r.hi
			}
			continue
		}
		out = append(out, c04Range{r.v6, r.lo, r.hi})
	}
	var b strings.Builder
	for _, r := range out {
		fmt.Fprintf(&b, "%v:%x-%x;", r.v6, r.lo, r.hi)
	}
	return b.String(), true
}

func c04Contains(outer, inner c04Range) bool {
	return outer.v6 == inner.v6 && outer.lo.Cmp(inner.lo) <= 0 && outer.hi.Cmp(inner.hi) >= 0
}

// ---- state --------------------------------------------------------------------------------------

type c04State struct {
	u        *c04Universe
	suppress bool
	idx      *SelectorAndNamedPortIndex
	env      *c04Env
	emitted  map[string]map[string]bool // set id -> member -> present
	bad      []string
}

func c04New(u *c04Universe, suppress bool) *c04State {
	s := &c04State{u: u, suppress: suppress, env: c04NewEnv(), emitted: map[string]map[string]bool{}}
	s.idx = NewSelectorAndNamedPortIndex(suppress)
	s.idx.OnMemberAdded = func(set string, m ipsetmember.IPSetMember) {
		k := m.ToProtobufFormat()
		e := s.emitted[set]
		if e == nil {
			e = map[string]bool{}
			s.emitted[set] = e
		}
		if e[k] {
			s.bad = append(s.bad, fmt.Sprintf("duplicate-add: OnMemberAdded(%s,%s) for a member already in the set", set, k))
		}
		e[k] = true
	}
	s.idx.OnMemberRemoved = func(set string, m ipsetmember.IPSetMember) {
		k := m.ToProtobufFormat()
		if !s.emitted[set][k] {
			s.bad = append(s.bad, fmt.Sprintf("remove-of-absent: OnMemberRemoved(%s,%s) for a member not in the set", set, k))
		}
		delete(s.emitted[set], k)
	}
	return s
}

func c04Apply(s *c04State, e c04Ev) {
	u := s.u
	s.env.apply(e)
	switch e.Op {
	case "EP":
		v := u.epVars[e.ID][e.V]
		s.idx.UpdateEndpointOrSet(e.ID, v.labelsU, append([]ip.CIDR(nil), v.cidrs...), append([]model.EndpointPort(nil), v.ports...), append([]string(nil), v.Parents...))
	case "EPDEL":
		s.idx.DeleteEndpoint(e.ID)
	case "NS":
		v := u.nsVars[e.ID][e.V]
		ns := &model.NetworkSet{Labels: v.labelsU, ProfileIDs: append([]string(nil), v.Parents...)}
		for _, n := range v.Nets {
			ns.Nets = append(ns.Nets, calinet.MustParseNetwork(n))
		}
		s.idx.OnUpdate(api.Update{KVPair: model.KVPair{Key: model.NetworkSetKey{Name: e.ID}, Value: ns}})
	case "NSDEL":
		s.idx.OnUpdate(api.Update{KVPair: model.KVPair{Key: model.NetworkSetKey{Name: e.ID}, Value: nil}})
	case "PL":
		m := map[string]string{}
		for k, x := range u.parLabels[e.V] {
			m[k] = x
		}
		s.idx.UpdateParentLabels(e.ID, m)
	case "PLDEL":
		s.idx.DeleteParentLabels(e.ID)
	case "SET", "RSET":
		sv := u.sets[e.V]
		proto := ipsetmember.ProtocolNone
		switch sv.Proto {
		case "tcp":
			proto = ipsetmember.ProtocolTCP
		case "udp":
			proto = ipsetmember.ProtocolUDP
		}
		s.idx.UpdateIPSet(e.ID, sv.sel, proto, sv.Port)
	case "SETDEL", "RSETDEL":
		s.idx.DeleteIPSet(e.ID)
		// removal of a whole IP set is signalled en masse (no per-member events)
		delete(s.emitted, e.ID)
	default:
		panic("bad op " + e.Op)
	}
}

func c04Sorted(m map[string]bool) []string {
	ks := make([]string, 0, len(m))
	for k := range m {
		ks = append(ks, k)
	}
	sort.Strings(ks)
	return ks
}

func c04SortedI(m map[string]int) []string {
	ks := make([]string, 0, len(m))
	for k := range m {
		ks = append(ks, k)
	}
	sort.Strings(ks)
	return ks
}

func c04Check(s *c04State, hist []c04Ev) []hbfs.Fail {
	var fails []hbfs.Fail
	mode := "nosuppress"
	if s.suppress {
		mode = "suppress"
	}
	add := func(key, f string, a ...any) {
		fails = append(fails, hbfs.Fail{Key: "C04:" + mode + ":" + key, Msg: fmt.Sprintf(f, a...)})
	}
	for _, b := range s.bad {
		add("event-stream:"+b[:strings.Index(b, ":")], "%s", b)
	}
	for id := range s.emitted {
		if _, ok := s.env.sets[id]; !ok && len(s.emitted[id]) > 0 {
			add("members-for-unknown-set", "members %v emitted for IP set %s which does not exist", c04Sorted(s.emitted[id]), id)
		}
	}
	for id, v := range s.env.sets {
		sv := s.u.sets[v]
		E := s.emitted[id]
		desc := fmt.Sprintf("IP set %s (%s %s/%s)", id, sv.Sel, sv.Proto, sv.Port)
		// "each member once however many endpoints contribute it" rests on memberToRefCount holding,
		// per member, exactly the number of current contributions (a wrong count surfaces later as a
		// member that is withdrawn too early or never)
		if d := s.idx.ipSetDataByID[id]; d != nil {
			Rc := s.u.reference(s.env, sv, true)
			got := map[string]int{}
			for m, n := range d.memberToRefCount {
				got[m.ToProtobufFormat()] = int(n)
			}
			for m, n := range Rc {
				if got[m] != n {
					add("refcount-differs-from-contributions", "%s: member %s has reference count %d but %d current contributions (all counts %v, contributions %v)", desc, m, got[m], n, got, Rc)
					break
				}
			}
			for m, n := range got {
				if Rc[m] == 0 {
					add("refcount-differs-from-contributions", "%s: member %s has reference count %d but no current contribution", desc, m, n)
					break
				}
			}
		}
		if !s.suppress || sv.Proto != "" {
			R := s.u.reference(s.env, sv, true)
			var missing, extra []string
			for m := range R {
				if !E[m] {
					missing = append(missing, m)
				}
			}
			for m := range E {
				if R[m] == 0 {
					extra = append(extra, m)
				}
			}
			sort.Strings(missing)
			sort.Strings(extra)
			kind := "cidr"
			if sv.Proto != "" {
				kind = "named-port"
			}
			if len(missing) > 0 {
				add("members-missing:"+kind, "%s: emitted %v, reference %v, missing %v", desc, c04Sorted(E), c04SortedI(R), missing)
			}
			if len(extra) > 0 {
				add("members-extra:"+kind, "%s: emitted %v, reference %v, extra %v", desc, c04Sorted(E), c04SortedI(R), extra)
			}
			continue
		}
		// overlap suppression: E subset of R, same address union, antichain
		R := s.u.reference(s.env, sv, false)
		Rsplit := s.u.reference(s.env, sv, true)
		for m := range E {
			if R[m] == 0 && Rsplit[m] == 0 {
				add("emitted-member-not-contributed", "%s: emitted %v but %s is not contributed by any matching endpoint/set (reference %v)", desc, c04Sorted(E), m, c04SortedI(R))
			}
		}
		ue, ok1 := c04Union(c04Sorted(E))
		ur, ok2 := c04Union(c04SortedI(R))
		if !ok1 || !ok2 || ue != ur {
			add("address-union-differs", "%s: emitted %v covers %s; reference %v covers %s", desc, c04Sorted(E), ue, c04SortedI(R), ur)
		}
		ms := c04Sorted(E)
		for i, a := range ms {
			ra, _ := c04ParseRange(a)
			for j, b := range ms {
				if i == j {
					continue
				}
				rb, _ := c04ParseRange(b)
				if c04Contains(ra, rb) {
					add("emitted-member-inside-another", "%s: emitted %v: %s lies inside %s", desc, ms, b, a)
				}
			}
		}
	}
	return fails
}

var c04ProbeMaps = func() []c04Probe {
	var out []c04Probe
	for _, a := range []string{"", "1", "2"} {
		for _, b := range []string{"", "1", "2"} {
			m := map[string]string{}
			if a != "" {
				m["a"] = a
			}
			if b != "" {
				m["b"] = b
			}
			d := &endpointData{}
			if len(m) > 0 {
				d.labels = uniquelabels.Make(m)
			}
			out = append(out, c04Probe{d})
		}
	}
	return out
}()

type c04Probe struct{ d *endpointData }

func c04Key(s *c04State) string {
	var b strings.Builder
	env := s.env
	for _, k := range c04SortedI(env.eps) {
		fmt.Fprintf(&b, "%s=%d;", k, env.eps[k])
	}
	for _, k := range c04SortedI(env.nss) {
		fmt.Fprintf(&b, "%s=%d;", k, env.nss[k])
	}
	for _, k := range c04SortedI(env.parents) {
		fmt.Fprintf(&b, "%s=%d;", k, env.parents[k])
	}
	for _, k := range c04SortedI(env.sets) {
		fmt.Fprintf(&b, "%s=%d;", k, env.sets[k])
	}
	b.WriteString("|E:")
	var ids []string
	for id := range s.emitted {
		ids = append(ids, id)
	}
	sort.Strings(ids)
	for _, id := range ids {
		if len(s.emitted[id]) > 0 {
			fmt.Fprintf(&b, "%s%v", id, c04Sorted(s.emitted[id]))
		}
	}
	fmt.Fprintf(&b, "|bad%d|", len(s.bad))
	// internal state of the real index
	idx := s.idx
	var parts []string
	for id, d := range idx.ipSetDataByID {
		var ms []string
		for m, n := range d.memberToRefCount {
			ms = append(ms, fmt.Sprintf("%s=%d", m.ToProtobufFormat(), n))
		}
		sort.Strings(ms)
		parts = append(parts, fmt.Sprintf("S%s:%v", id, ms))
	}
	epIDs := []any{}
	for _, id := range s.u.eps {
		epIDs = append(epIDs, id)
	}
	for _, id := range s.u.netsets {
		epIDs = append(epIDs, model.NetworkSetKey{Name: id})
	}
	for _, id := range epIDs {
		d, ok := idx.endpointKVIdx.Get(id)
		if !ok {
			continue
		}
		var cs []string
		for x := range d.cachedMatchingIPSetIDs.All() {
			cs = append(cs, x)
		}
		sort.Strings(cs)
		var ps []string
		for _, p := range d.parents {
			ps = append(ps, p.id)
		}
		parts = append(parts, fmt.Sprintf("E%v:%v:%v", id, cs, ps))
	}
	for _, pid := range s.u.parents {
		p, ok := idx.parentKVIdx.Get(pid)
		if !ok {
			continue
		}
		var is []string
		for k := range p.endpointIDs {
			is = append(is, fmt.Sprint(k))
		}
		sort.Strings(is)
		parts = append(parts, fmt.Sprintf("P%s:%v:%s:%v:%v", pid, p.labels.IsNil(), p.labels.String(), p.endpointIDs == nil, is))
	}
	if md, ok := idx.suppressor.(*memberDeduplicator); ok {
		for _, tries := range []map[string]*ip.CIDRTrie{md.v4tries, md.v6tries} {
			for id, t := range tries {
				var cs []string
				for _, e := range t.ToSlice() {
					cs = append(cs, e.CIDR.String())
				}
				sort.Strings(cs)
				parts = append(parts, fmt.Sprintf("T%s:%v", id, cs))
			}
		}
	}
	sort.Strings(parts)
	b.WriteString(strings.Join(parts, ";"))
	// candidate index probes
	b.WriteString("|C:")
	for _, pr := range c04ProbeMaps {
		var cs []string
		for id := range idx.selectorCandidatesIdx.AllPotentialMatches(pr.d) {
			cs = append(cs, id)
		}
		sort.Strings(cs)
		b.WriteString(strings.Join(cs, ","))
		b.WriteString("/")
	}
	return b.String()
}

var (
	c04ReTime = regexp.MustCompile(`\d{4}-\d\d-\d\d \d\d:\d\d:\d\d(\.\d+)? [+-]\d{4} \w+( m=[+-][\d.]+)?`)
	c04RePtr  = regexp.MustCompile(`0x[0-9a-f]+`)
	c04ReMap  = regexp.MustCompile(`map\[[^\]]*\]`)
	c04ReSp   = regexp.MustCompile(`\s+`)
)

// c04PanicLine turns a panic value into a stable one-line class: logrus Panic() panics with the
// *Entry, whose dump contains pointers, field maps and a timestamp.
func c04PanicLine(val string) string {
	line := val
	if i := strings.IndexByte(line, '\n'); i >= 0 {
		line = line[:i]
	}
	line = c04ReTime.ReplaceAllString(line, "")
	line = c04RePtr.ReplaceAllString(line, "")
	line = c04ReMap.ReplaceAllString(line, "")
	line = strings.NewReplacer("&{", "", "<nil>", "", "}", "").Replace(line)
	line = strings.TrimSpace(c04ReSp.ReplaceAllString(line, " "))
	if len(line) > 100 {
		line = line[:100]
	}
	return line
}

// c04Prefixes returns the populated start environments for the medium universe.
func c04Prefixes(u *c04Universe) [][]c04Ev {
	var allSets []c04Ev
	for v := range u.sets {
		allSets = append(allSets, c04Ev{"SET", fmt.Sprintf("S%d", v), v})
	}
	// parents p1,p2 both carry b=1 (label b lives on parents only); e1 lists both parents; e2, e3 and
	// the network set have no parents
	pop := []c04Ev{{"PL", "p1", 1}, {"PL", "p2", 1}, {"EP", "e1", 3}, {"EP", "e2", 2}, {"EP", "e3", 0}, {"NS", "n1", 0}}
	// IP sets first, parents with different labels
	setsFirst := append(append([]c04Ev{}, allSets...), c04Ev{"PL", "p1", 1}, c04Ev{"PL", "p2", 0})
	both := append(append([]c04Ev{}, pop...), allSets...)
	return [][]c04Ev{pop, setsFirst, both}
}

func c04HasDup(l []string) bool {
	for i := range l {
		for j := i + 1; j < len(l); j++ {
			if l[i] == l[j] {
				return true
			}
		}
	}
	return false
}

func c04Spec(u *c04Universe, suppress bool, depth int, tree bool, workers int, filter func(c04Ev) bool, tag string, prefix []c04Ev) *hbfs.Spec[*c04State, c04Ev] {
	var evs []c04Ev
	for _, e := range u.events() {
		if filter == nil || filter(e) {
			evs = append(evs, e)
		}
	}
	mode := "nosuppress"
	if suppress {
		mode = "suppress"
	}
	sp := &hbfs.Spec[*c04State, c04Ev]{
		Name:     fmt.Sprintf("npidx-%s%s-%s-%s-d%d", u.name, tag, mode, map[bool]string{true: "tree", false: "graph"}[tree], depth),
		New: func() *c04State {
			s := c04New(u, suppress)
			for _, e := range prefix {
				c04Apply(s, e)
			}
			return s
		},
		Apply:    c04Apply,
		Enabled:  func(s *c04State, d int) []c04Ev { return evs },
		Check:    c04Check,
		Key:      c04Key,
		MaxDepth: depth,
		Workers:  workers,
		Nontrivial: func(s *c04State) bool {
			// some member is contributed more than once, or suppression hides a contributed member
			for id, v := range s.env.sets {
				R := s.u.reference(s.env, s.u.sets[v], true)
				for _, n := range R {
					if n > 1 {
						return true
					}
				}
				if len(s.emitted[id]) < len(R) {
					return true
				}
			}
			return false
		},
		Outcome: func(s *c04State) string {
			var parts []string
			for id, v := range s.env.sets {
				parts = append(parts, fmt.Sprintf("%s:%d/%d", id, len(s.emitted[id]), len(s.u.reference(s.env, s.u.sets[v], true))))
			}
			sort.Strings(parts)
			return mode + " " + strings.Join(parts, ",")
		},
		PanicKey: func(val string, hist []c04Ev) string {
			env := c04NewEnv()
			for _, e := range prefix {
				env.apply(e)
			}
			for _, e := range hist[:len(hist)-1] {
				env.apply(e)
			}
			last := hist[len(hist)-1]
			line := c04PanicLine(val)
			// H04 shape: the endpoint / network set touched by the last event had a parent list
			// naming one parent twice, and the index complains about its parent bookkeeping.
			if strings.Contains(val, "discard of unknown ID") {
				var cur *c04EpVar
				switch last.Op {
				case "EP", "EPDEL":
					if v, ok := env.eps[last.ID]; ok {
						cur = u.epVars[last.ID][v]
					}
				case "NS", "NSDEL":
					if v, ok := env.nss[last.ID]; ok {
						cur = u.nsVars[last.ID][v]
					}
				}
				if cur != nil && c04HasDup(cur.Parents) {
					return "C04:panic:duplicate-parent"
				}
			}
			return "C04:" + mode + ":panic:" + last.Op + ":" + line
		},
	}
	if tree {
		sp.Key = nil
	}
	return sp
}

func TestVerif_C04(t *testing.T) {
	logrus.SetLevel(logrus.PanicLevel)
	logrus.StandardLogger().ExitFunc = func(int) { panic("logrus.Fatal") }
	vk.Run(t, "C04", func(c *vk.Ctx) {
		c.Rule("states = reachable (environment, emitted membership per IP set, internal reference counts / cached matches / parent bookkeeping / suppression tries / candidate-index probes) " +
			"of the real SelectorAndNamedPortIndex, explored separately with overlap suppression off and on; transitions = one real API call " +
			"(UpdateEndpointOrSet, DeleteEndpoint, OnUpdate(NetworkSet), UpdateParentLabels, DeleteParentLabels, UpdateIPSet, DeleteIPSet incl. re-sends and deletes of absent things) " +
			"replayed on a fresh index; plus a large-count slice: for N in {1,2,127,128,129,255,256,257,511,512,513} endpoints / network sets / a mix sharing ONE member (and 63..256 contributors listing it twice) a scripted add-all / move-one / unmatch-one / add-and-remove-one-more / re-create-set / remove-all sequence with the oracle after every step; non-trivial = a member contributed more than once (shared IP / duplicate net / endpoint+set overlap) or hidden by suppression")
		c.Assume("a network set's 0.0.0.0/0 (::/0) is compared as the two /1 halves without suppression (documented dataplane workaround) and by address union with suppression")
		c.Assume("when two parents carry the same label the first parent in the list wins (statement is silent; the index does this)")
		c.Assume("removal of a whole IP set is en masse: the harness forgets the set's members on DeleteIPSet, as the calc graph does")
		workers := c.Pick(6, 8)
		u := c04Universes(map[bool]string{false: "q", true: "t"}[c.Thorough()])
		um := c04Universes("m")
		prefixes := c04Prefixes(um)
		noDup := func(e c04Ev) bool {
			switch e.Op {
			case "EP":
				return !c04HasDup(u.epVars[e.ID][e.V].Parents)
			case "NS":
				return !c04HasDup(u.nsVars[e.ID][e.V].Parents)
			}
			return true
		}
		if rf := c.ReplayFile(); rf != "" {
			var d struct {
				Spec    string
				History []string
			}
			if err := vk.LoadReplay(rf, &d); err != nil {
				c.ToolError(err.Error())
				return
			}
			var ru *c04Universe
			var prefix []c04Ev
			switch {
			case strings.HasPrefix(d.Spec, "npidx-L"):
				n := 0
				fmt.Sscanf(d.Spec, "npidx-L%d-", &n)
				ru = c04LargeUniverse(n)
			case strings.HasPrefix(d.Spec, "npidx-t"):
				ru = c04Universes("t")
			case strings.HasPrefix(d.Spec, "npidx-m"):
				ru = um
				for i, p := range prefixes {
					if strings.Contains(d.Spec, fmt.Sprintf("-pre%d-", i)) {
						prefix = p
					}
				}
			default:
				ru = c04Universes("q")
			}
			sp := c04Spec(ru, strings.Contains(d.Spec, "-suppress-"), 99, false, 1, nil, "", prefix)
			fails, err := hbfs.Replay(sp, d.History)
			if err != nil {
				c.ToolError(err.Error())
			}
			for _, f := range fails {
				c.Violation(f.Key, map[string]any{"spec": d.Spec, "history": d.History, "msg": f.Msg})
			}
			c.Add("states", 1)
			c.Add("transitions", int64(len(d.History)))
			c.Sample(map[string]any{"replayed": d.History})
			return
		}
		uq := u
		if c.Thorough() {
			uq = c04Universes("q")
		}
		noDupQ := func(e c04Ev) bool {
			switch e.Op {
			case "EP":
				return !c04HasDup(uq.epVars[e.ID][e.V].Parents)
			case "NS":
				return !c04HasDup(uq.nsVars[e.ID][e.V].Parents)
			}
			return true
		}
		c.Extra("alphabet_size", len(uq.events()))
		c.Sample(map[string]any{"mode": "suppress", "history": []string{"SET(S0,0)", "NS(n1,0)", "EP(e1,0)", "NSDEL(n1,0)"},
			"meaning": "IP set S0=all(); network set n1 {10.0.0.0/24, 10.0.0.0/25} -> only the /24 is emitted; endpoint e1 10.0.0.1 is masked; deleting n1 must withdraw the /24 and expose 10.0.0.1/32"})
		for _, suppress := range []bool{false, true} {
			// graph mode, base universe (incl. duplicate parent lists); quick: depth 5 (depth 6 would reach every
			// environment of the universe; deeper interactions are reached from the populated starts below), thorough: fixpoint
			d := c.Pick(5, 30)
			st := hbfs.Explore(c, c04Spec(uq, suppress, d, false, workers, nil, "", nil))
			c.Extra(fmt.Sprintf("fixpoint_reached_suppress_%v", suppress), st.Complete && st.Depth < d)
			// tree mode (every history, no merging) without the duplicate-parent variants, so that the
			// known panic class cannot stand in for anything else
			hbfs.Explore(c, c04Spec(uq, suppress, c.Pick(3, 4), true, workers, noDupQ, "-nodup", nil))
		}
		// populated start states (medium universe: second parent, endpoints listing two parents in
		// both orders, third endpoint): the search starts from an environment that already holds
		// parents+endpoints / IP sets / both, so that late arrivals and removals against a populated
		// index are reached at small depth
		c.Extra("alphabet_size_medium", len(um.events()))
		for i, pre := range prefixes {
			for _, suppress := range []bool{false, true} {
				hbfs.Explore(c, c04Spec(um, suppress, c.Pick(3, 4), false, workers, nil, fmt.Sprintf("-pre%d", i), pre))
			}
		}
		// many contributors to one member (counter boundaries), scripted
		c04Large(c, workers)
		if c.Thorough() {
			// larger universe (third endpoint with IPv6, second parent, 8 IP sets, an IP-set id whose
			// content changes in place): depth-bounded graph search
			c.Extra("alphabet_size_large", len(u.events()))
			hbfs.Explore(c, c04Spec(u, true, 4, false, workers, nil, "", nil))
			hbfs.Explore(c, c04Spec(u, false, 4, false, workers, nil, "", nil))
			_ = noDup
		}
	})
}

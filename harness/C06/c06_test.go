package parser

// C06 — selectors keep their meaning through canonical formatting; Validate accepts exactly what
// Parse accepts.
//
// Shape I (bounded-exhaustive enumeration of real code): the generator (zzverif/selgen) enumerates
// every AST of the selector grammar up to k leaves, renders each in several surface styles, and
// produces every single-token deletion / insertion / substitution of the plain rendering
// (near-miss inputs).  Every input is fed to the REAL Parser.Parse and Parser.Validate; for accepted
// inputs the canonical text is re-parsed and compared (text fixpoint, UniqueID, Evaluate on every
// label map over a small value domain, and an independent evaluator on the generator's AST).

import (
	"fmt"
	"runtime"
	"sort"
	"strings"
	"sync"
	"sync/atomic"
	"testing"

	"github.com/sirupsen/logrus"

	"github.com/projectcalico/calico/zzverif/selgen"
	"github.com/projectcalico/calico/zzverif/vk"
)

var c06Domain = []string{selgen.Absent, "", "x", "xy", "yx", `q"r`, `y'z`}

type c06Worker struct {
	c  *vk.Ctx
	p  *Parser
	p2 *Parser
	// local counters, flushed at the end
	valid, near, calls, accepted, rejected int64
	mapsFor                                map[string][]map[string]string
	useGlobal                              bool
}

func (w *c06Worker) maps(labels []string) []map[string]string {
	k := strings.Join(labels, ",")
	if m, ok := w.mapsFor[k]; ok {
		return m
	}
	m := selgen.LabelMaps(labels, c06Domain)
	w.mapsFor[k] = m
	return m
}

func c06ErrClass(err error) string {
	s := err.Error()
	if i := strings.IndexAny(s, "[:\""); i > 0 {
		s = s[:i]
	}
	if len(s) > 48 {
		s = s[:48]
	}
	return strings.TrimSpace(s)
}

func c06CanonClass(s1 string) string {
	switch {
	case strings.Contains(s1, "!!"):
		return "double-negation"
	case strings.Contains(s1, "'"):
		return "single-quoted"
	}
	return "other"
}

// check runs the oracle on one input. ref is the generator AST when the input is valid by
// construction (nil for near-miss inputs). Returns true if the parser accepted the input.
func (w *c06Worker) check(s string, ref *selgen.Node, origin string) bool {
	c := w.c
	var sel *Selector
	var perr, verr error
	// a panic in either entry point is a violation of its own (and poisons the parser's token
	// buffer, so use fresh parsers afterwards)
	if e := vk.Catch(func() error {
		if w.useGlobal {
			sel, perr = Parse(s)
		} else {
			sel, perr = w.p.Parse(s)
		}
		return nil
	}); e != nil {
		c.Violation("C06:panic:parse", map[string]any{"input": s, "origin": origin, "panic": e.(*vk.PanicError).Val, "stack": e.(*vk.PanicError).Stack})
		w.p = NewParser()
		return false
	}
	if e := vk.Catch(func() error {
		if w.useGlobal {
			verr = Validate(s)
		} else {
			verr = w.p.Validate(s)
		}
		return nil
	}); e != nil {
		c.Violation("C06:panic:validate", map[string]any{"input": s, "origin": origin, "panic": e.(*vk.PanicError).Val, "stack": e.(*vk.PanicError).Stack,
			"parse_accepts": perr == nil})
		w.p = NewParser()
		return false
	}
	w.calls += 2
	det := func(extra map[string]any) map[string]any {
		d := map[string]any{"input": s, "origin": origin}
		if ref != nil {
			d["generator_ast"] = ref.Shape()
		}
		for k, v := range extra {
			d[k] = v
		}
		return d
	}
	if (perr == nil) != (verr == nil) {
		which := "validate-accepts-parse-rejects"
		if perr == nil {
			which = "parse-accepts-validate-rejects"
		}
		c.Violation("C06:validate-parse-disagree:"+which, det(map[string]any{"parse_err": fmt.Sprint(perr), "validate_err": fmt.Sprint(verr)}))
	}
	if perr != nil {
		w.rejected++
		c.Outcome("reject:" + c06ErrClass(perr))
		if ref != nil {
			c.Violation("C06:grammar-form-rejected:"+ref.Kind.String(), det(map[string]any{"parse_err": perr.Error()}))
		} else {
			c.Nontrivial("reject|" + c06ErrClass(perr) + "|" + origin)
		}
		return false
	}
	w.accepted++
	s1 := sel.String()
	sel2, err := w.p2.Parse(s1)
	w.calls += 2
	if err != nil {
		c.Violation("C06:canonical-reparse-fails:"+c06CanonClass(s1), det(map[string]any{"canonical": s1, "err": err.Error()}))
		return true
	}
	if verr2 := w.p2.Validate(s1); verr2 != nil {
		c.Violation("C06:validate-parse-disagree:canonical-text-rejected-by-validate", det(map[string]any{"canonical": s1, "err": verr2.Error()}))
	}
	s2 := sel2.String()
	if s2 != s1 {
		c.Violation("C06:canonical-not-fixpoint:"+c06CanonClass(s1), det(map[string]any{"canonical": s1, "canonical_of_canonical": s2,
			"uid": sel.UniqueID(), "uid_of_canonical": sel2.UniqueID()}))
	} else if sel2.UniqueID() != sel.UniqueID() {
		c.Violation("C06:uniqueid-differs", det(map[string]any{"canonical": s1, "uid": sel.UniqueID(), "uid_of_canonical": sel2.UniqueID()}))
	}
	if !sel.Equal(sel2) && s2 == s1 {
		c.Violation("C06:equal-false-for-same-canonical-text", det(map[string]any{"canonical": s1}))
	}
	var maps []map[string]string
	if ref != nil {
		maps = w.maps(ref.Labels())
	} else {
		maps = w.maps([]string{"a", "in"})
	}
	for _, m := range maps {
		e1 := sel.Evaluate(m)
		e2 := sel2.Evaluate(m)
		w.calls += 2
		if e1 != e2 {
			c.Violation("C06:meaning-changed-by-formatting:"+c06CanonClass(s1), det(map[string]any{"canonical": s1, "labels": m, "eval_input": e1, "eval_canonical": e2}))
			break
		}
		if ref != nil {
			if want := ref.Eval(m); want != e1 {
				c.Violation("C06:meaning-differs-from-grammar:"+ref.Kind.String(), det(map[string]any{"canonical": s1, "labels": m, "eval_input": e1, "eval_reference": want}))
				break
			}
		}
	}
	if s == s1 {
		c.Outcome("accept:already-canonical")
	} else {
		c.Outcome("accept:normalised")
	}
	return true
}

// tree checks one generator tree in the given styles (+ edits of the plain rendering).
func (w *c06Worker) tree(t *selgen.Node, styles []selgen.Style, edits bool, fullShape bool) {
	seen := map[string]struct{}{}
	for _, st := range styles {
		s := t.Render(st)
		if _, dup := seen[s]; dup {
			continue
		}
		seen[s] = struct{}{}
		w.valid++
		w.check(s, t, "style:"+st.String())
	}
	if fullShape {
		w.c.Nontrivial("tree|" + t.Shape())
	} else {
		w.c.Nontrivial("tree|" + t.KindShape())
	}
	if edits {
		toks := t.Tokens(selgen.Canonicalish)
		selgen.Edits(toks, func(kind, s string) bool {
			w.near++
			w.check(s, nil, "edit:"+kind)
			return true
		})
	}
}

// multiset compares a set literal written with repeats / in any order against the same set written
// once per value in ascending order: same canonical text, same UniqueID.
func (w *c06Worker) multiset(leaf *selgen.Node) {
	uniq := map[string]bool{}
	var ded []string
	for _, v := range leaf.Set {
		if !uniq[v] {
			uniq[v] = true
			ded = append(ded, v)
		}
	}
	sort.Strings(ded)
	a := leaf.Render(selgen.Canonicalish)
	b := (&selgen.Node{Kind: leaf.Kind, Label: leaf.Label, Set: ded}).Render(selgen.Canonicalish)
	if a == b {
		return
	}
	sa, ea := w.p.Parse(a)
	sb, eb := w.p2.Parse(b)
	w.calls += 2
	if ea != nil || eb != nil {
		return // reported by check()
	}
	if sa.String() != sb.String() || sa.UniqueID() != sb.UniqueID() {
		cls := "reordered"
		if len(ded) < len(leaf.Set) {
			cls = fmt.Sprintf("repeat-x%d", c06MaxMult(leaf.Set))
		}
		w.c.Violation("C06:set-literal-identity:"+cls, map[string]any{"input": a, "same_set_written_once": b,
			"canonical": sa.String(), "canonical_of_deduplicated": sb.String(), "uid": sa.UniqueID(), "uid_of_deduplicated": sb.UniqueID()})
	}
}

func c06MaxMult(vs []string) int {
	m, best := map[string]int{}, 0
	for _, v := range vs {
		m[v]++
		if m[v] > best {
			best = m[v]
		}
	}
	return best
}

func c06Run(c *vk.Ctx, workers int, jobs func(emit func(func(w *c06Worker)))) {
	ch := make(chan func(w *c06Worker), 256)
	var wg sync.WaitGroup
	var stopped int32
	for i := 0; i < workers; i++ {
		wg.Add(1)
		go func() {
			defer wg.Done()
			w := &c06Worker{c: c, p: NewParser(), p2: NewParser(), mapsFor: map[string][]map[string]string{}}
			for j := range ch {
				if atomic.LoadInt32(&stopped) == 1 {
					continue
				}
				if c.Expired() {
					atomic.StoreInt32(&stopped, 1)
					continue
				}
				if err := vk.Catch(func() error { j(w); return nil }); err != nil {
					pe := err.(*vk.PanicError)
					c.Violation("C06:panic:canonical-form-or-evaluate", map[string]any{"panic": pe.Val, "stack": pe.Stack})
				}
			}
			c.Add("valid_form_inputs", w.valid)
			c.Add("near_miss_inputs", w.near)
			c.Add("states", w.valid+w.near)
			c.Add("transitions", w.calls)
			c.Add("accepted", w.accepted)
			c.Add("rejected", w.rejected)
		}()
	}
	jobs(func(j func(w *c06Worker)) { ch <- j })
	close(ch)
	wg.Wait()
	if atomic.LoadInt32(&stopped) == 1 {
		c.Capped("deadline reached before the enumeration finished")
	} else if c.Expired() {
		c.Capped("deadline reached during the last jobs")
	}
}

func c06Leaves(c *vk.Ctx) (full, compact2, compact3 []*selgen.Node) {
	vals := []string{"x", "", "y'z", `q"r`}
	full = selgen.MakeLeaves([]string{"a", "in", "has"}, vals, selgen.SetsUpTo(vals, 2))
	n := func(k selgen.Kind, l, v string) *selgen.Node { return &selgen.Node{Kind: k, Label: l, Value: v} }
	set := func(k selgen.Kind, l string, s ...string) *selgen.Node {
		return &selgen.Node{Kind: k, Label: l, Set: append([]string{}, s...)}
	}
	compact3 = []*selgen.Node{
		n(selgen.Eq, "a", "x"), n(selgen.Ne, "in", `q"r`), n(selgen.Contains, "a", "x"), n(selgen.StartsWith, "in", "x"),
		n(selgen.EndsWith, "a", "y'z"), set(selgen.In, "a", "x", `q"r`), set(selgen.NotIn, "in", "x"),
		{Kind: selgen.Has, Label: "a"}, {Kind: selgen.All}, {Kind: selgen.Global},
	}
	compact2 = append(append([]*selgen.Node{}, compact3...),
		n(selgen.Eq, "in", `q"r`), n(selgen.Eq, "a", ""), n(selgen.Ne, "a", "x"), n(selgen.Contains, "in", ""),
		n(selgen.StartsWith, "a", `q"r`), n(selgen.EndsWith, "in", "x"),
		set(selgen.In, "in"), set(selgen.In, "a", "y'z", "y'z"), set(selgen.NotIn, "a", `q"r`, "x"), set(selgen.NotIn, "a"),
		&selgen.Node{Kind: selgen.Has, Label: "in"}, &selgen.Node{Kind: selgen.Has, Label: "has"},
		n(selgen.Eq, "has", "x"), set(selgen.In, "has", "x"),
	)
	if c.Thorough() {
		// medium leaf set for k=2 in the thorough tier: every operator x labels {a,in,has} x values {x,q"r}
		v2 := []string{"x", `q"r`}
		compact2 = selgen.MakeLeaves([]string{"a", "in", "has"}, v2, [][]string{{}, {"x"}, {`q"r`, "x"}, {"x", "x"}})
	}
	return
}

func TestVerif_C06(t *testing.T) {
	logrus.SetLevel(logrus.PanicLevel)
	vk.Run(t, "C06", func(c *vk.Ctx) {
		c.Rule("states = distinct input strings: every selector AST with up to k leaves (k=2 quick, k=3 thorough) over the full grammar " +
			"(== != contains, starts with, ends with, in, not in, has(), all(), global(), !, !!, &&, ||, nesting; labels a/in/has; values x, empty, y'z, q\"r; set sizes 0-2) " +
			"plus in / not in set literals written as every sequence of length 0-5 over three values (all multiplicities and orders), " +
			"rendered in several surface styles (both quote styles, spacing none/single/tabs, notin / not in / not  in, redundant or minimal parentheses, !!x vs !(!x)), " +
			"plus every single-token deletion/insertion/substitution of the plain rendering (near-miss inputs; for k=3 of the flat three-operand groups only); " +
			"transitions = calls into the real parser/selector (Parse, Validate, String+re-Parse, Evaluate per label map over values {absent,'',x,xy,yx,q\"r,y'z}); " +
			"non-trivial = distinct tree shapes and distinct (rejection class, edit kind) pairs")
		c.Assume("label names and values come from a small vocabulary (3 labels incl. keyword look-alikes, 4 values incl. both quote characters and the empty string); " +
			"label maps range over the labels used by the expression with 7 values each")
		if rf := c.ReplayFile(); rf != "" {
			var d struct{ Input string }
			if err := vk.LoadReplay(rf, &d); err != nil {
				c.ToolError(err.Error())
				return
			}
			w := &c06Worker{c: c, p: NewParser(), p2: NewParser(), mapsFor: map[string][]map[string]string{}}
			w.check(d.Input, nil, "replay")
			c.Add("states", 1)
			c.Add("transitions", w.calls)
			c.Sample(map[string]any{"replayed_input": d.Input})
			return
		}
		full, compact2, compact3 := c06Leaves(c)
		workers := c.Pick(6, 8)
		if n := runtime.NumCPU(); workers > n {
			workers = n
		}
		all := selgen.AllStyles()
		four := selgen.Styles()
		// written-out samples
		{
			ex := selgen.Tops(&selgen.Node{Kind: selgen.Or, Kids: []*selgen.Node{compact2[0], {Kind: selgen.Not, Kids: []*selgen.Node{compact2[5]}}}})[2]
			var forms []string
			for _, st := range four {
				forms = append(forms, ex.Render(st))
			}
			sel, err := Parse(forms[0])
			canon := ""
			if err == nil {
				canon = sel.String()
			}
			c.Sample(map[string]any{"ast": ex.Shape(), "surface_forms": forms, "canonical_of_first": canon})
			var eds []string
			selgen.Edits(compact2[0].Tokens(selgen.Canonicalish), func(k, s string) bool {
				if len(eds) < 12 {
					eds = append(eds, k+": "+s)
				}
				return true
			})
			c.Sample(map[string]any{"near_miss_of": compact2[0].Render(selgen.Canonicalish), "first_edits": eds})
		}
		c.Extra("leaf_forms_k1", len(full))
		c.Extra("leaf_forms_k2", len(compact2))
		c.Extra("leaf_forms_k3", len(compact3))
		c06Run(c, workers, func(emit func(func(w *c06Worker))) {
			// degenerate inputs through the package-level entry points
			emit(func(w *c06Worker) {
				w.useGlobal = true
				for _, s := range []string{"", " ", "\t", "()", "!", "!!", "(", ")", "a", "a ==", "a == ", `a == "x`, `a == 'x`, "has()", "has(a", "all(", "global( )", "&&", "||",
					`a in {"x",}`, `a in {,}`, `a in {"x" "y"}`, `a notin{"x"}`, `a not in{"x"}`, `a notin {}`, `a startswith "x"`, `a endswith "x"`, `a starts  with "x"`,
					`a containsx "x"`, `a inx {"x"}`, `has(a) has(b)`, `all() all()`, `(all())`, `((all()))`, `!(!(!all()))`, `a == "x" && `, `a == "x" || || b == "y"`,
					strings.Repeat("a", 512) + ` == "x"`, strings.Repeat("a", 513) + ` == "x"`, `has(` + strings.Repeat("b", 513) + `)`,
					`a.b/c-d_e == "x"`, `A == "x"`, `0 == "x"`, `a == "x"b == "y"`, `a == "x")`, `(a == "x"`, `a = "x"`, `a & b`, `a | b`, `a != 'x"y'`, "a == \"x\ty\"", `a=="x"&&b!="y"||!has(c)`,
				} {
					w.valid++
					w.check(s, nil, "degenerate")
				}
				w.useGlobal = false
			})
			// k = 1: every leaf form, three top-level forms, the full style cross product, edits
			for i := range full {
				leaf := full[i]
				emit(func(w *c06Worker) {
					for ti, top := range selgen.Tops(leaf) {
						w.useGlobal = ti == 0
						w.tree(top, all, true, true)
					}
					w.useGlobal = false
				})
			}
			// set literals as multisets: every sequence of length 0..5 over three values (so every
			// multiplicity up to 5 in every order) for in / not in; besides the general oracle the
			// canonical text and UniqueID must equal those of the de-duplicated set
			mvals := []string{"x", "y", `q"r`}
			mseqs := selgen.SetsUpTo(mvals, 5)
			c.Extra("multiset_literals", len(mseqs))
			for _, kind := range []selgen.Kind{selgen.In, selgen.NotIn} {
				for _, label := range []string{"a", "in"} {
					emit(func(w *c06Worker) {
						for _, seq := range mseqs {
							leaf := &selgen.Node{Kind: kind, Label: label, Set: seq}
							for _, top := range selgen.Tops(leaf)[:2] {
								w.tree(top, four, len(seq) <= 3, true)
							}
							w.multiset(leaf)
						}
					})
				}
			}
			// k = 2
			g2 := selgen.Groups2(compact2)
			c.Extra("groups_k2", len(g2))
			const chunk = 64
			for i := 0; i < len(g2); i += chunk {
				part := g2[i:min(i+chunk, len(g2))]
				emit(func(w *c06Worker) {
					for _, g := range part {
						for ti, top := range selgen.Tops(g) {
							// near-miss edits of the "!!(...)" form add nothing over those of "!(...)" in the quick tier
							w.tree(top, four, ti < 2 || c.Thorough(), c.Quick())
						}
					}
				})
			}
			// k = 3 (thorough)
			if c.Thorough() {
				u := make([]*selgen.Node, 0, 2*len(compact3))
				for _, l := range compact3 {
					u = append(u, l, &selgen.Node{Kind: selgen.Not, Kids: []*selgen.Node{l}})
				}
				for _, kind := range []selgen.Kind{selgen.And, selgen.Or} {
					for _, first := range u {
						emit(func(w *c06Worker) {
							selgen.Groups3For(kind, first, compact3, func(g *selgen.Node) bool {
								for ti, top := range selgen.Tops(g) {
									// k=3: all surface styles for every tree; near-miss edits for the flat triples
									w.tree(top, four, ti == 0 && len(g.Kids) == 3, false)
								}
								return !c.Expired()
							})
						})
					}
				}
			}
		})
	})
}
